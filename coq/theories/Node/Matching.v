(* C03 on the repaired model: two parties, the follower node of Node/Model.v and the leaders, each leader
   of term T being represented by its log [llog T] (a list that only grows within the term: [llog T] is its
   final value, an Append of term T carries the entry of [llog T] at its offset).

   The leader-side obligations are explicit hypotheses on the schedule ([env_ok], checked state by state):
     - a Replicate stream announces its term, and is opened by a leader whose log contains the follower's log
       up to the head the follower last reported (NewTerm / Truncate / snapshot response);
     - an Append carries the leader's own entry for that offset;
     - a Truncate request leaves on the follower only entries of the leader's log (this is what one round of
       truncation by entry id gives when the follower has an entry of the requested term, see
       [trunc_contract_from_log_matching]; the general case is the known finding
       truncate:kept-lower-term-entries-not-in-leader-log);
     - the node is a follower throughout (no BecomeLeader / client write: C03 is about the follower side).
   Under these, every Ack(o) sent on a stream of term T implies that every entry the follower holds at an
   offset <= o is the leader's entry at that offset, and is durable. *)
From Coq Require Import List ZArith Bool Lia.
From Oxia.Node Require Import Model Lemmas Fence.
Import ListNotations.
Open Scope Z_scope.

Section TwoParty.
Variable llog : Z -> list entry.

Definition authentic (T : Z) (e : entry) : Prop :=
  0 <= e_off e /\ nth_error (llog T) (Z.to_nat (e_off e)) = Some e.
Definition matches (w : list entry) (T : Z) : Prop := forall e, In e w -> authentic T e.

(* the entry is in the synced (durable) prefix of the WAL *)
Definition durable (n : node) (e : entry) : Prop :=
  exists i, nth_error (n_wal n) i = Some e /\ (i < n_synced n)%nat.

(* ghost: head offset last reported to a leader; "the log is known to be a sub-log of the current term's leader" *)
Record ghost := mkG { g_rep : Z; g_att : bool }.

Definition gstep (n : node) (a : action) (o : output) (g : ghost) : ghost :=
  match a, o_res o with
  | NewTermReq t, RHead h => mkG (snd h) (g_att g && (t =? n_term n))
  | TruncateReq _ _, RHead h => mkG (snd h) true
  | SnapshotInstall _ _ _ _, RSnap c => mkG c true
  | ReplicateOpen _ _, ROk => mkG (g_rep g) true
  | _, _ => g
  end.

Definition upto (o : Z) (w : list entry) : list entry := filter (fun e => e_off e <=? o) w.

Definition env_ok (n : node) (g : ghost) (a : action) : Prop :=
  match a with
  | ReplicateOpen _ t => 0 <= t /\ (t = n_term n -> matches (upto (g_rep g) (n_wal n)) t)
  | FollowerAppend sid e _ => forall s, find_stream n sid = Some s -> authentic (s_term s) e
  | TruncateReq t h => t = n_term n ->
      matches (upto (trunc_target (n_wal n) (length (n_wal n)) h) (n_wal n)) t
  | SnapshotInstall _ t _ f => -1 <= t /\ (f <= 1)%nat
  | BecomeLeaderReq _ | ClientWrite _ | LeaderSyncDone | DeleteShardReq _ => False
  | _ => True
  end.

Inductive greach : node -> ghost -> Prop :=
| gr_init : greach init (mkG (-1) false)
| gr_step : forall n g a n' o, greach n g -> env_ok n g a -> step cfg_fixed n a = (n', o) ->
    greach n' (gstep n a o g).

Definition mfacts (n : node) (g : ghost) : Prop :=
  n_status n <> Leader /\
  (g_att g = true -> matches (n_wal n) (n_term n)) /\
  (g_att g = false -> forall e, In e (n_wal n) -> e_off e <= g_rep g) /\
  (forall s, In s (n_streams n) -> 0 <= s_term s) /\
  (forall s, In s (n_streams n) -> s_open s = n_term n -> g_att g = true).

Definition minv (n : node) (g : ghost) : Prop := inv n /\ mfacts n g.

Lemma env_wf : forall n g a, env_ok n g a -> wf_action a.
Proof. intros n g a H. destruct a; cbn in *; auto. Qed.

(* ---- list facts *)
Lemma upto_all : forall w o, (forall e, In e w -> e_off e <= o) -> upto o w = w.
Proof.
  induction w as [|a tl IH]; intros o H; [reflexivity|]. cbn.
  replace (e_off a <=? o) with true by (symmetry; apply Z.leb_le; apply H; left; reflexivity).
  f_equal. apply IH. intros e He. apply H. right. assumption.
Qed.

Lemma matches_sub : forall w w' T, matches w T -> (forall e, In e w' -> In e w) -> matches w' T.
Proof. unfold matches. auto. Qed.

Lemma chain_off_le_last : forall w next e, chain next w -> In e w -> e_off e <= last_off w.
Proof.
  intros w next e Hc Hin. apply In_nth_error in Hin. destruct Hin as [i Hi].
  assert (Hne : w <> []) by (intro; subst; destruct i; discriminate).
  rewrite (chain_last_off _ _ Hc Hne). rewrite (chain_nth _ _ _ _ Hc Hi).
  assert (i < length w)%nat by (apply nth_error_Some; congruence). lia.
Qed.

Lemma wal_ok_off_le_last : forall w e, wal_ok w -> In e w -> e_off e <= last_off w.
Proof. intros w e H Hin. destruct w as [|a tl]; [contradiction|]. destruct H as [_ Hc]. eapply chain_off_le_last; eassumption. Qed.

Lemma wal_ok_off_nonneg : forall w e, wal_ok w -> In e w -> 0 <= e_off e.
Proof.
  intros w e H Hin. destruct w as [|a tl]; [contradiction|]. destruct H as [H0 Hc].
  apply In_nth_error in Hin. destruct Hin as [i Hi]. rewrite (chain_nth _ _ _ _ Hc Hi). lia.
Qed.

Lemma last_entry_In : forall w e, last_entry w = Some e -> In e w.
Proof. intros w e H. unfold last_entry in H. eapply nth_error_In. eassumption. Qed.

Lemma wal_truncate_upto : forall w s o w' s' ho, wal_ok w -> wal_truncate w s o = Some (w', s', ho) ->
  w' = upto o w.
Proof.
  intros w s o w' s' ho H Ht. unfold wal_truncate in Ht. unfold upto.
  assert (Hneg : forall x, x < 0 -> filter (fun e => e_off e <=? x) w = []).
  { intros x Hx. assert (Hall : forall e, In e w -> (e_off e <=? x) = false).
    { intros e He. apply Z.leb_gt. pose proof (wal_ok_off_nonneg _ _ H He). lia. }
    clear Ht H. induction w as [|a tl IH]; [reflexivity|]. cbn. rewrite (Hall a (or_introl eq_refl)).
    apply IH. intros e He. apply Hall. right. assumption. }
  destruct (o =? -1) eqn:E1.
  { apply Z.eqb_eq in E1. inversion Ht; subst. symmetry. apply Hneg. lia. }
  destruct (last_off w =? -1) eqn:E2.
  { apply Z.eqb_eq in E2. inversion Ht; subst. rewrite (wal_ok_last_off_empty _ H E2). reflexivity. }
  destruct (o <? first_off w) eqn:E3.
  { apply Z.ltb_lt in E3. inversion Ht; subst. destruct w as [|a tl]; [reflexivity|]. cbn in E3.
    destruct H as [H0 Hc]. rewrite (filter_le_chain _ _ o Hc). replace (Z.to_nat (o - e_off a + 1)) with O by lia. reflexivity. }
  destruct (last_off w <? o); [discriminate|]. inversion Ht; subst. reflexivity.
Qed.

Lemma In_upto : forall o w e, In e (upto o w) -> In e w /\ e_off e <= o.
Proof. intros o w e H. unfold upto in H. apply filter_In in H. destruct H as [H1 H2]. apply Z.leb_le in H2. auto. Qed.

Lemma leader_new_term_cases : forall m t n' o, inv m -> leader_new_term cfg_fixed m t = (n', o) ->
  (exists h, o_res o = RHead h) \/ (n' = m /\ forall h, o_res o <> RHead h).
Proof.
  intros m t n' o H Hs. unfold leader_new_term in Hs.
  destruct (t <? n_term m); [inversion Hs; subst; right; split; [reflexivity|intros; discriminate]|].
  destruct ((t =? n_term m) && _); [inversion Hs; subst; right; split; [reflexivity|intros; discriminate]|].
  cbn [fix_head cfg_fixed] in Hs. destruct (complete_writes _ _ _) as [m2 r] eqn:Hc.
  apply complete_writes_pres in Hc. destruct Hc as (_ & Hw & Hsy & _). cbn in Hw, Hsy.
  destruct H as (Hwal & _). pose proof (get_last_eid_full (n_wal m) Hwal) as Hg.
  cbn in Hs. rewrite Hw, Hsy, Hg in Hs. inversion Hs; subst. left. eexists. reflexivity.
Qed.

Lemma newterm_cases : forall n t n' o, inv n -> step cfg_fixed n (NewTermReq t) = (n', o) ->
  (exists h, o_res o = RHead h) \/ ((n' = get_or_create_leader n \/ n' = n) /\ forall h, o_res o <> RHead h).
Proof.
  intros n t n' o H Hs. cbn [step] in Hs. destruct (n_role n) eqn:Hro.
  - destruct (leader_new_term_cases _ _ _ _ (proj1 (inv_get_or_create_leader _ H)) Hs) as [Hx|[Hx Hy]]; [left; assumption|right; split; [left; assumption|assumption]].
  - unfold follower_new_term in Hs.
    destruct (t <? n_term n); [inversion Hs; subst; right; split; [right; reflexivity|intros; discriminate]|].
    cbn [fix_head cfg_fixed] in Hs. destruct H as (Hwal & _). pose proof (get_last_eid_full (n_wal n) Hwal) as Hg.
    cbn in Hs. rewrite Hg in Hs. inversion Hs; subst. left. eexists. reflexivity.
  - destruct (leader_new_term_cases _ _ _ _ (proj1 (inv_get_or_create_leader _ H)) Hs) as [Hx|[Hx Hy]]; [left; assumption|right; split; [left; assumption|assumption]].
Qed.

Lemma leader_new_term_streams : forall m t n' o, leader_new_term cfg_fixed m t = (n', o) ->
  n_streams n' = n_streams m.
Proof.
  intros m t n' o Hs. unfold leader_new_term in Hs.
  destruct (t <? n_term m); [inversion Hs; subst; reflexivity|].
  destruct ((t =? n_term m) && _); [inversion Hs; subst; reflexivity|].
  cbn [fix_head cfg_fixed] in Hs. destruct (complete_writes _ _ _) as [m2 r] eqn:Hc.
  apply complete_writes_pres in Hc. destruct Hc as (_&_&_&_&_&Hcs&_). cbn in Hcs.
  destruct (get_last_eid _ _); inversion Hs; subst; cbn; assumption.
Qed.

Lemma gocl_streams_sub : forall n s, In s (n_streams (get_or_create_leader n)) -> In s (n_streams n).
Proof. intros n s H. unfold get_or_create_leader in H. destruct (n_role n); cbn in H; auto; contradiction. Qed.

Lemma newterm_streams_sub : forall n t n' o, step cfg_fixed n (NewTermReq t) = (n', o) ->
  forall s, In s (n_streams n') -> In s (n_streams n).
Proof.
  intros n t n' o Hs s Hin. cbn [step] in Hs. destruct (n_role n).
  - apply leader_new_term_streams in Hs. rewrite Hs in Hin. apply gocl_streams_sub. assumption.
  - unfold follower_new_term in Hs. destruct (t <? n_term n); [inversion Hs; subst; assumption|].
    destruct (get_last_eid _ _); inversion Hs; subst; cbn in Hin; assumption.
  - apply leader_new_term_streams in Hs. rewrite Hs in Hin. apply gocl_streams_sub. assumption.
Qed.

(* ---- preservation of [minv] *)
(* facts that only depend on term, wal, status and the set of streams *)
Lemma mfacts_transfer : forall n m g, mfacts n g -> n_term m = n_term n -> n_wal m = n_wal n ->
  (n_status n <> Leader -> n_status m <> Leader) ->
  (forall s, In s (n_streams m) -> exists s0, In s0 (n_streams n) /\ s_term s = s_term s0 /\ s_open s = s_open s0) ->
  mfacts m g.
Proof.
  intros n m g (A & B & C & D & E) Ht Hw Hs Hst. unfold mfacts. rewrite Ht, Hw.
  split; [auto|]. split; [assumption|]. split; [assumption|]. split.
  - intros s Hin. destruct (Hst s Hin) as [s0 (H0 & H1 & H2)]. rewrite H1. auto.
  - intros s Hin Ho. destruct (Hst s Hin) as [s0 (H0 & H1 & H2)]. apply (E s0 H0). congruence.
Qed.

Lemma streams_same : forall (l : list stream) s, In s l -> exists s0, In s0 l /\ s_term s = s_term s0 /\ s_open s = s_open s0.
Proof. intros l s H. exists s. auto. Qed.

Lemma streams_upd_same : forall (l : list stream) s' s1 k, In s1 l -> s_term s' = s_term s1 -> s_open s' = s_open s1 ->
  forall s, In s (map (fun y => if Nat.eqb (s_id y) k then s' else y) l) ->
  exists s0, In s0 l /\ s_term s = s_term s0 /\ s_open s = s_open s0.
Proof.
  intros l s' s1 k H1 Ht Ho s Hin. apply in_map_iff in Hin. destruct Hin as [y [Hy Hiny]].
  destruct (Nat.eqb (s_id y) k); subst s; [exists s1|exists y]; auto.
Qed.

Lemma mfacts_gocf : forall n t m g, mfacts n g -> n_termlost n = false -> get_or_create_follower n t = Some m -> mfacts m g.
Proof.
  intros n t m g H Htl0 Hg. destruct (gocf_facts _ _ _ Hg Htl0) as (A & B & _ & D & _).
  eapply mfacts_transfer; try eassumption.
  intros s Hin. unfold get_or_create_follower in Hg. destruct (n_role n).
  - inversion Hg; subst; cbn in Hin; contradiction.
  - inversion Hg; subst. apply streams_same. assumption.
  - destruct (_ && _); [discriminate|]. inversion Hg; subst; cbn in Hin; contradiction.
Qed.

Lemma mfacts_gocl : forall n g, mfacts n g -> n_termlost n = false -> mfacts (get_or_create_leader n) g.
Proof.
  intros n g H Htl0. destruct (gocl_facts n Htl0) as (A & B & _ & D & _).
  eapply mfacts_transfer; try eassumption.
  intros s Hin. apply gocl_streams_sub in Hin. apply streams_same. assumption.
Qed.

Lemma mf_newterm : forall n g t n' o, inv n -> mfacts n g ->
  step cfg_fixed n (NewTermReq t) = (n', o) -> mfacts n' (gstep n (NewTermReq t) o g).
Proof.
  intros n g t n' o Hinv Hm Hs.
  destruct (newterm_cases _ _ _ _ Hinv Hs) as [[h Hh]|[Hn' Hno]].
  - destruct (newterm_head_truthful _ _ _ _ _ Hinv Hs Hh) as (A & B & C & D & E & F & G).
    pose proof (newterm_streams_sub _ _ _ _ Hs) as Hsub.
    assert (Hinv' : inv n') by (exact (step_inv _ (NewTermReq t) _ _ Hinv I Hs)).
    destruct Hm as (M1 & M2 & M3 & M4 & M5). pose proof Hinv as Hinv0. break_inv Hinv0.
    unfold gstep. rewrite Hh. cbn [g_rep g_att snd]. unfold mfacts.
    split; [rewrite E; discriminate|]. split; [|split; [|split]].
    + intro Hat. apply andb_true_iff in Hat. destruct Hat as [Hat Heq]. apply Z.eqb_eq in Heq.
      rewrite C, D, Heq. apply M2. assumption.
    + intros _ e He. rewrite A. destruct (last_entry (n_wal n')) as [el|] eqn:Hl.
      * cbn. rewrite <- (last_entry_off _ _ Hl). apply wal_ok_off_le_last; [|assumption].
        destruct Hinv' as (Hw' & _). exact Hw'.
      * exfalso. destruct (n_wal n') as [|x tl]; [contradiction|].
        destruct (last_entry_some (x :: tl) ltac:(discriminate)) as [y Hy]. congruence.
    + intros s Hin. apply M4. apply Hsub. assumption.
    + intros s Hin Ho. apply Hsub in Hin. apply andb_true_iff.
      destruct (Hstr s Hin) as [_ Hle]. rewrite D in Ho.
      assert (t = n_term n) by lia. split; [apply (M5 s); [assumption|lia]|apply Z.eqb_eq; assumption].
  - assert (Hg : gstep n (NewTermReq t) o g = g).
    { unfold gstep. destruct (o_res o); try reflexivity. exfalso. eapply Hno. reflexivity. }
    rewrite Hg. destruct Hn' as [Hn'|Hn']; subst n'; [apply mfacts_gocl; [assumption|apply termlost_inv; assumption]|assumption].
Qed.

Lemma mf_truncate : forall m g t h n' o, inv m -> mfacts m g ->
  (t = n_term m -> matches (upto (trunc_target (n_wal m) (length (n_wal m)) h) (n_wal m)) t) ->
  follower_truncate cfg_fixed m t h = (n', o) ->
  mfacts n' (match o_res o with RHead h' => mkG (snd h') true | _ => g end).
Proof.
  intros m g t h n' o Hinv Hm Henv Hs. unfold follower_truncate in Hs.
  assert (Hsame : forall st r, (forall h', r <> RHead h') -> st <> Leader ->
            mfacts (set_status m st) (match r with RHead h' => mkG (snd h') true | _ => g end)).
  { intros st r Hr Hst. replace (match r with RHead h' => mkG (snd h') true | _ => g end) with g
      by (destruct r; try reflexivity; exfalso; eapply Hr; reflexivity).
    eapply mfacts_transfer; try exact Hm; try reflexivity; [intros _; exact Hst|apply streams_same]. }
  assert (Hsame0 : forall r, (forall h', r <> RHead h') ->
            mfacts m (match r with RHead h' => mkG (snd h') true | _ => g end)).
  { intros r Hr. replace (match r with RHead h' => mkG (snd h') true | _ => g end) with g
      by (destruct r; try reflexivity; exfalso; eapply Hr; reflexivity). assumption. }
  destruct (n_status m) eqn:Hsm; try (inversion Hs; subst n' o; apply Hsame0; intros; discriminate).
  destruct (negb (t =? n_term m)) eqn:Hb; [inversion Hs; subst n' o; apply Hsame0; intros; discriminate|].
  bools. cbn [fix_trunc cfg_fixed] in Hs.
  pose proof Hinv as Hi0. destruct Hi0 as (Hmwal & _ & Hmfen & _). specialize (Hmfen Hsm).
  destruct Hm as (M1 & M2 & M3 & M4 & M5).
  destruct (wal_truncate _ _ _) as [[[w' s'] ho]|] eqn:Htr.
  - cbn in Htr. pose proof (wal_truncate_upto _ _ _ _ _ _ Hmwal Htr) as Hw'.
    inversion Hs; subst n' o. cbn. unfold mfacts; cbn.
    split; [discriminate|]. split; [|split; [intro; discriminate|split; [assumption|intros; reflexivity]]].
    intros _. rewrite Hw', Hmfen. rewrite <- Hb. apply Henv. assumption.
  - inversion Hs; subst n' o. apply (Hsame Follower (RErr EOutOfBounds)); [intros; discriminate|discriminate].
Qed.

Lemma mf_open : forall m g sid t n' o, inv m -> mfacts m g ->
  0 <= t -> (t = n_term m -> matches (upto (g_rep g) (n_wal m)) t) ->
  follower_replicate_open cfg_fixed m sid t = (n', o) ->
  mfacts n' (match o_res o with ROk => mkG (g_rep g) true | _ => g end).
Proof.
  intros m g sid t n' o Hinv Hm Ht0 Henv Hs. unfold follower_replicate_open in Hs.
  destruct (find_stream m sid); [inversion Hs; subst; assumption|].
  assert (Hmain : (if fix_open cfg_fixed && (0 <=? t) && negb (t =? n_term m) then (m, out (RErr EInvalidTerm))
      else match n_cur m with
           | Some _ => (m, out (RErr EAlreadyConnected))
           | None => (set_streams (set_cur m (Some sid))
                        (n_streams m ++ [mkS sid t (n_term m) (if first_off (n_wal m) =? -1 then n_last m else last_synced (n_wal m) (n_synced m)) true SIdle]), out ROk)
           end) = (n', o) -> mfacts n' (match o_res o with ROk => mkG (g_rep g) true | _ => g end)).
  { intro Hx. cbn [fix_open cfg_fixed] in Hx.
    destruct (true && (0 <=? t) && negb (t =? n_term m)) eqn:Hc; [inversion Hx; subst; assumption|].
    destruct (n_cur m); [inversion Hx; subst; assumption|]. inversion Hx; subst n' o. cbn.
    assert (Htm : t = n_term m) by (cbn [andb] in Hc; apply andb_false_iff in Hc; destruct Hc as [Hc|Hc]; bools; lia).
    destruct Hm as (M1 & M2 & M3 & M4 & M5). unfold mfacts; cbn.
    split; [assumption|]. split; [|split; [intro; discriminate|split; [|intros; reflexivity]]].
    - intros _. destruct (g_att g) eqn:Hga; [apply M2; reflexivity|].
      rewrite <- Htm. rewrite <- (upto_all (n_wal m) (g_rep g)); [apply Henv; assumption|apply M3; reflexivity].
    - intros s Hin. apply in_app_or in Hin. destruct Hin as [Hin|[Hin|[]]]; [apply M4; assumption|subst s; cbn; assumption]. }
  destruct (n_status m); try (inversion Hs; subst; assumption); apply Hmain; exact Hs.
Qed.

Lemma mf_append : forall m g sid e c n' o, inv m -> mfacts m g ->
  (forall s, find_stream m sid = Some s -> authentic (s_term s) e) ->
  follower_append cfg_fixed m sid e c = (n', o) -> mfacts n' g.
Proof.
  intros m g sid e c n' o Hinv Hm Henv Hs. unfold follower_append in Hs.
  destruct (find_stream m sid) as [s|] eqn:Hf; [|inversion Hs; subst; assumption].
  destruct (negb (s_recv s)); [inversion Hs; subst; assumption|].
  pose proof (find_stream_In _ _ _ Hf) as [Hsin Hsid].
  pose proof Hinv as Hi0. break_inv Hi0.
  destruct (negb (s_term s =? n_term m)) eqn:Hb.
  { inversion Hs; subst n' o. eapply mfacts_transfer; try exact Hm; try reflexivity; [auto|].
    cbn. eapply streams_upd_same; [exact Hsin|reflexivity|reflexivity]. }
  bools. cbn [fix_dup cfg_fixed] in Hs.
  destruct (e_off e <=? n_last (set_status m Follower)).
  { destruct (true && _); inversion Hs; subst n' o;
      (eapply mfacts_transfer; try exact Hm; try reflexivity; [intros _; discriminate|cbn; apply streams_same]). }
  destruct (wal_append (n_wal (set_status m Follower)) e) as [w'|] eqn:Ha.
  - cbn in Ha. apply wal_append_ok in Ha; [|assumption]. destruct Ha as [Hw' _].
    inversion Hs; subst n' o. destruct Hm as (M1 & M2 & M3 & M4 & M5).
    assert (Hatt1 : g_att g = true).
    { apply (M5 s Hsin). destruct (Hstr s Hsin) as [Hso _]. rewrite <- (Hso (M4 s Hsin)). assumption. }
    unfold mfacts; cbn. split; [discriminate|]. split; [|split; [rewrite Hatt1; discriminate|split; assumption]].
    intros _. subst w'. intros x Hx. apply in_app_or in Hx. destruct Hx as [Hx|[Hx|[]]].
    + apply M2; assumption.
    + subst x. rewrite <- Hb. apply Henv. reflexivity.
  - inversion Hs; subst n' o. eapply mfacts_transfer; try exact Hm; try reflexivity; [intros _; discriminate|].
    cbn. eapply streams_upd_same; [exact Hsin|reflexivity|reflexivity].
Qed.

Lemma mf_sync_begin : forall m g sid n' o, mfacts m g -> follower_sync_begin m sid = (n', o) -> mfacts n' g.
Proof.
  intros m g sid n' o Hm Hs. unfold follower_sync_begin in Hs.
  destruct (find_stream m sid) as [s|] eqn:Hf; [|inversion Hs; subst; assumption].
  pose proof (find_stream_In _ _ _ Hf) as [Hsin Hsid].
  destruct (s_sync s); try (inversion Hs; subst; assumption).
  destruct (n_signal m); inversion Hs; subst n' o; [|assumption].
  eapply mfacts_transfer; try exact Hm; try reflexivity; [auto|].
  cbn. eapply streams_upd_same; [exact Hsin|reflexivity|reflexivity].
Qed.

Lemma mf_sync_end : forall m g sid n' o, mfacts m g -> follower_sync_end cfg_fixed m sid = (n', o) -> mfacts n' g.
Proof.
  intros m g sid n' o Hm Hs. unfold follower_sync_end in Hs.
  destruct (find_stream m sid) as [s|] eqn:Hf; [|inversion Hs; subst; assumption].
  pose proof (find_stream_In _ _ _ Hf) as [Hsin Hsid].
  destruct (s_sync s); try (inversion Hs; subst; assumption).
  cbn [fix_ack cfg_fixed] in Hs.
  destruct (negb _); inversion Hs; subst n' o;
    (eapply mfacts_transfer; try exact Hm; try reflexivity; [auto|];
     cbn; eapply streams_upd_same; [exact Hsin|reflexivity|reflexivity]).
Qed.

Lemma mf_stream_break : forall m g sid n' o, mfacts m g -> follower_stream_break m sid = (n', o) -> mfacts n' g.
Proof.
  intros m g sid n' o Hm Hs. unfold follower_stream_break in Hs.
  destruct (find_stream m sid) as [s|] eqn:Hf; [|inversion Hs; subst; assumption].
  pose proof (find_stream_In _ _ _ Hf) as [Hsin Hsid].
  destruct (negb _); [inversion Hs; subst; assumption|].
  destruct (s_sync s); inversion Hs; subst n' o;
    (eapply mfacts_transfer; try exact Hm; try reflexivity; [auto|];
     cbn; eapply streams_upd_same; [exact Hsin|reflexivity|reflexivity]).
Qed.

Lemma mf_snapshot : forall m g sid t c f n' o, mfacts m g -> (f <= 1)%nat ->
  follower_snapshot cfg_fixed m sid t c f = (n', o) ->
  mfacts n' (match o_res o with RSnap c' => mkG c' true | _ => g end).
Proof.
  intros m g sid t c f n' o Hm Hf Hs. unfold follower_snapshot in Hs. cbn [fix_snap cfg_fixed] in Hs.
  destruct (n_cur m); [inversion Hs; subst; assumption|].
  destruct f as [|[|f']]; [|inversion Hs; subst; assumption|lia]. cbn [Nat.eqb andb] in Hs.
  destruct (negb (n_term m =? -1) && negb (t =? n_term m)) eqn:Hb; cbn [andb] in Hs; [inversion Hs; subst; assumption|].
  inversion Hs; subst n' o. cbn. destruct Hm as (M1 & M2 & M3 & M4 & M5). unfold mfacts; cbn.
  split; [assumption|]. split; [intros _ e He; contradiction|]. split; [intro; discriminate|]. split; [assumption|intros; reflexivity].
Qed.

Theorem greach_minv : forall n g, greach n g -> minv n g.
Proof.
  intros n g H. induction H as [|n g a n' o Hr IH Henv Hs].
  - split; [apply inv_init|]. unfold mfacts; cbn.
    split; [discriminate|]. split; [discriminate|]. split; [intros _ e He; contradiction|]. split; intros; contradiction.
  - destruct IH as (Hinv & Hm).
    assert (Hinv' : inv n') by (eapply step_inv; [exact Hinv|eapply env_wf; exact Henv|exact Hs]).
    split; [exact Hinv'|].
    destruct a; cbn [env_ok] in Henv; try contradiction.
    + apply mf_newterm; assumption.
    + cbn [step] in Hs. destruct (get_or_create_follower n t) as [m|] eqn:Hg; [|inversion Hs; subst n' o; exact Hm].
      destruct (inv_get_or_create_follower _ _ _ Hinv Hg) as (Hmi & Hmr & Hmt & Hmw).
      unfold gstep. eapply mf_truncate; [exact Hmi|eapply mfacts_gocf; [eassumption|apply termlost_inv; assumption|eassumption]| |exact Hs].
      rewrite Hmt, Hmw. exact Henv.
    + cbn [step] in Hs. destruct Henv as [Ht0 Hc].
      destruct (get_or_create_follower n t) as [m|] eqn:Hg; [|inversion Hs; subst n' o; exact Hm].
      destruct (inv_get_or_create_follower _ _ _ Hinv Hg) as (Hmi & Hmr & Hmt & Hmw).
      unfold gstep. eapply mf_open; [exact Hmi|eapply mfacts_gocf; [eassumption|apply termlost_inv; assumption|eassumption]|exact Ht0| |exact Hs].
      rewrite Hmt, Hmw. exact Hc.
    + cbn [step] in Hs. destruct (n_role n); try (inversion Hs; subst n' o; exact Hm).
      replace (gstep n (FollowerAppend sid e commit) o g) with g by (unfold gstep; destruct (o_res o); reflexivity).
      exact (mf_append n g sid e commit n' o Hinv Hm Henv Hs).
    + cbn [step] in Hs. destruct (n_role n); try (inversion Hs; subst n' o; exact Hm).
      replace (gstep n (SyncBegin sid) o g) with g by (unfold gstep; destruct (o_res o); reflexivity).
      exact (mf_sync_begin n g sid n' o Hm Hs).
    + cbn [step] in Hs. destruct (n_role n); try (inversion Hs; subst n' o; exact Hm).
      replace (gstep n (SyncEnd sid) o g) with g by (unfold gstep; destruct (o_res o); reflexivity).
      exact (mf_sync_end n g sid n' o Hm Hs).
    + cbn [step] in Hs. destruct (n_role n); try (inversion Hs; subst n' o; exact Hm).
      replace (gstep n (StreamBreak sid) o g) with g by (unfold gstep; destruct (o_res o); reflexivity).
      exact (mf_stream_break n g sid n' o Hm Hs).
    + cbn [step] in Hs. destruct (get_or_create_follower n t) as [m|] eqn:Hg; [|inversion Hs; subst n' o; exact Hm].
      unfold gstep. destruct Henv as [_ Hf]. eapply mf_snapshot; [eapply mfacts_gocf; [eassumption|apply termlost_inv; assumption|eassumption]|exact Hf|exact Hs].
    + cbn [step] in Hs. inversion Hs; subst n' o. unfold gstep; cbn.
      destruct Hm as (M1 & M2 & M3 & M4 & M5). unfold mfacts; cbn. rewrite (dterm_inv _ Hinv).
      split; [apply status_of_term_not_leader|].
      split; [intros Ha e He; apply M2; [assumption|eapply In_firstn; eassumption]|].
      split; [intros Ha e He; apply M3; [assumption|eapply In_firstn; eassumption]|].
      split; intros; contradiction.
Qed.


(* ---- durability of what is acknowledged *)
Lemma wal_durable : forall w s e, wal_ok w -> In e w -> e_off e <= last_off (firstn s w) ->
  exists i, nth_error w i = Some e /\ (i < s)%nat.
Proof.
  intros w s e Hok Hin Hle. destruct w as [|a tl]; [contradiction|]. destruct Hok as [H0 Hc].
  apply In_nth_error in Hin. destruct Hin as [i Hi]. exists i. split; [assumption|].
  pose proof (chain_nth _ _ _ _ Hc Hi) as Ho.
  destruct s as [|s]; [cbn in Hle; lia|].
  pose proof (chain_firstn (S s) _ _ Hc) as Hcf.
  assert (Hne : firstn (S s) (a :: tl) <> []) by (cbn; discriminate).
  rewrite (chain_last_off _ _ Hcf Hne) in Hle. rewrite firstn_length in Hle. lia.
Qed.

(* C03, main statement: when the follower sends Ack(off) on a stream, every entry it holds at an offset
   <= off is the entry the leader of that stream's term holds at that offset, and is durable. *)
Theorem ack_implies_matching_durable : forall n g a n' o sid off,
  greach n g -> env_ok n g a -> step cfg_fixed n a = (n', o) -> In (sid, off) (o_acks o) ->
  exists s, find_stream n sid = Some s /\
    forall e, In e (n_wal n') -> e_off e <= off -> authentic (s_term s) e /\ durable n' e.
Proof.
  intros n g a n' o sid off Hr Henv Hs Hin.
  destruct (greach_minv _ _ Hr) as (Hinv & Hm).
  assert (Hr' : greach n' (gstep n a o g)) by (eapply gr_step; eassumption).
  destruct (greach_minv _ _ Hr') as (Hinv' & Hm').
  destruct (step_acks _ _ _ _ _ _ Hinv Hs Hin) as [s (Hf & Hst & Hterm)].
  exists s. split; [assumption|].
  pose proof (find_stream_In _ _ _ Hf) as [Hsin Hsid].
  destruct Hm as (M1 & M2 & M3 & M4 & M5). pose proof Hinv as Hi0. break_inv Hi0.
  assert (Hs_term : s_term s = n_term n) by (rewrite <- Hterm; apply Hst; apply M4; assumption).
  assert (Hatt : g_att g = true).
  { apply (M5 s Hsin). destruct (Hstr s Hsin) as [Hso _]. rewrite <- (Hso (M4 s Hsin)). assumption. }
  (* the acknowledging actions do not change the log, the term or the ghost *)
  assert (Hkey : n_wal n' = n_wal n /\ forall e, In e (n_wal n') -> e_off e <= off -> durable n' e).
  { destruct (acks_only _ _ _ _ _ _ Hs Hin) as [[e0 [c0 [Ha Hoff]]]|Ha]; subst a; cbn [step] in Hs.
    - (* FollowerAppend, duplicate *)
      destruct (n_role n); try (inversion Hs; subst; contradiction).
      unfold follower_append in Hs. rewrite Hf in Hs.
      destruct (negb (s_recv s)); [inversion Hs; subst; contradiction|].
      destruct (negb (s_term s =? n_term n)); [inversion Hs; subst; contradiction|].
      cbn [fix_dup cfg_fixed] in Hs.
      destruct (e_off e0 <=? n_last (set_status n Follower)).
      + destruct (true && (last_synced (n_wal (set_status n Follower)) (n_synced (set_status n Follower)) <? e_off e0)) eqn:Hc;
          inversion Hs; subst n' o; cbn in Hin; destruct Hin as [Hin|[]]; inversion Hin; subst; cbn.
        * split; [reflexivity|]. intros x Hx _. unfold durable; cbn.
          apply In_nth_error in Hx. destruct Hx as [i Hi]. exists i. split; [assumption|]. apply nth_error_Some. congruence.
        * split; [reflexivity|]. intros x Hx Hle. unfold durable; cbn.
          cbn [andb] in Hc. unfold set_status, set_term_status in Hc. cbn [n_wal n_synced] in Hc. bools. unfold last_synced in Hc.
          apply wal_durable; [assumption|assumption|]. lia.
      + destruct (wal_append _ _); inversion Hs; subst n' o; cbn in Hin; contradiction.
    - (* SyncEnd *)
      destruct (n_role n); try (inversion Hs; subst; contradiction).
      unfold follower_sync_end in Hs.
      rewrite Hf in Hs.
      destruct (s_sync s); try (inversion Hs; subst; contradiction).
      cbn [fix_ack cfg_fixed] in Hs.
      destruct (negb _); inversion Hs; subst n' o; [contradiction|]. cbn.
      split; [reflexivity|]. intros x Hx _. unfold durable; cbn.
      apply In_nth_error in Hx. destruct Hx as [i Hi]. exists i. split; [assumption|]. apply nth_error_Some. congruence. }
  destruct Hkey as [Hw Hdur]. intros e He Hle. split; [|apply Hdur; assumption].
  rewrite Hs_term. apply M2; [assumption|]. rewrite <- Hw. assumption.
Qed.

(* Consequence: two followers that acknowledged (at least) offset i to the leader of the same term hold the same
   entry at every offset <= i; so do a follower and the leader itself. *)
Corollary acked_entries_agree : forall T e1 e2, authentic T e1 -> authentic T e2 -> e_off e1 = e_off e2 -> e1 = e2.
Proof. intros T e1 e2 [_ H1] [_ H2] Ho. rewrite Ho in H1. congruence. Qed.

(* ---- when one round of truncation by entry id is enough.
   Log matching for the family of leader logs and for the follower's own log:
   an entry of term r at offset i determines the whole prefix up to i (that of the leader of term r). *)
Definition family_lm : Prop := forall T i e, nth_error (llog T) i = Some e ->
  forall j, (j <= i)%nat -> nth_error (llog T) j = nth_error (llog (e_term e)) j.
Definition follower_lm (w : list entry) : Prop := forall e e', In e w -> In e' w -> e_off e' <= e_off e ->
  authentic (e_term e) e'.

Lemma first_with_In : forall p r e, first_with p r = Some e -> In e r /\ p e = true.
Proof.
  induction r as [|a tl IH]; intros e H; [discriminate|]. cbn in H. destruct (p a) eqn:Hp.
  - inversion H; subst. split; [left; reflexivity|assumption].
  - destruct (IH _ H). split; [right; assumption|assumption].
Qed.

(* The leader-side obligation of [env_ok] for Truncate follows from log matching whenever the newest follower
   entry that is not past the requested id (t_h, o_h) has the requested term, or when no entry is kept at all. *)
Theorem trunc_contract_from_log_matching : forall w T h eh,
  wal_ok w -> family_lm -> follower_lm w ->
  nth_error (llog T) (Z.to_nat (snd h)) = Some eh -> e_term eh = fst h -> 0 <= snd h ->
  (forall ek, first_with (fun e => eid_leb (eid_of e) h) (rev (firstn (length w) w)) = Some ek -> e_term ek = fst h) ->
  matches (upto (trunc_target w (length w) h) w) T.
Proof.
  intros w T h eh Hok Hfam Hfl Hh Hth Hh0 Hk. unfold trunc_target.
  destruct (first_with _ _) as [ek|] eqn:Hfw.
  - specialize (Hk ek eq_refl). apply first_with_In in Hfw. destruct Hfw as [Hin Hp].
    apply in_rev in Hin. apply In_firstn in Hin.
    unfold eid_leb in Hp. cbn in Hp. rewrite Hk in Hp.
    assert (Hoff : e_off ek <= snd h).
    { apply orb_true_iff in Hp. destruct Hp as [Hp|Hp]; bools; [lia|assumption]. }
    intros e He. apply In_upto in He. destruct He as [He Hle].
    destruct (Hfl ek e Hin He Hle) as [He0 Hauth]. split; [assumption|].
    rewrite Hk in Hauth. rewrite <- Hth in Hauth.
    rewrite (Hfam T _ _ Hh (Z.to_nat (e_off e))); [assumption|lia].
  - intros e He. apply In_upto in He. destruct He as [He Hle].
    pose proof (wal_ok_off_nonneg _ _ Hok He). lia.
Qed.

End TwoParty.
