From Coq Require Import List ZArith Bool Lia.
From Oxia.Node Require Import Model Lemmas.
Import ListNotations.
Open Scope Z_scope.

(* entry terms are non-decreasing along the log: every log a real leader produces *)
Definition term_sorted (w : list entry) : Prop :=
  forall i j ei ej, nth_error w i = Some ei -> nth_error w j = Some ej -> (i <= j)%nat -> e_term ei <= e_term ej.

Lemma first_with_rev_some : forall p w e, first_with p (rev w) = Some e ->
  exists l1 l2, w = l1 ++ e :: l2 /\ p e = true /\ forall x, In x l2 -> p x = false.
Proof.
  intros p w. induction w as [|a tl IH] using rev_ind; intros e H; [discriminate|].
  rewrite rev_app_distr in H. cbn in H. destruct (p a) eqn:Hp.
  - inversion H; subst. exists tl, []. split; [reflexivity|]. split; [assumption|]. intros x [].
  - destruct (IH _ H) as [l1 [l2 (Hw & Hpe & Hl2)]]. exists l1, (l2 ++ [a]). split.
    + rewrite Hw. rewrite <- app_assoc. reflexivity.
    + split; [assumption|]. intros x Hx. apply in_app_or in Hx. destruct Hx as [Hx|[Hx|[]]]; [auto|subst; assumption].
Qed.

Lemma first_with_rev_none : forall p w, first_with p (rev w) = None -> forall x, In x w -> p x = false.
Proof.
  intros p w. induction w as [|a tl IH] using rev_ind; intros H x Hx; [contradiction|].
  rewrite rev_app_distr in H. cbn in H. destruct (p a) eqn:Hp; [discriminate|].
  apply in_app_or in Hx. destruct Hx as [Hx|[Hx|[]]]; [auto|subst; assumption].
Qed.

(* On a well-formed, term-sorted log the repaired Truncate keeps exactly the entries whose id is <= the requested id. *)
Theorem truncate_keeps_exactly_le_when_sorted : forall w h, wal_ok w -> term_sorted w ->
  forall e, In e w ->
    ((e_off e <=? trunc_target w (length w) h) = true <-> eid_leb (eid_of e) h = true).
Proof.
  intros w h Hok Hs e Hin. unfold trunc_target. rewrite firstn_all.
  destruct w as [|a0 tl0]; [contradiction|]. destruct Hok as [H0 Hc]. remember (a0 :: tl0) as w.
  assert (Hmono : forall i j ei ej, nth_error w i = Some ei -> nth_error w j = Some ej -> (i <= j)%nat ->
            eid_leb (eid_of ej) h = true -> eid_leb (eid_of ei) h = true).
  { intros i j ei ej Hi Hj Hij Hp. pose proof (Hs _ _ _ _ Hi Hj Hij) as Ht.
    pose proof (chain_nth _ _ _ _ Hc Hi) as Hoi. pose proof (chain_nth _ _ _ _ Hc Hj) as Hoj.
    unfold eid_leb, eid_of in *. cbn [fst snd] in *.
    apply orb_true_iff in Hp. apply orb_true_iff.
    destruct Hp as [Hp|Hp].
    - apply Z.ltb_lt in Hp. left. apply Z.ltb_lt. lia.
    - apply andb_true_iff in Hp. destruct Hp as [Hp1 Hp2]. apply Z.eqb_eq in Hp1. apply Z.leb_le in Hp2.
      destruct (Z.eq_dec (e_term ei) (fst h)) as [He|He].
      + right. apply andb_true_iff. split; [apply Z.eqb_eq; assumption|apply Z.leb_le; lia].
      + left. apply Z.ltb_lt. lia. }
  destruct (first_with _ (rev w)) as [ek|] eqn:Hfw.
  - apply first_with_rev_some in Hfw. destruct Hfw as [l1 [l2 (Hw & Hpk & Hl2)]].
    assert (Hk : nth_error w (length l1) = Some ek) by (rewrite Hw; rewrite nth_error_app2 by lia; rewrite Nat.sub_diag; reflexivity).
    apply In_nth_error in Hin. destruct Hin as [i Hi].
    pose proof (chain_nth _ _ _ _ Hc Hi) as Hoi. pose proof (chain_nth _ _ _ _ Hc Hk) as Hok.
    destruct (le_lt_dec i (length l1)) as [Hle|Hgt].
    + split; intros _; [eapply Hmono; eassumption|apply Z.leb_le; lia].
    + (* e is in l2 *)
      assert (Hin2 : In e l2).
      { rewrite Hw in Hi. rewrite nth_error_app2 in Hi by lia.
        destruct (i - length l1)%nat as [|m] eqn:Hm; [lia|]. cbn in Hi. eapply nth_error_In. eassumption. }
      rewrite (Hl2 _ Hin2). split; intro Hx; [|discriminate]. apply Z.leb_le in Hx. lia.
  - pose proof (first_with_rev_none _ _ Hfw e Hin) as Hp. cbn in Hp. rewrite Hp.
    split; intro Hx; [|discriminate]. apply Z.leb_le in Hx.
    apply In_nth_error in Hin. destruct Hin as [i Hi]. pose proof (chain_nth _ _ _ _ Hc Hi). subst w. cbn in H0. lia.
Qed.

(* a sorted, non-trivial log: entries of a dead higher term at and below the requested offset are removed, the rest kept *)
Example truncate_sorted_example :
  let w := [mkE 2 0 1; mkE 2 1 2; mkE 4 2 3; mkE 4 3 4] in
  wal_ok w /\ term_sorted w /\ trunc_target w (length w) (2, 3) = 1 /\
  filter (fun e => e_off e <=? trunc_target w (length w) (2, 3)) w = filter (fun e => eid_leb (eid_of e) (2, 3)) w.
Proof.
  cbv zeta. split; [cbn; repeat split; lia|]. split; [|split; reflexivity].
  intros i j ei ej Hi Hj Hij.
  do 5 (destruct i as [|i]; [do 5 (destruct j as [|j]; [cbn in Hi, Hj; inversion Hi; inversion Hj; subst; cbn; lia|]); destruct j; discriminate|]).
  destruct i; discriminate.
Qed.
