(* Preservation, group A: fixed_ens, I_terms, I_elected_unique, I_el, I_elog. *)
From Coq Require Import List Arith Bool PeanoNat Lia.
From Oxia.Cluster Require Import Model Invariants StepFacts Safety.
Import ListNotations.

(* ---------- inversion of a non-swap step, all actions at once ---------- *)
Ltac step_inv a w' Hns Hstep :=
  destruct a; try discriminate Hns;
  [ apply step_NewElection in Hstep
  | apply step_NewTerm in Hstep; cbv zeta in Hstep;
    destruct Hstep as (Ht1 & Htc & Hcond & Hstep)
  | apply step_Elect in Hstep; cbv zeta in Hstep;
    destruct Hstep as (llog & Hl_in & Hnel & Ht1 & Hnd & Hincl & Hndr & Hinclr & Hresp & Hmaj & Hmax & Hstep)
  | apply step_BecomeLeader in Hstep; cbv zeta in Hstep;
    destruct Hstep as (Hiel & Hst & Hne & Helog & Hstep)
  | apply step_Attach in Hstep; cbv zeta in Hstep;
    destruct Hstep as (Hlead & Hfl & Hfens & Hfresp & Hnatt & Hcnt &
                       [(start & Hdec & Hstep) | (tk & k & Hdec & Hft & Hfst & Hfne & newlog & Hloop & Hstep)])
  | apply step_FinishBecomeLeader in Hstep; cbv zeta in Hstep;
    destruct Hstep as (Hne & Hhead & Hstep)
  | apply step_ClientWrite in Hstep; cbv zeta in Hstep;
    destruct Hstep as (Hst & Hstep)
  | apply step_SendAppend in Hstep; cbv zeta in Hstep;
    destruct Hstep as (Hlead & Hatt & e & Hnth & Hstep)
  | apply step_RecvAppend in Hstep; cbv zeta in Hstep;
    destruct Hstep as (Happ & Hft & Hfst & Hfne & [(Ho & Hstep) | (Ho & Hstep)])
  | apply step_RecvAck in Hstep; cbv zeta in Hstep;
    destruct Hstep as (Hlead & Hatt & Hack & Ho & Hstep)
  | apply step_AckClient in Hstep; cbv zeta in Hstep;
    destruct Hstep as (e & Hnth & Hst & Het & Ho & Hq & Hstep)
  | apply step_LearnCommit in Hstep; cbv zeta in Hstep;
    destruct Hstep as (Hlead & Hlt & Hc & Hclen & Hstep)
  | apply step_Crash in Hstep; cbv zeta in Hstep ];
  subst w'; unfold set_node;
  cbn [nodes cterm ens removed resps elected elog tlog appends acks cacked cq att].

(* ---------- frame facts ---------- *)
Lemma step_ens w a w' : is_swap a = false -> step w a = Some w' ->
  ens w' = ens w /\ removed w' = removed w.
Proof. intros Hns Hstep. step_inv a w' Hns Hstep; split; reflexivity. Qed.

Lemma step_cterm w a w' : is_swap a = false -> step w a = Some w' -> cterm w <= cterm w'.
Proof. intros Hns Hstep. step_inv a w' Hns Hstep; lia. Qed.

Lemma step_resps w a w' : is_swap a = false -> step w a = Some w' ->
  resps w' = resps w \/
  exists n t, a = NewTerm n t /\ resps w' = (n, t, nlog (nodes w n)) :: resps w /\
              1 <= t /\ t <= cterm w /\ nterm (nodes w' n) = t.
Proof.
  intros Hns Hstep. step_inv a w' Hns Hstep; try (left; reflexivity).
  right. exists n, t. rewrite upd_same. cbn [nterm]. auto.
Qed.

Lemma step_resps_incl w a w' : is_swap a = false -> step w a = Some w' -> incl (resps w) (resps w').
Proof.
  intros Hns Hstep. destruct (step_resps _ _ _ Hns Hstep) as [->|(n & t & _ & -> & _)].
  - apply incl_refl.
  - apply incl_tl, incl_refl.
Qed.

Lemma step_elected w a w' : is_swap a = false -> step w a = Some w' ->
  elected w' = elected w \/
  exists l cands rrs, a = Elect l cands rrs /\ elected w' = (cterm w, l, cands) :: elected w.
Proof.
  intros Hns Hstep. step_inv a w' Hns Hstep; try (left; reflexivity).
  right. exists l, cands, rrs. auto.
Qed.

Lemma step_elected_incl w a w' : is_swap a = false -> step w a = Some w' -> incl (elected w) (elected w').
Proof.
  intros Hns Hstep. destruct (step_elected _ _ _ Hns Hstep) as [->|(l & c & r & _ & ->)].
  - apply incl_refl.
  - apply incl_tl, incl_refl.
Qed.

Lemma step_elog w a w' : is_swap a = false -> step w a = Some w' ->
  elog w' = elog w \/
  exists l, a = BecomeLeader l /\
            elog w' = upd (elog w) (nterm (nodes w l)) (Some (nlog (nodes w l))).
Proof.
  intros Hns Hstep. step_inv a w' Hns Hstep; try (left; reflexivity).
  right. exists l. auto.
Qed.

Lemma step_nterm w a w' : is_swap a = false -> step w a = Some w' ->
  forall m, nterm (nodes w' m) = nterm (nodes w m) \/
            (nterm (nodes w m) <= nterm (nodes w' m) /\ nterm (nodes w' m) <= cterm w).
Proof.
  intros Hns Hstep m. step_inv a w' Hns Hstep; try (left; reflexivity);
    try (unfold upd; destruct (m =? _) eqn:Eqb; [apply Nat.eqb_eq in Eqb; subst m|]; cbn [nterm]; auto; fail).
  - (* NewTerm *)
    unfold upd; destruct (m =? n) eqn:Eqb; [apply Nat.eqb_eq in Eqb; subst m|]; cbn [nterm]; auto.
    right. lia.
  - (* Attach, truncate *)
    unfold upd. destruct (m =? l) eqn:Eqb; [apply Nat.eqb_eq in Eqb; subst m; cbn [nterm]; auto|].
    destruct (m =? f) eqn:E2; [apply Nat.eqb_eq in E2; subst m; cbn [nterm]; auto|]. auto.
Qed.

Lemma term_elected_mono w w' t :
  incl (elected w) (elected w') -> term_elected w t = true -> term_elected w' t = true.
Proof.
  intros Hi H. apply term_elected_In in H. destruct H as (l & c & H).
  apply term_elected_In. exists l, c. apply Hi. exact H.
Qed.

Lemma incl_nil_eq {A} (l : list A) : incl l [] -> l = [].
Proof. destruct l as [|x l]; [reflexivity|]. intros H. destruct (H x (or_introl eq_refl)). Qed.

(* ---------- fixed_ens ---------- *)
Lemma pres_fixed_ens E w a w' : Inv E w -> is_swap a = false -> step w a = Some w' -> fixed_ens E w'.
Proof.
  intros HI Hns Hstep. destruct (inv_fixed _ _ HI) as (He & Hr & Hnd).
  destruct (step_ens _ _ _ Hns Hstep) as [He' Hr'].
  unfold fixed_ens. rewrite He', Hr'. auto.
Qed.

Lemma init_fixed_ens E : NoDup E -> fixed_ens E (init E).
Proof. intros H. unfold fixed_ens, init. cbn. auto. Qed.

(* ---------- I_terms ---------- *)
Lemma pres_I_terms E w a w' : Inv E w -> is_swap a = false -> step w a = Some w' -> I_terms w'.
Proof.
  intros HI Hns Hstep. destruct (inv_terms _ _ HI) as (T1 & T2 & T3 & T4).
  pose proof (step_cterm _ _ _ Hns Hstep) as Hc.
  pose proof (step_nterm _ _ _ Hns Hstep) as Hn.
  assert (Hmono : forall m, nterm (nodes w m) <= nterm (nodes w' m)).
  { intros m. destruct (Hn m) as [->|[H _]]; [lia | exact H]. }
  repeat split.
  - intros n. specialize (T1 n). destruct (Hn n) as [->|[_ H]]; lia.
  - destruct (step_resps _ _ _ Hns Hstep) as [Hr|(n0 & t0 & _ & Hr & H1 & H2 & H3)]; rewrite Hr in H.
    + apply T2 in H. tauto.
    + destruct H as [H|H]; [inversion H; subst; lia | apply T2 in H; tauto].
  - destruct (step_resps _ _ _ Hns Hstep) as [Hr|(n0 & t0 & _ & Hr & H1 & H2 & H3)]; rewrite Hr in H.
    + apply T2 in H. lia.
    + destruct H as [H|H]; [inversion H; subst; lia | apply T2 in H; lia].
  - destruct (step_resps _ _ _ Hns Hstep) as [Hr|(n0 & t0 & _ & Hr & H1 & H2 & H3)]; rewrite Hr in H.
    + apply T2 in H. specialize (Hmono n). lia.
    + destruct H as [H|H]; [inversion H; subst; lia | apply T2 in H; specialize (Hmono n); lia].
  - destruct (step_elected _ _ _ Hns Hstep) as [He|(l0 & c0 & r0 & Ha & He)]; rewrite He in H.
    + apply T3 in H. tauto.
    + destruct H as [H|H]; [|apply T3 in H; tauto].
      inversion H; subst. apply step_Elect in Hstep. cbv zeta in Hstep.
      destruct Hstep as (_ & _ & _ & Ht1 & _). exact Ht1.
  - destruct (step_elected _ _ _ Hns Hstep) as [He|(l0 & c0 & r0 & Ha & He)]; rewrite He in H.
    + apply T3 in H. lia.
    + destruct H as [H|H]; [inversion H; subst; lia | apply T3 in H; lia].
  - intros t Hel.
    pose proof (step_elected_incl _ _ _ Hns Hstep) as Hinc.
    destruct (step_elog _ _ _ Hns Hstep) as [He|(l0 & Ha & He)]; rewrite He in Hel.
    + eapply term_elected_mono; [exact Hinc | apply T4; exact Hel].
    + subst a. apply step_BecomeLeader in Hstep. cbv zeta in Hstep.
      destruct Hstep as (Hiel & _).
      eapply term_elected_mono; [exact Hinc|].
      unfold upd in Hel. destruct (t =? nterm (nodes w l0)) eqn:Eqb.
      * apply Nat.eqb_eq in Eqb. subst t. apply is_elected_In in Hiel. destruct Hiel as (c & Hin).
        apply term_elected_In. eauto.
      * apply T4. exact Hel.
Qed.

Lemma init_I_terms E : NoDup E -> I_terms (init E).
Proof.
  intros _. unfold I_terms, init. cbn. repeat split; try contradiction; try lia.
Qed.

(* ---------- I_elected_unique ---------- *)
Lemma pres_I_elected_unique E w a w' :
  Inv E w -> is_swap a = false -> step w a = Some w' -> I_elected_unique w'.
Proof.
  intros HI Hns Hstep. pose proof (inv_elected_unique _ _ HI) as U.
  destruct (step_elected _ _ _ Hns Hstep) as [He|(l0 & c0 & r0 & Ha & He)];
    unfold I_elected_unique; rewrite He; [exact U|].
  subst a. apply step_Elect in Hstep. cbv zeta in Hstep.
  destruct Hstep as (_ & _ & Hnel & _).
  assert (Hno : forall l c, ~ In (cterm w, l, c) (elected w)).
  { intros l c Hin. assert (term_elected w (cterm w) = true) by (apply term_elected_In; eauto). congruence. }
  intros t l1 c1 l2 c2 [H1|H1] [H2|H2].
  - inversion H1; inversion H2; subst. auto.
  - inversion H1; subst. exfalso. eapply Hno; eauto.
  - inversion H2; subst. exfalso. eapply Hno; eauto.
  - eapply U; eauto.
Qed.

Lemma init_I_elected_unique E : NoDup E -> I_elected_unique (init E).
Proof. intros _ t l1 c1 l2 c2 H. cbn in H. contradiction. Qed.

(* ---------- I_elog ---------- *)
Lemma pres_I_elog E w a w' : Inv E w -> is_swap a = false -> step w a = Some w' -> I_elog w'.
Proof.
  intros HI Hns Hstep. pose proof (inv_elog _ _ HI) as G.
  pose proof (step_elected_incl _ _ _ Hns Hstep) as Hinc.
  intros t lg Hel.
  destruct (step_elog _ _ _ Hns Hstep) as [He|(l0 & Ha & He)]; rewrite He in Hel.
  - destruct (G _ _ Hel) as (l & c & Hin). exists l, c. apply Hinc. exact Hin.
  - subst a. apply step_BecomeLeader in Hstep. cbv zeta in Hstep. destruct Hstep as (Hiel & _).
    unfold upd in Hel. destruct (t =? nterm (nodes w l0)) eqn:Eqb.
    + apply Nat.eqb_eq in Eqb. subst t. apply is_elected_In in Hiel. destruct Hiel as (c & Hin).
      exists l0, c. apply Hinc. exact Hin.
    + destruct (G _ _ Hel) as (l & c & Hin). exists l, c. apply Hinc. exact Hin.
Qed.

Lemma init_I_elog E : NoDup E -> I_elog (init E).
Proof. intros _ t lg H. cbn in H. discriminate. Qed.

(* ---------- I_el ---------- *)
(* the log of the node that runs BecomeLeader is the log it reported as a candidate *)
Lemma become_leader_log E w l c llog :
  Inv E w ->
  In (nterm (nodes w l), l, c) (elected w) -> In (l, llog) c ->
  elog w (nterm (nodes w l)) = None ->
  nlog (nodes w l) = llog.
Proof.
  intros HI Hin Hl Hnone.
  destruct (inv_el _ _ HI _ _ _ Hin) as (_ & _ & _ & Hresp & _).
  apply (inv_untouched _ _ HI l (nterm (nodes w l)) llog).
  - apply Hresp. exact Hl.
  - reflexivity.
  - intros Hatt. destruct (inv_att _ _ HI) as (A1 & _). destruct (A1 _ _ Hatt) as (Hx & _). congruence.
  - left. exact Hnone.
Qed.

Lemma pres_I_el E w a w' : Inv E w -> is_swap a = false -> step w a = Some w' -> I_el w'.
Proof.
  intros HI Hns Hstep. pose proof (inv_el _ _ HI) as L.
  destruct (inv_fixed _ _ HI) as (HensE & Hrem & HndE).
  destruct (step_ens _ _ _ Hns Hstep) as [He' _].
  pose proof (step_resps_incl _ _ _ Hns Hstep) as Hrinc.
  intros t l cands Hin. rewrite He'.
  (* an entry that was already there *)
  assert (Hold : In (t, l, cands) (elected w) ->
    NoDup (map fst cands) /\ incl (map fst cands) (ens w) /\ length (ens w) < 2 * length cands /\
    (forall c cl, In (c, cl) cands -> In (c, t, cl) (resps w')) /\
    exists llog, In (l, llog) cands /\
       (forall c cl, In (c, cl) cands -> head_le (lhead cl) (lhead llog) = true) /\
       (forall lg, elog w' t = Some lg -> lg = llog)).
  { intros Hin0. destruct (L _ _ _ Hin0) as (H1 & H2 & H3 & H4 & llog & H5 & H6 & H7).
    split; [exact H1|]. split; [exact H2|]. split; [exact H3|].
    split; [intros c cl Hc; apply Hrinc, H4, Hc|].
    exists llog. split; [exact H5|]. split; [exact H6|].
    intros lg Hel.
    destruct (step_elog _ _ _ Hns Hstep) as [He|(l0 & Ha & He)]; rewrite He in Hel.
    - apply H7. exact Hel.
    - subst a. apply step_BecomeLeader in Hstep. cbv zeta in Hstep.
      destruct Hstep as (Hiel & _ & _ & Hnone & _).
      unfold upd in Hel. destruct (t =? nterm (nodes w l0)) eqn:Eqb; [|apply H7; exact Hel].
      apply Nat.eqb_eq in Eqb. subst t. inversion Hel; subst lg.
      apply is_elected_In in Hiel. destruct Hiel as (c & Hin1).
      destruct (inv_elected_unique _ _ HI _ _ _ _ _ Hin0 Hin1) as [-> ->].
      eapply become_leader_log; eauto. }
  destruct (step_elected _ _ _ Hns Hstep) as [He|(l0 & c0 & r0 & Ha & He)]; rewrite He in Hin.
  - apply Hold. exact Hin.
  - destruct Hin as [Hin|Hin]; [|apply Hold; exact Hin].
    inversion Hin; subst t l0 c0. subst a.
    pose proof (step_elog _ _ _ Hns Hstep) as Helog.
    destruct Helog as [Helog|(l0 & Ha & _)]; [|discriminate Ha].
    apply step_Elect in Hstep. cbv zeta in Hstep.
    destruct Hstep as (llog & Hl_in & Hnel & Ht1 & Hnd & Hincl & Hndr & Hinclr & Hresp & Hmaj & Hmax & Hw').
    rewrite Hrem in Hinclr. apply incl_nil_eq in Hinclr. subst r0.
    rewrite Hrem in Hmaj. cbn [length] in Hmaj.
    split; [exact Hnd|]. split; [exact Hincl|]. split; [lia|].
    split; [intros c cl Hc; apply Hrinc, Hresp, Hc|].
    exists llog. split; [exact Hl_in|]. split; [exact Hmax|].
    intros lg Hel. rewrite Helog in Hel. exfalso.
    destruct (inv_terms _ _ HI) as (_ & _ & _ & T4).
    assert (term_elected w (cterm w) = true) by (apply T4; congruence). congruence.
Qed.

Lemma init_I_el E : NoDup E -> I_el (init E).
Proof. intros _ t l cands H. cbn in H. contradiction. Qed.
