(* Invariants of the World model for traces without ensemble changes, and the derivation of
   leader completeness and of C01 (acknowledged writes survive) from them.
   The preservation of each invariant by [step] is proved in Cluster/Pres_*.v. *)
From Coq Require Import List Arith Bool PeanoNat Lia.
From Oxia.Cluster Require Import Model.
Import ListNotations.

Definition pfx (k : nat) (a b : list entry) : Prop := firstn k a = firstn k b.
Definition is_prefix (a b : list entry) : Prop := exists rest, b = a ++ rest.

Definition sorted (l : list entry) : Prop :=
  forall i j ei ej, i <= j -> nth_error l i = Some ei -> nth_error l j = Some ej -> eterm ei <= eterm ej.

(* every entry of term t in a log sits on top of a prefix of the log of the leader of t *)
Definition wf_log (w : world) (l : list entry) : Prop :=
  sorted l /\
  forall i e, nth_error l i = Some e ->
    1 <= eterm e /\ elog w (eterm e) <> None /\ pfx (S i) l (tlog w (eterm e)).

Definition leading (s : nstate) : Prop := nelect s = true \/ nst s = Leader.

Definition fixed_ens (E : list nat) (w : world) : Prop := ens w = E /\ removed w = [] /\ NoDup E.

Definition I_wf_nodes (w : world) := forall n, wf_log w (nlog (nodes w n)).
Definition I_wf_resps (w : world) := forall n t l, In (n, t, l) (resps w) -> wf_log w l.
Definition I_wf_tlog (w : world) :=
  forall t, wf_log w (tlog w t) /\
    (forall e, In e (tlog w t) -> eterm e <= t) /\
    (elog w t = None -> tlog w t = []) /\
    (forall lg, elog w t = Some lg ->
        (forall e, In e lg -> eterm e < t) /\
        exists rest, tlog w t = lg ++ rest /\ forall e, In e rest -> eterm e = t).
Definition I_terms (w : world) :=
  (forall n, nterm (nodes w n) <= cterm w) /\
  (forall n t l, In (n, t, l) (resps w) -> 1 <= t /\ t <= cterm w /\ t <= nterm (nodes w n)) /\
  (forall t l c, In (t, l, c) (elected w) -> 1 <= t /\ t <= cterm w) /\
  (forall t, elog w t <> None -> term_elected w t = true).
Definition I_elected_unique (w : world) :=
  forall t l1 c1 l2 c2, In (t, l1, c1) (elected w) -> In (t, l2, c2) (elected w) -> l1 = l2 /\ c1 = c2.
Definition I_el (w : world) :=
  forall t l cands, In (t, l, cands) (elected w) ->
    NoDup (map fst cands) /\ incl (map fst cands) (ens w) /\ length (ens w) < 2 * length cands /\
    (forall c cl, In (c, cl) cands -> In (c, t, cl) (resps w)) /\
    exists llog, In (l, llog) cands /\
       (forall c cl, In (c, cl) cands -> head_le (lhead cl) (lhead llog) = true) /\
       (forall lg, elog w t = Some lg -> lg = llog).
Definition I_elog (w : world) :=
  forall t lg, elog w t = Some lg -> exists l cands, In (t, l, cands) (elected w).
Definition I_leading (w : world) :=
  forall l, leading (nodes w l) ->
    let s := nodes w l in
    is_elected w (nterm s) l = true /\ nlog s = tlog w (nterm s) /\ nrf s = length (ens w) /\
    (exists lg, elog w (nterm s) = Some lg /\ nehead s = length lg) /\
    (forall k, length (nlog s) = S k -> In (l, nterm s, k) (acks w)).
(* a node that has not been touched in its current term still has the log it reported *)
Definition I_untouched (w : world) :=
  forall f t rl, In (f, t, rl) (resps w) -> nterm (nodes w f) = t -> ~ In (t, f) (att w) ->
    (elog w t = None \/ is_elected w t f = false) -> nlog (nodes w f) = rl.
Definition I_att (w : world) :=
  (forall t f, In (t, f) (att w) -> elog w t <> None /\ is_elected w t f = false) /\
  (forall t f, In (t, f) (att w) -> nterm (nodes w f) = t -> is_prefix (nlog (nodes w f)) (tlog w t)) /\
  (forall t f o e, In (t, f, o, e) (appends w) -> In (t, f) (att w) /\ nth_error (tlog w t) o = Some e) /\
  (forall f, nst (nodes w f) = Follower -> In (nterm (nodes w f), f) (att w)) /\
  (forall l, leading (nodes w l) -> forall f, In (nterm (nodes w l), f) (att w) -> is_attached f (nacked (nodes w l)) = true).
Definition I_nacked (w : world) :=
  forall l, leading (nodes w l) ->
    let s := nodes w l in
    NoDup (map fst (nacked s)) /\
    forall f a, In (f, a) (nacked s) ->
      f <> l /\ In f (ens w) /\ In (nterm s, f) (att w) /\ a <= length (nlog s) /\
      (nehead s < a -> exists k, a = S k /\ In (f, nterm s, k) (acks w)).
Definition I_ack (w : world) :=
  forall x t o, In (x, t, o) (acks w) ->
    elog w t <> None /\ o < length (tlog w t) /\ t <= nterm (nodes w x) /\
    (nterm (nodes w x) = t -> pfx (S o) (nlog (nodes w x)) (tlog w t)).
(* the history of an acknowledged prefix: still there, or cut by a leader whose log lacked it *)
Definition lost_to (w : world) (t o lo hi : nat) : Prop :=
  exists t'' lg, lo < t'' /\ t'' <= hi /\ elog w t'' = Some lg /\ ~ pfx (S o) lg (tlog w t).
Definition I_hist_cur (w : world) :=
  forall x t o' o, In (x, t, o') (acks w) -> o <= o' -> t < nterm (nodes w x) ->
    pfx (S o) (nlog (nodes w x)) (tlog w t) \/ lost_to w t o t (nterm (nodes w x)).
Definition I_hist_resp (w : world) :=
  forall x t' rl t o' o, In (x, t', rl) (resps w) -> term_elected w t' = false ->
    In (x, t, o') (acks w) -> o <= o' -> t < t' ->
    pfx (S o) rl (tlog w t) \/ (exists t'' lg, t < t'' /\ t'' < t' /\ elog w t'' = Some lg /\ ~ pfx (S o) lg (tlog w t)).
Definition I_hist_el (w : world) :=
  forall t' l cands x rl t o' o, In (t', l, cands) (elected w) -> In (x, rl) cands ->
    In (x, t, o') (acks w) -> o <= o' -> t < t' ->
    pfx (S o) rl (tlog w t) \/ (exists t'' lg, t < t'' /\ t'' < t' /\ elog w t'' = Some lg /\ ~ pfx (S o) lg (tlog w t)).
Definition I_cq (w : world) :=
  (forall t o e, In (t, o, e) (cacked w) ->
     nth_error (tlog w t) o = Some e /\ eterm e = t /\ exists Q, In (t, o, Q) (cq w)) /\
  (forall t o Q, In (t, o, Q) (cq w) ->
     NoDup Q /\ incl Q (ens w) /\ length (ens w) < 2 * length Q /\
     forall x, In x Q -> exists o', o <= o' /\ In (x, t, o') (acks w)).

Record Inv (E : list nat) (w : world) : Prop := {
  inv_fixed : fixed_ens E w;
  inv_wf_nodes : I_wf_nodes w;
  inv_wf_resps : I_wf_resps w;
  inv_wf_tlog : I_wf_tlog w;
  inv_terms : I_terms w;
  inv_elected_unique : I_elected_unique w;
  inv_el : I_el w;
  inv_elog : I_elog w;
  inv_leading : I_leading w;
  inv_untouched : I_untouched w;
  inv_att : I_att w;
  inv_nacked : I_nacked w;
  inv_ack : I_ack w;
  inv_hist_cur : I_hist_cur w;
  inv_hist_resp : I_hist_resp w;
  inv_hist_el : I_hist_el w;
  inv_cq : I_cq w
}.
