(** * Oxia.Cluster.Lin — a witness-based linearizability check is sound (property C02)

    The Go checker for C02 does not search for a linearization.  It is handed
    the committed log [L] of the shard (the write requests in log-offset order)
    and a history [H] of COMPLETED client operations, where every completed
    write has been matched with the log position the system gave it and every
    completed read has been matched with a prefix length [k] of the log.  It
    then verifies, in linear time, a handful of local conditions (the "witness
    conditions", [witness] below).  This file proves that those conditions
    imply linearizability of [H] with respect to the sequential object
    [(init, wapply, rapply)]:

      [Theorem witness_implies_linearizable : witness -> linearizable.]

    The file is pure: it does not depend on the cluster model.  Everything is
    stated over abstract types in one [Section].

    Layout:
    - Part 1: generic list facts ([precedes], [flat_map], [seq], [NoDup]).
    - Part 2: the setting: sequential object, log, history, witness conditions,
              definition of linearizability.
    - Part 3: the construction of the linearization and its properties.
    - Part 4: the main theorem.
    - Part 5: two concrete examples (non-vacuity; necessity of one condition). *)

From Coq Require Import List Arith Lia Bool.
Import ListNotations.

Set Implicit Arguments.

(* ------------------------------------------------------------------------- *)
(** * Part 1: generic list facts *)
(* ------------------------------------------------------------------------- *)

(** [precedes l x y]: some occurrence of [x] is strictly before some
    occurrence of [y].  On duplicate-free lists (the only place it is used)
    this is "x is before y". *)
Definition precedes {A : Type} (l : list A) (x y : A) : Prop :=
  exists l1 l2 l3, l = l1 ++ x :: l2 ++ y :: l3.

Section ListFacts.
  Context {A : Type}.

  Lemma precedes_app_l (l l' : list A) x y :
    precedes l x y -> precedes (l ++ l') x y.
  Proof.
    intros (l1 & l2 & l3 & ->).
    exists l1, l2, (l3 ++ l').
    rewrite <- app_assoc. simpl. rewrite <- app_assoc. reflexivity.
  Qed.

  Lemma precedes_app_r (l l' : list A) x y :
    precedes l' x y -> precedes (l ++ l') x y.
  Proof.
    intros (l1 & l2 & l3 & ->).
    exists (l ++ l1), l2, l3.
    rewrite <- app_assoc. reflexivity.
  Qed.

  Lemma precedes_app_in (l l' : list A) x y :
    In x l -> In y l' -> precedes (l ++ l') x y.
  Proof.
    intros Hx Hy.
    apply in_split in Hx. destruct Hx as (a1 & a2 & ->).
    apply in_split in Hy. destruct Hy as (b1 & b2 & ->).
    exists a1, (a2 ++ b1), b2.
    rewrite <- app_assoc. simpl. rewrite <- app_assoc. reflexivity.
  Qed.

  Lemma precedes_flat_map_same {B} (f : B -> list A) (l : list B) t x y :
    In t l -> precedes (f t) x y -> precedes (flat_map f l) x y.
  Proof.
    intros Ht Hp.
    apply in_split in Ht. destruct Ht as (l1 & l2 & ->).
    rewrite flat_map_app. simpl.
    apply precedes_app_r, precedes_app_l, Hp.
  Qed.

  Lemma precedes_flat_map {B} (f : B -> list A) (l : list B) t1 t2 x y :
    precedes l t1 t2 -> In x (f t1) -> In y (f t2) ->
    precedes (flat_map f l) x y.
  Proof.
    intros (l1 & l2 & l3 & ->) Hx Hy.
    rewrite flat_map_app. simpl. rewrite flat_map_app. simpl.
    apply precedes_app_r, precedes_app_in; [exact Hx|].
    apply in_or_app. right. apply in_or_app. left. exact Hy.
  Qed.

  Lemma NoDup_app_intro (l l' : list A) :
    NoDup l -> NoDup l' -> (forall x, In x l -> ~ In x l') -> NoDup (l ++ l').
  Proof.
    intros Hl Hl' Hdisj. induction Hl as [|a l Ha Hl IH]; simpl; [exact Hl'|].
    constructor.
    - intros Hin. apply in_app_or in Hin. destruct Hin as [Hin|Hin].
      + exact (Ha Hin).
      + exact (Hdisj a (or_introl eq_refl) Hin).
    - apply IH. intros x Hx. apply Hdisj. right. exact Hx.
  Qed.

  Lemma NoDup_flat_map {B} (f : B -> list A) (l : list B) :
    NoDup l ->
    (forall t, In t l -> NoDup (f t)) ->
    (forall t1 t2 x, In t1 l -> In t2 l -> In x (f t1) -> In x (f t2) -> t1 = t2) ->
    NoDup (flat_map f l).
  Proof.
    intros Hl. induction Hl as [|a l Ha Hl IH]; intros Hnd Hdisj; simpl.
    - constructor.
    - apply NoDup_app_intro.
      + apply Hnd. left. reflexivity.
      + apply IH.
        * intros t Ht. apply Hnd. right. exact Ht.
        * intros t1 t2 x H1 H2. apply Hdisj; right; assumption.
      + intros x Hx Hin. apply in_flat_map in Hin. destruct Hin as (t & Ht & Hxt).
        assert (a = t) as ->.
        { apply (Hdisj a t x); [left; reflexivity|right; exact Ht|exact Hx|exact Hxt]. }
        exact (Ha Ht).
  Qed.

  (** In a duplicate-free list the decomposition around an element is unique. *)
  Lemma NoDup_split_unique (l a1 b1 a2 b2 : list A) x :
    NoDup l -> l = a1 ++ x :: b1 -> l = a2 ++ x :: b2 -> a1 = a2.
  Proof.
    revert l a2. induction a1 as [|z a1 IH]; intros l a2 Hnd H1 H2.
    - destruct a2 as [|y a2]; [reflexivity|exfalso].
      simpl in *. subst l. injection H2 as Hy Hb.
      apply NoDup_cons_iff in Hnd. destruct Hnd as [Hnin _]. apply Hnin.
      rewrite Hb. apply in_or_app. right. left. reflexivity.
    - destruct a2 as [|y a2].
      + exfalso. simpl in *. subst l. injection H2 as Hz Hb.
        apply NoDup_cons_iff in Hnd. destruct Hnd as [Hnin _]. apply Hnin.
        rewrite Hz. apply in_or_app. right. left. reflexivity.
      + simpl in *. subst l. injection H2 as Hz Hb. f_equal; [exact Hz|].
        apply NoDup_cons_iff in Hnd. destruct Hnd as [_ Hnd'].
        eapply IH; [exact Hnd'|reflexivity|exact Hb].
  Qed.
End ListFacts.

Lemma seq_split (a n i : nat) :
  a <= i -> i < a + n ->
  seq a n = seq a (i - a) ++ i :: seq (S i) (a + n - S i).
Proof.
  intros Hlo Hhi.
  replace (seq a n) with (seq a ((i - a) + S (a + n - S i))) by (f_equal; lia).
  rewrite seq_app. simpl.
  replace (a + (i - a)) with i by lia. reflexivity.
Qed.

Lemma precedes_seq (a n i j : nat) :
  a <= i -> i < j -> j < a + n -> precedes (seq a n) i j.
Proof.
  intros Hlo Hij Hhi.
  rewrite (@seq_split a n i) by lia.
  rewrite (@seq_split (S i) (a + n - S i) j) by lia.
  do 3 eexists. reflexivity.
Qed.

(** If [l1 ++ p :: l2] is an initial segment of the naturals starting at [a],
    then [l1] is exactly the naturals from [a] up to (excluding) [p]. *)
Lemma seq_split_eq (l1 l2 : list nat) (p a n : nat) :
  l1 ++ p :: l2 = seq a n -> l1 = seq a (p - a) /\ a <= p.
Proof.
  revert a n. induction l1 as [|x l1 IH]; intros a n Heq.
  - destruct n as [|n]; simpl in Heq; [discriminate|].
    injection Heq as Hp _. subst p.
    replace (a - a) with 0 by lia. split; [reflexivity|lia].
  - destruct n as [|n]; simpl in Heq; [discriminate|].
    injection Heq as Hx Heq. subst x.
    apply IH in Heq. destruct Heq as [Heq Hle].
    split; [|lia].
    replace (p - a) with (S (p - S a)) by lia. simpl. f_equal. exact Heq.
Qed.

Lemma firstn_S_nth_error {A} (l : list A) (p : nat) (w : A) :
  nth_error l p = Some w -> firstn (S p) l = firstn p l ++ [w].
Proof.
  revert p. induction l as [|x l IH]; intros p Hn.
  - destruct p; discriminate.
  - destruct p as [|p].
    + simpl in Hn. injection Hn as ->. reflexivity.
    + simpl in Hn. apply IH in Hn.
      change (firstn (S (S p)) (x :: l)) with (x :: firstn (S p) l).
      rewrite Hn. reflexivity.
Qed.

Lemma list_max_ge (l : list nat) (x : nat) : In x l -> x <= list_max l.
Proof.
  induction l as [|y l IH]; simpl; intros Hin; [contradiction|].
  destruct Hin as [->|Hin]; [lia|]. apply IH in Hin. lia.
Qed.

(* ------------------------------------------------------------------------- *)
(** * Part 2: the setting *)
(* ------------------------------------------------------------------------- *)

Section Lin.

  (** ** The sequential object *)
  Variables state wop rop wresp rresp : Type.
  Variable wapply : state -> wop -> state * wresp.
  Variable rapply : state -> rop -> rresp.
  Variable init : state.

  (** ** The committed log: the shard's write requests in log-offset order *)
  Variable L : list wop.

  (** State after the first [k] log entries. *)
  Definition state_after (k : nat) : state :=
    fold_left (fun s w => fst (wapply s w)) (firstn k L) init.

  (** Response the sequential object gives to log entry [p] ([None] iff
      [p] is not a log position). *)
  Definition wresp_at (p : nat) : option wresp :=
    match nth_error L p with
    | Some w => Some (snd (wapply (state_after p) w))
    | None => None
    end.

  (** ** Histories of completed client operations

      [W pos resp]: a completed write that the system placed at log position
      [pos] and answered [resp].  [R q k resp]: a completed read [q] answered
      [resp], which the checker matched with the log prefix of length [k].
      Times are positions in one global event order.  An operation is
      identified by its index in [H]. *)
  Inductive opkind : Type :=
  | W (pos : nat) (resp : wresp)
  | R (q : rop) (k : nat) (resp : rresp).

  Record cop : Type := mkOp { op_inv : nat; op_ret : nat; op_kind : opkind }.

  Variable H : list cop.

  (** ** Witness conditions (what the checker verifies) *)

  (** Every operation is invoked before it returns. *)
  Definition wf_times : Prop :=
    forall i o, nth_error H i = Some o -> op_inv o < op_ret o.

  (** (i) a completed write sits at a log position and got the response the
      sequential object gives at that position... *)
  Definition wit_write_resp : Prop :=
    forall i o p r,
      nth_error H i = Some o -> op_kind o = W p r -> wresp_at p = Some r.

  (** ... and distinct writes sit at distinct positions. *)
  Definition write_inj : Prop :=
    forall i j oi oj p ri rj,
      nth_error H i = Some oi -> nth_error H j = Some oj ->
      op_kind oi = W p ri -> op_kind oj = W p rj -> i = j.

  (** (ii) real-time order among writes. *)
  Definition wit_ww : Prop :=
    forall i j oi oj pi ri pj rj,
      nth_error H i = Some oi -> nth_error H j = Some oj ->
      op_kind oi = W pi ri -> op_kind oj = W pj rj ->
      op_ret oi < op_inv oj -> pi < pj.

  (** (iii) a read returns what the state after its prefix gives... *)
  Definition wit_read_resp : Prop :=
    forall i o q k r,
      nth_error H i = Some o -> op_kind o = R q k r ->
      k <= length L /\ r = rapply (state_after k) q.

  (** ... it sees every write completed before it started... *)
  Definition wit_wr : Prop :=
    forall i j oi oj p rw q k rr,
      nth_error H i = Some oi -> nth_error H j = Some oj ->
      op_kind oi = W p rw -> op_kind oj = R q k rr ->
      op_ret oi < op_inv oj -> p < k.

  (** ... and does not see the future. *)
  Definition wit_rw : Prop :=
    forall i j oi oj q k rr p rw,
      nth_error H i = Some oi -> nth_error H j = Some oj ->
      op_kind oi = R q k rr -> op_kind oj = W p rw ->
      op_ret oi < op_inv oj -> k <= p.

  (** (iv) reads are monotone in real time. *)
  Definition wit_rr : Prop :=
    forall i j oi oj q1 k1 r1 q2 k2 r2,
      nth_error H i = Some oi -> nth_error H j = Some oj ->
      op_kind oi = R q1 k1 r1 -> op_kind oj = R q2 k2 r2 ->
      op_ret oi < op_inv oj -> k1 <= k2.

  Record witness : Prop := {
    w_times : wf_times;
    w_write_resp : wit_write_resp;
    w_write_inj : write_inj;
    w_ww : wit_ww;
    w_read_resp : wit_read_resp;
    w_wr : wit_wr;
    w_rw : wit_rw;
    w_rr : wit_rr
  }.

  (** ** Linearizability

      A linearization is a list of items: [IW p] is "the write in log entry
      [p] takes effect", [IR i] is "the read with index [i] in [H] takes
      effect".  A completed write [W p _] of [H] IS the item [IW p]; log
      entries that no completed operation of [H] claims are writes whose
      outcome is unknown to the clients: they take effect exactly once, at an
      unconstrained point consistent with the log order. *)
  Inductive item : Type := IW (p : nat) | IR (i : nat).

  Definition item_of (i : nat) (o : cop) : item :=
    match op_kind o with W p _ => IW p | R _ _ _ => IR i end.

  (** Sequential execution of a list of items. *)
  Definition step (s : state) (x : item) : state :=
    match x with
    | IW p => match nth_error L p with
              | Some w => fst (wapply s w)
              | None => s
              end
    | IR _ => s
    end.

  Definition exec (ord : list item) : state := fold_left step ord init.

  (** Log positions occurring in a list of items, in order of occurrence. *)
  Fixpoint wpos_of (ord : list item) : list nat :=
    match ord with
    | [] => []
    | IW p :: ord' => p :: wpos_of ord'
    | IR _ :: ord' => wpos_of ord'
    end.

  Record linearization (ord : list item) : Prop := {
    (** no item occurs twice *)
    lin_nodup : NoDup ord;
    (** the writes of [ord] are exactly the log entries, in log order *)
    lin_log : wpos_of ord = seq 0 (length L);
    (** every completed operation of [H] occurs in [ord] *)
    lin_complete : forall i o, nth_error H i = Some o -> In (item_of i o) ord;
    (** ... distinct operations are distinct items *)
    lin_inj : write_inj;
    (** ... and [ord] contains no read that is not in [H] *)
    lin_only : forall i, In (IR i) ord ->
      exists o q k r, nth_error H i = Some o /\ op_kind o = R q k r;
    (** (a) executing [ord] sequentially from [init] gives every completed
        write and every read the response recorded in [H] *)
    lin_wresp : forall S1 S2 p i o r,
      ord = S1 ++ IW p :: S2 ->
      nth_error H i = Some o -> op_kind o = W p r ->
      exists w, nth_error L p = Some w /\ snd (wapply (exec S1) w) = r;
    lin_rresp : forall S1 S2 i o q k r,
      ord = S1 ++ IR i :: S2 ->
      nth_error H i = Some o -> op_kind o = R q k r ->
      rapply (exec S1) q = r;
    (** (b) [ord] respects real time *)
    lin_rt : forall i j oi oj,
      nth_error H i = Some oi -> nth_error H j = Some oj ->
      op_ret oi < op_inv oj ->
      precedes ord (item_of i oi) (item_of j oj)
  }.

  Definition linearizable : Prop := exists ord, linearization ord.

  (* ----------------------------------------------------------------------- *)
  (** * Part 3: execution lemmas and the construction *)
  (* ----------------------------------------------------------------------- *)

  (** ** Execution only depends on the write positions *)

  Definition apply_pos (s : state) (p : nat) : state :=
    match nth_error L p with
    | Some w => fst (wapply s w)
    | None => s
    end.

  Lemma wpos_of_app (l1 l2 : list item) :
    wpos_of (l1 ++ l2) = wpos_of l1 ++ wpos_of l2.
  Proof.
    induction l1 as [|[p|i] l1 IH]; simpl; [reflexivity| |exact IH].
    rewrite IH. reflexivity.
  Qed.

  Lemma fold_step_wpos (ord : list item) (s : state) :
    fold_left step ord s = fold_left apply_pos (wpos_of ord) s.
  Proof.
    revert s. induction ord as [|[p|i] ord IH]; intros s; simpl.
    - reflexivity.
    - apply IH.
    - apply IH.
  Qed.

  Lemma exec_wpos (ord : list item) :
    exec ord = fold_left apply_pos (wpos_of ord) init.
  Proof. apply fold_step_wpos. Qed.

  Lemma fold_apply_pos_seq (p : nat) :
    p <= length L -> fold_left apply_pos (seq 0 p) init = state_after p.
  Proof.
    induction p as [|p IH]; intros Hle.
    - reflexivity.
    - rewrite seq_S, fold_left_app. simpl. rewrite IH by lia.
      unfold apply_pos. destruct (nth_error L p) as [w|] eqn:Hn.
      + unfold state_after. rewrite (firstn_S_nth_error _ _ Hn).
        rewrite fold_left_app. reflexivity.
      + apply nth_error_None in Hn. lia.
  Qed.

  (** The state in which an item of a log-ordered list runs. *)
  Lemma exec_before_write (ord S1 S2 : list item) (p : nat) :
    wpos_of ord = seq 0 (length L) -> ord = S1 ++ IW p :: S2 ->
    p < length L /\ exec S1 = state_after p.
  Proof.
    intros Hlog ->. rewrite wpos_of_app in Hlog. simpl in Hlog.
    assert (In p (seq 0 (length L))) as Hin.
    { rewrite <- Hlog. apply in_or_app. right. left. reflexivity. }
    apply in_seq in Hin.
    apply seq_split_eq in Hlog. destruct Hlog as [Hlog _].
    split; [lia|].
    rewrite exec_wpos, Hlog, Nat.sub_0_r. apply fold_apply_pos_seq. lia.
  Qed.

  (** ** The construction

      [lin_order] = for [k = 0 .. length L]: the reads matched with prefix
      length [k], ordered by invocation time, followed by log entry [k] (if
      [k] is a log position).  "Ordered by invocation time" is implemented as
      a bucket sort over the time range, which avoids any sorting lemma. *)

  Definition horizon : nat := S (list_max (map op_inv H)).

  Definition is_read_at (k t i : nat) : bool :=
    match nth_error H i with
    | Some o =>
        match op_kind o with
        | R _ k' _ => (k' =? k) && (op_inv o =? t)
        | W _ _ => false
        end
    | None => false
    end.

  Definition bucket (k t : nat) : list item :=
    map IR (filter (is_read_at k t) (seq 0 (length H))).

  Definition reads_at (k : nat) : list item :=
    flat_map (bucket k) (seq 0 horizon).

  Definition wr (k : nat) : list item :=
    if k <? length L then [IW k] else [].

  Definition blk (k : nat) : list item := reads_at k ++ wr k.

  Definition lin_order : list item := flat_map blk (seq 0 (S (length L))).

  (** ** Membership *)

  Lemma is_read_at_spec (k t i : nat) :
    is_read_at k t i = true <->
    exists o q r, nth_error H i = Some o /\ op_kind o = R q k r /\ op_inv o = t.
  Proof.
    unfold is_read_at. split.
    - destruct (nth_error H i) as [o|]; [|discriminate].
      destruct (op_kind o) as [p r|q k' r] eqn:Hk; [discriminate|].
      intros Hb. apply andb_true_iff in Hb. destruct Hb as [Hk' Ht].
      apply Nat.eqb_eq in Hk'. apply Nat.eqb_eq in Ht. subst k'.
      exists o, q, r. auto.
    - intros (o & q & r & -> & -> & <-).
      rewrite !Nat.eqb_refl. reflexivity.
  Qed.

  Lemma in_bucket (x : item) (k t : nat) :
    In x (bucket k t) <->
    exists i o q r, x = IR i /\ nth_error H i = Some o /\
                    op_kind o = R q k r /\ op_inv o = t.
  Proof.
    unfold bucket. rewrite in_map_iff. split.
    - intros (i & <- & Hin). apply filter_In in Hin. destruct Hin as [_ Hb].
      apply is_read_at_spec in Hb. destruct Hb as (o & q & r & Hb).
      exists i, o, q, r. tauto.
    - intros (i & o & q & r & -> & Hn & Hk & Ht).
      exists i. split; [reflexivity|]. apply filter_In. split.
      + apply in_seq. split; [lia|]. simpl. apply nth_error_Some. congruence.
      + apply is_read_at_spec. exists o, q, r. auto.
  Qed.

  Lemma inv_lt_horizon (i : nat) (o : cop) :
    nth_error H i = Some o -> op_inv o < horizon.
  Proof.
    intros Hn. unfold horizon. apply Nat.lt_succ_r, list_max_ge.
    apply in_map. eapply nth_error_In. exact Hn.
  Qed.

  Lemma in_reads_at (x : item) (k : nat) :
    In x (reads_at k) <->
    exists i o q r, x = IR i /\ nth_error H i = Some o /\ op_kind o = R q k r.
  Proof.
    unfold reads_at. rewrite in_flat_map. split.
    - intros (t & _ & Hin). apply in_bucket in Hin.
      destruct Hin as (i & o & q & r & Hx & Hn & Hk & _).
      exists i, o, q, r. auto.
    - intros (i & o & q & r & Hx & Hn & Hk).
      exists (op_inv o). split.
      + apply in_seq. pose proof (inv_lt_horizon _ Hn). lia.
      + apply in_bucket. exists i, o, q, r. auto.
  Qed.

  Lemma in_wr (x : item) (k : nat) :
    In x (wr k) <-> x = IW k /\ k < length L.
  Proof.
    unfold wr. destruct (k <? length L) eqn:Hlt.
    - apply Nat.ltb_lt in Hlt. simpl. split.
      + intros [<-|[]]. auto.
      + intros [-> _]. auto.
    - apply Nat.ltb_ge in Hlt. simpl. split; [contradiction|]. intros [_ Hk]. lia.
  Qed.

  Lemma in_blk (x : item) (k : nat) :
    In x (blk k) <-> In x (reads_at k) \/ (x = IW k /\ k < length L).
  Proof. unfold blk. rewrite in_app_iff, in_wr. reflexivity. Qed.

  Lemma in_blk_write (p k : nat) : In (IW p) (blk k) <-> p = k /\ k < length L.
  Proof.
    rewrite in_blk, in_reads_at. split.
    - intros [(i & o & q & r & Hx & _)|[Hx Hk]]; [discriminate|].
      injection Hx as ->. auto.
    - intros [-> Hk]. right. auto.
  Qed.

  Lemma in_blk_read (i k : nat) :
    In (IR i) (blk k) <->
    exists o q r, nth_error H i = Some o /\ op_kind o = R q k r.
  Proof.
    rewrite in_blk, in_reads_at. split.
    - intros [(i' & o & q & r & Hx & Hn & Hk)|[Hx _]]; [|discriminate].
      injection Hx as ->. exists o, q, r. auto.
    - intros (o & q & r & Hn & Hk). left. exists i, o, q, r. auto.
  Qed.

  Lemma in_lin_order (x : item) :
    In x lin_order <-> exists k, k <= length L /\ In x (blk k).
  Proof.
    unfold lin_order. rewrite in_flat_map. split.
    - intros (k & Hk & Hin). apply in_seq in Hk. exists k. split; [lia|exact Hin].
    - intros (k & Hk & Hin). exists k. split; [apply in_seq; lia|exact Hin].
  Qed.

  (** ** No duplicates *)

  Lemma NoDup_bucket (k t : nat) : NoDup (bucket k t).
  Proof.
    unfold bucket.
    assert (forall l : list nat, NoDup l -> NoDup (map IR l)) as Hmap.
    { intros l Hl. induction Hl as [|a l Ha Hl IH]; simpl; constructor; [|exact IH].
      intros Hin. apply in_map_iff in Hin. destruct Hin as (b & Hb & Hin).
      injection Hb as ->. exact (Ha Hin). }
    apply Hmap, NoDup_filter, seq_NoDup.
  Qed.

  Lemma NoDup_reads_at (k : nat) : NoDup (reads_at k).
  Proof.
    unfold reads_at. apply NoDup_flat_map.
    - apply seq_NoDup.
    - intros t _. apply NoDup_bucket.
    - intros t1 t2 x _ _ H1 H2.
      apply in_bucket in H1. destruct H1 as (i1 & o1 & q1 & r1 & Hx1 & Hn1 & _ & Ht1).
      apply in_bucket in H2. destruct H2 as (i2 & o2 & q2 & r2 & Hx2 & Hn2 & _ & Ht2).
      subst x. injection Hx2 as ->. congruence.
  Qed.

  Lemma NoDup_blk (k : nat) : NoDup (blk k).
  Proof.
    unfold blk. apply NoDup_app_intro.
    - apply NoDup_reads_at.
    - unfold wr. destruct (k <? length L); repeat constructor. intros [].
    - intros x Hr Hw. apply in_reads_at in Hr. apply in_wr in Hw.
      destruct Hr as (i & o & q & r & Hx & _). destruct Hw as [Hx' _]. congruence.
  Qed.

  Lemma NoDup_lin_order : NoDup lin_order.
  Proof.
    unfold lin_order. apply NoDup_flat_map.
    - apply seq_NoDup.
    - intros k _. apply NoDup_blk.
    - intros k1 k2 [p|i] _ _ H1 H2.
      + apply in_blk_write in H1. apply in_blk_write in H2. lia.
      + apply in_blk_read in H1. destruct H1 as (o1 & q1 & r1 & Hn1 & Hk1).
        apply in_blk_read in H2. destruct H2 as (o2 & q2 & r2 & Hn2 & Hk2).
        congruence.
  Qed.

  (** ** Write positions of the construction *)

  Lemma wpos_of_bucket (k t : nat) : wpos_of (bucket k t) = [].
  Proof.
    unfold bucket. induction (filter (is_read_at k t) (seq 0 (length H))) as [|a l IH];
      simpl; [reflexivity|exact IH].
  Qed.

  Lemma wpos_of_reads_at (k : nat) : wpos_of (reads_at k) = [].
  Proof.
    unfold reads_at. induction (seq 0 horizon) as [|t l IH]; simpl; [reflexivity|].
    rewrite wpos_of_app, wpos_of_bucket, IH. reflexivity.
  Qed.

  Lemma wpos_of_blk (k : nat) :
    wpos_of (blk k) = if k <? length L then [k] else [].
  Proof.
    unfold blk, wr. rewrite wpos_of_app, wpos_of_reads_at.
    destruct (k <? length L); reflexivity.
  Qed.

  Lemma wpos_of_blocks (a m : nat) :
    a + m <= length L -> wpos_of (flat_map blk (seq a m)) = seq a m.
  Proof.
    revert a. induction m as [|m IH]; intros a Hle; simpl; [reflexivity|].
    rewrite wpos_of_app, wpos_of_blk, IH by lia.
    destruct (a <? length L) eqn:Hlt; [reflexivity|].
    apply Nat.ltb_ge in Hlt. lia.
  Qed.

  Lemma wpos_of_lin_order : wpos_of lin_order = seq 0 (length L).
  Proof.
    unfold lin_order. rewrite seq_S, flat_map_app, wpos_of_app. simpl.
    rewrite wpos_of_blocks by lia. rewrite app_nil_r, wpos_of_blk, Nat.ltb_irrefl.
    apply app_nil_r.
  Qed.

  (** ** The state in which a read of the construction runs *)

  Lemma exec_before_read (S1 S2 : list item) (i k : nat) :
    k <= length L -> In (IR i) (reads_at k) ->
    lin_order = S1 ++ IR i :: S2 -> exec S1 = state_after k.
  Proof.
    intros Hk Hin Heq.
    apply in_split in Hin. destruct Hin as (pre & post & Hsplit).
    assert (lin_order =
            (flat_map blk (seq 0 k) ++ pre) ++ IR i ::
            (post ++ wr k ++ flat_map blk (seq (S k) (0 + S (length L) - S k))))
      as Heq'.
    { unfold lin_order. rewrite (@seq_split 0 (S (length L)) k) by lia.
      rewrite flat_map_app. simpl. unfold blk at 2. rewrite Hsplit.
      rewrite Nat.sub_0_r, <- !app_assoc. simpl. rewrite <- ?app_assoc. reflexivity. }
    assert (S1 = flat_map blk (seq 0 k) ++ pre) as ->.
    { eapply NoDup_split_unique; [apply NoDup_lin_order|exact Heq|exact Heq']. }
    rewrite exec_wpos, wpos_of_app, wpos_of_blocks by lia.
    assert (wpos_of pre = []) as ->.
    { pose proof (wpos_of_reads_at k) as Hnil. rewrite Hsplit, wpos_of_app in Hnil.
      apply app_eq_nil in Hnil. tauto. }
    rewrite app_nil_r. apply fold_apply_pos_seq. exact Hk.
  Qed.

  (** ** Precedence in the construction *)

  Lemma precedes_blocks (k1 k2 : nat) (x y : item) :
    k1 < k2 -> k2 <= length L -> In x (blk k1) -> In y (blk k2) ->
    precedes lin_order x y.
  Proof.
    intros Hlt Hle Hx Hy. unfold lin_order.
    apply (@precedes_flat_map _ _ blk _ k1 k2); [|exact Hx|exact Hy].
    apply precedes_seq; lia.
  Qed.

  Lemma precedes_same_block (k : nat) (x y : item) :
    k <= length L -> precedes (blk k) x y -> precedes lin_order x y.
  Proof.
    intros Hk Hp. unfold lin_order.
    apply (@precedes_flat_map_same _ _ blk _ k); [|exact Hp].
    apply in_seq. lia.
  Qed.

  Lemma precedes_reads_same_k (k i j : nat) (oi oj : cop) q1 r1 q2 r2 :
    nth_error H i = Some oi -> nth_error H j = Some oj ->
    op_kind oi = R q1 k r1 -> op_kind oj = R q2 k r2 ->
    op_inv oi < op_inv oj ->
    precedes (reads_at k) (IR i) (IR j).
  Proof.
    intros Hi Hj Hki Hkj Hlt. unfold reads_at.
    apply (@precedes_flat_map _ _ (bucket k) _ (op_inv oi) (op_inv oj)).
    - apply precedes_seq; [lia|exact Hlt|].
      pose proof (inv_lt_horizon _ Hj). lia.
    - apply in_bucket. exists i, oi, q1, r1. auto.
    - apply in_bucket. exists j, oj, q2, r2. auto.
  Qed.

  (* ----------------------------------------------------------------------- *)
  (** * Part 4: the main theorem *)
  (* ----------------------------------------------------------------------- *)

  Section Main.
    Hypothesis Hwit : witness.

    Lemma write_pos_lt (i : nat) (o : cop) p r :
      nth_error H i = Some o -> op_kind o = W p r -> p < length L.
    Proof.
      intros Hn Hk. pose proof (w_write_resp Hwit _ Hn Hk) as Hr.
      unfold wresp_at in Hr. destruct (nth_error L p) eqn:Hp; [|discriminate].
      apply nth_error_Some. congruence.
    Qed.

    Lemma item_in_blk_write (i : nat) (o : cop) p r :
      nth_error H i = Some o -> op_kind o = W p r -> In (item_of i o) (blk p).
    Proof.
      intros Hn Hk. unfold item_of. rewrite Hk. apply in_blk_write.
      split; [reflexivity|]. eapply write_pos_lt; eassumption.
    Qed.

    Lemma item_in_reads_at (i : nat) (o : cop) q k r :
      nth_error H i = Some o -> op_kind o = R q k r -> In (item_of i o) (reads_at k).
    Proof.
      intros Hn Hk. unfold item_of. rewrite Hk. apply in_reads_at.
      exists i, o, q, r. auto.
    Qed.

    Lemma item_in_blk_read (i : nat) (o : cop) q k r :
      nth_error H i = Some o -> op_kind o = R q k r -> In (item_of i o) (blk k).
    Proof.
      intros Hn Hk. apply in_blk. left. eapply item_in_reads_at; eassumption.
    Qed.

    Lemma lin_order_complete (i : nat) (o : cop) :
      nth_error H i = Some o -> In (item_of i o) lin_order.
    Proof.
      intros Hn. apply in_lin_order. destruct (op_kind o) as [p r|q k r] eqn:Hk.
      - exists p. split.
        + pose proof (write_pos_lt _ Hn Hk). lia.
        + eapply item_in_blk_write; eassumption.
      - exists k. split.
        + apply (w_read_resp Hwit _ Hn Hk).
        + eapply item_in_blk_read; eassumption.
    Qed.

    Lemma lin_order_only (i : nat) :
      In (IR i) lin_order ->
      exists o q k r, nth_error H i = Some o /\ op_kind o = R q k r.
    Proof.
      intros Hin. apply in_lin_order in Hin. destruct Hin as (k & _ & Hin).
      apply in_blk_read in Hin. destruct Hin as (o & q & r & Hn & Hk).
      exists o, q, k, r. auto.
    Qed.

    (** (a), writes *)
    Lemma lin_order_wresp (S1 S2 : list item) p i o r :
      lin_order = S1 ++ IW p :: S2 ->
      nth_error H i = Some o -> op_kind o = W p r ->
      exists w, nth_error L p = Some w /\ snd (wapply (exec S1) w) = r.
    Proof.
      intros Heq Hn Hk.
      destruct (@exec_before_write _ _ _ _ wpos_of_lin_order Heq) as [_ Hst].
      pose proof (w_write_resp Hwit _ Hn Hk) as Hr. unfold wresp_at in Hr.
      destruct (nth_error L p) as [w|]; [|discriminate].
      exists w. split; [reflexivity|]. rewrite Hst. congruence.
    Qed.

    (** (a), reads *)
    Lemma lin_order_rresp (S1 S2 : list item) i o q k r :
      lin_order = S1 ++ IR i :: S2 ->
      nth_error H i = Some o -> op_kind o = R q k r ->
      rapply (exec S1) q = r.
    Proof.
      intros Heq Hn Hk.
      destruct (w_read_resp Hwit _ Hn Hk) as [Hle Hr].
      rewrite (@exec_before_read S1 S2 i k Hle); [symmetry; exact Hr| |exact Heq].
      apply in_reads_at. exists i, o, q, r. auto.
    Qed.

    (** (b), the four cases *)
    Lemma lin_order_rt (i j : nat) (oi oj : cop) :
      nth_error H i = Some oi -> nth_error H j = Some oj ->
      op_ret oi < op_inv oj ->
      precedes lin_order (item_of i oi) (item_of j oj).
    Proof.
      intros Hi Hj Hlt.
      destruct (op_kind oi) as [p1 r1|q1 k1 r1] eqn:Hki;
        destruct (op_kind oj) as [p2 r2|q2 k2 r2] eqn:Hkj.
      - (* write, write *)
        pose proof (w_ww Hwit _ _ Hi Hj Hki Hkj Hlt) as Hpos.
        pose proof (write_pos_lt _ Hj Hkj) as Hp2.
        apply (@precedes_blocks p1 p2); [lia|lia| |].
        + eapply item_in_blk_write; eassumption.
        + eapply item_in_blk_write; eassumption.
      - (* write, read *)
        pose proof (w_wr Hwit _ _ Hi Hj Hki Hkj Hlt) as Hpos.
        destruct (w_read_resp Hwit _ Hj Hkj) as [Hk2 _].
        apply (@precedes_blocks p1 k2); [lia|lia| |].
        + eapply item_in_blk_write; eassumption.
        + eapply item_in_blk_read; eassumption.
      - (* read, write *)
        pose proof (w_rw Hwit _ _ Hi Hj Hki Hkj Hlt) as Hpos.
        pose proof (write_pos_lt _ Hj Hkj) as Hp2.
        destruct (Nat.eq_dec k1 p2) as [->|Hne].
        + apply (@precedes_same_block p2); [lia|]. unfold blk.
          apply precedes_app_in.
          * eapply item_in_reads_at; eassumption.
          * unfold item_of. rewrite Hkj. apply in_wr. auto.
        + apply (@precedes_blocks k1 p2); [lia|lia| |].
          * eapply item_in_blk_read; eassumption.
          * eapply item_in_blk_write; eassumption.
      - (* read, read *)
        pose proof (w_rr Hwit _ _ Hi Hj Hki Hkj Hlt) as Hpos.
        destruct (w_read_resp Hwit _ Hj Hkj) as [Hk2 _].
        destruct (Nat.eq_dec k1 k2) as [->|Hne].
        + apply (@precedes_same_block k2); [lia|]. unfold blk.
          apply precedes_app_l. unfold item_of. rewrite Hki, Hkj.
          pose proof (w_times Hwit _ Hi) as Hwf.
          eapply precedes_reads_same_k; try eassumption. lia.
        + apply (@precedes_blocks k1 k2); [lia|lia| |].
          * eapply item_in_blk_read; eassumption.
          * eapply item_in_blk_read; eassumption.
    Qed.

    Lemma lin_order_linearization : linearization lin_order.
    Proof.
      constructor.
      - exact NoDup_lin_order.
      - exact wpos_of_lin_order.
      - exact lin_order_complete.
      - exact (w_write_inj Hwit).
      - exact lin_order_only.
      - exact lin_order_wresp.
      - exact lin_order_rresp.
      - exact lin_order_rt.
    Qed.
  End Main.

  (** The witness conditions imply linearizability. *)
  Theorem witness_implies_linearizable : witness -> linearizable.
  Proof.
    intros Hwit. exists lin_order. apply lin_order_linearization. exact Hwit.
  Qed.

End Lin.

(* ------------------------------------------------------------------------- *)
(** * Part 5: examples *)
(* ------------------------------------------------------------------------- *)

(** A register holding a natural number: a write stores a value and returns
    the previous one, a read returns the current value. *)
Module Examples.

  Definition reg_wapply (s w : nat) : nat * nat := (w, s).
  Definition reg_rapply (s : nat) (_ : unit) : nat := s.

  Notation Wr := (@W unit nat nat).
  Notation Rd := (@R unit nat nat).
  Notation op := (@mkOp unit nat nat).

  Ltac enum i := repeat (destruct i as [|i]; simpl in *; try discriminate).

  Ltac crunch :=
    repeat match goal with
           | Hx : Some _ = Some _ |- _ => inversion Hx; subst; clear Hx
           end;
    simpl in *;
    repeat match goal with
           | Hx : @W _ _ _ _ _ = @W _ _ _ _ _ |- _ => inversion Hx; subst; clear Hx
           | Hx : @R _ _ _ _ _ _ = @R _ _ _ _ _ _ |- _ => inversion Hx; subst; clear Hx
           | Hx : @W _ _ _ _ _ = @R _ _ _ _ _ _ |- _ => discriminate Hx
           | Hx : @R _ _ _ _ _ _ = @W _ _ _ _ _ |- _ => discriminate Hx
           end;
    simpl in *.

  (** ** Non-vacuity: three writes and two reads, overlapping in time

<<
      time  0  1  2  3  4  5  6  7  8  9 10 11
      w0    [-----]                               W pos 0, old value 0
      w1       [--------------]                   W pos 1, old value 1
      r0             [-----]                      R k=1 -> 1  (sees w0, not w1)
      w2                         [--------]       W pos 2, old value 2
      r1                            [--------]    R k=3 -> 3  (sees w2, concurrent)
>>
  *)
  Definition exL : list nat := [1; 2; 3].

  Definition exH : list (cop unit nat nat) :=
    [ op 0 2 (Wr 0 0);
      op 1 6 (Wr 1 1);
      op 3 5 (Rd tt 1 1);
      op 7 10 (Wr 2 2);
      op 8 11 (Rd tt 3 3) ].

  Example witness_example : witness reg_wapply reg_rapply 0 exL exH.
  Proof.
    constructor.
    - intros i o Hi. enum i; crunch; lia.
    - intros i o p r Hi Hk. enum i; crunch; reflexivity.
    - intros i j oi oj p ri rj Hi Hj Hki Hkj. enum i; enum j; crunch; reflexivity.
    - intros i j oi oj pi ri pj rj Hi Hj Hki Hkj Hlt. enum i; enum j; crunch; lia.
    - intros i o q k r Hi Hk. enum i; crunch; (split; [lia|reflexivity]).
    - intros i j oi oj p rw q k rr Hi Hj Hki Hkj Hlt. enum i; enum j; crunch; lia.
    - intros i j oi oj q k rr p rw Hi Hj Hki Hkj Hlt. enum i; enum j; crunch; lia.
    - intros i j oi oj q1 k1 r1 q2 k2 r2 Hi Hj Hki Hkj Hlt. enum i; enum j; crunch; lia.
  Qed.

  Example linearizable_example : linearizable reg_wapply reg_rapply 0 exL exH.
  Proof. apply witness_implies_linearizable, witness_example. Qed.

  (** ** Necessity of "a read sees every write completed before it started"

      One write, completed at time 1; a read invoked at time 2 that is matched
      with the empty prefix and returns the initial value.  All witness
      conditions except [wit_wr] hold, and the history is NOT linearizable. *)
  Definition badL : list nat := [1].

  Definition badH : list (cop unit nat nat) :=
    [ op 0 1 (Wr 0 0);
      op 2 3 (Rd tt 0 0) ].

  Example stale_read_refuted :
    wf_times badH /\
    wit_write_resp reg_wapply 0 badL badH /\
    write_inj badH /\
    wit_ww badH /\
    wit_read_resp reg_wapply reg_rapply 0 badL badH /\
    wit_rw badH /\
    wit_rr badH /\
    ~ wit_wr badH /\
    ~ linearizable reg_wapply reg_rapply 0 badL badH.
  Proof.
    repeat split.
    - intros i o Hi. enum i; crunch; lia.
    - intros i o p r Hi Hk. enum i; crunch; reflexivity.
    - intros i j oi oj p ri rj Hi Hj Hki Hkj. enum i; enum j; crunch; reflexivity.
    - intros i j oi oj pi ri pj rj Hi Hj Hki Hkj Hlt. enum i; enum j; crunch; lia.
    - enum i; crunch; lia.
    - enum i; crunch; reflexivity.
    - intros i j oi oj q k rr p rw Hi Hj Hki Hkj Hlt. enum i; enum j; crunch; lia.
    - intros i j oi oj q1 k1 r1 q2 k2 r2 Hi Hj Hki Hkj Hlt. enum i; enum j; crunch; lia.
    - intros Hwr.
      specialize (Hwr 0 1 _ _ _ _ _ _ _ eq_refl eq_refl eq_refl eq_refl).
      simpl in Hwr. lia.
    - intros [ord Hlin].
      (* real time: the write precedes the read *)
      pose proof (lin_rt Hlin 0 1 eq_refl eq_refl) as Hrt. simpl in Hrt.
      destruct Hrt as (l1 & l2 & l3 & Hord); [lia|].
      unfold item_of in Hord. simpl in Hord.
      (* so the read runs after the write ... *)
      assert (ord = (l1 ++ IW 0 :: l2) ++ IR 1 :: l3) as Hord'.
      { rewrite Hord, <- app_assoc. reflexivity. }
      pose proof (lin_rresp Hlin _ _ 1 Hord' eq_refl eq_refl) as Hresp.
      (* ... in a state where the register holds 1 *)
      pose proof (lin_log Hlin) as Hlog. rewrite Hord in Hlog.
      rewrite !wpos_of_app in Hlog. simpl in Hlog. rewrite wpos_of_app in Hlog.
      simpl in Hlog.
      destruct (wpos_of l1) as [|a l] eqn:E1.
      + simpl in Hlog. injection Hlog as Hlog.
        apply app_eq_nil in Hlog. destruct Hlog as [E2 _].
        rewrite exec_wpos, wpos_of_app in Hresp. simpl in Hresp.
        rewrite E1, E2 in Hresp. simpl in Hresp. discriminate Hresp.
      + simpl in Hlog. injection Hlog as _ Hlog.
        symmetry in Hlog. apply app_cons_not_nil in Hlog. exact Hlog.
  Qed.

End Examples.
