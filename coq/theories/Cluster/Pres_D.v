(* Group D: acknowledgements, their history, client quorums.
   Preservation of I_ack, I_hist_cur, I_hist_resp, I_hist_el, I_cq. *)
From Coq Require Import List Arith Bool PeanoNat Lia.
From Oxia.Cluster Require Import Model Invariants StepFacts Safety.
Import ListNotations.

(* ---------- pure list / pfx facts ---------- *)
Lemma d_entry_eq_dec (a b : entry) : {a = b} + {a <> b}.
Proof. decide equality; apply Nat.eq_dec. Qed.

Lemma d_pfx_dec k (a b : list entry) : {pfx k a b} + {~ pfx k a b}.
Proof. unfold pfx. apply (list_eq_dec d_entry_eq_dec). Qed.

Lemma d_pfx_refl k (a : list entry) : pfx k a a.
Proof. reflexivity. Qed.

Lemma d_pfx_app_r_iff k a b r : k <= length b -> (pfx k a (b ++ r) <-> pfx k a b).
Proof.
  unfold pfx. intros Hk. rewrite firstn_app. replace (k - length b) with 0 by lia.
  cbn [firstn]. rewrite app_nil_r. tauto.
Qed.

Lemma d_pfx_app_l k a b r : pfx k a b -> k <= length a -> pfx k (a ++ r) b.
Proof. intros H Hk. apply pfx_sym. apply pfx_app_r; [apply pfx_sym; exact H | exact Hk]. Qed.

Lemma d_pfx_len_l k a b : pfx k a b -> k <= length b -> k <= length a.
Proof. intros H Hk. apply (pfx_len_r k b a); [apply pfx_sym; exact H | exact Hk]. Qed.

Lemma d_is_prefix_pfx a b k : is_prefix a b -> k <= length a -> pfx k a b.
Proof. intros [r ->] Hk. apply pfx_app_r; [apply d_pfx_refl | exact Hk]. Qed.

(* ---------- highest_le / truncate_to ---------- *)
Lemma d_hle_from_spec l : forall i t acc tk k, highest_le_from i l t acc = (tk, k) ->
  ((tk, k) = acc /\ forall j e, nth_error l j = Some e -> t < eterm e) \/
  (exists j e, nth_error l j = Some e /\ eterm e <= t /\ tk = eterm e /\ k = S (i + j) /\
     forall j' e', j < j' -> nth_error l j' = Some e' -> t < eterm e').
Proof.
  induction l as [|x l IH]; intros i t acc tk k H; cbn [highest_le_from] in H.
  - left. split; [auto|]. intros [|j] e He; discriminate.
  - apply IH in H. destruct H as [[Hacc Hall] | (j & e & Hj & Hle & Htk & Hk & Hlater)].
    + destruct (eterm x <=? t) eqn:Hx.
      * apply Nat.leb_le in Hx. right. exists 0, x. inversion Hacc; subst.
        split; [reflexivity|]. split; [exact Hx|]. split; [reflexivity|]. split; [lia|].
        intros [|j'] e' Hlt He'; [lia|]. cbn in He'. eapply Hall; eauto.
      * apply Nat.leb_gt in Hx. left. split; [exact Hacc|]. intros [|j] e He; cbn in He.
        -- inversion He; subst. lia.
        -- eapply Hall; eauto.
    + right. exists (S j), e.
      split; [exact Hj|]. split; [exact Hle|]. split; [exact Htk|]. split; [lia|].
      intros [|j'] e' Hlt He'; [lia|]. cbn in He'. eapply Hlater; [|exact He']. lia.
Qed.

Lemma d_truncate_from_keeps a : forall i o tk k,
  o < length a ->
  (forall j e, j <= o -> nth_error a j = Some e -> eterm e < tk \/ (eterm e = tk /\ S (i + j) <= k)) ->
  firstn (S o) (truncate_from i a tk k) = firstn (S o) a.
Proof.
  induction a as [|x a IH]; intros i o tk k Hlen Hall; [cbn in Hlen; lia|].
  cbn [truncate_from].
  assert (Hx : (eterm x <? tk) || ((eterm x =? tk) && (S i <=? k)) = true).
  { destruct (Hall 0 x ltac:(lia) eq_refl) as [H|[H1 H2]].
    - apply Nat.ltb_lt in H. rewrite H. reflexivity.
    - apply Nat.eqb_eq in H1. rewrite H1. replace (i + 0) with i in H2 by lia.
      apply Nat.leb_le in H2. rewrite H2. apply orb_true_r. }
  rewrite Hx. cbn [firstn]. f_equal.
  destruct o as [|o]; [reflexivity|].
  apply IH; [cbn in Hlen; lia|].
  intros j e Hj He. destruct (Hall (S j) e ltac:(lia) He) as [H|[H1 H2]];
    [left; exact H | right; split; [exact H1 | lia]].
Qed.

Lemma d_truncate_keeps a b o tk k :
  sorted a -> sorted b -> pfx (S o) a b -> o < length b ->
  highest_le b (last_term a) = (tk, k) ->
  pfx (S o) (truncate_to a tk k) a.
Proof.
  intros Hsa Hsb Hp Hlen Hh.
  destruct (nth_error b o) as [eo|] eqn:Hbo; [|apply nth_error_None in Hbo; lia].
  assert (Hao : nth_error a o = Some eo) by (rewrite (pfx_nth _ _ _ o Hp); [exact Hbo | lia]).
  assert (Hla : eterm eo <= last_term a) by (eapply sorted_last_ge; eauto).
  unfold highest_le in Hh. apply d_hle_from_spec in Hh.
  assert (Hk : S o <= k /\ eterm eo <= tk).
  { destruct Hh as [[_ Hall] | (j & e & Hj & Hle & Htk & Hk & Hlater)].
    - specialize (Hall _ _ Hbo). lia.
    - assert (Hoj : o <= j).
      { destruct (le_lt_dec o j) as [H|H]; [exact H|]. specialize (Hlater _ _ H Hbo). lia. }
      split; [lia|]. subst tk. eapply Hsb; [|exact Hbo|exact Hj]. exact Hoj. }
  destruct Hk as [Hk1 Hk2].
  unfold truncate_to, pfx. apply d_truncate_from_keeps.
  - apply nth_error_Some. congruence.
  - intros j e Hj He.
    assert (eterm e <= eterm eo) by (eapply Hsa; [|exact He|exact Hao]; exact Hj).
    destruct (Nat.eq_dec (eterm e) tk); [right; split; [assumption|lia] | left; lia].
Qed.

Lemma d_attach_decide_trunc llog lh fh tk k :
  attach_decide llog lh fh = TruncateTo tk k -> highest_le llog (fst fh) = (tk, k).
Proof.
  unfold attach_decide. destruct ((fst fh =? fst lh) && (snd fh <=? snd lh)); [discriminate|].
  destruct (fst lh <? fst fh); [discriminate|].
  destruct (highest_le llog (fst fh)) as [tk' k'].
  destruct ((fst fh =? tk') && (snd fh <=? k')); [discriminate|].
  intros H; inversion H; reflexivity.
Qed.

Lemma d_truncate_from_prefix a : forall i tk k, exists r, a = truncate_from i a tk k ++ r.
Proof.
  induction a as [|x a IH]; intros i tk k; cbn [truncate_from]; [exists []; reflexivity|].
  destruct ((eterm x <? tk) || ((eterm x =? tk) && (S i <=? k))).
  - destruct (IH (S i) tk k) as [r Hr]. exists r. cbn [app]. rewrite <- Hr. reflexivity.
  - exists (x :: a). reflexivity.
Qed.

Lemma d_sorted_prefix p r : sorted (p ++ r) -> sorted p.
Proof.
  intros Hs i j ei ej Hij Hi Hj.
  assert (Hil : i < length p) by (apply nth_error_Some; congruence).
  assert (Hjl : j < length p) by (apply nth_error_Some; congruence).
  apply (Hs i j ei ej Hij); rewrite nth_error_app1; assumption.
Qed.

Lemma d_sorted_truncate a tk k : sorted a -> sorted (truncate_to a tk k).
Proof.
  intros Hs. unfold truncate_to. destruct (d_truncate_from_prefix a 0 tk k) as [r Hr].
  rewrite Hr in Hs. exact (d_sorted_prefix _ _ Hs).
Qed.

(* every round of the truncate loop keeps the prefix the follower shares with the leader *)
Lemma d_attach_loop_keeps b lh o : sorted b -> o < length b ->
  forall fuel c newlog, sorted c -> pfx (S o) c b ->
  attach_loop fuel b lh c = Some newlog -> pfx (S o) newlog b.
Proof.
  intros Hsb Hlen. induction fuel as [|fu IH]; intros c newlog Hsc Hp Hloop; cbn [attach_loop] in Hloop;
    [discriminate|].
  destruct (attach_decide b lh (lhead c)) as [start|tk k|] eqn:Hd; [| |discriminate].
  - inversion Hloop; subst newlog. exact Hp.
  - apply d_attach_decide_trunc in Hd. cbn [lhead fst] in Hd.
    pose proof (d_truncate_keeps c b o tk k Hsc Hsb Hp Hlen Hd) as Hk.
    apply (IH (truncate_to c tk k) newlog).
    + apply d_sorted_truncate. exact Hsc.
    + apply (pfx_trans _ _ c); assumption.
    + exact Hloop.
Qed.

(* ---------- extension of the ghost logs ---------- *)
Definition ext (w w' : world) : Prop :=
  (forall t lg, elog w t = Some lg -> elog w' t = Some lg) /\
  (forall t, elog w t <> None -> exists r, tlog w' t = tlog w t ++ r).

Lemma ext_same w w' : elog w' = elog w -> tlog w' = tlog w -> ext w w'.
Proof.
  intros He Ht. split.
  - intros t lg H. rewrite He. exact H.
  - intros t _. exists []. rewrite Ht, app_nil_r. reflexivity.
Qed.

Lemma ext_elog w w' t : ext w w' -> elog w t <> None -> elog w' t <> None.
Proof.
  intros [H _] Hn. destruct (elog w t) as [lg|] eqn:E; [|congruence].
  rewrite (H _ _ E). discriminate.
Qed.

Lemma ext_pfx w w' t k a : ext w w' -> elog w t <> None -> k <= length (tlog w t) ->
  (pfx k a (tlog w' t) <-> pfx k a (tlog w t)).
Proof. intros [_ H] Hn Hk. destruct (H t Hn) as [r ->]. apply d_pfx_app_r_iff. exact Hk. Qed.

Lemma ext_len w w' t : ext w w' -> elog w t <> None -> length (tlog w t) <= length (tlog w' t).
Proof. intros [_ H] Hn. destruct (H t Hn) as [r ->]. rewrite app_length. lia. Qed.

Lemma ext_lost_lt w w' t o lo hi : ext w w' -> elog w t <> None -> o < length (tlog w t) ->
  (exists t'' lg, lo < t'' /\ t'' < hi /\ elog w t'' = Some lg /\ ~ pfx (S o) lg (tlog w t)) ->
  (exists t'' lg, lo < t'' /\ t'' < hi /\ elog w' t'' = Some lg /\ ~ pfx (S o) lg (tlog w' t)).
Proof.
  intros Hext Hn Hlen (t'' & lg & H1 & H2 & H3 & H4). exists t'', lg.
  split; [exact H1|]. split; [exact H2|]. split; [apply (proj1 Hext); exact H3|].
  intros Hp. apply H4. apply (ext_pfx w w' t (S o) lg Hext Hn); [lia | exact Hp].
Qed.

Lemma ext_lost_to w w' t o lo hi hi' : ext w w' -> elog w t <> None -> o < length (tlog w t) ->
  hi <= hi' -> lost_to w t o lo hi -> lost_to w' t o lo hi'.
Proof.
  intros Hext Hn Hlen Hhi (t'' & lg & H1 & H2 & H3 & H4). exists t'', lg.
  split; [exact H1|]. split; [lia|]. split; [apply (proj1 Hext); exact H3|].
  intros Hp. apply H4. apply (ext_pfx w w' t (S o) lg Hext Hn); [lia | exact Hp].
Qed.

(* ---------- generic preservation under an extension ---------- *)
Lemma ext_ack w w' : ext w w' -> I_ack w ->
  (forall x, nterm (nodes w' x) = nterm (nodes w x)) ->
  (forall x, exists r, nlog (nodes w' x) = nlog (nodes w x) ++ r) ->
  (forall x t o, In (x, t, o) (acks w') -> In (x, t, o) (acks w) \/
     (elog w' t <> None /\ o < length (tlog w' t) /\ t <= nterm (nodes w' x) /\
      (nterm (nodes w' x) = t -> pfx (S o) (nlog (nodes w' x)) (tlog w' t)))) ->
  I_ack w'.
Proof.
  intros Hext Hack Hnt Hnl Hnew x t o Hin.
  destruct (Hnew _ _ _ Hin) as [Hold|Hn]; [|exact Hn].
  destruct (Hack _ _ _ Hold) as (He & Hlen & Hle & Hp).
  split; [eapply ext_elog; eauto|].
  split; [pose proof (ext_len w w' t Hext He); lia|].
  rewrite Hnt. split; [exact Hle|].
  intros Heq. destruct (Hnl x) as [r ->].
  apply (ext_pfx w w' t (S o) _ Hext He); [lia|].
  specialize (Hp Heq).
  apply d_pfx_app_l; [exact Hp|]. apply (d_pfx_len_l _ _ _ Hp). lia.
Qed.

Lemma ext_hist_cur w w' : ext w w' -> I_ack w ->
  (forall x, nterm (nodes w' x) = nterm (nodes w x)) ->
  (forall x, exists r, nlog (nodes w' x) = nlog (nodes w x) ++ r) ->
  (forall x t o, In (x, t, o) (acks w') -> In (x, t, o) (acks w) \/ nterm (nodes w x) = t) ->
  I_hist_cur w -> I_hist_cur w'.
Proof.
  intros Hext Hack Hnt Hnl Hnew Hcur x t o' o Hin Hoo Hlt.
  rewrite Hnt in *.
  destruct (Hnew _ _ _ Hin) as [Hold|Hn]; [|lia].
  destruct (Hack _ _ _ Hold) as (He & Hlen & _ & _).
  destruct (Hcur _ _ _ _ Hold Hoo Hlt) as [Hp|Hl].
  - left. destruct (Hnl x) as [r ->].
    apply (ext_pfx w w' t (S o) _ Hext He); [lia|].
    apply d_pfx_app_l; [exact Hp|]. apply (d_pfx_len_l _ _ _ Hp). lia.
  - right. apply (ext_lost_to w w' t o t (nterm (nodes w x)) (nterm (nodes w x)) Hext He);
      [lia | lia | exact Hl].
Qed.

Lemma term_elected_same w w' t : elected w' = elected w -> term_elected w' t = term_elected w t.
Proof. unfold term_elected. intros ->. reflexivity. Qed.

Lemma ext_hist_resp w w' : ext w w' -> I_ack w -> I_terms w ->
  resps w' = resps w -> elected w' = elected w ->
  (forall x t o, In (x, t, o) (acks w') -> In (x, t, o) (acks w) \/ nterm (nodes w x) = t) ->
  I_hist_resp w -> I_hist_resp w'.
Proof.
  intros Hext Hack Hterms Hr Hel Hnew Hres x t' rl t o' o Hin Hte Hina Hoo Hlt.
  rewrite Hr in Hin. rewrite (term_elected_same _ _ _ Hel) in Hte.
  destruct (Hnew _ _ _ Hina) as [Hold|Hn].
  - destruct (Hack _ _ _ Hold) as (He & Hlen & _ & _).
    destruct (Hres _ _ _ _ _ _ Hin Hte Hold Hoo Hlt) as [Hp|Hl].
    + left. apply (ext_pfx w w' t (S o) _ Hext He); [lia | exact Hp].
    + right. apply (ext_lost_lt w w' t o t t' Hext He); [lia | exact Hl].
  - destruct Hterms as (_ & Ht2 & _). destruct (Ht2 _ _ _ Hin) as (_ & _ & H3). lia.
Qed.

Lemma ext_hist_el w w' : ext w w' -> I_ack w -> I_terms w -> I_el w ->
  elected w' = elected w ->
  (forall x t o, In (x, t, o) (acks w') -> In (x, t, o) (acks w) \/ nterm (nodes w x) = t) ->
  I_hist_el w -> I_hist_el w'.
Proof.
  intros Hext Hack Hterms Hiel Hel Hnew Hhe t' l cands x rl t o' o Hin Hc Hina Hoo Hlt.
  rewrite Hel in Hin.
  destruct (Hnew _ _ _ Hina) as [Hold|Hn].
  - destruct (Hack _ _ _ Hold) as (He & Hlen & _ & _).
    destruct (Hhe _ _ _ _ _ _ _ _ Hin Hc Hold Hoo Hlt) as [Hp|Hl].
    + left. apply (ext_pfx w w' t (S o) _ Hext He); [lia | exact Hp].
    + right. apply (ext_lost_lt w w' t o t t' Hext He); [lia | exact Hl].
  - destruct (Hiel _ _ _ Hin) as (_ & _ & _ & Hresp & _).
    pose proof (Hresp _ _ Hc) as Hr.
    destruct Hterms as (_ & Ht2 & _). destruct (Ht2 _ _ _ Hr) as (_ & _ & H3). lia.
Qed.

Lemma ext_cq w w' : ext w w' -> I_wf_tlog w ->
  cacked w' = cacked w -> cq w' = cq w -> ens w' = ens w -> incl (acks w) (acks w') ->
  I_cq w -> I_cq w'.
Proof.
  intros Hext Htl Hca Hcq Hens Hincl [H1 H2]. split.
  - intros t o e Hin. rewrite Hca in Hin. destruct (H1 _ _ _ Hin) as (Hn & Het & Q & HQ).
    split; [|split; [exact Het | exists Q; rewrite Hcq; exact HQ]].
    assert (He : elog w t <> None).
    { intros Hnone. destruct (Htl t) as (_ & _ & H3 & _). rewrite (H3 Hnone) in Hn.
      destruct o; discriminate. }
    destruct (proj2 Hext t He) as [r ->]. rewrite nth_error_app1; [exact Hn|].
    apply nth_error_Some. congruence.
  - intros t o Q Hin. rewrite Hcq in Hin. destruct (H2 _ _ _ Hin) as (Hnd & Hi & Hl & Hx).
    rewrite Hens. split; [exact Hnd|]. split; [exact Hi|]. split; [exact Hl|].
    intros x HxQ. destruct (Hx x HxQ) as (o' & Hoo & Ha). exists o'. split; [exact Hoo|].
    apply Hincl. exact Ha.
Qed.

(* ---------- extension facts for the log-changing actions ---------- *)
Lemma ext_upd_BL w w' t lg : elog w t = None ->
  elog w' = upd (elog w) t (Some lg) -> tlog w' = upd (tlog w) t lg -> ext w w'.
Proof.
  intros Hn He Ht. split.
  - intros t1 lg1 H. rewrite He. rewrite upd_other; [exact H|]. intros ->. congruence.
  - intros t1 H. exists []. rewrite Ht, app_nil_r. rewrite upd_other; [reflexivity|]. intros ->. congruence.
Qed.

Lemma ext_upd_CW w w' t e : elog w' = elog w -> tlog w' = upd (tlog w) t (tlog w t ++ [e]) -> ext w w'.
Proof.
  intros He Ht. split.
  - intros t1 lg H. rewrite He. exact H.
  - intros t1 _. rewrite Ht. destruct (Nat.eq_dec t1 t) as [->|Hne].
    + exists [e]. apply upd_same.
    + exists []. rewrite upd_other, app_nil_r; auto.
Qed.

Lemma upd_nterm_same (nd : nat -> nstate) n s : nterm s = nterm (nd n) ->
  forall x, nterm (upd nd n s x) = nterm (nd x).
Proof.
  intros H x. unfold upd. destruct (x =? n) eqn:E; [apply Nat.eqb_eq in E; subst; exact H | reflexivity].
Qed.

Lemma upd_nlog_app (nd : nat -> nstate) n s r : nlog s = nlog (nd n) ++ r ->
  forall x, exists r', nlog (upd nd n s x) = nlog (nd x) ++ r'.
Proof.
  intros H x. unfold upd. destruct (x =? n) eqn:E.
  - apply Nat.eqb_eq in E; subst. exists r. exact H.
  - exists []. rewrite app_nil_r. reflexivity.
Qed.

Lemma upd_nlog_same (nd : nat -> nstate) n s : nlog s = nlog (nd n) ->
  forall x, exists r', nlog (upd nd n s x) = nlog (nd x) ++ r'.
Proof. intros H. apply (upd_nlog_app nd n s []). rewrite app_nil_r. exact H. Qed.

Lemma nlog_same_app (w w' : world) : (forall x, nlog (nodes w' x) = nlog (nodes w x)) ->
  forall x, exists r, nlog (nodes w' x) = nlog (nodes w x) ++ r.
Proof. intros H x. exists []. rewrite app_nil_r. apply H. Qed.

Ltac simp_w := unfold set_node;
  cbn [nodes cterm ens removed resps elected elog tlog appends acks cacked cq att].
Ltac simp_w_in H := unfold set_node in H;
  cbn [nodes cterm ens removed resps elected elog tlog appends acks cacked cq att] in H.

(* ---------- Attach / TruncateTo facts ---------- *)
Lemma attach_follower_untouched E w l f flog :
  Inv E w -> leading (nodes w l) -> f <> l ->
  In (f, nterm (nodes w l), flog) (resps w) ->
  is_attached f (nacked (nodes w l)) = false ->
  nterm (nodes w f) = nterm (nodes w l) ->
  nlog (nodes w f) = flog.
Proof.
  intros HI Hlead Hfl Hresp Hnatt Hft.
  apply (inv_untouched _ _ HI f (nterm (nodes w l)) flog Hresp Hft).
  - intros Hin. destruct (inv_att _ _ HI) as (_ & _ & _ & _ & H5).
    rewrite (H5 l Hlead f Hin) in Hnatt. discriminate.
  - right. destruct (is_elected w (nterm (nodes w l)) f) eqn:Eel; [|reflexivity]. exfalso.
    apply is_elected_In in Eel. destruct Eel as (c & Hc).
    destruct (inv_leading _ _ HI l Hlead) as (Hl & _). cbv zeta in Hl.
    apply is_elected_In in Hl. destruct Hl as (c' & Hc').
    destruct (inv_elected_unique _ _ HI _ _ _ _ _ Hc Hc') as [Heq _]. contradiction.
Qed.

Lemma attach_trunc_keeps E w l f flog lh tk k fuel newlog o :
  Inv E w -> leading (nodes w l) -> f <> l ->
  In (f, nterm (nodes w l), flog) (resps w) ->
  is_attached f (nacked (nodes w l)) = false ->
  nterm (nodes w f) = nterm (nodes w l) ->
  attach_decide (nlog (nodes w l)) lh (lhead flog) = TruncateTo tk k ->
  attach_loop fuel (nlog (nodes w l)) lh (truncate_to (nlog (nodes w f)) tk k) = Some newlog ->
  pfx (S o) (nlog (nodes w f)) (nlog (nodes w l)) -> o < length (nlog (nodes w l)) ->
  pfx (S o) newlog (nlog (nodes w f)).
Proof.
  intros HI Hlead Hfl Hresp Hnatt Hft Hdec Hloop Hp Hlen.
  pose proof (attach_follower_untouched E w l f flog HI Hlead Hfl Hresp Hnatt Hft) as Hun.
  apply d_attach_decide_trunc in Hdec. cbn [lhead fst] in Hdec. rewrite <- Hun in Hdec.
  assert (Hsf : sorted (nlog (nodes w f))) by apply (inv_wf_nodes _ _ HI f).
  assert (Hsl : sorted (nlog (nodes w l))) by apply (inv_wf_nodes _ _ HI l).
  pose proof (d_truncate_keeps _ _ o tk k Hsf Hsl Hp Hlen Hdec) as Hk.
  apply (pfx_trans _ _ (nlog (nodes w l))); [|apply pfx_sym; exact Hp].
  apply (d_attach_loop_keeps (nlog (nodes w l)) lh o Hsl Hlen fuel (truncate_to (nlog (nodes w f)) tk k) newlog).
  - apply d_sorted_truncate. exact Hsf.
  - apply (pfx_trans _ _ (nlog (nodes w f))); assumption.
  - exact Hloop.
Qed.

(* ---------- I_ack ---------- *)
Lemma init_I_ack E : NoDup E -> I_ack (init E).
Proof. intros _ x t o H. destruct H. Qed.

Lemma frame_ack w w' : I_ack w -> elog w' = elog w -> tlog w' = tlog w -> acks w' = acks w ->
  (forall x, nterm (nodes w' x) = nterm (nodes w x)) ->
  (forall x, nlog (nodes w' x) = nlog (nodes w x)) -> I_ack w'.
Proof.
  intros Hack He Ht Ha Hnt Hnl. apply (ext_ack w w'); auto.
  - apply ext_same; auto.
  - apply nlog_same_app; auto.
  - intros x t o Hin. left. rewrite Ha in Hin. exact Hin.
Qed.

Lemma upd_nlog_eq (nd : nat -> nstate) n s : nlog s = nlog (nd n) ->
  forall x, nlog (upd nd n s x) = nlog (nd x).
Proof.
  intros H x. unfold upd. destruct (x =? n) eqn:E; [apply Nat.eqb_eq in E; subst; exact H | reflexivity].
Qed.

Lemma pres_I_ack E w a w' : Inv E w -> is_swap a = false -> step w a = Some w' -> I_ack w'.
Proof.
  intros HI Hns Hstep. pose proof (inv_ack _ _ HI) as Hack.
  destruct a; try discriminate Hns.
  - (* NewElection *)
    apply step_NewElection in Hstep. subst w'. apply (frame_ack w); auto.
  - (* NewTerm *)
    apply step_NewTerm in Hstep. cbv zeta in Hstep. destruct Hstep as (H1 & H2 & Hcond & ->).
    intros x t0 o Hin. simp_w. simp_w_in Hin.
    destruct (Hack _ _ _ Hin) as (He & Hlen & Hle & Hp).
    split; [exact He|]. split; [exact Hlen|].
    unfold upd. destruct (x =? n) eqn:Exn.
    + apply Nat.eqb_eq in Exn. subst x. cbn [nterm nlog]. split; [lia|].
      intros ->. apply Hp. lia.
    + split; assumption.
  - (* Elect *)
    apply step_Elect in Hstep. cbv zeta in Hstep.
    destruct Hstep as (llog & _ & _ & _ & _ & _ & _ & _ & _ & _ & _ & ->).
    apply (frame_ack w); auto.
  - (* BecomeLeader *)
    apply step_BecomeLeader in Hstep. cbv zeta in Hstep.
    destruct Hstep as (Hel & Hst & Hne & Helog & ->).
    apply (ext_ack w).
    + eapply ext_upd_BL; [exact Helog | reflexivity | reflexivity].
    + exact Hack.
    + simp_w. apply upd_nterm_same. reflexivity.
    + simp_w. apply upd_nlog_same. reflexivity.
    + simp_w. intros x t o Hin. destruct (length (nlog (nodes w l))) eqn:Hlen.
      * left; exact Hin.
      * destruct Hin as [Heq|Hin]; [|left; exact Hin]. inversion Heq; subst x t o. right.
        rewrite !upd_same. cbn [nterm nlog].
        split; [discriminate|]. split; [lia|]. split; [lia|]. intros _. apply d_pfx_refl.
  - (* Attach *)
    apply step_Attach in Hstep. cbv zeta in Hstep.
    destruct Hstep as (Hlead & Hfl & Hfens & Hresp & Hnatt & Hcap &
      [ (start & Hdec & ->) | (tk & k & Hdec & Hft & Hfst & Hfel & newlog & Hloop & ->) ]).
    + apply (frame_ack w); auto; simp_w.
      * apply upd_nterm_same. reflexivity.
      * apply upd_nlog_eq. reflexivity.
    + intros x t o Hin. simp_w. simp_w_in Hin.
      destruct (Hack _ _ _ Hin) as (He & Hlen & Hle & Hp).
      split; [exact He|]. split; [exact Hlen|].
      destruct (Nat.eq_dec x l) as [->|Hxl].
      * rewrite upd_same. cbn [nterm nlog]. split; assumption.
      * rewrite (upd_other _ l _ x Hxl). destruct (Nat.eq_dec x f) as [->|Hxf].
        -- rewrite upd_same. cbn [nterm nlog]. rewrite <- Hft. split; [exact Hle|].
           intros Heq. specialize (Hp Heq).
           destruct (inv_leading _ _ HI l Hlead) as (_ & Hlog & _). cbv zeta in Hlog.
           assert (Htt : tlog w t = nlog (nodes w l)) by (rewrite Hlog, <- Heq, Hft; reflexivity).
           apply (pfx_trans _ _ (nlog (nodes w f))); [|exact Hp].
           eapply (attach_trunc_keeps E w l f flog); eauto.
           ++ rewrite <- Htt. exact Hp.
           ++ rewrite <- Htt. exact Hlen.
        -- rewrite (upd_other _ f _ x Hxf). split; assumption.
  - (* FinishBecomeLeader *)
    apply step_FinishBecomeLeader in Hstep. cbv zeta in Hstep. destruct Hstep as (_ & _ & ->).
    apply (frame_ack w); auto; simp_w.
    + apply upd_nterm_same. reflexivity.
    + apply upd_nlog_eq. reflexivity.
  - (* ClientWrite *)
    apply step_ClientWrite in Hstep. cbv zeta in Hstep. destruct Hstep as (Hst & ->).
    destruct (inv_leading _ _ HI l (or_intror Hst)) as (_ & Hlog & _ & (lg & Hlg & _) & _).
    cbv zeta in Hlog, Hlg.
    assert (Hext : ext w (mkW (upd (nodes w) l
            (mkN (nterm (nodes w l)) Leader (nlog (nodes w l) ++ [mkE (nterm (nodes w l)) v]) false
               (nehead (nodes w l)) (nrf (nodes w l))
               (if nrf (nodes w l) / 2 =? 0 then length (nlog (nodes w l) ++ [mkE (nterm (nodes w l)) v])
                else ncommit (nodes w l)) (nacked (nodes w l))))
            (cterm w) (ens w) (removed w) (resps w) (elected w) (elog w)
            (upd (tlog w) (nterm (nodes w l)) (nlog (nodes w l) ++ [mkE (nterm (nodes w l)) v]))
            (appends w) ((l, nterm (nodes w l), length (nlog (nodes w l))) :: acks w)
            (cacked w) (cq w) (att w))).
    { eapply (ext_upd_CW _ _ (nterm (nodes w l)) (mkE (nterm (nodes w l)) v)); [reflexivity|].
      simp_w. rewrite <- Hlog. reflexivity. }
    apply (ext_ack w _ Hext Hack).
    + simp_w. apply upd_nterm_same. reflexivity.
    + simp_w. apply (upd_nlog_app _ _ _ [mkE (nterm (nodes w l)) v]). reflexivity.
    + simp_w. intros x t o [Heq|Hin]; [|left; exact Hin]. inversion Heq; subst x t o. right.
      rewrite !upd_same. cbn [nterm nlog].
      split; [rewrite Hlg; discriminate|]. split; [rewrite app_length; cbn; lia|]. split; [lia|].
      intros _. apply d_pfx_refl.
  - (* SendAppend *)
    apply step_SendAppend in Hstep. cbv zeta in Hstep. destruct Hstep as (_ & _ & e & _ & ->).
    apply (frame_ack w); auto.
  - (* RecvAppend *)
    apply step_RecvAppend in Hstep. cbv zeta in Hstep.
    destruct Hstep as (Happ & Hft & Hfst & Hfel & Hcase).
    destruct (inv_att _ _ HI) as (Ha1 & Ha2 & Ha3 & _).
    destruct (Ha3 _ _ _ _ Happ) as (Hatt & Hnth).
    destruct (Ha1 _ _ Hatt) as (Helog & _).
    pose proof (Ha2 _ _ Hatt Hft) as Hpre.
    assert (Holen : o < length (tlog w t)) by (apply nth_error_Some; congruence).
    destruct Hcase as [(Hlt & ->) | (Heq & ->)].
    + apply (ext_ack w).
      * apply ext_same; reflexivity.
      * exact Hack.
      * simp_w. apply upd_nterm_same. cbn. auto.
      * simp_w. apply upd_nlog_same. reflexivity.
      * simp_w. intros x t0 o0 [Heq|Hin]; [|left; exact Hin]. inversion Heq; subst x t0 o0. right.
        rewrite !upd_same. cbn [nterm nlog].
        split; [exact Helog|]. split; [exact Holen|]. split; [lia|]. intros _.
        apply d_is_prefix_pfx; [exact Hpre | lia].
    + assert (Hpre' : is_prefix (nlog (nodes w f) ++ [e]) (tlog w t)).
      { destruct Hpre as [rest Hrest]. rewrite Hrest in Hnth.
        rewrite nth_error_app2 in Hnth by lia. replace (o - length (nlog (nodes w f))) with 0 in Hnth by lia.
        destruct rest as [|e' rest]; [discriminate|]. cbn in Hnth. inversion Hnth; subst e'.
        exists rest. rewrite Hrest, <- app_assoc. reflexivity. }
      apply (ext_ack w).
      * apply ext_same; reflexivity.
      * exact Hack.
      * simp_w. apply upd_nterm_same. cbn. auto.
      * simp_w. apply (upd_nlog_app _ _ _ [e]). reflexivity.
      * simp_w. intros x t0 o0 [Heq'|Hin]; [|left; exact Hin]. inversion Heq'; subst x t0 o0. right.
        rewrite !upd_same. cbn [nterm nlog].
        split; [exact Helog|]. split; [exact Holen|]. split; [lia|]. intros _.
        apply d_is_prefix_pfx; [exact Hpre' | rewrite app_length; cbn; lia].
  - (* RecvAck *)
    apply step_RecvAck in Hstep. cbv zeta in Hstep. destruct Hstep as (_ & _ & _ & _ & ->).
    apply (frame_ack w); auto; simp_w.
    + apply upd_nterm_same. reflexivity.
    + apply upd_nlog_eq. reflexivity.
  - (* AckClient *)
    apply step_AckClient in Hstep. cbv zeta in Hstep. destruct Hstep as (e & _ & _ & _ & _ & _ & ->).
    apply (frame_ack w); auto.
  - (* LearnCommit *)
    apply step_LearnCommit in Hstep. cbv zeta in Hstep. destruct Hstep as (_ & _ & _ & _ & ->).
    apply (frame_ack w); auto; simp_w.
    + apply upd_nterm_same. reflexivity.
    + apply upd_nlog_eq. reflexivity.
  - (* Crash *)
    apply step_Crash in Hstep. cbv zeta in Hstep. subst w'.
    apply (frame_ack w); auto; simp_w.
    + apply upd_nterm_same. reflexivity.
    + apply upd_nlog_eq. reflexivity.
Qed.

(* ---------- I_hist_cur ---------- *)
Lemma init_I_hist_cur E : NoDup E -> I_hist_cur (init E).
Proof. intros _ x t o' o H. destruct H. Qed.

Lemma frame_hist_cur w w' : I_ack w -> I_hist_cur w ->
  elog w' = elog w -> tlog w' = tlog w -> acks w' = acks w ->
  (forall x, nterm (nodes w' x) = nterm (nodes w x)) ->
  (forall x, nlog (nodes w' x) = nlog (nodes w x)) -> I_hist_cur w'.
Proof.
  intros Hack Hcur He Ht Ha Hnt Hnl. apply (ext_hist_cur w w'); auto.
  - apply ext_same; auto.
  - apply nlog_same_app; auto.
  - intros x t o Hin. left. rewrite Ha in Hin. exact Hin.
Qed.

Lemma pres_I_hist_cur E w a w' : Inv E w -> is_swap a = false -> step w a = Some w' -> I_hist_cur w'.
Proof.
  intros HI Hns Hstep. pose proof (inv_ack _ _ HI) as Hack. pose proof (inv_hist_cur _ _ HI) as Hcur.
  destruct a; try discriminate Hns.
  - (* NewElection *)
    apply step_NewElection in Hstep. subst w'. apply (frame_hist_cur w); auto.
  - (* NewTerm *)
    apply step_NewTerm in Hstep. cbv zeta in Hstep. destruct Hstep as (H1 & H2 & Hcond & ->).
    intros x t0 o' o Hin Hoo Hlt. unfold lost_to. simp_w. simp_w_in Hin. simp_w_in Hlt.
    destruct (Hack _ _ _ Hin) as (He & Hlen & Hle & Hp).
    destruct (Nat.eq_dec x n) as [->|Hxn].
    + rewrite upd_same in Hlt. rewrite upd_same. cbn [nterm nlog] in *.
      destruct (Nat.eq_dec (nterm (nodes w n)) t0) as [Heq|Hne].
      * left. apply (pfx_le (S o) (S o')); [lia|]. apply Hp. exact Heq.
      * assert (Hlt' : t0 < nterm (nodes w n)) by lia.
        destruct (Hcur _ _ _ _ Hin Hoo Hlt') as [Hp'|(t'' & lg & Hl1 & Hl2 & Hl3 & Hl4)]; [left; exact Hp'|].
        right. exists t'', lg. split; [exact Hl1|]. split; [lia|]. split; assumption.
    + rewrite (upd_other _ n _ x Hxn) in Hlt. rewrite (upd_other _ n _ x Hxn).
      exact (Hcur _ _ _ _ Hin Hoo Hlt).
  - (* Elect *)
    apply step_Elect in Hstep. cbv zeta in Hstep.
    destruct Hstep as (llog & _ & _ & _ & _ & _ & _ & _ & _ & _ & _ & ->).
    apply (frame_hist_cur w); auto.
  - (* BecomeLeader *)
    apply step_BecomeLeader in Hstep. cbv zeta in Hstep.
    destruct Hstep as (Hel & Hst & Hne & Helog & ->).
    apply (ext_hist_cur w).
    + eapply ext_upd_BL; [exact Helog | reflexivity | reflexivity].
    + exact Hack.
    + simp_w. apply upd_nterm_same. reflexivity.
    + simp_w. apply upd_nlog_same. reflexivity.
    + simp_w. intros x t o Hin. destruct (length (nlog (nodes w l))) eqn:Hlen.
      * left; exact Hin.
      * destruct Hin as [Heq|Hin]; [|left; exact Hin]. inversion Heq; subst x t o. right. reflexivity.
    + exact Hcur.
  - (* Attach *)
    apply step_Attach in Hstep. cbv zeta in Hstep.
    destruct Hstep as (Hlead & Hfl & Hfens & Hresp & Hnatt & Hcap &
      [ (start & Hdec & ->) | (tk & k & Hdec & Hft & Hfst & Hfel & newlog & Hloop & ->) ]).
    + apply (frame_hist_cur w); auto; simp_w.
      * apply upd_nterm_same. reflexivity.
      * apply upd_nlog_eq. reflexivity.
    + intros x t o' o Hin Hoo Hlt. unfold lost_to. simp_w. simp_w_in Hin. simp_w_in Hlt.
      destruct (Hack _ _ _ Hin) as (He & Hlen & Hle & _).
      destruct (Nat.eq_dec x l) as [->|Hxl].
      * rewrite upd_same in Hlt. rewrite upd_same. cbn [nterm nlog] in *.
        exact (Hcur _ _ _ _ Hin Hoo Hlt).
      * rewrite (upd_other _ l _ x Hxl) in Hlt. rewrite (upd_other _ l _ x Hxl).
        destruct (Nat.eq_dec x f) as [->|Hxf].
        -- rewrite upd_same in Hlt. rewrite upd_same. cbn [nterm nlog] in *.
           assert (Hlt' : t < nterm (nodes w f)) by (rewrite Hft; exact Hlt).
           destruct (Hcur _ _ _ _ Hin Hoo Hlt') as [Hp|Hl].
           2:{ right. unfold lost_to in Hl. rewrite Hft in Hl. exact Hl. }
           destruct (inv_leading _ _ HI l Hlead) as (_ & Hlog & _ & (lg1 & Hlg1 & _) & _).
           cbv zeta in Hlog, Hlg1.
           destruct (d_pfx_dec (S o) lg1 (tlog w t)) as [Hy|Hn].
           2:{ right. exists (nterm (nodes w l)), lg1.
               split; [exact Hlt|]. split; [lia|]. split; [exact Hlg1 | exact Hn]. }
           left.
           destruct (inv_wf_tlog _ _ HI (nterm (nodes w l))) as (_ & _ & _ & Hsome).
           destruct (Hsome _ Hlg1) as (_ & rest & Hrest & _).
           assert (Hlen1 : S o <= length lg1) by (apply (d_pfx_len_l _ _ _ Hy); lia).
           assert (Hll : nlog (nodes w l) = lg1 ++ rest) by congruence.
           assert (Hpl : pfx (S o) (nlog (nodes w f)) (nlog (nodes w l))).
           { rewrite Hll. apply (pfx_trans _ _ (tlog w t)); [exact Hp|].
             apply pfx_sym. apply d_pfx_app_l; [exact Hy | exact Hlen1]. }
           apply (pfx_trans _ _ (nlog (nodes w f))); [|exact Hp].
           eapply (attach_trunc_keeps E w l f flog); eauto.
           rewrite Hll, app_length. lia.
        -- rewrite (upd_other _ f _ x Hxf) in Hlt. rewrite (upd_other _ f _ x Hxf).
           exact (Hcur _ _ _ _ Hin Hoo Hlt).
  - (* FinishBecomeLeader *)
    apply step_FinishBecomeLeader in Hstep. cbv zeta in Hstep. destruct Hstep as (_ & _ & ->).
    apply (frame_hist_cur w); auto; simp_w.
    + apply upd_nterm_same. reflexivity.
    + apply upd_nlog_eq. reflexivity.
  - (* ClientWrite *)
    apply step_ClientWrite in Hstep. cbv zeta in Hstep. destruct Hstep as (Hst & ->).
    destruct (inv_leading _ _ HI l (or_intror Hst)) as (_ & Hlog & _). cbv zeta in Hlog.
    apply (ext_hist_cur w).
    + eapply (ext_upd_CW _ _ (nterm (nodes w l)) (mkE (nterm (nodes w l)) v)); [reflexivity|].
      simp_w. rewrite <- Hlog. reflexivity.
    + exact Hack.
    + simp_w. apply upd_nterm_same. reflexivity.
    + simp_w. apply (upd_nlog_app _ _ _ [mkE (nterm (nodes w l)) v]). reflexivity.
    + simp_w. intros x t o [Heq|Hin]; [|left; exact Hin]. inversion Heq; subst x t o. right. reflexivity.
    + exact Hcur.
  - (* SendAppend *)
    apply step_SendAppend in Hstep. cbv zeta in Hstep. destruct Hstep as (_ & _ & e & _ & ->).
    apply (frame_hist_cur w); auto.
  - (* RecvAppend *)
    apply step_RecvAppend in Hstep. cbv zeta in Hstep.
    destruct Hstep as (Happ & Hft & Hfst & Hfel & Hcase).
    destruct Hcase as [(Hlt & ->) | (Heq & ->)].
    + apply (ext_hist_cur w).
      * apply ext_same; reflexivity.
      * exact Hack.
      * simp_w. apply upd_nterm_same. cbn. auto.
      * simp_w. apply upd_nlog_same. reflexivity.
      * simp_w. intros x t0 o0 [Heq|Hin]; [|left; exact Hin]. inversion Heq; subst x t0 o0. right. exact Hft.
      * exact Hcur.
    + apply (ext_hist_cur w).
      * apply ext_same; reflexivity.
      * exact Hack.
      * simp_w. apply upd_nterm_same. cbn. auto.
      * simp_w. apply (upd_nlog_app _ _ _ [e]). reflexivity.
      * simp_w. intros x t0 o0 [Heq'|Hin]; [|left; exact Hin]. inversion Heq'; subst x t0 o0. right. exact Hft.
      * exact Hcur.
  - (* RecvAck *)
    apply step_RecvAck in Hstep. cbv zeta in Hstep. destruct Hstep as (_ & _ & _ & _ & ->).
    apply (frame_hist_cur w); auto; simp_w.
    + apply upd_nterm_same. reflexivity.
    + apply upd_nlog_eq. reflexivity.
  - (* AckClient *)
    apply step_AckClient in Hstep. cbv zeta in Hstep. destruct Hstep as (e & _ & _ & _ & _ & _ & ->).
    apply (frame_hist_cur w); auto.
  - (* LearnCommit *)
    apply step_LearnCommit in Hstep. cbv zeta in Hstep. destruct Hstep as (_ & _ & _ & _ & ->).
    apply (frame_hist_cur w); auto; simp_w.
    + apply upd_nterm_same. reflexivity.
    + apply upd_nlog_eq. reflexivity.
  - (* Crash *)
    apply step_Crash in Hstep. cbv zeta in Hstep. subst w'.
    apply (frame_hist_cur w); auto; simp_w.
    + apply upd_nterm_same. reflexivity.
    + apply upd_nlog_eq. reflexivity.
Qed.

(* ---------- I_hist_resp ---------- *)
Lemma init_I_hist_resp E : NoDup E -> I_hist_resp (init E).
Proof. intros _ x t' rl t o' o H. destruct H. Qed.

Lemma frame_hist_resp w w' : I_ack w -> I_terms w -> I_hist_resp w ->
  elog w' = elog w -> tlog w' = tlog w -> acks w' = acks w ->
  resps w' = resps w -> elected w' = elected w -> I_hist_resp w'.
Proof.
  intros Hack Hterms Hres He Ht Ha Hr Hel. apply (ext_hist_resp w w'); auto.
  - apply ext_same; auto.
  - intros x t o Hin. left. rewrite Ha in Hin. exact Hin.
Qed.

Lemma pres_I_hist_resp E w a w' : Inv E w -> is_swap a = false -> step w a = Some w' -> I_hist_resp w'.
Proof.
  intros HI Hns Hstep. pose proof (inv_ack _ _ HI) as Hack. pose proof (inv_terms _ _ HI) as Hterms.
  pose proof (inv_hist_resp _ _ HI) as Hres.
  destruct a; try discriminate Hns.
  - (* NewElection *)
    apply step_NewElection in Hstep. subst w'. apply (frame_hist_resp w); auto.
  - (* NewTerm *)
    apply step_NewTerm in Hstep. cbv zeta in Hstep. destruct Hstep as (H1 & H2 & Hcond & ->).
    intros x t' rl t1 o' o Hin Hte Hina Hoo Hlt.
    change (term_elected w t' = false) in Hte. simp_w. simp_w_in Hin. simp_w_in Hina.
    destruct Hin as [Heq|Hin]; [|exact (Hres _ _ _ _ _ _ Hin Hte Hina Hoo Hlt)].
    inversion Heq; subst x t' rl.
    destruct (Hack _ _ _ Hina) as (He & Hlen & Hle & Hp).
    destruct (Nat.eq_dec (nterm (nodes w n)) t1) as [Heq1|Hne].
    + left. apply (pfx_le (S o) (S o')); [lia|]. apply Hp. exact Heq1.
    + assert (Hlt' : t1 < nterm (nodes w n)) by lia.
      destruct (inv_hist_cur _ _ HI _ _ _ _ Hina Hoo Hlt') as [Hp'|(t'' & lg & Hl1 & Hl2 & Hl3 & Hl4)];
        [left; exact Hp'|].
      right. exists t'', lg. split; [exact Hl1|]. split; [|split; assumption].
      assert (Hte'' : term_elected w t'' = true).
      { destruct Hterms as (_ & _ & _ & Ht4). apply Ht4. rewrite Hl3. discriminate. }
      assert (t'' <> t) by (intros ->; congruence). lia.
  - (* Elect *)
    apply step_Elect in Hstep. cbv zeta in Hstep.
    destruct Hstep as (llog & _ & _ & _ & _ & _ & _ & _ & _ & _ & _ & ->).
    intros x t' rl t1 o' o Hin Hte Hina Hoo Hlt.
    unfold term_elected in Hte. simp_w_in Hte. cbn [existsb] in Hte.
    apply orb_false_iff in Hte. destruct Hte as [_ Hte].
    exact (Hres _ _ _ _ _ _ Hin Hte Hina Hoo Hlt).
  - (* BecomeLeader *)
    apply step_BecomeLeader in Hstep. cbv zeta in Hstep.
    destruct Hstep as (Hel & Hst & Hne & Helog & ->).
    apply (ext_hist_resp w); auto.
    + eapply ext_upd_BL; [exact Helog | reflexivity | reflexivity].
    + simp_w. intros x t o Hin. destruct (length (nlog (nodes w l))) eqn:Hlen.
      * left; exact Hin.
      * destruct Hin as [Heq|Hin]; [|left; exact Hin]. inversion Heq; subst x t o. right. reflexivity.
  - (* Attach *)
    apply step_Attach in Hstep. cbv zeta in Hstep.
    destruct Hstep as (Hlead & Hfl & Hfens & Hresp & Hnatt & Hcap &
      [ (start & Hdec & ->) | (tk & k & Hdec & Hft & Hfst & Hfel & newlog & Hloop & ->) ]);
      apply (frame_hist_resp w); auto.
  - (* FinishBecomeLeader *)
    apply step_FinishBecomeLeader in Hstep. cbv zeta in Hstep. destruct Hstep as (_ & _ & ->).
    apply (frame_hist_resp w); auto.
  - (* ClientWrite *)
    apply step_ClientWrite in Hstep. cbv zeta in Hstep. destruct Hstep as (Hst & ->).
    destruct (inv_leading _ _ HI l (or_intror Hst)) as (_ & Hlog & _). cbv zeta in Hlog.
    apply (ext_hist_resp w); auto.
    + eapply (ext_upd_CW _ _ (nterm (nodes w l)) (mkE (nterm (nodes w l)) v)); [reflexivity|].
      simp_w. rewrite <- Hlog. reflexivity.
    + simp_w. intros x t o [Heq|Hin]; [|left; exact Hin]. inversion Heq; subst x t o. right. reflexivity.
  - (* SendAppend *)
    apply step_SendAppend in Hstep. cbv zeta in Hstep. destruct Hstep as (_ & _ & e & _ & ->).
    apply (frame_hist_resp w); auto.
  - (* RecvAppend *)
    apply step_RecvAppend in Hstep. cbv zeta in Hstep.
    destruct Hstep as (Happ & Hft & Hfst & Hfel & Hcase).
    destruct Hcase as [(Hlt & ->) | (Heq & ->)]; apply (ext_hist_resp w); auto;
      try (apply ext_same; reflexivity);
      simp_w; intros x t0 o0 [Heq'|Hin]; [|left; exact Hin| |left; exact Hin];
      inversion Heq'; subst x t0 o0; right; exact Hft.
  - (* RecvAck *)
    apply step_RecvAck in Hstep. cbv zeta in Hstep. destruct Hstep as (_ & _ & _ & _ & ->).
    apply (frame_hist_resp w); auto.
  - (* AckClient *)
    apply step_AckClient in Hstep. cbv zeta in Hstep. destruct Hstep as (e & _ & _ & _ & _ & _ & ->).
    apply (frame_hist_resp w); auto.
  - (* LearnCommit *)
    apply step_LearnCommit in Hstep. cbv zeta in Hstep. destruct Hstep as (_ & _ & _ & _ & ->).
    apply (frame_hist_resp w); auto.
  - (* Crash *)
    apply step_Crash in Hstep. cbv zeta in Hstep. subst w'.
    apply (frame_hist_resp w); auto.
Qed.

(* ---------- I_hist_el ---------- *)
Lemma init_I_hist_el E : NoDup E -> I_hist_el (init E).
Proof. intros _ t' l cands x rl t o' o H. destruct H. Qed.

Lemma frame_hist_el w w' : I_ack w -> I_terms w -> I_el w -> I_hist_el w ->
  elog w' = elog w -> tlog w' = tlog w -> acks w' = acks w ->
  elected w' = elected w -> I_hist_el w'.
Proof.
  intros Hack Hterms Hiel Hhe He Ht Ha Hel. apply (ext_hist_el w w'); auto.
  - apply ext_same; auto.
  - intros x t o Hin. left. rewrite Ha in Hin. exact Hin.
Qed.

Lemma pres_I_hist_el E w a w' : Inv E w -> is_swap a = false -> step w a = Some w' -> I_hist_el w'.
Proof.
  intros HI Hns Hstep. pose proof (inv_ack _ _ HI) as Hack. pose proof (inv_terms _ _ HI) as Hterms.
  pose proof (inv_el _ _ HI) as Hiel. pose proof (inv_hist_el _ _ HI) as Hhe.
  destruct a; try discriminate Hns.
  - (* NewElection *)
    apply step_NewElection in Hstep. subst w'. apply (frame_hist_el w); auto.
  - (* NewTerm *)
    apply step_NewTerm in Hstep. cbv zeta in Hstep. destruct Hstep as (H1 & H2 & Hcond & ->).
    apply (frame_hist_el w); auto.
  - (* Elect *)
    apply step_Elect in Hstep. cbv zeta in Hstep.
    destruct Hstep as (llog & Hl & Hte & Hct & Hnd & Hincl & _ & _ & Hresp & _ & _ & ->).
    intros t' l0 cands0 x rl t1 o' o Hin Hc Hina Hoo Hlt.
    simp_w. simp_w_in Hin. simp_w_in Hina.
    destruct Hin as [Heq|Hin]; [|exact (Hhe _ _ _ _ _ _ _ _ Hin Hc Hina Hoo Hlt)].
    inversion Heq; subst t' l0 cands0.
    exact (inv_hist_resp _ _ HI _ _ _ _ _ _ (Hresp _ _ Hc) Hte Hina Hoo Hlt).
  - (* BecomeLeader *)
    apply step_BecomeLeader in Hstep. cbv zeta in Hstep.
    destruct Hstep as (Hel & Hst & Hne & Helog & ->).
    apply (ext_hist_el w); auto.
    + eapply ext_upd_BL; [exact Helog | reflexivity | reflexivity].
    + simp_w. intros x t o Hin. destruct (length (nlog (nodes w l))) eqn:Hlen.
      * left; exact Hin.
      * destruct Hin as [Heq|Hin]; [|left; exact Hin]. inversion Heq; subst x t o. right. reflexivity.
  - (* Attach *)
    apply step_Attach in Hstep. cbv zeta in Hstep.
    destruct Hstep as (Hlead & Hfl & Hfens & Hresp & Hnatt & Hcap &
      [ (start & Hdec & ->) | (tk & k & Hdec & Hft & Hfst & Hfel & newlog & Hloop & ->) ]);
      apply (frame_hist_el w); auto.
  - (* FinishBecomeLeader *)
    apply step_FinishBecomeLeader in Hstep. cbv zeta in Hstep. destruct Hstep as (_ & _ & ->).
    apply (frame_hist_el w); auto.
  - (* ClientWrite *)
    apply step_ClientWrite in Hstep. cbv zeta in Hstep. destruct Hstep as (Hst & ->).
    destruct (inv_leading _ _ HI l (or_intror Hst)) as (_ & Hlog & _). cbv zeta in Hlog.
    apply (ext_hist_el w); auto.
    + eapply (ext_upd_CW _ _ (nterm (nodes w l)) (mkE (nterm (nodes w l)) v)); [reflexivity|].
      simp_w. rewrite <- Hlog. reflexivity.
    + simp_w. intros x t o [Heq|Hin]; [|left; exact Hin]. inversion Heq; subst x t o. right. reflexivity.
  - (* SendAppend *)
    apply step_SendAppend in Hstep. cbv zeta in Hstep. destruct Hstep as (_ & _ & e & _ & ->).
    apply (frame_hist_el w); auto.
  - (* RecvAppend *)
    apply step_RecvAppend in Hstep. cbv zeta in Hstep.
    destruct Hstep as (Happ & Hft & Hfst & Hfel & Hcase).
    destruct Hcase as [(Hlt & ->) | (Heq & ->)]; apply (ext_hist_el w); auto;
      try (apply ext_same; reflexivity);
      simp_w; intros x t0 o0 [Heq'|Hin]; [|left; exact Hin| |left; exact Hin];
      inversion Heq'; subst x t0 o0; right; exact Hft.
  - (* RecvAck *)
    apply step_RecvAck in Hstep. cbv zeta in Hstep. destruct Hstep as (_ & _ & _ & _ & ->).
    apply (frame_hist_el w); auto.
  - (* AckClient *)
    apply step_AckClient in Hstep. cbv zeta in Hstep. destruct Hstep as (e & _ & _ & _ & _ & _ & ->).
    apply (frame_hist_el w); auto.
  - (* LearnCommit *)
    apply step_LearnCommit in Hstep. cbv zeta in Hstep. destruct Hstep as (_ & _ & _ & _ & ->).
    apply (frame_hist_el w); auto.
  - (* Crash *)
    apply step_Crash in Hstep. cbv zeta in Hstep. subst w'.
    apply (frame_hist_el w); auto.
Qed.

(* ---------- I_cq ---------- *)
Lemma init_I_cq E : NoDup E -> I_cq (init E).
Proof. intros _. split; [intros t o e H | intros t o Q H]; destruct H. Qed.

Lemma frame_cq w w' : I_wf_tlog w -> I_cq w ->
  elog w' = elog w -> tlog w' = tlog w -> acks w' = acks w ->
  cacked w' = cacked w -> cq w' = cq w -> ens w' = ens w -> I_cq w'.
Proof.
  intros Htl Hcq He Ht Ha Hca Hq Hens. apply (ext_cq w w'); auto.
  - apply ext_same; auto.
  - rewrite Ha. apply incl_refl.
Qed.

Lemma d_NoDup_map_filter (p : nat * nat -> bool) l :
  NoDup (map fst l) -> NoDup (map fst (filter p l)).
Proof.
  induction l as [|x l IH]; cbn [map filter]; intros H; [constructor|].
  inversion H as [|? ? Hnin Hnd]; subst. destruct (p x); cbn [map]; [constructor|]; auto.
  intros Hin. apply Hnin. apply in_map_iff in Hin. destruct Hin as (y & Hy & Hyin).
  apply filter_In in Hyin. destruct Hyin as [Hyin _]. apply in_map_iff. exists y. auto.
Qed.

Lemma d_half_lt n c : n / 2 <= c -> n < 2 * (1 + c).
Proof.
  intros H. pose proof (Nat.div_mod n 2 ltac:(lia)) as Hd.
  pose proof (Nat.mod_upper_bound n 2 ltac:(lia)) as Hm.
  remember (n / 2) as q. remember (n mod 2) as r. lia.
Qed.

Lemma pres_I_cq E w a w' : Inv E w -> is_swap a = false -> step w a = Some w' -> I_cq w'.
Proof.
  intros HI Hns Hstep. pose proof (inv_wf_tlog _ _ HI) as Htl. pose proof (inv_cq _ _ HI) as Hcq.
  destruct a; try discriminate Hns.
  - (* NewElection *)
    apply step_NewElection in Hstep. subst w'. apply (frame_cq w); auto.
  - (* NewTerm *)
    apply step_NewTerm in Hstep. cbv zeta in Hstep. destruct Hstep as (H1 & H2 & Hcond & ->).
    apply (frame_cq w); auto.
  - (* Elect *)
    apply step_Elect in Hstep. cbv zeta in Hstep.
    destruct Hstep as (llog & _ & _ & _ & _ & _ & _ & _ & _ & _ & _ & ->).
    apply (frame_cq w); auto.
  - (* BecomeLeader *)
    apply step_BecomeLeader in Hstep. cbv zeta in Hstep.
    destruct Hstep as (Hel & Hst & Hne & Helog & ->).
    apply (ext_cq w); auto.
    + eapply ext_upd_BL; [exact Helog | reflexivity | reflexivity].
    + simp_w. destruct (length (nlog (nodes w l))); [apply incl_refl | apply incl_tl, incl_refl].
  - (* Attach *)
    apply step_Attach in Hstep. cbv zeta in Hstep.
    destruct Hstep as (Hlead & Hfl & Hfens & Hresp & Hnatt & Hcap &
      [ (start & Hdec & ->) | (tk & k & Hdec & Hft & Hfst & Hfel & newlog & Hloop & ->) ]);
      apply (frame_cq w); auto.
  - (* FinishBecomeLeader *)
    apply step_FinishBecomeLeader in Hstep. cbv zeta in Hstep. destruct Hstep as (_ & _ & ->).
    apply (frame_cq w); auto.
  - (* ClientWrite *)
    apply step_ClientWrite in Hstep. cbv zeta in Hstep. destruct Hstep as (Hst & ->).
    destruct (inv_leading _ _ HI l (or_intror Hst)) as (_ & Hlog & _). cbv zeta in Hlog.
    apply (ext_cq w); auto.
    + eapply (ext_upd_CW _ _ (nterm (nodes w l)) (mkE (nterm (nodes w l)) v)); [reflexivity|].
      simp_w. rewrite <- Hlog. reflexivity.
    + simp_w. apply incl_tl, incl_refl.
  - (* SendAppend *)
    apply step_SendAppend in Hstep. cbv zeta in Hstep. destruct Hstep as (_ & _ & e & _ & ->).
    apply (frame_cq w); auto.
  - (* RecvAppend *)
    apply step_RecvAppend in Hstep. cbv zeta in Hstep.
    destruct Hstep as (Happ & Hft & Hfst & Hfel & Hcase).
    destruct Hcase as [(Hlt & ->) | (Heq & ->)]; apply (ext_cq w); auto;
      try (apply ext_same; reflexivity); simp_w; apply incl_tl, incl_refl.
  - (* RecvAck *)
    apply step_RecvAck in Hstep. cbv zeta in Hstep. destruct Hstep as (_ & _ & _ & _ & ->).
    apply (frame_cq w); auto.
  - (* AckClient *)
    apply step_AckClient in Hstep. cbv zeta in Hstep.
    destruct Hstep as (e & Hnth & Hst & Het & Hoc & Hq & ->).
    destruct (inv_leading _ _ HI l (or_intror Hst)) as (Hiel & Hlog & Hrf & (lg & Hlg & Hneh) & Hown).
    cbv zeta in Hiel, Hlog, Hrf, Hlg, Hneh, Hown.
    destruct (inv_nacked _ _ HI l (or_intror Hst)) as (Hnd & Hna). cbv zeta in Hnd, Hna.
    destruct Hcq as [Hc1 Hc2].
    assert (Holen : o < length (nlog (nodes w l))) by (apply nth_error_Some; congruence).
    split; simp_w.
    + intros t o0 e0 [Heq|Hin].
      * inversion Heq; subst t o0 e0. split; [rewrite <- Hlog; exact Hnth|]. split; [exact Het|].
        eexists. left. reflexivity.
      * destruct (Hc1 _ _ _ Hin) as (Hn & He & Q & HQ).
        split; [exact Hn|]. split; [exact He|]. exists Q. right. exact HQ.
    + intros t o0 Q [Heq|Hin]; [|exact (Hc2 _ _ _ Hin)].
      inversion Heq; subst t o0 Q. clear Heq.
      split; [|split; [|split]].
      * constructor.
        -- intros Hin. apply in_map_iff in Hin. destruct Hin as ([f a0] & Hf & Hfin).
           apply filter_In in Hfin. destruct Hfin as [Hfin _]. cbn in Hf. subst f.
           destruct (Hna _ _ Hfin) as (Hne & _). congruence.
        -- apply d_NoDup_map_filter. exact Hnd.
      * intros x [<-|Hx].
        -- apply is_elected_In in Hiel. destruct Hiel as (c & Hc).
           destruct (inv_el _ _ HI _ _ _ Hc) as (_ & Hincl & _ & _ & llog & Hl & _).
           apply Hincl. apply in_map_iff. exists (l, llog). split; [reflexivity | exact Hl].
        -- apply in_map_iff in Hx. destruct Hx as ([f a0] & Hf & Hfin).
           apply filter_In in Hfin. destruct Hfin as [Hfin _]. cbn in Hf. subst f.
           destruct (Hna _ _ Hfin) as (_ & Hens & _). exact Hens.
      * cbn [length]. rewrite map_length. unfold count_ge in Hq. rewrite Hrf in Hq.
        apply d_half_lt. exact Hq.
      * intros x [<-|Hx].
        -- destruct (length (nlog (nodes w l))) as [|k] eqn:Hlen; [lia|].
           exists k. split; [lia|]. apply Hown. reflexivity.
        -- apply in_map_iff in Hx. destruct Hx as ([f a0] & Hf & Hfin).
           apply filter_In in Hfin. destruct Hfin as [Hfin Hge]. cbn [fst] in Hf. change (S o <=? a0 = true) in Hge. subst f.
           apply Nat.leb_le in Hge.
           destruct (Hna _ _ Hfin) as (_ & _ & _ & _ & Hreal).
           assert (Hhead : nehead (nodes w l) <= o).
           { rewrite Hneh. destruct (le_lt_dec (length lg) o) as [H|H]; [exact H|]. exfalso.
             destruct (Htl (nterm (nodes w l))) as (_ & _ & _ & Hsome).
             destruct (Hsome _ Hlg) as (Hbelow & rest & Hrest & _).
             rewrite Hlog, Hrest, nth_error_app1 in Hnth by exact H.
             apply nth_error_In in Hnth. apply Hbelow in Hnth. lia. }
           destruct (Hreal ltac:(lia)) as (k & Hk & Hink).
           exists k. split; [lia | exact Hink].
  - (* LearnCommit *)
    apply step_LearnCommit in Hstep. cbv zeta in Hstep. destruct Hstep as (_ & _ & _ & _ & ->).
    apply (frame_cq w); auto.
  - (* Crash *)
    apply step_Crash in Hstep. cbv zeta in Hstep. subst w'.
    apply (frame_cq w); auto.
Qed.
