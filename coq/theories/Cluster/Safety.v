(* From the invariants to leader completeness and C01. *)
From Coq Require Import List Arith Bool PeanoNat Lia.
From Oxia.Cluster Require Import Model Invariants.
Import ListNotations.

(* ---------- small list facts ---------- *)
Lemma pigeonhole (E Q R : list nat) :
  NoDup Q -> NoDup R -> incl Q E -> incl R E -> length E < length Q + length R ->
  exists x, In x Q /\ In x R.
Proof.
  intros HQ HR IQ IR Hlen.
  destruct (existsb (fun x => existsb (Nat.eqb x) R) Q) eqn:Hex.
  - apply existsb_exists in Hex. destruct Hex as (x & HxQ & Hx).
    apply existsb_exists in Hx. destruct Hx as (y & HyR & Hxy).
    apply Nat.eqb_eq in Hxy. subst y. exists x. auto.
  - exfalso.
    assert (Hdis : forall x, In x Q -> ~ In x R).
    { intros x HxQ HxR.
      assert (existsb (fun x => existsb (Nat.eqb x) R) Q = true); [|congruence].
      apply existsb_exists. exists x. split; [exact HxQ|].
      apply existsb_exists. exists x. split; [exact HxR | apply Nat.eqb_refl]. }
    assert (Hnd : NoDup (Q ++ R)).
    { clear Hlen IQ Hex. induction Q as [|q Q IH]; cbn; [exact HR|].
      inversion HQ as [|? ? Hnq HQ']; subst. constructor.
      - intros Hin. apply in_app_or in Hin. destruct Hin as [Hin|Hin]; [contradiction|].
        apply (Hdis q); [left; reflexivity | exact Hin].
      - apply IH; [exact HQ'|]. intros x Hx. apply Hdis. right; exact Hx. }
    assert (Hincl : incl (Q ++ R) E) by (apply incl_app; assumption).
    pose proof (NoDup_incl_length Hnd Hincl) as Hle. rewrite app_length in Hle. lia.
Qed.

Lemma pfx_le k k' a b : k <= k' -> pfx k' a b -> pfx k a b.
Proof.
  unfold pfx; intros Hk H.
  replace k with (Nat.min k k') by lia. rewrite <- !firstn_firstn. rewrite H. reflexivity.
Qed.

Lemma pfx_trans k a b c : pfx k a b -> pfx k b c -> pfx k a c.
Proof. unfold pfx; congruence. Qed.

Lemma pfx_sym k a b : pfx k a b -> pfx k b a.
Proof. unfold pfx; congruence. Qed.

Lemma nth_error_firstn_lt (a : list entry) k i : i < k -> nth_error (firstn k a) i = nth_error a i.
Proof.
  revert k i; induction a as [|x a IH]; intros k i Hi.
  - rewrite firstn_nil. reflexivity.
  - destruct k; [lia|]. destruct i; [reflexivity|]. cbn. apply IH. lia.
Qed.

Lemma pfx_nth k a b i : pfx k a b -> i < k -> nth_error a i = nth_error b i.
Proof.
  unfold pfx; intros H Hi.
  rewrite <- (nth_error_firstn_lt a k i Hi), <- (nth_error_firstn_lt b k i Hi), H. reflexivity.
Qed.

Lemma pfx_app_r k a b rest : pfx k a b -> k <= length b -> pfx k a (b ++ rest).
Proof. unfold pfx; intros H Hk. rewrite firstn_app. replace (k - length b) with 0 by lia.
  cbn. rewrite app_nil_r. exact H. Qed.

Lemma pfx_len_r k a b : pfx k a b -> k <= length a -> k <= length b.
Proof.
  unfold pfx; intros H Hk.
  assert (length (firstn k a) = k) by (apply firstn_length_le; exact Hk).
  rewrite H in H0. rewrite firstn_length in H0. lia.
Qed.

Lemma pfx_self_firstn k a : pfx k (firstn k a) a.
Proof. unfold pfx. rewrite firstn_firstn. rewrite Nat.min_id. reflexivity. Qed.

Lemma last_nth_error (l : list entry) d : l <> [] -> nth_error l (length l - 1) = Some (last l d).
Proof.
  induction l as [|x l IH]; [congruence|]. intros _.
  destruct l as [|y l]; [reflexivity|].
  cbn [length]. replace (S (S (length l)) - 1) with (S (length (y :: l) - 1)) by (cbn; lia).
  cbn [nth_error]. rewrite IH by congruence. reflexivity.
Qed.

Lemma last_term_nonempty l : 1 <= last_term l -> l <> [].
Proof. intros H ->. cbn in H. lia. Qed.

Lemma sorted_last_ge l i e : sorted l -> nth_error l i = Some e -> eterm e <= last_term l.
Proof.
  intros Hs Hi. assert (Hne : l <> []) by (intros ->; destruct i; discriminate).
  unfold last_term. pose proof (last_nth_error l (mkE 0 0) Hne) as Hl.
  assert (i < length l) by (apply nth_error_Some; congruence).
  eapply Hs; [|exact Hi|exact Hl]. lia.
Qed.

(* ---------- the log-comparison argument of the election ---------- *)
Section Heads.
Variable w : world.
Hypothesis Htl : I_wf_tlog w.

(* a well-formed log whose head is at least the head of a log containing (t, o) also contains it,
   provided every leader log of a term in between contains it (the induction hypothesis) *)
Lemma head_ge_contains (rl lg : list entry) (t o : nat) (e : entry) :
  wf_log w rl -> wf_log w lg ->
  nth_error (tlog w t) o = Some e -> eterm e = t ->
  pfx (S o) rl (tlog w t) ->
  head_le (lhead rl) (lhead lg) = true ->
  (forall t'' lg'', t < t'' -> t'' <= last_term lg -> elog w t'' = Some lg'' -> pfx (S o) lg'' (tlog w t)) ->
  pfx (S o) lg (tlog w t).
Proof.
  intros [Hsr Hwr] [Hsl Hwl] Hnth Het Hpr Hle IH.
  assert (Holen : o < length (tlog w t)) by (apply nth_error_Some; congruence).
  assert (Hrl_o : nth_error rl o = Some e) by (rewrite (pfx_nth _ _ _ o Hpr); [exact Hnth | lia]).
  assert (Hlt_r : t <= last_term rl) by (rewrite <- Het; eapply sorted_last_ge; eauto).
  assert (Hlen_r : S o <= length rl) by (apply nth_error_Some; congruence).
  unfold head_le, lhead in Hle; cbn [fst snd] in Hle.
  assert (Hte1 : 1 <= t).
  { destruct (Hwr o e Hrl_o) as (H1 & _). lia. }
  assert (Hlt_l : t <= last_term lg /\ (last_term lg = t -> length rl <= length lg)).
  { apply orb_true_iff in Hle. destruct Hle as [Hle|Hle].
    - apply Nat.ltb_lt in Hle. split; lia.
    - apply andb_true_iff in Hle. destruct Hle as [H1 H2].
      apply Nat.eqb_eq in H1. apply Nat.leb_le in H2. split; lia. }
  destruct Hlt_l as [Hge Heq].
  assert (Hne : lg <> []) by (apply last_term_nonempty; lia).
  pose proof (last_nth_error lg (mkE 0 0) Hne) as Hlast.
  set (m := length lg - 1) in *.
  assert (Hm : S m = length lg) by (destruct lg; [congruence | cbn in *; lia]).
  destruct (Hwl m _ Hlast) as (_ & Hel & Hpm). fold (last_term lg) in Hel, Hpm.
  (* lg = firstn (S m) (tlog (last_term lg)) *)
  destruct (Nat.eq_dec (last_term lg) t) as [Heqt|Hnet].
  - rewrite Heqt in Hpm. specialize (Heq Heqt).
    apply (pfx_le (S o) (S m)); [lia | exact Hpm].
  - assert (Hgt : t < last_term lg) by lia.
    destruct (elog w (last_term lg)) as [lg''|] eqn:Hel''; [|congruence].
    pose proof (IH _ _ Hgt (Nat.le_refl _) Hel'') as Hp''.
    destruct (Htl (last_term lg)) as (Hwft & _ & _ & Hsome).
    destruct (Hsome _ Hel'') as (_ & rest & Htl_eq & _).
    assert (Hlen'' : S o <= length lg'').
    { apply (pfx_len_r _ _ _ (pfx_sym _ _ _ Hp'')). lia. }
    assert (Hpt : pfx (S o) (tlog w (last_term lg)) (tlog w t)).
    { rewrite Htl_eq. unfold pfx. rewrite firstn_app.
      replace (S o - length lg'') with 0 by lia. cbn. rewrite app_nil_r. exact Hp''. }
    (* m > o, by sortedness of tlog (last_term lg) *)
    assert (Hmo : o < m).
    { destruct Hwft as [Hst _].
      assert (Hto : nth_error (tlog w (last_term lg)) o = Some e).
      { rewrite (pfx_nth _ _ _ o Hpt); [exact Hnth | lia]. }
      assert (Htm : nth_error (tlog w (last_term lg)) m = Some (last lg (mkE 0 0))).
      { rewrite <- (pfx_nth _ _ _ m Hpm); [exact Hlast | lia]. }
      destruct (Nat.lt_trichotomy m o) as [Hlt|[Heq'|Hgt']]; [| |exact Hgt'].
      - pose proof (Hst m o _ _ ltac:(lia) Htm Hto) as Hc. unfold last_term in Hgt. lia.
      - subst o. rewrite Hto in Htm. inversion Htm. unfold last_term in Hgt. rewrite <- H0 in Hgt. lia. }
    apply (pfx_trans _ _ (tlog w (last_term lg))); [|exact Hpt].
    apply (pfx_le (S o) (S m)); [lia | exact Hpm].
Qed.
End Heads.

(* ---------- leader completeness ---------- *)
Theorem leader_completeness E w :
  Inv E w ->
  forall t' lg', elog w t' = Some lg' ->
  forall t o Q, In (t, o, Q) (cq w) -> t < t' ->
  (exists e, In (t, o, e) (cacked w)) ->
  pfx (S o) lg' (tlog w t).
Proof.
  intros HI t'. induction t' as [t' IHt'] using lt_wf_ind.
  intros lg' Hel t o Q HQ Hlt (e & Hca).
  destruct (inv_cq _ _ HI) as [Hc1 Hc2].
  destruct (Hc1 _ _ _ Hca) as (Hnth & Het & _).
  destruct (Hc2 _ _ _ HQ) as (HndQ & HinQ & HlenQ & HevQ).
  destruct (inv_elog _ _ HI _ _ Hel) as (l & cands & Hin_el).
  destruct (inv_el _ _ HI _ _ _ Hin_el) as (Hndc & Hinc & Hlenc & Hresp & llog & Hl_in & Hmax & Hlg).
  pose proof (Hlg _ Hel) as Hlg'. subst lg'. clear Hlg.
  assert (Hlen : length (ens w) < length Q + length (map fst cands)) by (rewrite map_length; lia).
  destruct (pigeonhole (ens w) Q (map fst cands) HndQ Hndc HinQ Hinc Hlen) as (x & HxQ & Hxc).
  apply in_map_iff in Hxc. destruct Hxc as ([x' rl] & Hfx & Hx_in). cbn in Hfx. subst x'.
  destruct (HevQ _ HxQ) as (o' & Hoo' & Hack).
  pose proof (inv_wf_resps _ _ HI) as Hwr.
  assert (Hwf_rl : wf_log w rl) by (eapply Hwr; eapply Hresp; eauto).
  assert (Hwf_ll : wf_log w llog) by (eapply Hwr; eapply Hresp; eauto).
  (* every entry of the leader's reported log has a term below t' *)
  destruct (inv_wf_tlog _ _ HI t') as (_ & _ & _ & Hsome).
  destruct (Hsome _ Hel) as (Hbelow & _).
  assert (Hlt_l : forall t'' lg'', t < t'' -> t'' <= last_term llog -> elog w t'' = Some lg'' ->
                  pfx (S o) lg'' (tlog w t)).
  { intros t'' lg'' H1 H2 H3.
    assert (t'' < t').
    { assert (Hne : llog <> []) by (apply last_term_nonempty; lia).
      pose proof (last_nth_error llog (mkE 0 0) Hne) as Hn.
      apply nth_error_In in Hn. apply Hbelow in Hn. unfold last_term in H2. lia. }
    eapply IHt'; eauto. }
  destruct (inv_hist_el _ _ HI _ _ _ _ _ _ _ o Hin_el Hx_in Hack Hoo' Hlt) as [Hp|Hlost].
  - exact (head_ge_contains w (inv_wf_tlog _ _ HI) rl llog t o e Hwf_rl Hwf_ll Hnth Het Hp (Hmax _ _ Hx_in) Hlt_l).
  - exfalso. destruct Hlost as (t'' & lg'' & H1 & H2 & H3 & H4).
    apply H4. exact (IHt' t'' H2 lg'' H3 t o Q HQ H1 (ex_intro _ e Hca)).
Qed.

(* ---------- C01 on one state ---------- *)
Theorem acked_survive_inv E w :
  Inv E w ->
  forall t o e, In (t, o, e) (cacked w) ->
  forall n, nst (nodes w n) = Leader -> t <= nterm (nodes w n) ->
  nth_error (nlog (nodes w n)) o = Some e.
Proof.
  intros HI t o e Hca n Hlead Hge.
  destruct (inv_cq _ _ HI) as [Hc1 _].
  destruct (Hc1 _ _ _ Hca) as (Hnth & Het & Q & HQ).
  destruct (inv_leading _ _ HI n (or_intror Hlead)) as (_ & Hlog & _ & (lg & Hel & _) & _).
  cbn zeta in *. rewrite Hlog.
  destruct (Nat.eq_dec (nterm (nodes w n)) t) as [->|Hne]; [exact Hnth|].
  assert (Hlt : t < nterm (nodes w n)) by lia.
  pose proof (leader_completeness E w HI _ _ Hel _ _ _ HQ Hlt (ex_intro _ e Hca)) as Hp.
  destruct (inv_wf_tlog _ _ HI (nterm (nodes w n))) as (_ & _ & _ & Hsome).
  destruct (Hsome _ Hel) as (_ & rest & Heq & _).
  assert (Holen : o < length (tlog w t)) by (apply nth_error_Some; congruence).
  assert (S o <= length lg) by (apply (pfx_len_r _ _ _ (pfx_sym _ _ _ Hp)); lia).
  rewrite Heq. rewrite nth_error_app1 by lia.
  rewrite (pfx_nth _ _ _ o Hp); [exact Hnth | lia].
Qed.
