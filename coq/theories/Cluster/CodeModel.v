(* What the CODE does at Attach: ONE Truncate round (follower keeps the entries whose id is <= the requested
   entry id — the O-3 repair, same rule as tlaplus/OxiaReplication.tla), after which the leader credits the
   cursor with the length the follower reports, without re-checking the follower's new head.
   [step] (Model.v) is the repaired protocol in which the leader re-checks and truncates again ([attach_loop]).
   The two coincide on every Attach whose first round already leaves a consistent follower
   ([attach_consistent]); where they differ, the code can lose an acknowledged write (finding O-3b,
   [Witness_code.v]). *)
From Coq Require Import List Arith Bool PeanoNat.
From Oxia.Cluster Require Import Model.
Import ListNotations.

Definition step_code (w : world) (a : action) : option world :=
  match a with
  | Attach l f flog =>
      let s := nodes w l in
      let t := nterm s in
      if (nelect s || status_eqb (nst s) Leader) && negb (f =? l) && mem f (ens w)
         && has_resp w f t flog && negb (is_attached f (nacked s))
         && (S (length (nacked s)) <=? nrf s - 1)
      then
        let lh := (last_term (firstn (nehead s) (nlog s)), nehead s) in
        match attach_decide (nlog s) lh (lhead flog) with
        | AttachError => None
        | NoTruncate _ => step w a
        | TruncateTo tk k =>
            let sf := nodes w f in
            if (nterm sf =? t) && status_eqb (nst sf) Fenced && negb (nelect sf) then
              let newlog := truncate_to (nlog sf) tk k in
              if negb (length newlog <=? length (nlog s)) then None else
              let sf' := mkN t Follower newlog false 0 0 (ncommit sf) [] in
              let s' := mkN t (nst s) (nlog s) (nelect s) (nehead s) (nrf s)
                            (attach_commit s ((f, length newlog) :: nacked s))
                            ((f, length newlog) :: nacked s) in
              Some (mkW (upd (upd (nodes w) f sf') l s') (cterm w) (ens w) (removed w) (resps w) (elected w)
                        (elog w) (tlog w) (appends w) (acks w) (cacked w) (cq w) ((t, f) :: att w))
            else None
        end
      else None
  | _ => step w a
  end.

Fixpoint run_code (w : world) (acts : list action) : option world :=
  match acts with
  | [] => Some w
  | a :: tl => match step_code w a with Some w' => run_code w' tl | None => None end
  end.

(* the first Truncate round leaves a follower whose head the leader would accept without truncation *)
Definition attach_consistent (w : world) (a : action) : bool :=
  match a with
  | Attach l f flog =>
      let s := nodes w l in
      let lh := (last_term (firstn (nehead s) (nlog s)), nehead s) in
      match attach_decide (nlog s) lh (lhead flog) with
      | TruncateTo tk k =>
          match attach_decide (nlog s) lh (lhead (truncate_to (nlog (nodes w f)) tk k)) with
          | NoTruncate _ => true
          | _ => false
          end
      | _ => true
      end
  | _ => true
  end.

(* every Attach of the execution was consistent after its single round *)
Fixpoint consistent_run (w : world) (acts : list action) : bool :=
  match acts with
  | [] => true
  | a :: tl => attach_consistent w a &&
               match step_code w a with Some w' => consistent_run w' tl | None => true end
  end.

Lemma step_code_eq w a : attach_consistent w a = true -> step_code w a = step w a.
Proof.
  destruct a; try reflexivity. intros Hc.
  unfold step_code, step, attach_consistent in *.
  destruct ((nelect (nodes w l) || status_eqb (nst (nodes w l)) Leader) && negb (f =? l) && mem f (ens w)
            && has_resp w f (nterm (nodes w l)) flog && negb (is_attached f (nacked (nodes w l)))
            && (S (length (nacked (nodes w l))) <=? nrf (nodes w l) - 1)) eqn:G; [|reflexivity].
  destruct (attach_decide (nlog (nodes w l)) _ (lhead flog)) as [start|tk k|] eqn:Hd; try reflexivity.
  destruct ((nterm (nodes w f) =? nterm (nodes w l)) && status_eqb (nst (nodes w f)) Fenced
            && negb (nelect (nodes w f))) eqn:G2; [|reflexivity].
  cbn [attach_loop].
  destruct (attach_decide (nlog (nodes w l)) _ (lhead (truncate_to (nlog (nodes w f)) tk k))) eqn:Hd2;
    try discriminate Hc.
  reflexivity.
Qed.

Lemma run_code_eq acts : forall w, consistent_run w acts = true -> run_code w acts = run w acts.
Proof.
  induction acts as [|a tl IH]; intros w Hc; [reflexivity|].
  cbn [consistent_run run_code run] in *. apply andb_true_iff in Hc. destruct Hc as [Ha Ht].
  rewrite (step_code_eq w a Ha) in *. destruct (step w a) as [w'|]; [apply IH; exact Ht | reflexivity].
Qed.
