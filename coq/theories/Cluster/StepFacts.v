(* Reflection lemmas for the boolean guards of [step], and one inversion lemma per action. *)
From Coq Require Import List Arith Bool PeanoNat Lia.
From Oxia.Cluster Require Import Model.
Import ListNotations.

Lemma entry_eqb_eq a b : entry_eqb a b = true <-> a = b.
Proof.
  unfold entry_eqb. rewrite andb_true_iff, !Nat.eqb_eq. destruct a, b; cbn. split.
  - intros [-> ->]; reflexivity.
  - intros H; inversion H; auto.
Qed.

Lemma status_eqb_eq a b : status_eqb a b = true <-> a = b.
Proof. destruct a, b; cbn; split; intros H; try reflexivity; try discriminate. Qed.

Lemma status_eqb_neq a b : status_eqb a b = false <-> a <> b.
Proof. destruct a, b; cbn; split; intros H; try reflexivity; try discriminate; try congruence; exfalso; apply H; reflexivity. Qed.

Lemma list_entry_eqb_eq a b : list_entry_eqb a b = true <-> a = b.
Proof.
  unfold list_entry_eqb. rewrite andb_true_iff, Nat.eqb_eq. split.
  - intros [Hlen Hall]. revert b Hlen Hall. induction a as [|x a IH]; intros [|y b] Hlen Hall; cbn in *; try discriminate; auto.
    apply andb_true_iff in Hall. destruct Hall as [Hxy Hall]. apply entry_eqb_eq in Hxy. subst y.
    f_equal. apply IH; [lia | exact Hall].
  - intros ->. split; [reflexivity|]. induction b as [|y b IH]; cbn; auto.
    rewrite IH, andb_true_r. apply entry_eqb_eq. reflexivity.
Qed.

Lemma mem_In n l : mem n l = true <-> In n l.
Proof.
  unfold mem. rewrite existsb_exists. split.
  - intros (x & Hx & He). apply Nat.eqb_eq in He. subst; auto.
  - intros H. exists n. split; [exact H | apply Nat.eqb_refl].
Qed.

Lemma nodupb_NoDup l : nodupb l = true <-> NoDup l.
Proof.
  induction l as [|x l IH]; cbn.
  - split; [constructor | reflexivity].
  - rewrite andb_true_iff, negb_true_iff, IH. split.
    + intros [Hm Hn]. constructor; [|exact Hn]. rewrite <- mem_In. congruence.
    + intros H. inversion H; subst. split; [|assumption].
      destruct (mem x l) eqn:E; [|reflexivity]. apply mem_In in E. contradiction.
Qed.

Lemma has_resp_In w n t l : has_resp w n t l = true <-> In (n, t, l) (resps w).
Proof.
  unfold has_resp. rewrite existsb_exists. split.
  - intros ([[n' t'] l'] & Hin & H). rewrite !andb_true_iff, !Nat.eqb_eq, list_entry_eqb_eq in H.
    destruct H as [[-> ->] ->]. exact Hin.
  - intros H. exists (n, t, l). split; [exact H|].
    rewrite !Nat.eqb_refl. cbn. apply list_entry_eqb_eq. reflexivity.
Qed.

Lemma term_elected_In w t : term_elected w t = true <-> exists l c, In (t, l, c) (elected w).
Proof.
  unfold term_elected. rewrite existsb_exists. split.
  - intros ([[t' l] c] & Hin & H). apply Nat.eqb_eq in H. subst. eauto.
  - intros (l & c & H). exists (t, l, c). split; [exact H | apply Nat.eqb_refl].
Qed.

Lemma is_elected_In w t l : is_elected w t l = true <-> exists c, In (t, l, c) (elected w).
Proof.
  unfold is_elected. rewrite existsb_exists. split.
  - intros ([[t' l'] c] & Hin & H). rewrite andb_true_iff, !Nat.eqb_eq in H. destruct H; subst. eauto.
  - intros (c & H). exists (t, l, c). split; [exact H | rewrite !Nat.eqb_refl; reflexivity].
Qed.

Lemma is_attached_In f acked : is_attached f acked = true <-> exists a, In (f, a) acked.
Proof.
  unfold is_attached. rewrite existsb_exists. split.
  - intros ([f' a] & Hin & H). cbn in H. apply Nat.eqb_eq in H. subst. eauto.
  - intros (a & H). exists (f, a). split; [exact H | cbn; apply Nat.eqb_refl].
Qed.

Lemma upd_same {A} (f : nat -> A) n v : upd f n v n = v.
Proof. unfold upd. rewrite Nat.eqb_refl. reflexivity. Qed.

Lemma upd_other {A} (f : nat -> A) n v m : m <> n -> upd f n v m = f m.
Proof. unfold upd. intros H. apply Nat.eqb_neq in H. rewrite H. reflexivity. Qed.

(* ---------- one inversion lemma per action (the enabling condition in Prop form + the new state) ---------- *)
Ltac gd H :=
  repeat match type of H with
  | (if ?c then _ else None) = Some _ => let E := fresh "G" in destruct c eqn:E; [|discriminate H]
  end.

Ltac split_guards :=
  repeat match goal with
  | H : (_ && _) = true |- _ => apply andb_true_iff in H; destruct H
  | H : negb _ = true |- _ => apply negb_true_iff in H
  end.

Lemma step_NewElection w w' : step w NewElection = Some w' ->
  w' = mkW (nodes w) (S (cterm w)) (ens w) (removed w) (resps w) (elected w) (elog w) (tlog w)
           (appends w) (acks w) (cacked w) (cq w) (att w).
Proof. cbn. intros H; inversion H; reflexivity. Qed.

Lemma step_NewTerm w n t w' : step w (NewTerm n t) = Some w' ->
  let s := nodes w n in
  1 <= t /\ t <= cterm w /\
  (nterm s < t \/ (nterm s = t /\ nst s <> Leader /\ nelect s = false)) /\
  w' = mkW (upd (nodes w) n (mkN t Fenced (nlog s) false 0 0 (ncommit s) [])) (cterm w) (ens w) (removed w)
           ((n, t, nlog s) :: resps w) (elected w) (elog w) (tlog w) (appends w) (acks w) (cacked w) (cq w) (att w).
Proof.
  unfold step; cbv beta iota zeta. intros H. gd H. inversion H; subst; clear H. split_guards.
  apply Nat.leb_le in H. apply Nat.leb_le in H1.
  repeat split; auto.
  apply orb_true_iff in H0. destruct H0 as [H0|H0].
  - left. apply Nat.ltb_lt. exact H0.
  - right. split_guards. apply Nat.eqb_eq in H0. apply status_eqb_neq in H3. auto.
Qed.

Lemma step_Elect w l cands rrs w' : step w (Elect l cands rrs) = Some w' ->
  let t := cterm w in
  exists llog, In (l, llog) cands /\
  term_elected w t = false /\ 1 <= t /\
  NoDup (map fst cands) /\ incl (map fst cands) (ens w) /\
  NoDup rrs /\ incl rrs (removed w) /\
  (forall c cl, In (c, cl) cands -> In (c, t, cl) (resps w)) /\
  length (ens w) + length (removed w) < 2 * (length cands + length rrs) /\
  (forall c cl, In (c, cl) cands -> head_le (lhead cl) (lhead llog) = true) /\
  w' = mkW (nodes w) (cterm w) (ens w) (removed w) (resps w) ((t, l, cands) :: elected w)
           (elog w) (tlog w) (appends w) (acks w) (cacked w) (cq w) (att w).
Proof.
  unfold step; cbv beta iota zeta. destruct (find (fun p => fst p =? l) cands) as [[l' llog]|] eqn:Hf; [|discriminate].
  intros H. gd H. inversion H; subst; clear H. split_guards.
  apply find_some in Hf. destruct Hf as [Hin Hl]. cbn in Hl. apply Nat.eqb_eq in Hl. subst l'.
  exists llog. split; [exact Hin|].
  apply Nat.leb_le in H8. apply nodupb_NoDup in H7. apply nodupb_NoDup in H5.
  rewrite forallb_forall in H6, H4, H3, H0.
  unfold majority_ok in H1. apply Nat.ltb_lt in H1. rewrite map_length in H1.
  repeat split; auto.
  - intros x Hx. apply mem_In. apply H6. exact Hx.
  - intros x Hx. apply mem_In. apply H4. exact Hx.
  - intros c cl Hc. apply has_resp_In. apply (H3 (c, cl) Hc).
  - intros c cl Hc. apply (H0 (c, cl) Hc).
Qed.

Lemma step_BecomeLeader w l w' : step w (BecomeLeader l) = Some w' ->
  let s := nodes w l in
  let t := nterm s in
  is_elected w t l = true /\ nst s = Fenced /\ nelect s = false /\ elog w t = None /\
  w' = mkW (upd (nodes w) l (mkN t Fenced (nlog s) true (length (nlog s)) (length (ens w)) (ncommit s) []))
           (cterm w) (ens w) (removed w) (resps w) (elected w)
           (upd (elog w) t (Some (nlog s))) (upd (tlog w) t (nlog s)) (appends w)
           (match length (nlog s) with O => acks w | S k => (l, t, k) :: acks w end)
           (cacked w) (cq w) (att w).
Proof.
  unfold step; cbv beta iota zeta. intros H. gd H. inversion H; subst; clear H. split_guards.
  apply status_eqb_eq in H2.
  destruct (elog w (nterm (nodes w l))); [discriminate|]. auto.
Qed.

Lemma step_FinishBecomeLeader w l w' : step w (FinishBecomeLeader l) = Some w' ->
  let s := nodes w l in
  nelect s = true /\ nehead s <= ncommit s /\
  w' = set_node w l (mkN (nterm s) Leader (nlog s) false (nehead s) (nrf s) (ncommit s) (nacked s)).
Proof.
  unfold step; cbv beta iota zeta. intros H. gd H. inversion H; subst; clear H. split_guards. apply Nat.leb_le in H0. auto.
Qed.

Lemma step_ClientWrite w l v w' : step w (ClientWrite l v) = Some w' ->
  let s := nodes w l in
  let t := nterm s in
  let newlog := nlog s ++ [mkE t v] in
  nst s = Leader /\
  w' = mkW (upd (nodes w) l (mkN t Leader newlog false (nehead s) (nrf s)
                                 (if nrf s / 2 =? 0 then length newlog else ncommit s) (nacked s)))
           (cterm w) (ens w) (removed w) (resps w) (elected w) (elog w) (upd (tlog w) t newlog)
           (appends w) ((l, t, length (nlog s)) :: acks w) (cacked w) (cq w) (att w).
Proof.
  unfold step; cbv beta iota zeta. intros H. gd H. inversion H; subst; clear H. apply status_eqb_eq in G. auto.
Qed.

Lemma leading_b s : (nelect s || status_eqb (nst s) Leader) = true <-> (nelect s = true \/ nst s = Leader).
Proof. rewrite orb_true_iff, status_eqb_eq. tauto. Qed.

Lemma step_SendAppend w l f o w' : step w (SendAppend l f o) = Some w' ->
  let s := nodes w l in
  (nelect s = true \/ nst s = Leader) /\ is_attached f (nacked s) = true /\
  exists e, nth_error (nlog s) o = Some e /\
  w' = mkW (nodes w) (cterm w) (ens w) (removed w) (resps w) (elected w) (elog w) (tlog w)
           ((nterm s, f, o, e) :: appends w) (acks w) (cacked w) (cq w) (att w).
Proof.
  unfold step; cbv beta iota zeta. intros H. gd H. split_guards. apply leading_b in H0.
  destruct (nth_error (nlog (nodes w l)) o) as [e|]; [|discriminate]. inversion H; subst.
  repeat split; auto. exists e. auto.
Qed.

Lemma step_RecvAppend w f t o e w' : step w (RecvAppend f t o e) = Some w' ->
  let s := nodes w f in
  In (t, f, o, e) (appends w) /\ nterm s = t /\ (nst s = Fenced \/ nst s = Follower) /\ nelect s = false /\
  ((o < length (nlog s) /\
    w' = mkW (upd (nodes w) f (mkN t Follower (nlog s) false 0 0 (ncommit s) []))
             (cterm w) (ens w) (removed w) (resps w) (elected w) (elog w) (tlog w)
             (appends w) ((f, t, o) :: acks w) (cacked w) (cq w) (att w))
   \/
   (o = length (nlog s) /\
    w' = mkW (upd (nodes w) f (mkN t Follower (nlog s ++ [e]) false 0 0 (ncommit s) []))
             (cterm w) (ens w) (removed w) (resps w) (elected w) (elog w) (tlog w)
             (appends w) ((f, t, o) :: acks w) (cacked w) (cq w) (att w))).
Proof.
  unfold step; cbv beta iota zeta. intros H. gd H. split_guards.
  apply existsb_exists in H0. destruct H0 as ([[[t' f'] o'] e'] & Hin & Hm).
  rewrite !andb_true_iff, !Nat.eqb_eq, entry_eqb_eq in Hm. destruct Hm as [[[-> ->] ->] ->].
  apply Nat.eqb_eq in H3. apply orb_true_iff in H2. rewrite !status_eqb_eq in H2.
  split; [exact Hin|]. split; [exact H3|]. split; [exact H2|]. split; [exact H1|].
  destruct (o <? length (nlog (nodes w f))) eqn:Hlt.
  - left. apply Nat.ltb_lt in Hlt. inversion H; subst. auto.
  - destruct (o =? length (nlog (nodes w f))) eqn:Heq; [|discriminate].
    right. apply Nat.eqb_eq in Heq. inversion H; subst. auto.
Qed.

Lemma step_RecvAck w l f o w' : step w (RecvAck l f o) = Some w' ->
  let s := nodes w l in
  (nelect s = true \/ nst s = Leader) /\ is_attached f (nacked s) = true /\
  In (f, nterm s, o) (acks w) /\ o < length (nlog s) /\
  w' = set_node w l (mkN (nterm s) (nst s) (nlog s) (nelect s) (nehead s) (nrf s)
                         (Nat.max (ncommit s) (qprefix (length (nlog s)) (nrf s) (set_acked f (S o) (nacked s))))
                         (set_acked f (S o) (nacked s))).
Proof.
  unfold step; cbv beta iota zeta. intros H. gd H. inversion H; subst; clear H. split_guards.
  apply leading_b in H. apply Nat.ltb_lt in H0.
  apply existsb_exists in H1. destruct H1 as ([[f' t'] o'] & Hin & Hm).
  rewrite !andb_true_iff, !Nat.eqb_eq in Hm. destruct Hm as [[-> ->] ->]. auto.
Qed.

Lemma step_AckClient w l o w' : step w (AckClient l o) = Some w' ->
  let s := nodes w l in
  exists e, nth_error (nlog s) o = Some e /\
  nst s = Leader /\ eterm e = nterm s /\ o < ncommit s /\ nrf s / 2 <= count_ge (S o) (nacked s) /\
  w' = mkW (nodes w) (cterm w) (ens w) (removed w) (resps w) (elected w) (elog w) (tlog w)
           (appends w) (acks w) ((nterm s, o, e) :: cacked w)
           ((nterm s, o, l :: map fst (filter (fun p => S o <=? snd p) (nacked s))) :: cq w) (att w).
Proof.
  unfold step; cbv beta iota zeta. destruct (nth_error (nlog (nodes w l)) o) as [e|]; [|discriminate].
  intros H. gd H. inversion H; subst; clear H. split_guards.
  apply status_eqb_eq in H. apply Nat.eqb_eq in H2. apply Nat.ltb_lt in H1. apply Nat.leb_le in H0.
  exists e. split; [reflexivity|]. repeat (split; [assumption|]). reflexivity.
Qed.

Lemma step_LearnCommit w f l c w' : step w (LearnCommit f l c) = Some w' ->
  let s := nodes w f in
  let sl := nodes w l in
  (nelect sl = true \/ nst sl = Leader) /\ nterm sl = nterm s /\ c <= ncommit sl /\ c <= length (nlog s) /\
  w' = set_node w f (mkN (nterm s) (nst s) (nlog s) (nelect s) (nehead s) (nrf s) (Nat.max (ncommit s) c) (nacked s)).
Proof.
  unfold step; cbv beta iota zeta. intros H. gd H. inversion H; subst; clear H. split_guards.
  apply leading_b in H. apply Nat.eqb_eq in H2. apply Nat.leb_le in H1. apply Nat.leb_le in H0. auto.
Qed.

Lemma step_Crash w n w' : step w (Crash n) = Some w' ->
  let s := nodes w n in
  w' = set_node w n (mkN (nterm s) (if nterm s =? 0 then NotMember else Fenced) (nlog s) false 0 0 (ncommit s) []).
Proof. cbn. intros H; inversion H; reflexivity. Qed.

(* Attach: the decision and the three outcomes *)
Lemma step_Attach w l f flog w' : step w (Attach l f flog) = Some w' ->
  let s := nodes w l in
  let t := nterm s in
  let lh := (last_term (firstn (nehead s) (nlog s)), nehead s) in
  (nelect s = true \/ nst s = Leader) /\ f <> l /\ In f (ens w) /\ In (f, t, flog) (resps w) /\
  is_attached f (nacked s) = false /\ S (length (nacked s)) <= nrf s - 1 /\
  ((exists start, attach_decide (nlog s) lh (lhead flog) = NoTruncate start /\
      w' = mkW (upd (nodes w) l (mkN t (nst s) (nlog s) (nelect s) (nehead s) (nrf s) (attach_commit s ((f, start) :: nacked s)) ((f, start) :: nacked s)))
               (cterm w) (ens w) (removed w) (resps w) (elected w) (elog w) (tlog w)
               (appends w) (acks w) (cacked w) (cq w) ((t, f) :: att w))
   \/
   (exists tk k, attach_decide (nlog s) lh (lhead flog) = TruncateTo tk k /\
      let sf := nodes w f in
      nterm sf = t /\ nst sf = Fenced /\ nelect sf = false /\
      exists newlog, attach_loop (S (length (nlog sf))) (nlog s) lh (truncate_to (nlog sf) tk k) = Some newlog /\
      w' = mkW (upd (upd (nodes w) f (mkN t Follower newlog false 0 0 (ncommit sf) []))
                    l (mkN t (nst s) (nlog s) (nelect s) (nehead s) (nrf s) (attach_commit s ((f, length newlog) :: nacked s)) ((f, length newlog) :: nacked s)))
               (cterm w) (ens w) (removed w) (resps w) (elected w) (elog w) (tlog w)
               (appends w) (acks w) (cacked w) (cq w) ((t, f) :: att w))).
Proof.
  unfold step; cbv beta iota zeta. intros H. gd H. split_guards.
  apply leading_b in H0. apply Nat.eqb_neq in H5. apply mem_In in H4. apply has_resp_In in H3.
  apply Nat.leb_le in H1.
  repeat (split; [assumption|]).
  destruct (attach_decide _ _ _) as [start|tk k|] eqn:Hd; [| |discriminate].
  - left. exists start. inversion H; subst. auto.
  - right. exists tk, k. gd H. split_guards.
    destruct (attach_loop _ _ _ _) as [newlog|] eqn:Hloop; [|discriminate].
    destruct (negb (length newlog <=? length (nlog (nodes w l)))); [discriminate|].
    inversion H; subst.
    apply Nat.eqb_eq in H6. apply status_eqb_eq in H8.
    repeat (split; [auto|]). exists newlog. auto.
Qed.
