(* Group C (leadership and attachment): preservation of I_leading, I_untouched, I_att, I_nacked.

   History: with the one-round follower Truncate (truncate_to applied once) the Attach/TruncateTo case of I_att
   (clause 2) and I_nacked was false (reachable counterexamples, C01 violated).  Model.v now iterates the
   decision (attach_loop) until the NoTruncate test passes on the follower's reported head; the lemmas below
   ([attach_loop_spec], [attach_no_truncate]) show that the resulting log is a prefix of the leader's log and
   not longer than the election head.  One extra invariant is introduced: [J_att_resp]. *)
From Coq Require Import List Arith Bool PeanoNat Lia.
From Oxia.Cluster Require Import Model Invariants StepFacts Safety.
Import ListNotations.

(* ------------------------------------------------------------------------------------------------ *)
(* 1. pure list facts                                                                               *)
(* ------------------------------------------------------------------------------------------------ *)
Lemma is_prefix_nil b : is_prefix [] b.
Proof. exists b. reflexivity. Qed.

Lemma is_prefix_refl a : is_prefix a a.
Proof. exists []. rewrite app_nil_r. reflexivity. Qed.

Lemma is_prefix_len a b : is_prefix a b -> length a <= length b.
Proof. intros [r ->]. rewrite app_length. lia. Qed.

Lemma is_prefix_app_r a b r : is_prefix a b -> is_prefix a (b ++ r).
Proof. intros [x ->]. exists (x ++ r). rewrite app_assoc. reflexivity. Qed.

Lemma is_prefix_snoc a b e : is_prefix a b -> nth_error b (length a) = Some e -> is_prefix (a ++ [e]) b.
Proof.
  intros [r ->] H. rewrite nth_error_app2 in H by lia. rewrite Nat.sub_diag in H.
  destruct r as [|x r]; cbn in H; [discriminate|]. inversion H; subst.
  exists r. rewrite <- app_assoc. reflexivity.
Qed.

Lemma pfx_is_prefix a b : pfx (length a) a b -> is_prefix a b.
Proof.
  unfold pfx, is_prefix. intros H. rewrite firstn_all in H. exists (skipn (length a) b).
  transitivity (firstn (length a) b ++ skipn (length a) b); [symmetry; apply firstn_skipn|].
  rewrite <- H. reflexivity.
Qed.

Lemma is_prefix_pfx a b : is_prefix a b -> pfx (length a) a b.
Proof.
  intros [r ->]. unfold pfx. rewrite firstn_all, firstn_app, Nat.sub_diag, firstn_all.
  cbn. rewrite app_nil_r. reflexivity.
Qed.

Lemma is_prefix_firstn (m : nat) (a : list entry) : is_prefix (firstn m a) a.
Proof. exists (skipn m a). symmetry. apply firstn_skipn. Qed.

Lemma last_In (l : list entry) d : l <> [] -> In (last l d) l.
Proof. intros H. eapply nth_error_In. apply last_nth_error. exact H. Qed.

Lemma nil_or_not (l : list entry) : l = [] \/ l <> [].
Proof. destruct l; [left; reflexivity | right; congruence]. Qed.

Lemma nonempty_len (l : list entry) : l <> [] -> S (length l - 1) = length l.
Proof. destruct l; [congruence | cbn; lia]. Qed.

(* ---- (1) highest_le ---- *)
Lemma highest_le_from_spec l t : forall i acc tk k,
  highest_le_from i l t acc = (tk, k) ->
  ((tk, k) = acc /\ forall e, In e l -> t < eterm e) \/
  (exists j e, k = S (i + j) /\ nth_error l j = Some e /\ eterm e = tk /\ tk <= t /\
               forall j' e', j < j' -> nth_error l j' = Some e' -> t < eterm e').
Proof.
  induction l as [|x l IH]; intros i acc tk k H; cbn in H.
  - left. split; [congruence | intros e []].
  - destruct (eterm x <=? t) eqn:Hx.
    + apply Nat.leb_le in Hx. destruct (IH _ _ _ _ H) as [[Heq Hall]|(j & e & Hk & Hn & He & Hle & Hafter)].
      * right. exists 0, x. inversion Heq; subst. repeat split; auto; try lia.
        intros j' e' Hj Hn. destruct j'; [lia|]. cbn in Hn. apply Hall. eapply nth_error_In; eauto.
      * right. exists (S j), e. repeat split; auto; try lia.
        intros j' e' Hj Hn'. destruct j'; [lia|]. cbn in Hn'. apply (Hafter j'); [lia | exact Hn'].
    + apply Nat.leb_gt in Hx. destruct (IH _ _ _ _ H) as [[Heq Hall]|(j & e & Hk & Hn & He & Hle & Hafter)].
      * left. split; [exact Heq|]. intros e [<-|He]; [lia | apply Hall; exact He].
      * right. exists (S j), e. repeat split; auto; try lia.
        intros j' e' Hj Hn'. destruct j'; [lia|]. cbn in Hn'. apply (Hafter j'); [lia | exact Hn'].
Qed.

Lemma highest_le_spec l t tk k :
  highest_le l t = (tk, k) ->
  (tk = 0 /\ k = 0 /\ forall e, In e l -> t < eterm e) \/
  (exists j e, k = S j /\ nth_error l j = Some e /\ eterm e = tk /\ tk <= t /\
               forall j' e', j < j' -> nth_error l j' = Some e' -> t < eterm e').
Proof.
  unfold highest_le. intros H. destruct (highest_le_from_spec _ _ _ _ _ _ H) as [[Heq Hall]|(j & e & Hk & Hr)].
  - left. inversion Heq. auto.
  - right. exists j, e. cbn in Hk. split; [exact Hk | exact Hr].
Qed.

Lemma highest_le_bound l t tk k : highest_le l t = (tk, k) -> k <= length l.
Proof.
  intros H. destruct (highest_le_spec _ _ _ _ H) as [(_ & -> & _)|(j & e & -> & Hn & _)]; [lia|].
  assert (j < length l) by (apply nth_error_Some; congruence). lia.
Qed.

(* ---- (2) truncate_to ---- *)
Lemma truncate_from_spec l tk k : forall i,
  exists m, truncate_from i l tk k = firstn m l /\ m <= length l /\
    forall j e, j < m -> nth_error l j = Some e -> eterm e < tk \/ (eterm e = tk /\ S (i + j) <= k).
Proof.
  induction l as [|x l IH]; intros i; cbn [truncate_from].
  - exists 0. cbn. repeat split; auto. intros; lia.
  - destruct ((eterm x <? tk) || ((eterm x =? tk) && (S i <=? k))) eqn:Hc.
    + destruct (IH (S i)) as (m & Heq & Hm & Hall). exists (S m). cbn [firstn length]. rewrite Heq.
      split; [reflexivity|]. split; [lia|].
      intros j e Hj Hn. destruct j.
      * cbn in Hn. inversion Hn; subst e. apply orb_true_iff in Hc. destruct Hc as [Hc|Hc].
        -- left. apply Nat.ltb_lt. exact Hc.
        -- right. apply andb_true_iff in Hc. destruct Hc as [H1 H2]. apply Nat.eqb_eq in H1. apply Nat.leb_le in H2. lia.
      * cbn in Hn. destruct (Hall j e ltac:(lia) Hn) as [H1|[H1 H2]]; [left; exact H1 | right; split; [exact H1 | lia]].
    + exists 0. cbn. repeat split; [lia|]. intros; lia.
Qed.

Lemma truncate_to_spec l tk k :
  exists m, truncate_to l tk k = firstn m l /\ m <= length l /\
    forall j e, j < m -> nth_error l j = Some e -> eterm e < tk \/ (eterm e = tk /\ S j <= k).
Proof. unfold truncate_to. destruct (truncate_from_spec l tk k 0) as (m & H1 & H2 & H3). exists m. auto. Qed.

Lemma truncate_to_prefix l tk k : is_prefix (truncate_to l tk k) l.
Proof. destruct (truncate_to_spec l tk k) as (m & -> & _). apply is_prefix_firstn. Qed.

(* ---- (3) matching ---- *)
Lemma wf_match w a b i j ea eb :
  wf_log w a -> wf_log w b -> nth_error a i = Some ea -> nth_error b j = Some eb ->
  eterm ea = eterm eb -> i <= j -> pfx (S i) a b.
Proof.
  intros [_ Ha] [_ Hb] Hi Hj He Hij.
  destruct (Ha _ _ Hi) as (_ & _ & Pa). destruct (Hb _ _ Hj) as (_ & _ & Pb). rewrite <- He in Pb.
  eapply pfx_trans; [exact Pa|]. apply pfx_sym. eapply pfx_le; [|exact Pb]. lia.
Qed.

(* a nonempty well-formed log whose last term occurs in [b] at an index >= its last index is a prefix of [b] *)
Lemma wf_last_match w a b j eb :
  wf_log w a -> wf_log w b -> a <> [] -> nth_error b j = Some eb -> eterm eb = last_term a ->
  length a <= S j -> is_prefix a b.
Proof.
  intros Ha Hb Hne Hj He Hlen. apply pfx_is_prefix.
  pose proof (last_nth_error a (mkE 0 0) Hne) as Hl.
  rewrite <- (nonempty_len a Hne).
  eapply (wf_match w a b _ j _ eb Ha Hb Hl Hj).
  - unfold last_term in He. congruence.
  - pose proof (nonempty_len a Hne). lia.
Qed.

Lemma wf_same_last_prefix w a b :
  wf_log w a -> wf_log w b -> a <> [] -> b <> [] -> last_term a = last_term b -> length a <= length b -> is_prefix a b.
Proof.
  intros Ha Hb Hna Hnb Hl Hlen.
  pose proof (last_nth_error b (mkE 0 0) Hnb) as Hb'.
  eapply (wf_last_match w a b _ _ Ha Hb Hna Hb').
  - unfold last_term in *. congruence.
  - pose proof (nonempty_len b Hnb). lia.
Qed.

(* an entry of the leader's log whose term is at most the term of the election head lies below the head *)
Lemma idx_below_head w lg rest t j e :
  wf_log w (lg ++ rest) -> (forall x, In x lg -> eterm x < t) -> (forall x, In x rest -> eterm x = t) ->
  nth_error (lg ++ rest) j = Some e -> eterm e <= last_term lg -> j < length lg.
Proof.
  intros [_ Hwf] Hlg Hrest Hn Hle. destruct (lt_dec j (length lg)) as [|Hge]; [assumption|exfalso].
  destruct (Hwf _ _ Hn) as (H1 & _).
  rewrite nth_error_app2 in Hn by lia. apply nth_error_In in Hn. apply Hrest in Hn.
  destruct lg as [|x lg'].
  - cbn in Hle. lia.
  - assert (Hin : In (last (x :: lg') (mkE 0 0)) (x :: lg')) by (apply last_In; congruence).
    apply Hlg in Hin. unfold last_term in Hle. lia.
Qed.

(* ---- (4) the attach decision ---- *)
Section AttachDecision.
Variables (w : world) (L lg rest flog : list entry) (t : nat).
Hypothesis HwL : wf_log w L.
Hypothesis Hwf : wf_log w flog.
Hypothesis HL : L = lg ++ rest.
Hypothesis Hlg : forall e, In e lg -> eterm e < t.
Hypothesis Hrest : forall e, In e rest -> eterm e = t.

Lemma head_in_L : lg <> [] -> nth_error L (length lg - 1) = Some (last lg (mkE 0 0)).
Proof.
  intros Hne. rewrite HL. rewrite nth_error_app1 by (pose proof (nonempty_len lg Hne); lia).
  apply last_nth_error. exact Hne.
Qed.

Lemma attach_no_truncate start :
  attach_decide L (last_term lg, length lg) (lhead flog) = NoTruncate start ->
  start = length flog /\ is_prefix flog L /\ length flog <= length lg.
Proof.
  unfold attach_decide, lhead. cbn [fst snd].
  destruct ((last_term flog =? last_term lg) && (length flog <=? length lg)) eqn:HA.
  - intros H. inversion H; subst start. split; [reflexivity|].
    apply andb_true_iff in HA. destruct HA as [H1 H2]. apply Nat.eqb_eq in H1. apply Nat.leb_le in H2.
    split; [|exact H2].
    destruct (nil_or_not flog) as [Hfl|Hnf]; [rewrite Hfl; apply is_prefix_nil|].
    assert (Hnl : lg <> []) by (intros ->; pose proof (nonempty_len flog Hnf); cbn in H2; lia).
    eapply (wf_last_match w flog L _ _ Hwf HwL Hnf (head_in_L Hnl)).
    + unfold last_term in *. congruence.
    + pose proof (nonempty_len lg Hnl). lia.
  - destruct (last_term lg <? last_term flog) eqn:HE; [discriminate|]. apply Nat.ltb_ge in HE.
    destruct (highest_le L (last_term flog)) as [tk k] eqn:Hh.
    destruct ((last_term flog =? tk) && (length flog <=? k)) eqn:HB; [|discriminate].
    intros H. inversion H; subst start. split; [reflexivity|].
    apply andb_true_iff in HB. destruct HB as [H1 H2]. apply Nat.eqb_eq in H1. apply Nat.leb_le in H2.
    destruct (nil_or_not flog) as [Hfl|Hnf]; [rewrite Hfl; split; [apply is_prefix_nil | cbn; lia]|].
    destruct (highest_le_spec _ _ _ _ Hh) as [(_ & -> & _)|(j & e & -> & Hn & He & Hle & _)].
    + pose proof (nonempty_len flog Hnf). lia.
    + assert (Hj : j < length lg).
      { rewrite HL in Hn, HwL. eapply (idx_below_head w lg rest t j e HwL Hlg Hrest Hn). lia. }
      split; [|lia].
      eapply (wf_last_match w flog L j e Hwf HwL Hnf Hn); [congruence | exact H2].
Qed.

End AttachDecision.

(* ---- prefixes of well-formed logs, and the iterated truncation ---- *)
Lemma nth_error_firstn_some (l : list entry) m i e :
  nth_error (firstn m l) i = Some e -> i < m /\ nth_error l i = Some e.
Proof.
  intros H. assert (Hi : i < length (firstn m l)) by (apply nth_error_Some; congruence).
  rewrite firstn_length in Hi. assert (Him : i < m) by lia.
  split; [exact Him|]. rewrite nth_error_firstn_lt in H by exact Him. exact H.
Qed.

Lemma wf_log_firstn w l m : wf_log w l -> wf_log w (firstn m l).
Proof.
  intros [Hs Hw]. split.
  - intros i j ei ej Hij Hi Hj. apply nth_error_firstn_some in Hi, Hj.
    destruct Hi as [_ Hi], Hj as [_ Hj]. eapply Hs; eauto.
  - intros i e Hi. apply nth_error_firstn_some in Hi. destruct Hi as [Him Hi].
    destruct (Hw i e Hi) as (H1 & H2 & H3). split; [exact H1|]. split; [exact H2|].
    unfold pfx in *. rewrite firstn_firstn. replace (Nat.min (S i) m) with (S i) by lia. exact H3.
Qed.

Lemma attach_loop_spec fuel llog lh : forall flog newlog,
  attach_loop fuel llog lh flog = Some newlog ->
  (exists m, newlog = firstn m flog) /\ exists start, attach_decide llog lh (lhead newlog) = NoTruncate start.
Proof.
  induction fuel as [|fu IH]; intros flog newlog H; cbn [attach_loop] in H; [discriminate|].
  destruct (attach_decide llog lh (lhead flog)) as [start|tk k|] eqn:Hd; [| |discriminate].
  - inversion H; subst newlog. split; [exists (length flog); symmetry; apply firstn_all | exists start; exact Hd].
  - destruct (IH _ _ H) as ((m & Hm) & Hst). split; [|exact Hst].
    destruct (truncate_to_spec flog tk k) as (m' & Hm' & _). rewrite Hm' in Hm.
    rewrite firstn_firstn in Hm. eauto.
Qed.

(* ------------------------------------------------------------------------------------------------ *)
(* 2. helpers on worlds                                                                             *)
(* ------------------------------------------------------------------------------------------------ *)
Lemma set_acked_map_fst f v l : map fst (set_acked f v l) = map fst l.
Proof.
  induction l as [|[g a] l IH]; cbn; [reflexivity|].
  destruct (g =? f); cbn; [reflexivity | rewrite IH; reflexivity].
Qed.

Lemma set_acked_In g a f v l :
  In (g, a) (set_acked f v l) -> In (g, a) l \/ (g = f /\ exists a0, In (f, a0) l /\ a = Nat.max a0 v).
Proof.
  induction l as [|[g0 a0] l IH]; cbn; [tauto|]. destruct (g0 =? f) eqn:Eg.
  - apply Nat.eqb_eq in Eg. subst g0. intros [H|H].
    + inversion H; subst. right. split; [reflexivity|]. exists a0. split; [left; reflexivity | reflexivity].
    + left. right. exact H.
  - intros [H|H].
    + left. left. exact H.
    + destruct (IH H) as [H'|(-> & a1 & Hin & ->)].
      * left; right; exact H'.
      * right. split; [reflexivity|]. exists a1. split; [right; exact Hin | reflexivity].
Qed.

Lemma is_attached_map f l : is_attached f l = true <-> In f (map fst l).
Proof.
  rewrite is_attached_In, in_map_iff. split.
  - intros (a & H). exists (f, a). auto.
  - intros ([g a] & Hg & H). cbn in Hg. subst. eauto.
Qed.

Lemma is_attached_set_acked g f v l : is_attached g (set_acked f v l) = is_attached g l.
Proof. apply Bool.eq_iff_eq_true. rewrite !is_attached_map, set_acked_map_fst. tauto. Qed.

Lemma is_attached_cons g f a l : is_attached g ((f, a) :: l) = (f =? g) || is_attached g l.
Proof. reflexivity. Qed.

Lemma is_elected_mk w n c e r rs eg tg ap ak ca q a t l :
  is_elected (mkW n c e r rs (elected w) eg tg ap ak ca q a) t l = is_elected w t l.
Proof. reflexivity. Qed.

Lemma is_elected_cons w n c e r rs t0 l0 c0 eg tg ap ak ca q a t l :
  is_elected (mkW n c e r rs ((t0, l0, c0) :: elected w) eg tg ap ak ca q a) t l
  = ((t0 =? t) && (l0 =? l)) || is_elected w t l.
Proof. reflexivity. Qed.

Lemma elected_same E w t l1 l2 : Inv E w -> is_elected w t l1 = true -> is_elected w t l2 = true -> l1 = l2.
Proof.
  intros HI H1 H2. apply is_elected_In in H1, H2. destruct H1 as (c1 & H1), H2 as (c2 & H2).
  apply (inv_elected_unique _ _ HI _ _ _ _ _ H1 H2).
Qed.

Lemma elected_other E w t l f : Inv E w -> is_elected w t l = true -> f <> l -> is_elected w t f = false.
Proof.
  intros HI H1 Hne. destruct (is_elected w t f) eqn:H2; [|reflexivity].
  exfalso. apply Hne. eapply elected_same; eauto.
Qed.

Lemma incl_acks_BL (l t n : nat) (acks0 : list (nat * nat * nat)) :
  incl acks0 (match n with O => acks0 | S k => (l, t, k) :: acks0 end).
Proof. destruct n; [apply incl_refl | apply incl_tl, incl_refl]. Qed.

(* the shape of the log of a node that leads (BecomeLeader in progress or LEADER) *)
Lemma leader_shape E w l : Inv E w -> leading (nodes w l) ->
  let s := nodes w l in
  exists lg rest, elog w (nterm s) = Some lg /\ nlog s = lg ++ rest /\ tlog w (nterm s) = lg ++ rest /\
    nehead s = length lg /\ firstn (nehead s) (nlog s) = lg /\
    (forall e, In e lg -> eterm e < nterm s) /\ (forall e, In e rest -> eterm e = nterm s).
Proof.
  intros HI Hl. cbv zeta.
  destruct (inv_leading _ _ HI l Hl) as (_ & Hlog & _ & (lg & Hel & Hh) & _). cbv zeta in *.
  destruct (inv_wf_tlog _ _ HI (nterm (nodes w l))) as (_ & _ & _ & Hsome).
  destruct (Hsome _ Hel) as (Hb & rest & Heq & Hr).
  exists lg, rest. rewrite Hlog, Heq, Hh. repeat split; auto.
  rewrite firstn_app, Nat.sub_diag, firstn_all. cbn. apply app_nil_r.
Qed.

Lemma leading_elog E w l : Inv E w -> leading (nodes w l) -> elog w (nterm (nodes w l)) <> None.
Proof. intros HI Hl. destruct (inv_leading _ _ HI l Hl) as (_ & _ & _ & (lg & Hel & _) & _). cbv zeta in Hel. congruence. Qed.

Lemma leading_elected E w l : Inv E w -> leading (nodes w l) -> is_elected w (nterm (nodes w l)) l = true.
Proof. intros HI Hl. destruct (inv_leading _ _ HI l Hl) as (H & _). exact H. Qed.

(* two leading nodes of the same term are the same node *)
Lemma leading_unique E w l m : Inv E w -> leading (nodes w l) -> leading (nodes w m) ->
  nterm (nodes w m) = nterm (nodes w l) -> m = l.
Proof.
  intros HI Hl Hm Heq. pose proof (leading_elected _ _ _ HI Hl) as H1. pose proof (leading_elected _ _ _ HI Hm) as H2.
  rewrite Heq in H2. eapply elected_same; eauto.
Qed.

Ltac upd_cases m n :=
  destruct (Nat.eq_dec m n) as [?Heq|?Hne];
  [ subst m; rewrite ?upd_same in * | rewrite ?(upd_other _ n _ m) in * by assumption ].

Ltac not_leading H := exfalso; destruct H as [H|H]; cbn in H; discriminate H.

(* ------------------------------------------------------------------------------------------------ *)
(* 3. I_leading                                                                                     *)
(* ------------------------------------------------------------------------------------------------ *)
Definition same_lead (s' s : nstate) : Prop :=
  nterm s' = nterm s /\ nlog s' = nlog s /\ nrf s' = nrf s /\ nehead s' = nehead s.

Lemma I_leading_frame w w' :
  (forall l, leading (nodes w' l) -> leading (nodes w l) /\ same_lead (nodes w' l) (nodes w l)) ->
  (forall t l, is_elected w t l = true -> is_elected w' t l = true) ->
  elog w' = elog w -> tlog w' = tlog w -> ens w' = ens w -> incl (acks w) (acks w') ->
  I_leading w -> I_leading w'.
Proof.
  intros Hn Hel He Ht Hens Hacks HI l Hl. destruct (Hn l Hl) as (Hl0 & H1 & H2 & H3 & H4).
  destruct (HI l Hl0) as (A & B & C & D & F). cbv zeta in *. rewrite H1, H2, H3, H4, He, Ht, Hens.
  split; [exact (Hel _ _ A)|]. split; [exact B|]. split; [exact C|]. split; [exact D|].
  intros k Hk. apply Hacks. apply F. exact Hk.
Qed.

Lemma init_I_leading E : NoDup E -> I_leading (init E).
Proof. intros _ l Hl. not_leading Hl. Qed.

Lemma pres_I_leading E w a w' : Inv E w -> is_swap a = false -> step w a = Some w' -> I_leading w'.
Proof.
  intros HI Hns Hstep. pose proof (inv_leading _ _ HI) as HL.
  destruct a; try discriminate Hns.
  - (* NewElection *)
    apply step_NewElection in Hstep. subst w'.
    apply (I_leading_frame w); cbn [nodes elog tlog ens acks]; try reflexivity;
      [ intros m Hm; split; [exact Hm | repeat split] | intros ? ? H; exact H | apply incl_refl | exact HL ].
  - (* NewTerm *)
    apply step_NewTerm in Hstep. cbv zeta in Hstep. destruct Hstep as (H1 & H2 & Hg & ->).
    apply (I_leading_frame w); cbn [nodes elog tlog ens acks]; try reflexivity;
      [ | intros ? ? H; exact H | apply incl_refl | exact HL ].
    intros m Hm. upd_cases m n; [not_leading Hm | split; [exact Hm | repeat split]].
  - (* Elect *)
    apply step_Elect in Hstep. cbv zeta in Hstep. destruct Hstep as (llog & _ & _ & _ & _ & _ & _ & _ & _ & _ & _ & ->).
    apply (I_leading_frame w); cbn [nodes elog tlog ens acks]; try reflexivity;
      [ intros m Hm; split; [exact Hm | repeat split] | | apply incl_refl | exact HL ].
    intros t0 l0 H. rewrite is_elected_cons, H. apply orb_true_r.
  - (* BecomeLeader *)
    apply step_BecomeLeader in Hstep. cbv zeta in Hstep. destruct Hstep as (Hel & Hst & Hne & Helog & ->).
    intros m Hm. cbv zeta. cbn [nodes elog tlog ens acks] in *. rewrite is_elected_mk.
    upd_cases m l.
    + cbn [nterm nlog nrf nehead]. rewrite ?upd_same.
      split; [exact Hel|]. split; [reflexivity|]. split; [reflexivity|].
      split; [exists (nlog (nodes w l)); split; reflexivity|].
      intros k Hk. rewrite Hk. left. reflexivity.
    + destruct (HL m Hm) as (A & B & C & (lg & D1 & D2) & F). cbv zeta in *.
      assert (Hnt : nterm (nodes w m) <> nterm (nodes w l)) by (intros Hx; rewrite Hx in D1; congruence).
      rewrite !upd_other by exact Hnt.
      split; [exact A|]. split; [exact B|]. split; [exact C|]. split; [exists lg; split; assumption|].
      intros k Hk. apply incl_acks_BL. apply F. exact Hk.
  - (* Attach *)
    apply step_Attach in Hstep. cbv zeta in Hstep.
    destruct Hstep as (Hlead & Hfl & Hens & Hresp & Hna & Hrf & [(start & Hd & ->)|(tk & k & Hd & Hft & Hfs & Hfe & newlog & Hloop & ->)]).
    + apply (I_leading_frame w); cbn [nodes elog tlog ens acks]; try reflexivity;
        [ | intros ? ? H; exact H | apply incl_refl | exact HL ].
      intros m Hm. upd_cases m l; (split; [exact Hm | repeat split]).
    + apply (I_leading_frame w); cbn [nodes elog tlog ens acks]; try reflexivity;
        [ | intros ? ? H; exact H | apply incl_refl | exact HL ].
      intros m Hm. upd_cases m l; [split; [exact Hm | repeat split]|].
      upd_cases m f; [not_leading Hm | split; [exact Hm | repeat split]].
  - (* FinishBecomeLeader *)
    apply step_FinishBecomeLeader in Hstep. cbv zeta in Hstep. destruct Hstep as (Hne & Hc & ->). unfold set_node.
    apply (I_leading_frame w); cbn [nodes elog tlog ens acks]; try reflexivity;
      [ | intros ? ? H; exact H | apply incl_refl | exact HL ].
    intros m Hm. upd_cases m l; [split; [left; exact Hne | repeat split] | split; [exact Hm | repeat split]].
  - (* ClientWrite *)
    apply step_ClientWrite in Hstep. cbv zeta in Hstep. destruct Hstep as (Hst & ->).
    assert (Hll : leading (nodes w l)) by (right; exact Hst).
    intros m Hm. cbv zeta. cbn [nodes elog tlog ens acks] in *. rewrite is_elected_mk.
    upd_cases m l.
    + destruct (HL l Hll) as (A & B & C & D & F). cbv zeta in *.
      cbn [nterm nlog nrf nehead]. rewrite ?upd_same.
      split; [exact A|]. split; [reflexivity|]. split; [exact C|]. split; [exact D|].
      intros k Hk. rewrite app_length in Hk. cbn in Hk. left. f_equal. lia.
    + destruct (HL m Hm) as (A & B & C & D & F). cbv zeta in *.
      assert (Hnt : nterm (nodes w m) <> nterm (nodes w l)).
      { intros Hx. apply Hne. eapply leading_unique; eauto. }
      rewrite !upd_other by exact Hnt.
      split; [exact A|]. split; [exact B|]. split; [exact C|]. split; [exact D|].
      intros k Hk. right. apply F. exact Hk.
  - (* SendAppend *)
    apply step_SendAppend in Hstep. cbv zeta in Hstep. destruct Hstep as (_ & _ & e & _ & ->).
    apply (I_leading_frame w); cbn [nodes elog tlog ens acks]; try reflexivity;
      [ intros m Hm; split; [exact Hm | repeat split] | intros ? ? H; exact H | apply incl_refl | exact HL ].
  - (* RecvAppend *)
    apply step_RecvAppend in Hstep. cbv zeta in Hstep.
    destruct Hstep as (_ & _ & _ & _ & [(_ & ->)|(_ & ->)]);
      (apply (I_leading_frame w); cbn [nodes elog tlog ens acks]; try reflexivity;
        [ | intros ? ? H; exact H | apply incl_tl, incl_refl | exact HL ];
       intros m Hm; upd_cases m f; [not_leading Hm | split; [exact Hm | repeat split]]).
  - (* RecvAck *)
    apply step_RecvAck in Hstep. cbv zeta in Hstep. destruct Hstep as (_ & _ & _ & _ & ->). unfold set_node.
    apply (I_leading_frame w); cbn [nodes elog tlog ens acks]; try reflexivity;
      [ | intros ? ? H; exact H | apply incl_refl | exact HL ].
    intros m Hm. upd_cases m l; (split; [exact Hm | repeat split]).
  - (* AckClient *)
    apply step_AckClient in Hstep. cbv zeta in Hstep. destruct Hstep as (e & _ & _ & _ & _ & _ & ->).
    apply (I_leading_frame w); cbn [nodes elog tlog ens acks]; try reflexivity;
      [ intros m Hm; split; [exact Hm | repeat split] | intros ? ? H; exact H | apply incl_refl | exact HL ].
  - (* LearnCommit *)
    apply step_LearnCommit in Hstep. cbv zeta in Hstep. destruct Hstep as (_ & _ & _ & _ & ->). unfold set_node.
    apply (I_leading_frame w); cbn [nodes elog tlog ens acks]; try reflexivity;
      [ | intros ? ? H; exact H | apply incl_refl | exact HL ].
    intros m Hm. upd_cases m f; (split; [exact Hm | repeat split]).
  - (* Crash *)
    apply step_Crash in Hstep. cbv zeta in Hstep. subst w'. unfold set_node.
    apply (I_leading_frame w); cbn [nodes elog tlog ens acks]; try reflexivity;
      [ | intros ? ? H; exact H | apply incl_refl | exact HL ].
    intros m Hm. upd_cases m n; [|split; [exact Hm | repeat split]].
    exfalso. destruct Hm as [Hm|Hm]; cbn in Hm; [discriminate|].
    destruct (nterm (nodes w n) =? 0); discriminate.
Qed.

(* ------------------------------------------------------------------------------------------------ *)
(* 4. I_untouched                                                                                   *)
(* ------------------------------------------------------------------------------------------------ *)
Lemma I_untouched_frame w w' :
  (forall f, (nterm (nodes w' f) = nterm (nodes w f) /\ nlog (nodes w' f) = nlog (nodes w f))
             \/ In (nterm (nodes w' f), f) (att w')
             \/ (elog w' (nterm (nodes w' f)) <> None /\ is_elected w' (nterm (nodes w' f)) f = true)) ->
  resps w' = resps w -> incl (att w) (att w') -> (forall t, elog w' t = None -> elog w t = None) ->
  (forall t f, is_elected w' t f = false -> is_elected w t f = false) ->
  I_untouched w -> I_untouched w'.
Proof.
  intros Hn Hr Ha He Hel HU f t rl Hin Hterm Hnatt Hor.
  destruct (Hn f) as [[Ht Hl]|[Hatt|[He' Hel']]].
  - rewrite Hl. apply (HU f t rl).
    + rewrite <- Hr. exact Hin.
    + rewrite <- Ht. exact Hterm.
    + intros Hx. apply Hnatt. apply Ha. exact Hx.
    + destruct Hor as [Hor|Hor]; [left; apply He; exact Hor | right; apply Hel; exact Hor].
  - rewrite Hterm in Hatt. contradiction.
  - rewrite Hterm in *. destruct Hor; congruence.
Qed.

Lemma init_I_untouched E : NoDup E -> I_untouched (init E).
Proof. intros _ f t rl Hin. destruct Hin. Qed.

Ltac same_nodes := intros ?; left; split; reflexivity.

Lemma pres_I_untouched E w a w' : Inv E w -> is_swap a = false -> step w a = Some w' -> I_untouched w'.
Proof.
  intros HI Hns Hstep. pose proof (inv_untouched _ _ HI) as HU.
  destruct a; try discriminate Hns.
  - (* NewElection *)
    apply step_NewElection in Hstep. subst w'.
    apply (I_untouched_frame w); cbn [nodes resps att elog]; try reflexivity;
      [ same_nodes | apply incl_refl | intros ? H; exact H | intros ? ? H; exact H | exact HU ].
  - (* NewTerm *)
    apply step_NewTerm in Hstep. cbv zeta in Hstep. destruct Hstep as (H1 & H2 & Hg & ->).
    intros f t0 rl Hin Hterm Hnatt Hor. cbn [nodes resps att elog] in *. rewrite is_elected_mk in Hor.
    upd_cases f n.
    + cbn [nterm nlog] in *. destruct Hin as [Hin|Hin]; [inversion Hin; reflexivity|].
      destruct (inv_terms _ _ HI) as (_ & Hrt & _). destruct (Hrt _ _ _ Hin) as (_ & _ & Hle).
      assert (Hnt : nterm (nodes w n) = t0) by (destruct Hg as [Hg|(Hg & _)]; lia).
      apply (HU n t0 rl Hin Hnt Hnatt Hor).
    + destruct Hin as [Hin|Hin]; [inversion Hin; congruence|].
      apply (HU f t0 rl Hin Hterm Hnatt Hor).
  - (* Elect *)
    apply step_Elect in Hstep. cbv zeta in Hstep. destruct Hstep as (llog & _ & _ & _ & _ & _ & _ & _ & _ & _ & _ & ->).
    apply (I_untouched_frame w); cbn [nodes resps att elog]; try reflexivity;
      [ same_nodes | apply incl_refl | intros ? H; exact H | | exact HU ].
    intros t0 f0 H. rewrite is_elected_cons in H. apply orb_false_iff in H. apply H.
  - (* BecomeLeader *)
    apply step_BecomeLeader in Hstep. cbv zeta in Hstep. destruct Hstep as (Hel & Hst & Hne & Helog & ->).
    apply (I_untouched_frame w); cbn [nodes resps att elog]; try reflexivity;
      [ | apply incl_refl | | intros ? ? H; exact H | exact HU ].
    + intros m. left. upd_cases m l; split; reflexivity.
    + intros t0 H. upd_cases t0 (nterm (nodes w l)); [discriminate H | exact H].
  - (* Attach *)
    apply step_Attach in Hstep. cbv zeta in Hstep.
    destruct Hstep as (Hlead & Hfl & Hens & Hresp & Hna & Hrf & [(start & Hd & ->)|(tk & k & Hd & Hft & Hfs & Hfe & newlog & Hloop & ->)]).
    + apply (I_untouched_frame w); cbn [nodes resps att elog]; try reflexivity;
        [ | apply incl_tl, incl_refl | intros ? H; exact H | intros ? ? H; exact H | exact HU ].
      intros m. left. upd_cases m l; split; reflexivity.
    + apply (I_untouched_frame w); cbn [nodes resps att elog]; try reflexivity;
        [ | apply incl_tl, incl_refl | intros ? H; exact H | intros ? ? H; exact H | exact HU ].
      intros m. upd_cases m l; [left; split; reflexivity|].
      upd_cases m f; [right; left; left; reflexivity | left; split; reflexivity].
  - (* FinishBecomeLeader *)
    apply step_FinishBecomeLeader in Hstep. cbv zeta in Hstep. destruct Hstep as (Hne & Hc & ->). unfold set_node.
    apply (I_untouched_frame w); cbn [nodes resps att elog]; try reflexivity;
      [ | apply incl_refl | intros ? H; exact H | intros ? ? H; exact H | exact HU ].
    intros m. left. upd_cases m l; split; reflexivity.
  - (* ClientWrite *)
    apply step_ClientWrite in Hstep. cbv zeta in Hstep. destruct Hstep as (Hst & ->).
    assert (Hll : leading (nodes w l)) by (right; exact Hst).
    apply (I_untouched_frame w); cbn [nodes resps att elog]; try reflexivity;
      [ | apply incl_refl | intros ? H; exact H | intros ? ? H; exact H | exact HU ].
    intros m. upd_cases m l; [|left; split; reflexivity].
    right; right. cbn [nterm]. rewrite is_elected_mk.
    split; [eapply leading_elog; eauto | eapply leading_elected; eauto].
  - (* SendAppend *)
    apply step_SendAppend in Hstep. cbv zeta in Hstep. destruct Hstep as (_ & _ & e & _ & ->).
    apply (I_untouched_frame w); cbn [nodes resps att elog]; try reflexivity;
      [ same_nodes | apply incl_refl | intros ? H; exact H | intros ? ? H; exact H | exact HU ].
  - (* RecvAppend *)
    apply step_RecvAppend in Hstep. cbv zeta in Hstep.
    destruct (inv_att _ _ HI) as (_ & _ & Ha3 & _).
    destruct Hstep as (Happ & Hterm & _ & _ & [(_ & ->)|(_ & ->)]);
      (apply (I_untouched_frame w); cbn [nodes resps att elog]; try reflexivity;
        [ | apply incl_refl | intros ? H; exact H | intros ? ? H; exact H | exact HU ];
       intros m; upd_cases m f; [|left; split; reflexivity];
       right; left; cbn [nterm]; apply (Ha3 _ _ _ _ Happ)).
  - (* RecvAck *)
    apply step_RecvAck in Hstep. cbv zeta in Hstep. destruct Hstep as (_ & _ & _ & _ & ->). unfold set_node.
    apply (I_untouched_frame w); cbn [nodes resps att elog]; try reflexivity;
      [ | apply incl_refl | intros ? H; exact H | intros ? ? H; exact H | exact HU ].
    intros m. left. upd_cases m l; split; reflexivity.
  - (* AckClient *)
    apply step_AckClient in Hstep. cbv zeta in Hstep. destruct Hstep as (e & _ & _ & _ & _ & _ & ->).
    apply (I_untouched_frame w); cbn [nodes resps att elog]; try reflexivity;
      [ same_nodes | apply incl_refl | intros ? H; exact H | intros ? ? H; exact H | exact HU ].
  - (* LearnCommit *)
    apply step_LearnCommit in Hstep. cbv zeta in Hstep. destruct Hstep as (_ & _ & _ & _ & ->). unfold set_node.
    apply (I_untouched_frame w); cbn [nodes resps att elog]; try reflexivity;
      [ | apply incl_refl | intros ? H; exact H | intros ? ? H; exact H | exact HU ].
    intros m. left. upd_cases m f; split; reflexivity.
  - (* Crash *)
    apply step_Crash in Hstep. cbv zeta in Hstep. subst w'. unfold set_node.
    apply (I_untouched_frame w); cbn [nodes resps att elog]; try reflexivity;
      [ | apply incl_refl | intros ? H; exact H | intros ? ? H; exact H | exact HU ].
    intros m. left. upd_cases m n; split; reflexivity.
Qed.

(* ------------------------------------------------------------------------------------------------ *)
(* 5. extra invariant J_att_resp: an attached follower answered NewTerm of that term                 *)
(*    (needed for I_att clause 2 under NewTerm: (t,n) in att implies t <= nterm n)                   *)
(* ------------------------------------------------------------------------------------------------ *)
Definition J_att_resp (w : world) : Prop :=
  forall t f, In (t, f) (att w) -> exists rl, In (f, t, rl) (resps w).

Lemma J_att_resp_frame w w' :
  (forall t f, In (t, f) (att w') -> In (t, f) (att w) \/ exists rl, In (f, t, rl) (resps w')) ->
  incl (resps w) (resps w') -> J_att_resp w -> J_att_resp w'.
Proof.
  intros Ha Hr HJ t f Hin. destruct (Ha t f Hin) as [Hold|Hnew]; [|exact Hnew].
  destruct (HJ t f Hold) as (rl & Hrl). exists rl. apply Hr. exact Hrl.
Qed.

Lemma init_J_att_resp E : NoDup E -> J_att_resp (init E).
Proof. intros _ t f Hin. destruct Hin. Qed.

Lemma pres_J_att_resp E w a w' :
  Inv E w -> J_att_resp w -> is_swap a = false -> step w a = Some w' -> J_att_resp w'.
Proof.
  intros HI HJ Hns Hstep. destruct a; try discriminate Hns.
  - apply step_NewElection in Hstep. subst w'. exact HJ.
  - apply step_NewTerm in Hstep. cbv zeta in Hstep. destruct Hstep as (_ & _ & _ & ->).
    apply (J_att_resp_frame w); cbn [att resps]; [intros ? ? H; left; exact H | apply incl_tl, incl_refl | exact HJ].
  - apply step_Elect in Hstep. cbv zeta in Hstep. destruct Hstep as (llog & _ & _ & _ & _ & _ & _ & _ & _ & _ & _ & ->). exact HJ.
  - apply step_BecomeLeader in Hstep. cbv zeta in Hstep. destruct Hstep as (_ & _ & _ & _ & ->). exact HJ.
  - apply step_Attach in Hstep. cbv zeta in Hstep.
    destruct Hstep as (_ & _ & _ & Hresp & _ & _ & [(start & _ & ->)|(tk & k & _ & _ & _ & _ & newlog & _ & ->)]);
      (apply (J_att_resp_frame w); cbn [att resps]; [ | apply incl_refl | exact HJ ];
       intros t0 f0 [H|H]; [right; inversion H; subst; eauto | left; exact H]).
  - apply step_FinishBecomeLeader in Hstep. cbv zeta in Hstep. destruct Hstep as (_ & _ & ->). exact HJ.
  - apply step_ClientWrite in Hstep. cbv zeta in Hstep. destruct Hstep as (_ & ->). exact HJ.
  - apply step_SendAppend in Hstep. cbv zeta in Hstep. destruct Hstep as (_ & _ & e & _ & ->). exact HJ.
  - apply step_RecvAppend in Hstep. cbv zeta in Hstep. destruct Hstep as (_ & _ & _ & _ & [(_ & ->)|(_ & ->)]); exact HJ.
  - apply step_RecvAck in Hstep. cbv zeta in Hstep. destruct Hstep as (_ & _ & _ & _ & ->). exact HJ.
  - apply step_AckClient in Hstep. cbv zeta in Hstep. destruct Hstep as (e & _ & _ & _ & _ & _ & ->). exact HJ.
  - apply step_LearnCommit in Hstep. cbv zeta in Hstep. destruct Hstep as (_ & _ & _ & _ & ->). exact HJ.
  - apply step_Crash in Hstep. cbv zeta in Hstep. subst w'. exact HJ.
Qed.

Lemma att_term_le E w t f : Inv E w -> J_att_resp w -> In (t, f) (att w) -> t <= nterm (nodes w f).
Proof.
  intros HI HJ Hin. destruct (HJ _ _ Hin) as (rl & Hrl).
  destruct (inv_terms _ _ HI) as (_ & Hrt & _). destruct (Hrt _ _ _ Hrl) as (_ & _ & H). exact H.
Qed.

(* ------------------------------------------------------------------------------------------------ *)
(* 6. what the invariants give at an Attach                                                          *)
(* ------------------------------------------------------------------------------------------------ *)
Lemma attach_facts E w l f flog :
  Inv E w -> leading (nodes w l) -> f <> l -> In (f, nterm (nodes w l), flog) (resps w) ->
  is_attached f (nacked (nodes w l)) = false ->
  let s := nodes w l in
  let t := nterm s in
  let lh := (last_term (firstn (nehead s) (nlog s)), nehead s) in
  ~ In (t, f) (att w) /\ is_elected w t f = false /\ elog w t <> None /\
  (nterm (nodes w f) = t -> nlog (nodes w f) = flog) /\ nlog s = tlog w t /\ nehead s <= length (nlog s) /\
  wf_log w flog /\
  (forall fl start, wf_log w fl -> attach_decide (nlog s) lh (lhead fl) = NoTruncate start ->
      start = length fl /\ is_prefix fl (nlog s) /\ length fl <= nehead s).
Proof.
  intros HI Hl Hfl Hresp Hna. cbv zeta.
  destruct (inv_att _ _ HI) as (_ & _ & _ & _ & Ha5).
  assert (Hnatt : ~ In (nterm (nodes w l), f) (att w)).
  { intros Hx. rewrite (Ha5 l Hl f Hx) in Hna. discriminate. }
  assert (Hnel : is_elected w (nterm (nodes w l)) f = false).
  { apply (elected_other E w _ l f HI (leading_elected E w l HI Hl) Hfl). }
  split; [exact Hnatt|]. split; [exact Hnel|]. split; [exact (leading_elog E w l HI Hl)|].
  split.
  { intros Ht. apply (inv_untouched _ _ HI f _ flog Hresp Ht Hnatt). right. exact Hnel. }
  destruct (leader_shape _ _ _ HI Hl) as (lg & rest & Hel & Hlog & Htl & Hh & Hfn & Hlg & Hrest). cbv zeta in *.
  split; [congruence|]. split; [rewrite Hlog, Hh, app_length; lia|].
  pose proof (inv_wf_nodes _ _ HI l) as HwL. pose proof (inv_wf_resps _ _ HI _ _ _ Hresp) as Hwf.
  split; [exact Hwf|].
  rewrite Hfn, Hh. intros fl start Hwfl Hd.
  eapply (attach_no_truncate w _ lg rest fl _ HwL Hwfl Hlog Hlg Hrest). exact Hd.
Qed.

(* the log the follower ends up with after the truncation rounds *)
Lemma attach_trunc_facts E w l f flog :
  Inv E w -> leading (nodes w l) -> f <> l -> In (f, nterm (nodes w l), flog) (resps w) ->
  is_attached f (nacked (nodes w l)) = false ->
  let s := nodes w l in
  let lh := (last_term (firstn (nehead s) (nlog s)), nehead s) in
  forall tk k newlog,
  attach_loop (S (length flog)) (nlog s) lh (truncate_to flog tk k) = Some newlog ->
  is_prefix newlog (nlog s) /\ length newlog <= nehead s.
Proof.
  intros HI Hl Hfl Hresp Hna. cbv zeta. intros tk k newlog Hloop.
  destruct (attach_facts _ _ _ _ _ HI Hl Hfl Hresp Hna) as (_ & _ & _ & _ & _ & _ & Hwf & Hnt). cbv zeta in Hnt.
  destruct (attach_loop_spec _ _ _ _ _ Hloop) as ((m & Hm) & start & Hd).
  assert (Hwn : wf_log w newlog).
  { rewrite Hm. apply wf_log_firstn. destruct (truncate_to_spec flog tk k) as (m' & -> & _).
    apply wf_log_firstn. exact Hwf. }
  destruct (Hnt _ _ Hwn Hd) as (_ & Hp & Hlen). split; assumption.
Qed.

(* ------------------------------------------------------------------------------------------------ *)
(* 7. I_att                                                                                         *)
(* ------------------------------------------------------------------------------------------------ *)
Definition att1 (w : world) := forall t f, In (t, f) (att w) -> elog w t <> None /\ is_elected w t f = false.
Definition att2 (w : world) :=
  forall t f, In (t, f) (att w) -> nterm (nodes w f) = t -> is_prefix (nlog (nodes w f)) (tlog w t).
Definition att3 (w : world) :=
  forall t f o e, In (t, f, o, e) (appends w) -> In (t, f) (att w) /\ nth_error (tlog w t) o = Some e.
Definition att4 (w : world) := forall f, nst (nodes w f) = Follower -> In (nterm (nodes w f), f) (att w).
Definition att5 (w : world) :=
  forall l, leading (nodes w l) -> forall f, In (nterm (nodes w l), f) (att w) ->
    is_attached f (nacked (nodes w l)) = true.

Lemma I_att_clauses w : I_att w <-> att1 w /\ att2 w /\ att3 w /\ att4 w /\ att5 w.
Proof. split; intros H; exact H. Qed.

Lemma att1_frame w w' :
  att w' = att w -> (forall t, elog w' t = None -> elog w t = None) ->
  (forall t f, is_elected w' t f = is_elected w t f) -> att1 w -> att1 w'.
Proof.
  intros Ha He Hel H t f Hin. rewrite Ha in Hin. destruct (H t f Hin) as [H1 H2].
  split; [intros Hx; apply H1, He, Hx | rewrite Hel; exact H2].
Qed.

Lemma att2_frame w w' :
  att w' = att w -> tlog w' = tlog w ->
  (forall f, nterm (nodes w' f) = nterm (nodes w f) /\ nlog (nodes w' f) = nlog (nodes w f)) ->
  att2 w -> att2 w'.
Proof.
  intros Ha Ht Hn H t f Hin Hterm. rewrite Ha in Hin. destruct (Hn f) as [H1 H2].
  rewrite H2, Ht. apply H; [exact Hin | congruence].
Qed.

Lemma att3_frame w w' :
  appends w' = appends w -> incl (att w) (att w') -> tlog w' = tlog w -> att3 w -> att3 w'.
Proof.
  intros Hp Ha Ht H t f o e Hin. rewrite Hp in Hin. destruct (H _ _ _ _ Hin) as [H1 H2].
  split; [apply Ha; exact H1 | rewrite Ht; exact H2].
Qed.

Lemma att4_frame w w' :
  (forall f, nst (nodes w' f) = Follower ->
     (nst (nodes w f) = Follower /\ nterm (nodes w' f) = nterm (nodes w f)) \/ In (nterm (nodes w' f), f) (att w')) ->
  incl (att w) (att w') -> att4 w -> att4 w'.
Proof.
  intros Hn Ha H f Hf. destruct (Hn f Hf) as [[H1 H2]|H1]; [|exact H1].
  rewrite H2. apply Ha. apply H. exact H1.
Qed.

Lemma att5_frame w w' :
  att w' = att w ->
  (forall l, leading (nodes w' l) -> leading (nodes w l) /\ nterm (nodes w' l) = nterm (nodes w l) /\
     forall f, is_attached f (nacked (nodes w l)) = true -> is_attached f (nacked (nodes w' l)) = true) ->
  att5 w -> att5 w'.
Proof.
  intros Ha Hn H l Hl f Hin. rewrite Ha in Hin. destruct (Hn l Hl) as (H1 & H2 & H3).
  apply H3. apply (H l H1). rewrite <- H2. exact Hin.
Qed.

Lemma init_I_att E : NoDup E -> I_att (init E).
Proof.
  intros _. apply I_att_clauses. split; [|split; [|split; [|split]]].
  - intros t f Hin. destruct Hin.
  - intros t f Hin. destruct Hin.
  - intros t f o e Hin. destruct Hin.
  - intros f Hf. cbn in Hf. discriminate.
  - intros l Hl. not_leading Hl.
Qed.

Ltac same_nl := intros ?; split; reflexivity.
Ltac same_fol := intros ? H; left; split; [exact H | reflexivity].
Ltac same_lead5 := intros ? H; split; [exact H | split; [reflexivity | intros ? H'; exact H']].

Lemma pres_I_att E w a w' :
  Inv E w -> J_att_resp w -> is_swap a = false -> step w a = Some w' -> I_att w'.
Proof.
  intros HI HJ Hns Hstep. pose proof (inv_att _ _ HI) as HA. apply I_att_clauses in HA.
  destruct HA as (A1 & A2 & A3 & A4 & A5). apply I_att_clauses.
  destruct a; try discriminate Hns.
  - (* NewElection *)
    apply step_NewElection in Hstep. subst w'.
    split; [|split; [|split; [|split]]]; [exact A1 | exact A2 | exact A3 | exact A4 | exact A5].
  - (* NewTerm *)
    apply step_NewTerm in Hstep. cbv zeta in Hstep. destruct Hstep as (H1 & H2 & Hg & ->).
    split; [|split; [|split; [|split]]].
    + apply (att1_frame w); cbn [att elog]; [reflexivity | intros ? H; exact H | intros; reflexivity | exact A1].
    + intros t0 f Hin Hterm. cbn [att nodes tlog] in *. upd_cases f n.
      * cbn [nterm nlog] in *. subst t0.
        pose proof (att_term_le _ _ _ _ HI HJ Hin) as Hle.
        apply (A2 t n Hin). destruct Hg as [Hg|(Hg & _)]; lia.
      * apply (A2 t0 f Hin Hterm).
    + apply (att3_frame w); cbn [appends att tlog]; [reflexivity | apply incl_refl | reflexivity | exact A3].
    + apply (att4_frame w); cbn [nodes att]; [ | apply incl_refl | exact A4].
      intros m Hm. upd_cases m n; [cbn in Hm; discriminate | left; split; [exact Hm | reflexivity]].
    + apply (att5_frame w); cbn [nodes att]; [reflexivity | | exact A5].
      intros m Hm. upd_cases m n; [not_leading Hm|]. split; [exact Hm | split; [reflexivity | intros ? H'; exact H']].
  - (* Elect *)
    apply step_Elect in Hstep. cbv zeta in Hstep.
    destruct Hstep as (llog & _ & Hnel & _ & _ & _ & _ & _ & _ & _ & _ & ->).
    split; [|split; [|split; [|split]]]; try assumption.
    intros t0 f0 Hin. cbn [att elog] in *. destruct (A1 _ _ Hin) as [E1 E2]. split; [exact E1|].
    rewrite is_elected_cons, E2, orb_false_r.
    destruct (inv_terms _ _ HI) as (_ & _ & _ & Hte). pose proof (Hte _ E1) as Hx.
    destruct (cterm w =? t0) eqn:Ec; [|reflexivity]. apply Nat.eqb_eq in Ec. congruence.
  - (* BecomeLeader *)
    apply step_BecomeLeader in Hstep. cbv zeta in Hstep. destruct Hstep as (Hel & Hst & Hne & Helog & ->).
    assert (Hnt : forall t0 f0, In (t0, f0) (att w) -> t0 <> nterm (nodes w l)).
    { intros t0 f0 Hin Hx. destruct (A1 _ _ Hin) as [E1 _]. congruence. }
    split; [|split; [|split; [|split]]].
    + apply (att1_frame w); cbn [att elog]; [reflexivity | | intros; reflexivity | exact A1].
      intros t0 H. upd_cases t0 (nterm (nodes w l)); [discriminate H | exact H].
    + intros t0 f0 Hin Hterm. cbn [att nodes tlog] in *. rewrite (upd_other _ _ _ t0) by (eapply Hnt; eauto).
      upd_cases f0 l; cbn [nterm nlog] in *; apply (A2 _ _ Hin Hterm).
    + intros t0 f0 o e Hin. cbn [appends att tlog] in *. destruct (A3 _ _ _ _ Hin) as [E1 E2].
      split; [exact E1|]. rewrite (upd_other _ _ _ t0) by (eapply Hnt; eauto). exact E2.
    + apply (att4_frame w); cbn [nodes att]; [ | apply incl_refl | exact A4].
      intros m Hm. upd_cases m l; [cbn in Hm; discriminate | left; split; [exact Hm | reflexivity]].
    + intros m Hm f0 Hin. cbn [nodes att] in *. upd_cases m l.
      * cbn [nterm] in Hin. exfalso. eapply Hnt; eauto.
      * apply (A5 m Hm f0 Hin).
  - (* Attach *)
    apply step_Attach in Hstep. cbv zeta in Hstep.
    destruct Hstep as (Hlead & Hfl & Hens & Hresp & Hna & Hrf & Hcases).
    assert (Hll : leading (nodes w l)) by exact Hlead.
    destruct (attach_facts _ _ _ _ _ HI Hll Hfl Hresp Hna) as (Hnatt & Hnel & Helog & Hunt & Hlog & Hhd & Hwf & Hnt).
    pose proof (attach_trunc_facts _ _ _ _ _ HI Hll Hfl Hresp Hna) as Htr.
    cbv zeta in *.
    destruct Hcases as [(start & Hd & ->)|(tk & k & Hd & Hft & Hfs & Hfe & newlog & Hloop & ->)].
    + (* NoTruncate *)
      destruct (Hnt _ _ Hwf Hd) as (-> & Hpre & Hlen).
      split; [|split; [|split; [|split]]].
      * intros t0 f0 Hin. cbn [att elog] in *. rewrite is_elected_mk.
        destruct Hin as [Hin|Hin]; [injection Hin as <- <-; split; assumption | apply (A1 _ _ Hin)].
      * intros t0 f0 Hin Hterm. cbn [att nodes tlog] in *.
        destruct Hin as [Hin|Hin].
        -- injection Hin as <- <-. rewrite (upd_other _ _ _ f) in * by exact Hfl.
           rewrite (Hunt Hterm), <- Hlog. exact Hpre.
        -- upd_cases f0 l; cbn [nterm nlog] in *; apply (A2 _ _ Hin Hterm).
      * apply (att3_frame w); cbn [appends att tlog]; [reflexivity | apply incl_tl, incl_refl | reflexivity | exact A3].
      * apply (att4_frame w); cbn [nodes att]; [ | apply incl_tl, incl_refl | exact A4].
        intros m Hm. upd_cases m l; left; (split; [exact Hm | reflexivity]).
      * intros m Hm f0 Hin. cbn [nodes att] in *. upd_cases m l.
        -- cbn [nterm nacked] in *. rewrite is_attached_cons.
           destruct Hin as [Hin|Hin]; [injection Hin as <-; rewrite Nat.eqb_refl; reflexivity|].
           rewrite (A5 l Hll f0 Hin). apply orb_true_r.
        -- destruct Hin as [Hin|Hin]; [|apply (A5 m Hm f0 Hin)].
           injection Hin as Ht0 Hf0. exfalso. apply Hne.
           apply (leading_unique E w l m HI Hll Hm). symmetry. exact Ht0.
    + (* TruncateTo *)
      rewrite (Hunt Hft) in *. destruct (Htr _ _ _ Hloop) as (Hpre & Hlen).
      split; [|split; [|split; [|split]]].
      * intros t0 f0 Hin. cbn [att elog] in *. rewrite is_elected_mk.
        destruct Hin as [Hin|Hin]; [injection Hin as <- <-; split; assumption | apply (A1 _ _ Hin)].
      * intros t0 f0 Hin Hterm. cbn [att nodes tlog] in *. upd_cases f0 l.
        -- cbn [nterm nlog] in *. destruct Hin as [Hin|Hin]; [inversion Hin; congruence|].
           apply (A2 _ _ Hin Hterm).
        -- upd_cases f0 f.
           ++ cbn [nterm nlog] in *. subst t0. rewrite <- Hlog. exact Hpre.
           ++ destruct Hin as [Hin|Hin]; [inversion Hin; congruence|]. apply (A2 _ _ Hin Hterm).
      * apply (att3_frame w); cbn [appends att tlog]; [reflexivity | apply incl_tl, incl_refl | reflexivity | exact A3].
      * apply (att4_frame w); cbn [nodes att]; [ | apply incl_tl, incl_refl | exact A4].
        intros m Hm. upd_cases m l; [left; split; [exact Hm | reflexivity]|].
        upd_cases m f; [right; left; reflexivity | left; split; [exact Hm | reflexivity]].
      * intros m Hm f0 Hin. cbn [nodes att] in *. upd_cases m l.
        -- cbn [nterm nacked] in *. rewrite is_attached_cons.
           destruct Hin as [Hin|Hin]; [injection Hin as <-; rewrite Nat.eqb_refl; reflexivity|].
           rewrite (A5 l Hll f0 Hin). apply orb_true_r.
        -- upd_cases m f; [not_leading Hm|].
           destruct Hin as [Hin|Hin]; [|apply (A5 m Hm f0 Hin)].
           injection Hin as Ht0 Hf0. exfalso. apply Hne.
           apply (leading_unique E w l m HI Hll Hm). symmetry. exact Ht0.
  - (* FinishBecomeLeader *)
    apply step_FinishBecomeLeader in Hstep. cbv zeta in Hstep. destruct Hstep as (Hne & Hc & ->). unfold set_node.
    split; [|split; [|split; [|split]]]; try assumption.
    + apply (att2_frame w); cbn [att tlog nodes]; [reflexivity | reflexivity | | exact A2].
      intros m. upd_cases m l; split; reflexivity.
    + apply (att4_frame w); cbn [nodes att]; [ | apply incl_refl | exact A4].
      intros m Hm. upd_cases m l; [cbn in Hm; discriminate | left; split; [exact Hm | reflexivity]].
    + apply (att5_frame w); cbn [nodes att]; [reflexivity | | exact A5].
      intros m Hm. upd_cases m l; [split; [left; exact Hne | split; [reflexivity | intros ? H'; exact H']]|].
      split; [exact Hm | split; [reflexivity | intros ? H'; exact H']].
  - (* ClientWrite *)
    apply step_ClientWrite in Hstep. cbv zeta in Hstep. destruct Hstep as (Hst & ->).
    assert (Hll : leading (nodes w l)) by (right; exact Hst).
    destruct (inv_leading _ _ HI l Hll) as (Hel & Hlog & _). cbv zeta in *.
    split; [|split; [|split; [|split]]].
    + apply (att1_frame w); cbn [att elog]; [reflexivity | intros ? H; exact H | intros; reflexivity | exact A1].
    + intros t0 f0 Hin Hterm. cbn [att nodes tlog] in *. upd_cases f0 l.
      * cbn [nterm] in Hterm. subst t0. destruct (A1 _ _ Hin) as [_ E2]. congruence.
      * pose proof (A2 _ _ Hin Hterm) as Hp.
        destruct (Nat.eq_dec t0 (nterm (nodes w l))) as [Et|Et].
        -- rewrite Et in *. rewrite upd_same, Hlog. apply is_prefix_app_r. exact Hp.
        -- rewrite upd_other by exact Et. exact Hp.
    + intros t0 f0 o e Hin. cbn [appends att tlog] in *. destruct (A3 _ _ _ _ Hin) as [E1 E2].
      split; [exact E1|]. upd_cases t0 (nterm (nodes w l)); [|exact E2].
      rewrite Hlog. rewrite nth_error_app1; [exact E2 | apply nth_error_Some; congruence].
    + apply (att4_frame w); cbn [nodes att]; [ | apply incl_refl | exact A4].
      intros m Hm. upd_cases m l; [cbn in Hm; discriminate | left; split; [exact Hm | reflexivity]].
    + apply (att5_frame w); cbn [nodes att]; [reflexivity | | exact A5].
      intros m Hm. upd_cases m l; [split; [exact Hll | split; [reflexivity | intros ? H'; exact H']]|].
      split; [exact Hm | split; [reflexivity | intros ? H'; exact H']].
  - (* SendAppend *)
    apply step_SendAppend in Hstep. cbv zeta in Hstep. destruct Hstep as (Hlead & Hatt & e & Hnth & ->).
    split; [|split; [|split; [|split]]]; try assumption.
    intros t0 f0 o0 e0 Hin. cbn [appends att tlog] in *. destruct Hin as [Hin|Hin]; [|apply (A3 _ _ _ _ Hin)].
    inversion Hin; subst t0 f0 o0 e0.
    assert (Hll : leading (nodes w l)) by exact Hlead.
    destruct (inv_leading _ _ HI l Hll) as (_ & Hlog & _). cbv zeta in *.
    apply is_attached_In in Hatt. destruct Hatt as (a0 & Ha0).
    destruct (inv_nacked _ _ HI l Hll) as (_ & Hna). cbv zeta in Hna.
    destruct (Hna _ _ Ha0) as (_ & _ & Hin' & _).
    split; [exact Hin' | rewrite <- Hlog; exact Hnth].
  - (* RecvAppend *)
    apply step_RecvAppend in Hstep. cbv zeta in Hstep.
    destruct Hstep as (Happ & Hterm & Hst & Hne & Hcases).
    destruct (A3 _ _ _ _ Happ) as [Hatt Hnth].
    destruct Hcases as [(Ho & ->)|(Ho & ->)].
    + split; [|split; [|split; [|split]]]; try assumption.
      * apply (att2_frame w); cbn [att tlog nodes]; [reflexivity | reflexivity | | exact A2].
        intros m. upd_cases m f; split; cbn [nterm nlog]; congruence.
      * apply (att4_frame w); cbn [nodes att]; [ | apply incl_refl | exact A4].
        intros m Hm. upd_cases m f; [right; exact Hatt | left; split; [exact Hm | reflexivity]].
      * apply (att5_frame w); cbn [nodes att]; [reflexivity | | exact A5].
        intros m Hm. upd_cases m f; [not_leading Hm|].
        split; [exact Hm | split; [reflexivity | intros ? H'; exact H']].
    + split; [|split; [|split; [|split]]]; try assumption.
      * intros t0 f0 Hin Hterm0. cbn [att nodes tlog] in *. upd_cases f0 f; [|apply (A2 _ _ Hin Hterm0)].
        cbn [nterm nlog] in *. subst t0.
        apply is_prefix_snoc; [apply (A2 _ _ Hin Hterm) | rewrite <- Ho; exact Hnth].
      * apply (att4_frame w); cbn [nodes att]; [ | apply incl_refl | exact A4].
        intros m Hm. upd_cases m f; [right; exact Hatt | left; split; [exact Hm | reflexivity]].
      * apply (att5_frame w); cbn [nodes att]; [reflexivity | | exact A5].
        intros m Hm. upd_cases m f; [not_leading Hm|].
        split; [exact Hm | split; [reflexivity | intros ? H'; exact H']].
  - (* RecvAck *)
    apply step_RecvAck in Hstep. cbv zeta in Hstep. destruct Hstep as (_ & _ & _ & _ & ->). unfold set_node.
    split; [|split; [|split; [|split]]]; try assumption.
    + apply (att2_frame w); cbn [att tlog nodes]; [reflexivity | reflexivity | | exact A2].
      intros m. upd_cases m l; split; reflexivity.
    + apply (att4_frame w); cbn [nodes att]; [ | apply incl_refl | exact A4].
      intros m Hm. upd_cases m l; left; (split; [exact Hm | reflexivity]).
    + apply (att5_frame w); cbn [nodes att]; [reflexivity | | exact A5].
      intros m Hm. upd_cases m l.
      * split; [exact Hm | split; [reflexivity|]]. intros g Hg. cbn [nacked]. rewrite is_attached_set_acked. exact Hg.
      * split; [exact Hm | split; [reflexivity | intros ? H'; exact H']].
  - (* AckClient *)
    apply step_AckClient in Hstep. cbv zeta in Hstep. destruct Hstep as (e & _ & _ & _ & _ & _ & ->).
    split; [|split; [|split; [|split]]]; [exact A1 | exact A2 | exact A3 | exact A4 | exact A5].
  - (* LearnCommit *)
    apply step_LearnCommit in Hstep. cbv zeta in Hstep. destruct Hstep as (_ & _ & _ & _ & ->). unfold set_node.
    split; [|split; [|split; [|split]]]; try assumption.
    + apply (att2_frame w); cbn [att tlog nodes]; [reflexivity | reflexivity | | exact A2].
      intros m. upd_cases m f; split; reflexivity.
    + apply (att4_frame w); cbn [nodes att]; [ | apply incl_refl | exact A4].
      intros m Hm. upd_cases m f; left; (split; [exact Hm | reflexivity]).
    + apply (att5_frame w); cbn [nodes att]; [reflexivity | | exact A5].
      intros m Hm. upd_cases m f; (split; [exact Hm | split; [reflexivity | intros ? H'; exact H']]).
  - (* Crash *)
    apply step_Crash in Hstep. cbv zeta in Hstep. subst w'. unfold set_node.
    split; [|split; [|split; [|split]]]; try assumption.
    + apply (att2_frame w); cbn [att tlog nodes]; [reflexivity | reflexivity | | exact A2].
      intros m. upd_cases m n; split; reflexivity.
    + apply (att4_frame w); cbn [nodes att]; [ | apply incl_refl | exact A4].
      intros m Hm. upd_cases m n; [|left; split; [exact Hm | reflexivity]].
      cbn in Hm. destruct (nterm (nodes w n) =? 0); discriminate.
    + apply (att5_frame w); cbn [nodes att]; [reflexivity | | exact A5].
      intros m Hm. upd_cases m n; [|split; [exact Hm | split; [reflexivity | intros ? H'; exact H']]].
      exfalso. destruct Hm as [Hm|Hm]; cbn in Hm; [discriminate|].
      destruct (nterm (nodes w n) =? 0); discriminate.
Qed.

(* ------------------------------------------------------------------------------------------------ *)
(* 8. I_nacked                                                                                      *)
(* ------------------------------------------------------------------------------------------------ *)
Definition nacked_ok (w : world) (l : nat) : Prop :=
  let s := nodes w l in
  NoDup (map fst (nacked s)) /\
  forall f a, In (f, a) (nacked s) ->
    f <> l /\ In f (ens w) /\ In (nterm s, f) (att w) /\ a <= length (nlog s) /\
    (nehead s < a -> exists k, a = S k /\ In (f, nterm s, k) (acks w)).

Lemma I_nacked_nodes w : I_nacked w <-> forall l, leading (nodes w l) -> nacked_ok w l.
Proof. split; intros H; exact H. Qed.

Lemma nacked_ok_frame w w' l :
  nterm (nodes w' l) = nterm (nodes w l) -> nacked (nodes w' l) = nacked (nodes w l) ->
  nehead (nodes w' l) = nehead (nodes w l) -> length (nlog (nodes w l)) <= length (nlog (nodes w' l)) ->
  ens w' = ens w -> incl (att w) (att w') -> incl (acks w) (acks w') ->
  nacked_ok w l -> nacked_ok w' l.
Proof.
  intros H1 H2 H3 H4 H5 H6 H7 [Hnd Hall]. unfold nacked_ok. cbv zeta. rewrite H1, H2, H3, H5.
  split; [exact Hnd|]. intros f a Hin. destruct (Hall f a Hin) as (B1 & B2 & B3 & B4 & B5).
  split; [exact B1|]. split; [exact B2|]. split; [apply H6; exact B3|]. split; [lia|].
  intros Hlt. destruct (B5 Hlt) as (k & Hk & Hack). exists k. split; [exact Hk | apply H7; exact Hack].
Qed.

Lemma init_I_nacked E : NoDup E -> I_nacked (init E).
Proof. intros _ l Hl. not_leading Hl. Qed.

Ltac nacked_same w HN m Hm :=
  apply (nacked_ok_frame w _ m); cbn [nodes ens att acks nterm nacked nehead nlog];
  try reflexivity; try apply Nat.le_refl; try apply incl_refl; try (apply incl_tl, incl_refl);
  try exact (HN m Hm).

Lemma pres_I_nacked E w a w' :
  Inv E w -> is_swap a = false -> step w a = Some w' -> I_nacked w'.
Proof.
  intros HI Hns Hstep. pose proof (inv_nacked _ _ HI) as HN. apply I_nacked_nodes in HN. apply I_nacked_nodes.
  destruct a; try discriminate Hns.
  - (* NewElection *)
    apply step_NewElection in Hstep. subst w'. intros m Hm. cbn [nodes] in Hm. nacked_same w HN m Hm.
  - (* NewTerm *)
    apply step_NewTerm in Hstep. cbv zeta in Hstep. destruct Hstep as (H1 & H2 & Hg & ->).
    intros m Hm. cbn [nodes] in Hm. upd_cases m n; [not_leading Hm|].
    nacked_same w HN m Hm; rewrite upd_other by assumption; reflexivity || apply Nat.le_refl.
  - (* Elect *)
    apply step_Elect in Hstep. cbv zeta in Hstep. destruct Hstep as (llog & _ & _ & _ & _ & _ & _ & _ & _ & _ & _ & ->).
    intros m Hm. cbn [nodes] in Hm. nacked_same w HN m Hm.
  - (* BecomeLeader *)
    apply step_BecomeLeader in Hstep. cbv zeta in Hstep. destruct Hstep as (Hel & Hst & Hne & Helog & ->).
    intros m Hm. cbn [nodes] in Hm. upd_cases m l.
    + unfold nacked_ok. cbv zeta. cbn [nodes]. rewrite upd_same. cbn [nacked map].
      split; [constructor | intros ? ? []].
    + nacked_same w HN m Hm; try (rewrite upd_other by assumption; reflexivity || apply Nat.le_refl).
      apply incl_acks_BL.
  - (* Attach *)
    apply step_Attach in Hstep. cbv zeta in Hstep.
    destruct Hstep as (Hlead & Hfl & Hens & Hresp & Hna & Hrf & Hcases).
    assert (Hll : leading (nodes w l)) by exact Hlead.
    destruct (attach_facts _ _ _ _ _ HI Hll Hfl Hresp Hna) as (Hnatt & Hnel & Helog & Hunt & Hlog & Hhd & Hwf & Hnt).
    pose proof (attach_trunc_facts _ _ _ _ _ HI Hll Hfl Hresp Hna) as Htr.
    cbv zeta in *.
    destruct (HN l Hll) as [Hnd Hall]. cbv zeta in *.
    assert (Hnf : ~ In f (map fst (nacked (nodes w l)))).
    { intros Hx. apply is_attached_map in Hx. congruence. }
    (* the new cursor (f, a) is fine as soon as a <= nehead *)
    assert (Hnew : forall a c nodes', nodes' l = mkN (nterm (nodes w l)) (nst (nodes w l)) (nlog (nodes w l))
                      (nelect (nodes w l)) (nehead (nodes w l)) (nrf (nodes w l)) c
                      ((f, a) :: nacked (nodes w l)) ->
                    a <= nehead (nodes w l) ->
                    nacked_ok (mkW nodes' (cterm w) (ens w) (removed w) (resps w) (elected w) (elog w) (tlog w)
                                   (appends w) (acks w) (cacked w) (cq w) ((nterm (nodes w l), f) :: att w)) l).
    { intros a c nodes' Hnl Ha. unfold nacked_ok. cbv zeta. cbn [nodes ens att acks]. rewrite Hnl.
      cbn [nacked nterm nlog nehead map fst]. split; [constructor; assumption|].
      intros g b [Hin|Hin].
      - injection Hin as <- <-. split; [exact Hfl|]. split; [exact Hens|]. split; [left; reflexivity|].
        split; [lia|]. intros Hx. lia.
      - destruct (Hall g b Hin) as (B1 & B2 & B3 & B4 & B5).
        split; [exact B1|]. split; [exact B2|]. split; [right; exact B3|]. split; [exact B4 | exact B5]. }
    destruct Hcases as [(start & Hd & ->)|(tk & k & Hd & Hft & Hfs & Hfe & newlog & Hloop & ->)].
    + destruct (Hnt _ _ Hwf Hd) as (-> & Hpre & Hlen).
      intros m Hm. cbn [nodes] in Hm. upd_cases m l.
      * eapply Hnew; [apply upd_same | exact Hlen].
      * nacked_same w HN m Hm; rewrite upd_other by assumption; reflexivity || apply Nat.le_refl.
    + rewrite (Hunt Hft) in *. destruct (Htr _ _ _ Hloop) as (Hpre & Hlen).
      intros m Hm. cbn [nodes] in Hm. upd_cases m l.
      * eapply Hnew; [apply upd_same | exact Hlen].
      * upd_cases m f; [not_leading Hm|].
        nacked_same w HN m Hm; rewrite !upd_other by assumption; reflexivity || apply Nat.le_refl.
  - (* FinishBecomeLeader *)
    apply step_FinishBecomeLeader in Hstep. cbv zeta in Hstep. destruct Hstep as (Hne & Hc & ->). unfold set_node.
    intros m Hm. cbn [nodes] in Hm. upd_cases m l.
    + assert (Hll : leading (nodes w l)) by (left; exact Hne).
      nacked_same w HN l Hll; rewrite upd_same; reflexivity || apply Nat.le_refl.
    + nacked_same w HN m Hm; rewrite upd_other by assumption; reflexivity || apply Nat.le_refl.
  - (* ClientWrite *)
    apply step_ClientWrite in Hstep. cbv zeta in Hstep. destruct Hstep as (Hst & ->).
    assert (Hll : leading (nodes w l)) by (right; exact Hst).
    intros m Hm. cbn [nodes] in Hm. upd_cases m l.
    + nacked_same w HN l Hll; rewrite upd_same; cbn [nterm nacked nehead nlog]; try reflexivity.
      rewrite app_length. lia.
    + nacked_same w HN m Hm; rewrite upd_other by assumption; reflexivity || apply Nat.le_refl.
  - (* SendAppend *)
    apply step_SendAppend in Hstep. cbv zeta in Hstep. destruct Hstep as (_ & _ & e & _ & ->).
    intros m Hm. cbn [nodes] in Hm. nacked_same w HN m Hm.
  - (* RecvAppend *)
    apply step_RecvAppend in Hstep. cbv zeta in Hstep.
    destruct Hstep as (_ & _ & _ & _ & [(_ & ->)|(_ & ->)]);
      (intros m Hm; cbn [nodes] in Hm; upd_cases m f; [not_leading Hm|];
       nacked_same w HN m Hm; rewrite upd_other by assumption; reflexivity || apply Nat.le_refl).
  - (* RecvAck *)
    apply step_RecvAck in Hstep. cbv zeta in Hstep. destruct Hstep as (Hlead & Hatt & Hack & Ho & ->). unfold set_node.
    intros m Hm. cbn [nodes] in Hm. upd_cases m l.
    + assert (Hll : leading (nodes w l)) by exact Hlead.
      destruct (HN l Hll) as [Hnd Hall]. cbv zeta in *.
      unfold nacked_ok. cbv zeta. cbn [nodes ens att acks]. rewrite upd_same. cbn [nacked nterm nlog nehead].
      rewrite set_acked_map_fst. split; [exact Hnd|].
      intros g b Hin. apply set_acked_In in Hin. destruct Hin as [Hin|(-> & a0 & Hin & ->)]; [apply (Hall g b Hin)|].
      destruct (Hall f a0 Hin) as (B1 & B2 & B3 & B4 & B5).
      split; [exact B1|]. split; [exact B2|]. split; [exact B3|]. split; [lia|].
      intros Hx. destruct (Nat.max_spec a0 (S o)) as [[Hlt Hmx]|[Hge Hmx]]; rewrite Hmx in *.
      * exists o. split; [reflexivity | exact Hack].
      * apply B5. exact Hx.
    + nacked_same w HN m Hm; rewrite upd_other by assumption; reflexivity || apply Nat.le_refl.
  - (* AckClient *)
    apply step_AckClient in Hstep. cbv zeta in Hstep. destruct Hstep as (e & _ & _ & _ & _ & _ & ->).
    intros m Hm. cbn [nodes] in Hm. nacked_same w HN m Hm.
  - (* LearnCommit *)
    apply step_LearnCommit in Hstep. cbv zeta in Hstep. destruct Hstep as (_ & _ & _ & _ & ->). unfold set_node.
    intros m Hm. cbn [nodes] in Hm. upd_cases m f.
    + nacked_same w HN f Hm; rewrite upd_same; reflexivity || apply Nat.le_refl.
    + nacked_same w HN m Hm; rewrite upd_other by assumption; reflexivity || apply Nat.le_refl.
  - (* Crash *)
    apply step_Crash in Hstep. cbv zeta in Hstep. subst w'. unfold set_node.
    intros m Hm. cbn [nodes] in Hm. upd_cases m n.
    + exfalso. destruct Hm as [Hm|Hm]; cbn in Hm; [discriminate|].
      destruct (nterm (nodes w n) =? 0); discriminate.
    + nacked_same w HN m Hm; rewrite upd_other by assumption; reflexivity || apply Nat.le_refl.
Qed.
