(* Assembly: the strengthened invariant is inductive over [step] for every action that does not change
   the ensemble, hence holds in every state reachable by such actions; C01 follows (Safety.v). *)
From Coq Require Import List Arith Bool PeanoNat Lia.
From Oxia.Cluster Require Import Model Invariants Safety CodeModel.
From Oxia.Cluster Require Pres_A Pres_B Pres_C Pres_D.
Import ListNotations.

Record Inv' (E : list nat) (w : world) : Prop := {
  inv_base : Inv E w;
  inv_term_bound : Pres_B.J_term_bound w;
  inv_att_resp : Pres_C.J_att_resp w
}.

Lemma inv_init E : NoDup E -> Inv' E (init E).
Proof.
  intros HE. constructor.
  - constructor.
    + apply Pres_A.init_fixed_ens; exact HE.
    + apply Pres_B.init_I_wf_nodes; exact HE.
    + apply Pres_B.init_I_wf_resps; exact HE.
    + apply Pres_B.init_I_wf_tlog; exact HE.
    + apply Pres_A.init_I_terms; exact HE.
    + apply Pres_A.init_I_elected_unique; exact HE.
    + apply Pres_A.init_I_el; exact HE.
    + apply Pres_A.init_I_elog; exact HE.
    + apply Pres_C.init_I_leading; exact HE.
    + apply Pres_C.init_I_untouched; exact HE.
    + apply Pres_C.init_I_att; exact HE.
    + apply Pres_C.init_I_nacked; exact HE.
    + apply Pres_D.init_I_ack; exact HE.
    + apply Pres_D.init_I_hist_cur; exact HE.
    + apply Pres_D.init_I_hist_resp; exact HE.
    + apply Pres_D.init_I_hist_el; exact HE.
    + apply Pres_D.init_I_cq; exact HE.
  - apply Pres_B.init_J_term_bound; exact HE.
  - apply Pres_C.init_J_att_resp; exact HE.
Qed.

Lemma inv_step E w a w' : Inv' E w -> is_swap a = false -> step w a = Some w' -> Inv' E w'.
Proof.
  intros [HI HJ1 HJ2] Hns Hstep. constructor.
  - constructor.
    + exact (Pres_A.pres_fixed_ens E w a w' HI Hns Hstep).
    + exact (Pres_B.pres_I_wf_nodes E w a w' HI Hns Hstep).
    + exact (Pres_B.pres_I_wf_resps E w a w' HI Hns Hstep).
    + exact (Pres_B.pres_I_wf_tlog E w a w' HI HJ1 Hns Hstep).
    + exact (Pres_A.pres_I_terms E w a w' HI Hns Hstep).
    + exact (Pres_A.pres_I_elected_unique E w a w' HI Hns Hstep).
    + exact (Pres_A.pres_I_el E w a w' HI Hns Hstep).
    + exact (Pres_A.pres_I_elog E w a w' HI Hns Hstep).
    + exact (Pres_C.pres_I_leading E w a w' HI Hns Hstep).
    + exact (Pres_C.pres_I_untouched E w a w' HI Hns Hstep).
    + exact (Pres_C.pres_I_att E w a w' HI HJ2 Hns Hstep).
    + exact (Pres_C.pres_I_nacked E w a w' HI Hns Hstep).
    + exact (Pres_D.pres_I_ack E w a w' HI Hns Hstep).
    + exact (Pres_D.pres_I_hist_cur E w a w' HI Hns Hstep).
    + exact (Pres_D.pres_I_hist_resp E w a w' HI Hns Hstep).
    + exact (Pres_D.pres_I_hist_el E w a w' HI Hns Hstep).
    + exact (Pres_D.pres_I_cq E w a w' HI Hns Hstep).
  - exact (Pres_B.pres_J_term_bound E w a w' HI HJ1 Hns Hstep).
  - exact (Pres_C.pres_J_att_resp E w a w' HI HJ2 Hns Hstep).
Qed.

Definition no_swap (acts : list action) : bool := forallb (fun a => negb (is_swap a)) acts.

Lemma inv_run E acts : forall w w', Inv' E w -> no_swap acts = true -> run w acts = Some w' -> Inv' E w'.
Proof.
  induction acts as [|a tl IH]; intros w w' HI Hns Hrun; cbn [run] in Hrun.
  - inversion Hrun; subst; exact HI.
  - cbn [no_swap forallb] in Hns. apply andb_true_iff in Hns. destruct Hns as [Ha Htl].
    apply negb_true_iff in Ha.
    destruct (step w a) as [w1|] eqn:Hs; [|discriminate].
    eapply IH; [eapply inv_step; eauto | exact Htl | exact Hrun].
Qed.

(* C01 for the repaired protocol: every execution from the initial state, of any length, with any interleaving of
   elections, crashes, message deliveries (any order, duplicated, lost), client writes -- without ensemble change. *)
Theorem acked_survive E acts w :
  NoDup E -> no_swap acts = true -> run (init E) acts = Some w ->
  forall t o e, In (t, o, e) (cacked w) ->
  forall n, nst (nodes w n) = Leader -> t <= nterm (nodes w n) ->
  nth_error (nlog (nodes w n)) o = Some e.
Proof.
  intros HE Hns Hrun. pose proof (inv_run E acts _ _ (inv_init E HE) Hns Hrun) as [HI _ _].
  exact (acked_survive_inv E w HI).
Qed.

(* The same for what the code does (one Truncate round per attach), for every execution in which that single
   round left a consistent follower each time. *)
Theorem acked_survive_code E acts w :
  NoDup E -> no_swap acts = true -> consistent_run (init E) acts = true ->
  run_code (init E) acts = Some w ->
  forall t o e, In (t, o, e) (cacked w) ->
  forall n, nst (nodes w n) = Leader -> t <= nterm (nodes w n) ->
  nth_error (nlog (nodes w n)) o = Some e.
Proof.
  intros HE Hns Hc Hrun. rewrite (run_code_eq acts _ Hc) in Hrun.
  exact (acked_survive E acts w HE Hns Hrun).
Qed.

(* Election safety facts that come with the invariant (used by C05's cluster-level statement) *)
Theorem one_leader_per_term E acts w :
  NoDup E -> no_swap acts = true -> run (init E) acts = Some w ->
  forall n m, leading (nodes w n) -> leading (nodes w m) -> nterm (nodes w n) = nterm (nodes w m) -> n = m.
Proof.
  intros HE Hns Hrun n m Hn Hm Ht.
  pose proof (inv_run E acts _ _ (inv_init E HE) Hns Hrun) as [HI _ _].
  destruct (inv_leading _ _ HI n Hn) as (Hen & _). destruct (inv_leading _ _ HI m Hm) as (Hem & _).
  cbn zeta in *. rewrite Ht in Hen.
  apply StepFacts.is_elected_In in Hen. apply StepFacts.is_elected_In in Hem.
  destruct Hen as (c1 & H1). destruct Hem as (c2 & H2).
  destruct (inv_elected_unique _ _ HI _ _ _ _ _ H1 H2) as [-> _]. reflexivity.
Qed.

(* replicas agree: every acknowledged prefix a node holds in the term of the ack is the leader's *)
Theorem ack_implies_matching E acts w :
  NoDup E -> no_swap acts = true -> run (init E) acts = Some w ->
  forall x t o, In (x, t, o) (acks w) -> nterm (nodes w x) = t ->
  firstn (S o) (nlog (nodes w x)) = firstn (S o) (tlog w t).
Proof.
  intros HE Hns Hrun x t o Hin Ht.
  pose proof (inv_run E acts _ _ (inv_init E HE) Hns Hrun) as [HI _ _].
  destruct (inv_ack _ _ HI _ _ _ Hin) as (_ & _ & _ & Hp). exact (Hp Ht).
Qed.
