(* Concrete executions of the World model (evaluated by the kernel's VM):
   - a non-vacuity run with two elections, a crash and acknowledged writes;
   - O-22: an acknowledged write is lost across a node swap;
   - the "figure 8" schedule: an old-term entry is served by a leader (committed by counting copies)
     and later overwritten. *)
From Coq Require Import List Arith Bool.
From Oxia.Cluster Require Import Model.
Import ListNotations.

(* what a leader serves to readers: the applied prefix of its log *)
Definition read_view (w : world) (n : nat) : list entry :=
  firstn (ncommit (nodes w n)) (nlog (nodes w n)).
Definition serves (w : world) (n : nat) : bool := status_eqb (nst (nodes w n)) Leader.

Definition e1 := mkE 1 10.
Definition e2 := mkE 2 20.
Definition e3 := mkE 3 30.

Definition term1_commit_e1 : list action :=
  [NewElection; NewTerm 1 1; NewTerm 2 1; NewTerm 3 1;
   Elect 1 [(1, []); (2, []); (3, [])] []; BecomeLeader 1; Attach 1 2 []; Attach 1 3 [];
   FinishBecomeLeader 1; ClientWrite 1 10;
   SendAppend 1 2 0; RecvAppend 2 1 0 e1; SendAppend 1 3 0; RecvAppend 3 1 0 e1;
   RecvAck 1 2 0; AckClient 1 0].

(* non-vacuity: crash of the leader, second election, the acknowledged write is there *)
Definition good_run : list action :=
  term1_commit_e1 ++
  [Crash 1; NewElection; NewTerm 2 2; NewTerm 3 2; Elect 2 [(2, [e1]); (3, [e1])] [];
   BecomeLeader 2; Attach 2 3 [e1]; FinishBecomeLeader 2; ClientWrite 2 21;
   SendAppend 2 3 1; RecvAppend 3 2 1 (mkE 2 21); RecvAck 2 3 1; AckClient 2 1;
   NewTerm 1 2].

Lemma good_run_ok :
  exists w, run (init [1; 2; 3]) good_run = Some w /\
            length (cacked w) = 2 /\ acked_survive_b w [1; 2; 3] = true /\
            serves w 2 = true /\ read_view w 2 = [e1; mkE 2 21].
Proof. eexists. split; [vm_compute; reflexivity|]. vm_compute. repeat split; reflexivity. Qed.

(* O-22: swap 3 -> 4 while the only copies of the acknowledged entry are on 2 (down) and 3 (being removed) *)
Definition swap_loses_ack : list action :=
  [NewElection; NewTerm 1 1; NewTerm 2 1; NewTerm 3 1;
   Elect 2 [(2, []); (3, [])] []; BecomeLeader 2; Attach 2 3 []; FinishBecomeLeader 2; ClientWrite 2 10;
   SendAppend 2 3 0; RecvAppend 3 1 0 e1; RecvAck 2 3 0; AckClient 2 0;
   Swap 3 4; NewTerm 1 2; NewTerm 3 2; NewTerm 4 2;
   Elect 1 [(1, []); (4, [])] [3]; BecomeLeader 1; Attach 1 4 []; FinishBecomeLeader 1; DeleteRemoved].

Lemma swap_loses_ack_refutes :
  exists w, run (init [1; 2; 3]) swap_loses_ack = Some w /\
            In (1, 0, e1) (cacked w) /\ serves w 1 = true /\ nterm (nodes w 1) = 2 /\
            nlog (nodes w 1) = [] /\ acked_survive_b w [1; 2; 3; 4] = false.
Proof. eexists. split; [vm_compute; reflexivity|]. vm_compute. repeat split; auto. Qed.

(* figure 8: e2 (term 2) is only on node 1; node 2 leads term 3 and writes e3 locally; node 1 leads term 4,
   re-replicates e2 to node 3, the commit offset covers e2 and node 1 serves it; then node 2 (head term 3)
   wins term 5 and node 3 is truncated: e2 was served and is gone. *)
Definition figure8_prefix : list action :=
  term1_commit_e1 ++
  [RecvAck 1 3 0;
   (* term 2: leader 1 again, writes e2 locally only *)
   NewElection; NewTerm 1 2; NewTerm 2 2; NewTerm 3 2;
   Elect 1 [(1, [e1]); (2, [e1]); (3, [e1])] []; BecomeLeader 1; Attach 1 2 [e1]; FinishBecomeLeader 1;
   ClientWrite 1 20;
   (* term 3: 1 is unreachable; 2 leads, writes e3 locally only *)
   NewElection; NewTerm 2 3; NewTerm 3 3; Elect 2 [(2, [e1]); (3, [e1])] [];
   BecomeLeader 2; Attach 2 3 [e1]; FinishBecomeLeader 2; ClientWrite 2 30;
   (* term 4: 2 is unreachable; 1 (head term 2) leads, re-replicates e2 to 3 *)
   NewElection; NewTerm 1 4; NewTerm 3 4; Elect 1 [(1, [e1; e2]); (3, [e1])] [];
   BecomeLeader 1; Attach 1 3 [e1]; SendAppend 1 3 1; RecvAppend 3 4 1 e2; RecvAck 1 3 1;
   FinishBecomeLeader 1].
Definition figure8_suffix : list action :=
  [(* term 5: 1 is unreachable; 2 (head term 3) beats 3 (head term 2); 3 is truncated *)
   NewElection; NewTerm 2 5; NewTerm 3 5; Elect 2 [(2, [e1; e3]); (3, [e1; e2])] [];
   BecomeLeader 2; Attach 2 3 [e1; e2]; SendAppend 2 3 1; RecvAppend 3 5 1 e3; RecvAck 2 3 1;
   FinishBecomeLeader 2].

Lemma figure8_served_then_rolled_back :
  exists w4 w5,
    run (init [1; 2; 3]) figure8_prefix = Some w4 /\ run w4 figure8_suffix = Some w5 /\
    (* in term 4 node 1 serves e2 to readers, although no client was ever told that e2 succeeded *)
    serves w4 1 = true /\ read_view w4 1 = [e1; e2] /\ cacked w4 = [(1, 0, e1)] /\
    (* in term 5 the serving leader 2 and the follower 3 hold e3 at that offset: e2 was rolled back *)
    serves w5 2 = true /\ read_view w5 2 = [e1; e3] /\ nlog (nodes w5 3) = [e1; e3] /\
    acked_survive_b w5 [1; 2; 3] = true.
Proof.
  eexists. eexists. split; [vm_compute; reflexivity|]. split; [vm_compute; reflexivity|].
  vm_compute. repeat split; reflexivity.
Qed.
