(* Group B: log well-formedness. Preservation of I_wf_nodes, I_wf_resps, I_wf_tlog by [step],
   plus the auxiliary invariants J_term_bound / J_resp_bound (a node / a response only holds entries of
   terms up to its own term). *)
From Coq Require Import List Arith Bool PeanoNat Lia.
From Oxia.Cluster Require Import Model Invariants StepFacts Safety.
Import ListNotations.

(* ---------- general list / prefix facts (reusable) ---------- *)
Lemma nth_error_lt_len {A} (l : list A) i e : nth_error l i = Some e -> i < length l.
Proof. intros H. apply nth_error_Some. congruence. Qed.

Lemma firstn_app_le {A} k (a r : list A) : k <= length a -> firstn k (a ++ r) = firstn k a.
Proof. intros H. rewrite firstn_app. replace (k - length a) with 0 by lia. cbn. apply app_nil_r. Qed.

Lemma pfx_app_l k a r b : k <= length a -> pfx k a b -> pfx k (a ++ r) b.
Proof. unfold pfx. intros Hk H. rewrite firstn_app_le by exact Hk. exact H. Qed.

Lemma is_prefix_refl a : is_prefix a a.
Proof. exists []. symmetry. apply app_nil_r. Qed.

Lemma is_prefix_firstn m l : is_prefix (firstn m l) l.
Proof. exists (skipn m l). symmetry. apply firstn_skipn. Qed.

Lemma is_prefix_In a b e : is_prefix a b -> In e a -> In e b.
Proof. intros [r ->] H. apply in_or_app. left. exact H. Qed.

Lemma truncate_from_firstn i l tk k : exists m, truncate_from i l tk k = firstn m l.
Proof.
  revert i. induction l as [|e l IH]; intros i; cbn [truncate_from].
  - exists 0. reflexivity.
  - destruct ((eterm e <? tk) || ((eterm e =? tk) && (S i <=? k))).
    + destruct (IH (S i)) as [m Hm]. exists (S m). cbn [firstn]. rewrite Hm. reflexivity.
    + exists 0. reflexivity.
Qed.

Lemma truncate_to_firstn l tk k : exists m, truncate_to l tk k = firstn m l.
Proof. apply truncate_from_firstn. Qed.

Lemma is_prefix_truncate_to l tk k : is_prefix (truncate_to l tk k) l.
Proof. destruct (truncate_to_firstn l tk k) as [m ->]. apply is_prefix_firstn. Qed.

Lemma is_prefix_trans a b c : is_prefix a b -> is_prefix b c -> is_prefix a c.
Proof. intros [r ->] [r' ->]. exists (r ++ r'). rewrite app_assoc. reflexivity. Qed.

(* the repeated truncation of Attach (attach_loop) also yields a prefix *)
Lemma attach_loop_firstn fuel llog lh flog newlog :
  attach_loop fuel llog lh flog = Some newlog -> exists m, newlog = firstn m flog.
Proof.
  revert flog. induction fuel as [|fu IH]; intros flog H; cbn [attach_loop] in H; [discriminate|].
  destruct (attach_decide llog lh (lhead flog)) as [start|tk k|].
  - inversion H; subst newlog. exists (length flog). symmetry. apply firstn_all.
  - destruct (IH _ H) as [m Hm]. destruct (truncate_to_firstn flog tk k) as [m' Hm'].
    rewrite Hm' in Hm. rewrite firstn_firstn in Hm. exists (Nat.min m m'). exact Hm.
  - discriminate.
Qed.

Lemma is_prefix_attach_loop fuel llog lh flog newlog :
  attach_loop fuel llog lh flog = Some newlog -> is_prefix newlog flog.
Proof. intros H. destruct (attach_loop_firstn _ _ _ _ _ H) as [m ->]. apply is_prefix_firstn. Qed.

Lemma is_prefix_snoc a b e : is_prefix a b -> nth_error b (length a) = Some e -> is_prefix (a ++ [e]) b.
Proof.
  intros [r ->] H. rewrite nth_error_app2 in H by lia. rewrite Nat.sub_diag in H.
  destruct r as [|x r]; [discriminate|]. cbn in H. inversion H; subst x.
  exists r. rewrite <- app_assoc. reflexivity.
Qed.

(* ---------- sorted ---------- *)
Lemma sorted_prefix a b : is_prefix a b -> sorted b -> sorted a.
Proof.
  intros [r ->] Hs i j ei ej Hij Hi Hj. apply (Hs i j ei ej Hij).
  - rewrite nth_error_app1 by (eapply nth_error_lt_len; exact Hi). exact Hi.
  - rewrite nth_error_app1 by (eapply nth_error_lt_len; exact Hj). exact Hj.
Qed.

Lemma sorted_snoc l e : sorted l -> (forall x, In x l -> eterm x <= eterm e) -> sorted (l ++ [e]).
Proof.
  intros Hs Hle i j ei ej Hij Hi Hj.
  destruct (Nat.lt_ge_cases j (length l)) as [Hjl|Hjl].
  - rewrite nth_error_app1 in Hi by lia. rewrite nth_error_app1 in Hj by lia. exact (Hs i j ei ej Hij Hi Hj).
  - assert (Hjlt : j < length (l ++ [e])) by (eapply nth_error_lt_len; exact Hj).
    rewrite app_length in Hjlt; cbn in Hjlt. assert (j = length l) by lia. subst j.
    rewrite nth_error_app2 in Hj by lia. rewrite Nat.sub_diag in Hj. cbn in Hj. inversion Hj; subst ej.
    destruct (Nat.lt_ge_cases i (length l)) as [Hil|Hil].
    + rewrite nth_error_app1 in Hi by lia. apply Hle. eapply nth_error_In; exact Hi.
    + assert (i = length l) by lia. subst i.
      rewrite nth_error_app2 in Hi by lia. rewrite Nat.sub_diag in Hi. cbn in Hi. inversion Hi. lia.
Qed.

(* ---------- wf_log: stability under growth of elog / tlog ---------- *)
(* [log_ext w w']: every elected term stays elected and its leader log only grows by appending *)
Definition log_ext (w w' : world) : Prop :=
  forall t, elog w t <> None -> elog w' t <> None /\ exists rest, tlog w' t = tlog w t ++ rest.

Lemma ext_same w w' : elog w' = elog w -> tlog w' = tlog w -> log_ext w w'.
Proof.
  intros He Ht t H. rewrite He, Ht. split; [exact H|]. exists []. symmetry. apply app_nil_r.
Qed.

(* (a) BecomeLeader: a fresh term gets its log *)
Lemma ext_become w w' t lg :
  elog w t = None -> elog w' = upd (elog w) t (Some lg) -> tlog w' = upd (tlog w) t lg -> log_ext w w'.
Proof.
  intros Hn He Ht t0 H. assert (Hne : t0 <> t) by congruence.
  rewrite He, Ht, !upd_other by exact Hne. split; [exact H|]. exists []. symmetry. apply app_nil_r.
Qed.

(* (b) ClientWrite: the log of one term grows by one entry *)
Lemma ext_write w w' t e :
  elog w' = elog w -> tlog w' = upd (tlog w) t (tlog w t ++ [e]) -> log_ext w w'.
Proof.
  intros He Ht t0 H. rewrite He, Ht. split; [exact H|].
  destruct (Nat.eq_dec t0 t) as [->|Hne].
  - rewrite upd_same. exists [e]. reflexivity.
  - rewrite upd_other by exact Hne. exists []. symmetry. apply app_nil_r.
Qed.

Lemma wf_log_ext w w' l : log_ext w w' -> wf_log w l -> wf_log w' l.
Proof.
  intros Hx [Hs Hw]. split; [exact Hs|]. intros i e Hn.
  destruct (Hw i e Hn) as (H1 & H2 & H3). destruct (Hx _ H2) as (H4 & rest & H5).
  split; [exact H1|]. split; [exact H4|]. rewrite H5.
  apply pfx_app_r; [exact H3|]. apply (pfx_len_r _ l); [exact H3|].
  apply nth_error_lt_len in Hn. lia.
Qed.

(* a prefix of a well-formed log is well formed *)
Lemma wf_log_prefix w a b : is_prefix a b -> wf_log w b -> wf_log w a.
Proof.
  intros Hp [Hs Hw]. split; [eapply sorted_prefix; eauto|].
  destruct Hp as [r ->]. intros i e Hi.
  assert (Hlt : i < length a) by (eapply nth_error_lt_len; exact Hi).
  destruct (Hw i e) as (H1 & H2 & H3).
  { rewrite nth_error_app1 by exact Hlt. exact Hi. }
  split; [exact H1|]. split; [exact H2|].
  unfold pfx in *. rewrite firstn_app_le in H3 by lia. exact H3.
Qed.

Lemma wf_log_firstn w m l : wf_log w l -> wf_log w (firstn m l).
Proof. apply wf_log_prefix. apply is_prefix_firstn. Qed.

Lemma wf_log_truncate_to w l tk k : wf_log w l -> wf_log w (truncate_to l tk k).
Proof. apply wf_log_prefix. apply is_prefix_truncate_to. Qed.

Lemma wf_log_attach_loop w fuel llog lh flog newlog :
  attach_loop fuel llog lh flog = Some newlog -> wf_log w flog -> wf_log w newlog.
Proof. intros H. apply wf_log_prefix. eapply is_prefix_attach_loop; exact H. Qed.

(* appending an entry whose term dominates the log and which sits on the log of its term *)
Lemma wf_log_snoc w l e :
  wf_log w l -> (forall x, In x l -> eterm x <= eterm e) -> 1 <= eterm e -> elog w (eterm e) <> None ->
  pfx (S (length l)) (l ++ [e]) (tlog w (eterm e)) -> wf_log w (l ++ [e]).
Proof.
  intros [Hs Hw] Hle H1 H2 H3. split; [apply sorted_snoc; assumption|].
  intros i x Hi.
  destruct (Nat.lt_ge_cases i (length l)) as [Hil|Hil].
  - rewrite nth_error_app1 in Hi by lia. destruct (Hw i x Hi) as (A & B & C).
    split; [exact A|]. split; [exact B|]. apply pfx_app_l; [lia | exact C].
  - assert (Hlt : i < length (l ++ [e])) by (eapply nth_error_lt_len; exact Hi).
    rewrite app_length in Hlt; cbn in Hlt. assert (i = length l) by lia. subst i.
    rewrite nth_error_app2 in Hi by lia. rewrite Nat.sub_diag in Hi. cbn in Hi. inversion Hi; subst x.
    auto.
Qed.

(* leader case: the log is tlog t and both grow together *)
Lemma wf_log_snoc_leader w w' t e :
  log_ext w w' -> wf_log w (tlog w t) -> (forall x, In x (tlog w t) -> eterm x <= t) ->
  eterm e = t -> 1 <= t -> elog w' t <> None -> tlog w' t = tlog w t ++ [e] ->
  wf_log w' (tlog w t ++ [e]).
Proof.
  intros Hx Hwf Hle He H1 Hel Htl. subst t. apply wf_log_snoc.
  - apply (wf_log_ext w); assumption.
  - exact Hle.
  - exact H1.
  - exact Hel.
  - rewrite Htl. reflexivity.
Qed.

(* follower case: the log is a prefix of tlog t and the new entry is the next one of tlog t *)
Lemma wf_log_snoc_follower w l t e :
  wf_log w (tlog w t) -> is_prefix l (tlog w t) -> nth_error (tlog w t) (length l) = Some e ->
  wf_log w (l ++ [e]).
Proof.
  intros Hwf Hp Hn. apply (wf_log_prefix w _ (tlog w t)); [|exact Hwf].
  apply is_prefix_snoc; assumption.
Qed.

Lemma wf_log_In w l e : wf_log w l -> In e l -> 1 <= eterm e /\ elog w (eterm e) <> None.
Proof.
  intros [_ Hw] Hin. apply In_nth_error in Hin. destruct Hin as [i Hi].
  destruct (Hw i e Hi) as (A & B & _). auto.
Qed.

(* ---------- how [step] changes elog / tlog ---------- *)
Lemma step_elog_tlog E w a w' : Inv E w -> is_swap a = false -> step w a = Some w' ->
  (elog w' = elog w /\ tlog w' = tlog w) \/
  (exists l, a = BecomeLeader l /\
     elog w (nterm (nodes w l)) = None /\
     elog w' = upd (elog w) (nterm (nodes w l)) (Some (nlog (nodes w l))) /\
     tlog w' = upd (tlog w) (nterm (nodes w l)) (nlog (nodes w l))) \/
  (exists l v, a = ClientWrite l v /\
     1 <= nterm (nodes w l) /\ elog w (nterm (nodes w l)) <> None /\
     elog w' = elog w /\
     tlog w' = upd (tlog w) (nterm (nodes w l))
                   (tlog w (nterm (nodes w l)) ++ [mkE (nterm (nodes w l)) v])).
Proof.
  intros HI Hns Hstep.
  destruct a as [|n t|l cands rrs|l|l f flog|l|l v|l f o|f t o e|l f o|l o|f l c|n|fr to|];
    cbn in Hns; try discriminate Hns.
  - apply step_NewElection in Hstep. subst w'. left. split; reflexivity.
  - apply step_NewTerm in Hstep. cbv zeta in Hstep. destruct Hstep as (_ & _ & _ & ->).
    left. split; reflexivity.
  - apply step_Elect in Hstep. cbv zeta in Hstep.
    destruct Hstep as (llog & _ & _ & _ & _ & _ & _ & _ & _ & _ & _ & ->). left. split; reflexivity.
  - apply step_BecomeLeader in Hstep. cbv zeta in Hstep. destruct Hstep as (_ & _ & _ & Hnone & ->).
    right. left. exists l. split; [reflexivity|]. split; [exact Hnone|]. split; reflexivity.
  - apply step_Attach in Hstep. cbv zeta in Hstep.
    destruct Hstep as (_ & _ & _ & _ & _ & _ & [(start & _ & ->) | (tk & k & _ & _ & _ & _ & newlog & _ & ->)]);
      left; split; reflexivity.
  - apply step_FinishBecomeLeader in Hstep. cbv zeta in Hstep. destruct Hstep as (_ & _ & ->).
    left. split; reflexivity.
  - apply step_ClientWrite in Hstep. cbv zeta in Hstep. destruct Hstep as (Hst & ->).
    pose proof (inv_leading _ _ HI l (or_intror Hst)) as HL. cbv zeta in HL.
    destruct HL as (Hel & Hlog & _ & (lg & Hlg & _) & _).
    apply is_elected_In in Hel. destruct Hel as (c & Hin).
    destruct (inv_terms _ _ HI) as (_ & _ & Hte & _). destruct (Hte _ _ _ Hin) as (H1 & _).
    right. right. exists l, v. split; [reflexivity|]. split; [exact H1|]. split; [congruence|].
    split; [reflexivity|]. cbn [tlog]. rewrite <- Hlog. reflexivity.
  - apply step_SendAppend in Hstep. cbv zeta in Hstep. destruct Hstep as (_ & _ & e & _ & ->).
    left. split; reflexivity.
  - apply step_RecvAppend in Hstep. cbv zeta in Hstep.
    destruct Hstep as (_ & _ & _ & _ & [(_ & ->) | (_ & ->)]); left; split; reflexivity.
  - apply step_RecvAck in Hstep. cbv zeta in Hstep. destruct Hstep as (_ & _ & _ & _ & ->).
    left. split; reflexivity.
  - apply step_AckClient in Hstep. cbv zeta in Hstep. destruct Hstep as (e & _ & _ & _ & _ & _ & ->).
    left. split; reflexivity.
  - apply step_LearnCommit in Hstep. cbv zeta in Hstep. destruct Hstep as (_ & _ & _ & _ & ->).
    left. split; reflexivity.
  - apply step_Crash in Hstep. cbv zeta in Hstep. subst w'. left. split; reflexivity.
Qed.

Lemma step_ext E w a w' : Inv E w -> is_swap a = false -> step w a = Some w' -> log_ext w w'.
Proof.
  intros HI Hns Hstep.
  destruct (step_elog_tlog E w a w' HI Hns Hstep)
    as [(He & Ht) | [(l & _ & Hnone & He & Ht) | (l & v & _ & _ & _ & He & Ht)]].
  - apply ext_same; assumption.
  - eapply ext_become; eassumption.
  - eapply ext_write; eassumption.
Qed.

(* ---------- how [step] changes resps ---------- *)
Lemma step_resps w a w' : is_swap a = false -> step w a = Some w' ->
  resps w' = resps w \/
  exists n t, nterm (nodes w n) <= t /\ resps w' = (n, t, nlog (nodes w n)) :: resps w.
Proof.
  intros Hns Hstep.
  destruct a as [|n t|l cands rrs|l|l f flog|l|l v|l f o|f t o e|l f o|l o|f l c|n|fr to|];
    cbn in Hns; try discriminate Hns.
  - apply step_NewElection in Hstep. subst w'. left. reflexivity.
  - apply step_NewTerm in Hstep. cbv zeta in Hstep. destruct Hstep as (_ & _ & Hlt & ->).
    right. exists n, t. split; [|reflexivity]. destruct Hlt as [Hlt|(Hlt & _)]; lia.
  - apply step_Elect in Hstep. cbv zeta in Hstep.
    destruct Hstep as (llog & _ & _ & _ & _ & _ & _ & _ & _ & _ & _ & ->). left. reflexivity.
  - apply step_BecomeLeader in Hstep. cbv zeta in Hstep. destruct Hstep as (_ & _ & _ & _ & ->).
    left. reflexivity.
  - apply step_Attach in Hstep. cbv zeta in Hstep.
    destruct Hstep as (_ & _ & _ & _ & _ & _ & [(start & _ & ->) | (tk & k & _ & _ & _ & _ & newlog & _ & ->)]);
      left; reflexivity.
  - apply step_FinishBecomeLeader in Hstep. cbv zeta in Hstep. destruct Hstep as (_ & _ & ->).
    left. reflexivity.
  - apply step_ClientWrite in Hstep. cbv zeta in Hstep. destruct Hstep as (_ & ->). left. reflexivity.
  - apply step_SendAppend in Hstep. cbv zeta in Hstep. destruct Hstep as (_ & _ & e & _ & ->).
    left. reflexivity.
  - apply step_RecvAppend in Hstep. cbv zeta in Hstep.
    destruct Hstep as (_ & _ & _ & _ & [(_ & ->) | (_ & ->)]); left; reflexivity.
  - apply step_RecvAck in Hstep. cbv zeta in Hstep. destruct Hstep as (_ & _ & _ & _ & ->).
    left. reflexivity.
  - apply step_AckClient in Hstep. cbv zeta in Hstep. destruct Hstep as (e & _ & _ & _ & _ & _ & ->).
    left. reflexivity.
  - apply step_LearnCommit in Hstep. cbv zeta in Hstep. destruct Hstep as (_ & _ & _ & _ & ->).
    left. reflexivity.
  - apply step_Crash in Hstep. cbv zeta in Hstep. subst w'. left. reflexivity.
Qed.

(* ---------- how [step] changes the term and the log of a node ---------- *)
(* the log of a node is kept, cut to a prefix, or extended by one entry of tlog (nterm) *)
Lemma step_node E w a w' : Inv E w -> is_swap a = false -> step w a = Some w' ->
  forall n,
    nterm (nodes w n) <= nterm (nodes w' n) /\
    (is_prefix (nlog (nodes w' n)) (nlog (nodes w n)) \/
     exists e, nlog (nodes w' n) = nlog (nodes w n) ++ [e] /\
       is_prefix (nlog (nodes w' n)) (tlog w' (nterm (nodes w' n)))).
Proof.
  intros HI Hns Hstep.
  assert (Hsame : forall n, nterm (nodes w n) <= nterm (nodes w n) /\
            (is_prefix (nlog (nodes w n)) (nlog (nodes w n)) \/
             exists e, nlog (nodes w n) = nlog (nodes w n) ++ [e] /\
               is_prefix (nlog (nodes w n)) (tlog w (nterm (nodes w n))))).
  { intros n. split; [lia|]. left. apply is_prefix_refl. }
  destruct a as [|n t|l cands rrs|l|l f flog|l|l v|l f o|f t o e|l f o|l o|f l c|n|fr to|];
    cbn in Hns; try discriminate Hns.
  - apply step_NewElection in Hstep. subst w'. exact Hsame.
  - apply step_NewTerm in Hstep. cbv zeta in Hstep. destruct Hstep as (_ & _ & Hlt & ->).
    intros n0. cbn [nodes]. destruct (Nat.eq_dec n0 n) as [->|Hne].
    + rewrite upd_same. cbn [nterm nlog]. split; [destruct Hlt as [Hlt|(Hlt & _)]; lia|].
      left. apply is_prefix_refl.
    + rewrite upd_other by exact Hne. split; [lia|]. left. apply is_prefix_refl.
  - apply step_Elect in Hstep. cbv zeta in Hstep.
    destruct Hstep as (llog & _ & _ & _ & _ & _ & _ & _ & _ & _ & _ & ->). exact Hsame.
  - apply step_BecomeLeader in Hstep. cbv zeta in Hstep. destruct Hstep as (_ & _ & _ & _ & ->).
    intros n0. cbn [nodes]. destruct (Nat.eq_dec n0 l) as [->|Hne].
    + rewrite upd_same. cbn [nterm nlog]. split; [lia|]. left. apply is_prefix_refl.
    + rewrite upd_other by exact Hne. split; [lia|]. left. apply is_prefix_refl.
  - apply step_Attach in Hstep. cbv zeta in Hstep.
    destruct Hstep as (_ & _ & _ & _ & _ & _ & [(start & _ & ->) | (tk & k & _ & Htf & _ & _ & newlog & Hloop & ->)]).
    + intros n0. cbn [nodes]. destruct (Nat.eq_dec n0 l) as [->|Hne].
      * rewrite upd_same. cbn [nterm nlog]. split; [lia|]. left. apply is_prefix_refl.
      * rewrite upd_other by exact Hne. split; [lia|]. left. apply is_prefix_refl.
    + intros n0. cbn [nodes]. destruct (Nat.eq_dec n0 l) as [->|Hne].
      * rewrite upd_same. cbn [nterm nlog]. split; [lia|]. left. apply is_prefix_refl.
      * rewrite upd_other by exact Hne. destruct (Nat.eq_dec n0 f) as [->|Hnf].
        -- rewrite upd_same. cbn [nterm nlog]. split; [lia|]. left.
           apply (is_prefix_trans _ (truncate_to (nlog (nodes w f)) tk k)).
           ++ eapply is_prefix_attach_loop; exact Hloop.
           ++ apply is_prefix_truncate_to.
        -- rewrite upd_other by exact Hnf. split; [lia|]. left. apply is_prefix_refl.
  - apply step_FinishBecomeLeader in Hstep. cbv zeta in Hstep. destruct Hstep as (_ & _ & ->).
    unfold set_node. intros n0. cbn [nodes]. destruct (Nat.eq_dec n0 l) as [->|Hne].
    + rewrite upd_same. cbn [nterm nlog]. split; [lia|]. left. apply is_prefix_refl.
    + rewrite upd_other by exact Hne. split; [lia|]. left. apply is_prefix_refl.
  - apply step_ClientWrite in Hstep. cbv zeta in Hstep. destruct Hstep as (Hst & ->).
    pose proof (inv_leading _ _ HI l (or_intror Hst)) as HL. cbv zeta in HL.
    destruct HL as (_ & Hlog & _).
    intros n0. cbn [nodes tlog]. destruct (Nat.eq_dec n0 l) as [->|Hne].
    + rewrite upd_same. cbn [nterm nlog]. split; [lia|]. right.
      exists (mkE (nterm (nodes w l)) v). split; [reflexivity|].
      rewrite upd_same. apply is_prefix_refl.
    + rewrite upd_other by exact Hne. split; [lia|]. left. apply is_prefix_refl.
  - apply step_SendAppend in Hstep. cbv zeta in Hstep. destruct Hstep as (_ & _ & e & _ & ->).
    exact Hsame.
  - apply step_RecvAppend in Hstep. cbv zeta in Hstep.
    destruct Hstep as (Happ & Hterm & _ & _ & [(_ & ->) | (Ho & ->)]).
    + intros n0. cbn [nodes]. destruct (Nat.eq_dec n0 f) as [->|Hne].
      * rewrite upd_same. cbn [nterm nlog]. split; [lia|]. left. apply is_prefix_refl.
      * rewrite upd_other by exact Hne. split; [lia|]. left. apply is_prefix_refl.
    + intros n0. cbn [nodes tlog]. destruct (Nat.eq_dec n0 f) as [->|Hne].
      * rewrite upd_same. cbn [nterm nlog]. split; [lia|]. right.
        destruct (inv_att _ _ HI) as (_ & Hpre & Happs & _).
        destruct (Happs _ _ _ _ Happ) as (Hatt & Hnth).
        pose proof (Hpre _ _ Hatt Hterm) as Hp. subst o.
        exists e. split; [reflexivity|]. apply is_prefix_snoc; assumption.
      * rewrite upd_other by exact Hne. split; [lia|]. left. apply is_prefix_refl.
  - apply step_RecvAck in Hstep. cbv zeta in Hstep. destruct Hstep as (_ & _ & _ & _ & ->).
    unfold set_node. intros n0. cbn [nodes]. destruct (Nat.eq_dec n0 l) as [->|Hne].
    + rewrite upd_same. cbn [nterm nlog]. split; [lia|]. left. apply is_prefix_refl.
    + rewrite upd_other by exact Hne. split; [lia|]. left. apply is_prefix_refl.
  - apply step_AckClient in Hstep. cbv zeta in Hstep. destruct Hstep as (e & _ & _ & _ & _ & _ & ->).
    exact Hsame.
  - apply step_LearnCommit in Hstep. cbv zeta in Hstep. destruct Hstep as (_ & _ & _ & _ & ->).
    unfold set_node. intros n0. cbn [nodes]. destruct (Nat.eq_dec n0 f) as [->|Hne].
    + rewrite upd_same. cbn [nterm nlog]. split; [lia|]. left. apply is_prefix_refl.
    + rewrite upd_other by exact Hne. split; [lia|]. left. apply is_prefix_refl.
  - apply step_Crash in Hstep. cbv zeta in Hstep. subst w'.
    unfold set_node. intros n0. cbn [nodes]. destruct (Nat.eq_dec n0 n) as [->|Hne].
    + rewrite upd_same. cbn [nterm nlog]. split; [lia|]. left. apply is_prefix_refl.
    + rewrite upd_other by exact Hne. split; [lia|]. left. apply is_prefix_refl.
Qed.

(* ---------- auxiliary invariants: a node / a response only holds entries of terms up to its own ---------- *)
Definition J_term_bound (w : world) : Prop :=
  forall n e, In e (nlog (nodes w n)) -> eterm e <= nterm (nodes w n).
Definition J_resp_bound (w : world) : Prop :=
  forall n t l, In (n, t, l) (resps w) -> forall e, In e l -> eterm e <= t.

(* ---------- I_wf_tlog ---------- *)
(* the first component does not need the auxiliary invariant *)
Lemma step_wf_tlog E w a w' : Inv E w -> is_swap a = false -> step w a = Some w' ->
  forall t, wf_log w' (tlog w' t).
Proof.
  intros HI Hns Hstep t0.
  pose proof (step_ext E w a w' HI Hns Hstep) as Hext.
  pose proof (inv_wf_tlog _ _ HI) as Htl.
  destruct (step_elog_tlog E w a w' HI Hns Hstep)
    as [(He & Ht) | [(l & _ & Hnone & He & Ht) | (l & v & _ & H1 & Hel & He & Ht)]].
  - rewrite Ht. apply (wf_log_ext w); [exact Hext | apply Htl].
  - rewrite Ht. destruct (Nat.eq_dec t0 (nterm (nodes w l))) as [->|Hne].
    + rewrite upd_same. apply (wf_log_ext w); [exact Hext | apply (inv_wf_nodes _ _ HI)].
    + rewrite upd_other by exact Hne. apply (wf_log_ext w); [exact Hext | apply Htl].
  - rewrite Ht. destruct (Nat.eq_dec t0 (nterm (nodes w l))) as [->|Hne].
    + rewrite upd_same. destruct (Htl (nterm (nodes w l))) as (A & B & _).
      apply (wf_log_snoc_leader w w' (nterm (nodes w l))).
      * exact Hext.
      * exact A.
      * exact B.
      * reflexivity.
      * exact H1.
      * rewrite He. exact Hel.
      * rewrite Ht, upd_same. reflexivity.
    + rewrite upd_other by exact Hne. apply (wf_log_ext w); [exact Hext | apply Htl].
Qed.

Lemma pres_I_wf_tlog E w a w' :
  Inv E w -> J_term_bound w -> is_swap a = false -> step w a = Some w' -> I_wf_tlog w'.
Proof.
  intros HI HJ Hns Hstep t0.
  split; [eapply step_wf_tlog; eassumption|].
  pose proof (inv_wf_tlog _ _ HI) as Htl.
  destruct (step_elog_tlog E w a w' HI Hns Hstep)
    as [(He & Ht) | [(l & _ & Hnone & He & Ht) | (l & v & _ & H1 & Hel & He & Ht)]].
  - rewrite He, Ht. destruct (Htl t0) as (_ & B). exact B.
  - set (t := nterm (nodes w l)) in *. rewrite He, Ht.
    destruct (Nat.eq_dec t0 t) as [->|Hne].
    + rewrite !upd_same. split; [|split].
      * intros e Hin. apply HJ. exact Hin.
      * discriminate.
      * intros lg Hlg. inversion Hlg; subst lg. split.
        -- intros e Hin. pose proof (HJ l e Hin) as Hle. fold t in Hle.
           destruct (wf_log_In w _ e (inv_wf_nodes _ _ HI l) Hin) as (_ & Hel).
           assert (eterm e <> t) by congruence. lia.
        -- exists []. rewrite app_nil_r. split; [reflexivity|]. intros e [].
    + rewrite !upd_other by exact Hne. destruct (Htl t0) as (_ & B). exact B.
  - set (t := nterm (nodes w l)) in *. rewrite He, Ht.
    destruct (Nat.eq_dec t0 t) as [->|Hne].
    + rewrite upd_same. destruct (Htl t) as (_ & B & C & D). split; [|split].
      * intros e Hin. apply in_app_or in Hin. destruct Hin as [Hin|[<-|[]]]; [apply B; exact Hin | cbn; lia].
      * intros Hn. contradiction.
      * intros lg Hlg. destruct (D lg Hlg) as (D1 & rest & D2 & D3). split; [exact D1|].
        exists (rest ++ [mkE t v]). split; [rewrite D2, app_assoc; reflexivity|].
        intros e Hin. apply in_app_or in Hin. destruct Hin as [Hin|[<-|[]]]; [apply D3; exact Hin | reflexivity].
    + rewrite upd_other by exact Hne. destruct (Htl t0) as (_ & B). exact B.
Qed.

(* ---------- I_wf_nodes ---------- *)
Lemma pres_I_wf_nodes E w a w' : Inv E w -> is_swap a = false -> step w a = Some w' -> I_wf_nodes w'.
Proof.
  intros HI Hns Hstep n.
  pose proof (step_ext E w a w' HI Hns Hstep) as Hext.
  destruct (step_node E w a w' HI Hns Hstep n) as (_ & [Hp | (x & _ & Hp)]).
  - apply (wf_log_prefix w' _ _ Hp). apply (wf_log_ext w); [exact Hext | apply (inv_wf_nodes _ _ HI)].
  - apply (wf_log_prefix w' _ _ Hp). eapply step_wf_tlog; eassumption.
Qed.

(* ---------- I_wf_resps ---------- *)
Lemma pres_I_wf_resps E w a w' : Inv E w -> is_swap a = false -> step w a = Some w' -> I_wf_resps w'.
Proof.
  intros HI Hns Hstep n t l Hin.
  pose proof (step_ext E w a w' HI Hns Hstep) as Hext.
  destruct (step_resps w a w' Hns Hstep) as [Hr | (n0 & t1 & _ & Hr)]; rewrite Hr in Hin.
  - apply (wf_log_ext w); [exact Hext | exact (inv_wf_resps _ _ HI _ _ _ Hin)].
  - destruct Hin as [Heq|Hin].
    + inversion Heq; subst. apply (wf_log_ext w); [exact Hext | apply (inv_wf_nodes _ _ HI)].
    + apply (wf_log_ext w); [exact Hext | exact (inv_wf_resps _ _ HI _ _ _ Hin)].
Qed.

(* ---------- J_term_bound, J_resp_bound ---------- *)
Lemma pres_J_term_bound E w a w' :
  Inv E w -> J_term_bound w -> is_swap a = false -> step w a = Some w' -> J_term_bound w'.
Proof.
  intros HI HJ Hns Hstep n e Hin.
  destruct (step_node E w a w' HI Hns Hstep n) as (Hle & [Hp | (x & _ & Hp)]).
  - pose proof (HJ n e (is_prefix_In _ _ _ Hp Hin)). lia.
  - destruct (pres_I_wf_tlog E w a w' HI HJ Hns Hstep (nterm (nodes w' n))) as (_ & B & _).
    apply B. exact (is_prefix_In _ _ _ Hp Hin).
Qed.

Lemma pres_J_resp_bound E w a w' :
  Inv E w -> J_term_bound w -> J_resp_bound w -> is_swap a = false -> step w a = Some w' -> J_resp_bound w'.
Proof.
  intros HI HJ HR Hns Hstep n t l Hin e He.
  destruct (step_resps w a w' Hns Hstep) as [Hr | (n0 & t1 & Hle & Hr)]; rewrite Hr in Hin.
  - exact (HR _ _ _ Hin e He).
  - destruct Hin as [Heq|Hin].
    + inversion Heq; subst. pose proof (HJ _ _ He). lia.
    + exact (HR _ _ _ Hin e He).
Qed.

(* ---------- initial state ---------- *)
Lemma wf_log_nil w : wf_log w [].
Proof. split; [intros i j ei ej _ Hi|intros i e Hi]; destruct i; discriminate Hi. Qed.

Lemma init_I_wf_nodes E : NoDup E -> I_wf_nodes (init E).
Proof. intros _ n. apply wf_log_nil. Qed.

Lemma init_I_wf_resps E : NoDup E -> I_wf_resps (init E).
Proof. intros _ n t l []. Qed.

Lemma init_I_wf_tlog E : NoDup E -> I_wf_tlog (init E).
Proof.
  intros _ t. split; [apply wf_log_nil|]. split; [intros e []|]. split; [reflexivity|].
  intros lg Hlg. discriminate Hlg.
Qed.

Lemma init_J_term_bound E : NoDup E -> J_term_bound (init E).
Proof. intros _ n e []. Qed.

Lemma init_J_resp_bound E : NoDup E -> J_resp_bound (init E).
Proof. intros _ n t l []. Qed.
