(* The replication protocol of one shard as a labelled transition system ("World", DESIGN.md 5.0).

   Abstraction level: one action = one critical section of a controller (or one synchronous RPC whose
   handler runs under the callee's lock while the caller holds its own), messages are monotone ghost
   histories (a message once sent can be delivered any number of times, in any order, or never), logs
   are the DURABLE logs (append + sync are one action: the fixed write path appends under the controller
   lock and acknowledges only after sync; C03/C04 treat the unsynced tail at node level).
   Transcribed from server/leader_controller.go (NewTerm, BecomeLeader, addFollower,
   truncateFollowerIfNeeded, getHighestEntryOfTerm, write), server/follower_controller.go (NewTerm,
   Truncate, append), server/quorum_ack_tracker.go (commit rule rf/2), server/follower_cursor.go,
   coordinator/controllers/shard_controller.go (electLeader, newTermQuorum, selectNewLeader, swapNode).

   Offsets: entry i of a log has offset i; "prefix length" k corresponds to head offset k-1
   (Go's InvalidOffset -1 is the empty log). Terms start at 1; 0 is Go's InvalidTerm -1. *)
From Coq Require Import List Arith Bool PeanoNat.
Import ListNotations.

Record entry := mkE { eterm : nat; eval : nat }.
Definition entry_eqb (a b : entry) : bool := (eterm a =? eterm b) && (eval a =? eval b).

Inductive status := NotMember | Fenced | Follower | Leader.
Definition status_eqb (a b : status) : bool :=
  match a, b with
  | NotMember, NotMember | Fenced, Fenced | Follower, Follower | Leader, Leader => true
  | _, _ => false
  end.

Record nstate := mkN {
  nterm : nat;                 (* durable *)
  nst : status;
  nlog : list entry;           (* durable log *)
  nelect : bool;               (* BecomeLeader in progress (tracker + cursors exist, status still FENCED) *)
  nehead : nat;                (* length of the log when BecomeLeader started (leaderElectionHeadEntryId) *)
  nrf : nat;                   (* replication factor received in BecomeLeader *)
  ncommit : nat;               (* number of committed entries = commit offset + 1 *)
  nacked : list (nat * nat)    (* attached followers (cursors) with their acknowledged prefix length *)
}.

Definition node0 : nstate := mkN 0 NotMember [] false 0 0 0 [].

Record world := mkW {
  nodes : nat -> nstate;
  cterm : nat;                                        (* coordinator: durable shard term *)
  ens : list nat;                                     (* coordinator: ensemble *)
  removed : list nat;                                 (* coordinator: removed nodes still to be deleted *)
  (* ghost histories *)
  resps : list (nat * nat * list entry);              (* NewTerm responses: node, term, log at that time *)
  elected : list (nat * nat * list (nat * list entry)); (* term, leader, candidate responders with logs *)
  elog : nat -> option (list entry);                  (* log of the leader of a term when BecomeLeader ran *)
  tlog : nat -> list entry;                           (* log of the leader of a term, as it grows *)
  appends : list (nat * nat * nat * entry);           (* term, destination, offset, entry *)
  acks : list (nat * nat * nat);                      (* node, term, offset: the node stored tlog[0..offset] durably while in that term
                                                         (follower acks and the leader's own copy; the cursor's initial credit is not recorded) *)
  cacked : list (nat * nat * entry);                  (* writes acknowledged to clients: term, offset, entry *)
  cq : list (nat * nat * list nat);                   (* the quorum behind each client ack *)
  att : list (nat * nat)                              (* (term, follower) pairs ever attached by the leader of the term *)
}.

Definition upd {A} (f : nat -> A) (n : nat) (v : A) : nat -> A := fun m => if m =? n then v else f m.

Definition init (ensemble : list nat) : world :=
  mkW (fun _ => node0) 0 ensemble [] [] [] (fun _ => None) (fun _ => []) [] [] [] [] [].

(* ---- log helpers ---- *)
Definition last_term (l : list entry) : nat := eterm (last l (mkE 0 0)).
Definition lhead (l : list entry) : nat * nat := (last_term l, length l).
Definition head_le (a b : nat * nat) : bool :=
  (fst a <? fst b) || ((fst a =? fst b) && (snd a <=? snd b)).

(* follower Truncate (fixed behaviour, O-3): keep the longest prefix whose head entry id is <= (tk, k) *)
Fixpoint truncate_from (i : nat) (l : list entry) (tk k : nat) : list entry :=
  match l with
  | [] => []
  | e :: tl => if (eterm e <? tk) || ((eterm e =? tk) && (S i <=? k))
               then e :: truncate_from (S i) tl tk k else []
  end.
Definition truncate_to (l : list entry) (tk k : nat) : list entry := truncate_from 0 l tk k.

(* getHighestEntryOfTerm: prefix length of the leader log ending at the highest entry with term <= t *)
Fixpoint highest_le_from (i : nat) (l : list entry) (t : nat) (acc : nat * nat) : nat * nat :=
  match l with
  | [] => acc
  | e :: tl => highest_le_from (S i) tl t (if eterm e <=? t then (eterm e, S i) else acc)
  end.
Definition highest_le (l : list entry) (t : nat) : nat * nat := highest_le_from 0 l t (0, 0).

Inductive attach_decision := NoTruncate (start : nat) | TruncateTo (tk k : nat) | AttachError.

(* truncateFollowerIfNeeded: follower head fh, leader election head lh, current leader log *)
Definition attach_decide (llog : list entry) (lh fh : nat * nat) : attach_decision :=
  if (fst fh =? fst lh) && (snd fh <=? snd lh) then NoTruncate (snd fh)
  else if fst lh <? fst fh then AttachError
  else let '(tk, k) := highest_le llog (fst fh) in
       if (fst fh =? tk) && (snd fh <=? k) then NoTruncate (snd fh) else TruncateTo tk k.

(* The leader re-checks the head the follower reports after each Truncate and truncates again until the
   follower's head is an entry the leader also has (fixed behaviour, O-3b): one round is not enough, because
   entries of a term below [tk] can sit at any offset of the follower's log.  Every round removes at least
   one entry, so [S (length flog)] rounds suffice. *)
Fixpoint attach_loop (fuel : nat) (llog : list entry) (lh : nat * nat) (flog : list entry) : option (list entry) :=
  match fuel with
  | O => None
  | S fu =>
      match attach_decide llog lh (lhead flog) with
      | NoTruncate _ => Some flog
      | AttachError => None
      | TruncateTo tk k => attach_loop fu llog lh (truncate_to flog tk k)
      end
  end.

(* ---- quorum counting (quorum_ack_tracker: rf/2 follower acks) ---- *)
Definition count_ge (c : nat) (acked : list (nat * nat)) : nat :=
  length (filter (fun p => c <=? snd p) acked).
Fixpoint qprefix_upto (c : nat) (rf : nat) (acked : list (nat * nat)) : nat :=
  match c with
  | O => O
  | S c' => if rf / 2 <=? count_ge c acked then c else qprefix_upto c' rf acked
  end.
Definition qprefix (len rf : nat) (acked : list (nat * nat)) : nat := qprefix_upto len rf acked.

Fixpoint set_acked (f v : nat) (acked : list (nat * nat)) : list (nat * nat) :=
  match acked with
  | [] => []
  | (g, a) :: tl => if g =? f then (g, Nat.max a v) :: tl else (g, a) :: set_acked f v tl
  end.
Definition is_attached (f : nat) (acked : list (nat * nat)) : bool := existsb (fun p => fst p =? f) acked.

(* NewCursorAcker marks the entries up to the cursor's start as acknowledged by it: the commit offset can advance at attach time *)
Definition attach_commit (s : nstate) (acked' : list (nat * nat)) : nat :=
  Nat.max (ncommit s) (qprefix (length (nlog s)) (nrf s) acked').

Definition mem (n : nat) (l : list nat) : bool := existsb (Nat.eqb n) l.
Fixpoint nodupb (l : list nat) : bool :=
  match l with [] => true | x :: tl => negb (mem x tl) && nodupb tl end.

Definition list_entry_eqb (a b : list entry) : bool :=
  (length a =? length b) && forallb (fun p => entry_eqb (fst p) (snd p)) (combine a b).

Definition has_resp (w : world) (n t : nat) (l : list entry) : bool :=
  existsb (fun r => match r with (n', t', l') => (n' =? n) && (t' =? t) && list_entry_eqb l' l end) (resps w).
Definition term_elected (w : world) (t : nat) : bool :=
  existsb (fun r => match r with (t', _, _) => t' =? t end) (elected w).
Definition is_elected (w : world) (t l : nat) : bool :=
  existsb (fun r => match r with (t', l', _) => (t' =? t) && (l' =? l) end) (elected w).

(* ---- actions ---- *)
Inductive action :=
| NewElection                                   (* electLeader: term++, Store *)
| NewTerm (n t : nat)                           (* NewTerm request handled by node n, response recorded *)
| Elect (l : nat) (cands : list (nat * list entry)) (rrs : list nat)
                                                (* newTermQuorum + selectNewLeader: candidates (in the ensemble, with the
                                                   logs they reported), responding removed nodes *)
| BecomeLeader (l : nat)                        (* BecomeLeader request starts on l *)
| Attach (l f : nat) (flog : list entry)        (* addFollower: truncate decision (+ synchronous Truncate RPC) + cursor *)
| FinishBecomeLeader (l : nat)                  (* election head committed: status := LEADER *)
| ClientWrite (l v : nat)                       (* write: allocate offset, append + sync *)
| SendAppend (l f o : nat)
| RecvAppend (f t o : nat) (e : entry)
| RecvAck (l f o : nat)
| AckClient (l o : nat)                         (* commit callback: response to the client *)
| LearnCommit (f l c : nat)                     (* follower applies entries up to the commit offset advertised by its leader *)
| Crash (n : nat)                               (* volatile state lost, restart as FENCED *)
| Swap (from to : nat)                          (* swapNode: ensemble change + new election *)
| DeleteRemoved.                                (* deletingRemovedNodes after a completed election *)

Definition set_node (w : world) (n : nat) (s : nstate) : world :=
  mkW (upd (nodes w) n s) (cterm w) (ens w) (removed w) (resps w) (elected w) (elog w) (tlog w)
      (appends w) (acks w) (cacked w) (cq w) (att w).

Definition majority_ok (w : world) (ncand nrem : nat) : bool :=
  length (ens w) + length (removed w) <? 2 * (ncand + nrem).

Definition step (w : world) (a : action) : option world :=
  match a with
  | NewElection =>
      Some (mkW (nodes w) (S (cterm w)) (ens w) (removed w) (resps w) (elected w) (elog w) (tlog w)
                (appends w) (acks w) (cacked w) (cq w) (att w))
  | NewTerm n t =>
      let s := nodes w n in
      if (1 <=? t) && (t <=? cterm w)
         && ((nterm s <? t) || ((nterm s =? t) && negb (status_eqb (nst s) Leader) && negb (nelect s)))
      then
        let s' := mkN t Fenced (nlog s) false 0 0 (ncommit s) [] in
        Some (mkW (upd (nodes w) n s') (cterm w) (ens w) (removed w) ((n, t, nlog s) :: resps w)
                  (elected w) (elog w) (tlog w) (appends w) (acks w) (cacked w) (cq w) (att w))
      else None
  | Elect l cands rrs =>
      let t := cterm w in
      let cs := map fst cands in
      match find (fun p => fst p =? l) cands with
      | None => None
      | Some (_, llog) =>
          if negb (term_elected w t) && (1 <=? t)
             && nodupb cs && forallb (fun c => mem c (ens w)) cs
             && nodupb rrs && forallb (fun r => mem r (removed w)) rrs
             && forallb (fun p => has_resp w (fst p) t (snd p)) cands
             && forallb (fun r => existsb (fun x => match x with (n', t', _) => (n' =? r) && (t' =? t) end) (resps w)) rrs
             && majority_ok w (length cs) (length rrs)
             && forallb (fun p => head_le (lhead (snd p)) (lhead llog)) cands
          then Some (mkW (nodes w) (cterm w) (ens w) (removed w) (resps w) ((t, l, cands) :: elected w)
                         (elog w) (tlog w) (appends w) (acks w) (cacked w) (cq w) (att w))
          else None
      end
  | BecomeLeader l =>
      let s := nodes w l in
      let t := nterm s in
      if is_elected w t l && status_eqb (nst s) Fenced && negb (nelect s)
         && match elog w t with None => true | Some _ => false end
      then
        let s' := mkN t Fenced (nlog s) true (length (nlog s)) (length (ens w)) (ncommit s) [] in
        Some (mkW (upd (nodes w) l s') (cterm w) (ens w) (removed w) (resps w) (elected w)
                  (upd (elog w) t (Some (nlog s))) (upd (tlog w) t (nlog s))
                  (appends w)
                  (* the leader durably holds its own log *)
                  (match length (nlog s) with O => acks w | S k => (l, t, k) :: acks w end)
                  (cacked w) (cq w) (att w))
      else None
  | Attach l f flog =>
      let s := nodes w l in
      let t := nterm s in
      if (nelect s || status_eqb (nst s) Leader) && negb (f =? l) && mem f (ens w)
         && has_resp w f t flog && negb (is_attached f (nacked s))
         && (S (length (nacked s)) <=? nrf s - 1)
      then
        let lh := (last_term (firstn (nehead s) (nlog s)), nehead s) in
        match attach_decide (nlog s) lh (lhead flog) with
        | AttachError => None
        | NoTruncate start =>
            let s' := mkN t (nst s) (nlog s) (nelect s) (nehead s) (nrf s) (attach_commit s ((f, start) :: nacked s)) ((f, start) :: nacked s) in
            Some (mkW (upd (nodes w) l s') (cterm w) (ens w) (removed w) (resps w) (elected w) (elog w) (tlog w)
                      (appends w) (acks w) (cacked w) (cq w) ((t, f) :: att w))
        | TruncateTo tk k =>
            let sf := nodes w f in
            if (nterm sf =? t) && status_eqb (nst sf) Fenced && negb (nelect sf) then
             match attach_loop (S (length (nlog sf))) (nlog s) lh (truncate_to (nlog sf) tk k) with
             | None => None
             | Some newlog =>
              (* NewCursorAcker refuses a cursor that starts beyond the leader's head (ErrInvalidHeadOffset) *)
              if negb (length newlog <=? length (nlog s)) then None else
              let sf' := mkN t Follower newlog false 0 0 (ncommit sf) [] in
              let s' := mkN t (nst s) (nlog s) (nelect s) (nehead s) (nrf s)
                            (attach_commit s ((f, length newlog) :: nacked s))
                            ((f, length newlog) :: nacked s) in
              Some (mkW (upd (upd (nodes w) f sf') l s') (cterm w) (ens w) (removed w) (resps w) (elected w)
                        (elog w) (tlog w) (appends w) (acks w) (cacked w) (cq w) ((t, f) :: att w))
             end
            else None
        end
      else None
  | FinishBecomeLeader l =>
      let s := nodes w l in
      if nelect s && (nehead s <=? ncommit s) then
        Some (set_node w l (mkN (nterm s) Leader (nlog s) false (nehead s) (nrf s) (ncommit s) (nacked s)))
      else None
  | ClientWrite l v =>
      let s := nodes w l in
      if status_eqb (nst s) Leader then
        let t := nterm s in
        let newlog := nlog s ++ [mkE t v] in
        let c := if nrf s / 2 =? 0 then length newlog else ncommit s in
        let s' := mkN t Leader newlog false (nehead s) (nrf s) c (nacked s) in
        Some (mkW (upd (nodes w) l s') (cterm w) (ens w) (removed w) (resps w) (elected w) (elog w)
                  (upd (tlog w) t newlog) (appends w) ((l, t, length (nlog s)) :: acks w) (cacked w) (cq w) (att w))
      else None
  | SendAppend l f o =>
      let s := nodes w l in
      if (nelect s || status_eqb (nst s) Leader) && is_attached f (nacked s) then
        match nth_error (nlog s) o with
        | Some e => Some (mkW (nodes w) (cterm w) (ens w) (removed w) (resps w) (elected w) (elog w) (tlog w)
                              ((nterm s, f, o, e) :: appends w) (acks w) (cacked w) (cq w) (att w))
        | None => None
        end
      else None
  | RecvAppend f t o e =>
      let s := nodes w f in
      if existsb (fun m => match m with (t', f', o', e') => (t' =? t) && (f' =? f) && (o' =? o) && entry_eqb e' e end)
                 (appends w)
         && (nterm s =? t) && (status_eqb (nst s) Fenced || status_eqb (nst s) Follower) && negb (nelect s)
      then
        if o <? length (nlog s) then
          (* duplicate by offset: acknowledged (the copy is durable) *)
          Some (mkW (upd (nodes w) f (mkN t Follower (nlog s) false 0 0 (ncommit s) []))
                    (cterm w) (ens w) (removed w) (resps w) (elected w) (elog w) (tlog w)
                    (appends w) ((f, t, o) :: acks w) (cacked w) (cq w) (att w))
        else if o =? length (nlog s) then
          Some (mkW (upd (nodes w) f (mkN t Follower (nlog s ++ [e]) false 0 0 (ncommit s) []))
                    (cterm w) (ens w) (removed w) (resps w) (elected w) (elog w) (tlog w)
                    (appends w) ((f, t, o) :: acks w) (cacked w) (cq w) (att w))
        else None
      else None
  | RecvAck l f o =>
      let s := nodes w l in
      if (nelect s || status_eqb (nst s) Leader) && is_attached f (nacked s)
         && existsb (fun m => match m with (f', t', o') => (f' =? f) && (t' =? nterm s) && (o' =? o) end) (acks w)
         && (o <? length (nlog s))
      then
        let acked' := set_acked f (S o) (nacked s) in
        let c := Nat.max (ncommit s) (qprefix (length (nlog s)) (nrf s) acked') in
        Some (set_node w l (mkN (nterm s) (nst s) (nlog s) (nelect s) (nehead s) (nrf s) c acked'))
      else None
  | AckClient l o =>
      let s := nodes w l in
      match nth_error (nlog s) o with
      | Some e =>
          if status_eqb (nst s) Leader && (eterm e =? nterm s) && (o <? ncommit s)
             && (nrf s / 2 <=? count_ge (S o) (nacked s))
          then Some (mkW (nodes w) (cterm w) (ens w) (removed w) (resps w) (elected w) (elog w) (tlog w)
                         (appends w) (acks w) ((nterm s, o, e) :: cacked w)
                         ((nterm s, o, l :: map fst (filter (fun p => S o <=? snd p) (nacked s))) :: cq w) (att w))
          else None
      | None => None
      end
  | LearnCommit f l c =>
      let s := nodes w f in
      let sl := nodes w l in
      if (nelect sl || status_eqb (nst sl) Leader) && (nterm sl =? nterm s) && (c <=? ncommit sl)
         && (c <=? length (nlog s))
      then Some (set_node w f (mkN (nterm s) (nst s) (nlog s) (nelect s) (nehead s) (nrf s)
                                   (Nat.max (ncommit s) c) (nacked s)))
      else None
  | Crash n =>
      let s := nodes w n in
      Some (set_node w n (mkN (nterm s) (if nterm s =? 0 then NotMember else Fenced) (nlog s) false 0 0 (ncommit s) []))
  | Swap from to =>
      if mem from (ens w) && negb (mem to (ens w)) && negb (mem to (removed w)) then
        Some (mkW (nodes w) (S (cterm w)) (filter (fun x => negb (x =? from)) (ens w) ++ [to]) (removed w ++ [from])
                  (resps w) (elected w) (elog w) (tlog w) (appends w) (acks w) (cacked w) (cq w) (att w))
      else None
  | DeleteRemoved =>
      (* electLeader deletes the removed nodes once BecomeLeader has succeeded *)
      match find (fun r => match r with (t', _, _) => t' =? cterm w end) (elected w) with
      | Some (_, l, _) =>
          (* the coordinator sends DeleteShard because BecomeLeader returned; the leader may have crashed since *)
          if match elog w (cterm w) with Some _ => true | None => false end then
            Some (mkW (fun n => if mem n (removed w) then node0 else nodes w n) (cterm w) (ens w) []
                      (resps w) (elected w) (elog w) (tlog w) (appends w) (acks w) (cacked w) (cq w) (att w))
          else None
      | None => None
      end
  end.

Fixpoint run (w : world) (acts : list action) : option world :=
  match acts with
  | [] => Some w
  | a :: tl => match step w a with Some w' => run w' tl | None => None end
  end.

Definition is_swap (a : action) : bool :=
  match a with Swap _ _ => true | DeleteRemoved => true | _ => false end.

(* what a leader exposes: the acknowledged write (t, o, e) is in the log of leader n *)
Definition exposes (w : world) (n : nat) (o : nat) (e : entry) : bool :=
  match nth_error (nlog (nodes w n)) o with Some e' => entry_eqb e' e | None => false end.

(* C01 as a boolean check of one state (used by the trace validator and by the refutation witnesses) *)
Definition acked_survive_b (w : world) (universe : list nat) : bool :=
  forallb (fun c => match c with (t, o, e) =>
    forallb (fun n => negb (status_eqb (nst (nodes w n)) Leader) || (nterm (nodes w n) <? t) || exposes w n o e) universe
  end) (cacked w).
