(* O-3b: with ONE Truncate round per attach (what the code does, [step_code]) an acknowledged write is lost
   without any ensemble change: 5 nodes, 6 terms.  Node 1 holds [a1;b1;d3] (minority leader of terms 1 and 3);
   w4 is written in term 4 by node 2 on top of x2, replicated to 3 and 4 and ACKNOWLEDGED.  In term 5 node 1 is
   asked to truncate to the leader's entry (2, offset 0): by entry id it keeps [a1;b1] (term 1 < 2), which is not
   in the leader's log [x2;w4]; its cursor is credited with 2 entries, it appends v5 on top of the wrong prefix
   and acknowledges it; in term 6 it has the highest head (5,3), wins, and serves [a1;b1;v5]: w4 is gone.
   Found by the proof attempt of I_att (group C).  The repaired protocol ([step], attach_loop) refuses this
   action list (node 1 ends with [] after the second round). *)
From Coq Require Import List Arith Bool PeanoNat.
From Oxia.Cluster Require Import Model CodeModel.
Import ListNotations.
Definition a1 := mkE 1 11. Definition b1 := mkE 1 12.
Definition x2 := mkE 2 20. Definition d3 := mkE 3 30. Definition w4 := mkE 4 40. Definition v5 := mkE 5 50.
Definition multi_round_trace : list action := [
 (* term 1: node 1 leads, writes a1 b1 locally only *)
 NewElection; NewTerm 1 1; NewTerm 3 1; NewTerm 5 1; Elect 1 [(1,[]);(3,[]);(5,[])] [];
 BecomeLeader 1; Attach 1 3 []; Attach 1 5 []; FinishBecomeLeader 1; ClientWrite 1 11; ClientWrite 1 12;
 (* term 2: node 2 leads (1 unreachable), writes x2 locally only *)
 NewElection; NewTerm 2 2; NewTerm 3 2; NewTerm 4 2; Elect 2 [(2,[]);(3,[]);(4,[])] [];
 BecomeLeader 2; Attach 2 3 []; Attach 2 4 []; FinishBecomeLeader 2; ClientWrite 2 20;
 (* term 3: node 1 leads again (2 unreachable), writes d3 locally only *)
 NewElection; NewTerm 1 3; NewTerm 3 3; NewTerm 5 3; Elect 1 [(1,[a1;b1]);(3,[]);(5,[])] [];
 BecomeLeader 1; Attach 1 3 []; Attach 1 5 [];
 SendAppend 1 3 0; RecvAppend 3 3 0 a1; SendAppend 1 3 1; RecvAppend 3 3 1 b1; RecvAck 1 3 1;
 SendAppend 1 5 0; RecvAppend 5 3 0 a1; SendAppend 1 5 1; RecvAppend 5 3 1 b1; RecvAck 1 5 1;
 FinishBecomeLeader 1; ClientWrite 1 30;
 (* term 4: node 2 leads (1 unreachable): x2 re-replicated, w4 written, replicated to 3 and 4 and ACKNOWLEDGED *)
 NewElection; NewTerm 2 4; NewTerm 3 4; NewTerm 4 4; Elect 2 [(2,[x2]);(3,[a1;b1]);(4,[])] [];
 BecomeLeader 2; Attach 2 3 [a1;b1]; Attach 2 4 [];
 SendAppend 2 3 0; RecvAppend 3 4 0 x2; RecvAck 2 3 0; SendAppend 2 4 0; RecvAppend 4 4 0 x2; RecvAck 2 4 0;
 FinishBecomeLeader 2; ClientWrite 2 40;
 SendAppend 2 3 1; RecvAppend 3 4 1 w4; RecvAck 2 3 1; SendAppend 2 4 1; RecvAppend 4 4 1 w4; RecvAck 2 4 1;
 AckClient 2 1;
 (* term 5: node 1 is back with [a1;b1;d3]; ONE truncate round to the leader's entry (2, offset 0) keeps [a1;b1] *)
 NewElection; NewTerm 2 5; NewTerm 3 5; NewTerm 4 5; NewTerm 1 5;
 Elect 2 [(2,[x2;w4]);(3,[x2;w4]);(4,[x2;w4])] [];
 BecomeLeader 2; Attach 2 3 [x2;w4]; Attach 2 4 [x2;w4]; Attach 2 1 [a1;b1;d3];
 FinishBecomeLeader 2; ClientWrite 2 50;
 SendAppend 2 1 2; RecvAppend 1 5 2 v5; RecvAck 2 1 2; SendAppend 2 3 2; RecvAppend 3 5 2 v5; RecvAck 2 3 2;
 AckClient 2 2;
 (* term 6: 2 and 3 unreachable; node 1 has the highest head (5,3) and wins with [a1;b1;v5] *)
 NewElection; NewTerm 1 6; NewTerm 4 6; NewTerm 5 6;
 Elect 1 [(1,[a1;b1;v5]);(4,[x2;w4]);(5,[a1;b1])] [];
 BecomeLeader 1; Attach 1 4 [x2;w4]; Attach 1 5 [a1;b1];
 SendAppend 1 5 2; RecvAppend 5 6 2 v5; RecvAck 1 5 2;
 SendAppend 1 4 0; RecvAppend 4 6 0 a1; SendAppend 1 4 1; RecvAppend 4 6 1 b1; SendAppend 1 4 2; RecvAppend 4 6 2 v5; RecvAck 1 4 2;
 FinishBecomeLeader 1
].

Lemma code_loses_acked_write :
  exists w, run_code (init [1;2;3;4;5]) multi_round_trace = Some w /\
            In (4, 1, w4) (cacked w) /\ nst (nodes w 1) = Leader /\ nterm (nodes w 1) = 6 /\
            nlog (nodes w 1) = [a1; b1; v5] /\ acked_survive_b w [1;2;3;4;5] = false /\
            consistent_run (init [1;2;3;4;5]) multi_round_trace = false.
Proof. eexists. split; [vm_compute; reflexivity|]. vm_compute. repeat split; auto. Qed.

Lemma repaired_protocol_refuses : run (init [1;2;3;4;5]) multi_round_trace = None.
Proof. vm_compute. reflexivity. Qed.
