(* O-3b: with ONE Truncate round per attach (what the code does, [step_code]) an acknowledged write is lost
   without any ensemble change: 5 nodes, 6 terms, minority-only leaders in terms 1, 2, 3, 4.
   In term 5 the follower 1 = [a1;b1;c1;d3] is asked to truncate to the leader's entry (2, offset 0); by entry id
   it keeps [a1;b1;c1] (term 1 < 2), which is not in the leader's log [x2;w4], and the cursor is credited with 3
   entries; the write v5 at offset 2 is then acknowledged with two real copies out of five and is gone in term 6.
   Found by the proof attempt of I_att (group C).  The repaired protocol ([step], attach_loop) refuses this
   execution at the same point: the follower ends with [] and the write is not acknowledged. *)
From Coq Require Import List Arith Bool PeanoNat.
From Oxia.Cluster Require Import Model CodeModel.
Import ListNotations.
Definition a1 := mkE 1 11. Definition b1 := mkE 1 12. Definition c1 := mkE 1 13.
Definition x2 := mkE 2 20. Definition d3 := mkE 3 30. Definition w4 := mkE 4 40. Definition v5 := mkE 5 50.
Definition multi_round_trace : list action := [
NewElection;
NewTerm 1 1; NewTerm 2 1; NewTerm 3 1;
Elect 1 [(1,[]);(2,[]);(3,[])] [];
BecomeLeader 1; FinishBecomeLeader 1;
ClientWrite 1 11; ClientWrite 1 12; ClientWrite 1 13;
NewElection;
NewTerm 2 2; NewTerm 3 2; NewTerm 4 2;
Elect 2 [(2,[]);(3,[]);(4,[])] [];
BecomeLeader 2; FinishBecomeLeader 2;
ClientWrite 2 20;
NewElection;
NewTerm 1 3; NewTerm 3 3; NewTerm 4 3;
Elect 1 [(1,[a1;b1;c1]);(3,[]);(4,[])] [];
BecomeLeader 1;
Attach 1 3 []; Attach 1 4 [];
SendAppend 1 3 0; SendAppend 1 3 1; SendAppend 1 3 2; SendAppend 1 4 0; SendAppend 1 4 1; SendAppend 1 4 2;
RecvAppend 3 3 0 a1; RecvAppend 3 3 1 b1; RecvAppend 3 3 2 c1;
RecvAppend 4 3 0 a1; RecvAppend 4 3 1 b1; RecvAppend 4 3 2 c1;
RecvAck 1 3 2; RecvAck 1 4 2;
FinishBecomeLeader 1;
ClientWrite 1 30;
NewElection;
NewTerm 2 4; NewTerm 3 4; NewTerm 5 4;
Elect 2 [(2,[x2]);(3,[a1;b1;c1]);(5,[])] [];
BecomeLeader 2;
Attach 2 3 [a1;b1;c1]; Attach 2 5 [];
SendAppend 2 3 0; SendAppend 2 5 0;
RecvAppend 3 4 0 x2; RecvAppend 5 4 0 x2;
RecvAck 2 3 0; RecvAck 2 5 0;
FinishBecomeLeader 2;
ClientWrite 2 40;
NewElection;
NewTerm 2 5; NewTerm 3 5; NewTerm 5 5; NewTerm 1 5;
Elect 2 [(2,[x2;w4]);(3,[x2]);(5,[x2])] [];
BecomeLeader 2;
Attach 2 1 [a1;b1;c1;d3];
Attach 2 3 [x2];
SendAppend 2 3 1; RecvAppend 3 5 1 w4; RecvAck 2 3 1;
FinishBecomeLeader 2;
ClientWrite 2 50;
SendAppend 2 3 2; RecvAppend 3 5 2 v5; RecvAck 2 3 2;
AckClient 2 2;
NewElection;
NewTerm 1 6; NewTerm 4 6; NewTerm 5 6;
Elect 5 [(5,[x2]);(1,[a1;b1;c1]);(4,[a1;b1;c1])] [];
BecomeLeader 5;
Attach 5 1 [a1;b1;c1]; Attach 5 4 [a1;b1;c1];
SendAppend 5 1 0; SendAppend 5 4 0;
RecvAppend 1 6 0 x2; RecvAppend 4 6 0 x2;
RecvAck 5 1 0; RecvAck 5 4 0;
FinishBecomeLeader 5
].

Lemma code_loses_acked_write :
  exists w, run_code (init [1;2;3;4;5]) multi_round_trace = Some w /\
            In (5, 2, v5) (cacked w) /\ nst (nodes w 5) = Leader /\ nterm (nodes w 5) = 6 /\
            nlog (nodes w 5) = [x2] /\ acked_survive_b w [1;2;3;4;5] = false /\
            consistent_run (init [1;2;3;4;5]) multi_round_trace = false.
Proof. eexists. split; [vm_compute; reflexivity|]. vm_compute. repeat split; auto. Qed.

(* the repaired protocol does not acknowledge that write: the same action list is refused at AckClient *)
Lemma repaired_protocol_refuses : run (init [1;2;3;4;5]) multi_round_trace = None.
Proof. vm_compute. reflexivity. Qed.
