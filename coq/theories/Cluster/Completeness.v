(* Leader completeness over executions (repaired protocol, no ensemble change): whatever the interleaving of
   elections, crashes, message deliveries and client writes, the log with which the leader of a LATER term t'
   starts (its log when BecomeLeader ran) agrees, up to and including offset o, with the log of the leader of
   every earlier term t that acknowledged offset o to a client. This is the statement from which
   "acknowledged writes survive" (Preservation.acked_survive) follows; it is about the ghost history (elog / tlog),
   so it also speaks about leaders that are no longer alive. *)
From Coq Require Import List Arith Bool PeanoNat Lia.
From Oxia.Cluster Require Import Model Invariants Safety Preservation.
Import ListNotations.

Theorem leader_completeness_run E acts w :
  NoDup E -> no_swap acts = true -> run (init E) acts = Some w ->
  forall t' lg', elog w t' = Some lg' ->
  forall t o Q, In (t, o, Q) (cq w) -> t < t' ->
  (exists e, In (t, o, e) (cacked w)) ->
  pfx (S o) lg' (tlog w t).
Proof.
  intros HE Hns Hrun. pose proof (inv_run E acts _ _ (inv_init E HE) Hns Hrun) as [HI _ _].
  exact (leader_completeness E w HI).
Qed.
