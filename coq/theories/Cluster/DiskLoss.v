(* Disk loss ("as long as a majority of the shard's ensemble keeps its disk", C01).

   A node that loses its disk comes back with nothing: no shard directory, hence no term, no log, no DB.  The
   next NewTerm request of the coordinator makes its ShardsDirector create a fresh follower controller
   (GetOrCreateFollower: term -1, NOT_MEMBER, empty WAL), which accepts the request and reports the head (-1,-1).
   Neither the node nor the coordinator can tell this node from one that never held anything.
   In the World model that is [set_node w n node0]; the ghost histories keep what the old incarnation said.

   [xstep] extends the code's step function ([CodeModel.step_code]) with that action.
   - Executions without a disk loss are exactly the executions of [run_code] ([xrun_embeds]), so the C01
     theorems apply to them unchanged ("every node keeps its disk").
   - The clause of the property is weaker: a MAJORITY keeps its disk.  It is false for the protocol as
     implemented ([minority_disk_loss_loses_ack]): rf 3, the write is acknowledged with the copies on nodes 1
     (leader) and 2; node 2 loses its disk, node 1 is unreachable; nodes 2 and 3 are a majority of NewTerm
     responses, both report the empty log, node 3 becomes leader with an empty log.  Nodes 1 and 3 (a majority)
     kept their disks throughout.  The harness replays this schedule on the real cluster. *)
From Coq Require Import List Arith Bool PeanoNat.
From Oxia.Cluster Require Import Model CodeModel.
Import ListNotations.

Inductive xaction :=
| Base (a : action)
| DiskLoss (n : nat).

Definition xstep (w : world) (x : xaction) : option world :=
  match x with
  | Base a => step_code w a
  | DiskLoss n => Some (set_node w n node0)
  end.

Fixpoint xrun (w : world) (xs : list xaction) : option world :=
  match xs with
  | [] => Some w
  | x :: tl => match xstep w x with Some w' => xrun w' tl | None => None end
  end.

(* the nodes that lost their disk at least once during the execution *)
Fixpoint lost_disks (xs : list xaction) : list nat :=
  match xs with
  | [] => []
  | Base _ :: tl => lost_disks tl
  | DiskLoss n :: tl => if mem n (lost_disks tl) then lost_disks tl else n :: lost_disks tl
  end.

Definition keeps_disk (xs : list xaction) (n : nat) : bool := negb (mem n (lost_disks xs)).

(* "a majority of the ensemble keeps its disk" *)
Definition majority_keeps_disk (ensemble : list nat) (xs : list xaction) : bool :=
  length ensemble <? 2 * length (filter (keeps_disk xs) ensemble).

Lemma xrun_embeds acts : forall w, xrun w (map Base acts) = run_code w acts.
Proof.
  induction acts as [|a tl IH]; intros w; [reflexivity|].
  cbn [map xrun run_code xstep]. destruct (step_code w a) as [w'|]; [apply IH | reflexivity].
Qed.

Lemma lost_disks_embeds acts : lost_disks (map Base acts) = [].
Proof. induction acts as [|a tl IH]; [reflexivity | exact IH]. Qed.

(* ---- the witness ---- *)
Definition dl_e1 := mkE 1 10.

Definition minority_disk_loss_trace : list xaction :=
  map Base
   [NewElection; NewTerm 1 1; NewTerm 2 1; NewTerm 3 1;
    Elect 1 [(1, []); (2, []); (3, [])] []; BecomeLeader 1; Attach 1 2 []; Attach 1 3 [];
    FinishBecomeLeader 1; ClientWrite 1 10;
    SendAppend 1 2 0; RecvAppend 2 1 0 dl_e1; RecvAck 1 2 0; AckClient 1 0]
  ++ [DiskLoss 2]
  ++ map Base
   [NewElection; NewTerm 2 2; NewTerm 3 2;
    Elect 3 [(2, []); (3, [])] []; BecomeLeader 3; Attach 3 2 []; FinishBecomeLeader 3].

Lemma minority_disk_loss_loses_ack :
  exists w, xrun (init [1; 2; 3]) minority_disk_loss_trace = Some w /\
            lost_disks minority_disk_loss_trace = [2] /\
            majority_keeps_disk [1; 2; 3] minority_disk_loss_trace = true /\
            In (1, 0, dl_e1) (cacked w) /\
            nst (nodes w 3) = Leader /\ nterm (nodes w 3) = 2 /\ nlog (nodes w 3) = [] /\
            acked_survive_b w [1; 2; 3] = false.
Proof. eexists. split; [vm_compute; reflexivity|]. vm_compute. repeat split; auto. Qed.

(* the same schedule without the disk loss cannot elect node 3 with an empty log: node 2 reports [e1] and the
   election rule picks the highest head *)
Lemma without_disk_loss_refused :
  xrun (init [1; 2; 3]) (filter (fun x => match x with DiskLoss _ => false | _ => true end) minority_disk_loss_trace) = None.
Proof. vm_compute. reflexivity. Qed.
