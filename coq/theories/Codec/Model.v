(* Model of the WAL record codecs and of segment recovery:
     server/wal/codec/codec.go   (ReadInt)
     server/wal/codec/v1.go      (format v1: | size(4) | payload |,                no checksum, idx file without header)
     server/wal/codec/v2.go      (format v2: | size(4) | prevCrc(4) | crc(4) | payload |, idx file with a 4 byte CRC header)
     server/util/crc/crc.go      (Value(): rotate + magic on top of CRC-32C)
     server/wal/readwrite_segment.go:newReadWriteSegment  (= RecoverIndex from file offset 0)
     server/wal/readonly_segment.go:newReadOnlySegment / Read

   A file (or its mmap) is [buf : list N], one element per byte.  All [uint32] expressions of the Go
   source carry an explicit [mod U32]; every slice expression whose bounds check can fail is an
   explicit [Panic]; a loop that does not end within its fuel is an explicit [Hang].
   Go bounds-checks slices against the capacity; all buffers here are mmaps or exact allocations,
   for which cap = len (the harness passes buffers with cap = len).

   Every function that the repair of O-6 touched exists twice: [*_orig] is the code as found at
   the pinned commit (kept for the [_refuted] theorems and their replay), the name without suffix
   is the code of the working tree (fixed) -- this is what is extracted and compared on every run.

   CRC-32C itself is a Section variable [crc : N -> list N -> N]
   (crc32.Update(seed, castagnoli, bytes)); Codec/Crc32c.v gives the instance used for extraction. *)
From Coq Require Import List NArith ZArith Bool.
Import ListNotations.
Open Scope N_scope.

Definition U32 : N := 4294967296.

Inductive err := EOffsetOutOfBounds | EEmptyPayload | EDataCorrupted | EOther.

Inductive outcome (A : Type) : Type :=
| Ok (a : A)
| Err (e : err)
| Panic
| Hang.
Arguments Ok {A} a.
Arguments Err {A} e.
Arguments Panic {A}.
Arguments Hang {A}.

Inductive ver := V1 | V2.

Definition hdr_size (v : ver) : N := match v with V1 => 4 | V2 => 12 end.

(* ---------------------------------------------------------------- bytes *)

Definition blen (b : list N) : N := N.of_nat (length b).

(* the [n] bytes of [b] starting at [lo] (fewer if [b] is shorter) *)
Definition sub (b : list N) (lo n : N) : list N := firstn (N.to_nat n) (skipn (N.to_nat lo) b).

(* Go: b[lo:hi]  with cap(b) = len(b); None = runtime panic "slice bounds out of range" *)
Definition slice (b : list N) (lo hi : N) : option (list N) :=
  if (lo <=? hi) && (hi <=? blen b) then Some (sub b lo (hi - lo)) else None.

(* binary.BigEndian.Uint32 (a list element is one byte: only its value mod 256 counts) *)
Definition be32 (l : list N) : N := fold_left (fun acc x => acc * 256 + x mod 256) l 0.

(* binary.BigEndian.PutUint32 / AppendUint32 of a uint32 value *)
Definition put32 (v : N) : list N :=
  [(v / 16777216) mod 256; (v / 65536) mod 256; (v / 256) mod 256; v mod 256].

(* codec.ReadInt(b, offset) = BigEndian.Uint32(b[offset : offset+4]); offset+4 is a uint32 sum *)
Definition read_int (b : list N) (off : N) : option N :=
  match slice b off ((off + 4) mod U32) with
  | Some l => Some (be32 l)
  | None => None
  end.

(* uint32 subtraction a - b *)
Definition sub32 (a b : N) : N := (a + U32 - b mod U32) mod U32.
Definition add32 (a b : N) : N := (a + b) mod U32.

(* int64 wrap-around *)
Definition wrap64 (z : Z) : Z := ((z + 9223372036854775808) mod 18446744073709551616 - 9223372036854775808)%Z.

(* crc.Checksum.Value():  uint32(c>>15 | c<<17) + MagicNumber *)
Definition crc_magic : N := 2726488792. (* 0xa282ead8 *)
Definition crc_value (c : N) : N :=
  add32 (N.lor (N.shiftr c 15) ((N.shiftl c 17) mod U32)) crc_magic.

(* overwrite [b] from [off] with [bytes], like copy(b[off:], bytes): silently truncated at the end of b *)
Definition splice (b : list N) (off : N) (bytes : list N) : list N :=
  let o := N.to_nat off in
  let room := (length b - o)%nat in
  let w := firstn room bytes in
  firstn o b ++ w ++ skipn (o + length w) b.

Section WithCrc.
Variable crc : N -> list N -> N.

(* crc.Checksum(prev).Update(payload).Value() *)
Definition cv (prev : N) (payload : list N) : N := crc_value (crc prev payload).

(* ---------------------------------------------------------------- ReadHeaderWithValidation *)

(* v2.go as found (pinned commit) *)
Definition read_header_v2_orig (buf : list N) (start : N) : outcome (N * N * N) :=
  let bufSize := blen buf mod U32 in
  if bufSize <=? start then Err EOffsetOutOfBounds else
  match read_int buf start with
  | None => Panic
  | Some payloadSize =>
    if payloadSize =? 0 then Err EEmptyPayload else
    let expectSize := add32 payloadSize 12 in
    let actualBufSize := sub32 bufSize start in
    if actualBufSize <? expectSize then Err EOffsetOutOfBounds else
    match read_int buf (add32 start 4) with
    | None => Panic
    | Some previousCrc =>
      match read_int buf (add32 start 8) with
      | None => Panic
      | Some payloadCrc =>
        let pstart := add32 start 12 in
        match slice buf pstart (add32 pstart payloadSize) with
        | None => Panic
        | Some payload =>
          if cv previousCrc payload =? payloadCrc
          then Ok (payloadSize, previousCrc, payloadCrc)
          else Err EDataCorrupted
        end
      end
    end
  end.

(* v2.go, working tree (O-6 repaired): the size field must be inside the buffer, and
   payloadSize is compared with actualBufSize - HeaderSize, which cannot wrap *)
Definition read_header_v2 (buf : list N) (start : N) : outcome (N * N * N) :=
  let bufSize := blen buf mod U32 in
  if (bufSize <=? start) || (sub32 bufSize start <? 4) then Err EOffsetOutOfBounds else
  match read_int buf start with
  | None => Panic
  | Some payloadSize =>
    if payloadSize =? 0 then Err EEmptyPayload else
    let actualBufSize := sub32 bufSize start in
    if (actualBufSize <? 12) || (sub32 actualBufSize 12 <? payloadSize) then Err EOffsetOutOfBounds else
    match read_int buf (add32 start 4) with
    | None => Panic
    | Some previousCrc =>
      match read_int buf (add32 start 8) with
      | None => Panic
      | Some payloadCrc =>
        let pstart := add32 start 12 in
        match slice buf pstart (add32 pstart payloadSize) with
        | None => Panic
        | Some payload =>
          if cv previousCrc payload =? payloadCrc
          then Ok (payloadSize, previousCrc, payloadCrc)
          else Err EDataCorrupted
        end
      end
    end
  end.

(* v1.go as found *)
Definition read_header_v1_orig (buf : list N) (start : N) : outcome (N * N * N) :=
  let bufSize := blen buf mod U32 in
  if bufSize <=? start then Err EOffsetOutOfBounds else
  match read_int buf start with
  | None => Panic
  | Some payloadSize =>
    if payloadSize =? 0 then Err EEmptyPayload else
    let expectSize := add32 payloadSize 4 in
    let actualBufSize := sub32 bufSize start in
    if actualBufSize <? expectSize then Err EOffsetOutOfBounds else
    Ok (payloadSize, 0, 0)
  end.

(* v1.go, working tree *)
Definition read_header_v1 (buf : list N) (start : N) : outcome (N * N * N) :=
  let bufSize := blen buf mod U32 in
  if (bufSize <=? start) || (sub32 bufSize start <? 4) then Err EOffsetOutOfBounds else
  match read_int buf start with
  | None => Panic
  | Some payloadSize =>
    if payloadSize =? 0 then Err EEmptyPayload else
    let actualBufSize := sub32 bufSize start in
    if sub32 actualBufSize 4 <? payloadSize then Err EOffsetOutOfBounds else
    Ok (payloadSize, 0, 0)
  end.

Definition read_header (orig : bool) (v : ver) : list N -> N -> outcome (N * N * N) :=
  match v, orig with
  | V1, true => read_header_v1_orig
  | V1, false => read_header_v1
  | V2, true => read_header_v2_orig
  | V2, false => read_header_v2
  end.

(* ---------------------------------------------------------------- ReadRecordWithValidation / GetRecordSize
   (identical text in v1.go and v2.go; unchanged by the repair) *)

Definition read_record_gen (orig : bool) (v : ver) (buf : list N) (start : N) : outcome (list N) :=
  match read_header orig v buf start with
  | Ok (payloadSize, _, _) =>
    let pstart := add32 start (hdr_size v) in
    match slice buf pstart (add32 pstart payloadSize) with
    | None => Panic
    | Some payload => Ok payload     (* make([]byte, payloadSize) + copy *)
    end
  | Err e => Err e
  | Panic => Panic
  | Hang => Hang
  end.

Definition get_record_size_gen (orig : bool) (v : ver) (buf : list N) (start : N) : outcome N :=
  match read_header orig v buf start with
  | Ok (payloadSize, _, _) => Ok (add32 (hdr_size v) payloadSize)
  | Err e => Err e
  | Panic => Panic
  | Hang => Hang
  end.

(* ---------------------------------------------------------------- WriteRecord *)

(* binary.BigEndian.PutUint32(buf[off:], v): buf[off:] needs off <= len, PutUint32 needs 4 bytes *)
Definition put_at (buf : list N) (off v : N) : option (list N) :=
  if (off <=? blen buf) && (4 <=? blen buf - off) then Some (splice buf off (put32 v)) else None.

(* copy(buf[off:], payload) *)
Definition copy_at (buf : list N) (off : N) (payload : list N) : option (list N) :=
  if off <=? blen buf then Some (splice buf off payload) else None.

(* returns (buffer after the call, recordSize, payloadCrc) *)
Definition write_record (v : ver) (buf : list N) (start prev : N) (payload : list N)
  : outcome (list N * N * N) :=
  let payloadSize := blen payload mod U32 in
  match v with
  | V1 =>
    match put_at buf start payloadSize with
    | None => Panic
    | Some b1 =>
      match copy_at b1 (add32 start 4) payload with
      | None => Panic
      | Some b2 => Ok (b2, add32 4 payloadSize, 0)
      end
    end
  | V2 =>
    match put_at buf start payloadSize with
    | None => Panic
    | Some b1 =>
      match put_at b1 (add32 start 4) prev with
      | None => Panic
      | Some b2 =>
        let c := cv prev payload in
        match put_at b2 (add32 start 8) c with
        | None => Panic
        | Some b3 =>
          match copy_at b3 (add32 start 12) payload with
          | None => Panic
          | Some b4 => Ok (b4, add32 12 payloadSize, c)
          end
        end
      end
    end
  end.

(* ---------------------------------------------------------------- RecoverIndex
   result: (file offsets of the records = the index, lastCrc, newFileOffset, lastEntryOffset) *)

Definition rec_result : Type := (list N * N * N * Z)%type.

Fixpoint recover_loop_v2 (orig : bool) (fuel : nat) (buf : list N) (commit : option Z)
         (off : N) (cur : Z) (idx : list N) (lastCrc : N) : outcome rec_result :=
  match fuel with
  | O => Hang
  | S f =>
    let maxSize := blen buf mod U32 in
    if add32 off 12 <=? maxSize then
      match read_header orig V2 buf off with
      | Ok (payloadSize, _, payloadCrc) =>
        recover_loop_v2 orig f buf commit (add32 off (add32 12 payloadSize)) (wrap64 (cur + 1))
                        (idx ++ [off]) payloadCrc
      | Err EEmptyPayload => Ok (idx, lastCrc, off, wrap64 (cur - 1))
      | Err EOther => Err EOther
      | Err e =>
        match commit with
        | Some c => if (c <? cur)%Z then Ok (idx, lastCrc, off, wrap64 (cur - 1)) else Err e
        | None => Err e
        end
      | Panic => Panic
      | Hang => Hang
      end
    else Ok (idx, lastCrc, off, wrap64 (cur - 1))
  end.

Fixpoint recover_loop_v1 (orig : bool) (fuel : nat) (buf : list N)
         (off : N) (cur : Z) (idx : list N) : outcome rec_result :=
  match fuel with
  | O => Hang
  | S f =>
    let maxSize := blen buf mod U32 in
    if off <? maxSize then
      match read_header orig V1 buf off with
      | Ok (payloadSize, _, _) =>
        recover_loop_v1 orig f buf (add32 off (add32 4 payloadSize)) (wrap64 (cur + 1)) (idx ++ [off])
      | Err EEmptyPayload | Err EOffsetOutOfBounds => Ok (idx, 0, off, wrap64 (cur - 1))
      | Err e => Err e
      | Panic => Panic
      | Hang => Hang
      end
    else Ok (idx, 0, off, wrap64 (cur - 1))
  end.

(* every iteration of the repaired code advances by at least one header + one byte,
   so [length buf + 1] iterations are more than enough (proved: recover_never_hangs) *)
Definition recover_index_gen (orig : bool) (v : ver) (buf : list N) (start : N) (base : Z) (commit : option Z)
  : outcome rec_result :=
  match v with
  | V1 => recover_loop_v1 orig (S (length buf)) buf start base []
  | V2 => recover_loop_v2 orig (S (length buf)) buf commit start base [] 0
  end.

(* ---------------------------------------------------------------- index files *)

(* the index as bytes: 4 bytes big endian per record *)
Definition idx_bytes (offs : list N) : list N := flat_map put32 offs.

(* WriteIndex: the content of the idx file *)
Definition index_file (v : ver) (index : list N) : list N :=
  match v with
  | V1 => index
  | V2 => put32 (cv 0 index) ++ index
  end.

(* ReadIndex on the content of the idx file; [None] = the file does not exist.
   v2 as found: indexBuf[4:] panics when the file has fewer than 4 bytes
   (ReadInt(indexBuf,0) itself does not: io.ReadAll returns capacity >= 512). *)
Definition read_index_gen (orig : bool) (v : ver) (file : option (list N)) : outcome (list N) :=
  match file with
  | None => Err EOther
  | Some f =>
    match v with
    | V1 => Ok f
    | V2 =>
      if blen f <? 4 then (if orig then Panic else Err EDataCorrupted) else
      let expected := be32 (sub f 0 4) in
      let body := skipn 4 f in
      if cv 0 body =? expected then Ok body else Err EDataCorrupted
    end
  end.

(* fileOffset(idx, firstOffset, offset) = ReadInt(idx, uint32((offset-firstOffset)*4)) *)
Definition file_offset (idx : list N) (base off : Z) : option N :=
  read_int idx (Z.to_N (((off - base) * 4) mod 4294967296)%Z).

(* newReadOnlySegment: (idx, lastOffset, lastCrc).  [txn] is the mmap of the whole txn file.
   ro_finish: the part after the index has been obtained; the working tree refuses an empty index,
   the code as found computed fileOffset(idx, base, base-1) = idx[0xFFFFFFFC:0] and panicked. *)
Definition ro_finish (orig : bool) (v : ver) (txn : list N) (base : Z) (idx : list N)
  : outcome (list N * Z * N) :=
  if (negb orig) && (blen idx <? 4) then Err EDataCorrupted else
  let lastOffset := (base + (Z.of_N (blen idx / 4) - 1))%Z in
  match file_offset idx base lastOffset with
  | None => Panic
  | Some fo =>
    match read_header orig v txn fo with
    | Ok (_, _, c) => Ok (idx, lastOffset, c)
    | Err e => Err e
    | Panic => Panic
    | Hang => Hang
    end
  end.

Definition ro_open_gen (orig : bool) (v : ver) (txn : list N) (idxfile : option (list N)) (base : Z)
  : outcome (list N * Z * N) :=
  match read_index_gen orig v idxfile with
  | Ok idx => ro_finish orig v txn base idx
  | Err EDataCorrupted =>
    match recover_index_gen orig v txn 0 base None with
    | Ok (offs, _, _, _) => ro_finish orig v txn base (idx_bytes offs)
    | Err e => Err e
    | Panic => Panic
    | Hang => Hang
    end
  | Err e => Err e
  | Panic => Panic
  | Hang => Hang
  end.

(* readOnlySegment.Read / readWriteSegment.Read *)
Definition seg_read_gen (orig : bool) (v : ver) (txn idx : list N) (base last off : Z) : outcome (list N) :=
  if ((off <? base) || (last <? off))%Z then Err EOffsetOutOfBounds else
  match file_offset idx base off with
  | None => Panic
  | Some fo => read_record_gen orig v txn fo
  end.

(* the code of the working tree *)
Definition read_record := read_record_gen false.
Definition get_record_size := get_record_size_gen false.
Definition recover_index := recover_index_gen false.
Definition read_index := read_index_gen false.
Definition ro_open := ro_open_gen false.
Definition seg_read := seg_read_gen false.

(* ---------------------------------------------------------------- encoding (specification side) *)

(* the bytes of one record *)
Definition record (v : ver) (prev : N) (p : list N) : list N :=
  match v with
  | V1 => put32 (blen p) ++ p
  | V2 => put32 (blen p) ++ put32 prev ++ put32 (cv prev p) ++ p
  end.

(* the crc chained after a record *)
Definition next_crc (v : ver) (prev : N) (p : list N) : N :=
  match v with V1 => 0 | V2 => cv prev p end.

Fixpoint encode (v : ver) (prev : N) (es : list (list N)) : list N :=
  match es with
  | [] => []
  | p :: tl => record v prev p ++ encode v (next_crc v prev p) tl
  end.

Fixpoint last_crc (v : ver) (prev : N) (es : list (list N)) : N :=
  match es with
  | [] => prev
  | p :: tl => last_crc v (next_crc v prev p) tl
  end.

(* file offsets of the records of [es] when the first one starts at [start] *)
Fixpoint offsets (v : ver) (start : N) (es : list (list N)) : list N :=
  match es with
  | [] => []
  | p :: tl => start :: offsets v (start + hdr_size v + blen p) tl
  end.

Definition zeros (n : nat) : list N := repeat 0 n.

End WithCrc.
