(* Concrete witnesses and non-vacuity examples, computed with the real CRC-32C (Codec/Crc32c.v). *)
From Coq Require Import List NArith ZArith Bool Lia.
From Oxia.Codec Require Import Model Crc32c Instance Proofs.
Import ListNotations.
Open Scope N_scope.

Fixpoint leqb (a b : list N) : bool :=
  match a, b with
  | [], [] => true
  | x :: a', y :: b' => N.eqb x y && leqb a' b'
  | _, _ => false
  end.

Definition page (n : nat) (f : list N) (i : nat) : list N := firstn n (skipn (i * n) f).

(* every page of [img] is the same page of file version A or of file version B *)
Definition pagewise (n pages : nat) (A B img : list N) : bool :=
  (length img =? pages * n)%nat && (length A =? pages * n)%nat && (length B =? pages * n)%nat &&
  forallb (fun i => leqb (page n img i) (page n A i) || leqb (page n img i) (page n B i)) (seq 0 pages).

Definition a0 : list N := [1; 1; 1; 1].
Definition a1 : list N := [2; 2; 2; 2].
Definition a2 : list N := [3; 3; 3; 3].
Definition b1 : list N := [9; 9; 9; 9].

(* version A of the segment file: entries a0 a1 a2 (16 bytes per record).
   version B: the log was truncated after a0 and b1 was appended: entries a0 b1. *)
Definition fileA : list N := c_encode V2 0 [a0; a1; a2] ++ zeros 16.
Definition fileB : list N := c_encode V2 0 [a0; b1] ++ zeros 32.
(* a crash image in which page 2 still holds the bytes of version A (never overwritten by the
   zeroes of the truncation), pages 0, 1, 3 are those of version B *)
Definition stale_img : list N := page 16 fileB 0 ++ page 16 fileB 1 ++ page 16 fileA 2 ++ page 16 fileB 3.

Definition entries_of (img : list N) (r : outcome rec_result) : list (outcome (list N)) :=
  match r with
  | Ok (idx, _, _, _) => map (c_read_record false V2 img) idx
  | _ => []
  end.

Definition shape_of (r : outcome rec_result) : option (list N * N * Z) :=
  match r with
  | Ok (idx, _, fo, le) => Some (idx, fo, le)
  | _ => None
  end.

(* The chain (previousCrc of a record = crc of its predecessor) is never compared: recovery of the
   crash image returns a0, b1, a2 -- a log that never existed (a2 was truncated away before b1 was
   appended).  The result is not a prefix of version B's log [a0; b1]. *)
Theorem stale_tail_accepted :
  pagewise 16 4 fileA fileB stale_img = true /\
  entries_of fileA (c_recover_index false V2 fileA 0 0 (Some (-1)%Z)) = [Ok a0; Ok a1; Ok a2] /\
  entries_of fileB (c_recover_index false V2 fileB 0 0 (Some (-1)%Z)) = [Ok a0; Ok b1] /\
  shape_of (c_recover_index false V2 stale_img 0 0 (Some (-1)%Z)) = Some ([0; 16; 32], 48, 2%Z) /\
  entries_of stale_img (c_recover_index false V2 stale_img 0 0 (Some (-1)%Z)) = [Ok a0; Ok b1; Ok a2].
Proof. vm_compute. repeat split; reflexivity. Qed.

(* O-13 on concrete bytes: a0 a1 a2 all committed (commit offset 2); the size field of a1 is
   zeroed: recovery returns the one-entry log [a0] and no error. *)
Definition zeroed_img : list N := firstn 16 fileA ++ [0; 0; 0; 0] ++ skipn 20 fileA.

Theorem zeroed_size_of_committed_entry_not_reported :
  shape_of (c_recover_index false V2 fileA 0 0 (Some 2%Z)) = Some ([0; 16; 32], 48, 2%Z) /\
  shape_of (c_recover_index false V2 zeroed_img 0 0 (Some 2%Z)) = Some ([0], 16, 0%Z).
Proof. vm_compute. split; reflexivity. Qed.

(* any other damage to the same committed entry is reported *)
Definition flipped_img : list N := firstn 30 fileA ++ [7] ++ skipn 31 fileA.
Example committed_payload_damage_reported :
  c_recover_index false V2 flipped_img 0 0 (Some 2%Z) = Err EDataCorrupted /\
  shape_of (c_recover_index false V2 flipped_img 0 0 (Some 0%Z)) = Some ([0], 16, 0%Z).
Proof. vm_compute. split; reflexivity. Qed.

(* ---- non-vacuity of the hypotheses of the main theorems ---- *)

(* roundtrip_v2 / roundtrip_v1 *)
Example roundtrip_hyps :
  blen (encode crc32c_update V2 0 [a0; a1; [5]] ++ zeros 16) + 12 < U32 /\
  Forall nonempty [a0; a1; [5]] /\ entry_range 7 (length [a0; a1; [5]]).
Proof. split; [vm_compute; reflexivity|]. split; [repeat constructor|]. unfold entry_range; cbn; lia. Qed.

(* crash_prefix_v2: a0 synced; a1, a2 unsynced; the crash image has a1 intact, one payload byte of
   a2 damaged: the hypotheses hold (crc_detects by computation), and the theorem's first disjunct
   holds with k = 1 *)
Definition torn_tail : list N := skipn 16 (firstn 46 fileA ++ [7] ++ skipn 47 fileA).

Example crash_prefix_hyps :
  let img := encode crc32c_update V2 0 [a0] ++ torn_tail in
  blen img < U32 /\ Forall nonempty [a0] /\ Forall nonempty [a1; a2] /\
  total V2 ([a0] ++ [a1; a2]) <= blen img /\
  crc_detects crc32c_update img (total V2 [a0]) (last_crc crc32c_update V2 0 [a0]) [a1; a2] /\
  entry_range 0 (length [a0] + length [a1; a2]) /\
  shape_of (recover_index crc32c_update V2 img 0 0 (Some 0%Z)) = Some ([0; 16], 32, 1%Z).
Proof.
  cbv zeta. split; [vm_compute; reflexivity|]. split; [repeat constructor|]. split; [repeat constructor|].
  split; [vm_compute; discriminate|].
  split.
  - cbn [crc_detects]. split; [|split; [|split; [|exact I]]].
    + intros sz pc c H. vm_compute in H. injection H as <- <- <-. vm_compute. repeat split; reflexivity.
    + intros sz pc c H. vm_compute in H. discriminate.
    + intros sz pc c H. vm_compute in H. discriminate.
  - split; [unfold entry_range; cbn; lia | vm_compute; reflexivity].
Qed.

(* committed_damage_is_error_v2_partial *)
Example committed_damage_hyps :
  let img := encode crc32c_update V2 0 [a0] ++ torn_tail in
  read_header_v2 crc32c_update img (total V2 [a0; a1]) = Err EDataCorrupted.
Proof. vm_compute. reflexivity. Qed.

(* The previousCrc field is the seed of the record's checksum and is itself never checked against the
   predecessor's crc: flipping the same bit in the seed and in the payload byte it is xor-ed with
   cancels out.  Two flipped bits (lowest bit of the previousCrc field, lowest bit of the first payload
   byte) in a committed entry: the damaged payload [0;1;1;1] is returned as a valid entry. *)
Definition flip_bit (l : list N) (i : nat) (m : N) : list N :=
  firstn i l ++ [N.lxor (nth i l 0) m] ++ skipn (S i) l.
Definition one_record : list N := c_encode V2 0 [a0] ++ zeros 16.
Definition two_bit_img : list N := flip_bit (flip_bit one_record 7 1) 12 1.

Theorem two_bit_damage_accepted :
  c_read_record false V2 one_record 0 = Ok a0 /\
  c_read_record false V2 two_bit_img 0 = Ok [0; 1; 1; 1] /\
  shape_of (c_recover_index false V2 two_bit_img 0 0 (Some 5%Z)) = Some ([0], 16, 0%Z).
Proof. vm_compute. repeat split; reflexivity. Qed.
