(* The model of Codec/Model.v instantiated with the concrete CRC-32C of Codec/Crc32c.v:
   what is extracted for the correspondence run and used for concrete witnesses.
   [orig = true] selects the code as found at the pinned commit (before the O-6 repair). *)
From Coq Require Import List NArith ZArith.
From Oxia.Codec Require Import Model Crc32c.
Open Scope N_scope.

Definition c_cv := cv crc32c_update.
Definition c_read_header := read_header crc32c_update.
Definition c_read_record := read_record_gen crc32c_update.
Definition c_get_record_size := get_record_size_gen crc32c_update.
Definition c_write_record := write_record crc32c_update.
Definition c_recover_index := recover_index_gen crc32c_update.
Definition c_index_file := index_file crc32c_update.
Definition c_read_index := read_index_gen crc32c_update.
Definition c_ro_open := ro_open_gen crc32c_update.
Definition c_seg_read := seg_read_gen crc32c_update.
Definition c_encode := encode crc32c_update.
