(* Proofs about the codec / recovery model (Codec/Model.v), generic in the CRC function. *)
From Coq Require Import List NArith ZArith Bool Lia Arith ZifyN ZifyNat ZifyBool.
From Oxia.Codec Require Import Model.
Import ListNotations.
Open Scope N_scope.

Ltac Zify.zify_post_hook ::= Z.div_mod_to_equations.

(* ------------------------------------------------------------------ *)
(* bytes                                                                *)

Lemma blen_app a b : blen (a ++ b) = blen a + blen b.
Proof. unfold blen. rewrite app_length. lia. Qed.

Lemma blen_nil : blen [] = 0.
Proof. reflexivity. Qed.

Lemma blen_put32 v : blen (put32 v) = 4.
Proof. reflexivity. Qed.

Lemma blen_cons x l : blen (x :: l) = 1 + blen l.
Proof. unfold blen. cbn [length]. lia. Qed.

Lemma length_blen l : N.to_nat (blen l) = length l.
Proof. unfold blen. lia. Qed.

Lemma sub_length b lo n : lo + n <= blen b -> blen (sub b lo n) = n.
Proof.
  unfold sub, blen. intros H. rewrite firstn_length, skipn_length. lia.
Qed.

Lemma sub_app_mid a x c : sub (a ++ x ++ c) (blen a) (blen x) = x.
Proof.
  unfold sub. rewrite !length_blen.
  rewrite skipn_app, skipn_all, Nat.sub_diag. cbn [skipn app].
  rewrite firstn_app, firstn_all, Nat.sub_diag. cbn [firstn]. apply app_nil_r.
Qed.

Lemma slice_some b lo hi : lo <= hi -> hi <= blen b -> slice b lo hi = Some (sub b lo (hi - lo)).
Proof.
  intros H1 H2. unfold slice.
  apply N.leb_le in H1. apply N.leb_le in H2. rewrite H1, H2. reflexivity.
Qed.

Lemma slice_app_mid a x c :
  slice (a ++ x ++ c) (blen a) (blen a + blen x) = Some x.
Proof.
  rewrite slice_some.
  - replace (blen a + blen x - blen a) with (blen x) by lia. now rewrite sub_app_mid.
  - lia.
  - rewrite !blen_app. lia.
Qed.

Lemma be32_put32 v : v < U32 -> be32 (put32 v) = v.
Proof.
  unfold be32, put32, U32. cbn [fold_left]. intros H. lia.
Qed.

Lemma be32_4 a b c d : be32 [a; b; c; d] = ((a mod 256 * 256 + b mod 256) * 256 + c mod 256) * 256 + d mod 256.
Proof. unfold be32. cbn [fold_left]. lia. Qed.

Lemma mod_le_self a : a mod U32 <= a.
Proof. unfold U32. lia. Qed.

Lemma mod_lt_U32 a : a mod U32 < U32.
Proof. unfold U32. lia. Qed.

(* reading 4 bytes that are inside the part of the buffer the Go code believes in *)
Lemma read_int_ok b off : off + 4 <= blen b mod U32 ->
  exists v, read_int b off = Some v.
Proof.
  intros H. unfold read_int.
  pose proof (mod_le_self (blen b)). pose proof (mod_lt_U32 (blen b)).
  replace ((off + 4) mod U32) with (off + 4) by (unfold U32 in *; lia).
  rewrite slice_some by lia. eauto.
Qed.

Lemma read_int_app a v c : v < U32 -> blen a + 4 < U32 ->
  read_int (a ++ put32 v ++ c) (blen a) = Some v.
Proof.
  intros Hv Ha. unfold read_int.
  replace ((blen a + 4) mod U32) with (blen a + blen (put32 v)) by (rewrite blen_put32; unfold U32 in *; lia).
  rewrite slice_app_mid. now rewrite be32_put32.
Qed.

Lemma sub32_small a b : b <= a -> a < U32 -> sub32 a b = a - b.
Proof. unfold sub32, U32. intros. lia. Qed.

Lemma add32_small a b : a + b < U32 -> add32 a b = a + b.
Proof. unfold add32, U32. intros. lia. Qed.

Lemma cv_lt crc p l : cv crc p l < U32.
Proof. unfold cv, crc_value, add32. apply mod_lt_U32. Qed.

(* ------------------------------------------------------------------ *)
(* what an Ok header means (code of the working tree)                   *)

Section Generic.
Variable crc : N -> list N -> N.

Notation rh2 := (read_header_v2 crc).
Notation cvf := (cv crc).

Lemma rh_v2_inv buf start sz p c : start < U32 ->
  rh2 buf start = Ok (sz, p, c) ->
  0 < sz /\ start + 12 + sz <= blen buf mod U32 /\
  read_int buf start = Some sz /\ read_int buf (start + 4) = Some p /\ read_int buf (start + 8) = Some c /\
  slice buf (start + 12) (start + 12 + sz) = Some (sub buf (start + 12) sz) /\
  cvf p (sub buf (start + 12) sz) = c.
Proof.
  intros Hs. unfold read_header_v2.
  remember (blen buf mod U32) as bs eqn:Ebs.
  assert (Hbs : bs < U32) by (subst bs; apply mod_lt_U32).
  assert (Hle : bs <= blen buf) by (subst bs; apply mod_le_self).
  destruct ((bs <=? start) || (sub32 bs start <? 4)) eqn:E1; [discriminate|].
  apply orb_false_iff in E1 as [Ea Eb]. apply N.leb_gt in Ea. apply N.ltb_ge in Eb.
  rewrite (sub32_small bs start) in * by lia.
  destruct (read_int buf start) as [v|] eqn:Hv; [|discriminate].
  destruct (v =? 0) eqn:Ez; [discriminate|]. apply N.eqb_neq in Ez.
  destruct ((bs - start <? 12) || (sub32 (bs - start) 12 <? v)) eqn:E2; [discriminate|].
  apply orb_false_iff in E2 as [Ec Ed]. apply N.ltb_ge in Ec.
  rewrite (sub32_small (bs - start) 12) in Ed by lia. apply N.ltb_ge in Ed.
  rewrite (add32_small start 4), (add32_small start 8), (add32_small start 12) by lia.
  rewrite (add32_small (start + 12) v) by lia.
  destruct (read_int buf (start + 4)) as [pc|] eqn:Hp; [|discriminate].
  destruct (read_int buf (start + 8)) as [cc|] eqn:Hc; [|discriminate].
  rewrite slice_some by lia.
  replace (start + 12 + v - (start + 12)) with v by lia.
  destruct (cv crc pc (sub buf (start + 12) v) =? cc) eqn:Ecrc; [|discriminate].
  apply N.eqb_eq in Ecrc.
  intros H. injection H as <- <- <-.
  repeat split; try lia; try assumption.
  rewrite slice_some by lia. f_equal. f_equal. lia.
Qed.

Lemma rh_v1_inv buf start sz p c : start < U32 ->
  read_header_v1 buf start = Ok (sz, p, c) ->
  0 < sz /\ start + 4 + sz <= blen buf mod U32 /\ read_int buf start = Some sz /\ p = 0 /\ c = 0.
Proof.
  intros Hs. unfold read_header_v1.
  remember (blen buf mod U32) as bs eqn:Ebs.
  assert (Hbs : bs < U32) by (subst bs; apply mod_lt_U32).
  destruct ((bs <=? start) || (sub32 bs start <? 4)) eqn:E1; [discriminate|].
  apply orb_false_iff in E1 as [Ea Eb]. apply N.leb_gt in Ea. apply N.ltb_ge in Eb.
  rewrite (sub32_small bs start) in * by lia.
  destruct (read_int buf start) as [v|] eqn:Hv; [|discriminate].
  destruct (v =? 0) eqn:Ez; [discriminate|]. apply N.eqb_neq in Ez.
  rewrite (sub32_small (bs - start) 4) by lia.
  destruct (bs - start - 4 <? v) eqn:Ed; [discriminate|]. apply N.ltb_ge in Ed.
  intros H. injection H as <- <- <-. repeat split; try lia.
Qed.

(* ------------------------------------------------------------------ *)
(* never panics                                                         *)

Theorem read_header_v2_total buf start : start < U32 ->
  rh2 buf start <> Panic /\ rh2 buf start <> Hang.
Proof.
  intros Hs. unfold read_header_v2.
  remember (blen buf mod U32) as bs eqn:Ebs.
  assert (Hbs : bs < U32) by (subst bs; apply mod_lt_U32).
  assert (Hle : bs <= blen buf) by (subst bs; apply mod_le_self).
  destruct ((bs <=? start) || (sub32 bs start <? 4)) eqn:E1; [split; discriminate|].
  apply orb_false_iff in E1 as [Ea Eb]. apply N.leb_gt in Ea. apply N.ltb_ge in Eb.
  rewrite (sub32_small bs start) in * by lia.
  destruct (read_int_ok buf start) as [v Hv]; [rewrite <- Ebs; lia|]. rewrite Hv.
  destruct (v =? 0); [split; discriminate|].
  destruct ((bs - start <? 12) || (sub32 (bs - start) 12 <? v)) eqn:E2; [split; discriminate|].
  apply orb_false_iff in E2 as [Ec Ed]. apply N.ltb_ge in Ec.
  rewrite (sub32_small (bs - start) 12) in Ed by lia. apply N.ltb_ge in Ed.
  rewrite (add32_small start 4), (add32_small start 8), (add32_small start 12) by lia.
  rewrite (add32_small (start + 12) v) by lia.
  destruct (read_int_ok buf (start + 4)) as [pc Hp]; [rewrite <- Ebs; lia|]. rewrite Hp.
  destruct (read_int_ok buf (start + 8)) as [cc Hc]; [rewrite <- Ebs; lia|]. rewrite Hc.
  rewrite slice_some by lia.
  destruct (_ =? cc); split; discriminate.
Qed.

Theorem read_header_v1_total buf start : start < U32 ->
  read_header_v1 buf start <> Panic /\ read_header_v1 buf start <> Hang.
Proof.
  intros Hs. unfold read_header_v1.
  remember (blen buf mod U32) as bs eqn:Ebs.
  assert (Hbs : bs < U32) by (subst bs; apply mod_lt_U32).
  destruct ((bs <=? start) || (sub32 bs start <? 4)) eqn:E1; [split; discriminate|].
  apply orb_false_iff in E1 as [Ea Eb]. apply N.leb_gt in Ea. apply N.ltb_ge in Eb.
  rewrite (sub32_small bs start) in * by lia.
  destruct (read_int_ok buf start) as [v Hv]; [rewrite <- Ebs; lia|]. rewrite Hv.
  destruct (v =? 0); [split; discriminate|].
  destruct (_ <? v); split; discriminate.
Qed.

Theorem read_header_total v buf start : start < U32 ->
  read_header crc false v buf start <> Panic /\ read_header crc false v buf start <> Hang.
Proof.
  destruct v; cbn [read_header]; [apply read_header_v1_total | apply read_header_v2_total].
Qed.

(* an Ok header leaves the whole record inside the buffer, for both formats *)
Lemma rh_ok_bounds v buf start sz p c : start < U32 ->
  read_header crc false v buf start = Ok (sz, p, c) ->
  0 < sz /\ start + hdr_size v + sz <= blen buf mod U32.
Proof.
  intros Hs H. destruct v; cbn [read_header hdr_size] in *.
  - apply rh_v1_inv in H; [|assumption]. tauto.
  - apply rh_v2_inv in H; [|assumption]. tauto.
Qed.

Theorem read_record_total v buf start : start < U32 ->
  read_record crc v buf start <> Panic /\ read_record crc v buf start <> Hang.
Proof.
  intros Hs. unfold read_record, read_record_gen.
  destruct (read_header crc false v buf start) as [[[sz p] c]|e| |] eqn:H.
  - apply rh_ok_bounds in H as [H0 H1]; [|assumption].
    pose proof (mod_lt_U32 (blen buf)). pose proof (mod_le_self (blen buf)).
    assert (hdr_size v <= 12) by (destruct v; cbn; lia).
    rewrite !add32_small by lia. rewrite slice_some by lia. split; discriminate.
  - split; discriminate.
  - destruct (read_header_total v buf start Hs) as [A _]. contradiction.
  - destruct (read_header_total v buf start Hs) as [_ A]. contradiction.
Qed.

Theorem get_record_size_total v buf start : start < U32 ->
  get_record_size crc v buf start <> Panic /\ get_record_size crc v buf start <> Hang.
Proof.
  intros Hs. unfold get_record_size, get_record_size_gen.
  destruct (read_header_total v buf start Hs) as [A B].
  destruct (read_header crc false v buf start) as [[[sz p] c]|e| |]; try contradiction; split; discriminate.
Qed.

End Generic.

(* ------------------------------------------------------------------ *)
(* RecoverIndex, ReadIndex, segment open and read: total                *)

Lemma read_int_lt b off v : read_int b off = Some v -> v < U32.
Proof.
  unfold read_int, slice.
  destruct ((off <=? (off + 4) mod U32) && ((off + 4) mod U32 <=? blen b)) eqn:E; [|discriminate].
  apply andb_true_iff in E as [E1 E2]. apply N.leb_le in E1. apply N.leb_le in E2.
  intros H. injection H as <-.
  assert (Hn : (off + 4) mod U32 - off <= 4) by (unfold U32 in *; lia).
  assert (Hl : (length (sub b off ((off + 4) mod U32 - off)) <= 4)%nat).
  { unfold sub. rewrite firstn_length. lia. }
  destruct (sub b off ((off + 4) mod U32 - off)) as [|x0 [|x1 [|x2 [|x3 [|x4 l]]]]]; cbn [length] in Hl; try lia;
    unfold be32, U32; cbn [fold_left]; lia.
Qed.

Lemma read_int_ok' b off : off + 4 <= blen b -> off + 4 < U32 -> exists v, read_int b off = Some v.
Proof.
  intros H1 H2. unfold read_int.
  replace ((off + 4) mod U32) with (off + 4) by (unfold U32 in *; lia).
  rewrite slice_some by lia. eauto.
Qed.

Section Total.
Variable crc : N -> list N -> N.

Lemma recover_loop_v2_total : forall fuel buf commit off cur idx lc,
  off < U32 ->
  (blen buf mod U32 < off /\ (0 < fuel)%nat) \/ (off <= blen buf mod U32 /\ blen buf mod U32 - off < N.of_nat fuel) ->
  recover_loop_v2 crc false fuel buf commit off cur idx lc <> Panic /\
  recover_loop_v2 crc false fuel buf commit off cur idx lc <> Hang.
Proof.
  induction fuel as [|f IH]; intros buf commit off cur idx lc Ho Hf.
  - exfalso. lia.
  - cbn [recover_loop_v2].
    destruct (add32 off 12 <=? blen buf mod U32); [|split; discriminate].
    destruct (read_header_total crc V2 buf off Ho) as [NP NH].
    destruct (read_header crc false V2 buf off) as [[[sz p] c]|e| |] eqn:H; try contradiction.
    + apply rh_ok_bounds in H as [H0 H1]; [|assumption]. cbn [hdr_size] in H1.
      pose proof (mod_lt_U32 (blen buf)).
      rewrite (add32_small 12 sz) by lia. rewrite (add32_small off (12 + sz)) by lia.
      apply IH; lia.
    + destruct e; try (split; discriminate);
        destruct commit as [cm|]; try (split; discriminate);
        destruct (cm <? cur)%Z; split; discriminate.
Qed.

Lemma recover_loop_v1_total : forall fuel buf off cur idx,
  off < U32 ->
  (blen buf mod U32 < off /\ (0 < fuel)%nat) \/ (off <= blen buf mod U32 /\ blen buf mod U32 - off < N.of_nat fuel) ->
  recover_loop_v1 crc false fuel buf off cur idx <> Panic /\
  recover_loop_v1 crc false fuel buf off cur idx <> Hang.
Proof.
  induction fuel as [|f IH]; intros buf off cur idx Ho Hf.
  - exfalso. lia.
  - cbn [recover_loop_v1].
    destruct (off <? blen buf mod U32); [|split; discriminate].
    destruct (read_header_total crc V1 buf off Ho) as [NP NH].
    destruct (read_header crc false V1 buf off) as [[[sz p] c]|e| |] eqn:H; try contradiction.
    + apply rh_ok_bounds in H as [H0 H1]; [|assumption]. cbn [hdr_size] in H1.
      pose proof (mod_lt_U32 (blen buf)).
      rewrite (add32_small 4 sz) by lia. rewrite (add32_small off (4 + sz)) by lia.
      apply IH; lia.
    + destruct e; split; discriminate.
Qed.

(* RecoverIndex returns Ok or Err -- never panics, never loops -- for every buffer, start offset,
   base entry offset and commit offset *)
Theorem recover_index_total v buf start base commit : start < U32 ->
  recover_index crc v buf start base commit <> Panic /\ recover_index crc v buf start base commit <> Hang.
Proof.
  intros Hs. unfold recover_index, recover_index_gen.
  assert (Hf : (blen buf mod U32 < start /\ (0 < S (length buf))%nat) \/
               (start <= blen buf mod U32 /\ blen buf mod U32 - start < N.of_nat (S (length buf)))).
  { pose proof (mod_le_self (blen buf)). unfold blen in *. lia. }
  destruct v.
  - now apply recover_loop_v1_total.
  - now apply recover_loop_v2_total.
Qed.

Theorem read_index_total v file : read_index crc v file <> Panic /\ read_index crc v file <> Hang.
Proof.
  unfold read_index, read_index_gen. destruct file as [f|]; [|split; discriminate].
  destruct v; [split; discriminate|].
  destruct (blen f <? 4); [split; discriminate|].
  destruct (_ =? _); split; discriminate.
Qed.

(* the number of index entries is bounded by the buffer: 4 bytes of index per record of >= 5 bytes *)
Lemma recover_loop_v2_count : forall fuel buf commit off cur idx lc idx' lc' fo le,
  off < U32 ->
  recover_loop_v2 crc false fuel buf commit off cur idx lc = Ok (idx', lc', fo, le) ->
  4 * blen idx' <= 4 * blen idx + (blen buf mod U32 - off).
Proof.
  induction fuel as [|f IH]; intros buf commit off cur idx lc idx' lc' fo le Ho; cbn [recover_loop_v2]; [discriminate|].
  destruct (add32 off 12 <=? blen buf mod U32); [|intros H; injection H as <- _ _ _; lia].
  destruct (read_header crc false V2 buf off) as [[[sz p] c]|e| |] eqn:H; try discriminate.
  - apply rh_ok_bounds in H as [H0 H1]; [|assumption]. cbn [hdr_size] in H1.
    pose proof (mod_lt_U32 (blen buf)).
    rewrite (add32_small 12 sz) by lia. rewrite (add32_small off (12 + sz)) by lia.
    intros HR. apply IH in HR; [|lia]. rewrite blen_app, blen_cons, blen_nil in HR. lia.
  - destruct e; try discriminate; try (intros HR; injection HR as <- _ _ _; lia);
      destruct commit as [cm|]; try discriminate;
      destruct (cm <? cur)%Z; try discriminate; intros HR; injection HR as <- _ _ _; lia.
Qed.

Lemma recover_loop_v1_count : forall fuel buf off cur idx idx' lc' fo le,
  off < U32 ->
  recover_loop_v1 crc false fuel buf off cur idx = Ok (idx', lc', fo, le) ->
  4 * blen idx' <= 4 * blen idx + (blen buf mod U32 - off).
Proof.
  induction fuel as [|f IH]; intros buf off cur idx idx' lc' fo le Ho; cbn [recover_loop_v1]; [discriminate|].
  destruct (off <? blen buf mod U32); [|intros H; injection H as <- _ _ _; lia].
  destruct (read_header crc false V1 buf off) as [[[sz p] c]|e| |] eqn:H; try discriminate.
  - apply rh_ok_bounds in H as [H0 H1]; [|assumption]. cbn [hdr_size] in H1.
    pose proof (mod_lt_U32 (blen buf)).
    rewrite (add32_small 4 sz) by lia. rewrite (add32_small off (4 + sz)) by lia.
    intros HR. apply IH in HR; [|lia]. rewrite blen_app, blen_cons, blen_nil in HR. lia.
  - destruct e; try discriminate; intros HR; injection HR as <- _ _ _; lia.
Qed.

Lemma blen_idx_bytes offs : blen (idx_bytes offs) = 4 * blen offs.
Proof.
  induction offs as [|o tl IH]; [reflexivity|].
  unfold idx_bytes in *. cbn [flat_map]. rewrite blen_app, blen_put32, blen_cons, IH. lia.
Qed.

Lemma recover_index_count v buf base commit offs lc fo le :
  recover_index crc v buf 0 base commit = Ok (offs, lc, fo, le) -> blen (idx_bytes offs) < U32.
Proof.
  unfold recover_index, recover_index_gen. intros H. rewrite blen_idx_bytes.
  pose proof (mod_lt_U32 (blen buf)).
  destruct v.
  - apply recover_loop_v1_count in H; [|unfold U32; lia]. rewrite blen_nil in H. lia.
  - apply recover_loop_v2_count in H; [|unfold U32; lia]. rewrite blen_nil in H. lia.
Qed.

(* fileOffset(idx, base, off) is inside the index for base <= off <= base + len/4 - 1 *)
Lemma file_offset_ok idx base off :
  blen idx < U32 -> (base <= off)%Z -> (off <= base + (Z.of_N (blen idx / 4) - 1))%Z ->
  exists fo, file_offset idx base off = Some fo /\ fo < U32.
Proof.
  intros Hl H1 H2. unfold file_offset.
  destruct (read_int_ok' idx (Z.to_N (((off - base) * 4) mod 4294967296))) as [fo Hfo].
  - unfold U32 in *. lia.
  - unfold U32 in *. lia.
  - exists fo. split; [assumption|]. eapply read_int_lt; eassumption.
Qed.

Lemma ro_finish_total v txn base idx : blen idx < U32 ->
  ro_finish crc false v txn base idx <> Panic /\ ro_finish crc false v txn base idx <> Hang.
Proof.
  intros Hi. unfold ro_finish. cbn [negb andb].
  destruct (blen idx <? 4) eqn:E4; [split; discriminate|]. apply N.ltb_ge in E4.
  cbv zeta.
  destruct (file_offset_ok idx base (base + (Z.of_N (blen idx / 4) - 1))%Z) as [fo [Hfo Hlt]]; [assumption|lia|lia|].
  rewrite Hfo.
  destruct (read_header_total crc v txn fo Hlt) as [NP NH].
  destruct (read_header crc false v txn fo) as [[[sz p] c]|e| |]; try contradiction; split; discriminate.
Qed.

(* newReadOnlySegment never panics: whatever the txn file and the idx file contain *)
Theorem ro_open_total v txn idxfile base :
  match idxfile with Some f => blen f < U32 | None => True end ->
  ro_open crc v txn idxfile base <> Panic /\ ro_open crc v txn idxfile base <> Hang.
Proof.
  intros Hlen. unfold ro_open, ro_open_gen.
  destruct (read_index_total v idxfile) as [NP NH]. unfold read_index in *.
  destruct (read_index_gen crc false v idxfile) as [idx|e| |] eqn:HR; try contradiction.
  - apply ro_finish_total.
    unfold read_index_gen in HR. destruct idxfile as [f|]; [|discriminate].
    destruct v.
    + injection HR as <-. assumption.
    + destruct (blen f <? 4); [discriminate|]. destruct (_ =? _); [|discriminate].
      assert (E : idx = skipn 4 f) by congruence. subst idx. clear HR.
      unfold blen in *. rewrite skipn_length. lia.
  - destruct e; try (split; discriminate).
    assert (H0 : (0 : N) < U32) by (unfold U32; lia).
    destruct (recover_index_total v txn 0 base None H0) as [RP RH]. unfold recover_index in *.
    destruct (recover_index_gen crc false v txn 0 base None) as [[[[offs lc] fo] le]|e| |] eqn:HRec; try contradiction.
    + apply ro_finish_total. eapply recover_index_count. exact HRec.
    + split; discriminate.
Qed.

(* Read(offset) never panics for any offset, on every segment whose last offset is consistent with its index *)
Theorem seg_read_total v txn idx base last off :
  blen idx < U32 -> (last <= base + (Z.of_N (blen idx / 4) - 1))%Z ->
  seg_read crc v txn idx base last off <> Panic /\ seg_read crc v txn idx base last off <> Hang.
Proof.
  intros Hl Hlast. unfold seg_read, seg_read_gen.
  destruct ((off <? base)%Z || (last <? off)%Z) eqn:E; [split; discriminate|].
  apply orb_false_iff in E as [E1 E2]. apply Z.ltb_ge in E1. apply Z.ltb_ge in E2.
  destruct (file_offset_ok idx base off) as [fo [Hfo Hlt]]; [assumption|lia|lia|].
  rewrite Hfo. apply (read_record_total crc v txn fo Hlt).
Qed.

End Total.

(* ------------------------------------------------------------------ *)
(* encoded records are read back: headers, payloads, the index          *)

Definition nonempty (p : list N) : Prop := 0 < blen p.

(* int64 entry counter after n increments *)
Fixpoint bump (n : nat) (cur : Z) : Z :=
  match n with O => cur | S k => bump k (wrap64 (cur + 1)) end.

Definition int64 (z : Z) : Prop := (-9223372036854775808 <= z < 9223372036854775808)%Z.

Lemma wrap64_id z : int64 z -> wrap64 z = z.
Proof. unfold int64, wrap64. lia. Qed.

Lemma bump_small n cur : int64 cur -> int64 (cur + Z.of_nat n) -> bump n cur = (cur + Z.of_nat n)%Z.
Proof.
  revert cur; induction n as [|k IH]; intros cur H1 H2; cbn [bump].
  - lia.
  - rewrite wrap64_id by (unfold int64 in *; lia). rewrite IH; unfold int64 in *; lia.
Qed.

Lemma read_int_at a v c off : off = blen a -> v < U32 -> off + 4 < U32 ->
  read_int (a ++ put32 v ++ c) off = Some v.
Proof. intros -> Hv Ho. now apply read_int_app. Qed.

Lemma put32_0 : put32 0 = [0; 0; 0; 0].
Proof. reflexivity. Qed.

Lemma zeros_split n : (4 <= n)%nat -> zeros n = put32 0 ++ zeros (n - 4).
Proof.
  intros H. rewrite put32_0. unfold zeros.
  replace n with (4 + (n - 4))%nat at 1 by lia. rewrite repeat_app. reflexivity.
Qed.

Lemma blen_zeros n : blen (zeros n) = N.of_nat n.
Proof. unfold blen, zeros. now rewrite repeat_length. Qed.

Section Chain.
Variable crc : N -> list N -> N.
Notation cvf := (cv crc).

Lemma blen_record v prev p : blen (record crc v prev p) = hdr_size v + blen p.
Proof.
  destruct v; unfold record; rewrite !blen_app, !blen_put32; cbn [hdr_size]; lia.
Qed.

Lemma next_crc_lt v prev p : prev < U32 -> next_crc crc v prev p < U32.
Proof. intros H. destruct v; cbn [next_crc]; [unfold U32; lia | apply cv_lt]. Qed.

(* the header of an encoded record, wherever it sits in a buffer *)
Lemma header_at_v2 pre prev p post :
  blen (pre ++ record crc V2 prev p ++ post) < U32 -> nonempty p -> prev < U32 ->
  read_header_v2 crc (pre ++ record crc V2 prev p ++ post) (blen pre) = Ok (blen p, prev, cvf prev p).
Proof.
  intros Hlen Hp Hprev. unfold nonempty in Hp.
  pose proof (cv_lt crc prev p) as Hcv.
  remember (pre ++ record crc V2 prev p ++ post) as buf eqn:Ebuf.
  assert (Hb : blen buf = blen pre + (12 + blen p) + blen post).
  { subst buf. rewrite !blen_app, blen_record. cbn [hdr_size]. lia. }
  assert (R0 : read_int buf (blen pre) = Some (blen p)).
  { subst buf. unfold record. rewrite <- !app_assoc. apply read_int_at; [reflexivity|lia|lia]. }
  assert (R1 : read_int buf (blen pre + 4) = Some prev).
  { subst buf. unfold record. rewrite <- !app_assoc. rewrite (app_assoc pre).
    apply read_int_at; [rewrite blen_app, blen_put32; lia|lia|lia]. }
  assert (R2 : read_int buf (blen pre + 8) = Some (cvf prev p)).
  { subst buf. unfold record. rewrite <- !app_assoc. rewrite (app_assoc pre). rewrite (app_assoc (pre ++ _)).
    apply read_int_at; [rewrite !blen_app, !blen_put32; lia|lia|lia]. }
  assert (R3 : slice buf (blen pre + 12) (blen pre + 12 + blen p) = Some p).
  { subst buf. unfold record. rewrite <- !app_assoc.
    rewrite (app_assoc pre). rewrite (app_assoc (pre ++ _)). rewrite (app_assoc ((pre ++ _) ++ _)).
    replace (blen pre + 12) with (blen (((pre ++ put32 (blen p)) ++ put32 prev) ++ put32 (cvf prev p)))
      by (rewrite !blen_app, !blen_put32; lia).
    apply slice_app_mid. }
  unfold read_header_v2.
  replace (blen buf mod U32) with (blen buf) by (unfold U32 in *; lia).
  assert (E1 : (blen buf <=? blen pre) || (sub32 (blen buf) (blen pre) <? 4) = false).
  { rewrite sub32_small by lia. apply orb_false_iff. split; [apply N.leb_gt|apply N.ltb_ge]; lia. }
  rewrite E1, R0.
  replace (blen p =? 0) with false by (symmetry; apply N.eqb_neq; lia).
  rewrite (sub32_small (blen buf) (blen pre)) by lia.
  assert (E2 : (blen buf - blen pre <? 12) || (sub32 (blen buf - blen pre) 12 <? blen p) = false).
  { rewrite sub32_small by lia. apply orb_false_iff. split; apply N.ltb_ge; lia. }
  rewrite E2.
  rewrite (add32_small (blen pre) 4), (add32_small (blen pre) 8), (add32_small (blen pre) 12) by lia.
  rewrite (add32_small (blen pre + 12) (blen p)) by lia.
  rewrite R1, R2, R3. now rewrite N.eqb_refl.
Qed.

Lemma header_at_v1 pre prev p post :
  blen (pre ++ record crc V1 prev p ++ post) < U32 -> nonempty p ->
  read_header_v1 (pre ++ record crc V1 prev p ++ post) (blen pre) = Ok (blen p, 0, 0).
Proof.
  intros Hlen Hp. unfold nonempty in Hp.
  remember (pre ++ record crc V1 prev p ++ post) as buf eqn:Ebuf.
  assert (Hb : blen buf = blen pre + (4 + blen p) + blen post).
  { subst buf. rewrite !blen_app, blen_record. cbn [hdr_size]. lia. }
  assert (R0 : read_int buf (blen pre) = Some (blen p)).
  { subst buf. unfold record. rewrite <- !app_assoc. apply read_int_at; [reflexivity|lia|lia]. }
  unfold read_header_v1.
  replace (blen buf mod U32) with (blen buf) by (unfold U32 in *; lia).
  assert (E1 : (blen buf <=? blen pre) || (sub32 (blen buf) (blen pre) <? 4) = false).
  { rewrite sub32_small by lia. apply orb_false_iff. split; [apply N.leb_gt|apply N.ltb_ge]; lia. }
  rewrite E1, R0.
  replace (blen p =? 0) with false by (symmetry; apply N.eqb_neq; lia).
  rewrite (sub32_small (blen buf) (blen pre)) by lia.
  rewrite (sub32_small (blen buf - blen pre) 4) by lia.
  replace (blen buf - blen pre - 4 <? blen p) with false by (symmetry; apply N.ltb_ge; lia).
  reflexivity.
Qed.

(* previous-crc field as the reader reports it *)
Definition hprev (v : ver) (prev : N) : N := match v with V1 => 0 | V2 => prev end.

Lemma header_at v pre prev p post :
  blen (pre ++ record crc v prev p ++ post) < U32 -> nonempty p -> prev < U32 ->
  read_header crc false v (pre ++ record crc v prev p ++ post) (blen pre)
  = Ok (blen p, hprev v prev, next_crc crc v prev p).
Proof.
  intros. destruct v; cbn [read_header hprev next_crc].
  - now apply header_at_v1.
  - now apply header_at_v2.
Qed.

Lemma payload_at v pre prev p post :
  slice (pre ++ record crc v prev p ++ post) (blen pre + hdr_size v) (blen pre + hdr_size v + blen p) = Some p.
Proof.
  destruct v; unfold record; cbn [hdr_size]; rewrite <- !app_assoc.
  - rewrite (app_assoc pre).
    replace (blen pre + 4) with (blen (pre ++ put32 (blen p))) by (rewrite !blen_app, !blen_put32; lia).
    apply slice_app_mid.
  - rewrite (app_assoc pre). rewrite (app_assoc (pre ++ _)). rewrite (app_assoc ((pre ++ _) ++ _)).
    replace (blen pre + 12) with (blen (((pre ++ put32 (blen p)) ++ put32 prev) ++ put32 (cvf prev p)))
      by (rewrite !blen_app, !blen_put32; lia).
    apply slice_app_mid.
Qed.

Lemma record_at v pre prev p post :
  blen (pre ++ record crc v prev p ++ post) < U32 -> nonempty p -> prev < U32 ->
  read_record crc v (pre ++ record crc v prev p ++ post) (blen pre) = Ok p.
Proof.
  intros Hlen Hp Hprev. unfold read_record, read_record_gen.
  rewrite header_at by assumption.
  assert (Hb : blen pre + hdr_size v + blen p <= blen (pre ++ record crc v prev p ++ post)).
  { rewrite !blen_app, blen_record. lia. }
  assert (hdr_size v <= 12) by (destruct v; cbn; lia).
  rewrite (add32_small (blen pre) (hdr_size v)) by lia.
  rewrite (add32_small (blen pre + hdr_size v) (blen p)) by lia.
  now rewrite payload_at.
Qed.

Lemma blen_encode_cons v prev p tl :
  blen (encode crc v prev (p :: tl)) = hdr_size v + blen p + blen (encode crc v (next_crc crc v prev p) tl).
Proof. cbn [encode]. rewrite blen_app, blen_record. lia. Qed.

(* every encoded record reads back bit-identically at its offset *)
Lemma reads_chain v : forall es pre post prev buf,
  buf = pre ++ encode crc v prev es ++ post ->
  blen buf < U32 -> Forall nonempty es -> prev < U32 ->
  Forall2 (fun off p => read_record crc v buf off = Ok p) (offsets v (blen pre) es) es.
Proof.
  induction es as [|p tl IH]; intros pre post prev buf Ebuf Hlen Hne Hprev; cbn [offsets].
  - constructor.
  - inversion Hne as [|? ? Hp Htl]; subst.
    constructor.
    + cbn [encode]. rewrite <- app_assoc. apply record_at; [|assumption|assumption].
      cbn [encode] in Hlen. now rewrite <- app_assoc in Hlen.
    + replace (blen pre + hdr_size v + blen p) with (blen (pre ++ record crc v prev p))
        by (rewrite blen_app, blen_record; lia).
      eapply IH with (post := post) (prev := next_crc crc v prev p); try assumption.
      * cbn [encode]. now rewrite <- !app_assoc.
      * now apply next_crc_lt.
Qed.

(* lastCrc as the v2 loop tracks it *)
Fixpoint last_lc (lc prev : N) (es : list (list N)) : N :=
  match es with
  | [] => lc
  | p :: tl => last_lc (cvf prev p) (cvf prev p) tl
  end.

Lemma last_lc_eq prev es : last_lc prev prev es = last_crc crc V2 prev es.
Proof.
  revert prev; induction es as [|p tl IH]; intros prev; cbn [last_lc last_crc next_crc]; [reflexivity|apply IH].
Qed.

(* the v2 recovery loop walks over a chain of encoded records *)
Lemma loop_v2_chain : forall es fuel pre post prev buf commit cur idx lc,
  buf = pre ++ encode crc V2 prev es ++ post ->
  blen buf < U32 -> Forall nonempty es -> prev < U32 ->
  recover_loop_v2 crc false (length es + fuel) buf commit (blen pre) cur idx lc
  = recover_loop_v2 crc false fuel buf commit (blen pre + blen (encode crc V2 prev es))
      (bump (length es) cur) (idx ++ offsets V2 (blen pre) es) (last_lc lc prev es).
Proof.
  induction es as [|p tl IH]; intros fuel pre post prev buf commit cur idx lc Ebuf Hlen Hne Hprev.
  - cbn [encode length bump offsets last_lc plus]. rewrite blen_nil, N.add_0_r, app_nil_r. reflexivity.
  - inversion Hne as [|? ? Hp Htl]; subst x l.
    cbn [length plus recover_loop_v2].
    assert (Ebuf' : buf = pre ++ record crc V2 prev p ++ (encode crc V2 (cvf prev p) tl ++ post)).
    { rewrite Ebuf. cbn [encode next_crc]. now rewrite <- !app_assoc. }
    assert (Hb : blen pre + 12 + blen p <= blen buf).
    { rewrite Ebuf'. rewrite !blen_app, blen_record. cbn [hdr_size]. lia. }
    replace (blen buf mod U32) with (blen buf) by (unfold U32 in *; lia).
    unfold nonempty in Hp.
    rewrite (add32_small (blen pre) 12) by lia.
    replace (blen pre + 12 <=? blen buf) with true by (symmetry; apply N.leb_le; lia).
    cbn [read_header].
    rewrite Ebuf' at 1. rewrite header_at_v2; [| rewrite <- Ebuf'; assumption | assumption | assumption].
    rewrite (add32_small 12 (blen p)) by lia. rewrite (add32_small (blen pre) (12 + blen p)) by lia.
    replace (blen pre + (12 + blen p)) with (blen (pre ++ record crc V2 prev p))
      by (rewrite blen_app, blen_record; cbn [hdr_size]; lia).
    rewrite (IH fuel (pre ++ record crc V2 prev p) post (cvf prev p) buf commit (wrap64 (cur + 1)) (idx ++ [blen pre]) (cvf prev p));
      [| rewrite Ebuf'; now rewrite <- !app_assoc | assumption | assumption | apply cv_lt].
    cbn [bump offsets last_lc hdr_size]. rewrite blen_encode_cons. cbn [hdr_size next_crc].
    rewrite !blen_app, blen_record. cbn [hdr_size]. rewrite <- !app_assoc. cbn [app].
    f_equal; try lia.
    f_equal. f_equal. f_equal. lia.
Qed.

Lemma loop_v1_chain : forall es fuel pre post prev buf cur idx,
  buf = pre ++ encode crc V1 prev es ++ post ->
  blen buf < U32 -> Forall nonempty es ->
  recover_loop_v1 crc false (length es + fuel) buf (blen pre) cur idx
  = recover_loop_v1 crc false fuel buf (blen pre + blen (encode crc V1 prev es))
      (bump (length es) cur) (idx ++ offsets V1 (blen pre) es).
Proof.
  induction es as [|p tl IH]; intros fuel pre post prev buf cur idx Ebuf Hlen Hne.
  - cbn [encode length bump offsets plus]. rewrite blen_nil, N.add_0_r, app_nil_r. reflexivity.
  - inversion Hne as [|? ? Hp Htl]; subst x l.
    cbn [length plus recover_loop_v1].
    assert (Ebuf' : buf = pre ++ record crc V1 prev p ++ (encode crc V1 0 tl ++ post)).
    { rewrite Ebuf. cbn [encode next_crc]. now rewrite <- !app_assoc. }
    assert (Hb : blen pre + 4 + blen p <= blen buf).
    { rewrite Ebuf'. rewrite !blen_app, blen_record. cbn [hdr_size]. lia. }
    replace (blen buf mod U32) with (blen buf) by (unfold U32 in *; lia).
    unfold nonempty in Hp.
    replace (blen pre <? blen buf) with true by (symmetry; apply N.ltb_lt; lia).
    cbn [read_header].
    rewrite Ebuf' at 1. rewrite header_at_v1; [| rewrite <- Ebuf'; assumption | assumption].
    rewrite (add32_small 4 (blen p)) by lia. rewrite (add32_small (blen pre) (4 + blen p)) by lia.
    replace (blen pre + (4 + blen p)) with (blen (pre ++ record crc V1 prev p))
      by (rewrite blen_app, blen_record; cbn [hdr_size]; lia).
    rewrite (IH fuel (pre ++ record crc V1 prev p) post 0 buf (wrap64 (cur + 1)) (idx ++ [blen pre]));
      [| rewrite Ebuf'; now rewrite <- !app_assoc | assumption | assumption].
    cbn [bump offsets hdr_size]. rewrite blen_encode_cons. cbn [hdr_size next_crc].
    rewrite !blen_app, blen_record. cbn [hdr_size]. rewrite <- !app_assoc. cbn [app].
    f_equal; try lia.
    f_equal. f_equal. f_equal. lia.
Qed.

End Chain.

(* ------------------------------------------------------------------ *)
(* round trip                                                           *)

(* size of the encoding: independent of the checksums *)
Fixpoint total (v : ver) (es : list (list N)) : N :=
  match es with [] => 0 | p :: tl => hdr_size v + blen p + total v tl end.

Lemma total_app v a b : total v (a ++ b) = total v a + total v b.
Proof. induction a as [|p tl IH]; cbn [total app]; [lia|]. rewrite IH. lia. Qed.

Section RoundTrip.
Variable crc : N -> list N -> N.
Notation cvf := (cv crc).

Lemma blen_encode v : forall es prev, blen (encode crc v prev es) = total v es.
Proof.
  induction es as [|p tl IH]; intros prev; [reflexivity|].
  rewrite blen_encode_cons, IH. reflexivity.
Qed.

Lemma length_le_total v es : Forall nonempty es -> N.of_nat (length es) <= total v es.
Proof.
  induction 1 as [|p tl Hp _ IH]; cbn [length total]; [lia|].
  unfold nonempty in Hp. destruct v; cbn [hdr_size]; lia.
Qed.

Lemma offsets_app v : forall a b s, offsets v s (a ++ b) = offsets v s a ++ offsets v (s + total v a) b.
Proof.
  induction a as [|p tl IH]; intros b s; cbn [offsets total app].
  - now rewrite N.add_0_r.
  - rewrite IH. f_equal. f_equal. f_equal. lia.
Qed.

(* the loop stops at a zero tail *)
Lemma loop_v2_stop_zeros a n f commit cur idx lc :
  blen (a ++ zeros n) + 12 < U32 ->
  recover_loop_v2 crc false (S f) (a ++ zeros n) commit (blen a) cur idx lc
  = Ok (idx, lc, blen a, wrap64 (cur - 1)).
Proof.
  intros Hlen. cbn [recover_loop_v2].
  assert (Hb : blen (a ++ zeros n) = blen a + N.of_nat n) by (rewrite blen_app, blen_zeros; reflexivity).
  replace (blen (a ++ zeros n) mod U32) with (blen (a ++ zeros n)) by (unfold U32 in *; lia).
  rewrite (add32_small (blen a) 12) by lia.
  destruct (blen a + 12 <=? blen (a ++ zeros n)) eqn:G; [|reflexivity].
  apply N.leb_le in G.
  cbn [read_header]. unfold read_header_v2.
  replace (blen (a ++ zeros n) mod U32) with (blen (a ++ zeros n)) by (unfold U32 in *; lia).
  assert (E1 : (blen (a ++ zeros n) <=? blen a) || (sub32 (blen (a ++ zeros n)) (blen a) <? 4) = false).
  { rewrite sub32_small by lia. apply orb_false_iff. split; [apply N.leb_gt|apply N.ltb_ge]; lia. }
  rewrite E1.
  rewrite (zeros_split n) by lia.
  rewrite read_int_at; [|reflexivity|unfold U32; lia|lia].
  reflexivity.
Qed.

Lemma loop_v1_stop_zeros a n f cur idx :
  blen (a ++ zeros n) + 12 < U32 ->
  recover_loop_v1 crc false (S f) (a ++ zeros n) (blen a) cur idx
  = Ok (idx, 0, blen a, wrap64 (cur - 1)).
Proof.
  intros Hlen. cbn [recover_loop_v1].
  assert (Hb : blen (a ++ zeros n) = blen a + N.of_nat n) by (rewrite blen_app, blen_zeros; reflexivity).
  replace (blen (a ++ zeros n) mod U32) with (blen (a ++ zeros n)) by (unfold U32 in *; lia).
  destruct (blen a <? blen (a ++ zeros n)) eqn:G; [|reflexivity].
  apply N.ltb_lt in G.
  cbn [read_header]. unfold read_header_v1.
  replace (blen (a ++ zeros n) mod U32) with (blen (a ++ zeros n)) by (unfold U32 in *; lia).
  rewrite (sub32_small (blen (a ++ zeros n)) (blen a)) by lia.
  replace (blen (a ++ zeros n) <=? blen a) with false by (symmetry; apply N.leb_gt; lia).
  cbn [orb].
  destruct (blen (a ++ zeros n) - blen a <? 4) eqn:G4; [reflexivity|].
  apply N.ltb_ge in G4.
  rewrite (zeros_split n) by lia.
  rewrite read_int_at; [|reflexivity|unfold U32; lia|lia].
  reflexivity.
Qed.

Definition entry_range (base : Z) (n : nat) : Prop :=
  (-9223372036854775808 < base)%Z /\ (base + Z.of_nat n < 9223372036854775808)%Z.

(* v2: recovering the encoding of any list of entries followed by zeroes gives back exactly the
   index of these entries; every indexed record reads back bit-identically *)
Theorem roundtrip_v2 es prev n base commit :
  blen (encode crc V2 prev es ++ zeros n) + 12 < U32 ->
  Forall nonempty es -> prev < U32 -> entry_range base (length es) ->
  recover_index crc V2 (encode crc V2 prev es ++ zeros n) 0 base commit
  = Ok (offsets V2 0 es, last_lc crc 0 prev es, total V2 es, (base + Z.of_nat (length es) - 1)%Z)
  /\ Forall2 (fun off p => read_record crc V2 (encode crc V2 prev es ++ zeros n) off = Ok p) (offsets V2 0 es) es.
Proof.
  intros Hlen Hne Hprev [Hb1 Hb2].
  set (buf := encode crc V2 prev es ++ zeros n) in *.
  assert (Ebuf : buf = [] ++ encode crc V2 prev es ++ zeros n) by reflexivity.
  assert (Hl : blen buf < U32) by (unfold U32 in *; lia).
  split.
  - unfold recover_index, recover_index_gen.
    assert (Hle : (length es <= length buf)%nat).
    { pose proof (length_le_total V2 es Hne) as H. rewrite <- (blen_encode V2 es prev) in H.
      unfold buf. rewrite app_length. unfold blen in H. lia. }
    replace (S (length buf)) with (length es + S (length buf - length es))%nat by lia.
    change 0 with (blen (@nil N)).
    rewrite (loop_v2_chain crc es _ [] (zeros n) prev buf commit base [] (blen [])) by assumption.
    rewrite blen_nil, N.add_0_l. cbn [app].
    unfold buf at 1 2. rewrite loop_v2_stop_zeros by (fold buf; assumption).
    rewrite blen_encode, bump_small by (unfold int64; lia).
    rewrite wrap64_id by (unfold int64; lia). reflexivity.
  - change 0 with (blen (@nil N)). eapply reads_chain; eauto.
Qed.

Theorem roundtrip_v1 es n base commit :
  blen (encode crc V1 0 es ++ zeros n) + 12 < U32 ->
  Forall nonempty es -> entry_range base (length es) ->
  recover_index crc V1 (encode crc V1 0 es ++ zeros n) 0 base commit
  = Ok (offsets V1 0 es, 0, total V1 es, (base + Z.of_nat (length es) - 1)%Z)
  /\ Forall2 (fun off p => read_record crc V1 (encode crc V1 0 es ++ zeros n) off = Ok p) (offsets V1 0 es) es.
Proof.
  intros Hlen Hne [Hb1 Hb2].
  set (buf := encode crc V1 0 es ++ zeros n) in *.
  assert (Ebuf : buf = [] ++ encode crc V1 0 es ++ zeros n) by reflexivity.
  assert (Hl : blen buf < U32) by (unfold U32 in *; lia).
  split.
  - unfold recover_index, recover_index_gen.
    assert (Hle : (length es <= length buf)%nat).
    { pose proof (length_le_total V1 es Hne) as H. rewrite <- (blen_encode V1 es 0) in H.
      unfold buf. rewrite app_length. unfold blen in H. lia. }
    replace (S (length buf)) with (length es + S (length buf - length es))%nat by lia.
    change 0 with (blen (@nil N)) at 1.
    rewrite (loop_v1_chain crc es _ [] (zeros n) 0 buf base []) by assumption.
    rewrite blen_nil, N.add_0_l. cbn [app].
    unfold buf at 1 2. rewrite loop_v1_stop_zeros by (fold buf; assumption).
    rewrite blen_encode, bump_small by (unfold int64; lia).
    rewrite wrap64_id by (unfold int64; lia). reflexivity.
  - change 0 with (blen (@nil N)) at 1. eapply reads_chain; eauto. unfold U32; lia.
Qed.

End RoundTrip.

(* ------------------------------------------------------------------ *)
(* crash images: synced prefix intact, anything after it               *)

Section Crash.
Variable crc : N -> list N -> N.
Notation cvf := (cv crc).
Notation rh2 := (read_header_v2 crc).

Lemma rh_v2_not_other buf start : rh2 buf start <> Err EOther.
Proof.
  unfold read_header_v2.
  repeat match goal with
  | |- context [if ?c then _ else _] => destruct c
  | |- context [match ?x with Some _ => _ | None => _ end] => destruct x
  end; discriminate.
Qed.

(* The hypothesis "the checksum detects damage" for the unsynced tail [es2] that was appended from
   file offset [q] on (chained from crc [pv]): at every record boundary of the tail -- including the
   boundary after its last record -- a header that passes validation in [img] is the header of the
   record that was appended there, and its payload is intact. *)
Fixpoint crc_detects (img : list N) (q pv : N) (es2 : list (list N)) : Prop :=
  (forall sz pc c, rh2 img q = Ok (sz, pc, c) ->
     match es2 with
     | [] => False
     | p :: _ => sz = blen p /\ c = cvf pv p /\ sub img (q + 12) sz = p
     end) /\
  match es2 with
  | [] => True
  | p :: tl => crc_detects img (q + 12 + blen p) (cvf pv p) tl
  end.

Definition commit_reaches (commit : option Z) (cur : Z) : Prop :=
  match commit with None => True | Some c => (cur <= c)%Z end.

Lemma loop_v2_tail : forall es2 fuel img commit q pv cur idx lc,
  q < U32 -> crc_detects img q pv es2 -> (length es2 < fuel)%nat ->
  (-9223372036854775808 < cur)%Z -> (cur + Z.of_nat (length es2) < 9223372036854775808)%Z ->
  (exists k lc', (k <= length es2)%nat /\
     recover_loop_v2 crc false fuel img commit q cur idx lc
     = Ok (idx ++ offsets V2 q (firstn k es2), lc', q + total V2 (firstn k es2), (cur + Z.of_nat k - 1)%Z) /\
     Forall2 (fun off p => read_record crc V2 img off = Ok p) (offsets V2 q (firstn k es2)) (firstn k es2))
  \/ (exists e, recover_loop_v2 crc false fuel img commit q cur idx lc = Err e /\ commit_reaches commit cur).
Proof.
  induction es2 as [|p tl IH]; intros fuel img commit q pv cur idx lc Hq [Hhd Htl] Hfuel Hc1 Hc2;
    (destruct fuel as [|f]; [cbn [length] in Hfuel; lia|]); cbn [recover_loop_v2].
  - (* end of the appended records: nothing valid may follow *)
    assert (Stop : recover_loop_v2 crc false (S f) img commit q cur idx lc = Ok (idx, lc, q, (cur - 1)%Z) ->
      exists k lc', (k <= length (@nil (list N)))%nat /\
        recover_loop_v2 crc false (S f) img commit q cur idx lc
        = Ok (idx ++ offsets V2 q (firstn k []), lc', q + total V2 (firstn k []), (cur + Z.of_nat k - 1)%Z) /\
        Forall2 (fun off p => read_record crc V2 img off = Ok p) (offsets V2 q (firstn k [])) (firstn k [])).
    { intros E. exists 0%nat, lc. split; [lia|]. cbn [firstn offsets total]. rewrite app_nil_r, N.add_0_r.
      split; [rewrite E; f_equal; f_equal; lia | constructor]. }
    cbn [recover_loop_v2] in Stop. rewrite (wrap64_id (cur - 1)) in * by (unfold int64; lia).
    destruct (add32 q 12 <=? blen img mod U32); [|left; now apply Stop].
    cbn [read_header] in *.
    destruct (read_header_v2_total crc img q Hq) as [NP NH].
    pose proof (rh_v2_not_other img q) as NO.
    destruct (rh2 img q) as [[[sz pc] c]|e| |] eqn:H; try contradiction.
    + exfalso. exact (Hhd _ _ _ eq_refl).
    + destruct e; try contradiction.
      * destruct commit as [cm|]; [|right; eexists; split; [reflexivity|exact I]].
        destruct (cm <? cur)%Z eqn:Ec; [left; now apply Stop|].
        right. eexists. split; [reflexivity|]. cbn. apply Z.ltb_ge in Ec. exact Ec.
      * left; now apply Stop.
      * destruct commit as [cm|]; [|right; eexists; split; [reflexivity|exact I]].
        destruct (cm <? cur)%Z eqn:Ec; [left; now apply Stop|].
        right. eexists. split; [reflexivity|]. cbn. apply Z.ltb_ge in Ec. exact Ec.
  - (* boundary of an appended record *)
    cbn [length] in *.
    assert (Stop : recover_loop_v2 crc false (S f) img commit q cur idx lc = Ok (idx, lc, q, (cur - 1)%Z) ->
      exists k lc', (k <= S (length tl))%nat /\
        recover_loop_v2 crc false (S f) img commit q cur idx lc
        = Ok (idx ++ offsets V2 q (firstn k (p :: tl)), lc', q + total V2 (firstn k (p :: tl)), (cur + Z.of_nat k - 1)%Z) /\
        Forall2 (fun off p => read_record crc V2 img off = Ok p) (offsets V2 q (firstn k (p :: tl))) (firstn k (p :: tl))).
    { intros E. exists 0%nat, lc. split; [lia|]. cbn [firstn offsets total]. rewrite app_nil_r, N.add_0_r.
      split; [rewrite E; f_equal; f_equal; lia | constructor]. }
    cbn [recover_loop_v2] in Stop. rewrite (wrap64_id (cur - 1)) in * by (unfold int64; lia).
    destruct (add32 q 12 <=? blen img mod U32); [|left; now apply Stop].
    cbn [read_header] in *.
    destruct (read_header_v2_total crc img q Hq) as [NP NH].
    pose proof (rh_v2_not_other img q) as NO.
    destruct (rh2 img q) as [[[sz pc] c]|e| |] eqn:H; try contradiction.
    + destruct (Hhd _ _ _ eq_refl) as [Esz [Ec Epay]]. subst sz c.
      pose proof (rh_v2_inv crc img q _ _ _ Hq H) as [I0 [I1 [_ [_ [_ [Isl _]]]]]].
      pose proof (mod_lt_U32 (blen img)) as Hm.
      rewrite (add32_small 12 (blen p)) by lia. rewrite (add32_small q (12 + blen p)) by lia.
      rewrite wrap64_id by (unfold int64; lia).
      replace (q + (12 + blen p)) with (q + 12 + blen p) by lia.
      destruct (IH f img commit (q + 12 + blen p) (cvf pv p) (cur + 1)%Z (idx ++ [q]) (cvf pv p)) as
        [[k [lc' [Hk [E F]]]] | [e [E Hcm]]]; try lia; try assumption.
      * left. exists (S k), lc'. split; [lia|]. cbn [firstn offsets total hdr_size].
        split.
        -- rewrite E. rewrite <- app_assoc. cbn [app]. f_equal. f_equal; [f_equal; lia | lia].
        -- constructor; [|exact F].
           unfold read_record, read_record_gen. cbn [read_header hdr_size]. rewrite H.
           rewrite (add32_small q 12) by lia. rewrite (add32_small (q + 12) (blen p)) by lia.
           rewrite Isl. now rewrite Epay.
      * right. exists e. split; [exact E|]. destruct commit; cbn in *; lia.
    + destruct e; try contradiction.
      * destruct commit as [cm|]; [|right; eexists; split; [reflexivity|exact I]].
        destruct (cm <? cur)%Z eqn:Ec; [left; now apply Stop|].
        right. eexists. split; [reflexivity|]. cbn. apply Z.ltb_ge in Ec. exact Ec.
      * left; now apply Stop.
      * destruct commit as [cm|]; [|right; eexists; split; [reflexivity|exact I]].
        destruct (cm <? cur)%Z eqn:Ec; [left; now apply Stop|].
        right. eexists. split; [reflexivity|]. cbn. apply Z.ltb_ge in Ec. exact Ec.
Qed.

(* Crash-prefix theorem (v2).  The image starts with the intact encoding of the synced entries [es1];
   everything after it ([tail], as long as the file) is arbitrary -- torn pages, zeroes, stale bytes --
   subject to [crc_detects] for the unsynced entries [es2].  Then recovery
     - returns es1 followed by a prefix of es2, each entry bit-identical, at the right offsets, or
     - returns an error, which is only possible when the commit offset reaches beyond the synced entries. *)
Theorem crash_prefix_v2 es1 es2 prev tail base commit :
  blen (encode crc V2 prev es1 ++ tail) < U32 ->
  Forall nonempty es1 -> prev < U32 ->
  Forall nonempty es2 -> total V2 (es1 ++ es2) <= blen (encode crc V2 prev es1 ++ tail) ->
  crc_detects (encode crc V2 prev es1 ++ tail) (total V2 es1) (last_crc crc V2 prev es1) es2 ->
  entry_range base (length es1 + length es2) ->
  let img := encode crc V2 prev es1 ++ tail in
  (exists k lc', (k <= length es2)%nat /\
     recover_index crc V2 img 0 base commit
     = Ok (offsets V2 0 (es1 ++ firstn k es2), lc', total V2 (es1 ++ firstn k es2),
           (base + Z.of_nat (length es1 + k) - 1)%Z) /\
     Forall2 (fun off p => read_record crc V2 img off = Ok p)
             (offsets V2 0 (es1 ++ firstn k es2)) (es1 ++ firstn k es2))
  \/ (exists e, recover_index crc V2 img 0 base commit = Err e /\
                commit_reaches commit (base + Z.of_nat (length es1))).
Proof.
  intros Hlen Hne Hprev Hne2 Hfit Hdet [Hb1 Hb2] img.
  assert (Ebuf : img = [] ++ encode crc V2 prev es1 ++ tail) by reflexivity.
  unfold recover_index, recover_index_gen.
  fold img in Hfit, Hdet, Hlen.
  assert (Hcount : (length es1 + length es2 <= length img)%nat).
  { assert (Hall : Forall nonempty (es1 ++ es2)) by (apply Forall_app; split; assumption).
    pose proof (length_le_total crc V2 (es1 ++ es2) Hall) as H. rewrite app_length in H.
    unfold blen in Hfit. lia. }
  replace (S (length img)) with (length es1 + S (length img - length es1))%nat by lia.
  pose proof (loop_v2_chain crc es1 (S (length img - length es1)) [] tail prev img commit base [] 0
                Ebuf Hlen Hne Hprev) as Hchain.
  rewrite blen_nil, N.add_0_l, blen_encode in Hchain. cbn [app] in Hchain.
  rewrite bump_small in Hchain by (unfold int64; lia).
  rewrite Hchain. clear Hchain.
  assert (Ht : total V2 es1 < U32).
  { rewrite <- (blen_encode crc V2 es1 prev). unfold img in Hlen. rewrite blen_app in Hlen. lia. }
  destruct (loop_v2_tail es2 (S (length img - length es1)) img commit (total V2 es1) (last_crc crc V2 prev es1)
              (base + Z.of_nat (length es1))%Z (offsets V2 0 es1) (last_lc crc 0 prev es1))
    as [[k [lc' [Hk [E F]]]] | [e [E Hcm]]]; try assumption; try lia.
  - left. exists k, lc'. split; [assumption|]. split.
    + rewrite E. rewrite (offsets_app crc), N.add_0_l.
      rewrite total_app. f_equal. f_equal. lia.
    + rewrite (offsets_app crc), N.add_0_l. apply Forall2_app; [|exact F].
      change 0 with (blen (@nil N)). eapply reads_chain; eauto.
  - right. exists e. split; [exact E|exact Hcm].
Qed.

(* ------------------------------------------------------------------ *)
(* damage to a committed entry                                          *)

(* The entries [es1] are intact, the record after them does not validate with an error other than
   "empty payload", and its entry offset is at or below the commit offset (or there is no commit
   offset provider): recovery fails with that error. *)
Theorem committed_damage_is_error_v2_partial es1 prev tail base commit e :
  blen (encode crc V2 prev es1 ++ tail) + 12 < U32 ->
  Forall nonempty es1 -> prev < U32 -> entry_range base (length es1) ->
  total V2 es1 + 12 <= blen (encode crc V2 prev es1 ++ tail) ->
  rh2 (encode crc V2 prev es1 ++ tail) (total V2 es1) = Err e -> e <> EEmptyPayload ->
  commit_reaches commit (base + Z.of_nat (length es1)) ->
  recover_index crc V2 (encode crc V2 prev es1 ++ tail) 0 base commit = Err e.
Proof.
  intros Hlen Hne Hprev [Hb1 Hb2] Hroom Hrh He Hcm.
  set (img := encode crc V2 prev es1 ++ tail) in *.
  assert (Ebuf : img = [] ++ encode crc V2 prev es1 ++ tail) by reflexivity.
  assert (Hl : blen img < U32) by (unfold U32 in *; lia).
  unfold recover_index, recover_index_gen.
  assert (Hle : (length es1 <= length img)%nat).
  { pose proof (length_le_total crc V2 es1 Hne) as H. rewrite <- (blen_encode crc V2 es1 prev) in H.
    unfold img. rewrite app_length. unfold blen in H. lia. }
  replace (S (length img)) with (length es1 + S (length img - length es1))%nat by lia.
  pose proof (loop_v2_chain crc es1 (S (length img - length es1)) [] tail prev img commit base [] 0
                Ebuf Hl Hne Hprev) as Hchain.
  rewrite blen_nil, N.add_0_l, blen_encode in Hchain. cbn [app] in Hchain.
  rewrite bump_small in Hchain by (unfold int64; lia).
  rewrite Hchain. clear Hchain. cbn [recover_loop_v2].
  replace (blen img mod U32) with (blen img) by (unfold U32 in *; lia).
  rewrite (add32_small (total V2 es1) 12) by lia.
  replace (total V2 es1 + 12 <=? blen img) with true by (symmetry; apply N.leb_le; lia).
  cbn [read_header]. rewrite Hrh.
  pose proof (rh_v2_not_other img (total V2 es1)) as NO. rewrite Hrh in NO.
  destruct e; try contradiction; try reflexivity;
    (destruct commit as [cm|]; [|reflexivity]; cbn in Hcm;
     replace (cm <? base + Z.of_nat (length es1))%Z with false by (symmetry; apply Z.ltb_ge; lia); reflexivity).
Qed.

(* ... but a zeroed size field ("empty payload") ends the log silently, whatever the commit offset says (O-13) *)
Theorem zeroed_size_truncates_v2 es1 prev tail base commit :
  blen (encode crc V2 prev es1 ++ tail) + 12 < U32 ->
  Forall nonempty es1 -> prev < U32 -> entry_range base (length es1) ->
  total V2 es1 + 12 <= blen (encode crc V2 prev es1 ++ tail) ->
  rh2 (encode crc V2 prev es1 ++ tail) (total V2 es1) = Err EEmptyPayload ->
  recover_index crc V2 (encode crc V2 prev es1 ++ tail) 0 base commit
  = Ok (offsets V2 0 es1, last_lc crc 0 prev es1, total V2 es1, (base + Z.of_nat (length es1) - 1)%Z).
Proof.
  intros Hlen Hne Hprev [Hb1 Hb2] Hroom Hrh.
  set (img := encode crc V2 prev es1 ++ tail) in *.
  assert (Ebuf : img = [] ++ encode crc V2 prev es1 ++ tail) by reflexivity.
  assert (Hl : blen img < U32) by (unfold U32 in *; lia).
  unfold recover_index, recover_index_gen.
  assert (Hle : (length es1 <= length img)%nat).
  { pose proof (length_le_total crc V2 es1 Hne) as H. rewrite <- (blen_encode crc V2 es1 prev) in H.
    unfold img. rewrite app_length. unfold blen in H. lia. }
  replace (S (length img)) with (length es1 + S (length img - length es1))%nat by lia.
  pose proof (loop_v2_chain crc es1 (S (length img - length es1)) [] tail prev img commit base [] 0
                Ebuf Hl Hne Hprev) as Hchain.
  rewrite blen_nil, N.add_0_l, blen_encode in Hchain. cbn [app] in Hchain.
  rewrite bump_small in Hchain by (unfold int64; lia).
  rewrite Hchain. clear Hchain. cbn [recover_loop_v2].
  replace (blen img mod U32) with (blen img) by (unfold U32 in *; lia).
  rewrite (add32_small (total V2 es1) 12) by lia.
  replace (total V2 es1 + 12 <=? blen img) with true by (symmetry; apply N.leb_le; lia).
  cbn [read_header]. rewrite Hrh.
  rewrite wrap64_id by (unfold int64; lia). reflexivity.
Qed.

End Crash.

(* ------------------------------------------------------------------ *)
(* the code as found at the pinned commit: refutations (O-6)            *)

Section Orig.
Variable crc : N -> list N -> N.

Definition o6_v2_witness : list N := [255; 255; 255; 244; 0; 0; 0; 0; 0; 0; 0; 0; 0; 0; 0; 0].
Definition o6_v1_hang_witness : list N := [255; 255; 255; 252; 0; 0; 0; 0].
Definition o6_v1_tail_witness : list N := [0; 0; 0; 11; 0; 0; 0; 0; 0; 0; 0; 0; 0; 0; 0; 0].

(* size field 0xFFFFFFF4: payloadSize + 12 wraps to 0, the bounds test passes, buf[12:0] panics *)
Lemma v2_orig_header_panics : read_header_v2_orig crc o6_v2_witness 0 = Panic.
Proof. vm_compute. reflexivity. Qed.

Lemma v2_orig_recover_panics commit : recover_index_gen crc true V2 o6_v2_witness 0 0 commit = Panic.
Proof. vm_compute. reflexivity. Qed.

(* v1, size field 0xFFFFFFFC: payloadSize + 4 wraps to 0, the record is "valid" and newFileOffset
   does not move: the loop never ends (and appends to the index for ever) -- for every amount of fuel *)
Lemma v1_orig_recover_loops : forall fuel cur idx,
  recover_loop_v1 crc true fuel o6_v1_hang_witness 0 cur idx = Hang.
Proof.
  induction fuel as [|f IH]; intros cur idx; [reflexivity|].
  cbn [recover_loop_v1].
  change (blen o6_v1_hang_witness mod U32) with 8.
  change (0 <? 8) with true. cbv iota.
  change (read_header crc true V1 o6_v1_hang_witness 0) with (@Ok (N * N * N) (4294967292, 0, 0)).
  cbv iota.
  change (add32 0 (add32 4 4294967292)) with 0.
  apply IH.
Qed.

(* v1: a record that ends 1..3 bytes before the end of the buffer: ReadInt(buf, len-1) panics *)
Lemma v1_orig_recover_panics commit : recover_index_gen crc true V1 o6_v1_tail_witness 0 0 commit = Panic.
Proof. vm_compute. reflexivity. Qed.

(* v2 idx file shorter than its header: indexBuf[4:] panics; empty index: idx[0xFFFFFFFC:0] panics *)
Lemma v2_orig_read_index_panics : read_index_gen crc true V2 (Some []) = Panic.
Proof. reflexivity. Qed.

Lemma orig_ro_open_empty_index_panics v txn base : ro_finish crc true v txn base [] = Panic.
Proof. unfold ro_finish. cbn [negb andb]. cbv zeta. unfold file_offset.
  replace (Z.to_N ((base + (Z.of_N (blen [] / 4) - 1) - base) * 4 mod 4294967296)) with 4294967292.
  - reflexivity.
  - change (blen [] / 4) with 0. lia.
Qed.

(* the same inputs on the code of the working tree *)
Lemma v2_fixed_on_witness commit :
  recover_index crc V2 o6_v2_witness 0 0 commit
  = match commit with Some c => if (c <? 0)%Z then Ok ([], 0, 0, (-1)%Z) else Err EOffsetOutOfBounds
                    | None => Err EOffsetOutOfBounds end.
Proof. destruct commit as [c|]; [|vm_compute; reflexivity].
  unfold recover_index, recover_index_gen. cbn [length o6_v2_witness recover_loop_v2].
  change (read_header crc false V2 o6_v2_witness 0) with (@Err (N * N * N) EOffsetOutOfBounds).
  change (add32 0 12 <=? blen o6_v2_witness mod U32) with true. cbv iota.
  destruct (c <? 0)%Z; reflexivity.
Qed.

Lemma v1_fixed_on_witness commit :
  recover_index crc V1 o6_v1_hang_witness 0 0 commit = Ok ([], 0, 0, (-1)%Z).
Proof. vm_compute. reflexivity. Qed.

End Orig.

(* ------------------------------------------------------------------ *)
(* format v1 has no checksum: whatever bytes sit in the payload are returned as valid *)

Theorem v1_accepts_any_payload crc p p' post :
  blen p' = blen p -> p' <> p -> nonempty p ->
  blen (record crc V1 0 p ++ post) < U32 ->
  (* the file after the payload bytes p were overwritten by p' *)
  read_record crc V1 (record crc V1 0 p' ++ post) 0 = Ok p' /\ p' <> p.
Proof.
  intros Hl Hd Hne Hlen. split; [|assumption].
  apply (record_at crc V1 [] 0 p' post).
  - cbn [app]. rewrite blen_app, blen_record in *. rewrite Hl. assumption.
  - unfold nonempty in *. lia.
  - unfold U32. lia.
Qed.

(* ------------------------------------------------------------------ *)
(* the repair of O-6 does not change any other behaviour               *)

Section Conservative.
Variable crc : N -> list N -> N.

(* The repair changes nothing where the code as found did not panic and the length field did not
   make payloadSize + HeaderSize wrap around. *)
Theorem fix_is_conservative_v2 buf start : start < U32 -> blen buf < U32 ->
  read_header_v2_orig crc buf start <> Panic ->
  (forall sz, read_int buf start = Some sz -> sz + 12 < U32) ->
  read_header_v2 crc buf start = read_header_v2_orig crc buf start.
Proof.
  intros Hs Hlen NP Hsz. unfold read_header_v2, read_header_v2_orig in *.
  remember (blen buf mod U32) as bs eqn:Ebs.
  assert (Hbs : bs < U32) by (subst bs; apply mod_lt_U32).
  assert (Hle : bs = blen buf) by (subst bs; unfold U32 in *; lia).
  destruct (bs <=? start) eqn:Ea; [reflexivity|]. cbn [orb]. apply N.leb_gt in Ea.
  rewrite (sub32_small bs start) in * by lia.
  destruct (read_int buf start) as [v|] eqn:Hv; [|contradiction].
  assert (Hlt4 : (bs - start <? 4) = false).
  { apply N.ltb_ge. unfold read_int, slice in Hv.
    destruct ((start <=? (start + 4) mod U32) && ((start + 4) mod U32 <=? blen buf)) eqn:E; [|discriminate].
    apply andb_true_iff in E as [E1 E2]. apply N.leb_le in E1. apply N.leb_le in E2.
    (* start+4 <= blen buf, but is it <= bs ? *)
    unfold U32 in *. lia. }
  rewrite Hlt4.
  destruct (v =? 0); [reflexivity|].
  specialize (Hsz v eq_refl).
  rewrite (add32_small v 12) in * by lia.
  destruct (bs - start <? v + 12) eqn:Eo.
  - apply N.ltb_lt in Eo.
    destruct (bs - start <? 12) eqn:E12; [reflexivity|]. apply N.ltb_ge in E12.
    rewrite (sub32_small (bs - start) 12) by lia. cbn [orb].
    replace (bs - start - 12 <? v) with true by (symmetry; apply N.ltb_lt; lia). reflexivity.
  - apply N.ltb_ge in Eo.
    replace (bs - start <? 12) with false by (symmetry; apply N.ltb_ge; lia).
    rewrite (sub32_small (bs - start) 12) by lia. cbn [orb].
    replace (bs - start - 12 <? v) with false by (symmetry; apply N.ltb_ge; lia). reflexivity.
Qed.
End Conservative.

Theorem fix_is_conservative_v1 buf start : start < U32 -> blen buf < U32 ->
  read_header_v1_orig buf start <> Panic ->
  (forall sz, read_int buf start = Some sz -> sz + 4 < U32) ->
  read_header_v1 buf start = read_header_v1_orig buf start.
Proof.
  intros Hs Hlen NP Hsz. unfold read_header_v1, read_header_v1_orig in *.
  remember (blen buf mod U32) as bs eqn:Ebs.
  assert (Hbs : bs < U32) by (subst bs; apply mod_lt_U32).
  assert (Hle : bs = blen buf) by (subst bs; unfold U32 in *; lia).
  destruct (bs <=? start) eqn:Ea; [reflexivity|]. cbn [orb]. apply N.leb_gt in Ea.
  rewrite (sub32_small bs start) in * by lia.
  destruct (read_int buf start) as [v|] eqn:Hv; [|contradiction].
  assert (Hlt4 : (bs - start <? 4) = false).
  { apply N.ltb_ge. unfold read_int, slice in Hv.
    destruct ((start <=? (start + 4) mod U32) && ((start + 4) mod U32 <=? blen buf)) eqn:E; [|discriminate].
    apply andb_true_iff in E as [E1 E2]. apply N.leb_le in E1. apply N.leb_le in E2.
    unfold U32 in *. lia. }
  rewrite Hlt4. apply N.ltb_ge in Hlt4.
  destruct (v =? 0); [reflexivity|].
  specialize (Hsz v eq_refl).
  rewrite (add32_small v 4) in * by lia.
  rewrite (sub32_small (bs - start) 4) by lia.
  destruct (bs - start <? v + 4) eqn:Eo.
  - apply N.ltb_lt in Eo. replace (bs - start - 4 <? v) with true by (symmetry; apply N.ltb_lt; lia). reflexivity.
  - apply N.ltb_ge in Eo. replace (bs - start - 4 <? v) with false by (symmetry; apply N.ltb_ge; lia). reflexivity.
Qed.
