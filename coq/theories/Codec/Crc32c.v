(* CRC-32C (Castagnoli), reflected polynomial 0x82F63B78, bit by bit:
   crc32c_update seed bytes = hash/crc32.Update(seed, crc32.MakeTable(crc32.Castagnoli), bytes).
   Used only to instantiate the Section variable [crc] of Codec/Model.v for extraction and for the
   concrete witnesses; the theorems of Codec/Proofs.v are generic in [crc].  Its agreement with Go's
   hash/crc32 is checked on every run by the correspondence harness (case kind "crc"). *)
From Coq Require Import List NArith.
Import ListNotations.
Open Scope N_scope.

Definition crc_poly : N := 2197175160. (* 0x82F63B78 *)
Definition crc_mask : N := 4294967295. (* 0xFFFFFFFF *)

Definition crc_bit (c : N) : N :=
  if N.odd c then N.lxor (N.shiftr c 1) crc_poly else N.shiftr c 1.

Definition crc_byte (c b : N) : N :=
  crc_bit (crc_bit (crc_bit (crc_bit (crc_bit (crc_bit (crc_bit (crc_bit (N.lxor c b)))))))).

Definition crc32c_update (seed : N) (l : list N) : N :=
  N.lxor (fold_left crc_byte l (N.lxor seed crc_mask)) crc_mask.

(* "123456789" -> 0xE3069283, the standard check value of CRC-32C *)
Example crc32c_check_value :
  crc32c_update 0 [49;50;51;52;53;54;55;56;57] = 3808858755.
Proof. vm_compute. reflexivity. Qed.
