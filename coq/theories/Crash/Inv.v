(* The invariant of the crash/apply model (repaired code: drain = true, snaplock = true) and the
   lemmas about the database part of the state (batches, flushes, log changes). *)
From Coq Require Import List Arith Bool Lia.
From Oxia.Crash Require Import Lists Model.
Import ListNotations.

Section Inv.
  Variables (dbstate entry : Type).
  Variable apply : dbstate -> entry -> dbstate.
  Variable init_db : dbstate.

  Notation node := (node dbstate entry).
  Notation db := (db dbstate).
  Notation fp := (fold_prefix dbstate entry apply init_db).
  Notation pw := (process_write dbstate entry apply).
  Notation hist := (hist dbstate entry).
  Notation wal_lo := (wal_lo dbstate entry).
  Notation synced := (synced dbstate entry).
  Notation flushed := (flushed dbstate entry).
  Notation mem := (mem dbstate entry).
  Notation rl := (rl dbstate entry).
  Notation stray := (stray dbstate entry).
  Notation committed_hi := (committed_hi dbstate entry).
  Notation cur := (cur dbstate entry).
  Notation commit := (commit dbstate entry).

  (* a database content that is the fold of the log prefix it claims, and not ahead of the durable log *)
  Definition good (h : list entry) (s : nat) (d : db) : Prop :=
    fst d = fp h (snd d) /\ snd d <= s.

  (* every batch applies exactly one entry: the next one *)
  Fixpoint chain (c0 : nat) (l : list db) : Prop :=
    match l with
    | [] => True
    | d :: tl => snd d = S c0 /\ chain (snd d) tl
    end.

  Definition opt (o : option nat) : list nat := match o with Some x => [x] | None => [] end.

  Definition leader_inv (n : node) (l : lstate) : Prop :=
    let c := commit n in
    l_waiting l ++ opt (l_slot l) ++ opt (l_pending l) ++ l_syncq l = seq c (l_next l - c)
    /\ c <= l_next l
    /\ l_next l = length (hist n)
    /\ Forall (fun o => o < synced n) (l_waiting l ++ opt (l_slot l) ++ opt (l_pending l))
    /\ Forall (fun o => l_qcommit l <= o) (l_waiting l)
    /\ (l_slot l = None \/ l_pending l = None)
    /\ (l_pending l <> None -> l_waiting l = [])
    /\ (forall o, l_pending l = Some o -> o < committed_hi n)
    /\ l_qcommit l <= committed_hi n.

  Definition follower_inv (n : node) (f : fstate entry) : Prop :=
    f_commit entry f = commit n
    /\ (f_dbopen entry f = false -> mem n = [] /\ f_round entry f = None)
    /\ (f_round entry f = None -> f_held entry f = None)
    /\ (forall nx mx, f_round entry f = Some (nx, mx) ->
          mx <= committed_hi n /\ (f_held entry f = None -> nx = commit n))
    /\ (forall o e, f_held entry f = Some (o, e) ->
          o = commit n /\ nth_error (hist n) o = Some e /\ o < synced n /\
          exists nx mx, f_round entry f = Some (nx, mx) /\ o < mx)
    /\ (f_dirty entry f || f_signal entry f = true -> f_adv entry f <= committed_hi n).

  Definition role_inv (n : node) : Prop :=
    match rl n with
    | Down _ | Fenced _ => True
    | Leader _ l => leader_inv n l
    | Follower _ f => follower_inv n f
    end.

  (* the part about the log and the database *)
  Record Core (n : node) : Prop := {
    c_sync : synced n <= length (hist n);
    c_good : Forall (good (hist n) (synced n)) (flushed n :: mem n);
    c_chain : chain (snd (flushed n)) (mem n)
  }.

  Record Inv (n : node) : Prop := {
    i_core : Core n;
    i_lo : wal_lo n <= snd (flushed n);
    i_hi : commit n <= committed_hi n;
    i_stray : stray n = None;
    i_role : role_inv n
  }.

  (* ---------------------------------------------------------------- fold facts *)

  Lemma fp_S h c e : nth_error h c = Some e -> fp h (S c) = apply (fp h c) e.
  Proof.
    intros H. unfold fold_prefix. rewrite (firstn_S_nth_error _ _ _ H).
    rewrite fold_left_app. reflexivity.
  Qed.

  Lemma fp_app h e c : c <= length h -> fp (h ++ [e]) c = fp h c.
  Proof. intros. unfold fold_prefix. rewrite firstn_app_le by assumption. reflexivity. Qed.

  Lemma fp_cut h k c : c <= k -> fp (firstn k h) c = fp h c.
  Proof. intros. unfold fold_prefix. rewrite firstn_firstn_le by assumption. reflexivity. Qed.

  Lemma fp_all h : fp h (length h) = fold_left apply h init_db.
  Proof. unfold fold_prefix. rewrite firstn_all. reflexivity. Qed.

  Lemma good_app h s d e : s <= length h -> good h s d -> good (h ++ [e]) s d.
  Proof. intros Hs [H1 H2]. split; [|assumption]. rewrite fp_app by lia. assumption. Qed.

  Lemma good_cut h s s' k d : snd d <= k -> snd d <= s' -> good h s d -> good (firstn k h) s' d.
  Proof. intros Hk Hs [H1 H2]. split; [|assumption]. rewrite fp_cut by assumption. assumption. Qed.

  Lemma good_mono h s s' d : s <= s' -> good h s d -> good h s' d.
  Proof. intros Hs [H1 H2]. split; [assumption|lia]. Qed.

  Lemma good_step h s d e : good h s d -> nth_error h (snd d) = Some e -> snd d < s ->
    good h s (pw d (snd d) e).
  Proof.
    intros [H1 H2] Hn Hlt. split; cbn [process_write fst snd]; [|lia].
    rewrite (fp_S _ _ _ Hn), H1. reflexivity.
  Qed.

  (* ---------------------------------------------------------------- chain facts *)

  Lemma chain_last c0 l x : chain c0 l -> snd (last l (x, c0)) = c0 + length l.
  Proof.
    revert c0 x; induction l as [|d l IH]; intros c0 x H; cbn [length]; [cbn; lia|].
    destruct H as [Hd Hc]. rewrite last_cons_default.
    destruct d as [dx dc]. cbn [snd] in *. rewrite (IH dc dx Hc). lia.
  Qed.

  Lemma commit_eq (n : node) : chain (snd (flushed n)) (mem n) -> commit n = snd (flushed n) + length (mem n).
  Proof.
    intros H. unfold Model.commit, Model.cur. destruct (flushed n) as [fx fc] eqn:E. cbn [snd] in *.
    apply chain_last. assumption.
  Qed.

  Lemma chain_snoc c0 l d : chain c0 l -> snd d = S (c0 + length l) -> chain c0 (l ++ [d]).
  Proof.
    revert c0; induction l as [|a l IH]; intros c0 H Hd; cbn [app length] in *.
    - split; [lia|exact I].
    - destruct H as [Ha Hc]. split; [assumption|]. apply IH; [assumption|]. lia.
  Qed.

  Lemma chain_app c0 l l' : chain c0 l -> chain (c0 + length l) l' -> chain c0 (l ++ l').
  Proof.
    revert c0; induction l as [|a l IH]; intros c0 H H'; cbn [app length] in *.
    - replace (c0 + 0) with c0 in H' by lia. assumption.
    - destruct H as [Ha Hc]. split; [assumption|]. apply IH; [assumption|].
      replace (snd a + length l) with (c0 + S (length l)) by lia. assumption.
  Qed.

  Lemma chain_le c0 l d : chain c0 l -> In d l -> c0 < snd d <= c0 + length l.
  Proof.
    revert c0; induction l as [|a l IH]; intros c0 H Hin; [contradiction|].
    destruct H as [Ha Hc]. cbn [length]. destruct Hin as [<-|Hin]; [lia|].
    specialize (IH _ Hc Hin). lia.
  Qed.

  Lemma chain_skipn c0 l k (f : db) : snd f = c0 -> chain c0 l ->
    chain (snd (last (firstn k l) f)) (skipn k l).
  Proof.
    revert c0 k f; induction l as [|a l IH]; intros c0 k f Hf H.
    - destruct k; cbn; exact I.
    - destruct k as [|k]; cbn [firstn skipn].
      + cbn [last]. rewrite Hf. assumption.
      + rewrite last_cons_default. destruct H as [Ha Hc]. apply (IH (snd a)); [reflexivity|assumption].
  Qed.

  Lemma all_le_commit (n : node) d : chain (snd (flushed n)) (mem n) -> In d (flushed n :: mem n) -> snd d <= commit n.
  Proof.
    intros H Hin. rewrite (commit_eq n H). destruct Hin as [<-|Hin]; [lia|].
    pose proof (chain_le _ _ _ H Hin). lia.
  Qed.

  Lemma cur_in (n : node) : In (cur n) (flushed n :: mem n).
  Proof. apply last_in_cons. Qed.

  Lemma cur_good (n : node) : Core n -> good (hist n) (synced n) (cur n).
  Proof. intros H. eapply Forall_forall; [apply (c_good n H)|apply cur_in]. Qed.

  Lemma commit_le_synced (n : node) : Core n -> commit n <= synced n.
  Proof. intros H. apply (cur_good n H). Qed.

  (* ---------------------------------------------------------------- one application *)

  Definition pushed (n : node) (d : db) : node := push dbstate entry n d.

  Lemma cur_push (n : node) d : cur (pushed n d) = d.
  Proof. unfold Model.cur, pushed, push; cbn. apply last_last. Qed.

  Lemma commit_push (n : node) d : commit (pushed n d) = snd d.
  Proof. unfold Model.commit. rewrite cur_push. reflexivity. Qed.

  Lemma core_push (n : node) e : Core n -> nth_error (hist n) (commit n) = Some e -> commit n < synced n ->
    Core (pushed n (pw (cur n) (commit n) e)).
  Proof.
    intros H Hn Hlt. destruct H as [Hs Hg Hc]. split; cbn [pushed push Model.hist Model.synced Model.flushed Model.mem].
    - assumption.
    - change (Forall (good (hist n) (synced n)) ((flushed n :: mem n) ++ [pw (cur n) (commit n) e])).
      apply Forall_app_single; [assumption|].
      apply good_step; [apply cur_good; split; assumption|exact Hn|exact Hlt].
    - apply chain_snoc; [assumption|]. cbn [process_write snd].
      f_equal. apply commit_eq. assumption.
  Qed.

  Lemma apply_at_commit (n n' : node) o : Core n -> o = commit n -> o < synced n ->
    apply_at dbstate entry apply n o = Some n' ->
    Core n' /\ commit n' = S o /\ hist n' = hist n /\ synced n' = synced n /\ flushed n' = flushed n /\
    wal_lo n' = wal_lo n /\ rl n' = rl n /\ stray n' = stray n /\ committed_hi n' = committed_hi n /\
    exists d, mem n' = mem n ++ [d].
  Proof.
    intros H -> Hlt Ha. unfold apply_at in Ha.
    destruct (nth_error (hist n) (commit n)) as [e|] eqn:E; [|discriminate].
    injection Ha as <-. split; [apply core_push; assumption|].
    split; [apply commit_push|]. cbn. repeat split; try reflexivity. eexists; reflexivity.
  Qed.

  Lemma apply_at_defined (n : node) o : Core n -> o < synced n -> exists n', apply_at dbstate entry apply n o = Some n'.
  Proof.
    intros H Hlt. unfold apply_at.
    destruct (nth_error (hist n) o) as [e|] eqn:E; [eexists; reflexivity|].
    apply nth_error_None in E. pose proof (c_sync n H) as Hs. exfalso.
    apply (Nat.lt_irrefl o). eapply Nat.lt_le_trans; [exact Hlt|]. eapply Nat.le_trans; [exact Hs|exact E].
  Qed.

  (* a run of applications at consecutive offsets starting at the commit offset *)
  Lemma apply_all_seq (os : list nat) : forall (n : node), Core n -> os = seq (commit n) (length os) ->
    Forall (fun o => o < synced n) os ->
    exists n', apply_all dbstate entry apply n os = Some n' /\
      Core n' /\ commit n' = commit n + length os /\ hist n' = hist n /\ synced n' = synced n /\
      flushed n' = flushed n /\ wal_lo n' = wal_lo n /\ rl n' = rl n /\ stray n' = stray n /\
      committed_hi n' = committed_hi n.
  Proof.
    induction os as [|o tl IH]; intros n H Hseq Hall.
    - exists n. split; [reflexivity|]. split; [assumption|]. split; [cbn [length]; lia|].
      repeat split; reflexivity.
    - cbn [length] in Hseq. cbn [seq] in Hseq. injection Hseq as Ho Htl.
      inversion Hall as [|? ? Hlt Hall']; subst o.
      destruct (apply_at_defined n (commit n) H Hlt) as [n1 E1].
      destruct (apply_at_commit n n1 (commit n) H eq_refl Hlt E1) as (C1 & Hc1 & Hh & Hsy & Hf & Hlo & Hr & Hst & Hhi & _).
      destruct (IH n1 C1) as (n' & E' & C' & Hc' & Hh' & Hsy' & Hf' & Hlo' & Hr' & Hst' & Hhi').
      { rewrite Hc1. exact Htl. }
      { rewrite Hsy. assumption. }
      exists n'. cbn [apply_all]. rewrite E1. split; [assumption|]. split; [assumption|].
      cbn [length]. repeat split; try congruence. lia.
  Qed.

  (* ---------------------------------------------------------------- flush *)

  Notation flush_to := (flush_to dbstate entry).

  Lemma cur_flush (n : node) k : cur (flush_to n k) = cur n.
  Proof. unfold Model.cur, Model.flush_to; cbn. apply last_firstn_skipn. Qed.

  Lemma commit_flush (n : node) k : commit (flush_to n k) = commit n.
  Proof. unfold Model.commit. rewrite cur_flush. reflexivity. Qed.

  Lemma flushed_flush_in (n : node) k : In (flushed (flush_to n k)) (flushed n :: mem n).
  Proof.
    cbn. pose proof (last_in_cons (firstn k (mem n)) (flushed n)) as H.
    destruct H as [H|H]; [left; exact H|right]. eapply In_firstn. exact H.
  Qed.

  Lemma core_flush (n : node) k : Core n -> Core (flush_to n k).
  Proof.
    intros [Hs Hg Hc]. split; cbn [Model.flush_to Model.hist Model.synced Model.flushed Model.mem].
    - assumption.
    - constructor.
      + eapply Forall_forall; [exact Hg|]. apply (flushed_flush_in n k).
      + apply Forall_skipn. inversion Hg; assumption.
    - apply (chain_skipn (snd (flushed n))); [reflexivity|assumption].
  Qed.

  Lemma flush_all_mem (n : node) : mem (flush_to n (length (mem n))) = [].
  Proof. cbn. apply skipn_all. Qed.

  Lemma flush_all_flushed (n : node) : flushed (flush_to n (length (mem n))) = cur n.
  Proof. cbn. rewrite firstn_all. reflexivity. Qed.

  Lemma flushed_le_flush (n : node) k : chain (snd (flushed n)) (mem n) -> snd (flushed n) <= snd (flushed (flush_to n k)).
  Proof.
    intros Hc. destruct (flushed_flush_in n k) as [H|H]; [rewrite <- H; lia|].
    pose proof (chain_le _ _ _ Hc H). lia.
  Qed.

End Inv.
