(* Non-vacuity examples (the hypotheses of the theorems are satisfiable on non-trivial executions) and
   the two refutations: what the code as it was allows when the repairs are switched off.
   Concrete instance: an entry is a number, the state machine records the entries it applied. *)
From Coq Require Import List Arith Bool Lia.
From Oxia.Crash Require Import Lists Model Inv Proofs Theorems.
Import ListNotations.

Definition T_state := list nat.
Definition T_step (drain snaplock : bool) := step T_state nat tr_apply [] drain snaplock.
Definition T_run (drain snaplock : bool) := run T_state nat tr_apply [] drain snaplock.
Definition T_run_applied (drain snaplock : bool) := run_applied T_state nat tr_apply [] drain snaplock.
Definition T_init := init_node T_state nat [].

(* ---- a leader with three writes in flight, an early commit advance (application on its way outside
   the tracker lock), a flush in between, a crash that loses the unsynced tail of the WAL and the
   unflushed batches, restart, replay ---- *)
Definition ex_leader : list (action nat) :=
  [ RestartLeaderCtl nat; BecomeLeader nat;
    LWrite nat 10; LWrite nat 11; WalSync nat 2; LWrite nat 12;
    LSyncPop nat; LRegister nat;            (* 0 waits for the quorum *)
    LCommitAdvance nat 2;                   (* offsets 0 and 1 committed: 0 is released and applied *)
    LSyncPop nat; LRegister nat;            (* 1: commit already known -> on its way *)
    Flush nat 1;                            (* the batch of offset 0 becomes durable *)
    LApplyPending nat;                      (* 1 applied *)
    Crash nat 0 2;                          (* batch of 1 lost, entry 12 (unsynced) lost *)
    RestartLeaderCtl nat; BecomeLeader nat ].

Example ex_leader_runs :
  exists n os, T_run_applied true true T_init ex_leader = Some (n, os) /\
    os = [0; 1; 1] /\ hist _ _ n = [10; 11] /\ flushed _ _ n = ([10], 1) /\ mem _ _ n = [([10; 11], 2)] /\
    commit _ _ n = 2.
Proof. eexists; eexists. vm_compute. repeat split; reflexivity. Qed.

(* the replay of that execution resumed at exactly c+1 = 1 *)
Example ex_leader_replay :
  exists n n' os, T_run true true T_init (firstn 15 ex_leader) = Some n /\
    T_step true true n (BecomeLeader nat) = Some (n', os) /\ commit _ _ n = 1 /\ os = [1].
Proof. eexists; eexists; eexists. vm_compute. repeat split; reflexivity. Qed.

(* ---- a follower: appends with a lagging advertised commit offset, sync round, an apply round that is
   interrupted by a flush and a crash, restart, a further round; then a snapshot installation ---- *)
Definition ex_follower : list (action nat) :=
  [ RestartFollower nat;
    FAppend nat 10 0; FAppend nat 11 1; FAppend nat 12 2; FSyncRound nat;
    FRoundStart nat; FRoundRead nat; FRoundApply nat; Flush nat 1; FRoundRead nat; FRoundApply nat;
    Crash nat 0 3;
    RestartFollower nat; FAppend nat 13 3; FSyncRound nat; FRoundStart nat;
    FRoundRead nat; FRoundApply nat; FRoundRead nat; FRoundApply nat; FRoundRead nat;
    SnapBegin nat; SnapLoad nat [20; 21; 22; 23; 24]; FAppend nat 25 5 ].

Example ex_follower_runs :
  exists n os, T_run_applied true true T_init ex_follower = Some (n, os) /\
    os = [0; 1; 1; 2] /\ hist _ _ n = [20; 21; 22; 23; 24; 25] /\ cur _ _ n = ([20; 21; 22; 23; 24], 5) /\
    wal_lo _ _ n = 5 /\ committed_hi _ _ n = 5.
Proof. eexists; eexists. vm_compute. repeat split; reflexivity. Qed.

Example ex_reachable : reachable T_state nat tr_apply [] true true
  (match T_run true true T_init ex_leader with Some n => n | None => T_init end).
Proof. exists ex_leader. vm_compute. reflexivity. Qed.

(* ---- refutation 1 (code as it was, no drain in NewTerm): an application decided by the quorum
   tracker survives NewTerm; BecomeLeader replays the entry; the stray application applies it again ---- *)
Definition wit_stray : list (action nat) :=
  [ RestartLeaderCtl nat; BecomeLeader nat;
    LWrite nat 10; WalSync nat 1; LSyncPop nat; LCommitAdvance nat 1; LRegister nat;
    LFence nat; BecomeLeader nat; StrayApply nat ].

Lemma stray_application_refuted :
  exists n os, T_run_applied false true T_init wit_stray = Some (n, os) /\
    os = [0; 0] /\                                                   (* offset 0 handed to ProcessWrite twice *)
    fst (cur _ _ n) <> fold_prefix _ _ tr_apply [] (hist _ _ n) (commit _ _ n).   (* and the DB is not the fold *)
Proof. eexists; eexists. vm_compute. split; [reflexivity|]. split; [reflexivity|discriminate]. Qed.

(* the same schedule is not an execution of the repaired code: NewTerm cannot complete there *)
Lemma stray_schedule_impossible_when_drained : T_run true true T_init wit_stray = None.
Proof. vm_compute. reflexivity. Qed.

(* ---- refutation 2 (code as it was, apply rounds hold no lock against handleSnapshot): the round has read
   entry 0 of the old log, the snapshot is installed, the round applies the old entry to the new DB ---- *)
Definition wit_snap : list (action nat) :=
  [ RestartFollower nat; FAppend nat 10 1; FSyncRound nat; FRoundStart nat; FRoundRead nat;
    SnapBegin nat; SnapLoad nat [20; 21; 22]; FRoundApply nat ].

Lemma snapshot_round_race_refuted :
  exists n os, T_run_applied true false T_init wit_snap = Some (n, os) /\
    os = [0] /\ commit _ _ n = 1 /\ hist _ _ n = [20; 21; 22] /\
    fst (cur _ _ n) = [20; 21; 22; 10] /\
    fst (cur _ _ n) <> fold_prefix _ _ tr_apply [] (hist _ _ n) (commit _ _ n).
Proof. eexists; eexists. vm_compute. repeat split; try reflexivity. discriminate. Qed.

Lemma snap_schedule_impossible_when_locked : T_run true true T_init wit_snap = None.
Proof. vm_compute. reflexivity. Qed.
