(* Main statements about the crash/apply model: for ALL action sequences (any interleaving of writes,
   sync completions, quorum-commit advances, follower appends / sync rounds / apply-round steps,
   flushes, crashes, restarts in either role, role switches, truncations, snapshot installations). *)
From Coq Require Import List Arith Bool ZArith Lia.
From Oxia.Crash Require Import Lists Model Inv Proofs.
Import ListNotations.

Section Theorems.
  Variables (dbstate entry : Type).
  Variable apply : dbstate -> entry -> dbstate.
  Variable init_db : dbstate.

  Notation node := (node dbstate entry).
  Notation hist := (hist dbstate entry).
  Notation wal_lo := (wal_lo dbstate entry).
  Notation synced := (synced dbstate entry).
  Notation flushed := (flushed dbstate entry).
  Notation mem := (mem dbstate entry).
  Notation rl := (rl dbstate entry).
  Notation committed_hi := (committed_hi dbstate entry).
  Notation cur := (cur dbstate entry).
  Notation commit := (commit dbstate entry).
  Notation Inv := (Inv dbstate entry apply init_db).
  Notation fp := (fold_prefix dbstate entry apply init_db).
  Notation stepF := (step dbstate entry apply init_db true true).
  Notation runF := (run dbstate entry apply init_db true true).
  Notation run_appliedF := (run_applied dbstate entry apply init_db true true).
  Notation init := (init_node dbstate entry init_db).
  Notation reachableF := (reachable dbstate entry apply init_db true true).

  (* actions after which the database is (possibly) another one: a crash drops the unflushed batches,
     a snapshot replaces the database *)
  Definition is_reset (a : action entry) : bool :=
    match a with
    | Crash _ _ _ | CrashInSnapBegin _ | CrashInSnapLoad _ | SnapLoad _ _ => true
    | _ => false
    end.

  Lemma pack0 (n n' : node) a : Inv n' -> commit n' = commit n ->
    Inv n' /\ @nil nat = seq (commit n) (length (@nil nat)) /\ (is_reset a = false -> commit n' = commit n + length (@nil nat)).
  Proof. intros H C. split; [assumption|]. split; [reflexivity|]. intros _. cbn [length]. lia. Qed.

  Lemma pack1 (n n' : node) a : Inv n' -> commit n' = S (commit n) ->
    Inv n' /\ [commit n] = seq (commit n) (length [commit n]) /\ (is_reset a = false -> commit n' = commit n + length [commit n]).
  Proof. intros H C. split; [assumption|]. split; [reflexivity|]. intros _. cbn [length]. lia. Qed.

  Lemma packr (n n' : node) a : Inv n' -> is_reset a = true ->
    Inv n' /\ @nil nat = seq (commit n) (length (@nil nat)) /\ (is_reset a = false -> commit n' = commit n + length (@nil nat)).
  Proof. intros H C. split; [assumption|]. split; [reflexivity|]. intros X. congruence. Qed.

  Lemma step_inv (n n' : node) a os : Inv n -> stepF n a = Some (n', os) ->
    Inv n' /\ os = seq (commit n) (length os) /\ (is_reset a = false -> commit n' = commit n + length os).
  Proof.
    intros H Hs. destruct a.
    - destruct (step_Flush _ _ _ _ _ _ _ _ H Hs) as (A & -> & C). apply pack0; assumption.
    - destruct (step_WalSync _ _ _ _ _ _ _ _ H Hs) as (A & -> & C). apply pack0; assumption.
    - destruct (step_Crash _ _ _ _ _ _ _ _ _ H Hs) as (A & -> & C). apply packr; [assumption|reflexivity].
    - destruct (step_CrashInSnapBegin _ _ _ _ _ _ _ H Hs) as (A & -> & C). apply packr; [assumption|reflexivity].
    - destruct (step_CrashInSnapLoad _ _ _ _ _ _ _ H Hs) as (A & -> & C). apply packr; [assumption|reflexivity].
    - destruct (step_Restart _ _ _ _ _ _ _ _ H (or_introl eq_refl) Hs) as (A & -> & C). apply pack0; assumption.
    - destruct (step_Restart _ _ _ _ _ _ _ _ H (or_intror (or_introl eq_refl)) Hs) as (A & -> & C). apply pack0; assumption.
    - destruct (step_Restart _ _ _ _ _ _ _ _ H (or_intror (or_intror (or_introl eq_refl))) Hs) as (A & -> & C). apply pack0; assumption.
    - destruct (step_Restart _ _ _ _ _ _ _ _ H (or_intror (or_intror (or_intror eq_refl))) Hs) as (A & -> & C). apply pack0; assumption.
    - destruct (step_BecomeLeader _ _ _ _ _ _ _ H Hs) as (A & -> & C & D). rewrite seq_length.
      split; [assumption|]. split; [reflexivity|]. intros _. lia.
    - destruct (step_LWrite _ _ _ _ _ _ _ _ H Hs) as (A & -> & C). apply pack0; assumption.
    - destruct (step_LSyncPop _ _ _ _ _ _ _ H Hs) as (A & -> & C). apply pack0; assumption.
    - destruct (step_LRegister _ _ _ _ _ _ _ H Hs) as (A & -> & C). apply pack0; assumption.
    - destruct (step_LApplyPending _ _ _ _ _ _ _ H Hs) as (A & -> & C). apply pack1; assumption.
    - destruct (step_LCommitAdvance _ _ _ _ _ _ _ _ H Hs) as (A & B & C). split; [assumption|]. split; [assumption|]. intros _. assumption.
    - destruct (step_LFence _ _ _ _ _ _ _ H Hs) as (A & -> & C). apply pack0; assumption.
    - destruct (step_StrayApply _ _ _ _ _ _ _ H Hs).
    - destruct (step_FAppend _ _ _ _ _ _ _ _ _ H Hs) as (A & -> & C). apply pack0; assumption.
    - destruct (step_FSyncRound _ _ _ _ _ _ _ H Hs) as (A & -> & C). apply pack0; assumption.
    - destruct (step_FRoundStart _ _ _ _ _ _ _ H Hs) as (A & -> & C). apply pack0; assumption.
    - destruct (step_FRoundRead _ _ _ _ _ _ _ H Hs) as (A & -> & C). apply pack0; assumption.
    - destruct (step_FRoundApply _ _ _ _ _ _ _ H Hs) as (A & -> & C). apply pack1; assumption.
    - destruct (step_Truncate _ _ _ _ _ _ _ _ H Hs) as (A & -> & C). apply pack0; assumption.
    - destruct (step_SnapBegin _ _ _ _ _ _ _ H Hs) as (A & -> & C). apply pack0; assumption.
    - destruct (step_SnapLoad _ _ _ _ _ _ _ _ H Hs) as (A & -> & C). apply packr; [assumption|reflexivity].
  Qed.

  Lemma inv_init : Inv init.
  Proof. apply inv_empty. Qed.

  Lemma run_inv acts : forall (n n' : node), Inv n -> runF n acts = Some n' -> Inv n'.
  Proof.
    induction acts as [|a tl IH]; intros n n' H Hr; cbn [run] in Hr.
    - injection Hr as <-. assumption.
    - destruct (stepF n a) as [[n1 os]|] eqn:E; [|discriminate].
      destruct (step_inv _ _ _ _ H E) as [H1 _]. eapply IH; eassumption.
  Qed.

  Lemma reachable_inv (n : node) : reachableF n -> Inv n.
  Proof. intros [acts Hr]. eapply run_inv; [apply inv_init|exact Hr]. Qed.

  (* ---- C07, main statement: the database IS the fold of the log prefix 0..c, c being the commit
     offset stored in that same database content.  It holds for the current content and for every
     content that a crash can leave behind (the flushed one and every unflushed batch boundary). *)
  Theorem db_is_fold_of_prefix (n : node) : reachableF n ->
    fst (cur n) = fp (hist n) (commit n) /\
    forall d, In d (flushed n :: mem n) -> fst d = fp (hist n) (snd d) /\ snd d <= commit n.
  Proof.
    intros Hr. pose proof (reachable_inv n Hr) as [Hc _ _ _ _]. split.
    - apply (cur_good dbstate entry apply init_db n Hc).
    - intros d Hd. split.
      + apply (proj1 (Forall_forall _ _) (c_good _ _ _ _ n Hc) d Hd).
      + apply all_le_commit; [apply (c_chain _ _ _ _ n Hc)|assumption].
  Qed.

  (* the same, read with the Go value of the commit offset (c = -1 for the empty database) *)
  Theorem db_is_fold_of_prefix_Z (n : node) : reachableF n ->
    fst (cur n) = fold_left apply (firstn (Z.to_nat (commit_of dbstate (cur n) + 1)) (hist n)) init_db.
  Proof.
    intros Hr. destruct (db_is_fold_of_prefix n Hr) as [H _]. rewrite H. unfold fold_prefix, commit_of, Model.commit.
    f_equal. f_equal. lia.
  Qed.

  (* every batch applies exactly one entry, the next one: the unflushed batches are the contents
     after entries c_flushed+1, c_flushed+2, ... *)
  Theorem batches_one_entry_each (n : node) : reachableF n ->
    map snd (mem n) = seq (S (snd (flushed n))) (length (mem n)).
  Proof.
    intros Hr. pose proof (reachable_inv n Hr) as [Hc _ _ _ _]. pose proof (c_chain _ _ _ _ n Hc) as H.
    revert H. generalize (snd (flushed n)). induction (mem n) as [|d l IH]; intros c0 H; [reflexivity|].
    destruct H as [Hd Hl]. cbn [map length seq]. f_equal; [assumption|]. rewrite <- Hd. apply IH, Hl.
  Qed.

  (* ---- the commit offset is never ahead of the durable log; the physical WAL still holds
     everything above the durable commit offset (or is empty just above it: snapshot) *)
  Theorem commit_not_ahead_of_log (n : node) : reachableF n ->
    commit n <= synced n /\ synced n <= length (hist n) /\
    wal_lo n <= snd (flushed n) /\ snd (flushed n) <= commit n.
  Proof.
    intros Hr. pose proof (reachable_inv n Hr) as [Hc Hlo _ _ _].
    split; [apply commit_le_synced with (apply := apply) (init_db := init_db); assumption|].
    split; [apply (c_sync _ _ _ _ n Hc)|]. split; [assumption|].
    apply all_le_commit; [apply (c_chain _ _ _ _ n Hc)|left; reflexivity].
  Qed.

  (* ---- replay after a restart resumes at exactly c+1 and goes to the head, nothing skipped, nothing twice *)
  Theorem replay_resumes_at_c_plus_1 (n n' : node) os : reachableF n ->
    stepF n (BecomeLeader entry) = Some (n', os) ->
    os = seq (commit n) (length (hist n) - commit n) /\ commit n' = length (hist n) /\
    fst (cur n') = fold_left apply (hist n) init_db.
  Proof.
    intros Hr Hs. pose proof (reachable_inv n Hr) as H.
    destruct (step_BecomeLeader _ _ _ _ _ _ _ H Hs) as (A & B & C & D). split; [assumption|]. split; [assumption|].
    pose proof (cur_good dbstate entry apply init_db n' (i_core _ _ _ _ n' A)) as [G _].
    rewrite G. change (snd (cur n')) with (commit n'). rewrite C.
    assert (hist n' = hist n) as ->.
    { cbn -[Nat.ltb] in Hs. destruct (rl n); try discriminate.
      destruct ((synced n =? length (hist n)) && (wal_lo n <=? commit n)); [|discriminate]. injection Hs as <- _. reflexivity. }
    apply fp_all.
  Qed.

  Theorem follower_resumes_at_c_plus_1 (n : node) f : reachableF n -> rl n = Follower entry f ->
    f_commit entry f = commit n /\
    (forall nx mx, f_round entry f = Some (nx, mx) -> f_held entry f = None -> nx = commit n) /\
    (forall o e, f_held entry f = Some (o, e) -> o = commit n /\ nth_error (hist n) o = Some e).
  Proof.
    intros Hr Er. pose proof (reachable_inv n Hr) as [_ _ _ _ Hri]. unfold role_inv in Hri. rewrite Er in Hri.
    destruct Hri as (F1 & F2 & F3 & F4 & F5 & F6). split; [assumption|]. split.
    - intros nx mx X Y. destruct (F4 _ _ X) as [_ Z]. apply Z, Y.
    - intros o e X. destruct (F5 _ _ X) as (Y1 & Y2 & _). split; assumption.
  Qed.

  (* ---- every hand-over to db.ProcessWrite, by any action in any reachable state, is for the offsets
     c+1, c+2, ... in this order (c the commit offset stored in the database at that moment) *)
  Theorem apply_in_offset_order (n n' : node) a os : reachableF n -> stepF n a = Some (n', os) ->
    os = seq (commit n) (length os) /\ (is_reset a = false -> commit n' = commit n + length os).
  Proof.
    intros Hr Hs. destruct (step_inv _ _ _ _ (reachable_inv n Hr) Hs) as (_ & A & B). split; assumption.
  Qed.

  (* between two resets (crash / snapshot) every entry is applied exactly once, in offset order *)
  Lemma run_applied_order acts : forall (n n' : node) os, Inv n -> forallb (fun a => negb (is_reset a)) acts = true ->
    run_appliedF n acts = Some (n', os) -> os = seq (commit n) (length os) /\ commit n' = commit n + length os.
  Proof.
    induction acts as [|a tl IH]; intros n n' os H Hnr Hr; cbn [run_applied] in Hr.
    - injection Hr as <- <-. cbn. split; [reflexivity|lia].
    - cbn [forallb] in Hnr. apply andb_true_iff in Hnr. destruct Hnr as [Ha Htl]. apply negb_true_iff in Ha.
      destruct (stepF n a) as [[n1 os1]|] eqn:E; [|discriminate].
      destruct (run_appliedF n1 tl) as [[n2 os2]|] eqn:E2; [|discriminate]. injection Hr as <- <-.
      destruct (step_inv _ _ _ _ H E) as (H1 & O1 & C1). specialize (C1 Ha).
      destruct (IH _ _ _ H1 Htl E2) as (O2 & C2).
      rewrite app_length. split; [|lia]. rewrite seq_app. rewrite <- O1. f_equal. rewrite <- C1. assumption.
  Qed.

  Theorem exactly_once_in_order_between_resets (n n' : node) acts os : reachableF n ->
    forallb (fun a => negb (is_reset a)) acts = true -> run_appliedF n acts = Some (n', os) ->
    os = seq (commit n) (length os) /\ commit n' = commit n + length os.
  Proof. intros Hr. apply run_applied_order, reachable_inv, Hr. Qed.

  (* ---- nothing is applied that the node was not told to be committed *)
  Theorem applied_only_committed (n : node) : reachableF n -> commit n <= committed_hi n.
  Proof. intros Hr. apply (i_hi _ _ _ _ n (reachable_inv n Hr)). Qed.

End Theorems.
