(* Preservation of the invariant by every action of the repaired code (drain = true, snaplock = true),
   and the order in which an action hands offsets to db.ProcessWrite. *)
From Coq Require Import List Arith Bool Lia.
From Oxia.Crash Require Import Lists Model Inv.
Import ListNotations.

Section Proofs.
  Variables (dbstate entry : Type).
  Variable apply : dbstate -> entry -> dbstate.
  Variable init_db : dbstate.

  Notation node := (node dbstate entry).
  Notation db := (db dbstate).
  Notation fp := (fold_prefix dbstate entry apply init_db).
  Notation pw := (process_write dbstate entry apply).
  Notation hist := (hist dbstate entry).
  Notation wal_lo := (wal_lo dbstate entry).
  Notation synced := (synced dbstate entry).
  Notation flushed := (flushed dbstate entry).
  Notation mem := (mem dbstate entry).
  Notation rl := (rl dbstate entry).
  Notation stray := (stray dbstate entry).
  Notation committed_hi := (committed_hi dbstate entry).
  Notation cur := (cur dbstate entry).
  Notation commit := (commit dbstate entry).
  Notation Core := (Core dbstate entry apply init_db).
  Notation Inv := (Inv dbstate entry apply init_db).
  Notation good := (good dbstate entry apply init_db).
  Notation chain := (chain dbstate).
  Notation role_inv := (role_inv dbstate entry).
  Notation leader_inv := (leader_inv dbstate entry).
  Notation follower_inv := (follower_inv dbstate entry).
  Notation flush_to := (flush_to dbstate entry).
  Notation set_role := (set_role dbstate entry).
  Notation stepF := (step dbstate entry apply init_db true true).

  Ltac leb H := first [apply Nat.leb_le in H | apply Nat.ltb_lt in H | apply Nat.eqb_eq in H
                      | apply Nat.leb_gt in H | apply Nat.ltb_ge in H | apply Nat.eqb_neq in H].

  Ltac fold_commit n :=
    repeat match goal with
           | |- context [Model.commit _ _ ?x] =>
               lazymatch x with
               | n => fail
               | _ => change (Model.commit dbstate entry x) with (Model.commit dbstate entry n)
               end
           end.

  (* ---------------------------------------------------------------- small facts *)

  Lemma release_spec q w r k : release q w = (r, k) ->
    w = r ++ k /\ Forall (fun o => o < q) r /\ match k with [] => True | o :: _ => q <= o end.
  Proof.
    revert r k; induction w as [|o tl IH]; intros r k H; cbn [release] in H.
    - injection H as <- <-. repeat split; constructor.
    - destruct (o <? q) eqn:E.
      + destruct (release q tl) as [r' k'] eqn:E'. injection H as <- <-.
        destruct (IH _ _ eq_refl) as (-> & Hr & Hk). leb E.
        split; [reflexivity|]. split; [constructor; assumption|assumption].
      + injection H as <- <-. leb E. split; [reflexivity|]. split; [constructor|lia].
  Qed.

  Lemma seq_app_inv a m l1 l2 : seq a m = l1 ++ l2 ->
    l1 = seq a (length l1) /\ l2 = seq (a + length l1) (length l2) /\ m = length l1 + length l2.
  Proof.
    revert a m; induction l1 as [|x l1 IH]; intros a m H; cbn [app length] in *.
    - replace (a + 0) with a by lia. rewrite <- H, seq_length. repeat split; reflexivity.
    - destruct m as [|m]; [discriminate|]. cbn [seq] in H. injection H as <- H.
      destruct (IH _ _ H) as (H1 & H2 & H3). cbn [seq]. rewrite <- H1.
      replace (a + S (length l1)) with (S a + length l1) by lia. repeat split; [assumption|lia].
  Qed.

  Lemma seq_ge a m x : In x (seq a m) -> a <= x.
  Proof. intros H. apply in_seq in H. lia. Qed.

  Lemma core_set_role (n : node) r : Core n -> Core (set_role n r).
  Proof. intros [H1 H2 H3]. split; assumption. Qed.

  (* the role invariant only looks at these components *)
  Lemma role_inv_frame (n n' : node) :
    rl n' = rl n -> commit n' = commit n -> hist n' = hist n -> synced n <= synced n' ->
    committed_hi n <= committed_hi n' -> (mem n = [] -> mem n' = []) ->
    role_inv n -> role_inv n'.
  Proof.
    intros Hr Hc Hh Hs Hhi Hm H. unfold Inv.role_inv in *. rewrite Hr.
    destruct (rl n) as [| |l|f]; try exact I.
    - destruct H as (H1 & H2 & H3 & H4 & H5 & H6 & H7 & H8 & H9).
      unfold Inv.leader_inv. rewrite Hc, Hh. repeat split; try assumption.
      + eapply Forall_impl; [|exact H4]. cbn. intros. lia.
      + intros o Ho. specialize (H8 o Ho). lia.
      + lia.
    - destruct H as (H1 & H2 & H3 & H4 & H5 & H6).
      unfold Inv.follower_inv. rewrite Hc, Hh. repeat split.
      + assumption.
      + apply Hm, H2, H.
      + apply H2, H.
      + assumption.
      + destruct (H4 _ _ H). lia.
      + intros Hh'. destruct (H4 _ _ H) as [_ X]. apply X, Hh'.
      + destruct (H5 _ _ H) as (X & _). assumption.
      + destruct (H5 _ _ H) as (_ & X & _). assumption.
      + destruct (H5 _ _ H) as (_ & _ & X & _). lia.
      + destruct (H5 _ _ H) as (_ & _ & _ & X). assumption.
      + intros X. specialize (H6 X). lia.
  Qed.

  (* ---------------------------------------------------------------- database-only actions *)

  Lemma inv_flush (n : node) k : Inv n -> Inv (flush_to n k).
  Proof.
    intros [Hc Hlo Hhi Hst Hr]. split.
    - apply core_flush, Hc.
    - pose proof (flushed_le_flush dbstate entry n k (c_chain _ _ _ _ n Hc)). cbn in *. lia.
    - rewrite commit_flush. assumption.
    - assumption.
    - apply (role_inv_frame n); try reflexivity; try (cbn; lia); try assumption.
      + apply commit_flush.
      + intros Hm. cbn. rewrite Hm. destruct k; reflexivity.
  Qed.

  Lemma step_Flush (n n' : node) k os : Inv n -> stepF n (Flush entry k) = Some (n', os) ->
    Inv n' /\ os = [] /\ commit n' = commit n.
  Proof.
    intros H Hs. cbn -[Nat.ltb] in Hs. destruct (k <=? length (mem n)); [|discriminate].
    injection Hs as <- <-. split; [apply inv_flush, H|]. split; [reflexivity|apply commit_flush].
  Qed.

  Lemma step_WalSync (n n' : node) sy os : Inv n -> stepF n (WalSync entry sy) = Some (n', os) ->
    Inv n' /\ os = [] /\ commit n' = commit n.
  Proof.
    intros [Hc Hlo Hhi Hst Hr] Hs. cbn -[Nat.ltb] in Hs.
    destruct (synced n <=? sy) eqn:E1; [|discriminate]. destruct (sy <=? length (hist n)) eqn:E2; [|discriminate].
    cbn in Hs. injection Hs as <- <-. leb E1. leb E2.
    split; [|split; reflexivity]. destruct Hc as [H1 H2 H3]. split; try assumption.
    - split; cbn; [lia| |assumption].
      eapply Forall_impl; [|exact H2]. intros d Hd. eapply good_mono; [|exact Hd]. assumption.
    - apply (role_inv_frame n); try reflexivity; try assumption; cbn; try lia. auto.
  Qed.

  Lemma step_Crash (n n' : node) j k os : Inv n -> stepF n (Crash entry j k) = Some (n', os) ->
    Inv n' /\ os = [] /\ commit n' <= commit n /\ commit n' = snd (flushed n') /\ mem n' = [] /\
    snd (flushed n) <= commit n'.
  Proof.
    intros [Hc Hlo Hhi Hst Hr] Hs. cbn -[Nat.ltb] in Hs.
    destruct (j <=? length (mem n)) eqn:E1; [|discriminate].
    destruct (synced n <=? k) eqn:E2; [|discriminate].
    destruct (k <=? length (hist n)) eqn:E3; [|discriminate]. cbn -[Nat.ltb] in Hs.
    injection Hs as <- <-. leb E1. leb E2. leb E3.
    pose proof (flushed_flush_in dbstate entry n j) as Hin.
    pose proof (c_chain _ _ _ _ n Hc) as Hch.
    pose proof (all_le_commit dbstate entry n _ Hch Hin) as Hle.
    assert (Hg : good (hist n) (synced n) (flushed (flush_to n j)))
      by (eapply Forall_forall; [apply (c_good _ _ _ _ n Hc)|exact Hin]).
    pose proof (flushed_le_flush dbstate entry n j Hch) as Hfl.
    change (flushed (flush_to n j)) with (last (firstn j (mem n)) (flushed n)) in *.
    split; [|split; [reflexivity|]; split; [exact Hle|]; split; [reflexivity|]; split; [reflexivity|exact Hfl]].
    split; cbn [Model.hist Model.synced Model.flushed Model.mem Model.wal_lo Model.stray Model.rl Model.committed_hi].
    - split; cbn [Model.hist Model.synced Model.flushed Model.mem].
      + rewrite firstn_length. lia.
      + constructor; [|constructor]. destruct Hg as [G1 G2]. eapply good_cut; [| |split; eassumption]; lia.
      + exact I.
    - lia.
    - change (snd (last (firstn j (mem n)) (flushed n)) <= committed_hi n). lia.
    - reflexivity.
    - exact I.
  Qed.

  Lemma step_CrashInSnapBegin (n n' : node) os : Inv n -> stepF n (CrashInSnapBegin entry) = Some (n', os) ->
    Inv n' /\ os = [] /\ commit n' <= commit n.
  Proof.
    intros [Hc Hlo Hhi Hst Hr] Hs. cbn -[Nat.ltb] in Hs.
    destruct (rl n) as [| |l|f]; try discriminate.
    destruct (f_dbopen entry f && (isNone (f_round entry f) || false)); [|discriminate].
    injection Hs as <- <-.
    pose proof (c_chain _ _ _ _ n Hc) as Hch.
    pose proof (all_le_commit dbstate entry n (flushed n) Hch (or_introl eq_refl)) as Hle.
    assert (Hg : good (hist n) (synced n) (flushed n)) by (pose proof (c_good _ _ _ _ n Hc) as X; inversion X; assumption).
    pose proof (c_sync _ _ _ _ n Hc) as Hsy. destruct Hg as [G1 G2].
    split; [|split; [reflexivity|unfold Model.commit, Model.cur; cbn; assumption]].
    split; cbn [Model.hist Model.synced Model.flushed Model.mem Model.wal_lo Model.stray Model.rl Model.committed_hi].
    - split; cbn [Model.hist Model.synced Model.flushed Model.mem].
      + rewrite firstn_length. lia.
      + constructor; [|constructor]. eapply good_cut; [| |split; eassumption]; lia.
      + exact I.
    - lia.
    - unfold Model.commit, Model.cur. cbn. lia.
    - reflexivity.
    - exact I.
  Qed.

  Lemma inv_empty hi : Inv (mkN dbstate entry [] 0 0 (init_db, 0) [] (Down entry) None hi).
  Proof.
    split; cbn; try lia; try reflexivity; try exact I.
    split; cbn; [lia| |exact I]. constructor; [|constructor]. split; cbn; [reflexivity|lia].
  Qed.

  Lemma step_CrashInSnapLoad (n n' : node) os : Inv n -> stepF n (CrashInSnapLoad entry) = Some (n', os) ->
    Inv n' /\ os = [] /\ commit n' <= commit n.
  Proof.
    intros _ Hs. cbn -[Nat.ltb] in Hs. destruct (rl n) as [| |l|f]; try discriminate.
    destruct (negb (f_dbopen entry f)); [|discriminate]. injection Hs as <- <-.
    split; [apply inv_empty|]. split; [reflexivity|]. unfold Model.commit, Model.cur. cbn. lia.
  Qed.

  Lemma follower_inv_new (n : node) : follower_inv n (new_follower entry (commit n)).
  Proof.
    unfold Inv.follower_inv, new_follower; cbn. repeat split; try discriminate; try reflexivity.
  Qed.

  Lemma inv_set_role (n : node) r : Inv n ->
    match r with Down _ | Fenced _ => True | Leader _ l => leader_inv n l | Follower _ f => follower_inv n f end ->
    Inv (set_role n r).
  Proof.
    intros [Hc Hlo Hhi Hst Hr] H. split; try assumption.
    apply core_set_role, Hc.
  Qed.

  Lemma inv_mk (n : node) r : Core n -> wal_lo n <= snd (flushed n) -> commit n <= committed_hi n -> stray n = None ->
    match r with Down _ | Fenced _ => True | Leader _ l => leader_inv n l | Follower _ f => follower_inv n f end ->
    Inv (set_role n r).
  Proof.
    intros Hc Hlo Hhi Hst H. split; try assumption. apply core_set_role, Hc.
  Qed.

  Lemma step_Restart (n n' : node) a os : Inv n ->
    a = RestartFollower entry \/ a = RestartLeaderCtl entry \/ a = SwitchToLeaderCtl entry \/ a = SwitchToFollowerCtl entry ->
    stepF n a = Some (n', os) -> Inv n' /\ os = [] /\ commit n' = commit n.
  Proof.
    intros H [ -> | [ -> | [ -> | -> ] ] ] Hs; cbn in Hs; destruct (rl n) as [| |l|f] eqn:Er; try discriminate.
    - injection Hs as <- <-. split; [|split; reflexivity]. apply inv_set_role; [assumption|apply follower_inv_new].
    - injection Hs as <- <-. split; [|split; reflexivity]. apply inv_set_role; [assumption|exact I].
    - destruct (isNone (f_round entry f) && f_dbopen entry f); [|discriminate]. injection Hs as <- <-.
      split; [|split; [reflexivity|apply commit_flush]]. apply inv_set_role; [apply inv_flush, H|exact I].
    - injection Hs as <- <-. split; [|split; [reflexivity|apply commit_flush]].
      apply inv_set_role; [apply inv_flush, H|]. apply follower_inv_new.
  Qed.

  (* ---------------------------------------------------------------- replay (BecomeLeader) *)

  Lemma skipn_cons_nth {A} (l : list A) c e tl : skipn c l = e :: tl -> nth_error l c = Some e /\ skipn (S c) l = tl.
  Proof.
    revert c; induction l as [|a l IH]; intros [|c] H; cbn in *; try discriminate.
    - injection H as <- <-. split; reflexivity.
    - apply IH, H.
  Qed.

  Lemma replay_spec h s es : s = length h -> forall c (d : db), skipn c h = es -> snd d = c -> good h s d ->
    Forall (good h s) (replay dbstate entry apply d c es) /\ chain c (replay dbstate entry apply d c es) /\
    length (replay dbstate entry apply d c es) = length es.
  Proof.
    intros Hs. induction es as [|e tl IH]; intros c d Hsk Hd Hg; cbn [replay].
    - repeat split; constructor.
    - destruct (skipn_cons_nth _ _ _ _ Hsk) as [Hn Hsk'].
      assert (Hlt : c < s) by (subst s; apply nth_error_Some; congruence).
      assert (Hg' : good h s (pw d c e)) by (rewrite <- Hd; apply good_step; [assumption|rewrite Hd; assumption|lia]).
      destruct (IH (S c) (pw d c e) Hsk' eq_refl Hg') as (F & C & L).
      split; [constructor; assumption|]. split; [split; [reflexivity|exact C]|]. cbn [length]. lia.
  Qed.

  Lemma length_skipn {A} (l : list A) c : length (skipn c l) = length l - c.
  Proof. apply skipn_length. Qed.

  Lemma step_BecomeLeader (n n' : node) os : Inv n -> stepF n (BecomeLeader entry) = Some (n', os) ->
    Inv n' /\ os = seq (commit n) (length (hist n) - commit n) /\ commit n' = length (hist n) /\
    commit n <= length (hist n).
  Proof.
    intros [Hc Hlo Hhi Hst Hr] Hs. cbn -[Nat.ltb] in Hs. destruct (rl n) as [| |l|f] eqn:Er; try discriminate.
    destruct (synced n =? length (hist n)) eqn:E1; [|discriminate].
    destruct (wal_lo n <=? commit n) eqn:E2; [|discriminate]. cbn -[Nat.ltb] in Hs. injection Hs as <- <-.
    leb E1. leb E2.
    pose proof (cur_good dbstate entry apply init_db n Hc) as Hg.
    pose proof (c_chain _ _ _ _ n Hc) as Hch.
    pose proof (commit_eq dbstate entry n Hch) as Hce.
    destruct (replay_spec (hist n) (synced n) (skipn (commit n) (hist n)) E1 (commit n) (cur n) eq_refl eq_refl Hg)
      as (F & C & L).
    rewrite length_skipn in L.
    assert (Hcl : commit n <= length (hist n)) by (destruct Hg as [_ G2]; change (snd (cur n)) with (commit n) in G2; lia).
    set (bs := replay dbstate entry apply (cur n) (commit n) (skipn (commit n) (hist n))) in *.
    assert (Hch' : chain (snd (flushed n)) (mem n ++ bs)) by (apply chain_app; [assumption|rewrite <- Hce; assumption]).
    assert (Hcn : snd (last (mem n ++ bs) (flushed n)) = length (hist n)).
    { destruct (flushed n) as [fx fc] eqn:Ef. cbn [snd] in *. rewrite (chain_last dbstate fc (mem n ++ bs) fx Hch').
      rewrite app_length. lia. }
    split; [|split; [reflexivity|split; [exact Hcn|exact Hcl]]].
    split; cbn [Model.hist Model.synced Model.flushed Model.mem Model.wal_lo Model.stray Model.rl Model.committed_hi].
    - split; cbn [Model.hist Model.synced Model.flushed Model.mem].
      + lia.
      + pose proof (c_good _ _ _ _ n Hc) as X. inversion X; subst. constructor; [assumption|].
        apply Forall_app. split; assumption.
      + assumption.
    - assumption.
    - unfold Model.commit, Model.cur. cbn [Model.mem Model.flushed]. rewrite Hcn. lia.
    - assumption.
    - unfold Inv.role_inv. cbn [Model.rl]. unfold Inv.leader_inv, Model.commit, Model.cur.
      cbn [Model.mem Model.flushed Model.hist Model.synced Model.committed_hi l_waiting l_slot l_pending l_syncq l_next l_qcommit Inv.opt app].
      rewrite Hcn, Nat.sub_diag. cbn [seq].
      split; [reflexivity|]. split; [lia|]. split; [reflexivity|]. split; [constructor|]. split; [constructor|].
      split; [left; reflexivity|]. split; [reflexivity|]. split; [discriminate|lia].
  Qed.

  (* ---------------------------------------------------------------- the leader pipeline *)

  Notation opt := Inv.opt.

  Lemma step_LWrite (n n' : node) e os : Inv n -> stepF n (LWrite entry e) = Some (n', os) ->
    Inv n' /\ os = [] /\ commit n' = commit n.
  Proof.
    intros [Hc Hlo Hhi Hst Hr] Hs. cbn -[Nat.ltb] in Hs. destruct (rl n) as [| |l|f] eqn:Er; try discriminate.
    destruct (l_next l =? length (hist n)) eqn:E1; [|discriminate]. injection Hs as <- <-. leb E1.
    split; [|split; reflexivity].
    unfold Inv.role_inv in Hr. rewrite Er in Hr. destruct Hr as (H1 & H2 & H3 & H4 & H5 & H6 & H7 & H8 & H9).
    destruct Hc as [C1 C2 C3].
    split; cbn [Model.hist Model.synced Model.flushed Model.mem Model.wal_lo Model.stray Model.rl Model.committed_hi]; try assumption.
    - split; cbn [Model.hist Model.synced Model.flushed Model.mem]; [rewrite app_length; cbn; lia| |assumption].
      eapply Forall_impl; [|exact C2]. intros d Hd. apply good_app; assumption.
    - unfold Inv.role_inv. cbn [Model.rl]. unfold Inv.leader_inv.
      fold_commit n.
      cbn [Model.hist Model.synced Model.committed_hi l_waiting l_slot l_pending l_syncq l_next l_qcommit].
      split.
      { replace (S (l_next l) - commit n) with (S (l_next l - commit n)) by lia.
        rewrite seq_S, <- H1. replace (commit n + (l_next l - commit n)) with (l_next l) by lia.
        rewrite <- !app_assoc. reflexivity. }
      split; [lia|]. split; [rewrite app_length; cbn; lia|].
      repeat split; assumption.
  Qed.

  Lemma step_LSyncPop (n n' : node) os : Inv n -> stepF n (LSyncPop entry) = Some (n', os) ->
    Inv n' /\ os = [] /\ commit n' = commit n.
  Proof.
    intros H Hs. pose proof H as [Hc Hlo Hhi Hst Hr]. cbn -[Nat.ltb] in Hs. destruct (rl n) as [| |l|f] eqn:Er; try discriminate.
    destruct (l_syncq l) as [|o tl] eqn:Eq; [discriminate|].
    destruct (l_slot l) eqn:Es; [discriminate|]. destruct (l_pending l) eqn:Ep; [discriminate|].
    destruct (o <? synced n) eqn:E1; [|discriminate]. injection Hs as <- <-. leb E1.
    split; [|split; reflexivity]. apply inv_set_role; [assumption|].
    unfold Inv.role_inv in Hr. rewrite Er in Hr. destruct Hr as (H1 & H2 & H3 & H4 & H5 & H6 & H7 & H8 & H9).
    rewrite Eq, Es, Ep in *. unfold Inv.leader_inv.
    cbn [l_waiting l_slot l_pending l_syncq l_next l_qcommit Inv.opt app] in *.
    split; [assumption|]. split; [assumption|]. split; [assumption|].
    split; [rewrite app_nil_r in H4; apply Forall_app_single; assumption|].
    split; [assumption|]. split; [right; reflexivity|]. split; [intros X; contradiction|]. split; [discriminate|assumption].
  Qed.

  Lemma step_LRegister (n n' : node) os : Inv n -> stepF n (LRegister entry) = Some (n', os) ->
    Inv n' /\ os = [] /\ commit n' = commit n.
  Proof.
    intros H Hs. pose proof H as [Hc Hlo Hhi Hst Hr]. cbn -[Nat.ltb] in Hs. destruct (rl n) as [| |l|f] eqn:Er; try discriminate.
    destruct (l_slot l) as [o|] eqn:Es; [|discriminate].
    unfold Inv.role_inv in Hr. rewrite Er in Hr. destruct Hr as (H1 & H2 & H3 & H4 & H5 & H6 & H7 & H8 & H9).
    assert (Ep : l_pending l = None) by (destruct H6 as [X|X]; [congruence|assumption]).
    rewrite Es, Ep in *. cbn [Inv.opt app] in *.
    destruct (o <? l_qcommit l) eqn:E1; injection Hs as <- <-; leb E1;
      (split; [|split; reflexivity]); (apply inv_set_role; [assumption|]); unfold Inv.leader_inv;
      cbn [l_waiting l_slot l_pending l_syncq l_next l_qcommit Inv.opt app].
    - (* the commit offset is already there: the application is on its way; nothing can be waiting *)
      assert (Hw : l_waiting l = []).
      { destruct (l_waiting l) as [|w tl] eqn:Ew; [reflexivity|]. exfalso.
        destruct (seq_app_inv _ _ _ _ (eq_sym H1)) as (A1 & A2 & _).
        cbn [length] in A1. cbn [seq] in A1. injection A1 as A1 _.
        cbn [app length] in A2. cbn [seq] in A2. injection A2 as A2 _.
        inversion H5; subst. lia. }
      rewrite Hw in *. cbn [app] in *.
      split; [assumption|]. split; [assumption|]. split; [assumption|]. split; [assumption|].
      split; [constructor|]. split; [left; reflexivity|]. split; [reflexivity|].
      split; [intros o' X; injection X as <-; lia|assumption].
    - split; [rewrite <- app_assoc; assumption|]. split; [assumption|]. split; [assumption|].
      split; [rewrite app_nil_r; assumption|].
      split; [apply Forall_app_single; [assumption|lia]|]. split; [left; reflexivity|].
      split; [intros X; contradiction|]. split; [discriminate|assumption].
  Qed.

  Lemma step_LApplyPending (n n' : node) os : Inv n -> stepF n (LApplyPending entry) = Some (n', os) ->
    Inv n' /\ os = [commit n] /\ commit n' = S (commit n).
  Proof.
    intros H Hs. pose proof H as [Hc Hlo Hhi Hst Hr]. cbn -[Nat.ltb] in Hs. destruct (rl n) as [| |l|f] eqn:Er; try discriminate.
    destruct (l_pending l) as [o|] eqn:Ep; [|discriminate].
    unfold Inv.role_inv in Hr. rewrite Er in Hr. destruct Hr as (H1 & H2 & H3 & H4 & H5 & H6 & H7 & H8 & H9).
    assert (Es : l_slot l = None) by (destruct H6 as [X|X]; [assumption|congruence]).
    assert (Hw : l_waiting l = []) by (apply H7; congruence).
    rewrite Es, Ep, Hw in *. cbn [Inv.opt app] in *.
    destruct (seq_cons_inv _ _ _ _ (eq_sym H1)) as (Ho & Htl & Hm).
    inversion H4 as [|? ? Hlt _]; subst o.
    destruct (apply_at dbstate entry apply n (commit n)) as [n1|] eqn:Ea; [|discriminate].
    injection Hs as <- <-.
    destruct (apply_at_commit dbstate entry apply init_db n n1 (commit n) Hc eq_refl Hlt Ea)
      as (C1 & Hc1 & Hh & Hsy & Hf & Hlo1 & Hr1 & Hst1 & Hhi1 & _).
    split; [|split; [reflexivity|exact Hc1]].
    apply inv_mk.
    - exact C1.
    - rewrite Hlo1, Hf. assumption.
    - rewrite Hc1, Hhi1. apply (H8 _ eq_refl).
    - congruence.
    - unfold Inv.leader_inv. rewrite Hc1, Hh, Hsy, Hhi1.
      cbn [l_waiting l_slot l_pending l_syncq l_next l_qcommit Inv.opt app].
      split; [rewrite Htl; f_equal; lia|]. split; [lia|]. split; [assumption|]. split; [constructor|].
      split; [constructor|]. split; [left; reflexivity|]. split; [reflexivity|]. split; [discriminate|assumption].
  Qed.

  Lemma seq_last_in a m : 1 <= m -> In (a + m - 1) (seq a m).
  Proof. intros. apply in_seq. lia. Qed.

  Lemma step_LCommitAdvance (n n' : node) q os : Inv n -> stepF n (LCommitAdvance entry q) = Some (n', os) ->
    Inv n' /\ os = seq (commit n) (length os) /\ commit n' = commit n + length os.
  Proof.
    intros H Hs. pose proof H as [Hc Hlo Hhi Hst Hr]. cbn -[Nat.ltb] in Hs. destruct (rl n) as [| |l|f] eqn:Er; try discriminate.
    destruct (release q (l_waiting l)) as [r k] eqn:Erel.
    destruct (release_spec _ _ _ _ Erel) as (Hw & Hrq & Hk).
    unfold Inv.role_inv in Hr. rewrite Er in Hr. destruct Hr as (H1 & H2 & H3 & H4 & H5 & H6 & H7 & H8 & H9).
    rewrite Hw in H1, H4, H5. rewrite <- app_assoc in H1.
    destruct (seq_app_inv _ _ _ _ (eq_sym H1)) as (A1 & A2 & A3).
    assert (Hsr : Forall (fun o => o < synced n) r) by (apply Forall_app in H4; destruct H4 as [X _]; apply Forall_app in X; apply X).
    destruct (apply_all_seq dbstate entry apply init_db r n Hc A1 Hsr)
      as (n1 & Ea & C1 & Hc1 & Hh & Hsy & Hf & Hlo1 & Hr1 & Hst1 & Hhi1).
    rewrite Ea in Hs. injection Hs as <- <-.
    split; [|split; [exact A1|exact Hc1]].
    assert (Hcq : commit n1 <= Nat.max (committed_hi n) q).
    { rewrite Hc1. destruct r as [|r0 rt] eqn:Er0; [cbn [length]; lia|].
      pose proof (seq_last_in (commit n) (length (r0 :: rt)) ltac:(cbn; lia)) as Hin. rewrite <- A1 in Hin.
      pose proof (proj1 (Forall_forall _ _) Hrq _ Hin). cbn beta in *. lia. }
    split; cbn [Model.set_hi Model.set_role Model.hist Model.synced Model.flushed Model.mem Model.wal_lo Model.stray Model.rl Model.committed_hi].
    - destruct C1 as [X1 X2 X3]. split; assumption.
    - rewrite Hlo1, Hf. assumption.
    - rewrite Hhi1. exact Hcq.
    - congruence.
    - unfold Inv.role_inv. cbn [Model.rl Model.set_hi Model.set_role]. unfold Inv.leader_inv.
      change (commit (set_hi dbstate entry (set_role n1 (Leader entry (mkL (l_next l) (l_syncq l) (l_slot l) (l_pending l) k q))) q)) with (commit n1).
      cbn [Model.set_hi Model.set_role Model.hist Model.synced Model.committed_hi l_waiting l_slot l_pending l_syncq l_next l_qcommit].
      rewrite Hc1, Hh, Hsy, Hhi1.
      split; [rewrite A2; f_equal; lia|]. split; [lia|]. split; [assumption|].
      split; [apply Forall_app in H4; destruct H4 as [X Y]; apply Forall_app in X; destruct X as [_ X]; apply Forall_app; split; assumption|].
      split.
      { destruct (seq_app_inv _ _ _ _ (eq_sym A2)) as (B1 & _ & _).
        apply Forall_forall. intros x Hx. destruct k as [|k0 kt]; [destruct Hx|].
        rewrite B1 in Hx. apply seq_ge in Hx.
        cbn [length] in B1. cbn [seq] in B1. injection B1 as B1 _. lia. }
      split; [assumption|].
      split; [intros X; specialize (H7 X); rewrite Hw in H7; apply app_eq_nil in H7; apply H7|].
      split; [intros o Ho; specialize (H8 o Ho); lia|lia].
  Qed.

  Lemma step_LFence (n n' : node) os : Inv n -> stepF n (LFence entry) = Some (n', os) ->
    Inv n' /\ os = [] /\ commit n' = commit n.
  Proof.
    intros [Hc Hlo Hhi Hst Hr] Hs. cbn -[Nat.ltb] in Hs. destruct (rl n) as [| |l|f] eqn:Er; try discriminate.
    destruct (isNone (l_pending l)); [|discriminate].
    injection Hs as <- <-. split; [|split; reflexivity]. destruct Hc as [H1 H2 H3]. split; try assumption.
    - split; cbn; [lia| |assumption].
      eapply Forall_impl; [|exact H2]. intros d Hd. eapply good_mono; [|exact Hd]. assumption.
    - exact I.
  Qed.

  Lemma step_StrayApply (n n' : node) os : Inv n -> stepF n (StrayApply entry) = Some (n', os) -> False.
  Proof.
    intros H Hs. cbn -[Nat.ltb] in Hs. rewrite (i_stray _ _ _ _ n H) in Hs. discriminate.
  Qed.

  (* ---------------------------------------------------------------- the follower *)

  Ltac finv Hr Er := unfold Inv.role_inv in Hr; rewrite Er in Hr; destruct Hr as (F1 & F2 & F3 & F4 & F5 & F6).

  Lemma step_FAppend (n n' : node) e a os : Inv n -> stepF n (FAppend entry e a) = Some (n', os) ->
    Inv n' /\ os = [] /\ commit n' = commit n.
  Proof.
    intros H Hs. pose proof H as [Hc Hlo Hhi Hst Hr]. cbn -[Nat.ltb] in Hs. destruct (rl n) as [| |l|f] eqn:Er; try discriminate.
    destruct (f_dbopen entry f) eqn:Eo; [|discriminate]. injection Hs as <- <-.
    split; [|split; reflexivity]. finv Hr Er. destruct Hc as [C1 C2 C3].
    split; cbn [Model.hist Model.synced Model.flushed Model.mem Model.wal_lo Model.stray Model.rl Model.committed_hi]; try assumption.
    - split; cbn [Model.hist Model.synced Model.flushed Model.mem]; [rewrite app_length; cbn; lia| |assumption].
      eapply Forall_impl; [|exact C2]. intros d Hd. apply good_app; assumption.
    - change (commit n <= Nat.max (committed_hi n) a). lia.
    - unfold Inv.role_inv. cbn [Model.rl]. unfold Inv.follower_inv.
      fold_commit n.
      cbn [Model.hist Model.synced Model.mem Model.committed_hi f_commit f_adv f_dirty f_signal f_round f_held f_dbopen].
      split; [assumption|]. split; [try rewrite Eo; discriminate|]. split; [assumption|].
      split; [intros nx mx X; destruct (F4 _ _ X); split; [lia|assumption]|].
      split; [|intros _; lia].
      intros o e0 X. destruct (F5 _ _ X) as (Y1 & Y2 & Y3 & Y4). repeat split; try assumption.
      rewrite nth_error_app_lt by lia. assumption.
  Qed.

  Lemma step_FSyncRound (n n' : node) os : Inv n -> stepF n (FSyncRound entry) = Some (n', os) ->
    Inv n' /\ os = [] /\ commit n' = commit n.
  Proof.
    intros H Hs. pose proof H as [Hc Hlo Hhi Hst Hr]. cbn -[Nat.ltb] in Hs. destruct (rl n) as [| |l|f] eqn:Er; try discriminate.
    destruct (f_dirty entry f) eqn:Ed; [|discriminate]. injection Hs as <- <-.
    split; [|split; reflexivity]. finv Hr Er. destruct Hc as [C1 C2 C3].
    split; cbn [Model.hist Model.synced Model.flushed Model.mem Model.wal_lo Model.stray Model.rl Model.committed_hi]; try assumption.
    - split; cbn [Model.hist Model.synced Model.flushed Model.mem]; [lia| |assumption].
      eapply Forall_impl; [|exact C2]. intros d Hd. eapply good_mono; [|exact Hd]. assumption.
    - unfold Inv.role_inv. cbn [Model.rl]. unfold Inv.follower_inv.
      fold_commit n.
      cbn [Model.hist Model.synced Model.mem Model.committed_hi f_commit f_adv f_dirty f_signal f_round f_held f_dbopen].
      split; [assumption|]. split; [assumption|]. split; [assumption|]. split; [assumption|].
      split; [|intros _; apply F6; rewrite Ed; reflexivity].
      intros o e0 X. destruct (F5 _ _ X) as (Y1 & Y2 & Y3 & Y4). repeat split; try assumption. lia.
  Qed.

  Lemma step_FRoundStart (n n' : node) os : Inv n -> stepF n (FRoundStart entry) = Some (n', os) ->
    Inv n' /\ os = [] /\ commit n' = commit n.
  Proof.
    intros H Hs. pose proof H as [Hc Hlo Hhi Hst Hr]. cbn -[Nat.ltb] in Hs. destruct (rl n) as [| |l|f] eqn:Er; try discriminate.
    destruct (f_signal entry f) eqn:Esg; [|discriminate].
    destruct (f_round entry f) eqn:Ern; [discriminate|]. cbn -[Nat.ltb] in Hs.
    destruct (f_dbopen entry f) eqn:Eo; [|discriminate]. cbn -[Nat.ltb] in Hs.
    finv Hr Er.
    assert (Hadv : f_adv entry f <= committed_hi n) by (apply F6; rewrite Esg; apply orb_true_r).
    destruct (f_adv entry f <=? f_commit entry f) eqn:E1.
    - injection Hs as <- <-. split; [|split; reflexivity]. apply inv_set_role; [assumption|].
      unfold Inv.follower_inv. cbn [f_commit f_adv f_dirty f_signal f_round f_held f_dbopen].
      split; [assumption|]. split; [try rewrite Eo; discriminate|]. split; [reflexivity|].
      split; [discriminate|]. split; [discriminate|]. intros _. assumption.
    - destruct (wal_lo n <=? f_commit entry f) eqn:E2; [|discriminate].
      injection Hs as <- <-. split; [|split; reflexivity]. apply inv_set_role; [assumption|].
      unfold Inv.follower_inv. cbn [f_commit f_adv f_dirty f_signal f_round f_held f_dbopen].
      split; [assumption|]. split; [try rewrite Eo; discriminate|]. split; [discriminate|].
      split; [intros nx mx X; injection X as <- <-; split; [assumption|intros _; assumption]|].
      split; [discriminate|]. intros _. assumption.
  Qed.

  Lemma step_FRoundRead (n n' : node) os : Inv n -> stepF n (FRoundRead entry) = Some (n', os) ->
    Inv n' /\ os = [] /\ commit n' = commit n.
  Proof.
    intros H Hs. pose proof H as [Hc Hlo Hhi Hst Hr]. cbn -[Nat.ltb] in Hs. destruct (rl n) as [| |l|f] eqn:Er; try discriminate.
    destruct (f_round entry f) as [[nx mx]|] eqn:Ern; [|discriminate].
    destruct (f_held entry f) eqn:Eh; [discriminate|].
    finv Hr Er. destruct (F4 _ _ Ern) as [Hmx Hnx]. specialize (Hnx Eh).
    assert (Hfin : follower_inv n (mkF entry (f_commit entry f) (f_adv entry f) (f_dirty entry f) (f_signal entry f) None None (f_dbopen entry f))).
    { unfold Inv.follower_inv. cbn [f_commit f_adv f_dirty f_signal f_round f_held f_dbopen].
      split; [assumption|]. split; [intros X; destruct (F2 X); split; [assumption|reflexivity]|].
      split; [reflexivity|]. split; [discriminate|]. split; [discriminate|assumption]. }
    destruct (nx <? synced n) eqn:E1.
    - destruct (nth_error (hist n) nx) as [e|] eqn:En; [|discriminate].
      destruct (nx <? mx) eqn:E2; injection Hs as <- <-; (split; [|split; reflexivity]); (apply inv_set_role; [assumption|]);
        [|exact Hfin].
      leb E1. leb E2. unfold Inv.follower_inv. cbn [f_commit f_adv f_dirty f_signal f_round f_held f_dbopen].
      split; [assumption|]. split; [intros X; destruct (F2 X); congruence|]. split; [discriminate|].
      split; [intros nx' mx' X; injection X as <- <-; split; [assumption|discriminate]|].
      split; [|assumption].
      intros o e0 X. injection X as <- <-. split; [assumption|]. split; [assumption|]. split; [assumption|].
      exists nx, mx. split; [reflexivity|assumption].
    - injection Hs as <- <-. split; [|split; reflexivity]. apply inv_set_role; [assumption|exact Hfin].
  Qed.

  Lemma step_FRoundApply (n n' : node) os : Inv n -> stepF n (FRoundApply entry) = Some (n', os) ->
    Inv n' /\ os = [commit n] /\ commit n' = S (commit n).
  Proof.
    intros H Hs. pose proof H as [Hc Hlo Hhi Hst Hr]. cbn -[Nat.ltb] in Hs. destruct (rl n) as [| |l|f] eqn:Er; try discriminate.
    destruct (f_round entry f) as [[nx mx]|] eqn:Ern; [|discriminate].
    destruct (f_held entry f) as [[o e]|] eqn:Eh; [|discriminate].
    destruct (f_dbopen entry f) eqn:Eo; [|discriminate]. injection Hs as <- <-.
    finv Hr Er. destruct (F4 _ _ Ern) as [Hmx _].
    destruct (F5 _ _ Eh) as (Ho & Hn & Hlt & nx' & mx' & X & Hom). rewrite Ern in X. injection X as <- <-. subst o.
    pose proof (core_push dbstate entry apply init_db n e Hc Hn Hlt) as C1.
    split; [|split; [reflexivity|apply commit_push]].
    apply inv_mk.
    - exact C1.
    - assumption.
    - change (commit (pushed dbstate entry n (pw (cur n) (commit n) e)) <= committed_hi n).
      rewrite commit_push. cbn [process_write snd]. lia.
    - assumption.
    - unfold Inv.follower_inv. cbn [f_commit f_adv f_dirty f_signal f_round f_held f_dbopen].
      change (commit (push dbstate entry n (pw (cur n) (commit n) e))) with (commit (pushed dbstate entry n (pw (cur n) (commit n) e))).
      rewrite commit_push. cbn [process_write snd].
      split; [reflexivity|]. split; [try rewrite Eo; discriminate|]. split; [discriminate|].
      split; [intros nx' mx' X; injection X as <- <-; split; [assumption|reflexivity]|].
      split; [discriminate|assumption].
  Qed.

  Lemma step_Truncate (n n' : node) k os : Inv n -> stepF n (Truncate entry k) = Some (n', os) ->
    Inv n' /\ os = [] /\ commit n' = commit n.
  Proof.
    intros H Hs. pose proof H as [Hc Hlo Hhi Hst Hr]. cbn -[Nat.ltb] in Hs. destruct (rl n) as [| |l|f] eqn:Er; try discriminate.
    destruct (synced n =? length (hist n)) eqn:E1; [|discriminate].
    destruct (committed_hi n <=? k) eqn:E2; [|discriminate].
    destruct (f_dbopen entry f) eqn:Eo; [|discriminate]. cbn -[Nat.ltb] in Hs. injection Hs as <- <-.
    leb E1. leb E2. split; [|split; reflexivity]. finv Hr Er. pose proof (c_chain _ _ _ _ n Hc) as Hch. destruct Hc as [C1 C2 C3].
    split; cbn [Model.hist Model.synced Model.flushed Model.mem Model.wal_lo Model.stray Model.rl Model.committed_hi]; try assumption.
    - split; cbn [Model.hist Model.synced Model.flushed Model.mem]; [rewrite firstn_length; lia| |assumption].
      apply Forall_forall. intros d Hd. pose proof (all_le_commit dbstate entry n d Hch Hd) as Hle.
      pose proof (proj1 (Forall_forall _ _) C2 d Hd) as Hg. destruct Hg as [G1 G2].
      eapply good_cut; [| |split; eassumption]; lia.
    - unfold Inv.role_inv. cbn [Model.rl]. unfold Inv.follower_inv.
      fold_commit n.
      cbn [Model.hist Model.synced Model.mem Model.committed_hi].
      split; [assumption|]. split; [assumption|]. split; [assumption|]. split; [assumption|]. split; [|assumption].
      intros o e0 X. destruct (F5 _ _ X) as (Y1 & Y2 & Y3 & nx & mx & Y4 & Y5).
      destruct (F4 _ _ Y4) as [Z _].
      split; [assumption|]. split; [rewrite nth_error_firstn_lt by lia; assumption|]. split; [lia|].
      exists nx, mx. split; assumption.
  Qed.

  Lemma step_SnapBegin (n n' : node) os : Inv n -> stepF n (SnapBegin entry) = Some (n', os) ->
    Inv n' /\ os = [] /\ commit n' = commit n.
  Proof.
    intros H Hs. pose proof H as [Hc Hlo Hhi Hst Hr]. cbn -[Nat.ltb] in Hs. destruct (rl n) as [| |l|f] eqn:Er; try discriminate.
    destruct (f_dbopen entry f) eqn:Eo; [|discriminate].
    destruct (f_round entry f) eqn:Ern; [discriminate|]. cbn -[Nat.ltb] in Hs. injection Hs as <- <-.
    finv Hr Er.
    pose proof (cur_good dbstate entry apply init_db n Hc) as [G1 G2].
    pose proof (c_sync _ _ _ _ n Hc) as Hsy.
    rewrite !commit_flush.
    assert (Hfl : last (firstn (length (mem n)) (mem n)) (flushed n) = cur n) by (rewrite firstn_all; reflexivity).
    change (snd (cur n)) with (commit n) in G2.
    split; [|split; [reflexivity|]].
    2:{ unfold Model.commit at 1, Model.cur. cbn [Model.mem Model.flushed Model.flush_to last]. rewrite Hfl. reflexivity. }
    split; cbn [Model.flush_to Model.hist Model.synced Model.flushed Model.mem Model.wal_lo Model.stray Model.rl Model.committed_hi]; try assumption.
    - split; cbn [Model.hist Model.synced Model.flushed Model.mem]; [rewrite firstn_length; lia| |exact I].
      rewrite Hfl. constructor; [|constructor]. eapply good_cut; [| |split; eassumption]; unfold Model.commit; lia.
    - rewrite Hfl. unfold Model.commit. lia.
    - unfold Model.commit at 1, Model.cur. cbn [Model.mem Model.flushed last]. rewrite Hfl. assumption.
    - assert (Hcm : forall h lo sy fl r st hi, commit (mkN dbstate entry h lo sy fl [] r st hi) = snd fl) by reflexivity.
      unfold Inv.role_inv. cbn [Model.rl]. unfold Inv.follower_inv.
      rewrite !Hcm, Hfl. change (snd (cur n)) with (commit n).
      cbn [Model.hist Model.synced Model.mem Model.flushed Model.committed_hi f_commit f_adv f_dirty f_signal f_round f_held f_dbopen].
      split; [assumption|]. split; [intros _; split; reflexivity|]. split; [intros _; apply F3; assumption|].
      split; [discriminate|]. split; [rewrite (F3 Ern); discriminate|assumption].
  Qed.

  Lemma step_SnapLoad (n n' : node) sh os : Inv n -> stepF n (SnapLoad entry sh) = Some (n', os) ->
    Inv n' /\ os = [] /\ commit n' = length sh.
  Proof.
    intros H Hs. pose proof H as [Hc Hlo Hhi Hst Hr]. cbn -[Nat.ltb] in Hs. destruct (rl n) as [| |l|f] eqn:Er; try discriminate.
    destruct (f_dbopen entry f) eqn:Eo; [discriminate|]. cbn -[Nat.ltb] in Hs. injection Hs as <- <-.
    finv Hr Er. destruct (F2 Eo) as [Hm Hrn]. pose proof (F3 Hrn) as Hhd.
    split; [|split; reflexivity].
    split; cbn [Model.hist Model.synced Model.flushed Model.mem Model.wal_lo Model.stray Model.rl Model.committed_hi snd]; try assumption.
    - split; cbn [Model.hist Model.synced Model.flushed Model.mem]; [lia| |exact I].
      constructor; [|constructor]. split; cbn [fst snd]; [symmetry; apply fp_all|lia].
    - lia.
    - unfold Model.commit, Model.cur. cbn. lia.
    - unfold Inv.role_inv. cbn [Model.rl]. unfold Inv.follower_inv.
      unfold Model.commit, Model.cur.
      cbn [Model.hist Model.synced Model.mem Model.flushed Model.committed_hi last snd f_commit f_adv f_dirty f_signal f_round f_held f_dbopen].
      rewrite Hrn, Hhd.
      split; [reflexivity|]. split; [discriminate|]. split; [reflexivity|]. split; [discriminate|]. split; [discriminate|].
      intros X. specialize (F6 X). lia.
  Qed.

End Proofs.
