(* List facts used by the crash/apply proofs. *)
From Coq Require Import List Arith Lia.
Import ListNotations.

Lemma firstn_S_nth_error {A} (l : list A) n x :
  nth_error l n = Some x -> firstn (S n) l = firstn n l ++ [x].
Proof.
  revert n; induction l as [|a l IH]; intros [|n] H; cbn in *; try discriminate.
  - injection H as <-. reflexivity.
  - f_equal. apply IH, H.
Qed.

Lemma firstn_firstn_le {A} (l : list A) c k : c <= k -> firstn c (firstn k l) = firstn c l.
Proof. intros. rewrite firstn_firstn. f_equal. lia. Qed.

Lemma firstn_app_le {A} (l l' : list A) c : c <= length l -> firstn c (l ++ l') = firstn c l.
Proof.
  intros. rewrite firstn_app. replace (c - length l) with 0 by lia. cbn. apply app_nil_r.
Qed.

Lemma nth_error_app_lt {A} (l l' : list A) n : n < length l -> nth_error (l ++ l') n = nth_error l n.
Proof. intros. apply nth_error_app1. assumption. Qed.

Lemma nth_error_firstn_lt {A} (l : list A) n k : n < k -> nth_error (firstn k l) n = nth_error l n.
Proof.
  revert n k; induction l as [|a l IH]; intros n k H.
  - rewrite firstn_nil. reflexivity.
  - destruct k as [|k]; [lia|]. destruct n as [|n]; cbn; [reflexivity|]. apply IH. lia.
Qed.

Lemma last_app_single {A} (l : list A) x d : last (l ++ [x]) d = x.
Proof. apply last_last. Qed.

Lemma last_in_cons {A} (l : list A) d : In (last l d) (d :: l).
Proof.
  induction l as [|a l IH]; [left; reflexivity|].
  destruct l as [|b l]; [right; left; reflexivity|].
  change (last (a :: b :: l) d) with (last (b :: l) d).
  destruct IH as [E|I]; [left; exact E | right; right; exact I].
Qed.

Lemma last_nonempty_default {A} (l : list A) b d d' : last (b :: l) d = last (b :: l) d'.
Proof.
  revert b; induction l as [|c l IH]; intros b; [reflexivity|].
  change (last (c :: l) d = last (c :: l) d'). apply IH.
Qed.

Lemma last_cons_default {A} (l : list A) a d : last (a :: l) d = last l a.
Proof.
  destruct l as [|b l]; [reflexivity|].
  change (last (b :: l) d = last (b :: l) a). apply last_nonempty_default.
Qed.

Lemma last_firstn_skipn {A} (l : list A) k d : last (skipn k l) (last (firstn k l) d) = last l d.
Proof.
  revert k d; induction l as [|a l IH]; intros [|k] d; cbn [firstn skipn]; try reflexivity.
  rewrite !last_cons_default. apply IH.
Qed.

Lemma Forall_app_single {A} (P : A -> Prop) l x : Forall P l -> P x -> Forall P (l ++ [x]).
Proof. intros. apply Forall_app. split; [assumption|constructor; [assumption|constructor]]. Qed.

Lemma Forall_firstn {A} (P : A -> Prop) l k : Forall P l -> Forall P (firstn k l).
Proof.
  revert k; induction l as [|a l IH]; intros [|k] H; cbn; try constructor; inversion H; subst; auto.
Qed.

Lemma Forall_skipn {A} (P : A -> Prop) l k : Forall P l -> Forall P (skipn k l).
Proof.
  revert k; induction l as [|a l IH]; intros [|k] H; cbn; try assumption. inversion H; subst; auto.
Qed.

Lemma seq_S_snoc a n : seq a (S n) = seq a n ++ [a + n].
Proof. rewrite seq_S. reflexivity. Qed.

Lemma seq_cons_inv a n x tl : seq a n = x :: tl -> x = a /\ tl = seq (S a) (n - 1) /\ 1 <= n.
Proof.
  destruct n; cbn; intros H; [discriminate|]. injection H as <- <-.
  replace (n - 0) with n by lia. repeat split. lia.
Qed.

Lemma In_firstn {A} (l : list A) k x : In x (firstn k l) -> In x l.
Proof.
  revert k; induction l as [|a l IH]; intros [|k] H; cbn in *; try contradiction.
  destruct H as [H|H]; [left; exact H|right; eapply IH; exact H].
Qed.
