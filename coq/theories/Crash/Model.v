(* Crash-atomic, exactly-once, in-order log application (property C07).

   One node: its shard WAL, its Pebble database (opened with DisableWAL: committed batches live in
   the memtable until a flush), and the volatile state of the controller that applies log entries to
   the database.  The model is generic over the state machine that a log entry drives
   ([apply], server/kv/db.go:applyWriteRequest with the callback chain): Section variables.

   What is transcribed, and from where:

   * kv/db.go:ProcessWrite puts the effects of the request, the commit offset ([commitOffsetKey]) and
     the last version id in ONE Pebble batch and commits it with pebble.NoSync; kv_pebble.go opens
     Pebble with DisableWAL=true.  Hence: a batch is atomic; an unflushed batch is lost by a crash;
     a flush (explicit: UpdateTerm, Snapshot, Close; or spontaneous) makes a prefix of the unflushed
     batches durable.  [process_write] does NOT check that the offset is the next one: the code does not.
     The commit offset is stored as "number of entries applied" (= offset + 1) so that everything is a
     natural number; [commit_of] gives back the Go value (-1 for the empty database).
   * wal: the log is [hist] (offset = position).  [synced] entries are durable; a crash keeps any
     prefix that contains the synced one.  The physical WAL holds the offsets >= [wal_lo]
     (0, or just above the commit offset of the database when the WAL was cleared for a snapshot).
   * leader_controller.go:write (with the O-1 repair: offset allocation and wal.AppendAndSync under the
     controller lock): LWrite.  wal_impl.go:runSync: one goroutine flushes and then runs the completion
     callbacks one after the other in append order: WalSync s, LSyncPop (tracker.AdvanceHeadOffset),
     LRegister (tracker.WaitForCommitOffsetAsync: registered in [l_waiting], or - commit offset already
     known - completed at once OUTSIDE the tracker lock: [l_pending]), LApplyPending (db.ProcessWrite).
     quorum_ack_tracker.go:notifyCommitOffsetAdvanced releases the waiting requests from the head of
     the FIFO while minOffset <= commit, under the tracker lock: LCommitAdvance.  The value of the
     quorum commit offset is an INPUT here (any value, also going backwards): C07 does not depend on
     how acks are counted (that is C08: c08_commit_never_exceeds_true_commit,
     c08_applied_in_offset_order for the pipeline inside one term).
   * leader_controller.go:NewTerm: LFence.  With [drain] = true this is the code with the O-5 repair
     (NewTerm closes the tracker - tracker.Close takes the tracker lock, which covers the applications
     released by acks - and then calls wal.Sync under the controller lock: the sync request queues behind
     every completion callback of the single sync goroutine, so NewTerm returns only when the application
     that goroutine was carrying is done; the completions still queued fail on the closed tracker).
     With [drain] = false it is the code as it was: an application decided in LRegister survives the
     fencing ([stray]) and runs after BecomeLeader has replayed the log.
   * leader_controller.go:BecomeLeader/applyAllEntriesIntoDB: BecomeLeader (replay from the commit
     offset stored in the DB up to the WAL head; it runs after WaitForCommitOffset(head)).
   * follower_controller.go: constructor (RestartFollower: commitOffset := db.ReadCommitOffset()),
     append (FAppend: AppendAsync + advertisedCommitOffset.Store), handleReplicateSync (FSyncRound),
     applyAllCommittedEntries/processCommittedEntries (FRoundStart: reader at commitOffset+1,
     maxInclusive := advertised; FRoundRead: HasNext/ReadNext/offset > maxInclusive; FRoundApply:
     ProcessWrite + commitOffset.Store) - the round holds NO lock, every step can interleave with
     anything; Truncate; handleSnapshot (SnapBegin: wal.Clear + db.Close; SnapLoad: new DB from the
     sender's files, commitOffset := its commit offset).  With [snaplock] = true an apply round and a
     snapshot installation exclude each other (repair O-31); with false they do not (code as it was).
   * Crash: volatile state gone, unflushed batches gone (all of them, or all but a prefix if a flush
     was completing), WAL cut to any length >= synced.  CrashInSnapBegin / CrashInSnapLoad: the two
     durable intermediate states of handleSnapshot.

   Not modelled: WAL trimming at the front (wal_lo only moves when the WAL is cleared), failures of
   ProcessWrite (apply is total: C13), several write requests in one log entry (the leader writes one). *)
From Coq Require Import List Arith Bool ZArith Lia.
Import ListNotations.

Section Crash.
  Variables (dbstate entry : Type).
  Variable apply : dbstate -> entry -> dbstate.
  Variable init_db : dbstate.
  (* which repairs are in the code that is modelled *)
  Variable drain : bool.      (* NewTerm waits for applications in flight (O-5 / O-30) *)
  Variable snaplock : bool.   (* snapshot installation excludes apply rounds (O-31) *)

  (* the content of the database: the state-machine state and the number of entries applied *)
  Definition db := (dbstate * nat)%type.
  Definition commit_of (d : db) : Z := Z.of_nat (snd d) - 1.

  (* kv/db.go:ProcessWrite(request, offset): ONE batch = effects + commit offset *)
  Definition process_write (d : db) (o : nat) (e : entry) : db := (apply (fst d) e, S o).

  Record lstate := mkL {
    l_next : nat;              (* next offset to allocate (tracker.nextOffset + 1) *)
    l_syncq : list nat;        (* completions queued for the WAL sync goroutine, FIFO *)
    l_slot : option nat;       (* completion in progress: head advanced, not yet registered *)
    l_pending : option nat;    (* application decided at registration, on its way outside every lock *)
    l_waiting : list nat;      (* tracker.waitingRequests, FIFO *)
    l_qcommit : nat            (* tracker.commitOffset + 1 *)
  }.

  Record fstate := mkF {
    f_commit : nat;                        (* fc.commitOffset + 1 *)
    f_adv : nat;                           (* fc.advertisedCommitOffset + 1 *)
    f_dirty : bool;                        (* syncCond signalled *)
    f_signal : bool;                       (* applyEntriesCond signalled *)
    f_round : option (nat * nat);          (* apply round: (next offset to read, maxInclusive + 1) *)
    f_held : option (nat * entry);         (* entry read by the round, not applied yet *)
    f_dbopen : bool                        (* false between SnapBegin and SnapLoad (fc.db = nil) *)
  }.

  Inductive role := Down | Fenced | Leader (l : lstate) | Follower (f : fstate).

  Record node := mkN {
    hist : list entry;         (* the log, offset = position *)
    wal_lo : nat;              (* first offset still in the physical WAL *)
    synced : nat;              (* number of durable entries *)
    flushed : db;              (* durable database *)
    mem : list db;             (* unflushed batches: the database after each of them, oldest first *)
    rl : role;
    stray : option nat;        (* application of a fenced leadership still on its way *)
    committed_hi : nat         (* ghost: highest commit offset (+1) this node was ever told *)
  }.

  Definition init_node : node := mkN [] 0 0 (init_db, 0) [] Down None 0.

  Definition cur (n : node) : db := last (mem n) (flushed n).
  Definition commit (n : node) : nat := snd (cur n).

  Inductive action :=
  | Flush (k : nat)
  | WalSync (s : nat)
  | Crash (j k : nat)
  | CrashInSnapBegin
  | CrashInSnapLoad
  | RestartFollower
  | RestartLeaderCtl
  | SwitchToLeaderCtl
  | SwitchToFollowerCtl
  | BecomeLeader
  | LWrite (e : entry)
  | LSyncPop
  | LRegister
  | LApplyPending
  | LCommitAdvance (q : nat)
  | LFence
  | StrayApply
  | FAppend (e : entry) (a : nat)
  | FSyncRound
  | FRoundStart
  | FRoundRead
  | FRoundApply
  | Truncate (k : nat)
  | SnapBegin
  | SnapLoad (sh : list entry).

  Definition set_role (n : node) (r : role) : node :=
    mkN (hist n) (wal_lo n) (synced n) (flushed n) (mem n) r (stray n) (committed_hi n).
  Definition set_hi (n : node) (h : nat) : node :=
    mkN (hist n) (wal_lo n) (synced n) (flushed n) (mem n) (rl n) (stray n) (Nat.max (committed_hi n) h).
  Definition push (n : node) (d : db) : node :=
    mkN (hist n) (wal_lo n) (synced n) (flushed n) (mem n ++ [d]) (rl n) (stray n) (committed_hi n).

  (* db.ProcessWrite of the entry at offset o (read from the log now) *)
  Definition apply_at (n : node) (o : nat) : option node :=
    match nth_error (hist n) o with
    | Some e => Some (push n (process_write (cur n) o e))
    | None => None
    end.

  (* notifyCommitOffsetAdvanced: release the head of the FIFO while minOffset <= commit *)
  Fixpoint release (q : nat) (w : list nat) : list nat * list nat :=
    match w with
    | [] => ([], [])
    | o :: tl => if o <? q then let (r, k) := release q tl in (o :: r, k) else ([], w)
    end.

  Fixpoint apply_all (n : node) (os : list nat) : option node :=
    match os with
    | [] => Some n
    | o :: tl => match apply_at n o with Some n' => apply_all n' tl | None => None end
    end.

  (* applyAllEntriesIntoDBLoop: the reader starts after the DB's commit offset and goes to the head;
     every entry is applied with the offset found in the log *)
  Fixpoint replay (d : db) (o : nat) (es : list entry) : list db :=
    match es with
    | [] => []
    | e :: tl => let d' := process_write d o e in d' :: replay d' (S o) tl
    end.

  Definition flush_to (n : node) (k : nat) : node :=
    mkN (hist n) (wal_lo n) (synced n) (last (firstn k (mem n)) (flushed n)) (skipn k (mem n))
        (rl n) (stray n) (committed_hi n).

  Definition new_follower (c : nat) : fstate := mkF c 1 false false None None true.

  Definition isNone {A} (o : option A) : bool := match o with None => true | Some _ => false end.

  (* one action; the second component lists the offsets handed to db.ProcessWrite, in order *)
  Definition step (n : node) (a : action) : option (node * list nat) :=
    match a with
    | Flush k =>
        if k <=? length (mem n) then Some (flush_to n k, []) else None
    | WalSync s =>
        (* a flush of the WAL makes durable what had been appended when it started: any s in between *)
        if (synced n <=? s) && (s <=? length (hist n)) then
          Some (mkN (hist n) (wal_lo n) s (flushed n) (mem n) (rl n) (stray n) (committed_hi n), [])
        else None
    | Crash j k =>
        if (j <=? length (mem n)) && (synced n <=? k) && (k <=? length (hist n)) then
          let n1 := flush_to n j in
          Some (mkN (firstn k (hist n)) (wal_lo n) k (flushed n1) [] Down None (committed_hi n), [])
        else None
    | CrashInSnapBegin =>
        (* between wal.Clear() and the flush of db.Close(): the WAL is empty, the DB is the durable one *)
        match rl n with
        | Follower f =>
            if f_dbopen f && (isNone (f_round f) || negb snaplock) then
              let c := snd (flushed n) in
              Some (mkN (firstn c (hist n)) c c (flushed n) [] Down None (committed_hi n), [])
            else None
        | _ => None
        end
    | CrashInSnapLoad =>
        (* the DB directory has been removed, the snapshot is not complete *)
        match rl n with
        | Follower f =>
            if negb (f_dbopen f) then Some (mkN [] 0 0 (init_db, 0) [] Down None (committed_hi n), []) else None
        | _ => None
        end
    | RestartFollower =>
        match rl n with
        | Down => Some (set_role n (Follower (new_follower (commit n))), [])
        | _ => None
        end
    | RestartLeaderCtl =>
        match rl n with Down => Some (set_role n Fenced, []) | _ => None end
    | SwitchToLeaderCtl =>
        (* FollowerController.Close waits for the apply round, closes (flushes) the DB *)
        match rl n with
        | Follower f =>
            if isNone (f_round f) && f_dbopen f
            then Some (set_role (flush_to n (length (mem n))) Fenced, []) else None
        | _ => None
        end
    | SwitchToFollowerCtl =>
        match rl n with
        | Fenced =>
            let n1 := flush_to n (length (mem n)) in
            Some (set_role n1 (Follower (new_follower (commit n1))), [])
        | _ => None
        end
    | BecomeLeader =>
        match rl n with
        | Fenced =>
            (* NewTerm synced the WAL (O-5); NewReader(commit) fails below the first offset *)
            if (synced n =? length (hist n)) && (wal_lo n <=? commit n) then
              let c := commit n in
              let bs := replay (cur n) c (skipn c (hist n)) in
              let h := length (hist n) in
              Some (mkN (hist n) (wal_lo n) (synced n) (flushed n) (mem n ++ bs)
                        (Leader (mkL h [] None None [] h)) (stray n) (Nat.max (committed_hi n) h),
                    seq c (h - c))
            else None
        | _ => None
        end
    | LWrite e =>
        match rl n with
        | Leader l =>
            (* wal.checkNextOffset *)
            if l_next l =? length (hist n) then
              Some (mkN (hist n ++ [e]) (wal_lo n) (synced n) (flushed n) (mem n)
                        (Leader (mkL (S (l_next l)) (l_syncq l ++ [l_next l]) (l_slot l) (l_pending l) (l_waiting l) (l_qcommit l)))
                        (stray n) (committed_hi n), [])
            else None
        | _ => None
        end
    | LSyncPop =>
        match rl n with
        | Leader l =>
            match l_syncq l, l_slot l, l_pending l with
            | o :: tl, None, None =>
                if o <? synced n then
                  Some (set_role n (Leader (mkL (l_next l) tl (Some o) None (l_waiting l) (l_qcommit l))), [])
                else None
            | _, _, _ => None
            end
        | _ => None
        end
    | LRegister =>
        match rl n with
        | Leader l =>
            match l_slot l with
            | Some o =>
                if o <? l_qcommit l
                then Some (set_role n (Leader (mkL (l_next l) (l_syncq l) None (Some o) (l_waiting l) (l_qcommit l))), [])
                else Some (set_role n (Leader (mkL (l_next l) (l_syncq l) None None (l_waiting l ++ [o]) (l_qcommit l))), [])
            | None => None
            end
        | _ => None
        end
    | LApplyPending =>
        match rl n with
        | Leader l =>
            match l_pending l with
            | Some o =>
                match apply_at n o with
                | Some n' => Some (set_role n' (Leader (mkL (l_next l) (l_syncq l) (l_slot l) None (l_waiting l) (l_qcommit l))), [o])
                | None => None
                end
            | None => None
            end
        | _ => None
        end
    | LCommitAdvance q =>
        match rl n with
        | Leader l =>
            let (r, k) := release q (l_waiting l) in
            match apply_all n r with
            | Some n' => Some (set_hi (set_role n' (Leader (mkL (l_next l) (l_syncq l) (l_slot l) (l_pending l) k q))) q, r)
            | None => None
            end
        | _ => None
        end
    | LFence =>
        match rl n with
        | Leader l =>
            if drain then
              (* wal.Sync returns after the sync goroutine has finished the application it was carrying;
                 the completions still queued find the tracker closed and fail without applying *)
              if isNone (l_pending l)
              then Some (mkN (hist n) (wal_lo n) (length (hist n)) (flushed n) (mem n) Fenced (stray n) (committed_hi n), [])
              else None
            else
              Some (mkN (hist n) (wal_lo n) (synced n) (flushed n) (mem n) Fenced (l_pending l) (committed_hi n), [])
        | _ => None
        end
    | StrayApply =>
        match stray n with
        | Some o =>
            match apply_at n o with
            | Some n' => Some (mkN (hist n') (wal_lo n') (synced n') (flushed n') (mem n') (rl n') None (committed_hi n'), [o])
            | None => None
            end
        | None => None
        end
    | FAppend e a =>
        match rl n with
        | Follower f =>
            if f_dbopen f then
              Some (mkN (hist n ++ [e]) (wal_lo n) (synced n) (flushed n) (mem n)
                        (Follower (mkF (f_commit f) a true (f_signal f) (f_round f) (f_held f) (f_dbopen f)))
                        (stray n) (Nat.max (committed_hi n) a), [])
            else None
        | _ => None
        end
    | FSyncRound =>
        match rl n with
        | Follower f =>
            if f_dirty f then
              Some (mkN (hist n) (wal_lo n) (length (hist n)) (flushed n) (mem n)
                        (Follower (mkF (f_commit f) (f_adv f) false true (f_round f) (f_held f) (f_dbopen f)))
                        (stray n) (committed_hi n), [])
            else None
        | _ => None
        end
    | FRoundStart =>
        match rl n with
        | Follower f =>
            if f_signal f && isNone (f_round f) && (f_dbopen f || negb snaplock) then
              if f_adv f <=? f_commit f then
                Some (set_role n (Follower (mkF (f_commit f) (f_adv f) (f_dirty f) false None None (f_dbopen f))), [])
              else if wal_lo n <=? f_commit f then
                Some (set_role n (Follower (mkF (f_commit f) (f_adv f) (f_dirty f) false (Some (f_commit f, f_adv f)) None (f_dbopen f))), [])
              else None
            else None
        | _ => None
        end
    | FRoundRead =>
        match rl n with
        | Follower f =>
            match f_round f, f_held f with
            | Some (nx, mx), None =>
                if nx <? synced n then
                  match nth_error (hist n) nx with
                  | Some e =>
                      if nx <? mx
                      then Some (set_role n (Follower (mkF (f_commit f) (f_adv f) (f_dirty f) (f_signal f) (Some (nx, mx)) (Some (nx, e)) (f_dbopen f))), [])
                      else Some (set_role n (Follower (mkF (f_commit f) (f_adv f) (f_dirty f) (f_signal f) None None (f_dbopen f))), [])
                  | None => None
                  end
                else Some (set_role n (Follower (mkF (f_commit f) (f_adv f) (f_dirty f) (f_signal f) None None (f_dbopen f))), [])
            | _, _ => None
            end
        | _ => None
        end
    | FRoundApply =>
        match rl n with
        | Follower f =>
            match f_round f, f_held f with
            | Some (nx, mx), Some (o, e) =>
                if f_dbopen f then
                  let n' := push n (process_write (cur n) o e) in
                  Some (set_role n' (Follower (mkF (S o) (f_adv f) (f_dirty f) (f_signal f) (Some (S o, mx)) None (f_dbopen f))), [o])
                else None   (* fc.db = nil: the process panics *)
            | _, _ => None
            end
        | _ => None
        end
    | Truncate k =>
        (* follower Truncate, after NewTerm synced the WAL; committed entries are never cut (C03) *)
        match rl n with
        | Follower f =>
            if (synced n =? length (hist n)) && (committed_hi n <=? k) && f_dbopen f then
              Some (mkN (firstn k (hist n)) (wal_lo n) (Nat.min (synced n) k) (flushed n) (mem n) (rl n) (stray n) (committed_hi n), [])
            else None
        | _ => None
        end
    | SnapBegin =>
        (* handleSnapshot, first half: wal.Clear(); db.Close() (flushes) *)
        match rl n with
        | Follower f =>
            if f_dbopen f && (isNone (f_round f) || negb snaplock) then
              let n1 := flush_to n (length (mem n)) in
              let c := commit n1 in
              Some (mkN (firstn c (hist n)) c c (flushed n1) []
                        (Follower (mkF (f_commit f) (f_adv f) (f_dirty f) (f_signal f) (f_round f) (f_held f) false))
                        (stray n) (committed_hi n), [])
            else None
        | _ => None
        end
    | SnapLoad sh =>
        (* handleSnapshot, second half: the sender's database, which is the fold of the sender's log
           prefix [sh]; commitOffset and lastAppendedOffset := its commit offset *)
        match rl n with
        | Follower f =>
            if negb (f_dbopen f) then
              let c := length sh in
              Some (mkN sh c c (fold_left apply sh init_db, c) []
                        (Follower (mkF c (f_adv f) (f_dirty f) (f_signal f) (f_round f) (f_held f) true))
                        (stray n) (Nat.max (committed_hi n) c), [])
            else None
        | _ => None
        end
    end.

  Fixpoint run (n : node) (acts : list action) : option node :=
    match acts with
    | [] => Some n
    | a :: tl => match step n a with Some (n', _) => run n' tl | None => None end
    end.

  (* all ProcessWrite calls of an execution, in order *)
  Fixpoint run_applied (n : node) (acts : list action) : option (node * list nat) :=
    match acts with
    | [] => Some (n, [])
    | a :: tl =>
        match step n a with
        | Some (n', os) =>
            match run_applied n' tl with
            | Some (n'', os') => Some (n'', os ++ os')
            | None => None
            end
        | None => None
        end
    end.

  Definition reachable (n : node) : Prop := exists acts, run init_node acts = Some n.

  (* the specification: the fold of a log prefix *)
  Definition fold_prefix (h : list entry) (c : nat) : dbstate := fold_left apply (firstn c h) init_db.

End Crash.

(* ---- a concrete instance for extraction / witnesses: the state is the list of applied entries ---- *)
Definition tr_apply (s : list nat) (e : nat) : list nat := s ++ [e].
