(* Macro steps for the correspondence leg "trace": one macro = what one step of the harness schedule makes
   the real controller do, expressed as a sequence of model actions (repaired code: drain, snaplock).
   The instance is the one of Witness.v: an entry is a number (its offset is used as its payload),
   the state machine records what it applied.  Observable after every macro: the commit offset stored
   in the DB and the offsets handed to ProcessWrite during the macro. *)
From Coq Require Import List Arith Bool.
From Oxia.Crash Require Import Model.
Import ListNotations.

Definition D_node := node (list nat) nat.
Definition D_step (n : D_node) (a : action nat) : option (D_node * list nat) :=
  step (list nat) nat tr_apply [] true true n a.
Definition D_init : D_node := init_node (list nat) nat [].

Inductive macro :=
| MStartLeader            (* leader controller created, NewTerm, BecomeLeader (replay) *)
| MStartFollower          (* follower controller created *)
| MWrite                  (* leader: one more write handed to the WAL *)
| MSyncDone (upto q s : nat) (* leader: s entries of the WAL are durable, the completions of the offsets <= upto run, quorum commit is q-1 afterwards *)
| MCommit (q : nat)       (* leader: acks arrived, quorum commit is q-1 *)
| MFlush                  (* explicit DB flush *)
| MCrash (keep k : nat)   (* keep = 0: every unflushed batch lost; 1: a flush in progress completed; k entries of the WAL survive *)
| MAppend (a : nat)       (* follower: next entry appended, advertised commit offset a-1 *)
| MFollowerSync           (* follower: one WAL sync round, then the apply round it triggers, to its end *)
| MNewTerm.               (* follower NewTerm: wal.Sync (O-5), UpdateTerm flushes the DB *)

Fixpoint seq_steps (n : D_node) (acts : list (action nat)) : option (D_node * list nat) :=
  match acts with
  | [] => Some (n, [])
  | a :: tl =>
      match D_step n a with
      | Some (n1, os1) =>
          match seq_steps n1 tl with
          | Some (n2, os2) => Some (n2, os1 ++ os2)
          | None => None
          end
      | None => None
      end
  end.

(* the completions of the sync goroutine for the queued offsets <= upto *)
Fixpoint completions (fuel : nat) (n : D_node) (upto : nat) : option (D_node * list nat) :=
  match fuel with
  | O => Some (n, [])
  | S fuel' =>
      match rl _ _ n with
      | Leader _ l =>
          match l_syncq l with
          | o :: _ =>
              if o <=? upto then
                match seq_steps n [LSyncPop nat; LRegister nat] with
                | Some (n1, os1) =>
                    let r := match rl _ _ n1 with
                             | Leader _ l1 => match l_pending l1 with Some _ => D_step n1 (LApplyPending nat) | None => Some (n1, []) end
                             | _ => Some (n1, [])
                             end in
                    match r with
                    | Some (n2, os2) =>
                        match completions fuel' n2 upto with
                        | Some (n3, os3) => Some (n3, os1 ++ os2 ++ os3)
                        | None => None
                        end
                    | None => None
                    end
                | None => None
                end
              else Some (n, [])
          | [] => Some (n, [])
          end
      | _ => None
      end
  end.

(* an apply round of the follower, to its end *)
Fixpoint round (fuel : nat) (n : D_node) : option (D_node * list nat) :=
  match fuel with
  | O => Some (n, [])
  | S fuel' =>
      match rl _ _ n with
      | Follower _ f =>
          match f_round _ f, f_held _ f with
          | Some _, None =>
              match D_step n (FRoundRead nat) with
              | Some (n1, _) => round fuel' n1
              | None => None
              end
          | Some _, Some _ =>
              match D_step n (FRoundApply nat) with
              | Some (n1, os1) =>
                  match round fuel' n1 with
                  | Some (n2, os2) => Some (n2, os1 ++ os2)
                  | None => None
                  end
              | None => None
              end
          | None, _ => Some (n, [])
          end
      | _ => None
      end
  end.

Definition exec (n : D_node) (m : macro) : option (D_node * list nat) :=
  match m with
  | MStartLeader =>
      match rl _ _ n with
      | Down _ => seq_steps n [RestartLeaderCtl nat; WalSync nat (length (hist _ _ n)); BecomeLeader nat]
      | Leader _ _ => seq_steps n [LFence nat; BecomeLeader nat]
      | _ => None
      end
  | MStartFollower => D_step n (RestartFollower nat)
  | MWrite => D_step n (LWrite nat (length (hist _ _ n)))
  | MSyncDone upto q s =>
      match D_step n (WalSync nat s) with
      | Some (n1, _) =>
          match completions (S (length (hist _ _ n))) n1 upto with
          | Some (n2, os2) =>
              match D_step n2 (LCommitAdvance nat q) with
              | Some (n3, os3) => Some (n3, os2 ++ os3)
              | None => None
              end
          | None => None
          end
      | None => None
      end
  | MCommit q => D_step n (LCommitAdvance nat q)
  | MFlush => D_step n (Flush nat (length (mem _ _ n)))
  | MCrash keep k => D_step n (Crash nat (if keep =? 0 then 0 else length (mem _ _ n)) k)
  | MAppend a => D_step n (FAppend nat (length (hist _ _ n)) a)
  | MFollowerSync =>
      match seq_steps n [FSyncRound nat; FRoundStart nat] with
      | Some (n1, _) => round (S (S (2 * length (hist _ _ n)))) n1
      | None => None
      end
  | MNewTerm => seq_steps n [WalSync nat (length (hist _ _ n)); Flush nat (length (mem _ _ n))]
  end.

(* the observable after each macro: (commit offset + 1, offsets applied by the macro); None = the model
   refuses the schedule *)
Fixpoint trace (n : D_node) (ms : list macro) : list (option (nat * list nat)) :=
  match ms with
  | [] => []
  | m :: tl =>
      match exec n m with
      | Some (n', os) => Some (commit _ _ n', os) :: trace n' tl
      | None => [None]
      end
  end.

Definition run_trace (ms : list macro) := trace D_init ms.
