(* The trimmer: which offset doTrim hands to wal.trim, which segments TrimSegments drops,
   and that the result is the list operation "drop a prefix, move first". *)
From Coq Require Import List ZArith NArith Bool Lia.
From Oxia.Wal Require Import Model Spec Lists Inv Preserve.
Import ListNotations.
Open Scope Z_scope.

(* ------------------------------------------------------------------ *)
(* Floor                                                               *)

Lemma floor_seg_sound l i acc s :
  floor_seg l i acc = Some s -> (In s l /\ base s <= i) \/ acc = Some s.
Proof.
  revert acc; induction l as [|x l IH]; intros acc Hf; cbn [floor_seg] in Hf; [right; exact Hf|].
  destruct (Z.leb_spec (base x) i) as [Hx|Hx].
  - apply IH in Hf. destruct Hf as [[Hin Hb]|Hacc]; [left; split; [right; assumption|assumption]|].
    destruct acc as [a|].
    + destruct (base a <=? base x); injection Hacc as <-; [left; split; [left; reflexivity|assumption]|right; reflexivity].
    + injection Hacc as <-. left. split; [left; reflexivity|assumption].
  - apply IH in Hf. destruct Hf as [[Hin Hb]|Hacc]; [left; split; [right; assumption|assumption]|right; assumption].
Qed.

Lemma floor_seg_acc_some l i a : exists s, floor_seg l i (Some a) = Some s.
Proof.
  revert a; induction l as [|x l IH]; intros a; cbn [floor_seg]; [eauto|].
  destruct (base x <=? i); [|apply IH]. destruct (base a <=? base x); apply IH.
Qed.

Lemma floor_seg_complete l i acc s : In s l -> base s <= i -> floor_seg l i acc <> None.
Proof.
  revert acc; induction l as [|x l IH]; intros acc Hin Hb; [destruct Hin|].
  cbn [floor_seg]. destruct Hin as [->|Hin].
  - destruct (Z.leb_spec (base s) i); [|lia].
    destruct acc as [a|]; [destruct (base a <=? base s)|];
      match goal with |- floor_seg l i (Some ?x) <> None => destruct (floor_seg_acc_some l i x) as [y ->]; discriminate end.
  - destruct (base x <=? i); apply IH; assumption.
Qed.

Lemma floor_base_sound l i b : floor_base l i = Some b -> exists s, In s l /\ base s = b /\ b <= i.
Proof.
  unfold floor_base. destruct (floor_seg l i None) as [s|] eqn:E; [|discriminate].
  intros Hb. injection Hb as <-. apply floor_seg_sound in E. destruct E as [[Hin Hb]|E]; [|discriminate].
  exists s. auto.
Qed.

Lemma floor_base_complete l i s : In s l -> base s <= i -> floor_base l i <> None.
Proof.
  intros Hin Hb. unfold floor_base. pose proof (floor_seg_complete l i None s Hin Hb).
  destruct (floor_seg l i None); [discriminate|congruence].
Qed.

(* ------------------------------------------------------------------ *)
(* TrimSegments keeps a suffix                                         *)

Lemma filter_gt_suffix b l c :
  chain b l ->
  exists A B, l = A ++ B /\ filter (fun s => c <? base s) l = B /\ Forall (fun s => base s <= c) A.
Proof.
  revert b; induction l as [|s l IH]; intros b Hch.
  - exists [], []. auto.
  - destruct Hch as [Hb Hch]. cbn [filter]. destruct (Z.ltb_spec c (base s)) as [Hgt|Hle].
    + exists [], (s :: l). split; [reflexivity|]. split; [|constructor]. f_equal.
      apply filter_all. apply Forall_forall. intros x Hx.
      pose proof (chain_base_ge _ _ _ Hch Hx). pose proof (seg_len_nonneg s). apply Z.ltb_lt. lia.
    + destruct (IH _ Hch) as [A [B [-> [Hf HA]]]]. exists (s :: A), B. split; [reflexivity|]. split; [assumption|].
      constructor; assumption.
Qed.

Lemma trim_segments_suffix w t :
  Inv w -> phys_lo w <= t ->
  exists A B, ro w = A ++ B /\ trim_segments (ro w) t = B /\ base (hd (cur w) B) <= t.
Proof.
  intros H Ht. pose proof (inv_chain_ro w H) as Hch.
  unfold trim_segments.
  set (keep := match floor_base (ro w) t with Some b => b | None => t end).
  destruct (floor_base (ro w) (keep - 1)) as [cutoff|] eqn:Ec.
  - destruct (filter_gt_suffix _ _ cutoff Hch) as [A [B [Hro [Hf HA]]]].
    exists A, B. split; [assumption|]. split; [assumption|].
    destruct (floor_base_sound _ _ _ Ec) as [sc [Hsc [Hbc Hlec]]].
    destruct (floor_base (ro w) t) as [b|] eqn:Eb.
    + destruct (floor_base_sound _ _ _ Eb) as [sb [Hsb [Hbb Hleb]]]. subst keep.
      assert (In sb B) as HinB.
      { rewrite <- Hf. apply filter_In. split; [assumption|]. apply Z.ltb_lt. lia. }
      rewrite Hro in Hch. apply chain_app in Hch. destruct Hch as [_ HchB].
      destruct B as [|x B]; [destruct HinB|]. cbn [hd].
      pose proof (chain_base_ge _ _ _ HchB HinB) as Hge. destruct HchB as [Hx _]. lia.
    + exfalso. subst keep. apply (floor_base_complete (ro w) t sc Hsc); [lia|assumption].
  - exists [], (ro w). split; [reflexivity|]. split; [reflexivity|]. exact Ht.
Qed.

(* ------------------------------------------------------------------ *)
(* wal.trim is the list operation                                      *)

Lemma wal_trim_ok w t :
  Inv w -> first w < t <= last_syn w ->
  let w' := wal_trim w t in
  Inv w' /\ seg_size w' = seg_size w /\ phys_lo w' <= t /\ first w' = t /\ last_syn w' = last_syn w /\
  last_app w' = last_app w /\
  exists removed, flat (segs w) = removed ++ flat (segs w') /\
                  Forall (fun e => e_off e < phys_lo w') removed /\
                  flat (segs w') = filter (fun e => phys_lo w' <=? e_off e) (flat (segs w)).
Proof.
  intros H Ht w'. subst w'. unfold wal_trim. destruct (Z.leb_spec t (first w)); [lia|].
  pose proof (inv_first_ge w H) as Hfge. pose proof (i_syn w H) as Hsyn.
  assert (last_app w <> -1) as Ela by lia.
  pose proof (inv_first_range w H Ela) as Hfr.
  destruct (trim_segments_suffix w t H ltac:(lia)) as [A [B [Hro [Htr Hkeep]]]].
  rewrite Htr.
  pose proof (i_chain w H) as Hch. pose proof (i_last w H) as Hla. pose proof (inv_contigs w H) as Hcts.
  pose proof (i_segs w H) as Hoks. pose proof (i_ne w H) as Hne.
  unfold segs in *. rewrite Hro in *. rewrite <- app_assoc in Hch, Hla, Hcts, Hoks.
  apply chain_app in Hch. destruct Hch as [HchA HchB].
  apply Forall_app in Hcts. destruct Hcts as [HctA HctB].
  apply Forall_app in Hoks. destruct Hoks as [_ HokB].
  apply Forall_app in Hne. destruct Hne as [_ HneB].
  rewrite total_len_app in Hla.
  pose proof (chain_hd_base _ _ _ HchB) as Hhd.
  unfold phys_lo at 1. cbn [seg_size ro cur first last_syn last_app]. unfold phys_lo. cbn [ro cur].
  assert (nonempty (cur w)) as Hcne.
  { unfold nonempty. intros E. apply (inv_empty_cur w H) in E. contradiction. }
  split; [|split; [reflexivity|split; [assumption|split; [reflexivity|split; [reflexivity|split; [reflexivity|]]]]]].
  - rewrite (i_wrecked w H). apply inv_build; rewrite ?Hhd; try assumption; try lia.
    exact (i_sz w H).
  - exists (flat A). rewrite <- app_assoc, flat_app. split; [reflexivity|]. rewrite Hhd. split.
    + apply Forall_forall. intros e He. pose proof (flat_bounds _ _ _ HchA HctA He). lia.
    + rewrite filter_app. rewrite (filter_none _ (flat A)), (filter_all _ (flat (B ++ [cur w]))); [reflexivity| |].
      * apply Forall_forall. intros e He. pose proof (flat_bounds _ _ _ HchB HctB He). apply Z.leb_le. lia.
      * apply Forall_forall. intros e He. pose proof (flat_bounds _ _ _ HchA HctA He). apply Z.leb_gt. lia.
Qed.

(* ------------------------------------------------------------------ *)
(* doTrim's choice of the offset                                       *)

Lemma med_bounds lo hi :
  0 <= lo < hi ->
  let med := Z.quot (lo + hi) 2 + (if 0 <? Z.rem (lo + hi) 2 then 1 else 0) in lo < med <= hi.
Proof.
  intros Hl med. subst med. rewrite Z.quot_div_nonneg, Z.rem_mod_nonneg by lia.
  destruct (Z.ltb_spec 0 ((lo + hi) mod 2)); Z.div_mod_to_equations; lia.
Qed.

Section Search.
Variable w : wal.
Hypothesis H : Inv w.

Lemma read_ts_ok i :
  first w <= i <= last_app w -> last_app w <> -1 ->
  exists e, read_ts w i = Ok (e_ts e) /\ In e (flat (segs w)) /\ e_off e = i.
Proof.
  intros Hi Ela. pose proof (inv_first_range w H Ela) as Hfr.
  destruct (read_at_flat w H i ltac:(lia)) as [e [Hr [Hn He]]].
  exists e. unfold read_ts. destruct (Z.ltb_spec i (first w)); [lia|]. rewrite Hr.
  split; [reflexivity|]. split; [|assumption]. apply nth_error_In in Hn. exact Hn.
Qed.

(* the binary search stays inside [lo, hi] and never moves lo onto an unexpired entry *)
Lemma bsearch_ok fuel lo hi c :
  last_app w <> -1 -> first w <= lo -> lo <= hi -> hi <= last_syn w ->
  (Z.to_nat (hi - lo) <= fuel)%nat ->
  exists t, bsearch w fuel lo hi c = Ok t /\ lo <= t <= hi /\
            ((forall ts, read_ts w lo = Ok ts -> ts <= c) -> forall ts, read_ts w t = Ok ts -> ts <= c).
Proof.
  intros Ela. pose proof (inv_first_range w H Ela) as Hfr. pose proof (inv_lo_nonneg w H) as Hlo.
  pose proof (i_syn w H) as Hsyn.
  revert lo hi; induction fuel as [|fuel IH]; intros lo hi Hf Hlh Hhi Hfuel.
  - exists lo. cbn [bsearch]. split; [reflexivity|]. split; [lia|auto].
  - cbn [bsearch]. destruct (Z.ltb_spec lo hi) as [Hlt|Hge].
    + pose proof (med_bounds lo hi ltac:(lia)) as Hmed. cbv zeta in Hmed.
      set (med := Z.quot (lo + hi) 2 + (if 0 <? Z.rem (lo + hi) 2 then 1 else 0)) in *.
      destruct (read_ts_ok med ltac:(lia) Ela) as [e [Hr _]]. rewrite Hr.
      destruct (Z.ltb_spec c (e_ts e)) as [Hnew|Hold].
      * destruct (IH lo (med - 1)) as [t [Ht [Hrange Hexp]]]; try lia.
        exists t. split; [assumption|]. split; [lia|assumption].
      * destruct (IH med hi) as [t [Ht [Hrange Hexp]]]; try lia.
        exists t. split; [assumption|]. split; [lia|]. intros _. apply Hexp.
        intros ts Hts. rewrite Hr in Hts. injection Hts as <-. assumption.
    + exists lo. split; [reflexivity|]. split; [lia|auto].
Qed.

(* doTrim never fails; when it trims, the new first offset is at most the commit offset, at most the last
   synced offset, and the entry it lands on (or, when clamped by the commit offset, an entry at or above it)
   is not newer than the cutoff *)
Lemma trim_target_ok now ret commit :
  exists r, trim_target w now ret commit = Ok r /\
    forall t, r = Some t -> first w < t ->
      t <= last_syn w /\ t <= commit /\
      exists t0 e0, t <= t0 /\ In e0 (flat (segs w)) /\ e_off e0 = t0 /\ e_ts e0 <= now - ret.
Proof.
  unfold trim_target. destruct (Z.eqb_spec (last_syn w) (-1)) as [Es|Es]; [exists None; split; [reflexivity|discriminate]|].
  pose proof (i_syn w H) as Hsyn. assert (last_app w <> -1) as Ela by lia.
  pose proof (inv_first_range w H Ela) as Hfr.
  assert (first w <= last_syn w) as Hfs by (destruct (i_syn_first w H); [contradiction|assumption]).
  destruct (read_ts_ok (first w) ltac:(lia) Ela) as [ef [Hrf [Hinf Hof]]]. rewrite Hrf.
  destruct (Z.ltb_spec (now - ret) (e_ts ef)) as [Hnew|Hold]; [exists None; split; [reflexivity|discriminate]|].
  destruct (bsearch_ok (Z.to_nat (last_syn w - first w)) (first w) (last_syn w) (now - ret) Ela) as [t0 [Hb [Hrange Hexp]]];
    try lia.
  rewrite Hb. eexists. split; [reflexivity|]. intros t Ht Hgt. injection Ht as Ht.
  destruct (read_ts_ok t0 ltac:(lia) Ela) as [e0 [Hr0 [Hin0 Ho0]]].
  assert (e_ts e0 <= now - ret) as Hexp0.
  { apply Hexp; [|assumption]. intros ts Hts. rewrite Hrf in Hts. injection Hts as <-. assumption. }
  destruct (Z.ltb_spec commit t0); subst t.
  - split; [lia|]. split; [lia|]. exists t0, e0. repeat split; try assumption; lia.
  - split; [lia|]. split; [lia|]. exists t0, e0. repeat split; try assumption; lia.
Qed.

End Search.
