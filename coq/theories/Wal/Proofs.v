(* Main statements about the WAL model (server/wal), see DESIGN.md section 5, C09. *)
From Coq Require Import List ZArith NArith Bool Lia.
From Oxia.Wal Require Import Model Spec Lists Inv Preserve Trim Refine.
Import ListNotations.
Open Scope Z_scope.

(* ------------------------------------------------------------------ *)
(* invariant                                                           *)

Theorem inv_reachable sz ops :
  (sz < 2147483648)%N -> Forall (valid_op sz) ops -> Inv (fst (run (init sz) ops)).
Proof. intros Hsz Hv. apply (refines_list_gen ops (init sz) (inv_init sz Hsz) Hv). Qed.

Theorem inv_step w o : Inv w -> valid_op (seg_size w) o -> Inv (fst (step w o)).
Proof. intros H Hv. apply (step_refines w o H Hv). Qed.

(* ------------------------------------------------------------------ *)
(* refinement to the list                                              *)

(* For every segment size, every operation sequence and every assignment of record sizes: running the
   segmented WAL and running the list specification give the same abstract state and the same observable
   after every operation (result of the call, entries read forwards / backwards, FirstOffset, LastOffset). *)
Theorem refines_list sz ops :
  (sz < 2147483648)%N -> Forall (valid_op sz) ops ->
  s_run sinit (annotate (init sz) ops) = (abs (fst (run (init sz) ops)), snd (run (init sz) ops)).
Proof.
  intros Hsz Hv. rewrite <- (abs_init sz). apply (refines_list_gen ops (init sz) (inv_init sz Hsz) Hv).
Qed.

(* the list behind the WAL has contiguous offsets, from the oldest retained entry to the last appended one *)
Theorem log_contiguous sz ops :
  (sz < 2147483648)%N -> Forall (valid_op sz) ops ->
  let w := fst (run (init sz) ops) in
  contig (phys_lo w) (phys (abs w)) /\ len (phys (abs w)) = last_app w + 1 - phys_lo w /\
  (last_app w <> -1 -> phys_lo w <= first w <= last_app w) /\ last_syn w <= last_app w.
Proof.
  intros Hsz Hv w. pose proof (inv_reachable sz ops Hsz Hv) as H. fold w in H.
  split; [apply inv_contig, H|]. split; [apply inv_len_phys, H|]. split; [apply inv_first_range, H|]. apply (i_syn w H).
Qed.

(* the next append is accepted exactly at last+1, or at any offset >= 0 when the log is empty *)
Theorem append_accepted_exactly w p e :
  Inv w -> (0 < p)%N -> (header_size + p <= seg_size w)%N ->
  (snd (append_async w p e) = Ok tt <->
   0 <= e_off e /\ (phys (abs w) = [] \/ e_off e = last_off (phys (abs w)) + 1)).
Proof.
  intros H Hp Hfit. rewrite (inv_last_off w H), <- (inv_empty_phys w H). split.
  - intros Hok. unfold append_async in Hok.
    destruct (Z.ltb_spec (e_off e) 0); [discriminate Hok|]. split; [assumption|].
    destruct (Z.eqb_spec (last_app w) (-1)); [left; assumption|].
    destruct (Z.eqb_spec (e_off e) (last_app w + 1)); [right; assumption|]. discriminate Hok.
  - intros [Hnn Hnext]. destruct (append_async_ok w p e H Hp Hfit Hnn Hnext) as [w' [-> _]]. reflexivity.
Qed.

(* ------------------------------------------------------------------ *)
(* trimming                                                            *)

(* timestamps do not decrease along the log (what the leader's clock is assumed to give) *)
Definition ts_mono (l : list entry) : Prop :=
  forall a b, In a l -> In b l -> e_off a <= e_off b -> e_ts a <= e_ts b.

(* One trimmer round, in any reachable state, for every clock value, retention and commit offset:
   it does not fail; first/last move as stated; what disappears is a whole prefix of the list, all of it below
   the new first offset; nothing at or above the new first offset is lost; the first offset never passes the
   commit offset nor the last synced entry; and, when timestamps are monotone, every entry below the new
   first offset is at least [retention] old. *)
Theorem trim_safe w now ret commit :
  Inv w ->
  let w' := fst (do_trim w now ret commit) in
  snd (do_trim w now ret commit) = Ok tt /\ Inv w' /\
  first w <= first w' /\ last_syn w' = last_syn w /\ last_app w' = last_app w /\
  (exists removed, phys (abs w) = removed ++ phys (abs w') /\ Forall (fun e => e_off e < first w') removed) /\
  (forall e, In e (phys (abs w)) -> first w' <= e_off e -> In e (phys (abs w'))) /\
  (first w' <> first w -> first w' <= commit /\ first w' <= last_syn w) /\
  (ts_mono (phys (abs w)) ->
   forall e, In e (phys (abs w)) -> e_off e < first w' -> first w' <> first w -> e_ts e <= now - ret).
Proof.
  intros H w'. subst w'. unfold do_trim. rewrite (i_wrecked w H).
  destruct (trim_target_ok w H now ret commit) as [r [Hr Hprop]]. rewrite Hr.
  assert (Hsame : snd (w, @Ok unit tt) = Ok tt /\ Inv w /\ first w <= first w /\ last_syn w = last_syn w /\
                  last_app w = last_app w /\
                  (exists removed, phys (abs w) = removed ++ phys (abs w) /\ Forall (fun e => e_off e < first w) removed) /\
                  (forall e, In e (phys (abs w)) -> first w <= e_off e -> In e (phys (abs w))) /\
                  (first w <> first w -> first w <= commit /\ first w <= last_syn w) /\
                  (ts_mono (phys (abs w)) ->
                   forall e, In e (phys (abs w)) -> e_off e < first w -> first w <> first w -> e_ts e <= now - ret)).
  { split; [reflexivity|]. split; [assumption|]. split; [lia|]. split; [reflexivity|]. split; [reflexivity|].
    split; [exists []; split; [reflexivity|constructor]|]. split; [auto|]. split; [intros C; congruence|].
    intros _ e _ _ C. congruence. }
  destruct r as [t|]; cbn [fst snd]; [|exact Hsame].
  destruct (Z.leb_spec t (first w)) as [Hle|Hgt].
  - unfold wal_trim. destruct (Z.leb_spec t (first w)); [|lia]. exact Hsame.
  - destruct (Hprop t eq_refl Hgt) as [Hts [Htc [t0 [e0 [Ht0 [Hin0 [Ho0 Hexp0]]]]]]].
    destruct (wal_trim_ok w t H ltac:(lia)) as [Hi [Hsz [Hk [Hf [Hs [Hl [removed [Hsplit [Hrem Hfl]]]]]]]]].
    rewrite Hf, Hs, Hl. cbn [abs phys].
    split; [reflexivity|]. split; [assumption|]. split; [lia|]. split; [reflexivity|]. split; [reflexivity|].
    split; [|split; [|split]].
    + exists removed. split; [assumption|]. eapply Forall_impl; [|exact Hrem]. cbn. intros; lia.
    + intros e He Hge. rewrite Hsplit in He. apply in_app_or in He. destruct He as [He|He]; [|assumption].
      rewrite Forall_forall in Hrem. specialize (Hrem _ He). lia.
    + intros _. lia.
    + intros Hmono e He Hlt _. specialize (Hmono e e0 He Hin0 ltac:(lia)). lia.
Qed.
