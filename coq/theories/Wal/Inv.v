(* The invariant of the segmented WAL, the abstraction to the list specification,
   and what a read at an offset returns. *)
From Coq Require Import List ZArith NArith Bool Lia.
From Oxia.Wal Require Import Model Spec Lists.
Import ListNotations.
Open Scope Z_scope.

Definition segs (w : wal) : list segment := ro w ++ [cur w].
Definition phys_lo (w : wal) : Z := base (hd (cur w) (ro w)).

(* abstraction: the entries of all segments in order, the first offset, the synced watermark *)
Definition abs (w : wal) : sstate := mkS (flat (segs w)) (first w) (last_syn w).

Definition seg_ok (sz : N) (s : segment) : Prop :=
  seg_contig s /\ file_off s = sum_sizes (recs s) /\ (file_off s <= sz)%N /\ 0 <= base s.

Record Inv (w : wal) : Prop := mkInv {
  i_wrecked : wrecked w = false;
  i_sz : (seg_size w < 2147483648)%N;                       (* FactoryOptions.SegmentSize is an int32 *)
  i_segs : Forall (seg_ok (seg_size w)) (segs w);           (* offsets contiguous inside a segment, index = running
                                                               sum of the record sizes, no segment larger than seg_size *)
  i_ne : Forall nonempty (ro w);
  i_chain : chain (phys_lo w) (segs w);                     (* base(next) = last(previous) + 1, base(cur) = last(ro) + 1 *)
  i_last : last_app w + 1 = phys_lo w + total_len (segs w);
  i_empty : recs (cur w) = [] -> ro w = [] /\ base (cur w) = 0 /\ first w = -1 /\ last_syn w = -1;
  i_first : recs (cur w) <> [] -> phys_lo w <= first w <= last_app w;
  i_syn : -1 <= last_syn w <= last_app w;
  i_syn_first : last_syn w = -1 \/ first w <= last_syn w
}.

Lemma inv_init sz : (sz < 2147483648)%N -> Inv (init sz).
Proof.
  intros Hsz. constructor; cbn; try reflexivity; try lia; try assumption.
  - constructor; [|constructor]. repeat split; cbn; try reflexivity; try lia.
  - constructor.
  - auto.
  - congruence.
Qed.

(* reading inside a segment *)
Lemma seg_read_ok s i :
  seg_contig s -> base s <= i < base s + seg_len s ->
  exists e, seg_read s i = Ok e /\ nth_error (seg_entries s) (Z.to_nat (i - base s)) = Some e /\ e_off e = i.
Proof.
  intros Hct Hi. unfold seg_read, seg_last.
  destruct (Z.ltb_spec i (base s)); [lia|]. destruct (Z.ltb_spec (base s + seg_len s - 1) i); [lia|]. cbn [orb].
  destruct (contig_nth _ _ i Hct) as [e [He1 He2]]; [rewrite seg_len_entries; lia|].
  exists e. rewrite He1. split; [|split; [reflexivity|assumption]].
  unfold seg_entries in He1. rewrite nth_error_map in He1. unfold rec in *.
  destruct (@nth_error (N * entry) (recs s) (Z.to_nat (i - base s))) as [r|]; cbn in He1; [|discriminate He1].
  injection He1 as <-. reflexivity.
Qed.

(* ------------------------------------------------------------------ *)
(* consequences of the invariant                                       *)

Section Facts.
Variable w : wal.
Hypothesis H : Inv w.

Lemma inv_chain_ro : chain (phys_lo w) (ro w).
Proof. pose proof (i_chain w H) as Hc. unfold segs in Hc. apply chain_app in Hc. tauto. Qed.

Lemma inv_cur_base : base (cur w) = phys_lo w + total_len (ro w).
Proof. pose proof (i_chain w H) as Hc. unfold segs in Hc. apply chain_app in Hc. destruct Hc as [_ [Hc _]]. exact Hc. Qed.

Lemma inv_seg_last_cur : seg_last (cur w) = last_app w.
Proof.
  pose proof (i_last w H) as Hl. unfold segs in Hl. rewrite total_len_app in Hl. cbn [total_len] in Hl.
  pose proof inv_cur_base. unfold seg_last. lia.
Qed.

Lemma inv_contigs : Forall seg_contig (segs w).
Proof. eapply Forall_impl; [|exact (i_segs w H)]. intros s Hs. apply Hs. Qed.

Lemma inv_contig : contig (phys_lo w) (phys (abs w)).
Proof. apply chain_contig; [exact (i_chain w H)|exact inv_contigs]. Qed.

Lemma inv_len_phys : len (phys (abs w)) = last_app w + 1 - phys_lo w.
Proof. cbn [abs phys]. rewrite len_flat. pose proof (i_last w H). lia. Qed.

Lemma inv_lo_nonneg : 0 <= phys_lo w.
Proof.
  pose proof (i_segs w H) as Hs. rewrite Forall_forall in Hs.
  assert (In (hd (cur w) (ro w)) (segs w)) as Hin.
  { unfold segs. destruct (ro w); cbn; auto. }
  apply Hs in Hin. apply Hin.
Qed.

Lemma inv_cur_ok : seg_ok (seg_size w) (cur w).
Proof.
  pose proof (i_segs w H) as Hs. unfold segs in Hs. apply Forall_app in Hs. destruct Hs as [_ Hs].
  inversion Hs; assumption.
Qed.

Lemma inv_ro_ok : Forall (seg_ok (seg_size w)) (ro w).
Proof. pose proof (i_segs w H) as Hs. unfold segs in Hs. apply Forall_app in Hs. tauto. Qed.

Lemma inv_last_ge : -1 <= last_app w.
Proof. pose proof (i_syn w H). lia. Qed.

(* the log is empty exactly when nothing was appended *)
Lemma inv_empty_cur : last_app w = -1 <-> recs (cur w) = [].
Proof.
  pose proof (i_last w H) as Hl. pose proof inv_lo_nonneg as Hlo. pose proof (total_len_nonneg (segs w)) as Ht.
  split.
  - intros E. assert (total_len (segs w) = 0) as Hz by lia.
    unfold segs in Hz. rewrite total_len_app in Hz. cbn [total_len] in Hz.
    pose proof (total_len_nonneg (ro w)). pose proof (seg_len_nonneg (cur w)).
    assert (seg_len (cur w) = 0) as Hc by lia. unfold seg_len in Hc. destruct (recs (cur w)); [reflexivity|cbn in Hc; lia].
  - intros E. destruct (i_empty w H E) as [Hro [Hb _]].
    unfold segs, phys_lo in Hl. rewrite Hro in Hl. cbn in Hl. unfold seg_len in Hl. rewrite E in Hl. cbn in Hl. lia.
Qed.

Lemma inv_empty_phys : last_app w = -1 <-> phys (abs w) = [].
Proof.
  pose proof inv_len_phys as Hl. pose proof inv_lo_nonneg. pose proof (i_last w H) as Hl2.
  pose proof (total_len_nonneg (segs w)).
  split.
  - intros E. apply len_zero_nil. lia.
  - intros E. rewrite E, len_nil in Hl.
    rewrite inv_empty_cur. cbn [abs phys] in E.
    unfold segs in E. rewrite flat_app in E. apply app_eq_nil in E. destruct E as [_ E].
    cbn in E. rewrite app_nil_r in E. unfold seg_entries in E. apply map_eq_nil in E. exact E.
Qed.

Lemma inv_last_off : last_off (phys (abs w)) = last_app w.
Proof.
  destruct (Z.eq_dec (last_app w) (-1)) as [E|E].
  - pose proof (proj1 inv_empty_phys E) as Hp. rewrite Hp. cbn. lia.
  - assert (phys (abs w) <> []) as Hne by (intros Hp; apply E, inv_empty_phys, Hp).
    rewrite (last_off_contig _ _ inv_contig Hne), inv_len_phys. lia.
Qed.

Lemma inv_first_range : last_app w <> -1 -> phys_lo w <= first w <= last_app w.
Proof. intros E. apply (i_first w H). intros Hc. apply E, inv_empty_cur, Hc. Qed.

Lemma inv_first_empty : last_app w = -1 -> first w = -1 /\ last_syn w = -1 /\ ro w = [] /\ base (cur w) = 0.
Proof. intros E. apply inv_empty_cur in E. destruct (i_empty w H E) as [? [? [? ?]]]. auto. Qed.

Lemma inv_first_ge : -1 <= first w.
Proof.
  destruct (Z.eq_dec (last_app w) (-1)) as [E|E].
  - destruct (inv_first_empty E) as [-> _]. lia.
  - pose proof (inv_first_range E). pose proof inv_lo_nonneg. lia.
Qed.

Lemma inv_ro_below_cur s : In s (ro w) -> base s < base (cur w).
Proof.
  intros Hin. pose proof (chain_base_lt _ _ _ inv_chain_ro Hin) as Hb.
  pose proof (i_ne w H) as Hne. rewrite Forall_forall in Hne. pose proof (nonempty_len _ (Hne _ Hin)).
  rewrite inv_cur_base. lia.
Qed.

Lemma inv_filter_ro : filter (fun s => negb (base s =? base (cur w))) (ro w) = ro w.
Proof.
  apply filter_all. apply Forall_forall. intros s Hin. pose proof (inv_ro_below_cur s Hin).
  destruct (Z.eqb_spec (base s) (base (cur w))); [lia|reflexivity].
Qed.

(* readAtIndex returns the entry of the list at that position *)
Lemma read_at_flat i :
  phys_lo w <= i <= last_app w ->
  exists e, read_at w i = Ok e /\
            nth_error (phys (abs w)) (Z.to_nat (i - phys_lo w)) = Some e /\ e_off e = i.
Proof.
  intros Hi. unfold read_at. pose proof inv_cur_base as Hcb. pose proof inv_seg_last_cur as Hsl.
  cbn [abs phys]. unfold segs. rewrite flat_app.
  destruct (Z.leb_spec (base (cur w)) i) as [Hc|Hc].
  - (* in the current segment *)
    destruct inv_cur_ok as [Hct _].
    destruct (seg_read_ok (cur w) i Hct) as [e [He0 [He1 He2]]]; [unfold seg_last in Hsl; lia|].
    exists e. split; [assumption|]. split; [|assumption].
    pose proof (len_flat (ro w)) as Hlf. unfold len in Hlf.
    rewrite nth_error_app2 by lia.
    replace (Z.to_nat (i - phys_lo w) - length (flat (ro w)))%nat with (Z.to_nat (i - base (cur w))) by lia.
    cbn. rewrite app_nil_r. exact He1.
  - (* in a read-only segment: Floor finds it *)
    destruct (floor_seg_chain (phys_lo w) (ro w) i None inv_chain_ro (i_ne w H)) as [A [s [B [Hro [Hf [Hb Hin]]]]]];
      [lia|left; reflexivity|].
    rewrite Hf.
    assert (In s (ro w)) as Hs by (rewrite Hro; apply in_or_app; right; left; reflexivity).
    pose proof (i_ne w H) as Hne. rewrite Forall_forall in Hne. pose proof (Hne _ Hs) as Hsne.
    assert ((length (recs s) =? 0)%nat = false) as El.
    { unfold nonempty in Hsne. destruct (recs s); [congruence|reflexivity]. }
    rewrite El.
    pose proof inv_ro_ok as Hok. rewrite Forall_forall in Hok. destruct (Hok _ Hs) as [Hct _].
    destruct (seg_read_ok s i Hct Hin) as [e [He0 [He1 He2]]].
    exists e. split; [assumption|]. split; [|assumption].
    rewrite Hro, flat_app. change (flat (s :: B)) with (seg_entries s ++ flat B).
    pose proof (len_flat A) as Hlf. unfold len in Hlf. rewrite <- !app_assoc.
    rewrite nth_error_app2 by lia.
    replace (Z.to_nat (i - phys_lo w) - length (flat A))%nat with (Z.to_nat (i - base s)) by lia.
    rewrite nth_error_app1; [exact He1|].
    pose proof (seg_len_entries s) as Hse. unfold len in Hse. lia.
Qed.

(* reading a run of offsets returns the corresponding slice of the list *)
Lemma read_run a n :
  phys_lo w <= a -> a + Z.of_nat n - 1 <= last_app w ->
  Forall2 (fun i e => read_at w i = Ok e) (zseq a n)
          (firstn n (skipn (Z.to_nat (a - phys_lo w)) (phys (abs w)))).
Proof.
  revert a; induction n as [|n IH]; intros a Ha Hb; [constructor|].
  cbn [zseq]. destruct (read_at_flat a ltac:(lia)) as [e [He1 [He2 _]]].
  rewrite (nth_error_skipn _ _ _ He2). cbn [firstn]. constructor; [assumption|].
  replace (S (Z.to_nat (a - phys_lo w))) with (Z.to_nat (a + 1 - phys_lo w)) by lia.
  apply IH; lia.
Qed.

End Facts.

Lemma read_all_ok w l es :
  Forall2 (fun i e => read_at w i = Ok e) l es -> read_all w l = (es, None).
Proof. induction 1; cbn [read_all]; [reflexivity|]. rewrite H, IHForall2. reflexivity. Qed.
