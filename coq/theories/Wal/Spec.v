(* Specification of the WAL: a list.

   State: the retained entries (contiguous offsets, oldest first), the logical first offset
   and the synced watermark.  There are no segments, sizes or files here.

   - append is accepted exactly at last+1, or at any offset >= 0 on an empty log;
   - sync makes everything appended visible;
   - truncate o keeps the entries with offset <= o (clearing the log when o is below its first offset);
   - trim moves the first offset to [t] and may drop any prefix below [keep <= t]
     (which [t] and [keep] the implementation picks is the subject of the trim-safety theorems);
   - reopen loses nothing; it may lower the first offset to the oldest retained entry;
   - readers show the entries between the first offset and the synced watermark, in both directions. *)
From Coq Require Import List ZArith NArith Bool.
From Oxia.Wal Require Import Model.
Import ListNotations.
Open Scope Z_scope.

Record sstate := mkS {
  phys : list entry;    (* retained entries, contiguous offsets *)
  sfirst : Z;           (* FirstOffset(): -1 on an empty log *)
  ssynced : Z           (* LastOffset(): -1 when nothing is visible *)
}.

Definition sinit : sstate := mkS [] (-1) (-1).

Definition last_off (l : list entry) : Z :=
  match rev l with [] => -1 | e :: _ => e_off e end.

Definition s_append_async (s : sstate) (psize : N) (e : entry) : sstate * res unit :=
  if e_off e <? 0 then (s, Err ENegOffset)
  else match phys s with
       | [] => (mkS [e] (if sfirst s =? -1 then e_off e else sfirst s) (ssynced s), Ok tt)
       | _ => if e_off e =? last_off (phys s) + 1
              then (mkS (phys s ++ [e]) (sfirst s) (ssynced s), Ok tt)
              else (s, Err EInvalidNext)
       end.

Definition s_sync (s : sstate) : sstate := mkS (phys s) (sfirst s) (last_off (phys s)).

Definition s_append (s : sstate) (psize : N) (e : entry) : sstate * res unit :=
  match s_append_async s psize e with
  | (s', Ok _) => (s_sync s', Ok tt)
  | r => r
  end.

Definition s_truncate (s : sstate) (o : Z) : sstate * res Z :=
  if o =? -1 then (sinit, Ok (-1))
  else match phys s with
       | [] => (s, Ok (-1))
       | _ => if o <? sfirst s then (sinit, Ok (-1))
              else if last_off (phys s) <? o then (s, Err EOutOfBounds)
              else (mkS (filter (fun e => e_off e <=? o) (phys s)) (sfirst s) o, Ok o)
       end.

(* trim to [t], dropping what lies below [keep] *)
Definition s_trim (s : sstate) (t keep : Z) : sstate :=
  if t <=? sfirst s then s
  else mkS (filter (fun e => keep <=? e_off e) (phys s)) t (ssynced s).

Definition s_reopen (s : sstate) : sstate :=
  mkS (phys s) (match phys s with [] => -1 | e :: _ => e_off e end) (last_off (phys s)).

Definition visible (s : sstate) (lo : Z) : list entry :=
  filter (fun e => (lo <=? e_off e) && (e_off e <=? ssynced s)) (phys s).

Definition s_read_forward (s : sstate) (after : Z) : res (list entry * option err) :=
  if after + 1 <? sfirst s then Err EEntryNotFound
  else Ok (visible s (after + 1), None).

Definition s_read_backward (s : sstate) : list entry * option err :=
  if sfirst s =? -1 then ([], None) else (rev (visible s (sfirst s)), None).

(* spec-level operations: the model's, with Trim carrying what it resolved to *)
Inductive sop :=
| SOp (o : op)                       (* every op except Trim *)
| STrim (tk : option (Z * Z)).       (* None: the trimmer round changes nothing *)

Definition s_step (s : sstate) (o : sop) : sstate * out :=
  match o with
  | STrim None => (s, ODone (Ok tt))
  | STrim (Some (t, keep)) => (s_trim s t keep, ODone (Ok tt))
  | SOp (AppendAsync p e) => let (s', r) := s_append_async s p e in (s', ODone r)
  | SOp (Append p e) => let (s', r) := s_append s p e in (s', ODone r)
  | SOp Sync => (s_sync s, ODone (Ok tt))
  | SOp (Truncate x) => let (s', r) := s_truncate s x in (s', OTrunc r)
  | SOp Clear => (sinit, ODone (Ok tt))
  | SOp (Trim _ _ _) => (s, ODone (Ok tt))
  | SOp Reopen => (s_reopen s, ODone (Ok tt))
  | SOp (ReadFwd a) => (s, ORead (s_read_forward s a))
  | SOp ReadAll => (s, ORead (s_read_forward s (Z.max (sfirst s - 1) (-1))))
  | SOp ReadBwd => (s, ORead (Ok (s_read_backward s)))
  end.

Definition s_observe (s : sstate) (x : out) : obs := (x, sfirst s, ssynced s).

Fixpoint s_run (s : sstate) (ops : list sop) : sstate * list obs :=
  match ops with
  | [] => (s, [])
  | o :: tl => let (s1, x) := s_step s o in
               let (s2, xs) := s_run s1 tl in (s2, s_observe s1 x :: xs)
  end.
