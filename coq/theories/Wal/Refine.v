(* Refinement: every run of the segmented WAL is a run of the list specification,
   observable by observable; the trimmer is safe. *)
From Coq Require Import List ZArith NArith Bool Lia.
From Oxia.Wal Require Import Model Spec Lists Inv Preserve Trim.
Import ListNotations.
Open Scope Z_scope.

(* the domain the property quantifies over: an entry is a non-empty record that fits an empty
   segment; a reader is opened at an offset >= -1 *)
Definition valid_op (sz : N) (o : op) : Prop :=
  match o with
  | AppendAsync p e | Append p e => (0 < p)%N /\ (header_size + p <= sz)%N
  | ReadFwd a => -1 <= a
  | _ => True
  end.

(* a trimmer round resolves to "nothing" or to (new first offset, oldest offset still retained) *)
Definition annotate_op (w : wal) (o : op) : sop :=
  match o with
  | Trim n r c => STrim (match trim_target w n r c with
                         | Ok (Some t) => Some (t, phys_lo (wal_trim w t))
                         | _ => None
                         end)
  | _ => SOp o
  end.

Fixpoint annotate (w : wal) (ops : list op) : list sop :=
  match ops with
  | [] => []
  | o :: tl => annotate_op w o :: annotate (fst (step w o)) tl
  end.

Lemma abs_init sz : abs (init sz) = sinit.
Proof. reflexivity. Qed.

Lemma clear_init w : clear w = init (seg_size w).
Proof. reflexivity. Qed.

Lemma phys_nonempty w : Inv w -> last_app w <> -1 -> exists e l, phys (abs w) = e :: l /\ e_off e = phys_lo w.
Proof.
  intros H Ela. destruct (phys (abs w)) as [|e l] eqn:E.
  - elim Ela. apply (inv_empty_phys w H). exact E.
  - exists e, l. split; [reflexivity|]. pose proof (inv_contig w H) as Hc. rewrite E in Hc. apply Hc.
Qed.

(* ------------------------------------------------------------------ *)
(* append, sync                                                        *)

Lemma append_async_refines w p e :
  Inv w -> (0 < p)%N -> (header_size + p <= seg_size w)%N ->
  Inv (fst (append_async w p e)) /\ seg_size (fst (append_async w p e)) = seg_size w /\
  s_append_async (abs w) p e = (abs (fst (append_async w p e)), snd (append_async w p e)).
Proof.
  intros H Hp Hfit. unfold s_append_async. cbn [abs phys sfirst ssynced].
  destruct (Z.ltb_spec (e_off e) 0) as [Hneg|Hnn].
  - unfold append_async. destruct (Z.ltb_spec (e_off e) 0); [|lia]. cbn. auto.
  - destruct (Z.eq_dec (last_app w) (-1)) as [Ela|Ela].
    + destruct (append_async_ok w p e H Hp Hfit Hnn (or_introl Ela)) as [w' [Happ [Hi [Hsz [Hfl [Hf [Hs Hl]]]]]]].
      rewrite Happ. cbn [fst snd]. split; [assumption|]. split; [assumption|].
      pose proof (proj1 (inv_empty_phys w H) Ela) as Hph. cbn [abs phys] in Hph. rewrite Hph.
      unfold abs. rewrite Hfl, Hph, Hf, Hs. reflexivity.
    + destruct (phys_nonempty w H Ela) as [e0 [l0 [Hph _]]]. cbn [abs phys] in Hph. rewrite Hph.
      pose proof (inv_last_off w H) as Hlo. cbn [abs phys] in Hlo. rewrite Hph in Hlo. rewrite Hlo.
      destruct (Z.eqb_spec (e_off e) (last_app w + 1)) as [Enext|Enext].
      * destruct (append_async_ok w p e H Hp Hfit Hnn (or_intror Enext)) as [w' [Happ [Hi [Hsz [Hfl [Hf [Hs Hl]]]]]]].
        rewrite Happ. cbn [fst snd]. split; [assumption|]. split; [assumption|].
        unfold abs. rewrite Hfl, Hf, Hs, Hph.
        pose proof (inv_first_range w H Ela). pose proof (inv_lo_nonneg w H).
        destruct (Z.eqb_spec (first w) (-1)); [lia|]. reflexivity.
      * unfold append_async. destruct (Z.ltb_spec (e_off e) 0); [lia|].
        destruct (Z.eqb_spec (last_app w) (-1)); [contradiction|].
        destruct (Z.eqb_spec (e_off e) (last_app w + 1)); [contradiction|]. cbn. auto.
Qed.

Lemma sync_refines w : Inv w -> Inv (sync w) /\ abs (sync w) = s_sync (abs w).
Proof.
  intros H. split.
  - pose proof (inv_first_ge w H). pose proof (i_syn w H).
    assert (last_app w = -1 \/ first w <= last_app w) as Hd.
    { destruct (Z.eq_dec (last_app w) (-1)); [left; assumption|right; apply (inv_first_range w H); assumption]. }
    pose proof (proj2 (inv_empty_cur w H)) as Hemp.
    pose proof (i_empty w H) as Hie.
    destruct H. constructor; cbn; auto; try lia.
    intros Ec. destruct (Hie Ec) as [? [? [? ?]]]. auto.
  - unfold abs, s_sync. cbn [phys sfirst].
    pose proof (inv_last_off w H) as Hl. cbn [abs phys] in Hl.
    change (segs (sync w)) with (segs w). rewrite Hl. reflexivity.
Qed.

(* ------------------------------------------------------------------ *)
(* truncate                                                            *)

Lemma truncate_refines w o :
  Inv w ->
  Inv (fst (truncate w o)) /\ seg_size (fst (truncate w o)) = seg_size w /\
  s_truncate (abs w) o = (abs (fst (truncate w o)), snd (truncate w o)).
Proof.
  intros H. unfold s_truncate. cbn [abs phys sfirst ssynced].
  assert (Hclear : Inv (clear w) /\ seg_size (clear w) = seg_size w /\ abs (clear w) = sinit).
  { rewrite clear_init. split; [apply inv_init, (i_sz w H)|]. split; reflexivity. }
  destruct (Z.eqb_spec o (-1)) as [Eo|Eo].
  - unfold truncate. rewrite (i_wrecked w H). destruct (Z.eqb_spec o (-1)); [|contradiction].
    cbn [fst snd]. destruct Hclear as [? [? ->]]. auto.
  - destruct (Z.eq_dec (last_app w) (-1)) as [Ela|Ela].
    + pose proof (proj1 (inv_empty_phys w H) Ela) as Hph. cbn [abs phys] in Hph. rewrite Hph.
      unfold truncate. rewrite (i_wrecked w H). destruct (Z.eqb_spec o (-1)); [contradiction|].
      destruct (Z.eqb_spec (last_app w) (-1)); [|contradiction]. cbn [fst snd]. auto.
    + destruct (phys_nonempty w H Ela) as [e0 [l0 [Hph _]]]. cbn [abs phys] in Hph. rewrite Hph.
      pose proof (inv_last_off w H) as Hlo. cbn [abs phys] in Hlo. rewrite Hph in Hlo. rewrite Hlo, <- Hph.
      destruct (Z.ltb_spec o (first w)) as [Hlt|Hge].
      * unfold truncate. rewrite (i_wrecked w H). destruct (Z.eqb_spec o (-1)); [contradiction|].
        destruct (Z.eqb_spec (last_app w) (-1)); [contradiction|].
        destruct (Z.ltb_spec o (first w)); [|lia]. cbn [fst snd]. destruct Hclear as [? [? ->]]. auto.
      * destruct (Z.ltb_spec (last_app w) o) as [Hbeyond|Hin].
        -- unfold truncate. rewrite (i_wrecked w H). destruct (Z.eqb_spec o (-1)); [contradiction|].
           destruct (Z.eqb_spec (last_app w) (-1)); [contradiction|].
           destruct (Z.ltb_spec o (first w)); [lia|].
           pose proof (inv_seg_last_cur w H) as Hsl. pose proof (seg_len_nonneg (cur w)).
           destruct (Z.leb_spec (base (cur w)) o); [|unfold seg_last in Hsl; lia].
           unfold seg_truncate. destruct (Z.ltb_spec o (base (cur w))); [lia|].
           destruct (Z.ltb_spec (seg_last (cur w)) o); [|lia]. cbn [orb fst snd]. auto.
        -- destruct (truncate_ok w o H Ela ltac:(lia)) as [w' [Htr [Hi [Hsz [Hfl [Hf [Hs Hl]]]]]]].
           rewrite Htr. cbn [fst snd]. split; [assumption|]. split; [assumption|].
           unfold abs. rewrite Hfl, Hf, Hs. reflexivity.
Qed.

(* ------------------------------------------------------------------ *)
(* trim                                                                *)

Lemma trim_refines w now ret commit :
  Inv w ->
  Inv (fst (do_trim w now ret commit)) /\ seg_size (fst (do_trim w now ret commit)) = seg_size w /\
  s_step (abs w) (annotate_op w (Trim now ret commit))
  = (abs (fst (do_trim w now ret commit)), ODone (snd (do_trim w now ret commit))).
Proof.
  intros H. unfold do_trim, annotate_op. rewrite (i_wrecked w H).
  destruct (trim_target_ok w H now ret commit) as [r [Hr Hprop]]. rewrite Hr.
  destruct r as [t|]; cbn [fst snd s_step]; [|auto].
  destruct (Z.leb_spec t (first w)) as [Hle|Hgt].
  - unfold wal_trim, s_trim. cbn [abs sfirst]. destruct (Z.leb_spec t (first w)); [|lia]. auto.
  - destruct (Hprop t eq_refl Hgt) as [Hts _].
    destruct (wal_trim_ok w t H ltac:(lia)) as [Hi [Hsz [Hk [Hf [Hs [Hl [removed [_ [_ Hfl]]]]]]]]].
    split; [assumption|]. split; [assumption|]. f_equal.
    unfold s_trim. cbn [abs sfirst phys ssynced]. destruct (Z.leb_spec t (first w)); [lia|].
    unfold abs. rewrite Hfl, Hf, Hs. reflexivity.
Qed.

(* ------------------------------------------------------------------ *)
(* reopen                                                              *)

Lemma reopen_refines w :
  Inv w ->
  Inv (fst (reopen w)) /\ seg_size (fst (reopen w)) = seg_size w /\ snd (reopen w) = Ok tt /\
  abs (fst (reopen w)) = s_reopen (abs w) /\ first (fst (reopen w)) <= first w.
Proof.
  intros H. unfold reopen. rewrite (i_wrecked w H), (inv_filter_ro w H).
  pose proof (inv_seg_last_cur w H) as Hsl. rewrite Hsl.
  assert ((match rev (ro w) with
           | s :: _ => (length (recs s) =? 0)%nat
           | [] => false end) = false) as Hlast.
  { destruct (rev (ro w)) as [|s l] eqn:E; [reflexivity|].
    assert (In s (ro w)) as Hin by (apply in_rev; rewrite E; left; reflexivity).
    pose proof (i_ne w H) as Hne. rewrite Forall_forall in Hne. specialize (Hne _ Hin).
    unfold nonempty in Hne. destruct (recs s); [congruence|reflexivity]. }
  set (f := match ro w with [] => if 0 <=? last_app w then base (cur w) else -1 | s :: _ => base s end).
  assert (fst (match rev (ro w) with
               | s :: _ => if (length (recs s) =? 0)%nat
                           then (mkWal (seg_size w) (ro w) (cur w) (first w) (last_app w) (last_syn w) true, Err EDataCorrupted)
                           else (mkWal (seg_size w) (ro w) (cur w) f (last_app w) (last_app w) false, Ok tt)
               | [] => (mkWal (seg_size w) (ro w) (cur w) f (last_app w) (last_app w) false, Ok tt)
               end) = mkWal (seg_size w) (ro w) (cur w) f (last_app w) (last_app w) false
          /\ snd (match rev (ro w) with
               | s :: _ => if (length (recs s) =? 0)%nat
                           then (mkWal (seg_size w) (ro w) (cur w) (first w) (last_app w) (last_syn w) true, Err EDataCorrupted)
                           else (mkWal (seg_size w) (ro w) (cur w) f (last_app w) (last_app w) false, Ok tt)
               | [] => (mkWal (seg_size w) (ro w) (cur w) f (last_app w) (last_app w) false, Ok tt)
               end) = Ok tt) as [-> ->].
  { destruct (rev (ro w)); [auto|]. rewrite Hlast. auto. }
  pose proof (inv_last_ge w H) as Hlge.
  assert (f = if last_app w =? -1 then -1 else phys_lo w) as Hf.
  { unfold f, phys_lo. destruct (ro w) as [|s r] eqn:Er.
    - cbn [hd]. destruct (Z.eqb_spec (last_app w) (-1)); destruct (Z.leb_spec 0 (last_app w)); try lia; reflexivity.
    - cbn [hd]. destruct (Z.eqb_spec (last_app w) (-1)) as [E|E]; [|reflexivity].
      destruct (inv_first_empty w H E) as [_ [_ [Hro _]]]. congruence. }
  clearbody f. subst f.
  pose proof (inv_last_off w H) as Hlo. cbn [abs phys] in Hlo.
  destruct (Z.eqb_spec (last_app w) (-1)) as [Ela|Ela].
  - destruct (inv_first_empty w H Ela) as [Ef [Es [Er Eb]]].
    pose proof (proj1 (inv_empty_phys w H) Ela) as Hph. cbn [abs phys] in Hph.
    split; [|split; [reflexivity|split; [reflexivity|split]]].
    + pose proof (proj1 (inv_empty_cur w H) Ela) as Hce.
      destruct H. constructor; cbn in *; auto; try lia. intros Hc. contradiction.
    + unfold abs, s_reopen, segs. cbn [ro cur first last_syn phys]. fold (segs w). rewrite Hph. cbn. rewrite Ela. reflexivity.
    + cbn. lia.
  - pose proof (inv_first_range w H Ela) as Hfr.
    destruct (phys_nonempty w H Ela) as [e0 [l0 [Hph He0]]]. cbn [abs phys] in Hph.
    split; [|split; [reflexivity|split; [reflexivity|split]]].
    + apply inv_build; fold (phys_lo w); try lia.
      * exact (i_sz w H).
      * exact (i_segs w H).
      * exact (i_ne w H).
      * unfold nonempty. intros E. apply Ela, (inv_empty_cur w H), E.
      * exact (i_chain w H).
      * exact (i_last w H).
    + unfold abs, s_reopen, segs. cbn [ro cur first last_syn phys]. fold (segs w). rewrite Hlo, Hph, He0. reflexivity.
    + cbn. lia.
Qed.

(* ------------------------------------------------------------------ *)
(* readers                                                             *)

Lemma read_window w a b :
  Inv w -> phys_lo w <= a -> b <= last_app w ->
  Forall2 (fun i e => read_at w i = Ok e) (zseq a (Z.to_nat (b - a + 1)))
          (filter (fun e => (a <=? e_off e) && (e_off e <=? b)) (phys (abs w))).
Proof.
  intros H Ha Hb. rewrite (contig_window _ _ a b (inv_contig w H) Ha).
  destruct (Z.to_nat (b - a + 1)) as [|n] eqn:En; [constructor|].
  rewrite <- En. apply read_run; [assumption|assumption|lia].
Qed.

Lemma read_forward_refines w a :
  Inv w -> -1 <= a -> read_forward w a = s_read_forward (abs w) a.
Proof.
  intros H Ha. unfold read_forward, s_read_forward. cbn [abs sfirst].
  destruct (Z.ltb_spec (a + 1) (first w)) as [Hlt|Hge]; [reflexivity|]. f_equal.
  assert (phys_lo w <= a + 1) as Hlo.
  { destruct (Z.eq_dec (last_app w) (-1)) as [E|E].
    - destruct (inv_first_empty w H E) as [_ [_ [Er Eb]]]. unfold phys_lo. rewrite Er. cbn [hd]. lia.
    - pose proof (inv_first_range w H E). lia. }
  pose proof (read_window w (a + 1) (last_syn w) H Hlo (proj2 (i_syn w H))) as Hw.
  replace (last_syn w - (a + 1) + 1) with (last_syn w - a) in Hw by lia.
  apply read_all_ok in Hw. rewrite Hw. reflexivity.
Qed.

Lemma read_backward_refines w :
  Inv w -> read_backward w = s_read_backward (abs w).
Proof.
  intros H. unfold read_backward, s_read_backward. cbn [abs sfirst].
  destruct (Z.eqb_spec (first w) (-1)) as [E|E]; [reflexivity|].
  assert (last_app w <> -1) as Ela.
  { intros Ela. destruct (inv_first_empty w H Ela) as [Ef _]. contradiction. }
  pose proof (inv_first_range w H Ela) as Hfr.
  pose proof (read_window w (first w) (last_syn w) H ltac:(lia) (proj2 (i_syn w H))) as Hw.
  apply Forall2_rev, read_all_ok in Hw. rewrite Hw. reflexivity.
Qed.

(* ------------------------------------------------------------------ *)
(* one step, then any run                                              *)

Lemma step_refines w o :
  Inv w -> valid_op (seg_size w) o ->
  Inv (fst (step w o)) /\ seg_size (fst (step w o)) = seg_size w /\
  s_step (abs w) (annotate_op w o) = (abs (fst (step w o)), snd (step w o)).
Proof.
  intros H Hv. destruct o as [p e|p e| |x| |n r c| |a| |].
  - (* AppendAsync *)
    destruct Hv as [Hp Hfit]. destruct (append_async_refines w p e H Hp Hfit) as [Hi [Hsz Hs]].
    cbn [step annotate_op s_step]. rewrite Hs. destruct (append_async w p e). cbn [fst snd] in *. auto.
  - (* Append *)
    destruct Hv as [Hp Hfit]. destruct (append_async_refines w p e H Hp Hfit) as [Hi [Hsz Hs]].
    cbn [step annotate_op s_step]. unfold append, s_append. rewrite Hs.
    destruct (append_async w p e) as [w' [[]|x]]; cbn [fst snd] in *.
    + destruct (sync_refines w' Hi) as [Hi' Hs']. rewrite <- Hs'. auto.
    + auto.
  - (* Sync *)
    destruct (sync_refines w H) as [Hi Hs]. cbn [step annotate_op s_step fst snd]. rewrite Hs. auto.
  - (* Truncate *)
    destruct (truncate_refines w x H) as [Hi [Hsz Hs]].
    cbn [step annotate_op s_step]. rewrite Hs. destruct (truncate w x). cbn [fst snd] in *. auto.
  - (* Clear *)
    cbn [step annotate_op s_step fst snd]. rewrite clear_init. split; [apply inv_init, (i_sz w H)|]. auto.
  - (* Trim *)
    destruct (trim_refines w n r c H) as [Hi [Hsz Hs]].
    cbn [step]. rewrite Hs. destruct (do_trim w n r c). cbn [fst snd] in *. auto.
  - (* Reopen *)
    destruct (reopen_refines w H) as [Hi [Hsz [Hr [Hs _]]]].
    cbn [step annotate_op s_step]. rewrite <- Hs. destruct (reopen w). cbn [fst snd] in *. subst. auto.
  - (* ReadFwd *)
    cbn [step annotate_op s_step fst snd]. rewrite (read_forward_refines w a H Hv). auto.
  - (* ReadAll *)
    cbn [step annotate_op s_step fst snd abs sfirst].
    rewrite (read_forward_refines w (Z.max (first w - 1) (-1)) H ltac:(lia)). auto.
  - (* ReadBwd *)
    cbn [step annotate_op s_step fst snd]. rewrite (read_backward_refines w H). auto.
Qed.

Theorem refines_list_gen ops : forall w,
  Inv w -> Forall (valid_op (seg_size w)) ops ->
  Inv (fst (run w ops)) /\
  s_run (abs w) (annotate w ops) = (abs (fst (run w ops)), snd (run w ops)).
Proof.
  induction ops as [|o ops IH]; intros w H Hv; [cbn; auto|].
  inversion Hv as [|? ? Hvo Hvs]; subst.
  destruct (step_refines w o H Hvo) as [Hi [Hsz Hs]].
  cbn [run annotate s_run]. rewrite Hs.
  destruct (step w o) as [w1 x] eqn:Est. cbn [fst snd] in *.
  rewrite <- Hsz in Hvs. destruct (IH w1 Hi Hvs) as [Hi2 Hs2].
  rewrite Hs2. destruct (run w1 ops) as [w2 xs]. cbn [fst snd] in *. auto.
Qed.
