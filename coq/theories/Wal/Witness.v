(* Concrete witnesses: what the code did BEFORE the repairs (and still does for entries that cannot
   fit a segment, and for non-monotone timestamps), and non-vacuity of the main theorems. *)
From Coq Require Import List ZArith NArith Bool Lia.
From Oxia.Wal Require Import Model Spec Lists Inv Preserve Trim Refine Proofs.
Import ListNotations.
Open Scope Z_scope.

Definition ent (o : Z) : entry := mkEntry 1 o (1000 + o) 7.
Definition appends (p : N) (from : Z) (n : nat) : list op := map (fun o => Append p (ent o)) (zseq from n).

Definition last_obs (xs : list obs) : option obs := match rev xs with [] => None | x :: _ => Some x end.

Lemma valid_appends sz p from n : (0 < p)%N -> (header_size + p <= sz)%N -> Forall (valid_op sz) (appends p from n).
Proof.
  intros Hp Hf. unfold appends. revert from; induction n as [|n IH]; intros from; cbn; constructor; [split; assumption|apply IH].
Qed.

(* O-2.  Segment size 128, records of 12+35 bytes: two per segment.  Twelve appends, TruncateLog(1)
   (the target lies in the first, read-only, segment), append at offset 2. *)
Definition o2_ops : list op := appends 35 0 12 ++ [Truncate 1; Append 35 (ent 2); ReadAll].

Lemma o2_ops_valid : Forall (valid_op 128) o2_ops.
Proof.
  unfold o2_ops. apply Forall_app. split; [apply valid_appends; cbn; lia|].
  repeat constructor; cbn; lia.
Qed.

(* the code before the repair: TruncateLog answers 1 but LastOffset stays 11 and the append at 2 is refused;
   the list specification (and the repaired code) accept it *)
Lemma truncate_cross_segment_old_refuted :
  exists sz ops, Forall (valid_op sz) ops /\
    nth_error (snd (run_old (init sz) ops)) 12 = Some (OTrunc (Ok 1), 0, 11) /\
    nth_error (snd (run_old (init sz) ops)) 13 = Some (ODone (Err EInvalidNext), 0, 11) /\
    nth_error (snd (s_run sinit (map SOp ops))) 12 = Some (OTrunc (Ok 1), 0, 1) /\
    nth_error (snd (s_run sinit (map SOp ops))) 13 = Some (ODone (Ok tt), 0, 2) /\
    snd (run (init sz) ops) = snd (s_run sinit (map SOp ops)).
Proof.
  exists 128%N, o2_ops. split; [exact o2_ops_valid|]. vm_compute. repeat split; reflexivity.
Qed.

(* before the repair: a target below every segment (the log starts at 5) never returns: Clear() is called
   with the mutex held *)
Lemma truncate_below_segments_old_hangs :
  last_obs (snd (run_old (init 128) (appends 35 5 4 ++ [Truncate 3]))) = Some (OTrunc (Err EHang), 5, 8) /\
  last_obs (snd (run (init 128) (appends 35 5 4 ++ [Truncate 3]))) = Some (OTrunc (Ok (-1)), -1, -1).
Proof. vm_compute. split; reflexivity. Qed.

(* before the repair: the reverse reader on a log whose only entry (offset 5) is not synced yet says HasNext
   and then fails; the list has nothing to show *)
Lemma reverse_reader_unsynced_old_refuted :
  last_obs (snd (run_old (init 128) [AppendAsync 35 (ent 5); ReadBwd])) = Some (ORead (Ok ([], Some EOutOfBounds)), 5, -1) /\
  last_obs (snd (run (init 128) [AppendAsync 35 (ent 5); ReadBwd])) = Some (ORead (Ok ([], None)), 5, -1).
Proof. vm_compute. split; reflexivity. Qed.

(* Still the case (recorded as a known finding, outside [valid_op]): an entry that cannot fit an empty
   segment.  The second oversize append rolls over an EMPTY segment: the read-only group then lists the
   base offset of the current segment; a later TruncateLog into a read-only segment deletes that file
   and fails to open it, leaving the WAL without a usable current segment: the next valid append panics. *)
Definition big : entry := mkEntry 1 5 1005 9.
Definition oversize_ops : list op :=
  appends 35 0 5 ++ [Append 200 big; Append 200 big; Append 35 (ent 5); Truncate 1; Append 35 (ent 6)].

Lemma oversize_entry_wrecks_refuted :
  ~ Forall (valid_op 128) oversize_ops /\
  nth_error (snd (run (init 128) oversize_ops)) 5 = Some (ODone (Err ESegmentFull), 0, 4) /\
  nth_error (snd (run (init 128) oversize_ops)) 6 = Some (ODone (Err ESegmentFull), 0, 4) /\
  nth_error (snd (run (init 128) oversize_ops)) 8 = Some (OTrunc (Err EIO), 0, 5) /\
  nth_error (snd (run (init 128) oversize_ops)) 9 = Some (ODone (Err EPanic), 0, 5).
Proof.
  split.
  - intros Hv. unfold oversize_ops in Hv. apply Forall_app in Hv. destruct Hv as [_ Hv].
    inversion Hv as [|? ? Hfirst _]; subst. cbn in Hfirst. destruct Hfirst as [_ Hfit]. lia.
  - vm_compute. repeat split; reflexivity.
Qed.

(* Without monotone timestamps the expiry clause of trim_safe fails: entries 0..3 with timestamps
   1000, 2000, 1000, 1000, cutoff 1500: the search lands on offset 3 and hides entry 1, which is not expired. *)
Definition nm_ops : list op :=
  [Append 35 (mkEntry 1 0 1000 0); Append 35 (mkEntry 1 1 2000 0); Append 35 (mkEntry 1 2 1000 0);
   Append 35 (mkEntry 1 3 1000 0)].

Lemma trim_nonmonotone_refuted :
  let w := fst (run (init 128) nm_ops) in
  let w' := fst (do_trim w 1600 100 10) in
  Inv w /\ first w = 0 /\ first w' = 3 /\
  exists e, In e (phys (abs w)) /\ e_off e < first w' /\ ~ e_ts e <= 1600 - 100.
Proof.
  split.
  - apply (inv_reachable 128 nm_ops); [lia|]. repeat constructor; cbn; lia.
  - split; [vm_compute; reflexivity|]. split; [vm_compute; reflexivity|].
    exists (mkEntry 1 1 2000 0). split; [vm_compute; right; left; reflexivity|]. split; [vm_compute; reflexivity|].
    cbn [e_ts]. lia.
Qed.

(* ------------------------------------------------------------------ *)
(* non-vacuity: the hypotheses of the theorems hold on states with several segments, trims and reopen *)

Definition nv_ops : list op :=
  appends 35 0 9 ++ [Trim 1106 100 5; ReadAll; Reopen; ReadAll; Truncate 4; Append 69 (ent 5); ReadBwd].

Example refines_list_nonvacuous :
  Forall (valid_op 128) nv_ops /\
  length (ro (fst (run (init 128) (appends 35 0 9)))) = 4%nat /\
  (* the trim moved first to the commit offset and dropped two whole segments; reopen lowers first to a segment base *)
  nth_error (snd (run (init 128) nv_ops)) 9 = Some (ODone (Ok tt), 5, 8) /\
  nth_error (snd (run (init 128) nv_ops)) 11 = Some (ODone (Ok tt), 4, 8) /\
  (* truncation into a read-only segment, then an append that fills that segment exactly (47 + 12 + 69 = 128) *)
  nth_error (snd (run (init 128) nv_ops)) 13 = Some (OTrunc (Ok 4), 4, 4) /\
  nth_error (snd (run (init 128) nv_ops)) 14 = Some (ODone (Ok tt), 4, 5) /\
  length (ro (fst (run (init 128) nv_ops))) = 0%nat /\ file_off (cur (fst (run (init 128) nv_ops))) = 128%N /\
  s_run sinit (annotate (init 128) nv_ops) = (abs (fst (run (init 128) nv_ops)), snd (run (init 128) nv_ops)).
Proof.
  assert (Forall (valid_op 128) nv_ops) as Hv.
  { unfold nv_ops. apply Forall_app. split; [apply valid_appends; cbn; lia|]. repeat constructor; cbn; lia. }
  split; [exact Hv|]. split; [vm_compute; reflexivity|].
  split; [vm_compute; reflexivity|]. split; [vm_compute; reflexivity|].
  split; [vm_compute; reflexivity|]. split; [vm_compute; reflexivity|].
  split; [vm_compute; reflexivity|]. split; [vm_compute; reflexivity|].
  apply refines_list; [lia|exact Hv].
Qed.

Example trim_safe_nonvacuous :
  let w := fst (run (init 128) (appends 35 0 9)) in
  Inv w /\ ts_mono (phys (abs w)) /\ first (fst (do_trim w 1106 100 5)) = 5 /\ first w = 0.
Proof.
  split; [apply (inv_reachable 128); [lia|apply valid_appends; cbn; lia]|].
  split; [|vm_compute; split; reflexivity].
  assert (Forall (fun e => e_ts e = 1000 + e_off e)
                 (phys (abs (fst (run (init 128) (appends 35 0 9)))))) as Hall.
  { vm_compute. repeat constructor. }
  rewrite Forall_forall in Hall.
  intros a b Ha Hb Hab. rewrite (Hall a Ha), (Hall b Hb). lia.
Qed.
