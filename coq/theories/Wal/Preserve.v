(* Every operation preserves the invariant and is, on the abstraction, the list operation. *)
From Coq Require Import List ZArith NArith Bool Lia.
From Oxia.Wal Require Import Model Spec Lists Inv.
Import ListNotations.
Open Scope Z_scope.

(* ------------------------------------------------------------------ *)
(* building the invariant                                              *)

Lemma inv_build sz r c f la ls :
  (sz < 2147483648)%N ->
  Forall (seg_ok sz) (r ++ [c]) -> Forall nonempty r -> nonempty c ->
  chain (base (hd c r)) (r ++ [c]) ->
  la + 1 = base (hd c r) + total_len (r ++ [c]) ->
  base (hd c r) <= f <= la -> -1 <= ls <= la -> (ls = -1 \/ f <= ls) ->
  Inv (mkWal sz r c f la ls false).
Proof.
  intros. constructor; cbn; auto.
  intros E. elim H2. exact E.
Qed.

Lemma hd_base_eq (c c' : segment) r : base c = base c' -> base (hd c r) = base (hd c' r).
Proof. destruct r; auto. Qed.

Lemma hd_snoc (c d : segment) r : base (hd c (r ++ [d])) = base (hd d r).
Proof. destruct r; reflexivity. Qed.

Lemma sum_sizes_app a b : sum_sizes (a ++ b) = (sum_sizes a + sum_sizes b)%N.
Proof. unfold sum_sizes. induction a as [|x a IH]; cbn [app fold_right]; [reflexivity|]. rewrite IH. lia. Qed.

Lemma sum_sizes_firstn_le k l : (sum_sizes (firstn k l) <= sum_sizes l)%N.
Proof.
  unfold sum_sizes. revert k; induction l as [|x l IH]; intros [|k]; cbn [firstn fold_right]; try lia.
  specialize (IH k). lia.
Qed.

Lemma has_space_spec sz s p :
  (sz < 2147483648)%N -> (file_off s <= sz)%N -> (header_size + p <= sz)%N ->
  has_space sz s p = (file_off s + header_size + p <=? sz)%N.
Proof.
  unfold has_space, U32, header_size. intros.
  rewrite (N.mod_small (file_off s + 12)) by lia. rewrite (N.mod_small p) by lia.
  rewrite N.mod_small by lia. reflexivity.
Qed.

(* appending to a segment that has room *)
Lemma seg_append_ok sz s p e :
  (sz < 2147483648)%N -> seg_ok sz s -> (0 < p)%N -> (header_size + p <= sz)%N ->
  e_off e = seg_last s + 1 -> (file_off s + header_size + p <= sz)%N ->
  let c := mkSeg (base s) (recs s ++ [(p, e)]) (file_off s + (header_size + p))%N in
  seg_append sz s p e = Ok c /\ seg_ok sz c /\ nonempty c /\ seg_len c = seg_len s + 1 /\
  seg_entries c = seg_entries s ++ [e].
Proof.
  intros Hsz [Hct [Hfo [Hle Hb]]] Hp Hfit Hoff Hroom c. unfold seg_append.
  destruct (N.eqb_spec p 0); [lia|].
  rewrite (has_space_spec sz s p Hsz Hle Hfit).
  destruct (N.leb_spec (file_off s + header_size + p) sz); [|lia]. cbn [negb].
  destruct (Z.eqb_spec (e_off e) (seg_last s + 1)); [|lia]. cbn [negb].
  split; [reflexivity|].
  assert (seg_entries c = seg_entries s ++ [e]) as Hent.
  { unfold seg_entries, c. cbn [recs]. rewrite map_app. reflexivity. }
  split; [|split; [|split]].
  - unfold seg_ok, seg_contig. rewrite Hent. repeat split; try assumption.
    + apply contig_app. split; [exact Hct|]. rewrite seg_len_entries. cbn [contig c base].
      unfold seg_last in Hoff. split; [lia|exact I].
    + cbn [c file_off recs]. rewrite sum_sizes_app, Hfo. cbn. unfold rec_size. cbn. lia.
    + cbn [c file_off]. lia.
  - unfold nonempty, c. cbn [recs]. destruct (recs s); discriminate.
  - unfold seg_len, c. cbn [recs]. rewrite app_length. cbn. lia.
  - exact Hent.
Qed.

Lemma seg_append_full sz s p e :
  (sz < 2147483648)%N -> seg_ok sz s -> (0 < p)%N -> (header_size + p <= sz)%N ->
  ~ (file_off s + header_size + p <= sz)%N ->
  seg_append sz s p e = Err ESegmentFull /\ nonempty s.
Proof.
  intros Hsz [Hct [Hfo [Hle Hb]]] Hp Hfit Hroom. unfold seg_append.
  destruct (N.eqb_spec p 0); [lia|].
  rewrite (has_space_spec sz s p Hsz Hle Hfit).
  destruct (N.leb_spec (file_off s + header_size + p) sz); [lia|]. cbn [negb].
  split; [reflexivity|]. unfold nonempty. intros E. rewrite E in Hfo. cbn in Hfo. lia.
Qed.

Lemma empty_seg_ok sz b : 0 <= b -> seg_ok sz (empty_seg b).
Proof. intros. repeat split; cbn; try lia. Qed.

(* ------------------------------------------------------------------ *)
(* append                                                              *)

Lemma append_async_ok w p e :
  Inv w -> (0 < p)%N -> (header_size + p <= seg_size w)%N ->
  0 <= e_off e -> (last_app w = -1 \/ e_off e = last_app w + 1) ->
  exists w', append_async w p e = (w', Ok tt) /\ Inv w' /\ seg_size w' = seg_size w /\
    flat (segs w') = flat (segs w) ++ [e] /\
    first w' = (if first w =? -1 then e_off e else first w) /\
    last_syn w' = last_syn w /\ last_app w' = e_off e.
Proof.
  intros H Hp Hfit Hoff Hnext.
  pose proof (i_sz w H) as Hsz. pose proof (inv_cur_ok w H) as Hcok. pose proof (inv_ro_ok w H) as Hrok.
  pose proof (i_syn w H) as Hsyn. pose proof (i_syn_first w H) as Hsf. pose proof (i_ne w H) as Hne.
  pose proof (inv_seg_last_cur w H) as Hsl. pose proof (i_chain w H) as Hch. pose proof (i_last w H) as Hla.
  pose proof (inv_lo_nonneg w H) as Hlo.
  unfold append_async.
  destruct (Z.ltb_spec (e_off e) 0); [lia|].
  assert (negb (last_app w =? -1) && negb (e_off e =? last_app w + 1) = false) as ->.
  { destruct Hnext as [->| ->]; [reflexivity|]. rewrite Z.eqb_refl. apply andb_false_r. }
  rewrite (i_wrecked w H).
  destruct (Z.eqb_spec (last_app w) (-1)) as [Ela|Ela].
  - (* empty log: any offset >= 0, the segment is (re)created at that offset *)
    destruct (inv_first_empty w H Ela) as [Ef [Es [Er Eb]]].
    pose proof (proj1 (inv_empty_cur w H) Ela) as Ec.
    set (c0 := cur (if true && negb (e_off e =? 0) && (base (cur w) =? 0)
                    then set_cur w (empty_seg (e_off e)) else w)).
    assert (base c0 = e_off e /\ recs c0 = [] /\ seg_ok (seg_size w) c0) as [Hb0 [Hr0 Hok0]].
    { unfold c0. rewrite Eb. cbn [Z.eqb andb]. destruct (Z.eqb_spec (e_off e) 0) as [E0|E0]; cbn [negb].
      - rewrite E0. auto.
      - cbn. repeat split; cbn; try lia. }
    clear Hsl Hch Hla Hsyn Hsf Hne Hrok Hcok Hlo Hnext. pose proof (i_wrecked w H) as Hwr.
    destruct w as [sz r c f la ls wr]. cbn [seg_size ro cur first last_app last_syn wrecked] in *. subst r f ls la wr.
    assert (file_off c0 = 0%N) as Hf0. { destruct Hok0 as [_ [Hfo _]]. rewrite Hfo, Hr0. reflexivity. }
    destruct (seg_append_ok sz c0 p e Hsz Hok0 Hp Hfit) as [Happ [Hcok' [Hcne [Hlen Hent]]]].
    { unfold seg_last, seg_len. rewrite Hr0, Hb0. cbn. lia. }
    { rewrite Hf0. lia. }
    set (c1 := mkSeg (base c0) (recs c0 ++ [(p, e)]) (file_off c0 + (header_size + p))%N) in *.
    assert (seg_len c1 = 1) as Hlen1. { rewrite Hlen. unfold seg_len. rewrite Hr0. reflexivity. }
    exists (mkWal sz [] c1 (e_off e) (e_off e) (-1) false).
    split.
    { cbn [Z.eqb andb] in *. unfold c0 in *. destruct (negb (e_off e =? 0) && (base c =? 0));
        cbn [set_cur seg_size cur ro first last_app last_syn wrecked] in *; rewrite Happ; reflexivity. }
    split; [|split; [reflexivity|split; [|cbn; auto]]].
    + apply inv_build; cbn [hd app base c1 total_len]; try assumption; try lia.
      * constructor; [assumption|constructor].
      * constructor.
      * split; [reflexivity|exact I].
    + unfold segs. cbn [ro cur app]. unfold flat. cbn [flat_map]. rewrite !app_nil_r, Hent.
      unfold seg_entries at 2. rewrite Ec. unfold seg_entries. rewrite Hr0. reflexivity.
  - (* non-empty log: the entry goes to the current segment, after a rollover when it does not fit *)
    assert (e_off e = last_app w + 1) as Eoff by (destruct Hnext; [contradiction|assumption]).
    cbn [andb].
    pose proof (inv_first_range w H Ela) as Hfr.
    assert (first w =? -1 = false) as Hfne by (apply Z.eqb_neq; lia).
    destruct (N.le_gt_cases (file_off (cur w) + header_size + p) (seg_size w)) as [Hroom|Hroom].
    + (* room in the current segment *)
      destruct (seg_append_ok (seg_size w) (cur w) p e Hsz Hcok Hp Hfit) as [Happ [Hcok' [Hcne [Hlen Hent]]]];
        [lia|assumption|].
      rewrite Happ.
      set (c1 := mkSeg (base (cur w)) (recs (cur w) ++ [(p, e)]) (file_off (cur w) + (header_size + p))%N) in *.
      eexists. split; [reflexivity|].
      unfold appended. rewrite Hfne. cbn [seg_size first last_syn last_app].
      split; [|split; [reflexivity|split; [|auto]]].
      * unfold segs in *. rewrite (i_wrecked w H).
        assert (base (hd c1 (ro w)) = phys_lo w) as Hhd by (apply hd_base_eq; reflexivity).
        apply inv_build; rewrite ?Hhd; try assumption; try lia.
        -- apply Forall_app. split; [assumption|constructor; [assumption|constructor]].
        -- apply chain_app. apply chain_app in Hch. destruct Hch as [Hc1 [Hc2 _]].
           split; [assumption|]. split; [exact Hc2|exact I].
        -- rewrite total_len_app in *. cbn [total_len] in *. lia.
      * unfold segs. cbn [ro cur]. rewrite !flat_app. unfold flat at 2 4. cbn [flat_map].
        rewrite !app_nil_r, Hent, app_assoc. reflexivity.
    + (* rollover *)
      destruct (seg_append_full (seg_size w) (cur w) p e Hsz Hcok Hp Hfit) as [Hfull Hcne]; [lia|].
      rewrite Hfull. unfold rollover. cbn [seg_size cur].
      rewrite (inv_filter_ro w H).
      assert (seg_ok (seg_size w) (empty_seg (last_app w + 1))) as Heok by (apply empty_seg_ok; lia).
      assert (e_off e = seg_last (empty_seg (last_app w + 1)) + 1) as Heoff by (unfold seg_last, seg_len; cbn; lia).
      assert (file_off (empty_seg (last_app w + 1)) + header_size + p <= seg_size w)%N as Heroom by (cbn [file_off empty_seg]; lia).
      destruct (seg_append_ok (seg_size w) (empty_seg (last_app w + 1)) p e Hsz Heok Hp Hfit Heoff Heroom)
        as [Happ [Hcok' [Hcne' [Hlen Hent]]]].
      rewrite Happ.
      set (c1 := mkSeg (base (empty_seg (last_app w + 1))) (recs (empty_seg (last_app w + 1)) ++ [(p, e)])
                       (file_off (empty_seg (last_app w + 1)) + (header_size + p))%N) in *.
      eexists. split; [reflexivity|].
      unfold appended. cbn [first last_syn last_app seg_size ro wrecked]. rewrite Hfne.
      split; [|split; [reflexivity|split; [|auto]]].
      * rewrite (i_wrecked w H).
        assert (base (hd c1 (ro w ++ [cur w])) = phys_lo w) as Hhd by (apply hd_snoc).
        apply inv_build; rewrite ?Hhd; try assumption; try lia.
        -- apply Forall_app. split; [exact (i_segs w H)|constructor; [assumption|constructor]].
        -- apply Forall_app. split; [assumption|constructor; [assumption|constructor]].
        -- apply chain_app. split; [exact Hch|]. split; [|exact I]. cbn [c1 base empty_seg]. unfold segs in Hla. lia.
        -- rewrite total_len_app. cbn [total_len]. unfold segs in Hla.
           assert (seg_len c1 = 1) as Hl1 by (rewrite Hlen; reflexivity). lia.
      * unfold segs. cbn [ro cur]. rewrite (flat_app (ro w ++ [cur w])). unfold flat at 2. cbn [flat_map].
        rewrite app_nil_r, Hent. reflexivity.
Qed.

(* ------------------------------------------------------------------ *)
(* truncate                                                            *)

Lemma seg_truncate_ok sz s o :
  seg_ok sz s -> base s <= o <= seg_last s ->
  exists c, seg_truncate s o = Ok c /\ seg_ok sz c /\ nonempty c /\ base c = base s /\
            seg_len c = o - base s + 1 /\
            seg_entries c = filter (fun e => e_off e <=? o) (seg_entries s).
Proof.
  intros [Hct [Hfo [Hle Hb]]] Ho. unfold seg_truncate.
  destruct (Z.ltb_spec o (base s)); [lia|]. destruct (Z.ltb_spec (seg_last s) o); [lia|]. cbn [orb].
  eexists. split; [reflexivity|].
  set (k := Z.to_nat (o - base s + 1)).
  assert (k <= length (recs s))%nat as Hk by (unfold seg_last, seg_len in Ho; lia).
  assert (seg_entries (mkSeg (base s) (firstn k (recs s)) (sum_sizes (firstn k (recs s))))
          = filter (fun e => e_off e <=? o) (seg_entries s)) as Hent.
  { unfold seg_entries at 1. cbn [recs]. rewrite <- firstn_map. symmetry. apply (contig_filter_le _ _ _ Hct). }
  split; [|split; [|split; [reflexivity|split; [|exact Hent]]]].
  - unfold seg_ok, seg_contig. rewrite Hent. cbn [base file_off recs]. repeat split; try assumption.
    + rewrite (contig_filter_le _ _ _ Hct). apply contig_firstn, Hct.
    + pose proof (sum_sizes_firstn_le k (recs s)). lia.
  - unfold nonempty. cbn [recs]. intros E. apply (f_equal (@length _)) in E.
    rewrite firstn_length_le in E by assumption. cbn in E. lia.
  - unfold seg_len. cbn [recs]. rewrite firstn_length_le by assumption. lia.
Qed.

Lemma trunc_poll_ok w rro o lo :
  chain lo (rev rro) -> Forall (seg_ok (seg_size w)) (rev rro) -> Forall nonempty (rev rro) ->
  lo <= o < lo + total_len (rev rro) ->
  exists A s B c, rev rro = A ++ s :: B /\ seg_truncate s o = Ok c /\ base s <= o <= seg_last s /\
                  trunc_poll w rro o = (truncated w A c o, Ok o).
Proof.
  induction rro as [|s rest IH]; intros Hch Hok Hne Ho.
  - cbn in Ho. lia.
  - cbn [rev] in *. apply chain_app in Hch. destruct Hch as [Hch1 [Hbs _]].
    apply Forall_app in Hok. destruct Hok as [Hok1 Hoks]. inversion Hoks as [|? ? Hsok _]; subst.
    apply Forall_app in Hne. destruct Hne as [Hne1 Hnes]. inversion Hnes as [|? ? Hsne _]; subst.
    rewrite total_len_app in Ho. cbn [total_len] in Ho.
    cbn [trunc_poll].
    assert ((length (recs s) =? 0)%nat = false) as ->.
    { unfold nonempty in Hsne. destruct (recs s); [congruence|reflexivity]. }
    destruct (Z.leb_spec (base s) o) as [Hin|Hout].
    + destruct (seg_truncate_ok _ s o Hsok) as [c [Htr _]]; [unfold seg_last; lia|].
      exists (rev rest), s, [], c. rewrite Htr. repeat split; try assumption; unfold seg_last; lia.
    + destruct (IH Hch1 Hok1 Hne1 ltac:(lia)) as [A [s' [B [c [Hrev [Htr [Hb Hp]]]]]]].
      exists A, s', (B ++ [s]), c. rewrite Hrev, <- app_assoc. repeat split; try assumption; lia.
Qed.

Lemma chain_hd_base b A c : chain b (A ++ [c]) -> base (hd c A) = b.
Proof. destruct A; cbn; tauto. Qed.

Lemma truncate_ok w o :
  Inv w -> last_app w <> -1 -> first w <= o <= last_app w ->
  exists w', truncate w o = (w', Ok o) /\ Inv w' /\ seg_size w' = seg_size w /\
    flat (segs w') = filter (fun e => e_off e <=? o) (flat (segs w)) /\
    first w' = first w /\ last_syn w' = o /\ last_app w' = o.
Proof.
  intros H Ela Ho.
  pose proof (i_sz w H) as Hsz. pose proof (inv_cur_ok w H) as Hcok. pose proof (inv_ro_ok w H) as Hrok.
  pose proof (i_ne w H) as Hne. pose proof (inv_seg_last_cur w H) as Hsl. pose proof (i_chain w H) as Hch.
  pose proof (i_last w H) as Hla. pose proof (inv_lo_nonneg w H) as Hlo. pose proof (inv_first_range w H Ela) as Hfr.
  pose proof (inv_cur_base w H) as Hcb. pose proof (inv_chain_ro w H) as Hchro. pose proof (inv_contigs w H) as Hcts.
  unfold truncate. rewrite (i_wrecked w H).
  destruct (Z.eqb_spec o (-1)); [lia|]. destruct (Z.eqb_spec (last_app w) (-1)); [lia|].
  destruct (Z.ltb_spec o (first w)); [lia|].
  unfold segs in *.
  destruct (Z.leb_spec (base (cur w)) o) as [Hin|Hout].
  - (* inside the current segment *)
    destruct (seg_truncate_ok _ (cur w) o Hcok ltac:(lia)) as [c [Htr [Hcok' [Hcne [Hcb' [Hlen Hent]]]]]].
    rewrite Htr. eexists. split; [reflexivity|]. unfold truncated. cbn [seg_size first last_syn last_app ro cur].
    rewrite (i_wrecked w H).
    split; [|split; [reflexivity|split; [|auto]]].
    + assert (base (hd c (ro w)) = phys_lo w) as Hhd by (apply hd_base_eq; assumption).
      apply inv_build; rewrite ?Hhd; try assumption; try lia.
      * apply Forall_app. split; [assumption|constructor; [assumption|constructor]].
      * apply chain_app. split; [assumption|]. split; [lia|exact I].
      * rewrite total_len_app. cbn [total_len]. lia.
    + rewrite !flat_app, filter_app. unfold flat at 2 4. cbn [flat_map]. rewrite !app_nil_r, Hent. f_equal.
      symmetry. apply filter_all. apply Forall_forall. intros e He.
      apply Forall_app in Hcts. destruct Hcts as [Hctro _].
      pose proof (flat_bounds _ _ _ Hchro Hctro He). apply Z.leb_le. lia.
  - (* the target is in a read-only segment *)
    destruct (trunc_poll_ok w (rev (ro w)) o (phys_lo w)) as [A [s [B [c [Hrev [Htr [Hb Hp]]]]]]];
      rewrite ?rev_involutive; try assumption; [lia|].
    rewrite rev_involutive in Hrev. rewrite Hp.
    eexists. split; [reflexivity|]. unfold truncated. cbn [seg_size first last_syn last_app ro cur].
    rewrite (i_wrecked w H).
    rewrite Hrev in *.
    apply Forall_app in Hrok. destruct Hrok as [HokA HoksB]. inversion HoksB as [|? ? Hsok HokB]; subst.
    apply Forall_app in Hne. destruct Hne as [HneA HnesB]. inversion HnesB as [|? ? Hsne HneB]; subst.
    destruct (seg_truncate_ok _ s o Hsok Hb) as [c' [Htr' [Hcok' [Hcne [Hcb' [Hlen Hent]]]]]].
    rewrite Htr in Htr'. injection Htr' as <-.
    rewrite <- app_assoc in Hch, Hcts. cbn [app] in Hch, Hcts.
    apply chain_app in Hch. destruct Hch as [HchA [Hbs HchB]]. fold chain in HchB.
    apply Forall_app in Hcts. destruct Hcts as [HctA HctsB]. inversion HctsB as [|? ? Hscts HctB]; subst.
    assert (chain (phys_lo w) (A ++ [c])) as Hch'.
    { apply chain_app. split; [assumption|]. split; [lia|exact I]. }
    split; [|split; [reflexivity|split; [|auto]]].
    + pose proof (chain_hd_base _ _ _ Hch') as Hhd.
      apply inv_build; rewrite ?Hhd; try assumption; try lia.
      * apply Forall_app. split; [assumption|constructor; [assumption|constructor]].
      * rewrite total_len_app. cbn [total_len]. lia.
    + rewrite <- app_assoc. cbn [app]. rewrite !flat_app, filter_app.
      change (flat (s :: B ++ [cur w])) with (seg_entries s ++ flat (B ++ [cur w])).
      rewrite filter_app, <- Hent. unfold flat at 2. cbn [flat_map]. rewrite app_nil_r.
      rewrite (filter_all _ (flat A)), (filter_none _ (flat (B ++ [cur w]))), app_nil_r; [reflexivity| |].
      * apply Forall_forall. intros e He. pose proof (flat_bounds _ _ _ HchB HctB He).
        apply Z.leb_gt. unfold seg_last in Hb. lia.
      * apply Forall_forall. intros e He. pose proof (flat_bounds _ _ _ HchA HctA He). apply Z.leb_le. lia.
Qed.
