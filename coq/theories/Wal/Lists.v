(* Contiguous entry lists, and the arithmetic of segment chains. *)
From Coq Require Import List ZArith NArith Bool Lia.
From Oxia.Wal Require Import Model Spec.
Import ListNotations.
Open Scope Z_scope.

(* ------------------------------------------------------------------ *)
(* generic list facts                                                  *)

Lemma filter_all {A} (f : A -> bool) l : Forall (fun x => f x = true) l -> filter f l = l.
Proof. induction 1; cbn; [reflexivity|]. rewrite H, IHForall. reflexivity. Qed.

Lemma filter_none {A} (f : A -> bool) l : Forall (fun x => f x = false) l -> filter f l = [].
Proof. induction 1; cbn; [reflexivity|]. rewrite H. exact IHForall. Qed.

Lemma filter_andb {A} (p q : A -> bool) l :
  filter (fun x => p x && q x) l = filter q (filter p l).
Proof.
  induction l as [|a l IH]; cbn; [reflexivity|].
  destruct (p a); cbn; [destruct (q a); cbn; rewrite IH; reflexivity | exact IH].
Qed.

Lemma nth_error_skipn {A} (l : list A) k e :
  nth_error l k = Some e -> skipn k l = e :: skipn (S k) l.
Proof.
  revert k; induction l as [|a l IH]; intros [|k] H; cbn in *; try discriminate.
  - inversion H; reflexivity.
  - apply IH in H. rewrite H. destruct l; reflexivity.
Qed.

Lemma Forall2_rev {A B} (R : A -> B -> Prop) l1 l2 :
  Forall2 R l1 l2 -> Forall2 R (rev l1) (rev l2).
Proof.
  induction 1; cbn; [constructor|]. apply Forall2_app; [assumption|]. constructor; [assumption|constructor].
Qed.

(* ------------------------------------------------------------------ *)
(* contiguous offsets                                                  *)

Fixpoint contig (lo : Z) (l : list entry) : Prop :=
  match l with [] => True | e :: tl => e_off e = lo /\ contig (lo + 1) tl end.

Definition len {A} (l : list A) : Z := Z.of_nat (length l).

Lemma len_app {A} (a b : list A) : len (a ++ b) = len a + len b.
Proof. unfold len. rewrite app_length. lia. Qed.
Lemma len_nonneg {A} (a : list A) : 0 <= len a.
Proof. unfold len. lia. Qed.
Lemma len_cons {A} (x : A) l : len (x :: l) = 1 + len l.
Proof. unfold len. cbn [length]. lia. Qed.
Lemma len_nil {A} : len (@nil A) = 0.
Proof. reflexivity. Qed.
Lemma len_zero_nil {A} (l : list A) : len l = 0 -> l = [].
Proof. destruct l; [reflexivity|]. rewrite len_cons. pose proof (len_nonneg l). lia. Qed.

Lemma contig_app lo l1 l2 :
  contig lo (l1 ++ l2) <-> contig lo l1 /\ contig (lo + len l1) l2.
Proof.
  revert lo; induction l1 as [|e l1 IH]; intros lo; cbn [app contig].
  - rewrite len_nil, Z.add_0_r. tauto.
  - rewrite IH, len_cons. replace (lo + 1 + len l1) with (lo + (1 + len l1)) by lia. tauto.
Qed.

Lemma contig_bounds lo l e : contig lo l -> In e l -> lo <= e_off e < lo + len l.
Proof.
  revert lo; induction l as [|a l IH]; intros lo H Hin; [destruct Hin|].
  rewrite len_cons. pose proof (len_nonneg l). destruct H as [H1 H2]. destruct Hin as [->|Hin].
  - lia.
  - specialize (IH _ H2 Hin). lia.
Qed.

Lemma contig_nth lo l i :
  contig lo l -> lo <= i < lo + len l ->
  exists e, nth_error l (Z.to_nat (i - lo)) = Some e /\ e_off e = i.
Proof.
  revert lo; induction l as [|a l IH]; intros lo H Hi.
  - rewrite len_nil in Hi. lia.
  - rewrite len_cons in Hi. destruct H as [H1 H2].
    destruct (Z.eq_dec i lo) as [->|Hne].
    + rewrite Z.sub_diag. exists a. split; [reflexivity|assumption].
    + destruct (IH (lo + 1) H2 ltac:(lia)) as [e [He1 He2]]. exists e. split; [|assumption].
      replace (Z.to_nat (i - lo)) with (S (Z.to_nat (i - (lo + 1)))) by lia. exact He1.
Qed.

Lemma contig_skipn lo l k : contig lo l -> contig (lo + Z.of_nat k) (skipn k l).
Proof.
  revert lo k; induction l as [|a l IH]; intros lo [|k] H; cbn [skipn]; try exact I.
  - rewrite Z.add_0_r. exact H.
  - destruct H as [_ H]. replace (lo + Z.of_nat (S k)) with (lo + 1 + Z.of_nat k) by lia. apply IH, H.
Qed.

Lemma contig_firstn lo l k : contig lo l -> contig lo (firstn k l).
Proof.
  revert lo k; induction l as [|a l IH]; intros lo [|k] H; cbn [firstn]; try exact I.
  destruct H as [H1 H2]. split; [assumption|]. apply IH, H2.
Qed.

Lemma contig_filter_le lo l o :
  contig lo l -> filter (fun e => e_off e <=? o) l = firstn (Z.to_nat (o - lo + 1)) l.
Proof.
  revert lo; induction l as [|a l IH]; intros lo H; [destruct (Z.to_nat _); reflexivity|].
  destruct H as [H1 H2]. cbn [filter]. rewrite H1.
  destruct (Z.leb_spec lo o).
  - replace (Z.to_nat (o - lo + 1)) with (S (Z.to_nat (o - (lo + 1) + 1))) by lia.
    cbn [firstn]. rewrite (IH _ H2). reflexivity.
  - replace (Z.to_nat (o - lo + 1)) with O by lia. cbn [firstn].
    apply filter_none. apply Forall_forall. intros e He.
    pose proof (contig_bounds _ _ _ H2 He). apply Z.leb_gt. lia.
Qed.

Lemma contig_filter_ge lo l a :
  contig lo l -> filter (fun e => a <=? e_off e) l = skipn (Z.to_nat (a - lo)) l.
Proof.
  revert lo; induction l as [|x l IH]; intros lo H; [destruct (Z.to_nat _); reflexivity|].
  destruct H as [H1 H2]. cbn [filter]. rewrite H1.
  destruct (Z.leb_spec a lo).
  - replace (Z.to_nat (a - lo)) with O by lia. cbn [skipn]. f_equal.
    apply filter_all. apply Forall_forall. intros e He.
    pose proof (contig_bounds _ _ _ H2 He). apply Z.leb_le. lia.
  - replace (Z.to_nat (a - lo)) with (S (Z.to_nat (a - (lo + 1)))) by lia. cbn [skipn]. apply IH, H2.
Qed.

Lemma last_off_app l e : last_off (l ++ [e]) = e_off e.
Proof. unfold last_off. rewrite rev_app_distr. reflexivity. Qed.

Lemma last_off_contig lo l : contig lo l -> l <> [] -> last_off l = lo + len l - 1.
Proof.
  intros H Hne. destruct (exists_last Hne) as [l' [e ->]].
  rewrite last_off_app. apply contig_app in H. destruct H as [_ [H _]].
  rewrite len_app, len_cons, len_nil. lia.
Qed.

(* the entries of a contiguous list between two offsets *)
Lemma contig_window lo l a b :
  contig lo l -> lo <= a ->
  filter (fun e => (a <=? e_off e) && (e_off e <=? b)) l
  = firstn (Z.to_nat (b - a + 1)) (skipn (Z.to_nat (a - lo)) l).
Proof.
  intros H Ha. rewrite filter_andb, (contig_filter_ge lo l a H).
  pose proof (contig_skipn lo l (Z.to_nat (a - lo)) H) as Hs.
  replace (lo + Z.of_nat (Z.to_nat (a - lo))) with a in Hs by lia.
  apply (contig_filter_le a _ b Hs).
Qed.

(* ------------------------------------------------------------------ *)
(* segments in a chain                                                 *)

Fixpoint total_len (l : list segment) : Z :=
  match l with [] => 0 | s :: tl => seg_len s + total_len tl end.

Fixpoint chain (b : Z) (l : list segment) : Prop :=
  match l with [] => True | s :: tl => base s = b /\ chain (b + seg_len s) tl end.

Definition flat (l : list segment) : list entry := flat_map seg_entries l.

Lemma seg_len_nonneg s : 0 <= seg_len s.
Proof. unfold seg_len. lia. Qed.

Lemma seg_len_entries s : len (seg_entries s) = seg_len s.
Proof. unfold len, seg_entries, seg_len. rewrite map_length. reflexivity. Qed.

Lemma total_len_nonneg l : 0 <= total_len l.
Proof. induction l as [|s l IH]; cbn; [lia|]. pose proof (seg_len_nonneg s). lia. Qed.

Lemma total_len_app a b : total_len (a ++ b) = total_len a + total_len b.
Proof. induction a as [|s a IH]; cbn; [reflexivity|]. rewrite IH. lia. Qed.

Lemma flat_app a b : flat (a ++ b) = flat a ++ flat b.
Proof. unfold flat. apply flat_map_app. Qed.

Lemma len_flat l : len (flat l) = total_len l.
Proof.
  induction l as [|s l IH]; [reflexivity|].
  change (flat (s :: l)) with (seg_entries s ++ flat l).
  rewrite len_app, IH, seg_len_entries. reflexivity.
Qed.

Lemma chain_app b l1 l2 : chain b (l1 ++ l2) <-> chain b l1 /\ chain (b + total_len l1) l2.
Proof.
  revert b; induction l1 as [|s l1 IH]; intros b; cbn [app chain total_len].
  - rewrite Z.add_0_r. tauto.
  - rewrite IH. replace (b + seg_len s + total_len l1) with (b + (seg_len s + total_len l1)) by lia. tauto.
Qed.

Lemma chain_hd b l d : chain b l -> l <> [] -> base (hd d l) = b.
Proof. destruct l; [congruence|]. intros [H _] _. exact H. Qed.

Definition seg_contig (s : segment) : Prop := contig (base s) (seg_entries s).

Lemma chain_contig b l : chain b l -> Forall seg_contig l -> contig b (flat l).
Proof.
  revert b; induction l as [|s l IH]; intros b Hc Hf; [exact I|].
  destruct Hc as [Hb Hc]. inversion Hf; subst.
  change (flat (s :: l)) with (seg_entries s ++ flat l).
  apply contig_app. split; [assumption|].
  rewrite seg_len_entries. apply IH; assumption.
Qed.

Lemma flat_bounds b l e :
  chain b l -> Forall seg_contig l -> In e (flat l) -> b <= e_off e < b + total_len l.
Proof.
  intros Hc Hf Hin. pose proof (contig_bounds _ _ _ (chain_contig _ _ Hc Hf) Hin) as H.
  rewrite len_flat in H. exact H.
Qed.

(* bases never decrease along a chain *)
Lemma chain_base_ge b l s : chain b l -> In s l -> b <= base s.
Proof.
  revert b; induction l as [|x l IH]; intros b Hc Hin; [destruct Hin|].
  destruct Hc as [Hb Hc]. destruct Hin as [->|Hin]; [lia|].
  specialize (IH _ Hc Hin). pose proof (seg_len_nonneg x). lia.
Qed.

Lemma chain_base_lt b l s : chain b l -> In s l -> base s + seg_len s <= b + total_len l.
Proof.
  revert b; induction l as [|x l IH]; intros b Hc Hin; [destruct Hin|].
  destruct Hc as [Hb Hc]. cbn [total_len]. destruct Hin as [->|Hin].
  - pose proof (total_len_nonneg l). lia.
  - specialize (IH _ Hc Hin). lia.
Qed.

(* ------------------------------------------------------------------ *)
(* Floor on a chain of non-empty segments finds the segment that holds the offset *)

Definition nonempty (s : segment) : Prop := recs s <> [].

Lemma nonempty_len s : nonempty s -> 1 <= seg_len s.
Proof. unfold nonempty, seg_len. destruct (recs s); [congruence|]. cbn [length]. lia. Qed.

Lemma floor_seg_below b l i acc : chain b l -> i < b -> floor_seg l i acc = acc.
Proof.
  revert b acc; induction l as [|s l IH]; intros b acc Hc Hi; [reflexivity|].
  destruct Hc as [Hb Hc]. cbn [floor_seg].
  destruct (Z.leb_spec (base s) i); [lia|].
  apply (IH (b + seg_len s)); [assumption|]. pose proof (seg_len_nonneg s). lia.
Qed.

Lemma floor_seg_chain b l i acc :
  chain b l -> Forall nonempty l -> b <= i < b + total_len l ->
  (acc = None \/ exists a, acc = Some a /\ base a < b) ->
  exists A s B, l = A ++ s :: B /\ floor_seg l i acc = Some s /\
                base s = b + total_len A /\ base s <= i < base s + seg_len s.
Proof.
  revert b acc; induction l as [|s l IH]; intros b acc Hc Hne Hi Hacc.
  - cbn in Hi. lia.
  - destruct Hc as [Hb Hc]. inversion Hne as [|? ? Hs Hl]; subst. cbn [total_len] in Hi.
    cbn [floor_seg]. destruct (Z.leb_spec (base s) i); [|lia].
    set (acc' := match acc with Some a => if base a <=? base s then Some s else Some a | None => Some s end).
    assert (Hacc' : acc' = Some s).
    { unfold acc'. destruct Hacc as [->|[a [-> Ha]]]; [reflexivity|].
      destruct (Z.leb_spec (base a) (base s)); [reflexivity|lia]. }
    rewrite Hacc'.
    destruct (Z.lt_ge_cases i (base s + seg_len s)) as [Hin|Hout].
    + exists [], s, l. cbn [app total_len]. repeat split; try lia.
      apply (floor_seg_below (base s + seg_len s)); assumption.
    + pose proof (nonempty_len _ Hs).
      destruct (IH (base s + seg_len s) (Some s) Hc Hl ltac:(lia)) as [A [s' [B [-> [Hf [Hb' Hi']]]]]].
      { right. exists s. split; [reflexivity|lia]. }
      exists (s :: A), s', B. cbn [app total_len]. repeat split; try assumption; lia.
Qed.
