(* Model of server/wal (wal_impl.go, readwrite_segment.go, readonly_segment.go,
   readonly_segments_group.go, wal_reader.go, trimmer.go) as the code stands WITH the repairs of
   fixes/O-2-*.diff applied.  Definitions only; the lemmas are in Inv.v / Refine.v / Trim.v.

   What is a value here and what is an input:
   - an entry is (term, offset, timestamp, payload id); the payload bytes are opaque (an id),
   - [psize], the protobuf size of the entry, is an INPUT of every append (the harness passes
     proto.Size() of the real entry); a record occupies [header_size + psize] bytes of a segment,
   - the clock and the commit offset are inputs of [Trim].
   The read-only segment cache (openSegments) is not modelled: it is meant to be transparent
   (that it was not, after a cross-segment truncation, is one of the repaired defects). *)
From Coq Require Import List ZArith NArith Bool.
Import ListNotations.
Open Scope Z_scope.

Record entry := mkEntry { e_term : Z; e_off : Z; e_ts : Z; e_pay : N }.

(* codec v2: size(4) + previousCrc(4) + crc(4) *)
Definition header_size : N := 12%N.
Definition U32 : N := 4294967296%N.

(* one record of a segment: its payload size and the entry *)
Definition rec := (N * entry)%type.
Definition rec_size (r : rec) : N := (header_size + fst r)%N.

Record segment := mkSeg {
  base : Z;                 (* segmentConfig.baseOffset *)
  recs : list rec;          (* records in file order; writingIdx/idx = running sum of their sizes *)
  file_off : N              (* readWriteSegment.currentFileOffset *)
}.

Definition empty_seg (b : Z) : segment := mkSeg b [] 0%N.
Definition seg_len (s : segment) : Z := Z.of_nat (length (recs s)).
(* readWriteSegment.lastOffset / readOnlySegment.lastOffset: base - 1 for an empty segment *)
Definition seg_last (s : segment) : Z := base s + seg_len s - 1.
Definition seg_entries (s : segment) : list entry := map snd (recs s).

Inductive err :=
| ENegOffset        (* "invalid next offset. %d should be > 0" *)
| EInvalidNext      (* ErrInvalidNextOffset *)
| ESegmentFull      (* ErrSegmentFull, the entry does not fit an empty segment *)
| EEmptyPayload     (* codec.ErrEmptyPayload: the entry marshals to zero bytes *)
| EOutOfBounds      (* codec.ErrOffsetOutOfBounds *)
| EEntryNotFound    (* ErrEntryNotFound *)
| EIO               (* a file of a segment the group lists does not exist *)
| EDataCorrupted    (* codec.ErrDataCorrupted: newReadOnlySegment finds an empty index *)
| EPanic            (* Go runtime panic: write into the unmapped current segment of a wrecked WAL *)
| EHang.            (* only in the *_old variants: the call never returns (self-deadlock) *)

Inductive res (A : Type) := Ok (a : A) | Err (e : err).
Arguments Ok {A} a.
Arguments Err {A} e.

Record wal := mkWal {
  seg_size : N;             (* wal.segmentSize (uint32) *)
  ro : list segment;        (* readOnlySegments.allSegments, ascending base *)
  cur : segment;            (* currentSegment *)
  first : Z;                (* firstOffset *)
  last_app : Z;             (* lastAppendedOffset *)
  last_syn : Z;             (* lastSyncedOffset *)
  wrecked : bool            (* a segment file the group lists is gone (only after an oversize entry);
                               from then on only append is modelled after the code (it panics), the other
                               operations answer EIO without having been compared with the code *)
}.

Definition init (sz : N) : wal := mkWal sz [] (empty_seg 0) (-1) (-1) (-1) false.

Definition set_cur (w : wal) (c : segment) : wal :=
  mkWal (seg_size w) (ro w) c (first w) (last_app w) (last_syn w) (wrecked w).

(* ------------------------------------------------------------------ *)
(* read-write segment                                                  *)

(* HasSpace: currentFileOffset + HeaderSize + uint32(l) <= segmentSize, in uint32 arithmetic *)
Definition has_space (sz : N) (s : segment) (psize : N) : bool :=
  (((file_off s + header_size) mod U32 + psize mod U32) mod U32 <=? sz)%N.

(* readWriteSegment.Append *)
Definition seg_append (sz : N) (s : segment) (psize : N) (e : entry) : res segment :=
  if (psize =? 0)%N then Err EEmptyPayload
  else if negb (has_space sz s psize) then Err ESegmentFull
  else if negb (e_off e =? seg_last s + 1) then Err EInvalidNext
  else Ok (mkSeg (base s) (recs s ++ [(psize, e)]) (file_off s + (header_size + psize))%N).

Definition sum_sizes (l : list rec) : N := fold_right (fun r a => (rec_size r + a)%N) 0%N l.

(* readWriteSegment.Truncate *)
Definition seg_truncate (s : segment) (o : Z) : res segment :=
  if (o <? base s) || (seg_last s <? o) then Err EOutOfBounds
  else let keep := firstn (Z.to_nat (o - base s + 1)) (recs s) in
       Ok (mkSeg (base s) keep (sum_sizes keep)).

(* {readWrite,readOnly}Segment.Read *)
Definition seg_read (s : segment) (i : Z) : res entry :=
  if (i <? base s) || (seg_last s <? i) then Err EOutOfBounds
  else match nth_error (recs s) (Z.to_nat (i - base s)) with
       | Some r => Ok (snd r)
       | None => Err EOutOfBounds
       end.

(* ------------------------------------------------------------------ *)
(* read-only group: redblacktree Floor on the base offsets (order independent) *)

Fixpoint floor_seg (l : list segment) (i : Z) (acc : option segment) : option segment :=
  match l with
  | [] => acc
  | s :: tl =>
    if base s <=? i then
      floor_seg tl i (match acc with
                      | Some a => if base a <=? base s then Some s else Some a
                      | None => Some s
                      end)
    else floor_seg tl i acc
  end.

(* wal.readAtIndex *)
Definition read_at (w : wal) (i : Z) : res entry :=
  if base (cur w) <=? i then seg_read (cur w) i
  else match floor_seg (ro w) i None with
       | None => Err EOutOfBounds
       | Some s => if (length (recs s) =? 0)%nat then Err EDataCorrupted (* newReadOnlySegment on an empty index *)
                   else seg_read s i
       end.

(* ------------------------------------------------------------------ *)
(* append                                                              *)

(* rolloverSegment; allSegments is a tree keyed by base offset: Put replaces an equal key *)
Definition rollover (w : wal) : wal :=
  mkWal (seg_size w) (filter (fun s => negb (base s =? base (cur w))) (ro w) ++ [cur w])
        (empty_seg (last_app w + 1)) (first w) (last_app w) (last_syn w) (wrecked w).

Definition appended (w : wal) (c : segment) (o : Z) : wal :=
  mkWal (seg_size w) (ro w) c (if first w =? -1 then o else first w) o (last_syn w) (wrecked w).

(* wal.appendAsync0 *)
Definition append_async (w : wal) (psize : N) (e : entry) : wal * res unit :=
  if e_off e <? 0 then (w, Err ENegOffset)
  else if negb (last_app w =? -1) && negb (e_off e =? last_app w + 1) then (w, Err EInvalidNext)
  else if wrecked w then (w, Err EPanic)   (* the current segment was deleted and is unmapped *)
  else
    (* "The wal was cleared and we're starting from a non-initial position" *)
    let w1 := if (last_app w =? -1) && negb (e_off e =? 0) && (base (cur w) =? 0)
              then set_cur w (empty_seg (e_off e)) else w in
    match seg_append (seg_size w1) (cur w1) psize e with
    | Ok c => (appended w1 c (e_off e), Ok tt)
    | Err ESegmentFull =>
      let w2 := rollover w1 in
      match seg_append (seg_size w2) (cur w2) psize e with
      | Ok c => (appended w2 c (e_off e), Ok tt)
      | Err x => (w2, Err x)
      end
    | Err x => (w1, Err x)
    end.

(* doSync with the callback completed (SyncData=false: immediately; true: after runSync's round) *)
Definition sync (w : wal) : wal :=
  mkWal (seg_size w) (ro w) (cur w) (first w) (last_app w) (last_app w) (wrecked w).

(* wal.Append *)
Definition append (w : wal) (psize : N) (e : entry) : wal * res unit :=
  match append_async w psize e with
  | (w', Ok _) => (sync w', Ok tt)
  | r => r
  end.

(* wal.Clear *)
Definition clear (w : wal) : wal := mkWal (seg_size w) [] (empty_seg 0) (-1) (-1) (-1) false.

(* ------------------------------------------------------------------ *)
(* truncate                                                            *)

Definition truncated (w : wal) (r : list segment) (c : segment) (o : Z) : wal :=
  mkWal (seg_size w) r c (first w) o o (wrecked w).

(* the PollHighestSegment loop of TruncateLog; [rro] = the read-only segments, highest first *)
Fixpoint trunc_poll (w : wal) (rro : list segment) (o : Z) : wal * res Z :=
  match rro with
  | [] => (clear w, Ok (-1))
  | s :: rest =>
    if (length (recs s) =? 0)%nat then
      (* newReadOnlySegment: the file was deleted with the current segment (same base), or the index is empty *)
      (mkWal (seg_size w) (rev rest) (cur w) (first w) (last_app w) (last_syn w) true,
       Err (if base s =? base (cur w) then EIO else EDataCorrupted))
    else if base s <=? o then
      match seg_truncate s o with
      | Ok c => (truncated w (rev rest) c o, Ok o)
      | Err x => (* the segment is the current one again, nothing else was stored *)
        (mkWal (seg_size w) (rev rest) (mkSeg (base s) (recs s) (sum_sizes (recs s)))
               (first w) (last_app w) (last_syn w) (wrecked w), Err x)
      end
    else trunc_poll w rest o
  end.

(* wal.TruncateLog *)
Definition truncate (w : wal) (o : Z) : wal * res Z :=
  if wrecked w then (w, Err EIO)
  else if o =? -1 then (clear w, Ok (-1))
  else if last_app w =? -1 then (w, Ok (-1))
  else if o <? first w then (clear w, Ok (-1))
  else if base (cur w) <=? o then
    match seg_truncate (cur w) o with
    | Ok c => (truncated w (ro w) c o, Ok o)
    | Err x => (w, Err x)
    end
  else trunc_poll w (rev (ro w)) o.

(* ---- the code BEFORE the repairs (kept to state what was wrong) ----
   O-2: the branch that re-opens a read-only segment returned without storing
   lastAppendedOffset / lastSyncedOffset; and Clear() was called with the lock held. *)
Fixpoint trunc_poll_old (w : wal) (rro : list segment) (o : Z) : wal * res Z :=
  match rro with
  | [] => (w, Err EHang)
  | s :: rest =>
    if base s <=? o then
      match seg_truncate s o with
      | Ok c => (mkWal (seg_size w) (rev rest) c (first w) (last_app w) (last_syn w) (wrecked w), Ok o)
      | Err x => (w, Err x)
      end
    else trunc_poll_old w rest o
  end.

Definition truncate_old (w : wal) (o : Z) : wal * res Z :=
  if o =? -1 then (clear w, Ok (-1))
  else if last_app w =? -1 then (w, Ok (-1))
  else if base (cur w) <=? o then
    match seg_truncate (cur w) o with
    | Ok c => (truncated w (ro w) c o, Ok o)
    | Err x => (w, Err x)
    end
  else trunc_poll_old w (rev (ro w)) o.

(* ------------------------------------------------------------------ *)
(* readers                                                             *)

Fixpoint zseq (start : Z) (n : nat) : list Z :=
  match n with O => [] | S k => start :: zseq (start + 1) k end.

(* read the given offsets in order, stop at the first error *)
Fixpoint read_all (w : wal) (l : list Z) : list entry * option err :=
  match l with
  | [] => ([], None)
  | i :: tl => match read_at w i with
               | Ok e => let (es, x) := read_all w tl in (e :: es, x)
               | Err x => ([], Some x)
               end
  end.

(* NewReader(after) then ReadNext while HasNext (nextOffset <= LastOffset()) *)
Definition read_forward (w : wal) (after : Z) : res (list entry * option err) :=
  if after + 1 <? first w then Err EEntryNotFound
  else Ok (read_all w (zseq (after + 1) (Z.to_nat (last_syn w - after)))).

(* NewReverseReader then ReadNext while HasNext (first != -1 && nextOffset >= first) *)
Definition read_backward (w : wal) : list entry * option err :=
  if first w =? -1 then ([], None)
  else read_all w (rev (zseq (first w) (Z.to_nat (last_syn w - first w + 1)))).

(* the reverse reader before the repair: HasNext = first != -1 && nextOffset != first-1 *)
Fixpoint read_down_old (w : wal) (fuel : nat) (next : Z) : list entry * option err :=
  match fuel with
  | O => ([], None)
  | S k => if next =? first w - 1 then ([], None)
           else match read_at w next with
                | Ok e => let (es, x) := read_down_old w k (next - 1) in (e :: es, x)
                | Err x => ([], Some x)
                end
  end.
Definition read_backward_old (w : wal) (fuel : nat) : list entry * option err :=
  if first w =? -1 then ([], None) else read_down_old w fuel (last_syn w).

(* ------------------------------------------------------------------ *)
(* trimmer                                                             *)

(* trimmer.readAtOffset: NewReader(offset-1) + ReadNext, returns the timestamp *)
Definition read_ts (w : wal) (o : Z) : res Z :=
  if o <? first w then Err EEntryNotFound
  else match read_at w o with Ok e => Ok (e_ts e) | Err x => Err x end.

(* trimmer.binarySearch; Go's / and % are quot and rem *)
Fixpoint bsearch (w : wal) (fuel : nat) (lo hi cutoff : Z) : res Z :=
  match fuel with
  | O => Ok lo
  | S k =>
    if lo <? hi then
      let med := Z.quot (lo + hi) 2 + (if 0 <? Z.rem (lo + hi) 2 then 1 else 0) in
      match read_ts w med with
      | Err x => Err x
      | Ok ts => if cutoff <? ts then bsearch w k lo (med - 1) cutoff
                 else bsearch w k med hi cutoff
      end
    else Ok lo
  end.

(* doTrim up to the call of wal.trim: the offset handed to it, None when it returns before *)
Definition trim_target (w : wal) (now retention commit : Z) : res (option Z) :=
  if last_syn w =? -1 then Ok None
  else
    let cutoff := now - retention in
    match read_ts w (first w) with
    | Err x => Err x
    | Ok ts_first =>
      if cutoff <? ts_first then Ok None
      else match bsearch w (Z.to_nat (last_syn w - first w)) (first w) (last_syn w) cutoff with
           | Err x => Err x
           | Ok t => Ok (Some (if commit <? t then commit else t))
           end
    end.

Definition floor_base (l : list segment) (i : Z) : option Z :=
  match floor_seg l i None with Some s => Some (base s) | None => None end.

(* readOnlySegmentsGroup.TrimSegments *)
Definition trim_segments (l : list segment) (off : Z) : list segment :=
  let keep := match floor_base l off with Some b => b | None => off end in
  match floor_base l (keep - 1) with
  | None => l
  | Some cutoff => filter (fun s => cutoff <? base s) l
  end.

(* wal.trim *)
Definition wal_trim (w : wal) (t : Z) : wal :=
  if t <=? first w then w
  else mkWal (seg_size w) (trim_segments (ro w) t) (cur w) t (last_app w) (last_syn w) (wrecked w).

(* trimmer.doTrim *)
Definition do_trim (w : wal) (now retention commit : Z) : wal * res unit :=
  if wrecked w then (w, Err EIO)
  else match trim_target w now retention commit with
       | Err x => (w, Err x)
       | Ok None => (w, Ok tt)
       | Ok (Some t) => (wal_trim w t, Ok tt)
       end.

(* ------------------------------------------------------------------ *)
(* Close + newWal (recoverWal): no crash, every written record is found again by RecoverIndex *)

Definition reopen (w : wal) : wal * res unit :=
  if wrecked w then (w, Err EIO)
  else
    let l := seg_last (cur w) in
    (* listAllSegments lists files: a base offset shared with the current segment is one file *)
    let r := filter (fun s => negb (base s =? base (cur w))) (ro w) in
    let f := match r with
             | [] => if 0 <=? l then base (cur w) else -1
             | s :: _ => base s
             end in
    (* recoverWal reads the last CRC of the newest read-only segment: newReadOnlySegment refuses an empty index *)
    match rev r with
    | s :: _ => if (length (recs s) =? 0)%nat
                then (mkWal (seg_size w) r (cur w) (first w) (last_app w) (last_syn w) true, Err EDataCorrupted)
                else (mkWal (seg_size w) r (cur w) f l l false, Ok tt)
    | [] => (mkWal (seg_size w) r (cur w) f l l false, Ok tt)
    end.

(* ------------------------------------------------------------------ *)
(* operations and observables                                          *)

Inductive op :=
| AppendAsync (psize : N) (e : entry)
| Append (psize : N) (e : entry)
| Sync
| Truncate (o : Z)
| Clear
| Trim (now retention commit : Z)
| Reopen
| ReadFwd (after : Z)
| ReadAll                (* forward read of everything: NewReader(max(FirstOffset()-1, -1)) *)
| ReadBwd.

Inductive out :=
| ODone (r : res unit)                         (* append / sync / clear / trim / reopen *)
| OTrunc (r : res Z)                           (* TruncateLog's result *)
| ORead (r : res (list entry * option err)).   (* entries read, and the error that ended the read *)

Definition step (w : wal) (o : op) : wal * out :=
  match o with
  | AppendAsync p e => let (w', r) := append_async w p e in (w', ODone r)
  | Append p e => let (w', r) := append w p e in (w', ODone r)
  | Sync => (sync w, ODone (Ok tt))
  | Truncate x => let (w', r) := truncate w x in (w', OTrunc r)
  | Clear => (clear w, ODone (Ok tt))
  | Trim n r c => let (w', x) := do_trim w n r c in (w', ODone x)
  | Reopen => let (w', r) := reopen w in (w', ODone r)
  | ReadFwd a => (w, ORead (read_forward w a))
  | ReadAll => (w, ORead (read_forward w (Z.max (first w - 1) (-1))))
  | ReadBwd => (w, ORead (Ok (read_backward w)))
  end.

(* what the public interface shows after every operation: FirstOffset(), LastOffset() *)
Definition obs := (out * Z * Z)%type.
Definition observe (w : wal) (x : out) : obs := (x, first w, last_syn w).

Fixpoint run (w : wal) (ops : list op) : wal * list obs :=
  match ops with
  | [] => (w, [])
  | o :: tl => let (w1, x) := step w o in
               let (w2, xs) := run w1 tl in (w2, observe w1 x :: xs)
  end.

(* the same with the code before the repairs *)
Definition step_old (w : wal) (o : op) : wal * out :=
  match o with
  | Truncate x => let (w', r) := truncate_old w x in (w', OTrunc r)
  | ReadBwd => (w, ORead (Ok (read_backward_old w (S (Z.to_nat (last_syn w + 2))))))
  | _ => step w o
  end.

Fixpoint run_old (w : wal) (ops : list op) : wal * list obs :=
  match ops with
  | [] => (w, [])
  | o :: tl => let (w1, x) := step_old w o in
               let (w2, xs) := run_old w1 tl in (w2, observe w1 x :: xs)
  end.
