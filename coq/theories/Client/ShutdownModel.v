(* Batcher shutdown at the granularity of the goroutines involved (oxia/batch/batcher.go):

     Add(call):  b.adding.Add(1)                                                               (EAddStart)
                 if b.closed.Load() { b.adding.Add(-1); ...                                    (EAddCheck, closed)
                                      failCall(call, ErrShuttingDown) }                        (EAddFail)
                 else { ...                                                                    (EAddCheck, open)
                        b.callC <- call                                                        (EAddSend)
                        b.adding.Add(-1) }                                                     (EAddFinish)
                 A send finds room in the buffer (capacity K), or parks the sender in the channel's send queue; a
                 receive moves the first parked sender's value into the buffer in the same step (Go channel semantics);
                 the parked goroutine then still has to run its decrement (EAddFinish).
     Close():    closed.Store(true); close(closeC)                                              (EClose)
     Run():      select { callC: add to the batch, complete it when full / linger = 0          (ERunRecv)
                          timeout: complete the batch                                          (ETick)
                          closeC: fail the batch, then                                  (ERunClose)
                                  for { select { callC: failCall                       (EDrainOne)
                                                 default:                              (EDrainDefault: the queue is empty)
                                                   if adding != 0 { Gosched; continue }(EDrainCheck: the counter is read)
                                                   for { select { callC: failCall      (EDrainOne)
                                                                  default: return } }  (EDrainDefault)
                                  } } }
   The schedule -- which goroutine moves next -- is the event list.  Complete()/Fail() are atomic here: a parked
   Complete only restricts the schedules.

   Finding the queue empty and reading the counter are two steps: an Add can enqueue and decrement in between.
   [sd_rule] is the drain rule:
     RuleQueueEmpty          the code as it was found: Run returns as soon as it finds the queue empty (no counter);
     RuleCounterAfterEmpty   the first repair (commit cb6e33f): after finding the queue empty, Run returns if it reads
                             adding == 0 -- without looking at the queue again;
     RuleFinalDrain          the code as it is: after reading adding == 0 Run drains the queue once more, and returns when
                             it finds it empty.
   [overlapped] is a ghost flag: some Add was between its closed-check and its send when Close happened. *)
From Coq Require Import List NArith Bool.
Import ListNotations.

Inductive sdres := SdOk | SdShut.
Inductive sdev :=
  | EAddStart (c : N) | EAddCheck (c : N) | EAddSend (c : N) | EAddFinish (c : N) | EAddFail (c : N)
  | ERunRecv | ETick | EClose | ERunClose | EDrainOne | EDrainDefault | EDrainCheck.

Inductive drain_rule := RuleQueueEmpty | RuleCounterAfterEmpty | RuleFinalDrain.

(* where Run is: in its main loop; in the drain loop; has found the queue empty and is about to read the counter; in the
   final drain after reading adding == 0 *)
Inductive dphase := PMain | PLoop | PSawEmpty | PFinal.

Record sdcfg := mkSdCfg { sd_cap : nat; sd_linger_pos : bool; sd_max : nat; sd_rule : drain_rule }.

Record sdstate := mkSd {
  sd_started : list N;      (* Adds that have incremented [adding] and not yet loaded [closed] *)
  sd_inflight : list N;     (* Adds that found the batcher open and have not yet reached the send *)
  sd_parked : list N;       (* senders parked in callC's send queue *)
  sd_sent : list N;         (* Adds whose send has completed and that have not yet decremented [adding] *)
  sd_failing : list N;      (* Adds that found the batcher closed, have decremented, and have not yet run failCall *)
  sd_q : list N;            (* callC's buffer *)
  sd_closed : bool;
  sd_batch : list N;        (* Run's current batch *)
  sd_phase : dphase;        (* where Run is *)
  sd_run_done : bool;       (* Run has returned *)
  sd_overlapped : bool }.

Definition sd_init : sdstate := mkSd [] [] [] [] [] [] false [] PMain false false.

Definition sd_draining (s : sdstate) : bool := match sd_phase s with PMain => false | _ => true end.

(* b.adding: the Adds between their increment and their decrement *)
Definition sd_adding (s : sdstate) : nat :=
  length (sd_started s) + length (sd_inflight s) + length (sd_parked s) + length (sd_sent s).

Fixpoint remove1 (c : N) (l : list N) : option (list N) :=
  match l with
  | [] => None
  | x :: r => if N.eqb x c then Some r
              else match remove1 c r with Some r' => Some (x :: r') | None => None end
  end.

(* a receive from callC: the head of the buffer; the first parked sender's value enters the buffer and that sender's
   send is complete.  Result: (call, buffer, parked, sent) *)
Definition sd_pop (s : sdstate) : option (N * list N * list N * list N) :=
  match sd_q s with
  | [] => None
  | c :: q' =>
      match sd_parked s with
      | p :: ps => Some (c, q' ++ [p], ps, sd_sent s ++ [p])
      | [] => Some (c, q', [], sd_sent s)
      end
  end.

Definition dones (r : sdres) (l : list N) : list (N * sdres) := map (fun c => (c, r)) l.

Definition sd_step (cfg : sdcfg) (s : sdstate) (ev : sdev) : sdstate * list (N * sdres) :=
  match ev with
  | EAddStart c =>
      (mkSd (sd_started s ++ [c]) (sd_inflight s) (sd_parked s) (sd_sent s) (sd_failing s) (sd_q s) (sd_closed s)
            (sd_batch s) (sd_phase s) (sd_run_done s) (sd_overlapped s), [])
  | EAddCheck c =>
      match remove1 c (sd_started s) with
      | None => (s, [])
      | Some rest =>
          if sd_closed s
          then (mkSd rest (sd_inflight s) (sd_parked s) (sd_sent s) (sd_failing s ++ [c]) (sd_q s) true
                     (sd_batch s) (sd_phase s) (sd_run_done s) (sd_overlapped s), [])
          else (mkSd rest (sd_inflight s ++ [c]) (sd_parked s) (sd_sent s) (sd_failing s) (sd_q s) false
                     (sd_batch s) (sd_phase s) (sd_run_done s) (sd_overlapped s), [])
      end
  | EAddSend c =>
      match remove1 c (sd_inflight s) with
      | None => (s, [])
      | Some rest =>
          if Nat.ltb (length (sd_q s)) (sd_cap cfg)
          then (mkSd (sd_started s) rest (sd_parked s) (sd_sent s ++ [c]) (sd_failing s) (sd_q s ++ [c]) (sd_closed s)
                     (sd_batch s) (sd_phase s) (sd_run_done s) (sd_overlapped s), [])
          else (mkSd (sd_started s) rest (sd_parked s ++ [c]) (sd_sent s) (sd_failing s) (sd_q s) (sd_closed s)
                     (sd_batch s) (sd_phase s) (sd_run_done s) (sd_overlapped s), [])
      end
  | EAddFinish c =>
      match remove1 c (sd_sent s) with
      | None => (s, [])
      | Some rest =>
          (mkSd (sd_started s) (sd_inflight s) (sd_parked s) rest (sd_failing s) (sd_q s) (sd_closed s)
                (sd_batch s) (sd_phase s) (sd_run_done s) (sd_overlapped s), [])
      end
  | EAddFail c =>
      match remove1 c (sd_failing s) with
      | None => (s, [])
      | Some rest =>
          (mkSd (sd_started s) (sd_inflight s) (sd_parked s) (sd_sent s) rest (sd_q s) (sd_closed s)
                (sd_batch s) (sd_phase s) (sd_run_done s) (sd_overlapped s), [(c, SdShut)])
      end
  | ERunRecv =>
      if sd_run_done s || sd_draining s then (s, []) else
      match sd_pop s with
      | None => (s, [])
      | Some (c, q', ps, snt) =>
          let b := sd_batch s ++ [c] in
          if negb (sd_linger_pos cfg) || Nat.eqb (length b) (sd_max cfg)
          then (mkSd (sd_started s) (sd_inflight s) ps snt (sd_failing s) q' (sd_closed s) [] PMain false
                     (sd_overlapped s), dones SdOk b)
          else (mkSd (sd_started s) (sd_inflight s) ps snt (sd_failing s) q' (sd_closed s) b PMain false
                     (sd_overlapped s), [])
      end
  | ETick =>
      if sd_run_done s || sd_draining s || negb (sd_linger_pos cfg) then (s, [])
      else (mkSd (sd_started s) (sd_inflight s) (sd_parked s) (sd_sent s) (sd_failing s) (sd_q s) (sd_closed s) []
                 PMain false (sd_overlapped s), dones SdOk (sd_batch s))
  | EClose =>
      if sd_closed s then (s, [])
      else (mkSd (sd_started s) (sd_inflight s) (sd_parked s) (sd_sent s) (sd_failing s) (sd_q s) true (sd_batch s)
                 (sd_phase s) (sd_run_done s)
                 (match sd_inflight s with [] => sd_overlapped s | _ => true end), [])
  | ERunClose =>
      if sd_closed s && negb (sd_run_done s) && negb (sd_draining s)
      then (mkSd (sd_started s) (sd_inflight s) (sd_parked s) (sd_sent s) (sd_failing s) (sd_q s) true [] PLoop false
                 (sd_overlapped s), dones SdShut (sd_batch s))
      else (s, [])
  | EDrainOne =>
      match sd_phase s with
      | PLoop | PFinal =>
          match sd_pop s with
          | None => (s, [])
          | Some (c, q', ps, snt) =>
              (mkSd (sd_started s) (sd_inflight s) ps snt (sd_failing s) q' (sd_closed s) (sd_batch s) (sd_phase s) false
                    (sd_overlapped s), [(c, SdShut)])
          end
      | _ => (s, [])
      end
  | EDrainDefault =>
      (* the select's default: nothing can be received *)
      match sd_q s with
      | [] =>
          let returned := mkSd (sd_started s) (sd_inflight s) (sd_parked s) (sd_sent s) (sd_failing s) [] (sd_closed s)
                               (sd_batch s) PMain true (sd_overlapped s) in
          let saw := mkSd (sd_started s) (sd_inflight s) (sd_parked s) (sd_sent s) (sd_failing s) [] (sd_closed s)
                          (sd_batch s) PSawEmpty false (sd_overlapped s) in
          match sd_phase s, sd_rule cfg with
          | PLoop, RuleQueueEmpty => (returned, [])
          | PLoop, _ => (saw, [])
          | PFinal, _ => (returned, [])
          | _, _ => (s, [])
          end
      | _ => (s, [])
      end
  | EDrainCheck =>
      (* b.adding.Load() *)
      match sd_phase s with
      | PSawEmpty =>
          if Nat.eqb (sd_adding s) 0 then
            match sd_rule cfg with
            | RuleFinalDrain =>
                (mkSd (sd_started s) (sd_inflight s) (sd_parked s) (sd_sent s) (sd_failing s) (sd_q s) (sd_closed s)
                      (sd_batch s) PFinal false (sd_overlapped s), [])
            | _ =>
                (mkSd (sd_started s) (sd_inflight s) (sd_parked s) (sd_sent s) (sd_failing s) (sd_q s) (sd_closed s)
                      (sd_batch s) PMain true (sd_overlapped s), [])
            end
          else                                        (* runtime.Gosched(); continue *)
            (mkSd (sd_started s) (sd_inflight s) (sd_parked s) (sd_sent s) (sd_failing s) (sd_q s) (sd_closed s)
                  (sd_batch s) PLoop false (sd_overlapped s), [])
      | _ => (s, [])
      end
  end.

Fixpoint sd_run (cfg : sdcfg) (s : sdstate) (evs : list sdev) : sdstate * list (N * sdres) :=
  match evs with
  | [] => (s, [])
  | ev :: evs' =>
      let (s1, o1) := sd_step cfg s ev in
      let (s2, o2) := sd_run cfg s1 evs' in
      (s2, o1 ++ o2)
  end.

(* the calls whose Add has started *)
Definition sd_submitted (evs : list sdev) : list N :=
  flat_map (fun e => match e with EAddStart c => [c] | _ => [] end) evs.

(* where a call that is not yet completed can be *)
Definition sd_pending (s : sdstate) : list N :=
  sd_started s ++ sd_inflight s ++ sd_parked s ++ sd_failing s ++ sd_q s ++ sd_batch s.

(* every Add that has started has returned *)
Definition sd_adds_returned (s : sdstate) : Prop :=
  sd_started s = [] /\ sd_inflight s = [] /\ sd_parked s = [] /\ sd_sent s = [] /\ sd_failing s = [].
