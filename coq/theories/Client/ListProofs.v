(* clientImpl.List with the caller's context (repaired code): for every schedule of the shard goroutines and every
   moment of cancellation nothing is sent on the closed result channel, the channel is closed at most once and
   last, and what was forwarded is part of what the shards produced -- no duplication, no invention.
   Refuted for the code as found. *)
From Coq Require Import List NArith ZArith Bool Lia Arith Permutation.
From Oxia.Client Require Import Model.
Import ListNotations.

Definition litems (o : list lobs) : list item :=
  flat_map (fun x => match x with LItem i => [i] | _ => [] end) o.

Lemma litems_app a b : litems (a ++ b) = litems a ++ litems b.
Proof. apply flat_map_app. Qed.

Lemma litems_map l : litems (map LItem l) = l.
Proof. induction l as [|x l IH]; [reflexivity|]. cbn. f_equal. exact IH. Qed.

Definition linv (s : lstate) : Prop :=
  l_dead s = false /\ (l_closed s = true -> all_returned (l_chans s) = true).

(* the observations of a stretch of execution from s to s': items, then possibly the one and only close *)
Definition shape (s s' : lstate) (o : list lobs) : Prop :=
  exists items tailc, o = map LItem items ++ tailc /\
    (tailc = [] \/ (tailc = [LClosed] /\ l_closed s = false /\ l_closed s' = true)).

Lemma maybe_close_inv s :
  l_dead s = false -> (l_closed s = true -> all_returned (l_chans s) = true) ->
  linv (fst (maybe_close s)) /\ l_chans (fst (maybe_close s)) = l_chans s /\
  (l_closed s = true -> l_closed (fst (maybe_close s)) = true) /\
  (snd (maybe_close s) = [] \/
   (snd (maybe_close s) = [LClosed] /\ l_closed s = false /\ l_closed (fst (maybe_close s)) = true)).
Proof.
  intros Hd Hc. unfold maybe_close.
  destruct (l_closed s) eqn:C; cbn [negb andb].
  - split; [split; [exact Hd|intros _; apply Hc; reflexivity]|]. cbn. auto.
  - destruct (all_returned (l_chans s)) eqn:A; cbn [fst snd].
    + split; [split; [exact Hd|intros _; exact A]|]. split; [reflexivity|]. split; [discriminate|]. right. auto.
    + split; [split; [exact Hd|rewrite C; discriminate]|]. split; [reflexivity|]. split; [discriminate|]. auto.
Qed.

Lemma nth_cons_not_returned : forall i chans x r,
  nth_error chans i = Some (x :: r) -> all_returned chans = false.
Proof.
  unfold all_returned.
  induction i as [|i IH]; intros [|c chans] x r H; try discriminate; cbn [nth_error forallb] in *.
  - inversion H; subst. reflexivity.
  - rewrite (IH _ _ _ H). apply andb_false_r.
Qed.

Lemma concat_set_nth : forall i (chans : list (list item)) c c',
  nth_error chans i = Some c ->
  Permutation (concat chans ++ c') (c ++ concat (set_nth i c' chans)).
Proof.
  unfold set_nth.
  induction i as [|i IH]; intros [|c0 chans] c c' H; try discriminate.
  - cbn in H. inversion H; subst. cbn [firstn skipn app concat].
    rewrite <- !app_assoc. apply Permutation_app_head. apply Permutation_app_comm.
  - cbn [nth_error] in H. change (skipn (S (S i)) (c0 :: chans)) with (skipn (S i) chans).
    cbn [concat firstn app]. rewrite <- app_assoc. rewrite (IH chans c c' H).
    rewrite !app_assoc. apply Permutation_app_tail. apply Permutation_app_comm.
Qed.

(* one step of the repaired code *)
Lemma list_step_ok s ev :
  linv s ->
  let s' := fst (list_step true s ev) in
  let o := snd (list_step true s ev) in
  linv s' /\ shape s s' o /\
  (l_closed s = true -> o = [] /\ l_closed s' = true) /\
  (exists dropped, Permutation (concat (l_chans s)) (litems o ++ concat (l_chans s') ++ dropped)).
Proof.
  intros (Hd & Hc). unfold list_step. rewrite Hd.
  assert (Hnoop : linv s /\ shape s s [] /\ (l_closed s = true -> @nil lobs = [] /\ l_closed s = true) /\
                  (exists dropped, Permutation (concat (l_chans s)) (litems [] ++ concat (l_chans s) ++ dropped))).
  { split; [split; assumption|]. split; [exists [], []; auto|]. split; [auto|].
    exists []. cbn. now rewrite app_nil_r. }
  destruct ev as [i|i|].
  - (* forward *)
    destruct (nth_error (l_chans s) i) as [[|x r]|] eqn:E; try exact Hnoop.
    pose proof (nth_cons_not_returned _ _ _ _ E) as Hnr.
    destruct (l_closed s) eqn:C; [rewrite (Hc eq_refl) in Hnr; discriminate|].
    set (r' := if is_err x then [] else r).
    set (s1 := mkL (set_nth i r' (l_chans s)) (l_cancelled s) false false).
    destruct (maybe_close_inv s1 eq_refl ltac:(cbn; discriminate)) as (Hinv & Hch & _ & Hobs).
    destruct (maybe_close s1) as [s2 o2]. cbn [fst snd] in *.
    split; [exact Hinv|]. split.
    { exists [x], o2. split; [reflexivity|]. destruct Hobs as [->|(-> & _ & Hcl)]; auto. }
    split; [discriminate|].
    rewrite Hch. cbn [s1 l_chans].
    exists (if is_err x then r else []).
    assert (Hl : litems (LItem x :: o2) = [x]).
    { destruct Hobs as [->|(-> & _)]; reflexivity. }
    rewrite Hl.
    pose proof (concat_set_nth i (l_chans s) (x :: r) r' E) as P.
    unfold r' in *. destruct (is_err x).
    + rewrite app_nil_r in P. rewrite P. cbn [app]. apply perm_skip. apply Permutation_app_comm.
    + rewrite app_nil_r.
      apply (Permutation_app_inv_r r). rewrite P. cbn [app]. apply perm_skip.
      apply Permutation_app_comm.
  - (* give up *)
    destruct (l_cancelled s) eqn:Ca; cbn [negb]; [|exact Hnoop].
    destruct (nth_error (l_chans s) i) as [[|x r]|] eqn:E; try exact Hnoop.
    pose proof (nth_cons_not_returned _ _ _ _ E) as Hnr.
    destruct (l_closed s) eqn:C; [rewrite (Hc eq_refl) in Hnr; discriminate|].
    set (s1 := mkL (set_nth i [] (l_chans s)) true false false).
    destruct (maybe_close_inv s1 eq_refl ltac:(cbn; discriminate)) as (Hinv & Hch & _ & Hobs).
    destruct (maybe_close s1) as [s2 o2]. cbn [fst snd] in *.
    split; [exact Hinv|]. split.
    { exists [], o2. split; [reflexivity|]. destruct Hobs as [->|(-> & _ & Hcl)]; auto. }
    split; [discriminate|].
    rewrite Hch. cbn [s1 l_chans]. exists (x :: r).
    assert (Hl : litems o2 = []) by (destruct Hobs as [->|(-> & _)]; reflexivity).
    rewrite Hl. cbn [app].
    pose proof (concat_set_nth i (l_chans s) (x :: r) [] E) as P. rewrite app_nil_r in P.
    rewrite P. apply Permutation_app_comm.
  - (* cancel *)
    destruct (l_cancelled s); [exact Hnoop|]. cbn [fst snd l_chans l_closed].
    split; [split; [reflexivity|exact Hc]|]. split; [exists [], []; auto|]. split; [auto|].
    exists []. cbn. now rewrite app_nil_r.
Qed.

Lemma list_run_ok : forall evs s,
  linv s ->
  let s' := fst (list_run_from true s evs) in
  let o := snd (list_run_from true s evs) in
  linv s' /\ shape s s' o /\
  (l_closed s = true -> o = [] /\ l_closed s' = true) /\
  (exists dropped, Permutation (concat (l_chans s)) (litems o ++ concat (l_chans s') ++ dropped)).
Proof.
  induction evs as [|ev evs IH]; intros s Hi; cbn [list_run_from].
  - cbn. split; [exact Hi|]. split; [exists [], []; auto|]. split; [auto|].
    exists []; cbn; now rewrite app_nil_r.
  - pose proof (list_step_ok s ev Hi) as (Hi1 & Hsh1 & Hcl1 & (d1 & P1)).
    destruct (list_step true s ev) as [s1 o1]. cbn [fst snd] in *.
    pose proof (IH s1 Hi1) as (Hi2 & Hsh2 & Hcl2 & (d2 & P2)).
    destruct (list_run_from true s1 evs) as [s2 o2]. cbn [fst snd] in *.
    split; [exact Hi2|]. split.
    { destruct Hsh1 as (i1 & t1 & -> & Ht1). destruct Hsh2 as (i2 & t2 & -> & Ht2).
      destruct Ht1 as [->|(-> & C0 & C1)].
      - rewrite app_nil_r. exists (i1 ++ i2), t2. split; [now rewrite map_app, app_assoc|].
        destruct Ht2 as [->|(-> & C1 & C2)]; [auto|]. right. split; [reflexivity|]. split; [|exact C2].
        (* s was not closed: otherwise s1 would be *)
        destruct (l_closed s) eqn:C; [|reflexivity]. destruct (Hcl1 eq_refl) as (_ & X). congruence.
      - destruct (Hcl2 C1) as (E2 & C2). rewrite E2, app_nil_r.
        exists i1, [LClosed]. split; [reflexivity|]. right. auto. }
    split.
    { intros C. destruct (Hcl1 C) as (-> & C1). destruct (Hcl2 C1) as (-> & C2). auto. }
    exists (d1 ++ d2). rewrite litems_app. rewrite P1, P2.
    rewrite <- !app_assoc. do 3 apply Permutation_app_head. apply Permutation_app_comm.
Qed.

(* Main theorem (repaired List): for every content of the per-shard streams, every schedule of forwards and
   give-ups and every moment of cancellation, the observations are: items, then at most one close, nothing
   after it, never a panic; the items forwarded, what the goroutines still hold and what they dropped on
   cancellation / after an error make up exactly what the shards produced. *)
Theorem list_cancel_safe : forall chans evs,
  exists items tailc dropped,
    list_run true chans evs = map LItem items ++ tailc /\ (tailc = [] \/ tailc = [LClosed]) /\
    ~ In LPanicked (list_run true chans evs) /\
    exists held, Permutation (concat chans) (items ++ held ++ dropped).
Proof.
  intros chans evs. unfold list_run.
  set (s00 := mkL chans false false false).
  destruct (maybe_close_inv s00 eq_refl ltac:(cbn; discriminate)) as (Hinv & Hch & _ & Hobs).
  destruct (maybe_close s00) as [s0 o0]. cbn [fst snd] in *.
  pose proof (list_run_ok evs s0 Hinv) as (_ & Hsh & Hcl & (d & P)).
  destruct (list_run_from true s0 evs) as [s' o]. cbn [fst snd] in *.
  rewrite Hch in P. cbn [s00 l_chans] in P.
  destruct Hobs as [->|(-> & _ & C0)].
  - destruct Hsh as (items & t & -> & Ht). exists items, t, d. cbn [app].
    split; [reflexivity|]. split; [destruct Ht as [->|(-> & _)]; auto|]. split.
    + intros H. apply in_app_or in H. destruct H as [H|H].
      * apply in_map_iff in H. destruct H as (? & ? & _). discriminate.
      * destruct Ht as [->|(-> & _)]; [destruct H|destruct H as [H|[]]; discriminate].
    + exists (concat (l_chans s')). rewrite P. rewrite litems_app, litems_map.
      assert (litems t = []) by (destruct Ht as [->|(-> & _)]; reflexivity). rewrite H, app_nil_r. reflexivity.
  - destruct (Hcl C0) as (-> & _). exists [], [LClosed], d. cbn [app map].
    split; [reflexivity|]. split; [auto|]. split; [intros [H|[]]; discriminate|].
    exists (concat (l_chans s')). rewrite P. reflexivity.
Qed.

(* The code as found: shard 0 fails, the caller cancels the context, shard 1's stream then fails with the context
   error (or: shard 1 was blocked in its send because the consumer returned on the first error) -> send on the
   closed channel. *)
Theorem list_cancel_old_refuted :
  exists chans evs, In LPanicked (list_run false chans evs).
Proof.
  exists [[IErr 5]; [IOk [99%N] 0]], [LFwd 0; LCancel; LGiveUp 1]. vm_compute. auto.
Qed.

Example list_cancel_example :
  list_run true [[IErr 5]; [IOk [99%N] 0; IOk [100%N] 0]; []] [LFwd 1; LFwd 0; LCancel; LGiveUp 1; LFwd 1]
  = [LItem (IOk [99%N] 0); LItem (IErr 5); LClosed].
Proof. vm_compute. reflexivity. Qed.

(* ---- how a shard stream ends: EOF after its items, or a failure (any status) after some of them ---- *)

(* what a shard goroutine forwards of its stream: everything up to and including the first error *)
Fixpoint cut (ch : list item) : list item :=
  match ch with
  | [] => []
  | x :: r => if is_err x then [x] else x :: cut r
  end.

Lemma cut_err_free ch : Forall (fun x => is_err x = false) ch -> cut ch = ch.
Proof.
  induction ch as [|x r IH]; intros H; [reflexivity|]. inversion H; subst. cbn. rewrite H2. now rewrite IH.
Qed.

Lemma cut_keeps_error ch : (exists x, In x ch /\ is_err x = true) -> exists y, In y (cut ch) /\ is_err y = true.
Proof.
  induction ch as [|x r IH]; intros (y & Hin & Hy); [destruct Hin|]. cbn.
  destruct (is_err x) eqn:E; [exists x; split; [left; reflexivity|exact E]|].
  destruct Hin as [->|Hin]; [congruence|].
  destruct (IH (ex_intro _ y (conj Hin Hy))) as (z & Hz & Ez). exists z. split; [right; exact Hz|exact Ez].
Qed.

Lemma map_set_nth {B} (f : list item -> B) i c chans :
  map f (set_nth i c chans) = firstn i (map f chans) ++ f c :: skipn (S i) (map f chans).
Proof. unfold set_nth. rewrite map_app, firstn_map. cbn [map]. now rewrite skipn_map. Qed.

Lemma concat_cut_step : forall i (chans : list (list item)) x r,
  nth_error chans i = Some (x :: r) ->
  Permutation (concat (map cut chans))
              (x :: concat (map cut (set_nth i (if is_err x then [] else r) chans))).
Proof.
  unfold set_nth.
  induction i as [|i IH]; intros [|c chans] x r H; try discriminate.
  - cbn in H. inversion H; subst. cbn [firstn skipn app map concat cut].
    destruct (is_err x); reflexivity.
  - cbn [nth_error] in H. change (skipn (S (S i)) (c :: chans)) with (skipn (S i) chans).
    cbn [firstn app map concat]. rewrite (IH chans x r H). symmetry. apply Permutation_middle.
Qed.

Definition no_cancel (evs : list levent) : Prop := Forall (fun e => e <> LCancel) evs.

(* without cancellation: what has been forwarded plus what the goroutines will still forward is, at every moment,
   exactly what the shards streamed up to their first error *)
Lemma list_run_cut : forall evs s,
  l_dead s = false -> l_cancelled s = false -> (l_closed s = true -> all_returned (l_chans s) = true) ->
  no_cancel evs ->
  let s' := fst (list_run_from true s evs) in
  let o := snd (list_run_from true s evs) in
  Permutation (concat (map cut (l_chans s))) (litems o ++ concat (map cut (l_chans s'))) /\
  (In LClosed o \/ l_closed s = true -> all_returned (l_chans s') = true).
Proof.
  induction evs as [|ev evs IH]; intros s Hd Hca Hcl Hnc; cbn [list_run_from].
  - cbn. split; [reflexivity|]. intros [[]|H]. exact (Hcl H).
  - inversion Hnc as [|? ? Hev Hnc']; subst.
    assert (Hstep : exists s1 o1, list_step true s ev = (s1, o1) /\ l_dead s1 = false /\ l_cancelled s1 = false /\
              (l_closed s1 = true -> all_returned (l_chans s1) = true) /\
              Permutation (concat (map cut (l_chans s))) (litems o1 ++ concat (map cut (l_chans s1))) /\
              (In LClosed o1 \/ l_closed s = true -> l_closed s1 = true)).
    { unfold list_step. rewrite Hd.
      destruct ev as [i|i|]; [| |congruence].
      - destruct (nth_error (l_chans s) i) as [[|x r]|] eqn:E.
        1,3: exists s, []; repeat split; auto; intros [[]|H]; exact H.
        pose proof (nth_cons_not_returned _ _ _ _ E) as Hnr.
        destruct (l_closed s) eqn:C; [rewrite (Hcl eq_refl) in Hnr; discriminate|].
        set (s1 := mkL (set_nth i (if is_err x then [] else r) (l_chans s)) (l_cancelled s) false false).
        destruct (maybe_close_inv s1 eq_refl ltac:(cbn; discriminate)) as ((Hd2 & Hc2) & Hch & _ & Hobs).
        assert (Hca2 : l_cancelled (fst (maybe_close s1)) = false).
        { unfold maybe_close. destruct (negb (l_closed s1) && all_returned (l_chans s1)); cbn; exact Hca. }
        destruct (maybe_close s1) as [s2 o2]. cbn [fst snd] in *.
        exists s2, (LItem x :: o2). split; [reflexivity|]. split; [exact Hd2|]. split; [exact Hca2|].
        split; [exact Hc2|]. split.
        + rewrite Hch. cbn [s1 l_chans].
          assert (Hl : litems (LItem x :: o2) = [x]) by (destruct Hobs as [->|(-> & _)]; reflexivity).
          rewrite Hl. cbn [app]. apply concat_cut_step. exact E.
        + intros [[H|H]|H]; [discriminate| |discriminate].
          destruct Hobs as [->|(-> & _ & Hc3)]; [destruct H|exact Hc3].
      - rewrite Hca. cbn [negb]. exists s, []. repeat split; auto. intros [[]|H]; exact H. }
    destruct Hstep as (s1 & o1 & Hs & Hd1 & Hca1 & Hcl1 & P1 & Hc1). rewrite Hs.
    destruct (IH s1 Hd1 Hca1 Hcl1 Hnc') as (P2 & Hfin).
    destruct (list_run_from true s1 evs) as [s2 o2]. cbn [fst snd] in *.
    split.
    + rewrite litems_app, P1, P2, app_assoc. reflexivity.
    + intros [H|H].
      * apply in_app_or in H. destruct H as [H|H]; [apply Hfin; right; apply Hc1; left; exact H|apply Hfin; left; exact H].
      * apply Hfin. right. apply Hc1. right. exact H.
Qed.

Lemma all_returned_nil chans : all_returned chans = true -> concat (map cut chans) = [].
Proof.
  unfold all_returned. induction chans as [|c chans IH]; intros H; [reflexivity|]. cbn in H.
  apply andb_true_iff in H. destruct H as (Hc & H). destruct c; [|discriminate]. cbn. exact (IH H).
Qed.

(* Union or error: when the caller does not cancel and the result channel has been closed, what the consumer
   received is exactly what every shard streamed up to and including its first failure -- so it is the union of
   the per-shard results when every stream ended with EOF, and it contains an error when some stream failed,
   whatever the status and however many items came before it. *)
Theorem list_union_or_error : forall chans evs,
  no_cancel evs -> In LClosed (list_run true chans evs) ->
  Permutation (concat (map cut chans)) (litems (list_run true chans evs)) /\
  (Forall (fun ch => Forall (fun x => is_err x = false) ch) chans ->
     Permutation (concat chans) (litems (list_run true chans evs))) /\
  ((exists ch x, In ch chans /\ In x ch /\ is_err x = true) ->
     exists y, In y (litems (list_run true chans evs)) /\ is_err y = true).
Proof.
  intros chans evs Hnc Hclosed.
  assert (Hmain : Permutation (concat (map cut chans)) (litems (list_run true chans evs))).
  { unfold list_run in *.
    set (s00 := mkL chans false false false) in *.
    destruct (maybe_close_inv s00 eq_refl ltac:(cbn; discriminate)) as ((Hd0 & Hc0) & Hch & _ & Hobs).
    assert (Hca0 : l_cancelled (fst (maybe_close s00)) = false).
    { unfold maybe_close. destruct (negb (l_closed s00) && all_returned (l_chans s00)); reflexivity. }
    destruct (maybe_close s00) as [s0 o0]. cbn [fst snd] in *.
    pose proof (list_run_cut evs s0 Hd0 Hca0 Hc0 Hnc) as (P & Hfin).
    destruct (list_run_from true s0 evs) as [s' o]. cbn [fst snd] in *.
    rewrite Hch in P. cbn [s00 l_chans] in P.
    assert (Hall : all_returned (l_chans s') = true).
    { apply Hfin. apply in_app_or in Hclosed. destruct Hclosed as [H|H]; [|left; exact H].
      right. destruct Hobs as [E|(E & _ & C)]; [rewrite E in H; destruct H|exact C]. }
    rewrite (all_returned_nil _ Hall), app_nil_r in P. rewrite litems_app.
    assert (litems o0 = []) by (destruct Hobs as [->|(-> & _)]; reflexivity).
    rewrite H. exact P. }
  split; [exact Hmain|]. split.
  - intros Hef. rewrite <- Hmain. 
    assert (E : map cut chans = chans).
    { clear - Hef. induction chans as [|c cs IHc]; [reflexivity|]. inversion Hef; subst. cbn.
      rewrite (cut_err_free c) by assumption. f_equal. apply IHc. assumption. }
    rewrite E. reflexivity.
  - intros (ch & x & Hch & Hx & Ex).
    destruct (cut_keeps_error ch (ex_intro _ x (conj Hx Ex))) as (y & Hy & Ey).
    exists y. split; [|exact Ey]. eapply Permutation_in; [exact Hmain|].
    apply in_concat. exists (cut ch). split; [apply in_map; exact Hch|exact Hy].
Qed.
