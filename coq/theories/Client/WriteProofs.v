(* A write request that has been handed to the transport is never sent a second time, whatever the stream does
   afterwards; requests that were never sent may be retried. *)
From Coq Require Import List NArith Bool Lia.
From Oxia.Client Require Import WriteModel.
Import ListNotations.

(* For every sequence of attempt outcomes -- every status code, any number of connection / send failures before,
   any way the stream breaks after the request is on the wire -- at most one stream.Send of the request succeeds,
   and nothing is attempted after it. *)
Theorem write_sent_at_most_once : forall atts, count_sent (write_path true atts) <= 1.
Proof.
  induction atts as [|a rest IH]; cbn [write_path]; [cbn; lia|].
  destruct a as [c|c|r|c].
  - destruct (retriable c); [destruct rest; [cbn; lia|exact IH]|cbn; lia].
  - destruct (retriable c); [destruct rest; [cbn; lia|exact IH]|cbn; lia].
  - cbn. lia.
  - cbn. lia.
Qed.

(* the outcome is reported exactly once *)
Theorem write_done_once : forall atts, atts <> [] ->
  exists pre r, write_path true atts = pre ++ [WDone r] /\ (pre = [] \/ pre = [WSent]).
Proof.
  induction atts as [|a rest IH]; intros H; [congruence|]. cbn [write_path].
  destruct a as [c|c|r|c].
  - destruct (retriable c); [destruct rest as [|b rest']; [exists [], (WErrCode c); auto|apply IH; discriminate]|exists [], (WErrCode c); auto].
  - destruct (retriable c); [destruct rest as [|b rest']; [exists [], (WErrCode c); auto|apply IH; discriminate]|exists [], (WErrCode c); auto].
  - exists [WSent], (WOk r). auto.
  - exists [WSent], WErrEOF. auto.
Qed.

(* a request that was never on the wire is retried: connection refused with NodeIsNotLeader, then a stream whose
   Send fails with Unavailable, then success *)
Example write_retry_example :
  write_path true [WConnFail 106; WSendFail 14; WAnswered 7; WAnswered 8] = [WSent; WDone (WOk 7)].
Proof. reflexivity. Qed.

(* Were the in-flight failures reported with the stream's status, a request on the wire would be sent again *)
Theorem write_resent_without_eof_flattening :
  exists atts, count_sent (write_path false atts) = 2.
Proof. exists [WStreamFailed 14; WAnswered 7]. reflexivity. Qed.
