(* Model of the client-side batching and multi-shard fan-out code:

     oxia/batch/batcher.go                       batcherImpl.Add / Run / Close
     oxia/internal/batch/write_batch.go          writeBatch  CanAdd / Add / Size / Complete / Fail / handle / toProto
     oxia/internal/batch/read_batch.go           readBatch   (same interface)
     oxia/internal/write_stream.go               streamWrapper Send / handleResponses / handleStreamClosed
     oxia/async_client_impl.go                   aggregateAndSortRangeScanAcrossShards, doMultiShardGet,
                                                 selectResponse, compareGetResponse, List
     oxia/results_heap.go                        ResultHeap.Less

   Definitions only (proofs are in Proofs.v).  Go panics are explicit outcomes ([Panicked] observations and a
   [dead] state: the panic happens on a goroutine nobody recovers, i.e. the client process is gone).
   Everything the environment decides -- the executor's answer, the order of events, the order in which
   per-shard answers arrive -- is an input. *)
From Coq Require Import List NArith ZArith Bool.
Import ListNotations.

(* ------------------------------------------------------------------ *)
(** * 1. Calls, batches, the executor                                   *)

Inductive ckind := KPut | KDelete | KDeleteRange | KGet.

(* A call submitted to a batcher: an identity (stands for the callback closure), its Go type, and
   getByteSize(call) (len(key)+len(value) | len(key) | len(min)+len(max)). *)
Record call := mkCall { c_id : N; c_kind : ckind; c_size : N }.

Inductive bkind := BWrite | BRead.

Record config := mkConfig {
  cf_kind : bkind;          (* which batch factory the batcher was built with *)
  cf_linger_pos : bool;     (* b.linger > 0 *)
  cf_max_requests : Z;      (* b.maxRequestsPerBatch (Go int) *)
  cf_max_bytes : Z          (* writeBatch.maxByteSize (Go int) *)
}.

(* writeBatch{puts, deletes, deleteRanges, byteSize} and readBatch{gets} in one record; a batch of one kind
   never touches the lists of the other kind. *)
Record batch := mkBatch {
  b_puts : list call; b_dels : list call; b_ranges : list call; b_gets : list call; b_bytes : Z }.

Definition new_batch : batch := mkBatch [] [] [] [] 0%Z.

(* proto.WriteRequest{Puts, Deletes, DeleteRanges} / proto.ReadRequest{Gets}: one entry per call, in order *)
Record request := mkReq { q_puts : list call; q_dels : list call; q_ranges : list call; q_gets : list call }.
(* proto.WriteResponse / ReadResponse: lists of opaque answers *)
Record response := mkResp { r_puts : list N; r_dels : list N; r_ranges : list N; r_gets : list N }.

Inductive exec_result := EOk (r : response) | EErr (e : N).

(* what a callback receives *)
Inductive result := ROk (payload : N) | RErr (e : N) | RShutdown.

(* observable actions of a batcher: a request handed to the executor, a callback invocation, a Go panic *)
Inductive obs := Sent (n : N) (q : request) | Done (c : call) (r : result) | Panicked.

(* getByteSize: panics ("invalid call") on anything that is not a write call *)
Definition write_byte_size (c : call) : option Z :=
  match c_kind c with
  | KGet => None
  | _ => Some (Z.of_N (c_size c))
  end.

(* CanAdd.  None = Go panic *)
Definition can_add (cfg : config) (b : batch) (c : call) : option bool :=
  match cf_kind cfg with
  | BWrite => match write_byte_size c with
              | None => None
              | Some sz => Some (Z.leb (b_bytes b + sz) (cf_max_bytes cfg))
              end
  | BRead => Some true
  end.

(* Add.  None = Go panic("invalid call") *)
Definition add (cfg : config) (b : batch) (c : call) : option batch :=
  match cf_kind cfg, c_kind c with
  | BWrite, KPut => Some (mkBatch (b_puts b ++ [c]) (b_dels b) (b_ranges b) (b_gets b) (b_bytes b + Z.of_N (c_size c)))
  | BWrite, KDelete => Some (mkBatch (b_puts b) (b_dels b ++ [c]) (b_ranges b) (b_gets b) (b_bytes b + Z.of_N (c_size c)))
  | BWrite, KDeleteRange => Some (mkBatch (b_puts b) (b_dels b) (b_ranges b ++ [c]) (b_gets b) (b_bytes b + Z.of_N (c_size c)))
  | BWrite, KGet => None
  | BRead, KGet => Some (mkBatch (b_puts b) (b_dels b) (b_ranges b) (b_gets b ++ [c]) (b_bytes b))
  | BRead, _ => None
  end.

(* Size() *)
Definition bsize (cfg : config) (b : batch) : Z :=
  match cf_kind cfg with
  | BWrite => Z.of_nat (length (b_puts b) + length (b_dels b) + length (b_ranges b))
  | BRead => Z.of_nat (length (b_gets b))
  end.

(* the calls of a batch in the order in which Fail / handle visit them *)
Definition batch_calls (cfg : config) (b : batch) : list call :=
  match cf_kind cfg with
  | BWrite => b_puts b ++ b_dels b ++ b_ranges b
  | BRead => b_gets b
  end.

Definition to_proto (cfg : config) (b : batch) : request :=
  match cf_kind cfg with
  | BWrite => mkReq (b_puts b) (b_dels b) (b_ranges b) []
  | BRead => mkReq [] [] [] (b_gets b)
  end.

(* Fail(err): every callback gets (nil, err) *)
Definition fail_batch (cfg : config) (b : batch) (r : result) : list obs :=
  map (fun c => Done c r) (batch_calls cfg b).

(* for i, c := range calls { c.Callback(response.X[i], nil) }   -- index out of range = panic, after the
   callbacks of the earlier positions have run *)
Fixpoint handle_from (i : nat) (cs : list call) (rs : list N) : list obs * bool :=
  match cs with
  | [] => ([], false)
  | c :: cs' =>
      match nth_error rs i with
      | None => ([Panicked], true)
      | Some r => let (o, p) := handle_from (S i) cs' rs in (Done c (ROk r) :: o, p)
      end
  end.

Definition handle (cfg : config) (b : batch) (resp : response) : list obs * bool :=
  match cf_kind cfg with
  | BWrite =>
      let (o1, p1) := handle_from 0 (b_puts b) (r_puts resp) in
      if p1 then (o1, true) else
      let (o2, p2) := handle_from 0 (b_dels b) (r_dels resp) in
      if p2 then (o1 ++ o2, true) else
      let (o3, p3) := handle_from 0 (b_ranges b) (r_ranges resp) in
      (o1 ++ o2 ++ o3, p3)
  | BRead => handle_from 0 (b_gets b) (r_gets resp)
  end.

Section Batcher.
  (* The executor, seen after doRequestWithRetries: the [n]-th request handed to it and its content decide the
     answer -- any behaviour at all, including answers of the wrong length. *)
  Variable exec : N -> request -> exec_result.
  Variable cfg : config.

  (* Complete(): returns (next request number, observations, panicked) *)
  Definition complete (n : N) (b : batch) : N * list obs * bool :=
    match cf_kind cfg, Z.eqb (bsize cfg b) 0 with
    | BWrite, true => (n, [], false)                       (* if b.Size() == 0 { return } -- write batch only *)
    | _, _ =>
        let q := to_proto cfg b in
        match exec n q with
        | EErr e => (N.succ n, Sent n q :: fail_batch cfg b (RErr e), false)
        | EOk resp => let (o, p) := handle cfg b resp in (N.succ n, Sent n q :: o, p)
        end
    end.

  (* Run's local variable [batch], the closed flag / closeC, the number of requests executed so far,
     and "the process has panicked". *)
  Record bstate := mkB { st_batch : option batch; st_closed : bool; st_nexec : N; st_dead : bool }.

  Definition init_state : bstate := mkB None false 0%N false.

  (* Call c = Add(c) and, when the batcher is open, Run's [case call := <-b.callC] for it;
     Tick   = Run's [case <-timeout];
     Close  = Close() and Run's [case <-b.closeC] (callC is empty at that point: calls are atomic here). *)
  Inductive event := Call (c : call) | Tick | Close.

  Definition kill (s : bstate) (n : N) : bstate := mkB (st_batch s) (st_closed s) n true.

  Definition step (s : bstate) (ev : event) : bstate * list obs :=
    if st_dead s then (s, []) else
    match ev with
    | Call c =>
        if st_closed s then
          (* failCall: batch := batchFactory(); batch.Add(call); batch.Fail(ErrShuttingDown) *)
          match add cfg new_batch c with
          | None => (kill s (st_nexec s), [Panicked])
          | Some b => (s, fail_batch cfg b RShutdown)
          end
        else
          let b0 := match st_batch s with Some b => b | None => new_batch end in      (* newBatch() *)
          match can_add cfg b0 c with
          | None => (kill s (st_nexec s), [Panicked])
          | Some ca =>
              let '(n1, o1, p1, b1) :=
                if ca then (st_nexec s, [], false, b0)
                else let '(n, o, p) := complete (st_nexec s) b0 in (n, o, p, new_batch) in   (* completeBatch(); newBatch() *)
              if p1 then (kill s n1, o1) else
              match add cfg b1 c with
              | None => (kill s n1, o1 ++ [Panicked])
              | Some b2 =>
                  if Z.eqb (bsize cfg b2) (cf_max_requests cfg) || negb (cf_linger_pos cfg) then
                    let '(n2, o2, p2) := complete n1 b2 in
                    (mkB None false n2 p2, o1 ++ o2)
                  else (mkB (Some b2) false n1 false, o1)
              end
          end
    | Tick =>
        (* with linger = 0 [timeout] is a nil channel: the case is never taken *)
        if cf_linger_pos cfg then
          match st_batch s with
          | Some b => let '(n, o, p) := complete (st_nexec s) b in (mkB None (st_closed s) n p, o)
          | None => (s, [])
          end
        else (s, [])
    | Close =>
        if st_closed s then (kill s (st_nexec s), [Panicked])        (* close of closed channel *)
        else
          match st_batch s with
          | Some b =>
              (* timer.Stop() with a nil timer when linger = 0: nil dereference *)
              if cf_linger_pos cfg then (mkB None true (st_nexec s) false, fail_batch cfg b RShutdown)
              else (kill s (st_nexec s), [Panicked])
          | None => (mkB None true (st_nexec s) false, [])
          end
    end.

  Fixpoint run_from (s : bstate) (evs : list event) : bstate * list obs :=
    match evs with
    | [] => (s, [])
    | ev :: evs' =>
        let (s1, o1) := step s ev in
        let (s2, o2) := run_from s1 evs' in
        (s2, o1 ++ o2)
    end.

  Definition run (evs : list event) : bstate * list obs := run_from init_state evs.

  (* the observations event by event (what the correspondence check compares) *)
  Fixpoint run_trace (s : bstate) (evs : list event) : list (list obs) :=
    match evs with
    | [] => []
    | ev :: evs' => let (s1, o1) := step s ev in o1 :: run_trace s1 evs'
    end.
End Batcher.

(* ---- doRequestWithRetries: the executor of the batcher, attempt by attempt ----
   One attempt of a read request (readBatch.doRequest): execute() opens a stream, the chunks received are appended
   to a response that is created afresh for this attempt, and the stream ends with io.EOF (AOk), with a retriable
   status (Unavailable, InvalidStatus, AlreadyClosed, NodeIsNotLeader) or with any other error (AFatal); execute()
   failing is an attempt without chunks.  A write attempt (writeBatch: b.execute) is one chunk or an error.
   backoff.RetryNotify repeats the attempt while its error is retriable; the request timeout ends the loop with
   an error.  The attempts are independent: what the batch sees is the outcome of the LAST attempt only. *)
Inductive ending := AOk | ARetriable (e : N) | AFatal (e : N).
Record attempt := mkAttempt { at_chunks : list response; at_end : ending }.

Definition resp_append (r c : response) : response :=
  mkResp (r_puts r ++ r_puts c) (r_dels r ++ r_dels c) (r_ranges r ++ r_ranges c) (r_gets r ++ r_gets c).

(* response := &proto.ReadResponse{};  for each chunk: response.Gets = append(response.Gets, recv.Gets...) *)
Definition do_request (a : attempt) : response :=
  fold_left resp_append (at_chunks a) (mkResp [] [] [] []).

(* the first attempt and the ones that follow as long as the loop goes on *)
Fixpoint with_retries (a : attempt) (rest : list attempt) : exec_result :=
  match at_end a with
  | AOk => EOk (do_request a)
  | AFatal e => EErr e
  | ARetriable e =>
      match rest with
      | [] => EErr e                      (* the request timeout has expired: no further attempt *)
      | a' :: rest' => with_retries a' rest'
      end
  end.

(* the environment: for the n-th request, what each attempt at it is answered *)
Definition retry_exec (script : N -> request -> attempt * list attempt) (n : N) (q : request) : exec_result :=
  let (a, rest) := script n q in with_retries a rest.

(* A scripted executor (used by the driver and by the examples): the n-th request is answered according to the
   n-th entry: a list of attempts that deliver the first k answers and then fail with a retriable error, and a
   final behaviour; answers echo the request number, the attempt number and the call id. *)
Inductive behaviour :=
  | BhOk
  | BhErr (e : N)
  | BhShort (k : ckind) (d : nat)      (* the answer list of kind k lacks its last d entries *)
  | BhLong (k : ckind) (d : nat).      (* ... has d extra entries *)

Definition echo (n : N) (a : nat) (c : call) : N := (n * 1000000 + N.of_nat a * 100000 + c_id c)%N.

Definition tweak (bh : behaviour) (k : ckind) (l : list N) : list N :=
  match bh with
  | BhShort k' d => if match k, k' with KPut, KPut | KDelete, KDelete | KDeleteRange, KDeleteRange | KGet, KGet => true | _, _ => false end
                    then firstn (length l - d) l else l
  | BhLong k' d => if match k, k' with KPut, KPut | KDelete, KDelete | KDeleteRange, KDeleteRange | KGet, KGet => true | _, _ => false end
                   then l ++ repeat 0%N d else l
  | _ => l
  end.

Definition final_attempt (bh : behaviour) (n : N) (a : nat) (q : request) : attempt :=
  match bh with
  | BhErr e => mkAttempt [] (AFatal e)
  | _ => mkAttempt [mkResp (tweak bh KPut (map (echo n a) (q_puts q)))
                           (tweak bh KDelete (map (echo n a) (q_dels q)))
                           (tweak bh KDeleteRange (map (echo n a) (q_ranges q)))
                           (tweak bh KGet (map (echo n a) (q_gets q)))] AOk
  end.

(* the stream delivers the answers of the first k gets, then fails with a retriable status *)
Definition partial_attempt (n : N) (a : nat) (k : nat) (q : request) : attempt :=
  mkAttempt [mkResp [] [] [] (firstn k (map (echo n a) (q_gets q)))] (ARetriable 0).

Fixpoint partial_attempts (n : N) (a : nat) (ks : list nat) (q : request) : list attempt :=
  match ks with
  | [] => []
  | k :: ks' => partial_attempt n a k q :: partial_attempts n (S a) ks' q
  end.

Definition scripted_attempts (script : list (list nat * behaviour)) (n : N) (q : request) : attempt * list attempt :=
  let (ks, bh) := nth (N.to_nat n) script ([], BhOk) in
  match partial_attempts n 0 ks q with
  | [] => (final_attempt bh n 0 q, [])
  | p :: ps => (p, ps ++ [final_attempt bh n (length ks) q])
  end.

Definition scripted_exec (script : list (list nat * behaviour)) : N -> request -> exec_result :=
  retry_exec (scripted_attempts script).

(* ------------------------------------------------------------------ *)
(** * 2. The write stream wrapper                                       *)

Inductive sres := SOk (r : N) | SErrSend | SEOF | SErrCtx.

(* SSend f ok : Send() for future f, stream.Send succeeds or not;  SRecvOk r : stream.Recv() returns a response;
   SRecvErr : stream.Recv() returns an error;  SCtxDone : stream.Context() is done;
   SWaitCancel f : the context passed to Send() for f (per-request timeout / cancellation) is done while Send
   waits in f.Wait(ctx): Send returns the context error, the future STAYS in pendingRequests (the request is
   on the wire and the server will still answer it). *)
Inductive sevent := SSend (f : N) (ok : bool) | SRecvOk (r : N) | SRecvErr | SCtxDone | SWaitCancel (f : N).

(* SDone f r : the Send() call for f returns r *)
Inductive sobs := SDone (f : N) (r : sres) | SPanicked.

(* pendingRequests: the futures with "somebody is still waiting on it" (a Send whose stream.Send failed has
   returned already but its future stays in the queue) *)
Record sstate := mkS {
  ss_pending : list (N * bool);
  ss_failed : bool;
  ss_recv_exited : bool;      (* handleResponses has returned *)
  ss_closed_exited : bool;    (* handleStreamClosed has returned *)
  ss_dead : bool }.

Definition sinit : sstate := mkS [] false false false false.

(* the first future of f somebody still waits on is abandoned; None: nobody waits on f *)
Fixpoint abandon (f : N) (p : list (N * bool)) : option (list (N * bool)) :=
  match p with
  | [] => None
  | (g, live) :: tl =>
      if N.eqb g f && live then Some ((g, false) :: tl)
      else match abandon f tl with
           | Some tl' => Some ((g, live) :: tl')
           | None => None
           end
  end.

Definition eof_obs (p : list (N * bool)) : list sobs :=
  flat_map (fun fl : N * bool => if snd fl then [SDone (fst fl) SEOF] else []) p.

(* [guard] = the emptiness check added to handleResponses by the fix; [false] is the code as found. *)
Definition stream_step (guard : bool) (s : sstate) (ev : sevent) : sstate * list sobs :=
  if ss_dead s then (s, []) else
  match ev with
  | SSend f ok =>
      if ok then (mkS (ss_pending s ++ [(f, true)]) (ss_failed s) (ss_recv_exited s) (ss_closed_exited s) false, [])
      else (mkS (ss_pending s ++ [(f, false)]) true (ss_recv_exited s) (ss_closed_exited s) false, [SDone f SErrSend])
  | SRecvOk r =>
      if ss_recv_exited s then (s, []) else
      match ss_pending s with
      | [] =>
          if guard then (mkS [] true true (ss_closed_exited s) false, [])
          else (mkS [] (ss_failed s) true (ss_closed_exited s) true, [SPanicked])    (* pendingRequests[0] / [1:] on an empty slice *)
      | (f, live) :: rest =>
          (mkS rest (ss_failed s) false (ss_closed_exited s) false, if live then [SDone f (SOk r)] else [])
      end
  | SRecvErr =>
      if ss_recv_exited s then (s, [])
      else (mkS (ss_pending s) true true (ss_closed_exited s) false, [])
  | SCtxDone =>
      if ss_closed_exited s then (s, [])
      else (mkS [] true (ss_recv_exited s) true false, eof_obs (ss_pending s))
  | SWaitCancel f =>
      match abandon f (ss_pending s) with
      | Some p' => (mkS p' (ss_failed s) (ss_recv_exited s) (ss_closed_exited s) false, [SDone f SErrCtx])
      | None => (s, [])
      end
  end.

Fixpoint stream_run_from (guard : bool) (s : sstate) (evs : list sevent) : sstate * list sobs :=
  match evs with
  | [] => (s, [])
  | ev :: evs' =>
      let (s1, o1) := stream_step guard s ev in
      let (s2, o2) := stream_run_from guard s1 evs' in
      (s2, o1 ++ o2)
  end.

Definition stream_run (guard : bool) (evs : list sevent) : sstate * list sobs := stream_run_from guard sinit evs.

(* ------------------------------------------------------------------ *)
(** * 3. k-way merge of range scans and the plain union of List         *)

(* GetResult: a record (key, rest of the record) or an error (Key == "") *)
Inductive item := IOk (key : list N) (payload : N) | IErr (e : N).

Definition item_key (it : item) : list N := match it with IOk k _ => k | IErr _ => [] end.
Definition is_err (it : item) : bool := match it with IErr _ => true | _ => false end.

(* ResultAndChannel: the value read from a channel and what that channel will still deliver before it is closed *)
Definition entry : Type := item * list item.

Section Merge.
  Variable lt : list N -> list N -> bool.     (* ResultHeap.Less on the keys *)

  (* heap.Pop: an entry no other entry is Less than (here: the first such one) and the remaining entries *)
  Fixpoint extract_min (l : list entry) : option (entry * list entry) :=
    match l with
    | [] => None
    | e :: tl =>
        match extract_min tl with
        | None => Some (e, [])
        | Some (m, rest) =>
            if lt (item_key (fst m)) (item_key (fst e)) then Some (m, e :: rest) else Some (e, tl)
        end
    end.

  (* if gr, ok := <-ch; ok { heap.Push(h, {gr, ch}) } *)
  Definition push_next (h : list entry) (ch : list item) : list entry :=
    match ch with
    | [] => h
    | x :: r => h ++ [(x, r)]
    end.

  Definition init_heap (chans : list (list item)) : list entry := fold_left push_next chans [].

  Fixpoint merge_loop (fuel : nat) (h : list entry) : list item :=
    match fuel with
    | O => []
    | S f =>
        match extract_min h with
        | None => []                                           (* h.Len() == 0: close(outCh) *)
        | Some ((x, rest), h') =>
            if is_err x then [x]                               (* outCh <- r.gr; close(outCh); return *)
            else x :: merge_loop f (push_next h' rest)
        end
    end.

  Definition total_items (chans : list (list item)) : nat := length (concat chans).

  Definition merge_k (chans : list (list item)) : list item :=
    merge_loop (S (total_items chans)) (init_heap chans).
End Merge.


(* List: every shard goroutine forwards its stream to the one result channel; the schedule says whose turn it is *)
Fixpoint list_union (sched : list nat) (chans : list (list item)) : list item :=
  match sched with
  | [] => []
  | i :: sched' =>
      match nth_error chans i with
      | Some (x :: r) =>
          x :: list_union sched' (firstn i chans ++ r :: skipn (S i) chans)
      | _ => list_union sched' chans
      end
  end.

(* List with the caller's context: clientImpl.List starts one goroutine per shard that forwards its stream to the
   result channel, and one goroutine that closes the channel.
     LFwd i    : shard i's goroutine hands its next item to the consumer (after an error item it returns);
     LCancel   : the context is done;
     LGiveUp i : (context done) shard i's stream fails with the context error.
   [fixed = false] is the code as found: the closer waits with wg.Wait(ctx), i.e. closes the channel as soon as the
   context is done, and a shard goroutine sends unconditionally -- a send on the closed channel panics.
   [fixed = true]: sends give up when the context is done, the closer waits for every shard goroutine. *)
Inductive levent := LFwd (i : nat) | LGiveUp (i : nat) | LCancel.
Inductive lobs := LItem (x : item) | LClosed | LPanicked.

(* l_chans: what each shard goroutine will still forward ([] = it has returned) *)
Record lstate := mkL { l_chans : list (list item); l_cancelled : bool; l_closed : bool; l_dead : bool }.

Definition all_returned (chans : list (list item)) : bool :=
  forallb (fun c => match c with [] => true | _ => false end) chans.

Definition set_nth (i : nat) (c : list item) (chans : list (list item)) : list (list item) :=
  firstn i chans ++ c :: skipn (S i) chans.

(* every shard goroutine has called wg.Done(): the closer closes the channel (once) *)
Definition maybe_close (s : lstate) : lstate * list lobs :=
  if negb (l_closed s) && all_returned (l_chans s)
  then (mkL (l_chans s) (l_cancelled s) true (l_dead s), [LClosed])
  else (s, []).

Definition list_step (fixed : bool) (s : lstate) (ev : levent) : lstate * list lobs :=
  if l_dead s then (s, []) else
  match ev with
  | LFwd i =>
      match nth_error (l_chans s) i with
      | Some (x :: r) =>
          if l_closed s then (mkL (l_chans s) (l_cancelled s) true true, [LPanicked])      (* send on closed channel *)
          else
            let r' := if is_err x then [] else r in
            let (s2, o) := maybe_close (mkL (set_nth i r' (l_chans s)) (l_cancelled s) false false) in
            (s2, LItem x :: o)
      | _ => (s, [])
      end
  | LGiveUp i =>
      if negb (l_cancelled s) then (s, []) else
      match nth_error (l_chans s) i with
      | Some (x :: r) =>
          if fixed then maybe_close (mkL (set_nth i [] (l_chans s)) true (l_closed s) false)
          else if l_closed s then (mkL (l_chans s) true true true, [LPanicked])            (* ch <- ListResult{Err: ctx error} *)
          else
            let (s2, o) := maybe_close (mkL (set_nth i [] (l_chans s)) true false false) in
            (s2, LItem (IErr 0) :: o)
      | _ => (s, [])
      end
  | LCancel =>
      if l_cancelled s then (s, [])
      else if fixed then (mkL (l_chans s) true (l_closed s) false, [])
      else if l_closed s then (mkL (l_chans s) true true false, [])
      else (mkL (l_chans s) true true false, [LClosed])                                    (* wg.Wait(ctx) returns; close(ch) *)
  end.

Fixpoint list_run_from (fixed : bool) (s : lstate) (evs : list levent) : lstate * list lobs :=
  match evs with
  | [] => (s, [])
  | ev :: evs' =>
      let (s1, o1) := list_step fixed s ev in
      let (s2, o2) := list_run_from fixed s1 evs' in
      (s2, o1 ++ o2)
  end.

Definition list_run (fixed : bool) (chans : list (list item)) (evs : list levent) : list lobs :=
  let (s0, o0) := maybe_close (mkL chans false false false) in
  o0 ++ snd (list_run_from fixed s0 evs).

(* ------------------------------------------------------------------ *)
(** * 4. doMultiShardGet                                                *)

Inductive cmp_type := CEqual | CFloor | CLower | CCeiling | CHigher.
Inductive gstatus := GOk | GNotFound | GOther.

(* proto.GetResponse: Status, Key (optional), SecondaryIndexKey (optional), and the rest *)
Record gresp := mkG { g_status : gstatus; g_key : option (list N); g_sec : option (list N); g_payload : N }.

(* what one shard's callback is invoked with: (response, nil) or (nil, err) *)
Inductive arrival := AResp (r : gresp) | AErr (e : N).

Inductive gres := GResult (key : list N) (payload : N) | GErrNotFound | GErrStatus | GErr (e : N).
Inductive gobs := GSend (r : gres) | GClose | GPanicked.

Definition get_key (r : gresp) : list N := match g_key r with Some k => k | None => [] end.

Section MultiGet.
  Variable cmp : list N -> list N -> comparison.     (* compare.CompareWithSlash *)

  Definition compare_get_response (a b : gresp) : comparison :=
    match g_sec a, g_sec b with
    | Some sa, Some sb =>
        match cmp sa sb with
        | Eq => cmp (get_key a) (get_key b)
        | c => c
        end
    | _, _ => cmp (get_key a) (get_key b)
    end.

  (* selected = None is the keyNotFound sentinel *)
  Definition select_response (kc : cmp_type) (selected : option gresp) (response : option gresp) : option gresp :=
    match response with
    | Some r =>
        match g_status r with
        | GOk =>
            match kc, selected with
            | _, None => Some r
            | CEqual, Some _ => selected
            | (CFloor | CLower), Some s =>
                match compare_get_response s r with Lt => Some r | _ => selected end
            | (CCeiling | CHigher), Some s =>
                match compare_get_response s r with Gt => Some r | _ => selected end
            end
        | _ => selected
        end
    | None => selected
    end.

  (* toGetResult(selected, key, nil) *)
  Definition to_get_result (sel : option gresp) (orig : list N) : gres :=
    match sel with
    | None => GErrNotFound
    | Some r =>
        match g_status r with
        | GOk => GResult (match g_key r with Some k => k | None => orig end) (g_payload r)
        | GNotFound => GErrNotFound
        | GOther => GErrStatus
        end
    end.

  Record mgstate := mkMG { mg_counter : Z; mg_selected : option gresp; mg_closed : bool; mg_dead : bool }.

  Variable with_return : bool.     (* true = the fixed code ("return" after the error branch), false = as found *)
  Variable kc : cmp_type.
  Variable orig : list N.

  (* selected = selectResponse(...); counter--; if counter == 0 { ch <- ...; close(ch) } *)
  Definition mg_tail (s : mgstate) (resp : option gresp) : mgstate * list gobs :=
    let sel := select_response kc (mg_selected s) resp in
    let c := (mg_counter s - 1)%Z in
    if Z.eqb c 0 then
      if mg_closed s then (mkMG c sel true true, [GPanicked])              (* send on closed channel *)
      else (mkMG c sel true false, [GSend (to_get_result sel orig); GClose])
    else (mkMG c sel (mg_closed s) false, []).

  (* one invocation of the callback built by doMultiShardGet (it runs under the mutex m) *)
  Definition mg_step (s : mgstate) (a : arrival) : mgstate * list gobs :=
    if mg_dead s then (s, []) else
    if Z.eqb (mg_counter s) 0 then (s, []) else
    match a with
    | AErr e =>
        if mg_closed s then (mkMG (mg_counter s) (mg_selected s) true true, [GPanicked])   (* send on closed channel *)
        else
          let s1 := mkMG 0 (mg_selected s) true false in
          if with_return then (s1, [GSend (GErr e); GClose])
          else let (s2, o2) := mg_tail s1 None in (s2, [GSend (GErr e); GClose] ++ o2)
    | AResp r => mg_tail s (Some r)
    end.

  Fixpoint mg_run (s : mgstate) (arr : list arrival) : mgstate * list gobs :=
    match arr with
    | [] => (s, [])
    | a :: arr' =>
        let (s1, o1) := mg_step s a in
        let (s2, o2) := mg_run s1 arr' in
        (s2, o1 ++ o2)
    end.

  (* counter := len(shards); selected := keyNotFound *)
  Definition multi_get (nshards : nat) (arr : list arrival) : mgstate * list gobs :=
    mg_run (mkMG (Z.of_nat nshards) None false false) arr.
End MultiGet.

