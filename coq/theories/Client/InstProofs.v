(* The abstract comparison of MergeProofs / MultiGetProofs instantiated with compare.CompareWithSlash,
   whose total-order laws are proved in Oxia.KeyOrder.Proofs (property C11). *)
From Coq Require Import List NArith ZArith Bool Sorting.Sorted Permutation.
From Oxia.KeyOrder Require Import Model Proofs.
From Oxia.Client Require Import Model Inst MergeProofs MultiGetProofs.
Import ListNotations.

Lemma cmp_slash_total : total_order cmp_slash.
Proof.
  split; [exact cmp_slash_antisym|]. split; [|exact cmp_slash_trans].
  intros a b H. apply cmp_slash_eq. exact H.
Qed.

Lemma key_ltb_is_ltb_of : key_ltb = ltb_of cmp_slash.
Proof. reflexivity. Qed.

(* key order on the items of a range scan: records by CompareWithSlash on their keys, an error only last *)
Definition item_le_slash : item -> item -> Prop := item_le key_ltb.

Theorem merge_slash_sorted : forall chans,
  Forall (Sorted item_le_slash) chans -> Sorted item_le_slash (merge_slash chans).
Proof.
  intros chans H. unfold item_le_slash, merge_slash. rewrite key_ltb_is_ltb_of.
  apply merge_sorted_cmp; [exact cmp_slash_total|exact H].
Qed.

Theorem merge_slash_sorted_perm : forall chans,
  Forall (Sorted item_le_slash) chans ->
  Sorted item_le_slash (merge_slash chans) /\
  (err_free (concat chans) -> Permutation (concat chans) (merge_slash chans)).
Proof.
  intros chans H. split; [apply merge_slash_sorted; exact H|apply merge_perm_no_error].
Qed.

Theorem merge_slash_perm : forall chans,
  exists leftover, Permutation (concat chans) (merge_slash chans ++ leftover) /\
    ( (leftover = [] /\ err_free (merge_slash chans))
      \/ exists l e, merge_slash chans = l ++ [IErr e] /\ err_free l ).
Proof. intros chans. apply merge_perm. Qed.

Theorem multi_get_slash_extremum : forall kc orig (l : list gresp),
  uniform l ->
  match fold_select cmp_slash kc None l with
  | None => oks l = [] /\ to_get_result (fold_select cmp_slash kc None l) orig = GErrNotFound
  | Some m =>
      In m (oks l) /\
      to_get_result (fold_select cmp_slash kc None l) orig =
        GResult (match g_key m with Some k => k | None => orig end) (g_payload m) /\
      match kc with
      | CEqual => exists tl, oks l = m :: tl
      | CFloor | CLower => forall r, In r (oks l) -> gle cmp_slash r m
      | CCeiling | CHigher => forall r, In r (oks l) -> gle cmp_slash m r
      end
  end.
Proof. intros kc orig l Hu. apply multi_get_is_extremum; [exact cmp_slash_total|exact Hu]. Qed.

(* in the slash order "a" < "b" < "a/b" < "a/c"; an error closes the second stream *)
Definition ex_chans : list (list item) :=
  [[IOk [98] 2; IOk [97;47;98] 1]; [IOk [97] 3; IOk [97;47;99] 4; IErr 9]]%N.

Example merge_slash_example :
  Forall (Sorted item_le_slash) ex_chans /\
  merge_slash ex_chans = [IOk [97] 3; IOk [98] 2; IOk [97;47;98] 1; IOk [97;47;99] 4; IErr 9]%N.
Proof.
  split; [|vm_compute; reflexivity].
  repeat (first [apply Forall_nil | apply Forall_cons | apply Sorted_nil | apply Sorted_cons
                 | apply HdRel_nil | apply HdRel_cons]);
    unfold item_le_slash, item_le; first [left; reflexivity | right; repeat split; reflexivity].
Qed.
