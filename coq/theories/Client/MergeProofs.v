(* The k-way merge of aggregateAndSortRangeScanAcrossShards: its output is the input without loss or
   duplication (whatever the comparison does), cut after the first error it meets; and it is sorted when
   every per-shard stream is sorted and the comparison is a total order.  Also: List is the plain union. *)
From Coq Require Import List NArith ZArith Bool Lia Arith Permutation Sorting.Sorted RelationClasses.
From Oxia.Client Require Import Model.
Import ListNotations.

Definition flatten (h : list entry) : list item := flat_map (fun e : entry => fst e :: snd e) h.

Definition err_free (l : list item) : Prop := Forall (fun x => is_err x = false) l.

Lemma flatten_app a b : flatten (a ++ b) = flatten a ++ flatten b.
Proof. apply flat_map_app. Qed.

Section MergePerm.
  Variable lt : list N -> list N -> bool.

  Lemma extract_min_perm : forall l m rest,
    extract_min lt l = Some (m, rest) -> Permutation l (m :: rest).
  Proof.
    induction l as [|e tl IH]; intros m rest H; cbn [extract_min] in H; [discriminate|].
    destruct (extract_min lt tl) as [[m' rest']|] eqn:E.
    - specialize (IH m' rest' eq_refl).
      destruct (lt (item_key (fst m')) (item_key (fst e))); inversion H; subst.
      + rewrite IH. apply perm_swap.
      + reflexivity.
    - inversion H; subst. destruct tl; [reflexivity|].
      cbn [extract_min] in E. destruct (extract_min lt tl) as [[? ?]|]; [destruct (lt _ _)|]; discriminate.
  Qed.

  Lemma extract_min_none l : extract_min lt l = None -> l = [].
  Proof.
    destruct l as [|e tl]; [reflexivity|]. cbn [extract_min].
    destruct (extract_min lt tl) as [[? ?]|]; [destruct (lt _ _)|]; discriminate.
  Qed.

  Lemma flatten_push h ch : flatten (push_next h ch) = flatten h ++ ch.
  Proof.
    destruct ch as [|x r]; cbn [push_next]; [now rewrite app_nil_r|].
    rewrite flatten_app. cbn. now rewrite app_nil_r.
  Qed.

  Lemma flatten_init chans : flatten (init_heap chans) = concat chans.
  Proof.
    unfold init_heap.
    assert (G : forall h, flatten (fold_left push_next chans h) = flatten h ++ concat chans).
    { induction chans as [|ch chans IH]; intros h; cbn [fold_left concat]; [now rewrite app_nil_r|].
      rewrite IH, flatten_push, app_assoc. reflexivity. }
    apply (G []).
  Qed.

  Lemma flatten_perm h h' : Permutation h h' -> Permutation (flatten h) (flatten h').
  Proof. intros H. unfold flatten. apply Permutation_flat_map. exact H. Qed.

  (* what the loop emits, plus what it leaves unread, is what was there *)
  Lemma merge_loop_perm : forall fuel h,
    length (flatten h) < fuel ->
    exists leftover, Permutation (flatten h) (merge_loop lt fuel h ++ leftover) /\
      ( (leftover = [] /\ err_free (merge_loop lt fuel h))
        \/ exists l e, merge_loop lt fuel h = l ++ [IErr e] /\ err_free l ).
  Proof.
    induction fuel as [|fuel IH]; intros h Hf; [lia|]. cbn [merge_loop].
    destruct (extract_min lt h) as [[[x rest] h']|] eqn:E.
    - pose proof (extract_min_perm _ _ _ E) as P. apply flatten_perm in P. cbn [flatten flat_map fst snd] in P.
      fold (flatten h') in P.
      destruct (is_err x) eqn:Ex.
      + exists (rest ++ flatten h'). split; [exact P|]. right. destruct x as [|e]; [discriminate|].
        exists [], e. split; [reflexivity|constructor].
      + assert (Hlen : length (flatten (push_next h' rest)) < fuel).
        { rewrite flatten_push. apply Permutation_length in P. cbn [length] in P.
          rewrite !app_length in *. cbn [length] in *. lia. }
        destruct (IH _ Hlen) as (lo & Pl & Hshape).
        exists lo. split.
        * rewrite P. cbn [app]. apply perm_skip. rewrite <- Pl, flatten_push. apply Permutation_app_comm.
        * destruct Hshape as [(-> & Hef)|(l & e & -> & Hef)].
          -- left. split; [reflexivity|constructor; assumption].
          -- right. exists (x :: l), e. split; [reflexivity|constructor; assumption].
    - apply extract_min_none in E. subst h. exists []. split; [reflexivity|]. left. split; [reflexivity|constructor].
  Qed.

  Lemma merge_loop_incl : forall fuel h x, In x (merge_loop lt fuel h) -> In x (flatten h).
  Proof.
    induction fuel as [|fuel IH]; intros h x H; [destruct H|]. cbn [merge_loop] in H.
    destruct (extract_min lt h) as [[[y rest] h']|] eqn:E; [|destruct H].
    pose proof (extract_min_perm _ _ _ E) as P. apply flatten_perm in P. cbn [flatten flat_map fst snd] in P.
    fold (flatten h') in P.
    eapply Permutation_in; [symmetry; exact P|].
    destruct (is_err y).
    - destruct H as [<-|[]]. left. reflexivity.
    - destruct H as [<-|H]; [left; reflexivity|]. right.
      apply IH in H. rewrite flatten_push in H. apply in_app_or in H. apply in_or_app. tauto.
  Qed.
End MergePerm.

(* No loss, no duplication -- for every comparison function, every number of shards, every content:
   the merged output followed by what was left unread is a permutation of the per-shard streams; nothing is
   left unread unless the output ends with an error, and no error occurs before the last position. *)
Theorem merge_perm : forall lt chans,
  exists leftover, Permutation (concat chans) (merge_k lt chans ++ leftover) /\
    ( (leftover = [] /\ err_free (merge_k lt chans))
      \/ exists l e, merge_k lt chans = l ++ [IErr e] /\ err_free l ).
Proof.
  intros lt chans. unfold merge_k, total_items.
  destruct (merge_loop_perm lt (S (length (concat chans))) (init_heap chans)) as (lo & P & Hs).
  - rewrite flatten_init. lia.
  - exists lo. rewrite flatten_init in P. auto.
Qed.

Corollary merge_perm_no_error : forall lt chans,
  err_free (concat chans) -> Permutation (concat chans) (merge_k lt chans).
Proof.
  intros lt chans Hef. destruct (merge_perm lt chans) as (lo & P & [(-> & _)|(l & e & Hm & _)]).
  - now rewrite app_nil_r in P.
  - exfalso. assert (Hin : In (IErr e) (concat chans)).
    { eapply Permutation_in; [symmetry; exact P|]. rewrite Hm. apply in_or_app. left.
      apply in_or_app. right. left. reflexivity. }
    unfold err_free in Hef. rewrite Forall_forall in Hef. specialize (Hef _ Hin). discriminate.
Qed.

Section MergeSorted.
  Variable lt : list N -> list N -> bool.
  Definition le (a b : list N) : bool := negb (lt b a).

  (* lt is the strict part of a total preorder *)
  Hypothesis lt_asym : forall a b, lt a b = true -> lt b a = false.
  Hypothesis le_trans : forall a b c, le a b = true -> le b c = true -> le a c = true.

  (* "a may come before b": b is an error (errors end a stream), or both are records in key order *)
  Definition item_le (a b : item) : Prop :=
    is_err b = true \/ (is_err a = false /\ is_err b = false /\ le (item_key a) (item_key b) = true).

  Lemma item_le_trans a b c : item_le a b -> item_le b c -> item_le a c.
  Proof.
    intros [Hb|(Ha & Hb & Hab)] [Hc|(Hb' & Hc & Hbc)]; unfold item_le; auto; try congruence.
    right. repeat split; auto. eapply le_trans; eauto.
  Qed.

  Instance item_le_Transitive : Transitive item_le := item_le_trans.

  Lemma extract_min_least : forall l m rest,
    extract_min lt l = Some (m, rest) ->
    forall e, In e rest -> le (item_key (fst m)) (item_key (fst e)) = true.
  Proof.
    induction l as [|e0 tl IH]; intros m rest H e He; cbn [extract_min] in H; [discriminate|].
    destruct (extract_min lt tl) as [[m' rest']|] eqn:E.
    - specialize (IH m' rest' eq_refl).
      destruct (lt (item_key (fst m')) (item_key (fst e0))) eqn:L; inversion H; subst.
      + destruct He as [<-|He]; [|apply IH; exact He]. unfold le. now rewrite (lt_asym _ _ L).
      + (* e0 is not above m', and m' is below the rest of tl *)
        assert (H0 : le (item_key (fst m)) (item_key (fst m')) = true) by (unfold le; now rewrite L).
        pose proof (extract_min_perm lt _ _ _ E) as P.
        apply (Permutation_in _ P) in He. destruct He as [<-|He]; [exact H0|].
        eapply le_trans; [exact H0|apply IH; exact He].
    - inversion H; subst. destruct He.
  Qed.

  Definition entry_sorted (e : entry) : Prop := StronglySorted item_le (fst e :: snd e).

  Lemma merge_loop_sorted : forall fuel h,
    Forall entry_sorted h -> StronglySorted item_le (merge_loop lt fuel h).
  Proof.
    induction fuel as [|fuel IH]; intros h Hs; [constructor|]. cbn [merge_loop].
    destruct (extract_min lt h) as [[[x rest] h']|] eqn:E; [|constructor].
    destruct (is_err x) eqn:Ex; [repeat constructor|].
    pose proof (extract_min_perm lt _ _ _ E) as P.
    assert (Hs' : Forall entry_sorted ((x, rest) :: h')).
    { rewrite Forall_forall in *. intros e He. apply Hs. eapply Permutation_in; [symmetry; exact P|exact He]. }
    inversion Hs' as [|? ? Hx Hh']; subst. unfold entry_sorted in Hx. cbn [fst snd] in Hx.
    inversion Hx as [|? ? Hrest Hxrest]; subst.
    assert (Hnext : Forall entry_sorted (push_next h' rest)).
    { destruct rest as [|y r]; cbn [push_next]; [exact Hh'|].
      apply Forall_app. split; [exact Hh'|]. constructor; [exact Hrest|constructor]. }
    constructor; [apply IH; exact Hnext|].
    (* x may come before everything that is emitted later *)
    rewrite Forall_forall. intros y Hy. apply merge_loop_incl in Hy. rewrite flatten_push in Hy.
    apply in_app_or in Hy. destruct Hy as [Hy|Hy].
    - unfold flatten in Hy. apply in_flat_map in Hy. destruct Hy as (e & He & Hy).
      pose proof (extract_min_least _ _ _ E e He) as Hle. cbn [fst] in Hle.
      assert (Hxe : item_le x (fst e)).
      { destruct (is_err (fst e)) eqn:Ee; [left; exact Ee|right; auto]. }
      destruct Hy as [<-|Hy]; [exact Hxe|].
      rewrite Forall_forall in Hh'. specialize (Hh' e He). unfold entry_sorted in Hh'.
      inversion Hh' as [|? ? _ Hfe]; subst. rewrite Forall_forall in Hfe.
      eapply item_le_trans; [exact Hxe|apply Hfe; exact Hy].
    - rewrite Forall_forall in Hxrest. apply Hxrest. exact Hy.
  Qed.

  Lemma init_heap_sorted chans :
    Forall (StronglySorted item_le) chans -> Forall entry_sorted (init_heap chans).
  Proof.
    unfold init_heap.
    assert (G : forall h, Forall entry_sorted h -> Forall (StronglySorted item_le) chans ->
                          Forall entry_sorted (fold_left (push_next) chans h)).
    { induction chans as [|ch chans IH]; intros h Hh Hc; cbn [fold_left]; [exact Hh|].
      inversion Hc; subst. apply IH; [|assumption].
      destruct ch as [|x r]; cbn [push_next]; [exact Hh|].
      apply Forall_app. split; [exact Hh|]. constructor; [assumption|constructor]. }
    intros H. apply G; [constructor|exact H].
  Qed.

  (* Sorted output: if every per-shard stream is in order (records by key, an error only at the end) then so
     is the merged output. *)
  Theorem merge_sorted chans :
    Forall (Sorted item_le) chans -> Sorted item_le (merge_k lt chans).
  Proof.
    intros H. apply StronglySorted_Sorted. unfold merge_k. apply merge_loop_sorted.
    apply init_heap_sorted. rewrite Forall_forall in *. intros ch Hc.
    apply Sorted_StronglySorted; [exact item_le_Transitive|apply H; exact Hc].
  Qed.
End MergeSorted.

(* A comparison function in the style of bytes.Compare / CompareWithSlash that is a total order yields a Less
   with the two properties used above. *)
Definition total_order (cmp : list N -> list N -> comparison) : Prop :=
  (forall a b, cmp b a = CompOpp (cmp a b)) /\
  (forall a b, cmp a b = Eq -> a = b) /\
  (forall a b c, cmp a b = Lt -> cmp b c = Lt -> cmp a c = Lt).

Definition ltb_of (cmp : list N -> list N -> comparison) (a b : list N) : bool :=
  match cmp a b with Lt => true | _ => false end.

Lemma ltb_of_asym cmp : total_order cmp -> forall a b, ltb_of cmp a b = true -> ltb_of cmp b a = false.
Proof.
  intros (Hopp & _ & _) a b. unfold ltb_of. rewrite (Hopp a b). destruct (cmp a b); cbn; congruence.
Qed.

Lemma ltb_of_le_trans cmp : total_order cmp ->
  forall a b c, le (ltb_of cmp) a b = true -> le (ltb_of cmp) b c = true -> le (ltb_of cmp) a c = true.
Proof.
  intros (Hopp & Heq & Htr) a b c. unfold le, ltb_of.
  rewrite (Hopp a b), (Hopp b c), (Hopp a c).
  destruct (cmp a b) eqn:Eab; cbn; try discriminate; intros _.
  - apply Heq in Eab. subst b. auto.
  - destruct (cmp b c) eqn:Ebc; cbn; try discriminate; intros _.
    + apply Heq in Ebc. subst c. rewrite Eab. reflexivity.
    + rewrite (Htr _ _ _ Eab Ebc). reflexivity.
Qed.

Theorem merge_sorted_cmp cmp chans :
  total_order cmp ->
  Forall (Sorted (item_le (ltb_of cmp))) chans -> Sorted (item_le (ltb_of cmp)) (merge_k (ltb_of cmp) chans).
Proof.
  intros Ht. apply merge_sorted; [apply ltb_of_asym; exact Ht|apply ltb_of_le_trans; exact Ht].
Qed.

(* ---- List: the plain union ---- *)

Lemma concat_replace {A} : forall i (chans : list (list A)) x r,
  nth_error chans i = Some (x :: r) ->
  Permutation (concat chans) (x :: concat (firstn i chans ++ r :: skipn (S i) chans)).
Proof.
  induction i as [|i IH]; intros chans x r H; destruct chans as [|c chans]; try discriminate.
  - cbn in H. inversion H; subst. reflexivity.
  - cbn [nth_error] in H. change (skipn (S (S i)) (c :: chans)) with (skipn (S i) chans).
    cbn [concat firstn app]. rewrite (IH chans x r H).
    symmetry. apply Permutation_middle.
Qed.

(* whatever the schedule, what has been forwarded plus what the shards still hold is what they produced *)
Theorem list_union_perm : forall sched chans,
  exists leftover, Permutation (concat chans) (list_union sched chans ++ leftover).
Proof.
  induction sched as [|i sched IH]; intros chans; cbn [list_union].
  - exists (concat chans). reflexivity.
  - destruct (nth_error chans i) as [[|x r]|] eqn:E; try apply IH.
    destruct (IH (firstn i chans ++ r :: skipn (S i) chans)) as (lo & P).
    exists lo. rewrite (concat_replace i chans x r E). cbn [app]. apply perm_skip. exact P.
Qed.

(* ---- examples ---- *)

Definition nat_ltb (a b : list N) : bool :=
  match a, b with
  | x :: _, y :: _ => N.ltb x y
  | [], _ :: _ => true
  | _, _ => false
  end.

Example merge_example :
  merge_k nat_ltb [[IOk [1] 10; IOk [4] 11; IOk [9] 12]; []; [IOk [2] 20; IOk [3] 21]; [IOk [5] 30]]%N
  = [IOk [1] 10; IOk [2] 20; IOk [3] 21; IOk [4] 11; IOk [5] 30; IOk [9] 12]%N.
Proof. vm_compute. reflexivity. Qed.

Example merge_error_example :
  merge_k nat_ltb [[IOk [1] 10; IOk [4] 11; IErr 7]; [IOk [2] 20; IOk [6] 21]]%N
  = [IOk [1] 10; IOk [2] 20; IOk [4] 11; IErr 7]%N.
Proof. vm_compute. reflexivity. Qed.
