(* doMultiShardGet: the result channel receives exactly one value and is closed exactly once, for every
   arrival order of the per-shard answers and every placement of errors (fixed code; refuted for the code as
   found); without errors the value is the extremum of the per-shard OK answers. *)
From Coq Require Import List NArith ZArith Bool Lia Arith.
From Oxia.Client Require Import Model MergeProofs.
Import ListNotations.

Definition first_err (arr : list arrival) : option N :=
  match flat_map (fun a => match a with AErr e => [e] | _ => [] end) arr with
  | e :: _ => Some e
  | [] => None
  end.

Definition resps (arr : list arrival) : list gresp :=
  flat_map (fun a => match a with AResp r => [r] | _ => [] end) arr.

Definition oks (l : list gresp) : list gresp :=
  filter (fun r => match g_status r with GOk => true | _ => false end) l.

Definition fold_select cmp kc (sel : option gresp) (l : list gresp) : option gresp :=
  fold_left (fun s r => select_response cmp kc s (Some r)) l sel.

Section Once.
  Variable cmp : list N -> list N -> comparison.
  Variable kc : cmp_type.
  Variable orig : list N.

  Notation step := (mg_step cmp true kc orig).
  Notation run := (mg_run cmp true kc orig).

  Lemma run_finished : forall arr s, mg_dead s = false -> mg_counter s = 0%Z -> run s arr = (s, []).
  Proof.
    induction arr as [|a arr IH]; intros s Hd Hc; cbn [mg_run]; [reflexivity|].
    unfold mg_step. rewrite Hd, Hc. cbn. rewrite (IH s Hd Hc). reflexivity.
  Qed.

  Lemma step_resp c sel r : c <> 0%Z ->
    step (mkMG c sel false false) (AResp r) =
      if Z.eqb (c - 1) 0
      then (mkMG (c - 1) (select_response cmp kc sel (Some r)) true false,
            [GSend (to_get_result (select_response cmp kc sel (Some r)) orig); GClose])
      else (mkMG (c - 1) (select_response cmp kc sel (Some r)) false false, []).
  Proof.
    intros Hc. unfold mg_step, mg_tail. cbn [mg_dead mg_counter mg_closed mg_selected].
    destruct (Z.eqb_spec c 0); [contradiction|]. reflexivity.
  Qed.

  Lemma step_err c sel e : c <> 0%Z ->
    step (mkMG c sel false false) (AErr e) = (mkMG 0 sel true false, [GSend (GErr e); GClose]).
  Proof.
    intros Hc. unfold mg_step. cbn [mg_dead mg_counter mg_closed mg_selected].
    destruct (Z.eqb_spec c 0); [contradiction|]. reflexivity.
  Qed.

  (* from a state in which c > 0 answers are still expected and nothing has been sent *)
  Lemma run_active : forall arr c sel,
    (0 < c)%Z ->
    (* nothing sent yet: fewer than c answers, none of them an error *)
    ( (Z.of_nat (length arr) < c)%Z /\ first_err arr = None /\
      run (mkMG c sel false false) arr =
        (mkMG (c - Z.of_nat (length arr)) (fold_select cmp kc sel (resps arr)) false false, []) )
    \/
    (* or exactly one value has been sent, followed by close *)
    ( exists r s', run (mkMG c sel false false) arr = (s', [GSend r; GClose]) /\
        mg_dead s' = false /\ mg_counter s' = 0%Z /\
        ( (exists pre e post, arr = pre ++ AErr e :: post /\ first_err pre = None /\
             (Z.of_nat (length pre) < c)%Z /\ r = GErr e)
          \/ (exists pre post, arr = pre ++ post /\ first_err pre = None /\ Z.of_nat (length pre) = c /\
                r = to_get_result (fold_select cmp kc sel (resps pre)) orig) ) ).
  Proof.
    induction arr as [|a arr IH]; intros c sel Hc.
    - left. cbn. rewrite Z.sub_0_r. repeat split; auto.
    - cbn [mg_run]. destruct a as [r|e].
      + (* an answer *)
        rewrite step_resp by lia.
        destruct (Z.eqb_spec (c - 1) 0) as [E|NE].
        * (* the last one *)
          right. rewrite run_finished by (cbn; auto). cbn [app].
          eexists _, _. split; [reflexivity|]. split; [reflexivity|]. split; [exact E|].
          right. exists [AResp r], arr. split; [reflexivity|]. split; [reflexivity|].
          split; [cbn; lia|]. reflexivity.
        * specialize (IH (c - 1)%Z (select_response cmp kc sel (Some r)) ltac:(lia)).
          destruct IH as [(Hl & Hfe & Hrun)|(res & s' & Hrun & Hd & Hz & Hshape)]; rewrite Hrun; cbn [app].
          -- left. split; [cbn [length]; lia|]. split; [exact Hfe|].
             f_equal. f_equal. cbn [length]. lia.
          -- right. exists res, s'. split; [reflexivity|]. split; [exact Hd|]. split; [exact Hz|].
             destruct Hshape as [(pre & e & post & -> & Hfe & Hl & ->)|(pre & post & -> & Hfe & Hl & ->)].
             ++ left. exists (AResp r :: pre), e, post. split; [reflexivity|]. split; [exact Hfe|].
                split; [cbn [length]; lia|reflexivity].
             ++ right. exists (AResp r :: pre), post. split; [reflexivity|]. split; [exact Hfe|].
                split; [cbn [length]; lia|reflexivity].
      + (* an error *)
        right. rewrite step_err by lia. rewrite run_finished by (cbn; auto). cbn [app].
        eexists _, _. split; [reflexivity|]. split; [reflexivity|]. split; [reflexivity|].
        left. exists [], e, arr. split; [reflexivity|]. split; [reflexivity|]. split; [cbn; lia|reflexivity].
  Qed.
End Once.

(* For every number of shards n >= 1, every arrival order and every placement of errors: once all n answers
   have arrived (or earlier), exactly one value has been sent on the result channel and the channel has been
   closed once; nothing panics.  The value is the first error, or, without errors, the selection over all
   answers. *)
Theorem multi_get_completes_once : forall cmp kc orig n arr,
  1 <= n -> length arr = n ->
  exists r, snd (multi_get cmp true kc orig n arr) = [GSend r; GClose] /\
    r = match first_err arr with
        | Some e => GErr e
        | None => to_get_result (fold_select cmp kc None (resps arr)) orig
        end.
Proof.
  intros cmp kc orig n arr Hn Hlen. unfold multi_get.
  destruct (run_active cmp kc orig arr (Z.of_nat n) None ltac:(lia)) as [(Hl & _)|(r & s' & Ho & _ & _ & Hshape)]; [lia|].
  exists r. rewrite Ho. split; [reflexivity|].
  destruct Hshape as [(pre & e & post & -> & Hfe & _ & ->)|(pre & post & -> & Hfe & Hl & ->)].
  - unfold first_err in *. rewrite flat_map_app. cbn [flat_map app].
    destruct (flat_map (fun a => match a with AErr e0 => [e0] | _ => [] end) pre); [reflexivity|discriminate].
  - assert (post = []).
    { rewrite app_length in Hlen. destruct post; [reflexivity|cbn [length] in Hlen; lia]. }
    subst post. rewrite app_nil_r. rewrite Hfe. reflexivity.
Qed.

(* at any moment: nothing yet, or one value and one close -- never more, never a panic *)
Theorem multi_get_at_most_once : forall cmp kc orig n arr,
  1 <= n ->
  snd (multi_get cmp true kc orig n arr) = [] \/
  exists r, snd (multi_get cmp true kc orig n arr) = [GSend r; GClose].
Proof.
  intros cmp kc orig n arr Hn. unfold multi_get.
  destruct (run_active cmp kc orig arr (Z.of_nat n) None ltac:(lia)) as [(_ & _ & Ho)|(r & s' & Ho & _)]; rewrite Ho.
  - left. reflexivity.
  - right. exists r. reflexivity.
Qed.

(* The code as found (no "return" after the error branch): two shards, two errors -- the second callback
   sends on the closed channel. *)
Theorem multi_get_old_refuted :
  exists cmp kc orig n arr, 1 <= n /\ length arr = n /\
    In GPanicked (snd (multi_get cmp false kc orig n arr)).
Proof.
  exists (fun _ _ => Eq), CFloor, [], 2, [AErr 1%N; AErr 2%N]. split; [lia|]. split; [reflexivity|].
  vm_compute. auto.
Qed.

(* what the code as found still guarantees: with at most one error among the answers it behaves like the
   fixed code *)
Theorem multi_get_old_partial : forall cmp kc orig n arr,
  length (flat_map (fun a => match a with AErr e => [e] | _ => [] end) arr) <= 1 ->
  snd (multi_get cmp false kc orig n arr) = snd (multi_get cmp true kc orig n arr).
Proof.
  intros cmp kc orig n arr. unfold multi_get. generalize (mkMG (Z.of_nat n) None false false) as s.
  induction arr as [|a arr IH]; intros s Hle; [reflexivity|]. cbn [mg_run].
  destruct a as [r|e].
  - (* an answer: same step in both *)
    assert (Hs : mg_step cmp false kc orig s (AResp r) = mg_step cmp true kc orig s (AResp r)) by reflexivity.
    rewrite Hs. destruct (mg_step cmp true kc orig s (AResp r)) as [s1 o1].
    specialize (IH s1 Hle).
    destruct (mg_run cmp false kc orig s1 arr), (mg_run cmp true kc orig s1 arr). cbn in *. now rewrite IH.
  - (* the only error: afterwards only answers arrive *)
    cbn [flat_map app length] in Hle.
    assert (Hno : forall x, In x arr -> exists r, x = AResp r).
    { intros x Hx. destruct x as [r|e']; [eauto|]. exfalso.
      assert (In e' (flat_map (fun a => match a with AErr e0 => [e0] | _ => [] end) arr)).
      { apply in_flat_map. exists (AErr e'). split; [exact Hx|left; reflexivity]. }
      destruct (flat_map (fun a => match a with AErr e0 => [e0] | _ => [] end) arr); [contradiction|cbn in Hle; lia]. }
    clear IH Hle.
    unfold mg_step. destruct (mg_dead s) eqn:Hd.
    { (* dead before: both runs are silent *)
      assert (G : forall wr arr s, mg_dead s = true -> mg_run cmp wr kc orig s arr = (s, [])).
      { clear. induction arr as [|a arr IH]; intros s Hd; cbn [mg_run]; [reflexivity|].
        unfold mg_step. rewrite Hd. rewrite (IH s Hd). reflexivity. }
      rewrite !G by assumption. reflexivity. }
    destruct (Z.eqb (mg_counter s) 0) eqn:Hc.
    { assert (G : forall wr arr s, mg_dead s = false -> mg_counter s = 0%Z -> mg_run cmp wr kc orig s arr = (s, [])).
      { clear. induction arr as [|a arr IH]; intros s Hd Hc; cbn [mg_run]; [reflexivity|].
        unfold mg_step. rewrite Hd, Hc. cbn. rewrite (IH s Hd Hc). reflexivity. }
      apply Z.eqb_eq in Hc. rewrite !G by assumption. reflexivity. }
    destruct (mg_closed s) eqn:Hcl.
    { assert (G : forall wr arr s, mg_dead s = true -> mg_run cmp wr kc orig s arr = (s, [])).
      { clear. induction arr as [|a arr IH]; intros s Hd; cbn [mg_run]; [reflexivity|].
        unfold mg_step. rewrite Hd. rewrite (IH s Hd). reflexivity. }
      rewrite !G by reflexivity. reflexivity. }
    (* old code: counter becomes -1 and every later answer only decrements it; new code: counter 0 *)
    unfold mg_tail. cbn [mg_counter mg_selected mg_closed mg_dead select_response]. cbn [Z.sub Z.add Z.opp Z.eqb app].
    assert (Gnew : forall arr s, mg_dead s = false -> mg_counter s = 0%Z -> mg_run cmp true kc orig s arr = (s, [])).
    { clear. induction arr as [|a arr IH]; intros s Hd Hc; cbn [mg_run]; [reflexivity|].
      unfold mg_step. rewrite Hd, Hc. cbn. rewrite (IH s Hd Hc). reflexivity. }
    rewrite Gnew by reflexivity.
    assert (Gold : forall arr c sel, (c < 0)%Z -> (forall x, In x arr -> exists r, x = AResp r) ->
               snd (mg_run cmp false kc orig (mkMG c sel true false) arr) = []).
    { clear. induction arr as [|a arr IH]; intros c sel Hc Hno; cbn [mg_run]; [reflexivity|].
      destruct (Hno a (or_introl eq_refl)) as (r & ->).
      unfold mg_step. cbn [mg_dead mg_counter]. destruct (Z.eqb_spec c 0); [lia|].
      unfold mg_tail. cbn [mg_counter mg_closed mg_selected]. destruct (Z.eqb_spec (c - 1) 0); [lia|].
      specialize (IH (c - 1)%Z (select_response cmp kc sel (Some r)) ltac:(lia) (fun x Hx => Hno x (or_intror Hx))).
      destruct (mg_run cmp false kc orig _ arr). cbn in *. exact IH. }
    specialize (Gold arr (-1)%Z (mg_selected s) ltac:(lia) Hno).
    destruct (mg_run cmp false kc orig _ arr). cbn in *. rewrite Gold. reflexivity.
Qed.

(* ---- the selected answer is the extremum ---- *)

Section Extremum.
  Variable cmp : list N -> list N -> comparison.
  Hypothesis Hto : total_order cmp.

  Notation cgr := (compare_get_response cmp).

  (* all answers to one query carry a secondary key (index query) or none does *)
  Definition uniform (l : list gresp) : Prop :=
    (forall r, In r l -> g_sec r <> None) \/ (forall r, In r l -> g_sec r = None).

  Definition lex (a b : gresp) : comparison :=
    match g_sec a, g_sec b with
    | Some sa, Some sb => match cmp sa sb with Eq => cmp (get_key a) (get_key b) | c => c end
    | _, _ => cmp (get_key a) (get_key b)
    end.

  Lemma cmp_refl a : cmp a a = Eq.
  Proof. destruct Hto as (Hopp & _ & _). specialize (Hopp a a). destruct (cmp a a); cbn in Hopp; congruence. Qed.

  Lemma cgr_opp a b : cgr b a = CompOpp (cgr a b).
  Proof.
    destruct Hto as (Hopp & _ & _). unfold compare_get_response.
    destruct (g_sec a) as [sa|], (g_sec b) as [sb|]; try apply Hopp.
    rewrite (Hopp sa sb). destruct (cmp sa sb); cbn; auto.
  Qed.

  Definition gle (a b : gresp) : Prop := cgr a b <> Gt.

  Lemma cmp_le_trans a b c : cmp a b <> Gt -> cmp b c <> Gt -> cmp a c <> Gt.
  Proof.
    destruct Hto as (Hopp & Heq & Htr). intros H1 H2.
    destruct (cmp a b) eqn:E1; [apply Heq in E1; subst; exact H2| |congruence].
    destruct (cmp b c) eqn:E2; [apply Heq in E2; subst; congruence| |congruence].
    rewrite (Htr _ _ _ E1 E2). discriminate.
  Qed.

  Lemma cmp_lt_le_trans a b c : cmp a b = Lt -> cmp b c <> Gt -> cmp a c = Lt.
  Proof.
    destruct Hto as (Hopp & Heq & Htr). intros H1 H2.
    destruct (cmp b c) eqn:E2; [apply Heq in E2; subst; exact H1| |congruence].
    exact (Htr _ _ _ H1 E2).
  Qed.

  Lemma gle_trans l a b c : uniform l -> In a l -> In b l -> In c l -> gle a b -> gle b c -> gle a c.
  Proof.
    destruct Hto as (Hopp & Heq & Htr).
    intros [Hu|Hu] Ha Hb Hc; unfold gle, compare_get_response.
    - pose proof (Hu a Ha) as Na. pose proof (Hu b Hb) as Nb. pose proof (Hu c Hc) as Nc.
      destruct (g_sec a) as [sa|], (g_sec b) as [sb|], (g_sec c) as [sc|]; try congruence.
      intros Hab Hbc.
      destruct (cmp sa sb) eqn:E1.
      + apply Heq in E1. subst sb. destruct (cmp sa sc) eqn:E2; try congruence.
        eapply cmp_le_trans; eauto.
      + destruct (cmp sb sc) eqn:E2.
        * apply Heq in E2. subst sc. rewrite E1. discriminate.
        * rewrite (Htr _ _ _ E1 E2). discriminate.
        * congruence.
      + congruence.
    - pose proof (Hu a Ha) as Na. pose proof (Hu b Hb) as Nb. pose proof (Hu c Hc) as Nc.
      destruct (g_sec a) as [sa|], (g_sec b) as [sb|], (g_sec c) as [sc|]; try congruence.
      apply cmp_le_trans.
  Qed.

  Lemma gle_refl a : gle a a.
  Proof.
    unfold gle, compare_get_response. destruct (g_sec a); rewrite ?cmp_refl; rewrite ?cmp_refl; discriminate.
  Qed.

  Definition is_ok (r : gresp) : bool := match g_status r with GOk => true | _ => false end.

  (* the invariant of the fold: nothing selected iff no OK answer so far; otherwise the selected one is an OK
     answer seen so far and bounds all of them *)
  Definition sel_inv (kc : cmp_type) (seen : list gresp) (sel : option gresp) : Prop :=
    match sel with
    | None => oks seen = []
    | Some m =>
        In m (oks seen) /\
        match kc with
        | CEqual => exists tl, oks seen = m :: tl
        | CFloor | CLower => forall r, In r (oks seen) -> gle r m
        | CCeiling | CHigher => forall r, In r (oks seen) -> gle m r
        end
    end.

  Lemma oks_app a b : oks (a ++ b) = oks a ++ oks b.
  Proof. apply filter_app. Qed.

  Lemma oks_incl l r : In r (oks l) -> In r l.
  Proof. unfold oks. intros H. apply filter_In in H. tauto. Qed.

  Lemma select_step kc all seen sel r :
    uniform all -> incl (seen ++ [r]) all ->
    sel_inv kc seen sel -> sel_inv kc (seen ++ [r]) (select_response cmp kc sel (Some r)).
  Proof.
    intros Hu Hincl Hinv.
    assert (Hin : forall x, In x (oks seen) -> In x all).
    { intros x Hx. apply Hincl. apply in_or_app. left. apply oks_incl. exact Hx. }
    assert (Hr : In r all) by (apply Hincl; apply in_or_app; right; left; reflexivity).
    assert (Hoks : oks (seen ++ [r]) = oks seen ++ (if is_ok r then [r] else [])).
    { rewrite oks_app. unfold oks at 2. cbn [filter]. unfold is_ok. destruct (g_status r); reflexivity. }
    unfold select_response, is_ok in *.
    destruct (g_status r) eqn:St.
    2,3: rewrite app_nil_r in Hoks; unfold sel_inv in *; rewrite Hoks; exact Hinv.
    destruct sel as [m|].
    - destruct Hinv as (Hm & Hb).
      destruct kc.
      + cbn [sel_inv]. rewrite Hoks.
        split; [apply in_or_app; left; exact Hm|]. destruct Hb as (tl & ->). eexists. reflexivity.
      + (* floor *)
        destruct (cgr m r) eqn:C; cbn [sel_inv]; rewrite Hoks.
        1,3: split; [apply in_or_app; left; exact Hm|]; intros x Hx; apply in_app_or in Hx;
             destruct Hx as [Hx|[<-|[]]]; [apply Hb; exact Hx|]; unfold gle; rewrite cgr_opp, C; discriminate.
        split; [apply in_or_app; right; left; reflexivity|]. intros x Hx. apply in_app_or in Hx.
        destruct Hx as [Hx|[<-|[]]]; [|apply gle_refl].
        apply (gle_trans all x m r Hu (Hin x Hx) (Hin m Hm) Hr (Hb x Hx)). unfold gle. rewrite C. discriminate.
      + destruct (cgr m r) eqn:C; cbn [sel_inv]; rewrite Hoks.
        1,3: split; [apply in_or_app; left; exact Hm|]; intros x Hx; apply in_app_or in Hx;
             destruct Hx as [Hx|[<-|[]]]; [apply Hb; exact Hx|]; unfold gle; rewrite cgr_opp, C; discriminate.
        split; [apply in_or_app; right; left; reflexivity|]. intros x Hx. apply in_app_or in Hx.
        destruct Hx as [Hx|[<-|[]]]; [|apply gle_refl].
        apply (gle_trans all x m r Hu (Hin x Hx) (Hin m Hm) Hr (Hb x Hx)). unfold gle. rewrite C. discriminate.
      + (* ceiling *)
        destruct (cgr m r) eqn:C; cbn [sel_inv]; rewrite Hoks.
        1,2: split; [apply in_or_app; left; exact Hm|]; intros x Hx; apply in_app_or in Hx;
             destruct Hx as [Hx|[<-|[]]]; [apply Hb; exact Hx|]; unfold gle; rewrite C; discriminate.
        split; [apply in_or_app; right; left; reflexivity|]. intros x Hx. apply in_app_or in Hx.
        destruct Hx as [Hx|[<-|[]]]; [|apply gle_refl].
        apply (gle_trans all r m x Hu Hr (Hin m Hm) (Hin x Hx)); [unfold gle; rewrite cgr_opp, C; discriminate|apply Hb; exact Hx].
      + destruct (cgr m r) eqn:C; cbn [sel_inv]; rewrite Hoks.
        1,2: split; [apply in_or_app; left; exact Hm|]; intros x Hx; apply in_app_or in Hx;
             destruct Hx as [Hx|[<-|[]]]; [apply Hb; exact Hx|]; unfold gle; rewrite C; discriminate.
        split; [apply in_or_app; right; left; reflexivity|]. intros x Hx. apply in_app_or in Hx.
        destruct Hx as [Hx|[<-|[]]]; [|apply gle_refl].
        apply (gle_trans all r m x Hu Hr (Hin m Hm) (Hin x Hx)); [unfold gle; rewrite cgr_opp, C; discriminate|apply Hb; exact Hx].
    - cbn [sel_inv] in Hinv.
      assert (E : match kc with
                  | CEqual => Some r | CFloor => Some r | CLower => Some r | CCeiling => Some r | CHigher => Some r
                  end = Some r) by (destruct kc; reflexivity).
      destruct kc; cbn [sel_inv]; rewrite Hoks, Hinv; cbn [app];
        (split; [left; reflexivity|]); try (intros x [<-|[]]; apply gle_refl). exists []. reflexivity.
  Qed.

  Lemma fold_select_inv kc all : forall l seen sel,
    uniform all -> incl (seen ++ l) all ->
    sel_inv kc seen sel -> sel_inv kc (seen ++ l) (fold_select cmp kc sel l).
  Proof.
    induction l as [|r l IH]; intros seen sel Hu Hincl Hinv; cbn [fold_select fold_left].
    - now rewrite app_nil_r.
    - replace (seen ++ r :: l) with ((seen ++ [r]) ++ l) by (rewrite <- app_assoc; reflexivity).
      apply IH; [exact Hu|rewrite <- app_assoc; exact Hincl|].
      apply (select_step kc all); [exact Hu| |exact Hinv].
      intros x Hx. apply Hincl. apply in_app_or in Hx. apply in_or_app.
      destruct Hx as [Hx|[<-|[]]]; [left; exact Hx|right; left; reflexivity].
  Qed.

  (* Without errors the value sent is KEY_NOT_FOUND when no shard has an OK answer; otherwise it is one of the
     OK answers, and it is the greatest of them for FLOOR/LOWER, the least for CEILING/HIGHER (in the order
     (secondary key, key) the code uses), the first to arrive for EQUAL. *)
  Theorem multi_get_is_extremum : forall kc orig (l : list gresp),
    uniform l ->
    match fold_select cmp kc None l with
    | None => oks l = [] /\ to_get_result (fold_select cmp kc None l) orig = GErrNotFound
    | Some m =>
        In m (oks l) /\
        to_get_result (fold_select cmp kc None l) orig =
          GResult (match g_key m with Some k => k | None => orig end) (g_payload m) /\
        match kc with
        | CEqual => exists tl, oks l = m :: tl
        | CFloor | CLower => forall r, In r (oks l) -> gle r m
        | CCeiling | CHigher => forall r, In r (oks l) -> gle m r
        end
    end.
  Proof.
    intros kc orig l Hu.
    pose proof (fold_select_inv kc l l [] None Hu (incl_refl _) eq_refl) as H. cbn [app] in H.
    destruct (fold_select cmp kc None l) as [m|] eqn:E; cbn [sel_inv] in H.
    - destruct H as (Hm & Hb). split; [exact Hm|]. split; [|exact Hb].
      unfold to_get_result. unfold oks in Hm. apply filter_In in Hm. destruct Hm as (_ & Hs).
      destruct (g_status m); try discriminate. reflexivity.
    - split; [exact H|reflexivity].
  Qed.
End Extremum.

(* ---- examples ---- *)

Definition ex_cmp (a b : list N) : comparison :=
  match a, b with
  | x :: _, y :: _ => N.compare x y
  | [], [] => Eq
  | [], _ => Lt
  | _, [] => Gt
  end.

Example multi_get_example_floor :
  snd (multi_get ex_cmp true CFloor [9%N] 3
        [AResp (mkG GOk (Some [3%N]) None 30); AResp (mkG GNotFound None None 0); AResp (mkG GOk (Some [7%N]) None 70)])
  = [GSend (GResult [7%N] 70); GClose].
Proof. vm_compute. reflexivity. Qed.

Example multi_get_example_errors :
  snd (multi_get ex_cmp true CCeiling [1%N] 3 [AResp (mkG GOk (Some [3%N]) None 30); AErr 5; AErr 6])
  = [GSend (GErr 5); GClose].
Proof. vm_compute. reflexivity. Qed.
