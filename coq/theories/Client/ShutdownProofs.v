(* Every call handed to Add completes at most once under every interleaving of Add, Run and Close, and -- with the
   drain rule of the code as it is (Run returns only when no Add is between its increment and its decrement) -- exactly
   once, once Run and every started Add have returned.  With the drain rule of the code as it was found (Run returns as
   soon as the queue is empty) an Add that has passed the closed check and enqueues after Run has returned leaves its
   call without completion: refuted by witness; what held of that rule is kept as a partial theorem. *)
From Coq Require Import List NArith Bool Lia Arith Permutation.
From Oxia.Client Require Import ShutdownModel.
Import ListNotations.

Definition done_ids (o : list (N * sdres)) : list N := map fst o.

Lemma done_ids_dones r l : done_ids (dones r l) = l.
Proof. unfold done_ids, dones. rewrite map_map. cbn. apply map_id. Qed.

(* multisets of call ids are compared by counting *)
Definition one (x c : N) : nat := if N.eq_dec c x then 1 else 0.
Definition cnt (x : N) (l : list N) : nat := count_occ N.eq_dec l x.

Lemma cnt_nil x : cnt x [] = 0.
Proof. reflexivity. Qed.
Lemma cnt_cons x c l : cnt x (c :: l) = one x c + cnt x l.
Proof. unfold cnt, one. cbn. destruct (N.eq_dec c x); reflexivity. Qed.
Lemma cnt_app x a b : cnt x (a ++ b) = cnt x a + cnt x b.
Proof. unfold cnt. apply count_occ_app. Qed.

Ltac cnt_norm := repeat (rewrite ?cnt_app, ?cnt_cons, ?cnt_nil in * ).

Lemma remove1_cnt c : forall l r, remove1 c l = Some r -> forall x, cnt x l = one x c + cnt x r.
Proof.
  induction l as [|y l IH]; intros r H x; cbn in H; [discriminate|].
  destruct (N.eqb_spec y c) as [->|_]; [inversion H; subst; apply cnt_cons|].
  destruct (remove1 c l) as [r'|]; [|discriminate]. inversion H; subst.
  rewrite !cnt_cons, (IH r' eq_refl x). lia.
Qed.

Lemma sd_pop_cnt s c q' ps snt : sd_pop s = Some (c, q', ps, snt) ->
  (forall x, cnt x (sd_parked s) + cnt x (sd_q s) = one x c + cnt x ps + cnt x q') /\
  (length q' <= length (sd_q s)) /\
  (sd_parked s <> [] -> length q' = length (sd_q s)) /\ (sd_parked s = [] -> ps = []).
Proof.
  unfold sd_pop. destruct (sd_q s) as [|y q]; [discriminate|]. destruct (sd_parked s) as [|p ps'] eqn:P; intros H; inversion H; subst.
  - split; [intros x; cnt_norm; lia|]. cbn. repeat split; auto; try lia. congruence.
  - split; [intros x; cnt_norm; lia|]. rewrite app_length. cbn. repeat split; try lia. congruence.
Qed.

Section Shutdown.
  Variable cfg : sdcfg.
  Hypothesis Hcap : 0 < sd_cap cfg.

  Definition sd_inv (s : sdstate) : Prop :=
    length (sd_q s) <= sd_cap cfg /\
    (sd_parked s <> [] -> length (sd_q s) = sd_cap cfg) /\
    (sd_closed s = true -> sd_overlapped s = false -> sd_inflight s = []) /\
    (sd_run_done s = true \/ sd_draining s = true -> sd_closed s = true) /\
    (sd_run_done s = true \/ sd_draining s = true -> sd_batch s = []) /\
    (sd_phase s = PSawEmpty -> sd_overlapped s = false -> sd_parked s = [] /\ sd_q s = []) /\
    (sd_run_done s = true -> sd_overlapped s = false -> sd_parked s = [] /\ sd_q s = []) /\
    (sd_rule cfg = RuleFinalDrain -> sd_phase s = PFinal \/ sd_run_done s = true ->
       sd_inflight s = [] /\ sd_parked s = []) /\
    (sd_rule cfg = RuleFinalDrain -> sd_run_done s = true -> sd_q s = []).

  Ltac inv9 :=
    refine (conj _ (conj _ (conj _ (conj _ (conj _ (conj _ (conj _ (conj _ _))))))));
    unfold sd_draining;
    cbn [sd_started sd_sent sd_failing sd_q sd_parked sd_inflight sd_closed sd_batch sd_phase sd_run_done sd_overlapped].

  Ltac triv :=
    try solve [ assumption | reflexivity | discriminate | lia | tauto | congruence
              | intros [?|?]; solve [discriminate | tauto | congruence | auto]
              | intros ? [?|?]; solve [discriminate | tauto | congruence | auto]
              | intros; solve [discriminate | congruence | tauto | lia | auto] ].

  Definition ev_submitted (ev : sdev) : list N := match ev with EAddStart c => [c] | _ => [] end.

  Definition conserved (s s' : sdstate) (ev : sdev) (o : list (N * sdres)) : Prop :=
    forall x, cnt x (sd_pending s) + cnt x (ev_submitted ev) = cnt x (done_ids o) + cnt x (sd_pending s').

  Ltac cons_tac :=
    unfold conserved, sd_pending;
    cbn [sd_started sd_sent sd_failing sd_q sd_parked sd_inflight sd_closed sd_batch sd_phase sd_run_done sd_overlapped
         ev_submitted done_ids map fst];
    rewrite ?done_ids_dones; intros x; cnt_norm.

  Lemma sd_step_ok s ev :
    sd_inv s ->
    let s' := fst (sd_step cfg s ev) in
    let o := snd (sd_step cfg s ev) in
    sd_inv s' /\ conserved s s' ev o.
  Proof.
    intros (Hc & Hb & Ha & He & Hf & Hs & Hg & Hn & Hm). unfold sd_draining in *.
    assert (Hnoop : sd_inv s /\ forall e, ev_submitted e = [] -> conserved s s e []).
    { split; [inv9; triv|]. intros e E. unfold conserved. intros x. rewrite E. cbn. cnt_norm. lia. }
    destruct Hnoop as (Hsame & Hcons).
    assert (Hdr : sd_phase s <> PMain -> sd_closed s = true).
    { intros H. apply He. right. destruct (sd_phase s); congruence. }
    destruct ev as [c|c|c|c|c| | | | | | |]; cbn [sd_step].
    - (* start *)
      cbn [fst snd]. split; [inv9; triv|]. cons_tac. lia.
    - (* check *)
      destruct (remove1 c (sd_started s)) as [rest|] eqn:R; cbn [fst snd]; [|split; [exact Hsame|apply Hcons; reflexivity]].
      pose proof (remove1_cnt _ _ _ R) as P.
      destruct (sd_closed s) eqn:C; cbn [fst snd].
      + split; [inv9; triv|]. cons_tac. specialize (P x). lia.
      + (* the batcher is open: Run is in its main loop and has not returned *)
        assert (Hmain : sd_phase s = PMain) by (destruct (sd_phase s) eqn:Ph; auto; exfalso; specialize (Hdr ltac:(congruence)); congruence).
        assert (Hnd : sd_run_done s = false).
        { destruct (sd_run_done s) eqn:D; [specialize (He (or_introl eq_refl)); congruence|reflexivity]. }
        split; [|cons_tac; specialize (P x); lia].
        rewrite Hmain, Hnd in *. inv9; triv.
    - (* send *)
      destruct (remove1 c (sd_inflight s)) as [rest|] eqn:R; cbn [fst snd]; [|split; [exact Hsame|apply Hcons; reflexivity]].
      pose proof (remove1_cnt _ _ _ R) as P.
      assert (Hno : sd_closed s = true -> sd_overlapped s = false -> False).
      { intros C O. rewrite (Ha C O) in R. discriminate. }
      assert (Hno2 : sd_rule cfg = RuleFinalDrain -> sd_phase s = PFinal \/ sd_run_done s = true -> False).
      { intros W D. destruct (Hn W D) as (E & _). rewrite E in R. discriminate. }
      assert (HnoS : sd_phase s = PSawEmpty -> sd_overlapped s = false -> False).
      { intros Ph O. apply Hno; [apply Hdr; congruence|exact O]. }
      assert (HnoD : sd_run_done s = true -> sd_overlapped s = false -> False).
      { intros D O. apply Hno; [apply He; auto|exact O]. }
      destruct (Nat.ltb_spec (length (sd_q s)) (sd_cap cfg)) as [Hlt|Hge]; cbn [fst snd].
      + split.
        * inv9; triv;
            first [ solve [rewrite app_length; cbn; lia]
                  | solve [intros Hp; specialize (Hb Hp); lia]
                  | solve [intros C O; exfalso; eauto]
                  | solve [intros W D; exfalso; eauto] ].
        * cons_tac. specialize (P x). lia.
      + split.
        * inv9; triv;
            first [ solve [intros C O; exfalso; eauto]
                  | solve [intros W D; exfalso; eauto] ].
        * cons_tac. specialize (P x). lia.
    - (* finish *)
      destruct (remove1 c (sd_sent s)) as [rest|] eqn:R; cbn [fst snd]; [|split; [exact Hsame|apply Hcons; reflexivity]].
      split; [inv9; triv|]. cons_tac. lia.
    - (* fail *)
      destruct (remove1 c (sd_failing s)) as [rest|] eqn:R; cbn [fst snd]; [|split; [exact Hsame|apply Hcons; reflexivity]].
      pose proof (remove1_cnt _ _ _ R) as P.
      split; [inv9; triv|]. cons_tac. specialize (P x). lia.
    - (* Run receives a call *)
      unfold sd_draining.
      destruct (sd_run_done s) eqn:R0; cbn [orb fst snd]; [split; [exact Hsame|apply Hcons; reflexivity]|].
      destruct (sd_phase s) eqn:Ph; cbn [fst snd]; try (split; [exact Hsame|apply Hcons; reflexivity]).
      destruct (sd_pop s) as [[[[c q'] ps] snt]|] eqn:Pop; cbn [fst snd]; [|split; [exact Hsame|apply Hcons; reflexivity]].
      destruct (sd_pop_cnt _ _ _ _ _ Pop) as (P & Hl & Hl' & Hps).
      assert (Hinv' : forall b, sd_inv (mkSd (sd_started s) (sd_inflight s) ps snt (sd_failing s) q' (sd_closed s) b PMain false
                                             (sd_overlapped s))).
      { intros b. inv9; triv.
        all: intros Hp; assert (H : sd_parked s <> []) by (intros E; apply Hp; auto); rewrite (Hl' H); auto. }
      destruct (negb (sd_linger_pos cfg) || Nat.eqb (length (sd_batch s ++ [c])) (sd_max cfg)); cbn [fst snd].
      + split; [apply Hinv'|]. cons_tac. specialize (P x). lia.
      + split; [apply Hinv'|]. cons_tac. specialize (P x). lia.
    - (* tick *)
      unfold sd_draining.
      destruct (sd_run_done s) eqn:R0; cbn [orb fst snd]; [split; [exact Hsame|apply Hcons; reflexivity]|].
      destruct (sd_phase s) eqn:Ph; cbn [orb fst snd]; try (split; [exact Hsame|apply Hcons; reflexivity]).
      destruct (negb (sd_linger_pos cfg)); cbn [fst snd]; [split; [exact Hsame|apply Hcons; reflexivity]|].
      split; [inv9; triv|]. cons_tac. lia.
    - (* Close *)
      destruct (sd_closed s) eqn:C; cbn [fst snd]; [split; [exact Hsame|apply Hcons; reflexivity]|].
      assert (Hmain : sd_phase s = PMain) by (destruct (sd_phase s) eqn:Ph; auto; exfalso; specialize (Hdr ltac:(congruence)); congruence).
      assert (Hnd : sd_run_done s = false).
      { destruct (sd_run_done s) eqn:D; [specialize (He (or_introl eq_refl)); congruence|reflexivity]. }
      split; [|cons_tac; lia].
      rewrite Hmain, Hnd in *. inv9; triv.
      all: try solve [intros _; destruct (sd_inflight s); [reflexivity|discriminate]].
      all: try solve [intros H; destruct (sd_inflight s); [auto|discriminate]].
    - (* Run takes the close branch *)
      unfold sd_draining.
      destruct (sd_closed s) eqn:C; cbn [andb fst snd]; [|split; [exact Hsame|apply Hcons; reflexivity]].
      destruct (sd_run_done s) eqn:R0; cbn [negb andb fst snd]; [split; [exact Hsame|apply Hcons; reflexivity]|].
      destruct (sd_phase s) eqn:Ph; cbn [negb fst snd]; try (split; [exact Hsame|apply Hcons; reflexivity]).
      split; [inv9; triv|]. cons_tac. lia.
    - (* drain one *)
      destruct (sd_phase s) eqn:Ph; cbn [fst snd]; try (split; [exact Hsame|apply Hcons; reflexivity]).
      all: destruct (sd_pop s) as [[[[c q'] ps] snt]|] eqn:Pop; cbn [fst snd]; [|split; [exact Hsame|apply Hcons; reflexivity]].
      all: destruct (sd_pop_cnt _ _ _ _ _ Pop) as (P & Hl & Hl' & Hps).
      all: pose proof (Hf (or_intror eq_refl)) as Hbatch; pose proof (He (or_intror eq_refl)) as Hclosed.
      all: split; [|cons_tac; specialize (P x); lia].
      all: inv9; triv.
      all: try solve [intros Hp; assert (H : sd_parked s <> []) by (intros E; apply Hp; auto); rewrite (Hl' H); auto].
      all: try solve [intros W _; destruct (Hn W (or_introl eq_refl)) as (E1 & E2); split; [exact E1|apply Hps; exact E2]].
    - (* the select's default: the queue is empty *)
      destruct (sd_q s) as [|y q] eqn:Q; cbn [fst snd]; [|split; [exact Hsame|apply Hcons; reflexivity]].
      assert (Hpk : sd_parked s = []).
      { destruct (sd_parked s) eqn:P; [reflexivity|]. specialize (Hb ltac:(discriminate)). cbn in Hb. lia. }
      destruct (sd_phase s) eqn:Ph; destruct (sd_rule cfg) eqn:Ru; cbn [fst snd];
        try (split; [exact Hsame|apply Hcons; reflexivity]).
      all: pose proof (Hf (or_intror eq_refl)) as Hbatch; pose proof (He (or_intror eq_refl)) as Hclosed.
      all: split; [|cons_tac; rewrite ?Q; cnt_norm; lia].
      all: inv9; triv.
      all: try solve [intros; split; [exact Hpk|reflexivity]].
      all: try solve [intros W _; destruct (Hn W (or_introl eq_refl)) as (E1 & E2); split; assumption].
    - (* the counter is read *)
      destruct (sd_phase s) eqn:Ph; cbn [fst snd]; try (split; [exact Hsame|apply Hcons; reflexivity]).
      pose proof (Hf (or_intror eq_refl)) as Hbatch. pose proof (He (or_intror eq_refl)) as Hclosed.
      destruct (Nat.eqb (sd_adding s) 0) eqn:Ad; cbn [fst snd].
      + apply Nat.eqb_eq in Ad. unfold sd_adding in Ad.
        assert (Hz : sd_started s = [] /\ sd_inflight s = [] /\ sd_parked s = [] /\ sd_sent s = []).
        { destruct (sd_started s), (sd_inflight s), (sd_parked s), (sd_sent s); cbn in Ad; try lia. auto. }
        destruct Hz as (Z1 & Z2 & Z3 & Z4).
        destruct (sd_rule cfg) eqn:Ru; cbn [fst snd]; (split; [|cons_tac; lia]); inv9; triv.
        all: try solve [intros _ O; destruct (Hs eq_refl O) as (E1 & E2); split; assumption].
        all: try solve [intros; split; assumption].
      + split; [|cons_tac; lia]. inv9; triv.
  Qed.

  Lemma sd_run_ok : forall evs s,
    sd_inv s ->
    let s' := fst (sd_run cfg s evs) in
    let o := snd (sd_run cfg s evs) in
    sd_inv s' /\ forall x, cnt x (sd_pending s) + cnt x (sd_submitted evs) = cnt x (done_ids o) + cnt x (sd_pending s').
  Proof.
    induction evs as [|ev evs IH]; intros s Hi; cbn [sd_run].
    - cbn. split; [exact Hi|]. intros x. cnt_norm. lia.
    - pose proof (sd_step_ok s ev Hi) as (Hi1 & P1). unfold conserved in P1.
      destruct (sd_step cfg s ev) as [s1 o1]. cbn [fst snd] in *.
      pose proof (IH s1 Hi1) as (Hi2 & P2).
      destruct (sd_run cfg s1 evs) as [s2 o2]. cbn [fst snd] in *.
      split; [exact Hi2|]. intros x. specialize (P1 x). specialize (P2 x).
      change (sd_submitted (ev :: evs)) with (ev_submitted ev ++ sd_submitted evs).
      unfold done_ids in *. rewrite map_app. rewrite !cnt_app. lia.
  Qed.

  Lemma sd_inv_init : sd_inv sd_init.
  Proof. unfold sd_init. inv9; triv; cbn; try lia; intros; repeat split; reflexivity. Qed.

  Lemma perm_of_cnt (l l' : list N) : (forall x, cnt x l = cnt x l') -> Permutation l l'.
  Proof. intros H. apply (Permutation_count_occ N.eq_dec). exact H. Qed.

  (* At most once, under every interleaving and every drain rule: the calls whose Add has started are, as a multiset,
     the completed ones plus the ones still on their way (in Add, parked, queued, in the batch). *)
  Theorem sd_conservation : forall evs,
    Permutation (sd_submitted evs)
                (done_ids (snd (sd_run cfg sd_init evs)) ++ sd_pending (fst (sd_run cfg sd_init evs))).
  Proof.
    intros evs. apply perm_of_cnt. intros x.
    pose proof (proj2 (sd_run_ok evs sd_init sd_inv_init) x) as P. cbn in P. rewrite cnt_app. exact P.
  Qed.

  (* Exactly once, at full strength, for the code as it is: once Run has returned and every started Add has returned,
     every call whose Add started has completed exactly once -- whatever the interleaving of Adds, Run and Close. *)
  Theorem sd_exactly_once_with_close : sd_rule cfg = RuleFinalDrain -> forall evs,
    sd_run_done (fst (sd_run cfg sd_init evs)) = true ->
    sd_adds_returned (fst (sd_run cfg sd_init evs)) ->
    Permutation (sd_submitted evs) (done_ids (snd (sd_run cfg sd_init evs))).
  Proof.
    intros W evs Hd (R1 & R2 & R3 & R4 & R5).
    pose proof (sd_conservation evs) as P.
    pose proof (sd_run_ok evs sd_init sd_inv_init) as ((_ & _ & _ & _ & Hf & _ & _ & _ & Hm) & _).
    unfold sd_pending in P.
    rewrite R1, R2, R3, R5, (Hm W Hd), (Hf (or_introl Hd)) in P. cbn in P. now rewrite app_nil_r in P.
  Qed.

  (* What holds of every drain rule: exactly once provided no Add was between its closed-check and its send at the
     moment of Close. *)
  Theorem sd_exactly_once_no_overlap : forall evs,
    sd_overlapped (fst (sd_run cfg sd_init evs)) = false ->
    sd_run_done (fst (sd_run cfg sd_init evs)) = true ->
    sd_adds_returned (fst (sd_run cfg sd_init evs)) ->
    Permutation (sd_submitted evs) (done_ids (snd (sd_run cfg sd_init evs))).
  Proof.
    intros evs Ho Hd (R1 & R2 & R3 & R4 & R5).
    pose proof (sd_conservation evs) as P.
    pose proof (sd_run_ok evs sd_init sd_inv_init) as ((_ & _ & _ & _ & Hf & _ & Hg & _ & _) & _).
    destruct (Hg Hd Ho) as (_ & Hq). unfold sd_pending in P.
    rewrite R1, R2, R3, R5, Hq, (Hf (or_introl Hd)) in P. cbn in P. now rewrite app_nil_r in P.
  Qed.
End Shutdown.

(* The drain rule of the code as it was found: Add(1) passes the closed check; Close; Run takes the close branch, finds
   the queue empty and returns; Add(1) enqueues and returns.  Run and every Add have returned; call 1 never completes. *)
Theorem sd_old_drain_rule_refuted :
  exists cfg evs, 0 < sd_cap cfg /\ sd_rule cfg = RuleQueueEmpty /\
    let (s, o) := sd_run cfg sd_init evs in
    sd_run_done s = true /\ sd_adds_returned s /\ sd_q s = [1%N] /\ sd_submitted evs = [1%N] /\ done_ids o = [].
Proof.
  exists (mkSdCfg 4 false 10 RuleQueueEmpty),
         [EAddStart 1%N; EAddCheck 1%N; EClose; ERunClose; EDrainDefault; EAddSend 1%N; EAddFinish 1%N].
  split; [cbn; lia|]. split; [reflexivity|]. vm_compute. repeat split.
Qed.

(* The first repair (commit cb6e33f): Run finds the queue empty; Add(1) enqueues and decrements the counter; Run reads
   adding == 0 and returns without looking at the queue again.  Observed on the real batcher (a handful of lost calls in
   a million closes under load). *)
Theorem sd_counter_after_empty_rule_refuted :
  exists cfg evs, 0 < sd_cap cfg /\ sd_rule cfg = RuleCounterAfterEmpty /\
    let (s, o) := sd_run cfg sd_init evs in
    sd_run_done s = true /\ sd_adds_returned s /\ sd_q s = [1%N] /\ sd_submitted evs = [1%N] /\ done_ids o = [].
Proof.
  exists (mkSdCfg 4 false 10 RuleCounterAfterEmpty),
         [EAddStart 1%N; EAddCheck 1%N; EClose; ERunClose; EDrainDefault; EAddSend 1%N; EAddFinish 1%N; EDrainCheck].
  split; [cbn; lia|]. split; [reflexivity|]. vm_compute. repeat split.
Qed.

(* the same schedule under the rule of the code as it is: after reading adding == 0 Run drains once more *)
Example sd_final_drain_rule_example :
  let cfg := mkSdCfg 4 false 10 RuleFinalDrain in
  let evs := [EAddStart 1; EAddCheck 1; EClose; ERunClose; EDrainDefault; EAddSend 1; EAddFinish 1; EDrainCheck;
              EDrainOne; EDrainDefault]%N in
  snd (sd_run cfg sd_init evs) = [(1%N, SdShut)] /\ sd_run_done (fst (sd_run cfg sd_init evs)) = true /\
  sd_adds_returned (fst (sd_run cfg sd_init evs)).
Proof. vm_compute. repeat split. Qed.

Example sd_close_example :
  let cfg := mkSdCfg 2 false 10 RuleFinalDrain in
  (* 0 is being completed; 1 and 2 fill the queue; 3 is parked in the send; Close; 4 comes after Close *)
  let add c := [EAddStart c; EAddCheck c; EAddSend c; EAddFinish c; EAddFail c] in
  let evs := (add 0 ++ [ERunRecv] ++ add 1 ++ add 2 ++ add 3 ++ [EClose] ++ add 4 ++
              [ERunRecv; ERunClose; EDrainOne; EDrainOne; EDrainDefault; EDrainCheck; EAddFinish 3; EDrainDefault; EDrainCheck;
               EDrainDefault])%N in
  snd (sd_run cfg sd_init evs) = [(0, SdOk); (4, SdShut); (1, SdOk); (2, SdShut); (3, SdShut)]%N /\
  sd_run_done (fst (sd_run cfg sd_init evs)) = true /\ sd_adds_returned (fst (sd_run cfg sd_init evs)).
Proof. vm_compute. repeat split. Qed.
