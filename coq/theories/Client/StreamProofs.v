(* The write stream wrapper: responses are matched to requests in send order -- also when callers abandon
   requests that are already on the wire (per-request timeout / cancellation) --, every Send() returns at most
   once, and once the stream context is done every Send() has returned: for every interleaving of sends,
   responses, receive errors, per-request cancellations and stream closure. *)
From Coq Require Import List NArith ZArith Bool Lia Arith Permutation.
From Oxia.Client Require Import Model.
Import ListNotations.

Definition sent_ids (evs : list sevent) : list N :=
  flat_map (fun e => match e with SSend f _ => [f] | _ => [] end) evs.
Definition ok_sends (evs : list sevent) : list N :=
  flat_map (fun e => match e with SSend f true => [f] | _ => [] end) evs.
Definition recv_payloads (evs : list sevent) : list N :=
  flat_map (fun e => match e with SRecvOk r => [r] | _ => [] end) evs.

Definition done_ids (tr : list sobs) : list N :=
  flat_map (fun o => match o with SDone f _ => [f] | _ => [] end) tr.
Definition ok_dones (tr : list sobs) : list (N * N) :=
  flat_map (fun o => match o with SDone f (SOk r) => [(f, r)] | _ => [] end) tr.

Definition live_ids (p : list (N * bool)) : list N :=
  flat_map (fun fl : N * bool => if snd fl then [fst fl] else []) p.

(* gRPC contract assumed of the stream: once a Send has failed, or the stream context is done, every later
   Send fails as well *)
Fixpoint sticky (broken : bool) (evs : list sevent) : Prop :=
  match evs with
  | [] => True
  | SSend _ ok :: r => (broken = true -> ok = false) /\ sticky (broken || negb ok) r
  | SCtxDone :: r => sticky true r
  | _ :: r => sticky broken r
  end.

Definition next_broken (broken : bool) (ev : sevent) : bool :=
  match ev with SSend _ ok => broken || negb ok | SCtxDone => true | _ => broken end.

Lemma sticky_cons broken ev evs :
  sticky broken (ev :: evs) ->
  (forall f ok, ev = SSend f ok -> broken = true -> ok = false) /\ sticky (next_broken broken ev) evs.
Proof.
  destruct ev as [f ok|r| | |g]; cbn; intros H; (split; [intros ? ? E; inversion E; subst; tauto|tauto]).
Qed.

(* ---- abandoning a request ---- *)

Lemma abandon_spec f : forall p p',
  abandon f p = Some p' ->
  Permutation (live_ids p) (f :: live_ids p') /\ map fst p' = map fst p.
Proof.
  induction p as [|[g live] tl IH]; intros p' H; cbn [abandon] in H; [discriminate|].
  destruct (N.eqb g f && live) eqn:E.
  - inversion H; subst. apply andb_true_iff in E. destruct E as (E & ->). apply N.eqb_eq in E. subst g.
    split; reflexivity.
  - destruct (abandon f tl) as [tl'|]; [|discriminate]. inversion H; subst.
    destruct (IH tl' eq_refl) as (P & M). split; [|cbn; now rewrite M].
    unfold live_ids in *. cbn [flat_map fst snd]. destruct live; cbn [app]; [|exact P].
    rewrite P. apply perm_swap.
Qed.

Lemma abandon_none_of_dead f p : live_ids p = [] -> abandon f p = None.
Proof.
  induction p as [|[g live] tl IH]; intros H; [reflexivity|]. cbn [abandon].
  unfold live_ids in H. cbn [flat_map fst snd] in H. destruct live; [discriminate|].
  rewrite andb_false_r. cbn in H. rewrite (IH H). reflexivity.
Qed.



(* ---- no panic (fixed code), at-most-once, completion after closure ---- *)

Lemma done_ids_app a b : done_ids (a ++ b) = done_ids a ++ done_ids b.
Proof. apply flat_map_app. Qed.
Lemma ok_dones_app a b : ok_dones (a ++ b) = ok_dones a ++ ok_dones b.
Proof. apply flat_map_app. Qed.
Lemma live_ids_app a b : live_ids (a ++ b) = live_ids a ++ live_ids b.
Proof. apply flat_map_app. Qed.

Lemma done_ids_eof p : done_ids (eof_obs p) = live_ids p.
Proof.
  induction p as [|[f l] p IH]; [reflexivity|]. unfold eof_obs, live_ids in *. cbn [flat_map fst snd].
  destruct l; cbn [app]; [|exact IH].
  change (done_ids (SDone f SEOF :: flat_map (fun fl : N * bool => if snd fl then [SDone (fst fl) SEOF] else []) p))
    with (f :: done_ids (flat_map (fun fl : N * bool => if snd fl then [SDone (fst fl) SEOF] else []) p)).
  now rewrite IH.
Qed.

Lemma ok_dones_eof p : ok_dones (eof_obs p) = [].
Proof.
  induction p as [|[f l] p IH]; [reflexivity|]. unfold eof_obs in *. cbn [flat_map fst snd].
  destruct l; cbn [app]; exact IH.
Qed.

Lemma eof_clean p : ~ In SPanicked (eof_obs p).
Proof.
  unfold eof_obs. intros H. apply in_flat_map in H. destruct H as ([f l] & _ & H). cbn in H.
  destruct l; cbn in H; [destruct H as [H|[]]; discriminate|contradiction].
Qed.

(* one step: the ids whose Send is outstanding or has returned = the old ones + the id sent now *)
Lemma stream_step_count s ev :
  ss_dead s = false ->
  exists s' o, stream_step true s ev = (s', o) /\ ss_dead s' = false /\ ~ In SPanicked o /\
    Permutation (live_ids (ss_pending s) ++ match ev with SSend f _ => [f] | _ => [] end)
                (done_ids o ++ live_ids (ss_pending s')) /\
    (ss_closed_exited s' = true <-> (ss_closed_exited s = true \/ ev = SCtxDone)) /\
    (ev = SCtxDone -> ss_closed_exited s = false -> live_ids (ss_pending s') = []).
Proof.
  intros Hd. unfold stream_step. rewrite Hd. destruct ev as [f ok|r| | |g].
  - destruct ok.
    + eexists _, _. split; [reflexivity|]. cbn [ss_dead ss_pending ss_closed_exited].
      split; [reflexivity|]. split; [intros []|]. split; [|split; [split; [auto|intros [H|H]; [exact H|discriminate]]|discriminate]].
      rewrite live_ids_app. reflexivity.
    + eexists _, _. split; [reflexivity|]. cbn [ss_dead ss_pending ss_closed_exited].
      split; [reflexivity|]. split; [intros [H|[]]; discriminate|].
      split; [|split; [split; [auto|intros [H|H]; [exact H|discriminate]]|discriminate]].
      rewrite live_ids_app. cbn. rewrite app_nil_r. symmetry. apply Permutation_cons_append.
  - destruct (ss_recv_exited s).
    { exists s, []. split; [reflexivity|]. split; [exact Hd|]. split; [intros []|].
      split; [now rewrite app_nil_r|]. split; [split; [auto|intros [H|H]; [exact H|discriminate]]|discriminate]. }
    destruct (ss_pending s) as [|[f live] rest] eqn:P.
    + eexists _, _. split; [reflexivity|]. cbn [ss_dead ss_pending ss_closed_exited].
      split; [reflexivity|]. split; [intros []|]. split; [reflexivity|].
      split; [split; [auto|intros [H|H]; [exact H|discriminate]]|discriminate].
    + eexists _, _. split; [reflexivity|]. cbn [ss_dead ss_pending ss_closed_exited].
      split; [reflexivity|]. destruct live; cbn.
      * split; [intros [H|[]]; discriminate|]. split; [now rewrite app_nil_r|].
        split; [split; [auto|intros [H|H]; [exact H|discriminate]]|discriminate].
      * split; [intros []|]. split; [now rewrite app_nil_r|].
        split; [split; [auto|intros [H|H]; [exact H|discriminate]]|discriminate].
  - destruct (ss_recv_exited s).
    { exists s, []. split; [reflexivity|]. split; [exact Hd|]. split; [intros []|].
      split; [now rewrite app_nil_r|]. split; [split; [auto|intros [H|H]; [exact H|discriminate]]|discriminate]. }
    eexists _, _. split; [reflexivity|]. cbn [ss_dead ss_pending ss_closed_exited].
    split; [reflexivity|]. split; [intros []|]. split; [now rewrite app_nil_r|].
    split; [split; [auto|intros [H|H]; [exact H|discriminate]]|discriminate].
  - destruct (ss_closed_exited s) eqn:C.
    { exists s, []. split; [reflexivity|]. split; [exact Hd|]. split; [intros []|].
      split; [now rewrite app_nil_r|]. split; [split; auto|discriminate]. }
    eexists _, _. split; [reflexivity|]. cbn [ss_dead ss_pending ss_closed_exited].
    split; [reflexivity|]. split; [apply eof_clean|].
    split; [rewrite done_ids_eof; cbn; now rewrite !app_nil_r|]. split; [split; auto|reflexivity].
  - destruct (abandon g (ss_pending s)) as [p'|] eqn:A.
    + destruct (abandon_spec _ _ _ A) as (P & _).
      eexists _, _. split; [reflexivity|]. cbn [ss_dead ss_pending ss_closed_exited].
      split; [reflexivity|]. split; [intros [H|[]]; discriminate|].
      split; [rewrite app_nil_r; exact P|]. split; [split; [auto|intros [H|H]; [exact H|discriminate]]|discriminate].
    + exists s, []. split; [reflexivity|]. split; [exact Hd|]. split; [intros []|].
      split; [now rewrite app_nil_r|]. split; [split; [auto|intros [H|H]; [exact H|discriminate]]|discriminate].
Qed.

(* After closure, with the gRPC contract, nothing live is ever queued again *)
Lemma stream_step_closed_stays_empty s ev :
  ss_dead s = false -> ss_closed_exited s = true -> live_ids (ss_pending s) = [] ->
  (forall f ok, ev = SSend f ok -> ok = false) ->
  live_ids (ss_pending (fst (stream_step true s ev))) = [].
Proof.
  intros Hd Hc Hl Hs. unfold stream_step. rewrite Hd. destruct ev as [f ok|r| | |g].
  - rewrite (Hs f ok eq_refl). cbn. rewrite live_ids_app, Hl. reflexivity.
  - destruct (ss_recv_exited s); [exact Hl|].
    destruct (ss_pending s) as [|[f live] rest] eqn:P; cbn; [reflexivity|].
    cbn in Hl. destruct live; [discriminate|exact Hl].
  - destruct (ss_recv_exited s); [exact Hl|]. cbn. exact Hl.
  - rewrite Hc. exact Hl.
  - rewrite (abandon_none_of_dead g _ Hl). exact Hl.
Qed.

Lemma stream_run_count : forall evs s broken,
  ss_dead s = false -> sticky broken evs ->
  (ss_closed_exited s = true -> broken = true /\ live_ids (ss_pending s) = []) ->
  exists s' tr, stream_run_from true s evs = (s', tr) /\ ss_dead s' = false /\ ~ In SPanicked tr /\
    Permutation (live_ids (ss_pending s) ++ sent_ids evs) (done_ids tr ++ live_ids (ss_pending s')) /\
    (ss_closed_exited s = true \/ In SCtxDone evs -> live_ids (ss_pending s') = []).
Proof.
  induction evs as [|ev evs IH]; intros s broken Hd Hst Hcl; cbn [stream_run_from sent_ids flat_map].
  - exists s, []. split; [reflexivity|]. split; [exact Hd|]. split; [intros []|].
    split; [now rewrite app_nil_r|]. intros [H|[]]. exact (proj2 (Hcl H)).
  - destruct (stream_step_count s ev Hd) as (s1 & o1 & Hs & Hd1 & Hc1 & Hp1 & Hce1 & Hemp1). rewrite Hs.
    destruct (sticky_cons _ _ _ Hst) as (Hst0 & Hst1).
    assert (Hcl1 : ss_closed_exited s1 = true -> next_broken broken ev = true /\ live_ids (ss_pending s1) = []).
    { intros H1. destruct (ss_closed_exited s) eqn:C.
      - destruct (Hcl eq_refl) as (Hb & Hl). split.
        + unfold next_broken. destruct ev; rewrite ?Hb; reflexivity.
        + pose proof (stream_step_closed_stays_empty s ev Hd C Hl) as H. rewrite Hs in H. apply H.
          intros f ok E. exact (Hst0 f ok E Hb).
      - apply Hce1 in H1. destruct H1 as [H1|H1]; [discriminate|]. subst ev.
        split; [reflexivity|]. apply Hemp1; auto. }
    destruct (IH s1 _ Hd1 Hst1 Hcl1) as (s2 & o2 & Hr & Hd2 & Hc2 & Hp2 & Hfin). rewrite Hr.
    exists s2, (o1 ++ o2). split; [reflexivity|]. split; [exact Hd2|].
    split; [intros H; apply in_app_or in H; tauto|]. split.
    + rewrite done_ids_app.
      replace ((fun e : sevent => match e with SSend f _ => [f] | _ => [] end) ev)
        with (match ev with SSend f _ => [f] | _ => [] end) by reflexivity.
      rewrite app_assoc, Hp1, <- !app_assoc. apply Permutation_app_head. exact Hp2.
    + intros [H|[H|H]].
      * apply Hfin. left. apply Hce1. left. exact H.
      * apply Hfin. left. apply Hce1. right. exact H.
      * apply Hfin. right. exact H.
Qed.

(* ---- FIFO matching ---- *)

Definition all_dead (p : list (N * bool)) : Prop := Forall (fun fl => snd fl = false) p.

(* the completion (f, r) pairs the i-th successfully sent request with the i-th response received, for some i *)
Definition paired (oks recvs : list N) (fr : N * N) : Prop :=
  exists i, nth_error oks i = Some (fst fr) /\ nth_error recvs i = Some (snd fr).

(* "aligned": every response so far was handed to the future of the request it answers -- whether or not
   somebody still waited on it; the queue holds the futures of the not-yet-answered successfully sent requests,
   in order (abandoned ones included), followed by the futures of failed sends.
   "finished": no successful completion can happen any more. *)
Definition fifo_inv (s : sstate) (broken : bool) (oks recvs : list N) (dones : list (N * N)) : Prop :=
  Forall (paired oks recvs) dones /\
  ( (ss_recv_exited s = false /\ length recvs <= length oks /\
     exists q deads, ss_pending s = q ++ deads /\ map fst q = skipn (length recvs) oks /\ all_dead deads /\
                     (deads <> [] -> broken = true))
    \/ ss_recv_exited s = true
    \/ (broken = true /\ all_dead (ss_pending s)) ).

Lemma paired_app oks oks' recvs recvs' fr : paired oks recvs fr -> paired (oks ++ oks') (recvs ++ recvs') fr.
Proof.
  intros (i & H1 & H2). exists i. split; rewrite nth_error_app1; auto; apply nth_error_Some; congruence.
Qed.

Lemma paired_all_app oks oks' recvs recvs' d :
  Forall (paired oks recvs) d -> Forall (paired (oks ++ oks') (recvs ++ recvs')) d.
Proof. intros H. eapply Forall_impl; [|exact H]. intros a. apply paired_app. Qed.

Lemma skipn_S_tail {A} : forall k (l : list A) f rest, skipn k l = f :: rest -> skipn (S k) l = rest.
Proof.
  induction k as [|k IH]; intros l f rest H.
  - cbn in H. subst l. reflexivity.
  - destruct l as [|a l]; [discriminate|]. cbn [skipn] in *. exact (IH l f rest H).
Qed.

Lemma skipn_cons_nth {A} : forall k (l : list A) f rest,
  skipn k l = f :: rest -> nth_error l k = Some f /\ k < length l.
Proof.
  induction k as [|k IH]; intros l f rest H.
  - destruct l; [discriminate|]. cbn in H. inversion H; subst. cbn. split; [reflexivity|lia].
  - destruct l as [|a l]; [discriminate|]. cbn in *. destruct (IH l f rest H). split; [assumption|lia].
Qed.

Lemma all_dead_app p q : all_dead p -> all_dead q -> all_dead (p ++ q).
Proof. intros H1 H2. apply Forall_app. split; assumption. Qed.

Lemma all_dead_live p : all_dead p -> live_ids p = [].
Proof.
  induction p as [|[g l] p IH]; intros H; [reflexivity|]. inversion H; subst. cbn in *. subst l.
  unfold live_ids in *. cbn. apply IH. assumption.
Qed.

(* abandoning touches only the part of the queue somebody waits on *)
Lemma abandon_app_dead f : forall q deads p',
  all_dead deads -> abandon f (q ++ deads) = Some p' ->
  exists q', p' = q' ++ deads /\ map fst q' = map fst q.
Proof.
  induction q as [|[g live] q IH]; intros deads p' Hd H.
  - cbn [app] in H. rewrite (abandon_none_of_dead f deads (all_dead_live _ Hd)) in H. discriminate.
  - cbn [app abandon] in H. destruct (N.eqb g f && live).
    + inversion H; subst. exists ((g, false) :: q). split; reflexivity.
    + destruct (abandon f (q ++ deads)) as [tl'|] eqn:A; [|discriminate]. inversion H; subst.
      destruct (IH deads tl' Hd A) as (q' & -> & M). exists ((g, live) :: q'). split; [reflexivity|cbn; now rewrite M].
Qed.

Ltac pre_tac Hpre Hpre' oks recvs :=
  cbn [app]; rewrite ?app_nil_r;
  first [ exact Hpre | apply Hpre' | rewrite <- (app_nil_r oks); apply Hpre' | rewrite <- (app_nil_r recvs); apply Hpre' ].

Lemma fifo_step s ev s' o broken oks recvs dones :
  ss_dead s = false ->
  stream_step true s ev = (s', o) ->
  fifo_inv s broken oks recvs dones ->
  (forall f ok, ev = SSend f ok -> broken = true -> ok = false) ->
  fifo_inv s' (next_broken broken ev)
    (oks ++ match ev with SSend f true => [f] | _ => [] end)
    (recvs ++ match ev with SRecvOk r => [r] | _ => [] end)
    (dones ++ ok_dones o).
Proof.
  intros Hd Hs (Hpre & Hphase) Hst. unfold stream_step in Hs. rewrite Hd in Hs.
  assert (Hpre' : forall a b, Forall (paired (oks ++ a) (recvs ++ b)) dones) by (intros; now apply paired_all_app).
  destruct Hphase as [(Hre & Hle & q & deads & Hp & Hq & Hdd & Hbr)|[Hre|(Hb & Hdead)]].
  - (* aligned *)
    destruct ev as [f ok|r| | |g]; cbn [next_broken].
    + destruct ok; inversion Hs; subst s' o; clear Hs; cbn [ok_dones flat_map]; rewrite !app_nil_r.
      * assert (deads = []).
        { destruct deads as [|d ds]; [reflexivity|].
          specialize (Hbr ltac:(discriminate)). specialize (Hst f true eq_refl Hbr). discriminate. }
        subst deads. rewrite app_nil_r in Hp.
        split; [rewrite <- (app_nil_r recvs); apply Hpre'|].
        left. cbn [ss_recv_exited ss_pending]. split; [exact Hre|]. split; [rewrite app_length; lia|].
        exists (q ++ [(f, true)]), []. split; [now rewrite app_nil_r, Hp|].
        split; [|split; [constructor|congruence]].
        rewrite map_app, Hq. cbn. rewrite skipn_app. replace (length recvs - length oks) with 0 by lia.
        reflexivity.
      * split; [rewrite <- (app_nil_r oks), <- (app_nil_r recvs); apply Hpre'|].
        left. cbn [ss_recv_exited ss_pending]. split; [exact Hre|]. split; [exact Hle|].
        exists q, (deads ++ [(f, false)]). split; [rewrite Hp, app_assoc; reflexivity|].
        split; [exact Hq|]. split; [apply all_dead_app; [exact Hdd|repeat constructor]|].
        intros _. now rewrite orb_true_r.
    + rewrite Hre in Hs. rewrite app_nil_r. rewrite Hp in Hs.
      destruct q as [|[f live] q'].
      * (* no request of the aligned part is outstanding *)
        cbn [app] in Hs.
        destruct deads as [|[fd ld] ds]; inversion Hs; subst s' o; clear Hs.
        -- cbn [ok_dones flat_map]. rewrite app_nil_r.
           split; [rewrite <- (app_nil_r oks); apply Hpre'|]. right. left. reflexivity.
        -- assert (ld = false) by (inversion Hdd; subst; assumption). subst ld.
           cbn [ok_dones flat_map]. rewrite app_nil_r.
           split; [rewrite <- (app_nil_r oks); apply Hpre'|].
           right. right. cbn [ss_pending]. split; [apply Hbr; discriminate|now inversion Hdd].
      * cbn [map fst] in Hq. symmetry in Hq.
        destruct (skipn_cons_nth _ _ _ _ Hq) as (Hn & Hlt).
        cbn [app] in Hs. inversion Hs; subst s' o; clear Hs.
        split.
        -- apply Forall_app. split; [rewrite <- (app_nil_r oks); apply Hpre'|].
           destruct live; cbn [ok_dones flat_map app]; [|constructor].
           constructor; [|constructor]. exists (length recvs). cbn [fst snd]. split; [exact Hn|].
           rewrite nth_error_app2 by lia. rewrite Nat.sub_diag. reflexivity.
        -- left. cbn [ss_recv_exited ss_pending]. split; [reflexivity|].
           split; [rewrite app_length; cbn; lia|].
           exists q', deads. split; [reflexivity|]. split; [|split; [exact Hdd|exact Hbr]].
           rewrite app_length. cbn [length]. rewrite Nat.add_1_r. symmetry. exact (skipn_S_tail _ _ _ _ Hq).
    + rewrite Hre in Hs. inversion Hs; subst s' o; clear Hs. cbn [ok_dones flat_map]. rewrite !app_nil_r.
      split; [exact Hpre|]. right. left. reflexivity.
    + destruct (ss_closed_exited s); inversion Hs; subst s' o; clear Hs.
      * cbn [ok_dones flat_map]. rewrite !app_nil_r. split; [exact Hpre|].
        left. split; [exact Hre|]. split; [exact Hle|]. exists q, deads. split; [exact Hp|]. split; [exact Hq|].
        split; [exact Hdd|reflexivity].
      * rewrite ok_dones_eof, !app_nil_r. split; [exact Hpre|].
        right. right. cbn [ss_pending]. split; [reflexivity|constructor].
    + (* a caller abandons its request: the future keeps its place *)
      rewrite !app_nil_r.
      destruct (abandon g (ss_pending s)) as [p'|] eqn:A; inversion Hs; subst s' o; clear Hs;
        cbn [ok_dones flat_map]; rewrite app_nil_r; (split; [exact Hpre|]).
      * rewrite Hp in A. destruct (abandon_app_dead _ _ _ _ Hdd A) as (q' & -> & M).
        left. cbn [ss_recv_exited ss_pending]. split; [exact Hre|]. split; [exact Hle|].
        exists q', deads. split; [reflexivity|]. split; [now rewrite M|]. split; [exact Hdd|exact Hbr].
      * left. split; [exact Hre|]. split; [exact Hle|]. exists q, deads. auto.
  - (* the receive loop has returned *)
    assert (Hre' : ss_recv_exited s' = true /\ ok_dones o = []).
    { destruct ev as [f ok|r| | |g].
      - destruct ok; inversion Hs; subst; cbn; auto.
      - rewrite Hre in Hs. inversion Hs; subst; auto.
      - rewrite Hre in Hs. inversion Hs; subst; auto.
      - destruct (ss_closed_exited s); inversion Hs; subst; cbn [ss_recv_exited]; auto using ok_dones_eof.
      - destruct (abandon g (ss_pending s)); inversion Hs; subst; cbn; auto. }
    destruct Hre' as (Hre' & Ho). rewrite Ho, app_nil_r.
    split; [pre_tac Hpre Hpre' oks recvs|]. right. left. exact Hre'.
  - (* broken, only dead futures queued *)
    destruct ev as [f ok|r| | |g]; cbn [next_broken].
    + rewrite (Hst f ok eq_refl Hb) in *. inversion Hs; subst s' o; clear Hs.
      cbn [ok_dones flat_map]. rewrite app_nil_r. split; [pre_tac Hpre Hpre' oks recvs|].
      right. right. cbn [ss_pending]. split; [now rewrite Hb|].
      apply all_dead_app; [exact Hdead|repeat constructor].
    + destruct (ss_recv_exited s) eqn:Hre.
      { inversion Hs; subst s' o; clear Hs. cbn [ok_dones flat_map]. rewrite app_nil_r.
        split; [pre_tac Hpre Hpre' oks recvs|]. right. left. exact Hre. }
      destruct (ss_pending s) as [|[fd ld] ds] eqn:P; inversion Hs; subst s' o; clear Hs.
      * cbn [ok_dones flat_map]. rewrite app_nil_r. split; [pre_tac Hpre Hpre' oks recvs|]. right. left. reflexivity.
      * assert (ld = false) by (inversion Hdead; subst; assumption). subst ld.
        cbn [ok_dones flat_map]. rewrite app_nil_r. split; [pre_tac Hpre Hpre' oks recvs|].
        right. right. cbn [ss_pending]. split; [exact Hb|now inversion Hdead].
    + destruct (ss_recv_exited s) eqn:Hre; inversion Hs; subst s' o; clear Hs;
        cbn [ok_dones flat_map]; rewrite app_nil_r; (split; [pre_tac Hpre Hpre' oks recvs|]); right; left; [exact Hre|reflexivity].
    + destruct (ss_closed_exited s); inversion Hs; subst s' o; clear Hs.
      * cbn [ok_dones flat_map]. rewrite app_nil_r. split; [pre_tac Hpre Hpre' oks recvs|]. right. right. split; [reflexivity|exact Hdead].
      * rewrite ok_dones_eof, app_nil_r. split; [pre_tac Hpre Hpre' oks recvs|]. right. right. cbn [ss_pending].
        split; [reflexivity|constructor].
    + rewrite (abandon_none_of_dead g _ (all_dead_live _ Hdead)) in Hs. inversion Hs; subst s' o; clear Hs.
      cbn [ok_dones flat_map]. rewrite app_nil_r. split; [pre_tac Hpre Hpre' oks recvs|]. right. right. auto.
Qed.

Lemma ok_sends_cons ev evs :
  ok_sends (ev :: evs) = match ev with SSend f true => [f] | _ => [] end ++ ok_sends evs.
Proof. unfold ok_sends. cbn [flat_map]. destruct ev as [f [|]| | | |g]; reflexivity. Qed.

Lemma recv_payloads_cons ev evs :
  recv_payloads (ev :: evs) = match ev with SRecvOk r => [r] | _ => [] end ++ recv_payloads evs.
Proof. unfold recv_payloads. cbn [flat_map]. destruct ev; reflexivity. Qed.

Lemma fifo_run : forall evs s broken oks recvs dones,
  ss_dead s = false -> fifo_inv s broken oks recvs dones -> sticky broken evs ->
  exists s' tr broken', stream_run_from true s evs = (s', tr) /\
    fifo_inv s' broken' (oks ++ ok_sends evs) (recvs ++ recv_payloads evs) (dones ++ ok_dones tr).
Proof.
  induction evs as [|ev evs IH]; intros s broken oks recvs dones Hd Hinv Hst; cbn [stream_run_from].
  - exists s, [], broken. split; [reflexivity|]. cbn. now rewrite !app_nil_r.
  - destruct (stream_step_count s ev Hd) as (s1 & o1 & Hs & Hd1 & _). rewrite Hs.
    destruct (sticky_cons _ _ _ Hst) as (Hst0 & Hst1).
    pose proof (fifo_step s ev s1 o1 broken oks recvs dones Hd Hs Hinv Hst0) as Hinv1.
    destruct (IH s1 _ _ _ _ Hd1 Hinv1 Hst1) as (s2 & o2 & b2 & Hr & Hinv2). rewrite Hr.
    exists s2, (o1 ++ o2), b2. split; [reflexivity|].
    rewrite ok_sends_cons, recv_payloads_cons, ok_dones_app, !app_assoc. exact Hinv2.
Qed.

(* ---- the theorems ---- *)

(* Every successful completion hands a request the response that answers it: there is an i such that the
   request is the i-th successfully sent one and the response the i-th one received -- requests whose caller
   gave up in between (per-request timeout / cancellation) keep their place in the count. *)
Theorem stream_fifo : forall evs s tr,
  sticky false evs -> stream_run true evs = (s, tr) ->
  forall f r, In (f, r) (ok_dones tr) ->
    exists i, nth_error (ok_sends evs) i = Some f /\ nth_error (recv_payloads evs) i = Some r.
Proof.
  intros evs s tr Hst Hr f r Hin.
  assert (Hinv : fifo_inv sinit false [] [] []).
  { split; [constructor|]. left. split; [reflexivity|]. split; [cbn; lia|].
    exists [], []. repeat split; auto. constructor. }
  destruct (fifo_run evs sinit false [] [] [] eq_refl Hinv Hst) as (s' & tr' & b' & Hr' & (Hpre & _)).
  unfold stream_run in Hr. rewrite Hr in Hr'. inversion Hr'; subst. cbn [app] in Hpre.
  rewrite Forall_forall in Hpre. exact (Hpre (f, r) Hin).
Qed.

(* No panic; every Send() either has returned exactly once or is still waiting; after the stream context is
   done nobody is left waiting. *)
Theorem stream_exactly_once : forall evs s tr,
  sticky false evs -> stream_run true evs = (s, tr) ->
  ~ In SPanicked tr /\
  Permutation (sent_ids evs) (done_ids tr ++ live_ids (ss_pending s)) /\
  (In SCtxDone evs -> live_ids (ss_pending s) = []).
Proof.
  intros evs s tr Hst Hr.
  destruct (stream_run_count evs sinit false eq_refl Hst ltac:(discriminate)) as (s' & tr' & Hr' & _ & Hc & Hp & Hf).
  unfold stream_run in Hr. rewrite Hr in Hr'. inversion Hr'; subst.
  split; [exact Hc|]. split; [exact Hp|]. intros H. apply Hf. right. exact H.
Qed.

(* the fixed code never panics, whatever the stream does *)
Theorem stream_no_panic : forall evs s tr, stream_run true evs = (s, tr) -> ~ In SPanicked tr.
Proof.
  intros evs s tr Hr.
  assert (G : forall evs s, ss_dead s = false ->
              ~ In SPanicked (snd (stream_run_from true s evs)) /\ ss_dead (fst (stream_run_from true s evs)) = false).
  { clear. induction evs as [|ev evs IH]; intros s Hd; cbn [stream_run_from]; [split; [intros []|exact Hd]|].
    destruct (stream_step_count s ev Hd) as (s1 & o1 & Hs & Hd1 & Hc1 & _). rewrite Hs.
    destruct (IH s1 Hd1) as (Hc2 & Hd2). destruct (stream_run_from true s1 evs) as [s2 o2]. cbn in *.
    split; [intros H; apply in_app_or in H; tauto|exact Hd2]. }
  specialize (G evs sinit eq_refl). unfold stream_run in Hr. rewrite Hr in G. exact (proj1 G).
Qed.

(* The code as found: a response that is delivered after the stream context is done (the pending list has
   been dropped by handleStreamClosed) indexes an empty slice. *)
Theorem stream_old_refuted :
  exists evs, sticky false evs /\ In SPanicked (snd (stream_run false evs)).
Proof.
  exists [SSend 1 true; SCtxDone; SRecvOk 7]. split; [cbn; auto|]. vm_compute. auto.
Qed.

Definition ex_sevs : list sevent :=
  [SSend 1 true; SSend 2 true; SRecvOk 10; SWaitCancel 2; SSend 3 true; SRecvOk 20; SRecvOk 30; SSend 7 true;
   SSend 4 false; SSend 5 false; SCtxDone; SRecvOk 40; SSend 6 false].

(* request 2 is abandoned while on the wire: its late response (20) is swallowed by its own future, request 3
   gets its own response (30) *)
Example stream_nonvacuous :
  sticky false ex_sevs /\
  snd (stream_run true ex_sevs) =
    [SDone 1 (SOk 10); SDone 2 SErrCtx; SDone 3 (SOk 30); SDone 4 SErrSend; SDone 5 SErrSend; SDone 7 SEOF;
     SDone 6 SErrSend].
Proof. split; [cbn; repeat split; intros; congruence|vm_compute; reflexivity]. Qed.
