(* Exactly-once delivery of callbacks by the batcher + write/read batches, for every event sequence,
   every limit configuration and every executor whose answers are long enough. *)
From Coq Require Import List NArith ZArith Bool Lia Arith Permutation.
From Oxia.Client Require Import Model.
Import ListNotations.

(* ---- vocabulary of the statements ---- *)

Definition done_calls (tr : list obs) : list call :=
  flat_map (fun o => match o with Done c _ => [c] | _ => [] end) tr.

Definition submitted {E : Type} (calls_of : E -> list call) (evs : list E) : list call := flat_map calls_of evs.

Definition ev_calls (ev : event) : list call := match ev with Call c => [c] | _ => [] end.

Definition pending (cfg : config) (s : bstate) : list call :=
  match st_batch s with Some b => batch_calls cfg b | None => [] end.

(* the call has the Go type the batch accepts (the client only ever routes Put/Delete/DeleteRange calls to
   write batchers and Get calls to read batchers) *)
Definition kind_ok (cfg : config) (c : call) : Prop :=
  match cf_kind cfg, c_kind c with
  | BWrite, KGet => False
  | BWrite, _ => True
  | BRead, KGet => True
  | BRead, _ => False
  end.

(* the executor answers every request either with an error or with at least one answer per call *)
Definition exec_ok (exec : N -> request -> exec_result) : Prop :=
  forall n q, match exec n q with
              | EErr _ => True
              | EOk r => length (q_puts q) <= length (r_puts r) /\ length (q_dels q) <= length (r_dels r) /\
                         length (q_ranges q) <= length (r_ranges r) /\ length (q_gets q) <= length (r_gets r)
              end.

Definition req_calls (q : request) : list call := q_puts q ++ q_dels q ++ q_ranges q ++ q_gets q.

(* p is the answer found at c's own position (same list, same index) *)
Definition answer_at (q : request) (resp : response) (c : call) (p : N) : Prop :=
  exists i,
    (nth_error (q_puts q) i = Some c /\ nth_error (r_puts resp) i = Some p) \/
    (nth_error (q_dels q) i = Some c /\ nth_error (r_dels resp) i = Some p) \/
    (nth_error (q_ranges q) i = Some c /\ nth_error (r_ranges resp) i = Some p) \/
    (nth_error (q_gets q) i = Some c /\ nth_error (r_gets resp) i = Some p).

(* the result r handed to c's callback is ErrShuttingDown, or there is a request in the trace that contains c and
   r is that request's error, or the executor's answer at c's position in that request *)
Definition justified (exec : N -> request -> exec_result) (tr : list obs) (c : call) (r : result) : Prop :=
  r = RShutdown \/
  exists n q, In (Sent n q) tr /\ In c (req_calls q) /\
    match exec n q with
    | EErr e => r = RErr e
    | EOk resp => exists p, r = ROk p /\ answer_at q resp c p
    end.

(* Close() is called at most once (batch.Manager.Close removes the batcher from its map before closing it) *)
Fixpoint close_ok (closed : bool) (evs : list event) : Prop :=
  match evs with
  | [] => True
  | Close :: r => closed = false /\ close_ok true r
  | _ :: r => close_ok closed r
  end.

Definition ev_kind_ok (cfg : config) (ev : event) : Prop :=
  match ev with Call c => kind_ok cfg c | _ => True end.

(* ---- small facts ---- *)

Lemma done_calls_app a b : done_calls (a ++ b) = done_calls a ++ done_calls b.
Proof. unfold done_calls. apply flat_map_app. Qed.

Lemma done_calls_done c r o : done_calls (Done c r :: o) = c :: done_calls o.
Proof. reflexivity. Qed.

Lemma done_calls_sent n q o : done_calls (Sent n q :: o) = done_calls o.
Proof. reflexivity. Qed.

Lemma done_calls_fail cfg b r : done_calls (fail_batch cfg b r) = batch_calls cfg b.
Proof.
  unfold fail_batch. induction (batch_calls cfg b) as [|c l IH]; cbn; [reflexivity|].
  f_equal. exact IH.
Qed.

Lemma justified_incl exec tr tr' c r :
  justified exec tr c r -> incl tr tr' -> justified exec tr' c r.
Proof.
  intros [H|(n & q & Hin & H)] Hi; [left; exact H|].
  right. exists n, q. split; [apply Hi; exact Hin|exact H].
Qed.

Lemma handle_from_ok : forall cs rs i,
  i + length cs <= length rs ->
  exists o, handle_from i cs rs = (o, false) /\ done_calls o = cs /\
    (forall x, In x o -> exists j c p, x = Done c (ROk p) /\ nth_error cs j = Some c /\ nth_error rs (i + j) = Some p).
Proof.
  induction cs as [|c cs IH]; intros rs i H; cbn [handle_from].
  - exists []. repeat split; auto. intros x [].
  - cbn [length] in H. destruct (nth_error rs i) as [r|] eqn:E.
    2:{ apply nth_error_None in E. lia. }
    destruct (IH rs (S i) ltac:(lia)) as (o & Ho & Hd & Hj). rewrite Ho.
    exists (Done c (ROk r) :: o). split; [reflexivity|]. split; [now rewrite done_calls_done, Hd|].
    intros x [<-|Hx].
    + exists 0, c, r. rewrite Nat.add_0_r. auto.
    + destruct (Hj x Hx) as (j & c' & p & -> & Hc & Hp). exists (S j), c', p.
      repeat split; auto. now rewrite <- plus_n_Sm.
Qed.

Section BatcherProofs.
  Variable exec : N -> request -> exec_result.
  Variable cfg : config.
  Hypothesis Hexec : exec_ok exec.

  Definition clean (o : list obs) : Prop := ~ In Panicked o.

  Lemma clean_app a b : clean a -> clean b -> clean (a ++ b).
  Proof. unfold clean. intros Ha Hb H. apply in_app_or in H. tauto. Qed.

  Lemma clean_dones (o : list obs) :
    (forall x, In x o -> exists c r, x = Done c r) -> clean o.
  Proof. intros H Hp. destruct (H _ Hp) as (c & r & E). discriminate. Qed.

  Lemma handle_ok b resp n :
    exec n (to_proto cfg b) = EOk resp ->
    exists o, handle cfg b resp = (o, false) /\ done_calls o = batch_calls cfg b /\ clean o /\
      (forall c r, In (Done c r) o -> exists p, r = ROk p /\ answer_at (to_proto cfg b) resp c p).
  Proof.
    intros He. pose proof (Hexec n (to_proto cfg b)) as Hl. rewrite He in Hl.
    destruct Hl as (Lp & Ld & Lr & Lg).
    unfold handle, batch_calls, to_proto in *. destruct (cf_kind cfg); cbn [q_puts q_dels q_ranges q_gets] in *.
    - destruct (handle_from_ok (b_puts b) (r_puts resp) 0 ltac:(lia)) as (o1 & E1 & D1 & J1).
      destruct (handle_from_ok (b_dels b) (r_dels resp) 0 ltac:(lia)) as (o2 & E2 & D2 & J2).
      destruct (handle_from_ok (b_ranges b) (r_ranges resp) 0 ltac:(lia)) as (o3 & E3 & D3 & J3).
      rewrite E1, E2, E3. exists (o1 ++ o2 ++ o3). split; [reflexivity|].
      split; [now rewrite !done_calls_app, D1, D2, D3|].
      split.
      + apply clean_dones. intros x Hx.
        apply in_app_or in Hx. destruct Hx as [Hx|Hx]; [|apply in_app_or in Hx; destruct Hx as [Hx|Hx]].
        * destruct (J1 x Hx) as (j & c & p & -> & _); eauto.
        * destruct (J2 x Hx) as (j & c & p & -> & _); eauto.
        * destruct (J3 x Hx) as (j & c & p & -> & _); eauto.
      + intros c r Hx.
        apply in_app_or in Hx. destruct Hx as [Hx|Hx]; [|apply in_app_or in Hx; destruct Hx as [Hx|Hx]].
        * destruct (J1 _ Hx) as (j & c' & p & E & Hc & Hp). inversion E; subst. exists p. split; [reflexivity|].
          exists j. left. cbn. auto.
        * destruct (J2 _ Hx) as (j & c' & p & E & Hc & Hp). inversion E; subst. exists p. split; [reflexivity|].
          exists j. right. left. cbn. auto.
        * destruct (J3 _ Hx) as (j & c' & p & E & Hc & Hp). inversion E; subst. exists p. split; [reflexivity|].
          exists j. right. right. left. cbn. auto.
    - destruct (handle_from_ok (b_gets b) (r_gets resp) 0 ltac:(lia)) as (o1 & E1 & D1 & J1).
      rewrite E1. exists o1. split; [reflexivity|]. split; [exact D1|]. split.
      + apply clean_dones. intros x Hx. destruct (J1 x Hx) as (j & c & p & -> & _); eauto.
      + intros c r Hx. destruct (J1 _ Hx) as (j & c' & p & E & Hc & Hp). inversion E; subst. exists p.
        split; [reflexivity|]. exists j. right. right. right. cbn. auto.
  Qed.

  Lemma req_calls_to_proto b : req_calls (to_proto cfg b) = batch_calls cfg b.
  Proof.
    unfold req_calls, to_proto, batch_calls. destruct (cf_kind cfg); cbn.
    - now rewrite app_nil_r.
    - reflexivity.
  Qed.

  (* Complete(): every call of the batch gets its callback exactly once, with a justified result; no panic *)
  Lemma complete_ok n b :
    exists n' o, complete exec cfg n b = (n', o, false) /\ done_calls o = batch_calls cfg b /\ clean o /\
      (forall c r, In (Done c r) o -> justified exec o c r).
  Proof.
    unfold complete.
    destruct (cf_kind cfg) eqn:K; destruct (Z.eqb (bsize cfg b) 0) eqn:Z0.
    1:{ (* empty write batch: nothing happens *)
        exists n, []. split; [reflexivity|]. split.
        - unfold bsize, batch_calls in *. rewrite K in *. apply Z.eqb_eq in Z0.
          destruct (b_puts b), (b_dels b), (b_ranges b); cbn in *; try lia. reflexivity.
        - split; [intros []|intros c r []]. }
    all: destruct (exec n (to_proto cfg b)) as [resp|e] eqn:He.
    all: try (destruct (handle_ok b resp n He) as (o & Ho & Hd & Hc & Hj); rewrite Ho;
              exists (N.succ n), (Sent n (to_proto cfg b) :: o); split; [reflexivity|];
              split; [exact Hd|]; split;
              [intros [H|H]; [discriminate|exact (Hc H)]|];
              intros c r [H|H]; [discriminate|];
              right; exists n, (to_proto cfg b); split; [left; reflexivity|]; split;
              [rewrite req_calls_to_proto, <- Hd; unfold done_calls; apply in_flat_map;
               exists (Done c r); split; [exact H|left; reflexivity]|];
              rewrite He; exact (Hj c r H)).
    all: exists (N.succ n), (Sent n (to_proto cfg b) :: fail_batch cfg b (RErr e)); split; [reflexivity|];
         split; [cbn; apply done_calls_fail|]; split;
         [intros [H|H]; [discriminate|]; unfold fail_batch in H; apply in_map_iff in H;
          destruct H as (x & Hx & _); discriminate|];
         intros c r [H|H]; [discriminate|];
         unfold fail_batch in H; apply in_map_iff in H; destruct H as (x & Hx & Hin); inversion Hx; subst;
         right; exists n, (to_proto cfg b); split; [left; reflexivity|]; split;
         [rewrite req_calls_to_proto; exact Hin|]; rewrite He; reflexivity.
  Qed.

  Lemma can_add_ok b c : kind_ok cfg c -> exists ca, can_add cfg b c = Some ca.
  Proof.
    unfold kind_ok, can_add, write_byte_size. destruct (cf_kind cfg), (c_kind c); intros H; try contradiction; eauto.
  Qed.

  Lemma add_ok b c : kind_ok cfg c ->
    exists b2, add cfg b c = Some b2 /\ Permutation (batch_calls cfg b2) (batch_calls cfg b ++ [c]).
  Proof.
    unfold kind_ok, add, batch_calls. destruct (cf_kind cfg), (c_kind c); intros H; try contradiction;
      eexists; (split; [reflexivity|]); cbn [b_puts b_dels b_ranges b_gets].
    - rewrite <- !app_assoc. apply Permutation_app_head.
      rewrite (app_assoc (b_dels b)). apply Permutation_app_comm.
    - rewrite <- !app_assoc. apply Permutation_app_head. apply Permutation_app_head. apply Permutation_app_comm.
    - rewrite <- !app_assoc. reflexivity.
    - reflexivity.
  Qed.

  Lemma batch_calls_new : batch_calls cfg new_batch = [].
  Proof. unfold batch_calls. destruct (cf_kind cfg); reflexivity. Qed.

  Lemma fail_justified b c r : In (Done c r) (fail_batch cfg b RShutdown) -> r = RShutdown.
  Proof.
    unfold fail_batch. intros H. apply in_map_iff in H. destruct H as (x & E & _). now inversion E.
  Qed.

  Lemma fail_clean b r : clean (fail_batch cfg b r).
  Proof. unfold clean, fail_batch. intros H. apply in_map_iff in H. destruct H as (x & E & _). discriminate. Qed.

  (* invariant of Run between two events *)
  Definition good (s : bstate) : Prop :=
    st_dead s = false /\
    (cf_linger_pos cfg = false -> st_batch s = None) /\
    (st_closed s = true -> st_batch s = None).

  Definition ev_ok (closed : bool) (ev : event) : Prop :=
    match ev with
    | Call c => kind_ok cfg c
    | Tick => True
    | Close => closed = false
    end.

  Definition is_close (ev : event) : bool := match ev with Close => true | _ => false end.

  Lemma step_ok s ev :
    good s -> ev_ok (st_closed s) ev ->
    exists s' o, step exec cfg s ev = (s', o) /\ good s' /\ clean o /\
      Permutation (pending cfg s ++ ev_calls ev) (done_calls o ++ pending cfg s') /\
      (forall c r, In (Done c r) o -> justified exec o c r) /\
      st_closed s' = st_closed s || is_close ev.
  Proof.
    intros (Hd & Hl & Hc) Hev. unfold step. rewrite Hd.
    destruct ev as [c| |]; cbn [ev_ok ev_calls is_close] in *.
    - (* Call *)
      destruct (st_closed s) eqn:Cl.
      + destruct (add_ok new_batch c Hev) as (b & Hb & Pb). rewrite Hb.
        exists s, (fail_batch cfg b RShutdown). split; [reflexivity|].
        split; [repeat split; auto; now rewrite Cl|]. split; [apply fail_clean|].
        split.
        * rewrite done_calls_fail. unfold pending. rewrite (Hc eq_refl). cbn.
          rewrite app_nil_r. rewrite batch_calls_new in Pb. cbn in Pb. symmetry. exact Pb.
        * split; [|now rewrite Cl].
          intros c' r H. left. eapply fail_justified; eauto.
      + set (b0 := match st_batch s with Some b => b | None => new_batch end).
        assert (Hp0 : pending cfg s = batch_calls cfg b0).
        { unfold pending, b0. destruct (st_batch s); [reflexivity|now rewrite batch_calls_new]. }
        destruct (can_add_ok b0 c Hev) as (ca & Hca). rewrite Hca.
        destruct ca.
        * (* the call fits *)
          destruct (add_ok b0 c Hev) as (b2 & Hb2 & Pb2). rewrite Hb2. cbn [app].
          destruct (Z.eqb (bsize cfg b2) (cf_max_requests cfg) || negb (cf_linger_pos cfg)) eqn:Full.
          -- destruct (complete_ok (st_nexec s) b2) as (n2 & o2 & Hcomp & Hd2 & Hc2 & Hj2). rewrite Hcomp.
             exists (mkB None false n2 false), o2. split; [reflexivity|].
             split; [repeat split; auto; cbn; discriminate|]. split; [exact Hc2|].
             split; [|split; [exact Hj2|reflexivity]].
             rewrite Hd2, Hp0. unfold pending; cbn. rewrite app_nil_r. symmetry. exact Pb2.
          -- apply orb_false_iff in Full. destruct Full as (_ & Lp). apply negb_false_iff in Lp.
             exists (mkB (Some b2) false (st_nexec s) false), []. split; [reflexivity|].
             split; [repeat split; auto; cbn; [congruence|discriminate]|]. split; [intros []|].
             split; [|split; [intros ? ? []|reflexivity]].
             rewrite Hp0. unfold pending; cbn. symmetry. exact Pb2.
        * (* the call does not fit: complete the current batch, start a new one *)
          destruct (complete_ok (st_nexec s) b0) as (n1 & o1 & Hcomp1 & Hd1 & Hc1 & Hj1). rewrite Hcomp1.
          destruct (add_ok new_batch c Hev) as (b2 & Hb2 & Pb2). rewrite Hb2.
          rewrite batch_calls_new in Pb2. cbn in Pb2.
          destruct (Z.eqb (bsize cfg b2) (cf_max_requests cfg) || negb (cf_linger_pos cfg)) eqn:Full.
          -- destruct (complete_ok n1 b2) as (n2 & o2 & Hcomp & Hd2 & Hc2 & Hj2). rewrite Hcomp.
             exists (mkB None false n2 false), (o1 ++ o2). split; [reflexivity|].
             split; [repeat split; auto; cbn; discriminate|]. split; [apply clean_app; auto|].
             split; [|split; [|reflexivity]].
             ++ rewrite done_calls_app, Hd1, Hd2, Hp0. unfold pending; cbn. rewrite app_nil_r.
                apply Permutation_app_head. symmetry. exact Pb2.
             ++ intros c' r H. apply in_app_or in H. destruct H as [H|H].
                ** eapply justified_incl; [apply Hj1; exact H|apply incl_appl, incl_refl].
                ** eapply justified_incl; [apply Hj2; exact H|apply incl_appr, incl_refl].
          -- apply orb_false_iff in Full. destruct Full as (_ & Lp). apply negb_false_iff in Lp.
             exists (mkB (Some b2) false n1 false), o1. split; [reflexivity|].
             split; [repeat split; auto; cbn; [congruence|discriminate]|]. split; [exact Hc1|].
             split; [|split; [exact Hj1|reflexivity]].
             rewrite Hd1, Hp0. unfold pending; cbn. apply Permutation_app_head. symmetry. exact Pb2.
    - (* Tick *)
      rewrite app_nil_r.
      destruct (cf_linger_pos cfg) eqn:Lp.
      + destruct (st_batch s) as [b|] eqn:Sb.
        * destruct (complete_ok (st_nexec s) b) as (n2 & o2 & Hcomp & Hd2 & Hc2 & Hj2). rewrite Hcomp.
          exists (mkB None (st_closed s) n2 false), o2. split; [reflexivity|].
          split; [repeat split; auto|]. split; [exact Hc2|].
          split; [|split; [exact Hj2|cbn; now rewrite orb_false_r]].
          rewrite Hd2. unfold pending. rewrite Sb. cbn. now rewrite app_nil_r.
        * exists s, []. split; [reflexivity|]. split; [repeat split; auto|]. split; [intros []|].
          split; [reflexivity|]. split; [intros ? ? []|now rewrite orb_false_r].
      + exists s, []. split; [reflexivity|]. split; [repeat split; auto|]. split; [intros []|].
        split; [reflexivity|]. split; [intros ? ? []|now rewrite orb_false_r].
    - (* Close *)
      rewrite app_nil_r. rewrite Hev.
      destruct (st_batch s) as [b|] eqn:Sb.
      + destruct (cf_linger_pos cfg) eqn:Lp; [|specialize (Hl eq_refl); discriminate].
        exists (mkB None true (st_nexec s) false), (fail_batch cfg b RShutdown). split; [reflexivity|].
        split; [repeat split; auto|]. split; [apply fail_clean|].
        split; [|split; [|reflexivity]].
        * rewrite done_calls_fail. unfold pending. rewrite Sb. cbn. now rewrite app_nil_r.
        * intros c r H. left. eapply fail_justified; eauto.
      + exists (mkB None true (st_nexec s) false), []. split; [reflexivity|].
        split; [repeat split; auto|]. split; [intros []|].
        split; [unfold pending; rewrite Sb; reflexivity|]. split; [intros ? ? []|reflexivity].
  Qed.

  Lemma run_from_ok : forall evs s,
    good s -> close_ok (st_closed s) evs -> Forall (ev_kind_ok cfg) evs ->
    exists s' tr, run_from exec cfg s evs = (s', tr) /\ good s' /\ clean tr /\
      Permutation (pending cfg s ++ flat_map ev_calls evs) (done_calls tr ++ pending cfg s') /\
      (forall c r, In (Done c r) tr -> justified exec tr c r) /\
      st_closed s' = st_closed s || existsb is_close evs.
  Proof.
    induction evs as [|ev evs IH]; intros s Hg Hc Hk; cbn [run_from flat_map existsb].
    - exists s, []. split; [reflexivity|]. split; [exact Hg|]. split; [intros []|].
      split; [now rewrite app_nil_r|]. split; [intros ? ? []|now rewrite orb_false_r].
    - inversion Hk as [|? ? Hk1 Hk2]; subst.
      assert (Hev : ev_ok (st_closed s) ev).
      { destruct ev; cbn in *; auto. tauto. }
      destruct (step_ok s ev Hg Hev) as (s1 & o1 & Hs & Hg1 & Hc1 & Hp1 & Hj1 & Hcl1). rewrite Hs.
      assert (Hc' : close_ok (st_closed s1) evs).
      { rewrite Hcl1. destruct ev; cbn in *; rewrite ?orb_false_r; auto.
        destruct Hc as (-> & Hc). exact Hc. }
      destruct (IH s1 Hg1 Hc' Hk2) as (s2 & o2 & Hr & Hg2 & Hc2 & Hp2 & Hj2 & Hcl2). rewrite Hr.
      exists s2, (o1 ++ o2). split; [reflexivity|]. split; [exact Hg2|]. split; [apply clean_app; auto|].
      split; [|split].
      + rewrite done_calls_app, app_assoc, Hp1, <- !app_assoc. apply Permutation_app_head. exact Hp2.
      + intros c r H. apply in_app_or in H. destruct H as [H|H].
        * eapply justified_incl; [apply Hj1; exact H|apply incl_appl, incl_refl].
        * eapply justified_incl; [apply Hj2; exact H|apply incl_appr, incl_refl].
      + rewrite Hcl2, Hcl1. now rewrite orb_assoc.
  Qed.
End BatcherProofs.

Lemma existsb_is_close evs : In Close evs -> existsb is_close evs = true.
Proof. intros H. apply existsb_exists. exists Close. split; [exact H|reflexivity]. Qed.

(* Main theorem: for every executor with long-enough answers, every configuration, every sequence of events in
   which the calls have the type of the batcher and Close is called at most once:
   - nothing panics;
   - the submitted calls are, as a multiset, exactly the calls whose callback has fired plus the calls
     still waiting in the open batch (so nobody is called twice and nobody is lost);
   - every callback got ErrShuttingDown, or the error of the request its call travelled in, or the executor's
     answer at its call's own position in that request;
   - with linger = 0, or once Close has happened, nothing is left waiting. *)
Theorem exactly_once : forall exec cfg evs s tr,
  exec_ok exec -> Forall (ev_kind_ok cfg) evs -> close_ok false evs ->
  run exec cfg evs = (s, tr) ->
  st_dead s = false /\ ~ In Panicked tr /\
  Permutation (flat_map ev_calls evs) (done_calls tr ++ pending cfg s) /\
  (forall c r, In (Done c r) tr -> justified exec tr c r) /\
  (cf_linger_pos cfg = false \/ In Close evs -> pending cfg s = []).
Proof.
  intros exec cfg evs s tr He Hk Hc Hr.
  assert (Hg : good cfg init_state) by (repeat split; auto).
  destruct (run_from_ok exec cfg He evs init_state Hg Hc Hk) as (s' & tr' & Hr' & (Hd & Hl & Hcl) & Hcn & Hp & Hj & Hclosed).
  unfold run in Hr. rewrite Hr in Hr'. inversion Hr'; subst s' tr'.
  split; [exact Hd|]. split; [exact Hcn|]. split; [exact Hp|]. split; [exact Hj|].
  intros [H|H]; unfold pending.
  - now rewrite (Hl H).
  - rewrite Hcl; [reflexivity|]. rewrite Hclosed. cbn. now apply existsb_is_close.
Qed.

(* with distinct calls: "exactly once" in the literal sense *)
Corollary exactly_once_nodup : forall exec cfg evs s tr,
  exec_ok exec -> Forall (ev_kind_ok cfg) evs -> close_ok false evs ->
  run exec cfg evs = (s, tr) ->
  NoDup (flat_map ev_calls evs) ->
  (cf_linger_pos cfg = false \/ In Close evs) ->
  NoDup (done_calls tr) /\ (forall c, In c (done_calls tr) <-> In c (flat_map ev_calls evs)).
Proof.
  intros exec cfg evs s tr He Hk Hc Hr Hnd Hend.
  destruct (exactly_once exec cfg evs s tr He Hk Hc Hr) as (_ & _ & Hp & _ & Hpend).
  rewrite (Hpend Hend), app_nil_r in Hp. split.
  - eapply Permutation_NoDup; eauto.
  - intros c. split; intros H.
    + eapply Permutation_in; [symmetry; exact Hp|exact H].
    + eapply Permutation_in; [exact Hp|exact H].
Qed.

(* Complete() sends a request exactly when the batch holds at least one CALL -- whatever the byte size the batch has
   accumulated (calls without key material have size 0): the emptiness test of the write batch counts calls, not bytes. *)
Theorem complete_sends_iff_calls_nonempty : forall exec cfg n b,
  (batch_calls cfg b <> [] ->
     exists o p, complete exec cfg n b = (N.succ n, Sent n (to_proto cfg b) :: o, p)) /\
  (cf_kind cfg = BWrite -> batch_calls cfg b = [] -> complete exec cfg n b = (n, [], false)).
Proof.
  intros exec cfg n b. split.
  - intros Hne. unfold complete.
    destruct (cf_kind cfg) eqn:K; destruct (Z.eqb (bsize cfg b) 0) eqn:Z0.
    1:{ exfalso. apply Hne. unfold bsize, batch_calls in *. rewrite K in *. apply Z.eqb_eq in Z0.
        destruct (b_puts b), (b_dels b), (b_ranges b); cbn in *; try lia. reflexivity. }
    all: destruct (exec n (to_proto cfg b)) as [resp|e]; [destruct (handle cfg b resp) as [o p]|]; eauto.
  - intros K Hnil. unfold complete. rewrite K.
    assert (E : bsize cfg b = 0%Z).
    { unfold bsize, batch_calls in *. rewrite K in *.
      assert (L : length (b_puts b ++ b_dels b ++ b_ranges b) = 0) by (rewrite Hnil; reflexivity).
      rewrite !app_length in L. lia. }
    rewrite E. reflexivity.
Qed.

(* ---- the retry loop: exactly-once for every attempt script ---- *)

Definition long_enough (q : request) (r : response) : Prop :=
  length (q_puts q) <= length (r_puts r) /\ length (q_dels q) <= length (r_dels r) /\
  length (q_ranges q) <= length (r_ranges r) /\ length (q_gets q) <= length (r_gets r).

(* every attempt that ends well has delivered at least one answer per call *)
Definition attempts_ok (script : N -> request -> attempt * list attempt) : Prop :=
  forall n q a, (a = fst (script n q) \/ In a (snd (script n q))) -> at_end a = AOk -> long_enough q (do_request a).

Lemma with_retries_ok q : forall rest a,
  (forall x, x = a \/ In x rest -> at_end x = AOk -> long_enough q (do_request x)) ->
  match with_retries a rest with EOk r => long_enough q r | EErr _ => True end.
Proof.
  induction rest as [|a' rest IH]; intros a H; cbn [with_retries]; destruct (at_end a) eqn:E;
    try exact I; try (apply H; [left; reflexivity|exact E]).
  apply IH. intros x Hx. apply H. destruct Hx as [->|Hx]; right; [left; reflexivity|right; exact Hx].
Qed.

Lemma retry_exec_ok script : attempts_ok script -> exec_ok (retry_exec script).
Proof.
  intros H n q. unfold retry_exec. specialize (H n q). destruct (script n q) as [a rest]. cbn [fst snd] in H.
  pose proof (with_retries_ok q rest a H) as G. destruct (with_retries a rest); [exact G|exact I].
Qed.

(* what the batch sees is the outcome of the last attempt made: earlier (failed) attempts leave no trace *)
Lemma with_retries_last : forall pre a last,
  Forall (fun x => exists e, at_end x = ARetriable e) (a :: pre) ->
  (forall e, at_end last <> ARetriable e) ->
  with_retries a (pre ++ [last]) =
    match at_end last with AOk => EOk (do_request last) | AFatal e => EErr e | ARetriable e => EErr e end.
Proof.
  induction pre as [|b pre IH]; intros a last Hr Hl; inversion Hr as [|? ? (e & Ea) Hr']; subst; cbn [with_retries app];
    rewrite Ea.
  - cbn [with_retries]. destruct (at_end last); reflexivity.
  - apply IH; assumption.
Qed.

(* Main theorem with the retry loop explicit: for EVERY attempt script -- any number of attempts per request, any
   chunking, any partial delivery before a retriable failure -- in which the attempts that end well are long
   enough, the conclusions of [exactly_once] hold, the executor's answer being that of the last attempt. *)
Theorem exactly_once_attempts : forall script cfg evs s tr,
  attempts_ok script -> Forall (ev_kind_ok cfg) evs -> close_ok false evs ->
  run (retry_exec script) cfg evs = (s, tr) ->
  st_dead s = false /\ ~ In Panicked tr /\
  Permutation (flat_map ev_calls evs) (done_calls tr ++ pending cfg s) /\
  (forall c r, In (Done c r) tr -> justified (retry_exec script) tr c r) /\
  (cf_linger_pos cfg = false \/ In Close evs -> pending cfg s = []).
Proof.
  intros script cfg evs s tr Ha. apply exactly_once. apply retry_exec_ok. exact Ha.
Qed.

(* ---- the hypotheses are satisfiable, and the one on the executor is needed ---- *)

Definition simple_bh (b : list nat * behaviour) : Prop := snd b = BhOk \/ exists e, snd b = BhErr e.

Lemma do_request_single r : do_request (mkAttempt [r] AOk) = r.
Proof. unfold do_request. cbn. destruct r; reflexivity. Qed.

Lemma partial_attempts_retriable n q : forall ks a x,
  In x (partial_attempts n a ks q) -> at_end x = ARetriable 0.
Proof.
  induction ks as [|k ks IH]; intros a x H; [destruct H|]. destruct H as [<-|H]; [reflexivity|exact (IH _ _ H)].
Qed.

Lemma scripted_attempts_ok script : Forall simple_bh script -> attempts_ok (scripted_attempts script).
Proof.
  intros Hs n q a Hin Hok. unfold scripted_attempts in Hin.
  assert (Hb : simple_bh (nth (N.to_nat n) script ([], BhOk))).
  { destruct (nth_in_or_default (N.to_nat n) script ([], BhOk)) as [H|H].
    - rewrite Forall_forall in Hs. apply Hs. exact H.
    - rewrite H. left. reflexivity. }
  destruct (nth (N.to_nat n) script ([], BhOk)) as [ks bh]. unfold simple_bh in Hb. cbn [snd] in Hb.
  assert (Hfinal : forall k, at_end (final_attempt bh n k q) = AOk -> long_enough q (do_request (final_attempt bh n k q))).
  { intros k. destruct Hb as [->|(e & ->)]; cbn [final_attempt]; [|discriminate].
    intros _. rewrite do_request_single. unfold long_enough. cbn. rewrite !map_length. auto. }
  destruct (partial_attempts n 0 ks q) as [|p ps] eqn:P; cbn [fst snd] in Hin.
  - destruct Hin as [->|[]]. apply Hfinal. exact Hok.
  - assert (Hp : forall x, In x (p :: ps) -> at_end x = ARetriable 0).
    { intros x Hx. rewrite <- P in Hx. exact (partial_attempts_retriable _ _ _ _ _ Hx). }
    destruct Hin as [->|Hin].
    + rewrite (Hp p (or_introl eq_refl)) in Hok. discriminate.
    + apply in_app_or in Hin. destruct Hin as [Hin|[<-|[]]].
      * rewrite (Hp a (or_intror Hin)) in Hok. discriminate.
      * apply Hfinal. exact Hok.
Qed.

Lemma scripted_exec_ok script : Forall simple_bh script -> exec_ok (scripted_exec script).
Proof. intros H. apply retry_exec_ok. apply scripted_attempts_ok. exact H. Qed.

Definition ex_cfg : config := mkConfig BWrite true 3 10.
Definition ex_evs : list event :=
  [Call (mkCall 1 KPut 4); Call (mkCall 2 KDelete 3); Call (mkCall 3 KPut 4); Call (mkCall 4 KDeleteRange 2);
   Tick; Call (mkCall 5 KPut 20); Call (mkCall 6 KDelete 1); Close; Call (mkCall 7 KPut 1)].

Example exactly_once_nonvacuous :
  exec_ok (scripted_exec [([], BhOk); ([], BhErr 9)]) /\ Forall (ev_kind_ok ex_cfg) ex_evs /\ close_ok false ex_evs /\
  snd (run (scripted_exec [([], BhOk); ([], BhErr 9)]) ex_cfg ex_evs) =
    [ Sent 0 (mkReq [mkCall 1 KPut 4] [mkCall 2 KDelete 3] [] []);
      Done (mkCall 1 KPut 4) (ROk 1); Done (mkCall 2 KDelete 3) (ROk 2);
      Sent 1 (mkReq [mkCall 3 KPut 4] [] [mkCall 4 KDeleteRange 2] []);
      Done (mkCall 3 KPut 4) (RErr 9); Done (mkCall 4 KDeleteRange 2) (RErr 9);
      Sent 2 (mkReq [mkCall 5 KPut 20] [] [] []);
      Done (mkCall 5 KPut 20) (ROk 2000005);
      Done (mkCall 6 KDelete 1) RShutdown; Done (mkCall 7 KPut 1) RShutdown ].
Proof.
  split; [apply scripted_exec_ok; constructor; [left; reflexivity|]; constructor; [right; eexists; reflexivity|constructor]|].
  split; [repeat constructor|]. split; [cbn; auto|]. vm_compute. reflexivity.
Qed.

(* a read batch of three gets whose stream delivers one answer, fails with a retriable status, delivers two
   answers on the second attempt, fails again, and succeeds on the third: every get receives its own answer of the
   third attempt (payload = request 0, attempt 2, own id); nothing of the earlier attempts is left *)
Example partial_stream_then_retry :
  attempts_ok (scripted_attempts [([1; 2], BhOk)]) /\
  snd (run (scripted_exec [([1; 2], BhOk)]) (mkConfig BRead false 10 0)
           [Call (mkCall 1 KGet 0)]) =
    [Sent 0 (mkReq [] [] [] [mkCall 1 KGet 0]); Done (mkCall 1 KGet 0) (ROk 200001)] /\
  snd (run (scripted_exec [([1; 2], BhOk)]) (mkConfig BRead true 3 0)
           [Call (mkCall 1 KGet 0); Call (mkCall 2 KGet 0); Call (mkCall 3 KGet 0)]) =
    [Sent 0 (mkReq [] [] [] [mkCall 1 KGet 0; mkCall 2 KGet 0; mkCall 3 KGet 0]);
     Done (mkCall 1 KGet 0) (ROk 200001); Done (mkCall 2 KGet 0) (ROk 200002); Done (mkCall 3 KGet 0) (ROk 200003)].
Proof.
  split; [apply scripted_attempts_ok; repeat constructor|]. split; vm_compute; reflexivity.
Qed.

(* an answer that is one entry short: the first put is answered, the second indexes past the end *)
Example short_answer_panics :
  snd (run (scripted_exec [([], BhShort KPut 1)]) (mkConfig BWrite false 10 100)
           [Call (mkCall 1 KPut 4)]) =
    [Sent 0 (mkReq [mkCall 1 KPut 4] [] [] []); Panicked].
Proof. vm_compute. reflexivity. Qed.
