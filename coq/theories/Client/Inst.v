(* The merge and the multi-shard get instantiated with the key order the Go code uses
   (compare.CompareWithSlash, modelled in Oxia.KeyOrder.Model). *)
From Coq Require Import List NArith ZArith Bool.
From Oxia.KeyOrder Require Import Model.
From Oxia.Client Require Import Model.
Import ListNotations.

(* ResultHeap.Less: CompareWithSlash(a.Key, b.Key) < 0 *)
Definition merge_slash : list (list item) -> list item := merge_k key_ltb.

Definition multi_get_slash := multi_get cmp_slash.
