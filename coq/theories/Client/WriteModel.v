(* The write path of the client below the batch: writeBatch.doRequestWithRetries (the retry loop) over
   executorImpl.ExecuteWrite / writeStream (get or create the shard's write stream) and streamWrapper.Send.

   One attempt of the loop is, as seen from the client:
     WConnFail c      writeStream() fails (no leader connection, WriteStream() refused) with status c: nothing is
                      handed to the transport;
     WSendFail c      stream.Send returns an error with status c (the stream is marked failed): Send() returns it;
     WAnswered r      stream.Send returns nil -- the request is on the wire -- and the response arrives;
     WStreamFailed c  stream.Send returns nil and then the stream breaks (Recv fails with status c, the stream context
                      is done): handleStreamClosed fails the pending future with io.EOF, whatever c is.
   isRetriable(err) looks at the gRPC code of the error; io.EOF is not a status (code Unknown).
   The retry loop of the write batch is the only place of the path that retries: executorImpl.ExecuteWrite hands the request to
   ONE stream (cached unless marked failed) and returns what Send returns -- it never sends a second time itself; an attempt
   below is therefore one call of ExecuteWrite, and [count_sent] counts the stream.Send calls of the whole path. *)
From Coq Require Import List NArith Bool.
Import ListNotations.
Local Open Scope N_scope.

(* codes.Unavailable, constant.CodeInvalidStatus, CodeAlreadyClosed, CodeNodeIsNotLeader *)
Definition retriable (c : N) : bool :=
  N.eqb c 14 || N.eqb c 102 || N.eqb c 104 || N.eqb c 106.

Inductive wattempt := WConnFail (c : N) | WSendFail (c : N) | WAnswered (r : N) | WStreamFailed (c : N).

Inductive wres := WOk (r : N) | WErrCode (c : N) | WErrEOF.

(* WSent: a stream.Send of this request returned nil *)
Inductive wobs := WSent | WDone (r : wres).

(* [eof_flattening = true] is the code as it is: in-flight failures reach the retry loop as io.EOF.
   [false]: they carry the stream's status (the shape of change the theorem below excludes). *)
Fixpoint write_path (eof_flattening : bool) (atts : list wattempt) : list wobs :=
  match atts with
  | [] => []                                   (* the request timeout ends the loop; the last error was reported *)
  | a :: rest =>
      match a with
      | WConnFail c | WSendFail c =>
          if retriable c then
            match rest with
            | [] => [WDone (WErrCode c)]       (* no further attempt within the request timeout *)
            | _ => write_path eof_flattening rest
            end
          else [WDone (WErrCode c)]
      | WAnswered r => [WSent; WDone (WOk r)]
      | WStreamFailed c =>
          if eof_flattening then [WSent; WDone WErrEOF]       (* status.Code(io.EOF) = Unknown: not retriable *)
          else if retriable c then
            match rest with
            | [] => [WSent; WDone (WErrCode c)]
            | _ => WSent :: write_path eof_flattening rest
            end
          else [WSent; WDone (WErrCode c)]
      end
  end.

Definition count_sent (o : list wobs) : nat :=
  length (filter (fun x => match x with WSent => true | _ => false end) o).
