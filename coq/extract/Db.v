From Coq Require Import Extraction ExtrOcamlBasic.
From Oxia.KeyOrder Require Import Model.
From Oxia.Db Require Import Types Bytes Escape Keys Kv Sessions Indexes Sequences Notifications Write Read IndexReads.
From Oxia.Db Require Import Snapshot.
From Oxia.Db Require Import Validate C13_Replay.
From Oxia.Db Require Import SeqWait.
From Oxia.Db Require Import NotifStream.
Extraction "db_model.ml"
  init_state process_write_full process_write wrapper_callbacks noop_callbacks
  update_term enable_notifications reopen persist
  db_get db_list db_range_scan read_next_notifications read_commit_offset read_term
  secondary_get secondary_list secondary_range_scan
  path_escape path_unescape hex16 pad20 scan20 scan_int64 ascii_of_Z cmp_slash
  session_key shadow_key index_key notification_key is_internal
  send_all load_all loader_new loader_dir
  validate_request leader_write leader_restart apply_log init_node
  step_new init_sys tstep alloc_counter init_tracker
  trim trim_state dispatch serve session client_new client_request client_request_o17 client_recv_all.
