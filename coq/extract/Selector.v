From Coq Require Import Extraction ExtrOcamlBasic NArith ZArith.
From Oxia.Selector Require Import Model.
(* Z.of_N only so that the type z exists for the shared ocaml/conv.ml.in *)
Extraction "selector_model.ml" ensemble_select single_case swap_shard swap_node swap_node_ctl round aa_okb nodupb Z.of_N.
