From Coq Require Import Extraction ExtrOcamlBasic.
From Oxia.Client Require Import Model Inst WriteModel ShutdownModel.
Extraction "client_model.ml" run_trace init_state scripted_exec stream_run merge_slash list_union list_run multi_get_slash write_path sd_run sd_init.
