From Coq Require Import Extraction ExtrOcamlBasic NArith.
From Oxia.Node Require Import Model.
(* ocaml/conv.ml.in refers to the extracted type of N; the Node model itself only uses Z and nat *)
Definition keep_n_type : N := 0%N.
Extraction "node_model.ml" step run init cfg_old cfg_fixed status_view truncate_follower_if_needed keep_n_type.
