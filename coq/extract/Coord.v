From Coq Require Import Extraction ExtrOcamlBasic.
From Oxia.Coord Require Import Model Driver Config ConfigDriver.
Extraction "coord_model.ml" select_new_leader candidates new_term_quorum drive node_run node_init fixed shipped cfg_drive cfixed.
