From Coq Require Import Extraction ExtrOcamlBasic.
From Oxia.Shard Require Import Model.
Extraction "shard_model.ml" generate_shards chainedb route client_update.
