From Coq Require Import Extraction ExtrOcamlBasic.
From Oxia.Shard Require Import Model Status Dispatcher.
Extraction "shard_model.ml" generate_shards chainedb route client_update
  apply_scripted delete_shard_metadata update_shard_metadata compute_assignments init_status
  dstep dinit.
