From Coq Require Import Extraction ExtrOcamlBasic NArith ZArith.
From Oxia.Crash Require Import Model Driver.
(* N.of_nat / Z.of_nat only bring the binary number types that ocaml/conv.ml.in refers to *)
Extraction "crash_model.ml" run_trace N.of_nat Z.of_nat.
