From Coq Require Import Extraction ExtrOcamlBasic.
From Oxia.Quorum Require Import Model HeadWait.
Extraction "quorum_model.ml" new_tracker step commit head hstep.
