From Coq Require Import Extraction ExtrOcamlBasic.
From Oxia.Wal Require Import Model Spec.
Extraction "wal_model.ml" init run run_old sinit s_run.
