From Coq Require Import Extraction ExtrOcamlBasic NArith ZArith.
From Oxia.Cluster Require Import Model CodeModel DiskLoss.
(* step_code = the protocol as the code runs it (one Truncate round per Attach); attach_consistent = the hypothesis of
   the proved theorem, evaluated on every Attach of every real trace.
   xstep = step_code + DiskLoss n (the node comes back with nothing); traces without a disk loss go through exactly
   step_code (DiskLoss.xrun_embeds).
   N.succ / Z.opp are extracted only because ocaml/conv.ml.in (shared) mentions the types positive, n and z. *)
Extraction "cluster_model.ml" init step step_code run_code attach_consistent consistent_run acked_survive_b exposes node0
  attach_decide lhead last_term xstep xrun N.succ Z.opp.
