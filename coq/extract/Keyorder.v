From Coq Require Import Extraction ExtrOcamlBasic ZArith.
From Oxia.KeyOrder Require Import Model Proofs SortedMap KvModel BatchModel.
Extraction "keyorder_model.ml"
  cmp_slash spec_cmp
  separator successor effective_sep effective_succ immediate_successor abbreviated_key split_configured
  bytewise_separator bytewise_successor effective_sep_with effective_succ_with
  key_sort
  sm_empty sm_get sm_put sm_delete sm_delete_range sm_floor sm_ceiling sm_lower sm_higher sm_range sm_sortedb
  kv_get_equal kv_get_floor kv_get_ceiling kv_get_lower kv_get_higher kv_range_scan kv_range_scan_reverse kv_find_lower
  batch_stream batch_stream_failed
  Z.of_N. (* Z.of_N only so that the shared conv.ml.in finds the extracted type z *)
