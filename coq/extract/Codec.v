From Coq Require Import Extraction ExtrOcamlBasic.
From Oxia.Codec Require Import Model Crc32c Instance.
Extraction "codec_model.ml" crc32c_update c_cv c_read_header c_read_record c_get_record_size c_write_record
  c_recover_index c_index_file c_read_index c_ro_open c_seg_read c_encode idx_bytes.
