// Package hx holds what every harness sub-command shares: the seeded PRNG, the
// output files (cases.txt / impl.txt / stats.json / specviol.txt) and small helpers.
package hx

import (
	"bufio"
	"encoding/hex"
	"encoding/json"
	"flag"
	"fmt"
	"io"
	"log/slog"
	"os"
	"path/filepath"
	"sort"
	"strings"
)

func init() { slog.SetDefault(slog.New(slog.NewTextHandler(io.Discard, nil))) }

// Rng is splitmix64: every random choice of a run derives from one state seeded by VERIF_SEED.
type Rng struct{ s uint64 }

// NewRng scrambles the seed first, so that adjacent seeds give unrelated streams.
func NewRng(seed uint64) *Rng {
	z := seed + 0x632BE59BD9B4E019
	z = (z ^ (z >> 30)) * 0xBF58476D1CE4E5B9
	z = (z ^ (z >> 27)) * 0x94D049BB133111EB
	return &Rng{s: z ^ (z >> 31)}
}
func (r *Rng) U64() uint64 {
	r.s += 0x9E3779B97F4A7C15
	z := r.s
	z = (z ^ (z >> 30)) * 0xBF58476D1CE4E5B9
	z = (z ^ (z >> 27)) * 0x94D049BB133111EB
	return z ^ (z >> 31)
}
func (r *Rng) Intn(n int) int {
	if n <= 0 {
		return 0
	}
	return int(r.U64() % uint64(n))
}
func (r *Rng) Bool() bool        { return r.U64()&1 == 1 }
func (r *Rng) Chance(p int) bool { return r.Intn(100) < p } // p percent
func (r *Rng) Fork() *Rng        { return NewRng(r.U64()) }
func Pick[T any](r *Rng, xs []T) T { return xs[r.Intn(len(xs))] }

// Out collects the files a harness run produces in -out DIR.
type Out struct {
	Dir      string
	cases    *bufio.Writer
	impl     *bufio.Writer
	viol     *bufio.Writer
	files    []*os.File
	NCases   int
	NViol    int
	Stats    map[string]int
	distinct map[string]struct{}
	Samples  []string
	Extra    map[string]any
}

type Flags struct {
	Seed   uint64
	N      int
	OutDir string
	Tier   string
	Replay string
	Corpus string
}

func ParseFlags() Flags {
	var f Flags
	flag.Uint64Var(&f.Seed, "seed", 1, "PRNG seed")
	flag.IntVar(&f.N, "n", 100, "number of generated cases (scale)")
	flag.StringVar(&f.OutDir, "out", "", "output directory")
	flag.StringVar(&f.Tier, "tier", "quick", "quick|thorough")
	flag.StringVar(&f.Replay, "replay", "", "file with case lines to run instead of generating")
	flag.StringVar(&f.Corpus, "corpus", "", "directory of corpus case files run before the generated ones")
	flag.Parse()
	if f.OutDir == "" {
		fmt.Fprintln(os.Stderr, "-out required")
		os.Exit(2)
	}
	return f
}

func NewOut(dir string) *Out {
	must(os.MkdirAll(dir, 0o755))
	o := &Out{Dir: dir, Stats: map[string]int{}, distinct: map[string]struct{}{}, Extra: map[string]any{}}
	open := func(n string) *bufio.Writer {
		f, err := os.Create(filepath.Join(dir, n))
		must(err)
		o.files = append(o.files, f)
		return bufio.NewWriterSize(f, 1<<20)
	}
	o.cases, o.impl, o.viol = open("cases.txt"), open("impl.txt"), open("specviol.txt")
	return o
}

// Case records one case: the line handed to the model (without id) and the implementation's canonical result.
// Returns the id. nontrivialKey != "" counts the case as non-trivial, distinct by that key.
func (o *Out) Case(kind string, input string, implResult string, nontrivialKey string) int {
	o.NCases++
	id := o.NCases
	fmt.Fprintf(o.cases, "%s %d %s\n", kind, id, input)
	fmt.Fprintf(o.impl, "%d %s\n", id, implResult)
	o.Stats["kind:"+kind]++
	if nontrivialKey != "" {
		o.distinct[kind+"|"+nontrivialKey] = struct{}{}
	}
	if len(o.Samples) < 5 || (id%997 == 0 && len(o.Samples) < 12) {
		s := fmt.Sprintf("%s %s => %s", kind, input, implResult)
		if len(s) > 400 {
			s = s[:400] + "..."
		}
		o.Samples = append(o.Samples, s)
	}
	return id
}

// Violation records a direct contradiction of the specification by the implementation (a concrete failing input).
func (o *Out) Violation(signature string, detail string) {
	o.NViol++
	fmt.Fprintf(o.viol, "%s\t%s\n", signature, detail)
}

func (o *Out) Count(k string)        { o.Stats[k]++ }
func (o *Out) CountN(k string, n int) { o.Stats[k] += n }

func (o *Out) Close() {
	for _, w := range []*bufio.Writer{o.cases, o.impl, o.viol} {
		must(w.Flush())
	}
	for _, f := range o.files {
		f.Close()
	}
	st := map[string]any{
		"cases":               o.NCases,
		"distinct_nontrivial": len(o.distinct),
		"spec_violations":     o.NViol,
		"distribution":        o.Stats,
		"samples":             o.Samples,
	}
	for k, v := range o.Extra {
		st[k] = v
	}
	b, _ := json.MarshalIndent(st, "", " ")
	must(os.WriteFile(filepath.Join(o.Dir, "stats.json"), b, 0o644))
}

func Hex(b []byte) string {
	if len(b) == 0 {
		return "-"
	}
	return hex.EncodeToString(b)
}
func UnHex(s string) []byte {
	if s == "-" {
		return nil
	}
	b, err := hex.DecodeString(s)
	must(err)
	return b
}

func SortedJoin(xs []string, sep string) string {
	ys := append([]string(nil), xs...)
	sort.Strings(ys)
	if len(ys) == 0 {
		return "-"
	}
	return strings.Join(ys, sep)
}

// ReadLines returns the non-empty lines of a file.
func ReadLines(path string) []string {
	b, err := os.ReadFile(path)
	must(err)
	var res []string
	for _, l := range strings.Split(string(b), "\n") {
		if strings.TrimSpace(l) != "" {
			res = append(res, l)
		}
	}
	return res
}

// CorpusLines returns the case lines of every *.case file in dir (sorted), or nil.
func CorpusLines(dir string) []string {
	if dir == "" {
		return nil
	}
	ms, _ := filepath.Glob(filepath.Join(dir, "*.case"))
	sort.Strings(ms)
	var res []string
	for _, m := range ms {
		res = append(res, ReadLines(m)...)
	}
	return res
}

func must(err error) {
	if err != nil {
		panic(err)
	}
}
func Must(err error) { must(err) }
