// Package kvsafe wraps the real Pebble KV factory so that closing a KV waits for the iterators and snapshots
// that were handed out by it.
//
// Why: leaderController.list / rangeScan run in a goroutine of their own which signals completion to the caller
// (cb.OnComplete) BEFORE its deferred it.Close() runs, and the session manager lists a session's keys through that
// path. A Close() of the controller right after such a call (step-down, harness tear-down) closes Pebble while the
// iterator is still open; the iterator's Close then dereferences freed cache state and the whole process dies.
// For oxia that is a process crash (inside the fault model of every property); for a harness it would be the death
// of the harness itself, i.e. a false alarm. The wrapper removes the race deterministically: KV.Close / KV.Delete
// wait (bounded) until every iterator and snapshot obtained from that KV has been closed.
// Nothing else is changed: every call is delegated to the real Pebble-backed KV.
package kvsafe

import (
	"sync"
	"time"

	"github.com/oxia-db/oxia/server/kv"
)

const closeWait = 5 * time.Second

// New is kv.NewPebbleKVFactory with the wrapper applied.
func New(opts *kv.FactoryOptions) (kv.Factory, error) {
	f, err := kv.NewPebbleKVFactory(opts)
	if err != nil {
		return nil, err
	}
	return Wrap(f), nil
}

func Wrap(f kv.Factory) kv.Factory { return &factory{Factory: f} }

type factory struct{ kv.Factory }

func (f *factory) NewKV(namespace string, shardId int64) (kv.KV, error) {
	k, err := f.Factory.NewKV(namespace, shardId)
	if err != nil {
		return nil, err
	}
	s := &safeKV{KV: k}
	s.cond = sync.NewCond(&s.mu)
	return s, nil
}

type safeKV struct {
	kv.KV
	mu   sync.Mutex
	cond *sync.Cond
	open int
}

func (s *safeKV) acquire() {
	s.mu.Lock()
	s.open++
	s.mu.Unlock()
}

func (s *safeKV) release() {
	s.mu.Lock()
	s.open--
	s.mu.Unlock()
	s.cond.Broadcast()
}

// drain waits until no iterator / snapshot is open, at most closeWait.
func (s *safeKV) drain() {
	deadline := time.Now().Add(closeWait)
	timer := time.AfterFunc(closeWait, s.cond.Broadcast)
	defer timer.Stop()
	s.mu.Lock()
	for s.open > 0 && time.Now().Before(deadline) {
		s.cond.Wait()
	}
	s.mu.Unlock()
}

func (s *safeKV) Close() error {
	s.drain()
	return s.KV.Close()
}

func (s *safeKV) Delete() error {
	s.drain()
	return s.KV.Delete()
}

type onceRelease struct {
	s    *safeKV
	once sync.Once
}

func (o *onceRelease) done() { o.once.Do(o.s.release) }

type keyIt struct {
	kv.KeyIterator
	r onceRelease
}

func (i *keyIt) Close() error { err := i.KeyIterator.Close(); i.r.done(); return err }

type revIt struct {
	kv.ReverseKeyIterator
	r onceRelease
}

func (i *revIt) Close() error { err := i.ReverseKeyIterator.Close(); i.r.done(); return err }

type kvIt struct {
	kv.KeyValueIterator
	r onceRelease
}

func (i *kvIt) Close() error { err := i.KeyValueIterator.Close(); i.r.done(); return err }

type snap struct {
	kv.Snapshot
	r onceRelease
}

func (i *snap) Close() error { err := i.Snapshot.Close(); i.r.done(); return err }

func (s *safeKV) KeyRangeScan(lowerBound, upperBound string) (kv.KeyIterator, error) {
	it, err := s.KV.KeyRangeScan(lowerBound, upperBound)
	if err != nil {
		return nil, err
	}
	s.acquire()
	return s.wrapKeyIt(it), nil
}

// Pebble's iterator implements both KeyIterator and KeyValueIterator and callers rely on that: keep it so.
func (s *safeKV) wrapKeyIt(it kv.KeyIterator) kv.KeyIterator {
	if kvi, ok := it.(kv.KeyValueIterator); ok {
		return &kvIt{KeyValueIterator: kvi, r: onceRelease{s: s}}
	}
	return &keyIt{KeyIterator: it, r: onceRelease{s: s}}
}

func (s *safeKV) KeyRangeScanReverse(lowerBound, upperBound string) (kv.ReverseKeyIterator, error) {
	it, err := s.KV.KeyRangeScanReverse(lowerBound, upperBound)
	if err != nil {
		return nil, err
	}
	s.acquire()
	return &revIt{ReverseKeyIterator: it, r: onceRelease{s: s}}, nil
}

func (s *safeKV) KeyIterator() (kv.KeyIterator, error) {
	it, err := s.KV.KeyIterator()
	if err != nil {
		return nil, err
	}
	s.acquire()
	return s.wrapKeyIt(it), nil
}

func (s *safeKV) RangeScan(lowerBound, upperBound string) (kv.KeyValueIterator, error) {
	it, err := s.KV.RangeScan(lowerBound, upperBound)
	if err != nil {
		return nil, err
	}
	s.acquire()
	return &kvIt{KeyValueIterator: it, r: onceRelease{s: s}}, nil
}

func (s *safeKV) Snapshot() (kv.Snapshot, error) {
	sn, err := s.KV.Snapshot()
	if err != nil {
		return nil, err
	}
	s.acquire()
	return &snap{Snapshot: sn, r: onceRelease{s: s}}, nil
}
