// harness selector, election leg (kind "elect"): balancer swaps applied by the REAL shardController
// (controllers.NewShardController, public API only) whose swap elections can FAIL.
//
// Real status resource over a memory metadata provider, the harness's mutable ClusterConfigResource, one real shard
// controller per shard, the real nodeBasedBalancer (verif export, one round per step), a scripted rpc.Provider: every
// RPC succeeds at once except NewTerm on the servers that are "down".  Steps of a scenario:
//
//	1  a member of a shard with a strict rule leaves the cluster; the balancer proposes its replacement; for the first
//	   swap the target and enough members are down: the election of the swap misses its quorum, SwapNode fails
//	2  (half of the scenarios) probe: an address change in the configuration makes every controller run an election,
//	   which stores the controller's in-memory metadata
//	3  another member of the same shard leaves the cluster; balancer round(s), all elections succeed
//	4  probe
//
// After every SwapNode and every probe the STORED status is judged: RF distinct members, new members eligible, strict
// anti-affinity not lost (status:*), the stored ensemble after a SwapNode is the stored ensemble before with exactly
// `from` replaced by `to` (or unchanged when refused), and an election alone never changes the stored members —
// otherwise the controller was working on another ensemble than the one in the status
// (swap:controller-and-status-ensembles-differ).  Every SwapNode is also a "swapctl" case for the model.
package main

import (
	"context"
	"errors"
	"fmt"
	"io"
	"os"
	"sort"
	"strconv"
	"strings"
	"sync"
	"sync/atomic"
	"time"

	"github.com/emirpasic/gods/v2/sets/linkedhashset"
	"google.golang.org/grpc/health/grpc_health_v1"

	"github.com/oxia-db/oxia/coordinator/balancer"
	"github.com/oxia-db/oxia/coordinator/controllers"
	"github.com/oxia-db/oxia/coordinator/metadata"
	"github.com/oxia-db/oxia/coordinator/model"
	"github.com/oxia-db/oxia/coordinator/resources"
	"github.com/oxia-db/oxia/coordinator/selectors/single"
	"github.com/oxia-db/oxia/proto"

	"verif/harness/internal/hx"
)

type downRPC struct {
	stubRPC
	mu   sync.Mutex
	down map[string]bool
}

func (r *downRPC) set(ids []int) {
	r.mu.Lock()
	r.down = map[string]bool{}
	for _, x := range ids {
		r.down[itoa(x)] = true
	}
	r.mu.Unlock()
}

func (r *downRPC) NewTerm(ctx context.Context, node model.Server, req *proto.NewTermRequest) (*proto.NewTermResponse, error) {
	r.mu.Lock()
	d := r.down[node.GetIdentifier()]
	r.mu.Unlock()
	if d {
		return nil, errors.New("verif: server unreachable")
	}
	return r.stubRPC.NewTerm(ctx, node, req)
}

func (r *downRPC) GetHealthClient(model.Server) (grpc_health_v1.HealthClient, io.Closer, error) {
	return stubHealth{}, nopCloser{}, nil
}

// ClusterConfigResource that the scenario mutates while controllers read it
type lockedCfg struct {
	mu     sync.RWMutex
	c      *cfgRes
	budget atomic.Int64 // NamespaceConfig calls left in this balancer round
}

func (l *lockedCfg) Close() error { return nil }
func (l *lockedCfg) Load() *model.ClusterConfig {
	l.mu.RLock()
	defer l.mu.RUnlock()
	return l.c.Load()
}
func (l *lockedCfg) Nodes() *linkedhashset.Set[string] {
	l.mu.RLock()
	defer l.mu.RUnlock()
	return l.c.Nodes()
}
func (l *lockedCfg) NodesWithMetadata() (*linkedhashset.Set[string], map[string]model.ServerMetadata) {
	l.mu.RLock()
	defer l.mu.RUnlock()
	return l.c.NodesWithMetadata()
}
func (l *lockedCfg) NamespaceConfig(ns string) (*model.NamespaceConfig, bool) {
	// balanceHighestNode retries a failing swapShard without advancing: the harness breaks that loop (see cfgRes)
	if l.budget.Add(-1) < 0 {
		panic(livelock{})
	}
	l.mu.RLock()
	defer l.mu.RUnlock()
	n, ok := l.c.ns[ns]
	return n, ok
}
func (l *lockedCfg) Node(id string) (*model.Server, bool) {
	l.mu.RLock()
	defer l.mu.RUnlock()
	s, ok := l.c.servers[id]
	if !ok {
		return nil, false
	}
	cp := *s
	return &cp, true
}

type electCase struct {
	rc        *roundCase // initial cluster and placement (no removed servers yet)
	target    int        // shard whose members leave
	probeMid  bool
	failFirst bool // false: control scenario, every election succeeds
}

func (e *electCase) String() string {
	return fmt.Sprintf("%s %s %d %s %d %v %v", joinInts(e.rc.nodes, ","), fmtMd(e.rc.md), e.rc.idx, fmtShards(e.rc.shards), e.target, e.probeMid, e.failFirst)
}

type electResult struct {
	cases  []swapCase
	viol   [][2]string
	counts []string
}

const electWait = 20 * time.Second

func runElect(ec *electCase) *electResult {
	res := &electResult{}
	rc := ec.rc
	where := "elect " + ec.String()
	bad := func(sig, what string) { res.viol = append(res.viol, [2]string{sig, what + ": " + where}) }
	e := &env{nodes: rc.nodes, md: rc.md}
	cfg := newCfg(append([]int(nil), rc.nodes...), e.metadata())
	lcfg := &lockedCfg{c: cfg}
	meta := metadata.NewMetadataProviderMemory()
	sr := resources.NewStatusResource(meta)
	st := model.NewClusterStatus()
	st.ServerIdx = uint32(rc.idx)
	byID := map[int]*shardT{}
	nsOf := map[int]string{}
	for i := range rc.shards {
		s := &rc.shards[i]
		byID[s.id] = s
		ns := "ns-" + fmtRules(s.rules)
		nsOf[s.id] = ns
		if _, ok := cfg.ns[ns]; !ok {
			cfg.ns[ns] = &model.NamespaceConfig{Name: ns, ReplicationFactor: uint32(len(s.ens)), Policies: mkPolicies(s.rules, len(cfg.ns)%2 == 0)}
			st.Namespaces[ns] = model.NamespaceStatus{ReplicationFactor: uint32(len(s.ens)), Shards: map[int64]model.ShardMetadata{}}
		}
		st.Namespaces[ns].Shards[int64(s.id)] = model.ShardMetadata{Status: model.ShardStatusUnknown, Term: 1, Ensemble: srvs(s.ens)}
	}
	sr.Update(st)
	rpc := &downRPC{down: map[string]bool{}}
	ctls := map[int]controllers.ShardController{}
	for _, s := range rc.shards {
		ctls[s.id] = controllers.NewShardController(nsOf[s.id], int64(s.id), cfg.ns[nsOf[s.id]], st.Namespaces[nsOf[s.id]].Shards[int64(s.id)], lcfg, sr, nil, rpc)
	}
	defer func() {
		for _, c := range ctls {
			_ = c.Close()
		}
	}()
	stored := func(id int) ([]int, []int) {
		m := sr.Load().Namespaces[nsOf[id]].Shards[int64(id)]
		return idsOf(m.Ensemble), idsOf(m.RemovedNodes)
	}
	waitSteady := func(minTerm map[int]int64) bool {
		deadline := time.Now().Add(electWait)
		for {
			ok := true
			for id, t := range minTerm {
				if ctls[id].Status() != model.ShardStatusSteadyState || ctls[id].Term() < t {
					ok = false
				}
			}
			if ok {
				return true
			}
			if time.Now().After(deadline) {
				res.counts = append(res.counts, "elect:wait-timeout")
				if os.Getenv("VERIF_C19_DEBUG") != "" {
					for id, t := range minTerm {
						ens, rm := stored(id)
						fmt.Fprintf(os.Stderr, "steady-timeout shard %d status %v term %d want %d stored %v rm %v nodes %v: %s\n", id, ctls[id].Status(), ctls[id].Term(), t, ens, rm, cfg.nodes, where)
					}
				}
				return false
			}
			time.Sleep(time.Millisecond)
		}
	}
	all := map[int]int64{}
	for id := range ctls {
		all[id] = 0
	}
	if !waitSteady(all) {
		return res
	}
	everServers := append([]int(nil), rc.nodes...)
	judge := func(id int, before []int, what string) {
		s := byID[id]
		now, _ := stored(id)
		desc := fmt.Sprintf("shard %d stored %v -> %v after %s", id, before, now, what)
		if len(now) != len(s.ens) || hasDup(now) {
			bad("status:ensemble-not-rf-distinct", desc)
		}
		for _, x := range now {
			if !contains(before, x) && !contains(everServers, x) {
				bad("status:ensemble-has-ineligible-server", desc)
			}
		}
		if strictOK(rc.md, s.rules, before) && !strictOK(rc.md, s.rules, now) {
			bad("status:ensemble-violates-strict-anti-affinity", fmt.Sprintf("%s, rules %s", desc, fmtRules(s.rules)))
		}
	}
	sameSet := func(a, b []int) bool {
		if len(a) != len(b) {
			return false
		}
		x, y := append([]int(nil), a...), append([]int(nil), b...)
		sort.Ints(x)
		sort.Ints(y)
		for i := range x {
			if x[i] != y[i] {
				return false
			}
		}
		return true
	}
	// probe: an address change makes every controller elect, which stores its in-memory metadata
	gen := 0
	probe := func() bool {
		gen++
		before := map[int][]int{}
		minTerm := map[int]int64{}
		for id, c := range ctls {
			before[id], _ = stored(id)
			minTerm[id] = c.Term() + 1
		}
		lcfg.mu.Lock()
		for id, sv := range cfg.servers {
			sv.Public = "pub-" + id + "." + itoa(gen)
		}
		lcfg.mu.Unlock()
		for id, c := range ctls {
			// only controllers with a member that is still in the configuration notice the change
			n := 0
			for _, x := range before[id] {
				if _, ok := cfg.servers[itoa(x)]; ok {
					n++
				}
			}
			if n == 0 {
				delete(minTerm, id)
				continue
			}
			c.SyncServerAddress()
		}
		if !waitSteady(minTerm) {
			return false
		}
		res.counts = append(res.counts, "elect:probe")
		for id := range minTerm {
			now, _ := stored(id)
			if !sameSet(before[id], now) {
				bad("swap:controller-and-status-ensembles-differ",
					fmt.Sprintf("shard %d: the status said %v, an election of the controller (no swap) stored %v", id, before[id], now))
			}
			judge(id, before[id], "an election (address change)")
		}
		return true
	}
	// one balancer round, actions applied one at a time by the real shard controllers
	round := func(failFirst bool) bool {
		lcfg.budget.Store(4000)
		b := balancer.NewVerifBalancer(sr, lcfg, single.DefaultShardsRank, 1000)
		finished := make(chan struct{})
		go func() {
			defer close(finished)
			defer func() { _ = recover() }()
			b.Rebalance()
		}()
		apply := func(a *balancer.SwapNodeAction) {
			id := int(a.Shard)
			c := ctls[id]
			from, to := idOf(a.From), idOf(a.To)
			before, rmBefore := stored(id)
			fail := failFirst
			failFirst = false
			if fail {
				// the fencing quorum is new ensemble + removed nodes; keep the successes below the majority
				quorum := append([]int{to}, before...)
				if !contains(quorum, from) {
					quorum = append(quorum, from)
				}
				for _, x := range rmBefore {
					if !contains(quorum, x) {
						quorum = append(quorum, x)
					}
				}
				need := len(quorum) - (len(quorum)/2 + 1) + 1
				rpc.set(quorum[:need])
			}
			err := c.SwapNode(a.From, a.To)
			rpc.set(nil)
			now, _ := stored(id)
			verdict, eok := "done", "1"
			switch {
			case err != nil && strings.HasPrefix(err.Error(), "swap-node:"):
				verdict = "refused"
			case err != nil:
				verdict, eok = "failed", "0"
			}
			if fail && verdict == "done" {
				res.counts = append(res.counts, "elect:failure-script-did-not-fail")
			}
			res.counts = append(res.counts, "elect:swap-"+verdict)
			res.cases = append(res.cases, swapCase{
				input: fmt.Sprintf("%s %s %d %d %s", joinInts(before, ","), joinInts(rmBefore, ","), from, to, eok),
				impl:  verdict + ":" + joinInts(now, "."),
			})
			want := before
			if verdict != "refused" {
				want = nil
				for _, x := range before {
					if x != from {
						want = append(want, x)
					}
				}
				want = append(want, to)
			}
			if !sameSet(want, now) {
				bad("swap:controller-and-status-ensembles-differ",
					fmt.Sprintf("shard %d: SwapNode %d->%d (%s) planned from the stored %v, the controller stored %v (expected members %v)", id, from, to, verdict, before, now, want))
			}
			judge(id, before, fmt.Sprintf("SwapNode %d->%d (%s)", from, to, verdict))
		}
		for {
			select {
			case a := <-b.Actions():
				apply(a.(*balancer.SwapNodeAction))
				a.Done()
			case <-finished:
				for {
					select {
					case a := <-b.Actions():
						apply(a.(*balancer.SwapNodeAction))
						a.Done()
					default:
						return true
					}
				}
			case <-time.After(electWait):
				res.counts = append(res.counts, "elect:wait-timeout:round")
				return false
			}
		}
	}
	leave := func() bool { // a member of the target shard that is still in the cluster leaves it
		ens, _ := stored(ec.target)
		for _, x := range ens {
			if contains(cfg.nodes, x) && len(cfg.nodes) > 1 {
				var rest []int
				for _, y := range cfg.nodes {
					if y != x {
						rest = append(rest, y)
					}
				}
				lcfg.mu.Lock()
				cfg.nodes = rest
				delete(cfg.servers, itoa(x))
				lcfg.mu.Unlock()
				return true
			}
		}
		return false
	}
	if !leave() || !round(ec.failFirst) {
		return res
	}
	if ec.probeMid && !probe() {
		return res
	}
	if !leave() || !round(false) || !round(false) {
		return res
	}
	probe()
	res.counts = append(res.counts, "elect:scenarios-completed")
	return res
}

func runElects(o *hx.Out, ecs []*electCase) {
	results := make([]*electResult, len(ecs))
	var wg sync.WaitGroup
	sem := make(chan struct{}, 12)
	for i := range ecs {
		wg.Add(1)
		sem <- struct{}{}
		go func(i int) {
			defer wg.Done()
			defer func() { <-sem }()
			results[i] = runElect(ecs[i])
		}(i)
	}
	wg.Wait()
	for _, r := range results {
		for _, c := range r.cases {
			o.Case("swapctl", c.input, c.impl, c.input)
		}
		for _, v := range r.viol {
			o.Violation(v[0], v[1])
		}
		for _, c := range r.counts {
			o.Count(c)
		}
		o.Count("elect:scenarios")
	}
}

// 5-7 servers in zones (the spare servers often share a zone with a member), 1-3 shards under a strict zone rule placed
// on servers of distinct zones, rf-1 shards that make the load uneven
func mkElectCase(r *hx.Rng) *electCase {
	n := 5 + r.Intn(3)
	rc := &roundCase{md: map[int]map[int]int{}, idx: int64(r.Intn(8))}
	nz := 3 + r.Intn(3)
	for i := 1; i <= n; i++ {
		rc.nodes = append(rc.nodes, i)
		rc.md[i] = map[int]int{10: 1 + (i-1)%nz}
	}
	strict := []rule{{mode: "S", labels: []int{10}}}
	id := 0
	for k := 1 + r.Intn(3); k > 0; k-- {
		var ens []int
		used := map[int]bool{}
		for _, x := range shuffle(r, rc.nodes) {
			if len(ens) < 3 && !used[rc.md[x][10]] {
				ens = append(ens, x)
				used[rc.md[x][10]] = true
			}
		}
		rc.shards = append(rc.shards, shardT{id: id, rules: strict, ens: ens})
		id++
	}
	for k := r.Intn(5); k > 0; k-- {
		rc.shards = append(rc.shards, shardT{id: id, ens: []int{hx.Pick(r, rc.nodes)}})
		id++
	}
	return &electCase{rc: rc, target: 0, probeMid: r.Chance(50), failFirst: !r.Chance(15)}
}

func genElectLeg(r *hx.Rng, o *hx.Out, n int) {
	var ecs []*electCase
	for i := 0; i < n; i++ {
		ecs = append(ecs, mkElectCase(r))
	}
	runElects(o, ecs)
}

func replayElect(o *hx.Out, a []string) { // nodes md idx shards target probeMid failFirst
	idx, _ := strconv.ParseInt(a[2], 10, 64)
	target, _ := strconv.Atoi(a[4])
	rc := &roundCase{nodes: parseInts(a[0], ","), md: parseMd(a[1]), idx: idx, shards: parseShards(a[3])}
	var ecs []*electCase
	for i := 0; i < 4; i++ { // map order decides ties of the load ranking: a few runs, with and without the probe
		ecs = append(ecs, &electCase{rc: rc, target: target, probeMid: i%2 == 1, failFirst: a[6] == "true"})
	}
	runElects(o, ecs)
}
