// harness selector (C19): drives the REAL ensemble selector, single-server selector chain,
// the balancer's swapShard / rebalanceEnsemble and the shard controller's swapNode list handling
// (the last three through the verif exports) on generated clusters, writes the case lines for the
// Coq model (Oxia.Selector.Model) and the canonical observables, and evaluates the specification
// predicates (distinct, eligible, strict anti-affinity, swap target not a member, rounds keep
// ensembles duplicate-free) directly on the implementation's outputs.
//
// Go map iteration order reaches the selectors' results, so every selector case is run several
// times and the observable is the SET of distinct results; the model returns the set of admissible
// results and lib/props/C19.py checks inclusion.
package main

import (
	"errors"
	"fmt"
	"sort"
	"strconv"
	"strings"
	"sync"

	"github.com/emirpasic/gods/v2/lists/arraylist"
	"github.com/emirpasic/gods/v2/sets/linkedhashset"

	"github.com/oxia-db/oxia/coordinator/balancer"
	"github.com/oxia-db/oxia/coordinator/controllers"
	"github.com/oxia-db/oxia/coordinator/metadata"
	"github.com/oxia-db/oxia/coordinator/model"
	"github.com/oxia-db/oxia/coordinator/policies"
	"github.com/oxia-db/oxia/coordinator/selectors"
	"github.com/oxia-db/oxia/coordinator/selectors/ensemble"
	"github.com/oxia-db/oxia/coordinator/selectors/single"

	"verif/harness/internal/hx"
)

// ---------------------------------------------------------------- case data + text encoding

type rule struct {
	mode   string // "S" Strict, "R" Relaxed, "X" anything else
	labels []int
}

type env struct {
	nodes   []int               // candidates, insertion order
	md      map[int]map[int]int // server -> label -> value (server may be absent, label map may be empty)
	rules   []rule
	rankNil bool  // LoadRatioSupplier nil / returns nil
	rank    []int // node ids in NodeIterator order
	idx     int64 // Status.ServerIdx, -1 = Status nil
}

func itoa(i int) string { return strconv.Itoa(i) }

func joinInts(l []int, sep string) string {
	if len(l) == 0 {
		return "-"
	}
	s := make([]string, len(l))
	for i, x := range l {
		s[i] = itoa(x)
	}
	return strings.Join(s, sep)
}

func parseInts(s, sep string) []int {
	if s == "-" || s == "" {
		return nil
	}
	var res []int
	for _, p := range strings.Split(s, sep) {
		x, err := strconv.Atoi(p)
		hx.Must(err)
		res = append(res, x)
	}
	return res
}

func sortedKeys[V any](m map[int]V) []int {
	ks := make([]int, 0, len(m))
	for k := range m {
		ks = append(ks, k)
	}
	sort.Ints(ks)
	return ks
}

func fmtMd(md map[int]map[int]int) string {
	if len(md) == 0 {
		return "-"
	}
	var parts []string
	for _, s := range sortedKeys(md) {
		var ls []string
		for _, l := range sortedKeys(md[s]) {
			ls = append(ls, itoa(l)+"="+itoa(md[s][l]))
		}
		parts = append(parts, itoa(s)+":"+strings.Join(ls, "."))
	}
	return strings.Join(parts, ";")
}

func parseMd(s string) map[int]map[int]int {
	md := map[int]map[int]int{}
	if s == "-" {
		return md
	}
	for _, e := range strings.Split(s, ";") {
		f := strings.SplitN(e, ":", 2)
		sv, err := strconv.Atoi(f[0])
		hx.Must(err)
		md[sv] = map[int]int{}
		if f[1] != "" {
			for _, kv := range strings.Split(f[1], ".") {
				g := strings.Split(kv, "=")
				k, _ := strconv.Atoi(g[0])
				v, _ := strconv.Atoi(g[1])
				md[sv][k] = v
			}
		}
	}
	return md
}

func fmtRules(rs []rule) string {
	if len(rs) == 0 {
		return "-"
	}
	var parts []string
	for _, r := range rs {
		ls := ""
		if len(r.labels) > 0 {
			ls = joinInts(r.labels, ".")
		}
		parts = append(parts, r.mode+":"+ls)
	}
	return strings.Join(parts, ";")
}

func parseRules(s string) []rule {
	if s == "-" {
		return nil
	}
	var rs []rule
	for _, e := range strings.Split(s, ";") {
		f := strings.SplitN(e, ":", 2)
		rs = append(rs, rule{mode: f[0], labels: parseInts(f[1], ".")})
	}
	return rs
}

func (e *env) rankStr() string {
	if e.rankNil {
		return "nil"
	}
	return joinInts(e.rank, ",")
}

func (e *env) idxStr() string {
	if e.idx < 0 {
		return "nil"
	}
	return strconv.FormatInt(e.idx, 10)
}

func (e *env) line() string {
	return fmt.Sprintf("%s %s %s %s %s", joinInts(e.nodes, ","), fmtMd(e.md), fmtRules(e.rules), e.rankStr(), e.idxStr())
}

func parseEnv(t []string) *env { // nodes md rules rank idx
	e := &env{nodes: parseInts(t[0], ","), md: parseMd(t[1]), rules: parseRules(t[2])}
	if t[3] == "nil" {
		e.rankNil = true
	} else {
		e.rank = parseInts(t[3], ",")
	}
	if t[4] == "nil" {
		e.idx = -1
	} else {
		e.idx, _ = strconv.ParseInt(t[4], 10, 64)
	}
	return e
}

// ---------------------------------------------------------------- building the real inputs

func srv(id int) model.Server {
	s := model.Server{Public: "pub-" + itoa(id), Internal: itoa(id)}
	if id%2 == 0 { // both identifier styles of model.Server.GetIdentifier
		n := itoa(id)
		s.Name = &n
		s.Internal = "int-" + n
	}
	return s
}

func srvs(ids []int) []model.Server {
	res := make([]model.Server, len(ids))
	for i, x := range ids {
		res[i] = srv(x)
	}
	return res
}

// idOf: the numeric id; 0 for the zero model.Server (the balancer emits it as From when the node it unloads
// held no shard in the status snapshot: RatioParams.HistoryNodes has no entry for it).
func idOf(s model.Server) int {
	if s.GetIdentifier() == "" {
		return 0
	}
	x, err := strconv.Atoi(s.GetIdentifier())
	hx.Must(err)
	return x
}

func idsOf(l []model.Server) []int {
	res := make([]int, len(l))
	for i := range l {
		res[i] = idOf(l[i])
	}
	return res
}

func (e *env) candidates() *linkedhashset.Set[string] {
	set := linkedhashset.New[string]()
	for _, n := range e.nodes {
		set.Add(itoa(n))
	}
	return set
}

func (e *env) metadata() map[string]model.ServerMetadata {
	res := map[string]model.ServerMetadata{}
	for s, ls := range e.md {
		m := map[string]string{}
		for k, v := range ls {
			m[itoa(k)] = itoa(v)
		}
		res[itoa(s)] = model.ServerMetadata{Labels: m}
	}
	return res
}

func modeOf(m string) policies.AntiAffinityMode {
	switch m {
	case "S":
		return policies.Strict
	case "R":
		return policies.Relaxed
	}
	return policies.AntiAffinityMode("Preferred")
}

func mkPolicies(rs []rule, nilIfEmpty bool) *policies.Policies {
	if len(rs) == 0 && nilIfEmpty {
		return nil
	}
	p := &policies.Policies{}
	for _, r := range rs {
		ls := make([]string, len(r.labels))
		for i, l := range r.labels {
			ls[i] = itoa(l)
		}
		p.AntiAffinities = append(p.AntiAffinities, policies.AntiAffinity{Labels: ls, Mode: modeOf(r.mode)})
	}
	return p
}

func (e *env) status() *model.ClusterStatus {
	if e.idx < 0 {
		return nil
	}
	st := model.NewClusterStatus()
	st.ServerIdx = uint32(e.idx)
	return st
}

func mkRatio(rank []int) *model.Ratio {
	l := arraylist.New[*model.NodeLoadRatio]()
	for i, n := range rank {
		l.Add(&model.NodeLoadRatio{NodeID: itoa(n), Node: srv(n), Ratio: float64(i), ShardRatios: arraylist.New[*model.ShardLoadRatio]()})
	}
	return model.NewRatio(0, 0, 0, l)
}

// variant selects between equivalent encodings of "nothing" (nil policies vs empty list, nil supplier vs
// supplier returning nil) so that both are exercised; the model input is the same.
func (e *env) supplier(variant int) func() *model.Ratio {
	if e.rankNil {
		if variant%2 == 0 {
			return nil
		}
		return func() *model.Ratio { return nil }
	}
	return func() *model.Ratio { return mkRatio(e.rank) }
}

func errKind(err error) string {
	switch {
	case errors.Is(err, selectors.ErrUnsatisfiedEnsembleReplicas):
		return "err:replicas"
	case errors.Is(err, selectors.ErrUnsatisfiedAntiAffinity):
		return "err:antiaffinity"
	case errors.Is(err, selectors.ErrUnsupportedAntiAffinityMode):
		return "err:mode"
	case errors.Is(err, selectors.ErrNoFunctioning):
		return "err:nofunctioning"
	case errors.Is(err, selectors.ErrMultipleResult):
		return "err:multiple"
	case err.Error() == "target node does not exist":
		return "err:targetmissing"
	}
	return "err:other(" + strings.ReplaceAll(err.Error(), " ", "_") + ")"
}

// ---------------------------------------------------------------- specification predicates (on implementation output)

func hasDup(l []int) bool {
	seen := map[int]bool{}
	for _, x := range l {
		if seen[x] {
			return true
		}
		seen[x] = true
	}
	return false
}

func contains(l []int, x int) bool {
	for _, y := range l {
		if x == y {
			return true
		}
	}
	return false
}

// strictOK: for every Strict rule and every label of it, no two distinct members share a value.
func strictOK(md map[int]map[int]int, rs []rule, ens []int) bool {
	for _, r := range rs {
		if r.mode != "S" {
			continue
		}
		for _, l := range r.labels {
			for i, x := range ens {
				for _, y := range ens[i+1:] {
					if x == y {
						continue
					}
					vx, okx := md[x][l]
					vy, oky := md[y][l]
					if okx && oky && vx == vy {
						return false
					}
				}
			}
		}
	}
	return true
}

func setStr(m map[string]bool) string {
	var l []string
	for k := range m {
		l = append(l, k)
	}
	sort.Strings(l)
	return strings.Join(l, "|")
}

// ---------------------------------------------------------------- legs

const reps = 6

func runEns(o *hx.Out, e *env, rf int) {
	results := map[string]bool{}
	input := fmt.Sprintf("%s %d", e.line(), rf)
	for k := 0; k < reps; k++ {
		ctx := &ensemble.Context{
			Candidates:         e.candidates(),
			CandidatesMetadata: e.metadata(),
			Policies:           mkPolicies(e.rules, k%2 == 0),
			Status:             e.status(),
			Replicas:           rf,
			LoadRatioSupplier:  e.supplier(k),
		}
		var esm []string
		var err error
		panicked := false
		func() {
			defer func() {
				if r := recover(); r != nil {
					panicked = true
				}
			}()
			esm, err = ensemble.NewSelector().Select(ctx)
		}()
		switch {
		case panicked:
			if !results["panic"] {
				o.Violation("selector:panic", "ensemble.Select panics (must refuse with an error): ens "+input)
			}
			results["panic"] = true
		case err != nil:
			results[errKind(err)] = true
		default:
			ids := make([]int, len(esm))
			for i, s := range esm {
				ids[i], _ = strconv.Atoi(s)
				if s == "" {
					ids[i] = -1
				}
			}
			res := "ok:" + joinInts(ids, ".")
			if !results[res] {
				detail := fmt.Sprintf("ens %s => %s", input, res)
				if len(ids) != rf {
					o.Violation("ensemble:wrong-size", detail)
				}
				if hasDup(ids) {
					o.Violation("ensemble:duplicate-member", detail)
				}
				for _, x := range ids {
					if !contains(e.nodes, x) {
						o.Violation("ensemble:ineligible-member", detail)
						break
					}
				}
				if !strictOK(e.md, e.rules, ids) {
					o.Violation("ensemble:strict-anti-affinity-violated", detail)
				}
			}
			results[res] = true
		}
	}
	nt := ""
	if rf >= 2 || len(e.rules) > 0 {
		nt = input
	}
	o.Case("ens", input, setStr(results), nt)
	o.Count(fmt.Sprintf("ens:rules=%d", len(e.rules)))
	for r := range results {
		o.Count("ens:result:" + strings.SplitN(r, ":", 2)[0] + kindSuffix(r))
	}
	if len(results) > 1 {
		o.Count("ens:several-results-over-map-orders")
	}
}

func kindSuffix(r string) string {
	if strings.HasPrefix(r, "err:") {
		return ":" + r[4:]
	}
	return ""
}

// sel == nil: SetSelected is never called (the caller's candidate order reaches finalSelector).
func runSingle(o *hx.Out, e *env, sel []int, hasSel bool) {
	selStr := "nosel"
	if hasSel {
		selStr = joinInts(sel, ",")
	}
	input := e.line() + " " + selStr
	results := map[string]bool{}
	for k := 0; k < reps; k++ {
		ctx := &single.Context{
			Candidates:         e.candidates(),
			CandidatesMetadata: e.metadata(),
			Policies:           mkPolicies(e.rules, k%2 == 0),
			Status:             e.status(),
			LoadRatioSupplier:  e.supplier(k),
		}
		if hasSel {
			s := linkedhashset.New[string]()
			for _, x := range sel {
				s.Add(itoa(x))
			}
			ctx.SetSelected(s)
		}
		var id string
		var err error
		panicked := false
		func() {
			defer func() {
				if r := recover(); r != nil {
					panicked = true
				}
			}()
			id, err = single.NewSelector().Select(ctx)
		}()
		switch {
		case panicked:
			if !results["panic"] {
				o.Violation("selector:panic", "single selector chain panics (must refuse with an error): single "+input)
			}
			results["panic"] = true
		case err != nil:
			results[errKind(err)] = true
		default:
			results["ok:"+id] = true
			x, _ := strconv.Atoi(id)
			if !contains(e.nodes, x) {
				o.Violation("single:ineligible-server", fmt.Sprintf("single %s => %s", input, id))
			}
			if hasSel && contains(sel, x) {
				o.Violation("single:already-selected-server", fmt.Sprintf("single %s => %s", input, id))
			}
		}
	}
	o.Case("single", input, setStr(results), input)
	if !hasSel {
		o.Count("single:caller-order(final index deterministic)")
	}
	for r := range results {
		o.Count("single:result:" + strings.SplitN(r, ":", 2)[0] + kindSuffix(r))
	}
}

// ---- balancer

type cfgRes struct {
	nodes    []int
	md       map[string]model.ServerMetadata
	ns       map[string]*model.NamespaceConfig
	servers  map[string]*model.Server
	nsCalls  int
	maxCalls int
}

type livelock struct{}

func newCfg(nodes []int, md map[string]model.ServerMetadata) *cfgRes {
	c := &cfgRes{nodes: nodes, md: md, ns: map[string]*model.NamespaceConfig{}, servers: map[string]*model.Server{}, maxCalls: 4000}
	for _, n := range nodes {
		s := srv(n)
		c.servers[itoa(n)] = &s
	}
	return c
}
func (c *cfgRes) Close() error { return nil }
func (c *cfgRes) Load() *model.ClusterConfig {
	cc := &model.ClusterConfig{Servers: srvs(c.nodes), ServerMetadata: c.md}
	for _, n := range c.ns {
		cc.Namespaces = append(cc.Namespaces, *n)
	}
	return cc
}
func (c *cfgRes) Nodes() *linkedhashset.Set[string] {
	s := linkedhashset.New[string]()
	for _, n := range c.nodes {
		s.Add(itoa(n))
	}
	return s
}
func (c *cfgRes) NodesWithMetadata() (*linkedhashset.Set[string], map[string]model.ServerMetadata) {
	return c.Nodes(), c.md
}
func (c *cfgRes) NamespaceConfig(ns string) (*model.NamespaceConfig, bool) {
	c.nsCalls++
	if c.nsCalls > c.maxCalls {
		// balanceHighestNode retries a failing swapShard without advancing (for ... { if err != nil { continue } });
		// the harness breaks that loop here
		panic(livelock{})
	}
	n, ok := c.ns[ns]
	return n, ok
}
func (c *cfgRes) Node(id string) (*model.Server, bool) {
	s, ok := c.servers[id]
	return s, ok
}

type statusRes struct{ st *model.ClusterStatus }

func (s *statusRes) Load() *model.ClusterStatus { return s.st }
func (s *statusRes) LoadWithVersion() (*model.ClusterStatus, metadata.Version) {
	return s.st, metadata.Version("0")
}
func (s *statusRes) Swap(*model.ClusterStatus, metadata.Version) bool       { return true }
func (s *statusRes) Update(*model.ClusterStatus)                            {}
func (s *statusRes) UpdateShardMetadata(string, int64, model.ShardMetadata) {}
func (s *statusRes) DeleteShardMetadata(string, int64)                      {}

func runSwap(o *hx.Out, e *env, ens []int, from int) {
	input := fmt.Sprintf("%s %s %d", e.line(), joinInts(ens, ","), from)
	results := map[string]bool{}
	for k := 0; k < reps; k++ {
		cfg := newCfg(e.nodes, e.metadata())
		cfg.ns["ns"] = &model.NamespaceConfig{Name: "ns", ReplicationFactor: uint32(len(ens)), Policies: mkPolicies(e.rules, k%2 == 0)}
		b := balancer.NewVerifBalancer(&statusRes{}, cfg, single.DefaultShardsRank, 16)
		shard := &model.ShardLoadRatio{ShardInfo: &model.ShardInfo{Namespace: "ns", ShardID: 7, Ensemble: srvs(ens)}, Ratio: 0.125}
		group := &sync.WaitGroup{}
		var swapped bool
		var err error
		panicked := false
		func() {
			defer func() {
				if r := recover(); r != nil {
					panicked = true
				}
			}()
			cands, md := cfg.NodesWithMetadata()
			swapped, err = b.SwapShard(shard, srv(from), group, mkRatio(e.rank), cands, md, e.status())
		}()
		var act *balancer.SwapNodeAction
		select {
		case a := <-b.Actions():
			act = a.(*balancer.SwapNodeAction)
			a.Done()
		default:
		}
		detail := "swap " + input
		switch {
		case panicked:
			if !results["panic"] {
				o.Violation("swap:panic", "swapShard panics (must refuse with an error): "+detail)
			}
			results["panic"] = true
		case err != nil:
			results[errKind(err)] = true
		case !swapped:
			results["noswap"] = true
		default:
			if act == nil {
				results["swap:no-action"] = true
				break
			}
			to := idOf(act.To)
			res := "swap:" + itoa(to)
			if !results[res] {
				detail += " => " + res
				if contains(ens, to) {
					o.Violation("swap:target-already-in-ensemble", detail)
				}
				if !contains(e.nodes, to) {
					o.Violation("swap:target-not-in-cluster", detail)
				}
				if idOf(act.From) != from || act.Shard != 7 {
					o.Violation("swap:action-names-wrong-shard-or-source", detail)
				}
				newEns, _, _ := controllers.VerifSwapNodeLists(srvs(ens), nil, srv(from), srv(to))
				ne := idsOf(newEns)
				if !hasDup(ens) && contains(ens, from) && (hasDup(ne) || len(ne) != len(ens)) {
					o.Violation("swap:not-one-member-replaced", detail+" new ensemble "+joinInts(ne, "."))
				}
				if strictOK(e.md, e.rules, ens) && !strictOK(e.md, e.rules, ne) {
					o.Violation("swap:strict-anti-affinity-violated", detail+" new ensemble "+joinInts(ne, "."))
				}
			}
			results[res] = true
		}
	}
	o.Case("swap", input, setStr(results), input)
	for r := range results {
		o.Count("swap:result:" + strings.SplitN(r, ":", 2)[0] + kindSuffix(r))
	}
}

func fmtMdLists(ens, removed []int) string {
	return joinInts(ens, ".") + "/" + joinInts(removed, ".")
}

func runSwapNode(o *hx.Out, ens, removed []int, from, to int) {
	input := fmt.Sprintf("%s %s %d %d", joinInts(ens, ","), joinInts(removed, ","), from, to)
	ne, nr, err := controllers.VerifSwapNodeLists(srvs(ens), srvs(removed), srv(from), srv(to))
	res := "ok:" + fmtMdLists(idsOf(ne), idsOf(nr))
	if err != nil {
		res = "refused:" + fmtMdLists(idsOf(ne), idsOf(nr))
		o.Count("swapnode:refused")
	} else {
		o.Count("swapnode:accepted")
	}
	if !hasDup(ens) {
		if hasDup(idsOf(ne)) {
			o.Violation("swapnode:duplicate-member", "swapnode "+input+" => "+res)
		}
		if len(ne) != len(ens) {
			o.Violation("swapnode:ensemble-size-changed", "swapnode "+input+" => "+res)
		}
	}
	o.Case("swapnode", input, res, input)
}

// ---- a whole rebalance round

type shardT struct {
	id    int
	rules []rule
	ens   []int
}

type roundCase struct {
	nodes  []int
	md     map[int]map[int]int
	idx    int64
	shards []shardT // sorted by id
}

func fmtShards(l []shardT) string {
	if len(l) == 0 {
		return "-"
	}
	var parts []string
	for _, s := range l {
		parts = append(parts, fmt.Sprintf("%d/%s/%s", s.id, fmtRules(s.rules), joinInts(s.ens, ",")))
	}
	return strings.Join(parts, "_")
}

func parseShards(s string) []shardT {
	if s == "-" {
		return nil
	}
	var res []shardT
	for _, p := range strings.Split(s, "_") {
		f := strings.Split(p, "/")
		id, _ := strconv.Atoi(f[0])
		res = append(res, shardT{id: id, rules: parseRules(f[1]), ens: parseInts(f[2], ",")})
	}
	return res
}

// runRound runs the real rebalanceEnsemble on the snapshot, applies the emitted actions in order with the real
// swapNode list handling, and hands the model the observed ranking and (shard, from) request order (both depend
// on float ratios and map order, inputs of the model).  wantRank/wantReqs != nil only matter for documentation in
// replayed lines: the round is re-run and re-observed.
func runRound(o *hx.Out, rc *roundCase) {
	e := &env{nodes: rc.nodes, md: rc.md}
	cfg := newCfg(rc.nodes, e.metadata())
	st := model.NewClusterStatus()
	st.ServerIdx = uint32(rc.idx)
	byID := map[int]*shardT{}
	// one namespace per distinct rule list
	for i := range rc.shards {
		s := &rc.shards[i]
		byID[s.id] = s
		ns := "ns-" + fmtRules(s.rules)
		if _, ok := cfg.ns[ns]; !ok {
			cfg.ns[ns] = &model.NamespaceConfig{Name: ns, ReplicationFactor: uint32(len(s.ens)), Policies: mkPolicies(s.rules, len(cfg.ns)%2 == 0)}
			st.Namespaces[ns] = model.NamespaceStatus{ReplicationFactor: uint32(len(s.ens)), Shards: map[int64]model.ShardMetadata{}}
		}
		st.Namespaces[ns].Shards[int64(s.id)] = model.ShardMetadata{Status: model.ShardStatusSteadyState, Ensemble: srvs(s.ens)}
	}
	var rank []int
	algo := func(p *model.RatioParams) *model.Ratio {
		r := single.DefaultShardsRank(p)
		rank = rank[:0]
		for it := r.NodeIterator(); it.Next(); {
			n, _ := strconv.Atoi(it.Value().NodeID)
			rank = append(rank, n)
		}
		return r
	}
	b := balancer.NewVerifBalancer(&statusRes{st: st}, cfg, algo, 1000)
	var acts []*balancer.SwapNodeAction
	stop, done := make(chan struct{}), make(chan struct{})
	go func() { // the coordinator's action worker: take the actions in order, mark them done
		defer close(done)
		for {
			select {
			case a := <-b.Actions():
				acts = append(acts, a.(*balancer.SwapNodeAction))
				a.Done()
			case <-stop:
				for {
					select {
					case a := <-b.Actions():
						acts = append(acts, a.(*balancer.SwapNodeAction))
						a.Done()
					default:
						return
					}
				}
			}
		}
	}()
	panicked, spun := false, false
	func() {
		defer func() {
			if r := recover(); r != nil {
				if _, ok := r.(livelock); ok {
					spun = true
				} else {
					panicked = true
				}
			}
		}()
		b.Rebalance()
	}()
	close(stop)
	<-done

	// apply the actions, in order, to the live metadata (initially the snapshot)
	live := map[int][]model.Server{}
	removed := map[int][]model.Server{}
	for _, s := range rc.shards {
		live[s.id] = srvs(s.ens)
	}
	var trace, reqs []string
	for _, a := range acts {
		sid := int(a.Shard)
		from, to := idOf(a.From), idOf(a.To)
		reqs = append(reqs, fmt.Sprintf("%d>%d", sid, from))
		if from == 0 {
			o.Count("round:action-with-empty-source")
		}
		trace = append(trace, "swap:"+itoa(to))
		if s := byID[sid]; s != nil && contains(s.ens, to) {
			o.Violation("round:target-in-snapshot-ensemble", fmt.Sprintf("shard %d %v: action %d->%d", sid, s.ens, from, to))
		}
		if !contains(rc.nodes, to) {
			o.Violation("round:target-not-in-cluster", fmt.Sprintf("shard %d: action %d->%d, cluster %v", sid, from, to, rc.nodes))
		}
		ne, nr, _ := controllers.VerifSwapNodeLists(live[sid], removed[sid], a.From, a.To)
		live[sid], removed[sid] = ne, nr
	}
	if panicked {
		trace = append(trace, "panic")
	}
	var fin []string
	for _, s := range rc.shards {
		fin = append(fin, fmt.Sprintf("%d:%s", s.id, fmtMdLists(idsOf(live[s.id]), idsOf(removed[s.id]))))
	}
	trs, rqs, fins := "-", "-", "-"
	if len(trace) > 0 {
		trs = strings.Join(trace, ",")
	}
	if len(reqs) > 0 {
		rqs = strings.Join(reqs, ",")
	}
	if len(fin) > 0 {
		fins = strings.Join(fin, "_")
	}
	input := fmt.Sprintf("%s %s %s %d %s %s", joinInts(rc.nodes, ","), fmtMd(rc.md), joinInts(rank, ","), rc.idx, fmtShards(rc.shards), rqs)
	detail := "round " + input + " => " + trs + ";" + fins
	if panicked {
		o.Violation("round:panic", "rebalanceEnsemble panics: "+detail)
	}
	for _, s := range rc.shards {
		if hasDup(s.ens) {
			continue
		}
		l := idsOf(live[s.id])
		if hasDup(l) {
			o.Violation("round:duplicate-member", fmt.Sprintf("shard %d %v -> %v: %s", s.id, s.ens, l, detail))
		}
		if len(l) != len(s.ens) {
			o.Violation("round:ensemble-size-changed", fmt.Sprintf("shard %d %v -> %v: %s", s.id, s.ens, l, detail))
		}
		if strictOK(rc.md, s.rules, s.ens) && !strictOK(rc.md, s.rules, l) {
			o.Violation("round:strict-anti-affinity-violated", fmt.Sprintf("shard %d %v -> %v: %s", s.id, s.ens, l, detail))
		}
	}
	key := fmt.Sprintf("%s %s %d %s", joinInts(rc.nodes, ","), fmtMd(rc.md), rc.idx, fmtShards(rc.shards))
	o.Case("round", input, trs+";"+fins, key)
	o.CountN("round:actions", len(acts))
	if spun {
		o.Count("round:balanceHighestNode-retries-forever(broken by harness)")
		if _, ok := o.Extra["balancer_livelock_example"]; !ok {
			o.Extra["balancer_livelock_example"] = "round " + input
		}
	}
	perShard := map[int]int{}
	for _, a := range acts {
		perShard[int(a.Shard)]++
	}
	for _, n := range perShard {
		if n >= 2 {
			o.Count("round:shard-with-several-swaps")
		}
	}
}

// ---------------------------------------------------------------- generators

func genCluster(r *hx.Rng, minN, maxN int) ([]int, map[int]map[int]int, []int) {
	n := minN + r.Intn(maxN-minN+1)
	perm := make([]int, 0, n)
	for len(perm) < n { // ids 1..12 in random insertion order
		x := 1 + r.Intn(12)
		if !contains(perm, x) {
			perm = append(perm, x)
		}
	}
	nl := r.Intn(4) // 0..3 labels
	labels := []int{10, 11, 12}[:nl]
	md := map[int]map[int]int{}
	nv := make([]int, nl)
	for i := range nv {
		nv[i] = 1 + r.Intn(4)
	}
	for _, s := range perm {
		if r.Chance(8) {
			continue // server without metadata entry
		}
		md[s] = map[int]int{}
		for i, l := range labels {
			if r.Chance(12) {
				continue // missing label
			}
			md[s][l] = 1 + r.Intn(nv[i])
		}
	}
	return perm, md, labels
}

func genRules(r *hx.Rng, labels []int) []rule {
	var rs []rule
	nr := r.Intn(4)
	if r.Chance(25) {
		nr = 0
	}
	for i := 0; i < nr; i++ {
		ru := rule{mode: "S"}
		switch {
		case r.Chance(20):
			ru.mode = "R"
		case r.Chance(4):
			ru.mode = "X"
		}
		nl := 1 + r.Intn(2)
		if r.Chance(3) {
			nl = 0
		}
		for j := 0; j < nl; j++ {
			l := 10 + r.Intn(3) // may name a label no server carries
			if len(labels) > 0 && r.Chance(85) {
				l = hx.Pick(r, labels)
			}
			if !contains(ru.labels, l) || r.Chance(5) {
				ru.labels = append(ru.labels, l)
			}
		}
		rs = append(rs, ru)
	}
	return rs
}

func shuffle(r *hx.Rng, l []int) []int {
	res := append([]int(nil), l...)
	for i := len(res) - 1; i > 0; i-- {
		j := r.Intn(i + 1)
		res[i], res[j] = res[j], res[i]
	}
	return res
}

func genRank(r *hx.Rng, e *env, extra []int, allowNil bool) {
	all := shuffle(r, append(append([]int(nil), e.nodes...), extra...))
	switch k := r.Intn(100); {
	case k < 60:
		e.rank = all
	case k < 75:
		e.rank = all[:r.Intn(len(all)+1)]
	case k < 85:
		e.rank = nil
	default:
		if allowNil {
			e.rankNil = true
		} else {
			e.rank = all
		}
	}
}

func genIdx(r *hx.Rng, allowNil bool) int64 {
	switch {
	case allowNil && r.Chance(10):
		return -1
	case r.Chance(10):
		return int64(uint32(r.U64())) // large uint32
	}
	return int64(r.Intn(40))
}

func perms(n, k int) int {
	p := 1
	for i := 0; i < k; i++ {
		if n-i <= 0 {
			return p
		}
		p *= n - i
		if p > 1<<20 {
			return p
		}
	}
	return p
}

func genEnv(r *hx.Rng, allowNil bool) (*env, []int) {
	nodes, md, labels := genCluster(r, 3, 9)
	e := &env{nodes: nodes, md: md, rules: genRules(r, labels)}
	genRank(r, e, nil, allowNil)
	e.idx = genIdx(r, allowNil)
	return e, labels
}

func fullRank(e *env) bool {
	if e.rankNil {
		return false
	}
	for _, n := range e.nodes {
		if !contains(e.rank, n) {
			return false
		}
	}
	return true
}

func genEns(r *hx.Rng, o *hx.Out) {
	e, _ := genEnv(r, true)
	rf := 1 + r.Intn(5)
	if r.Chance(2) {
		rf = 0
	}
	if !fullRank(e) && perms(len(e.nodes), rf) > 900 { // keep the admissible set printable
		e.rankNil = false
		e.rank = shuffle(r, e.nodes)
	}
	runEns(o, e, rf)
}

func genSingle(r *hx.Rng, o *hx.Out) {
	e, _ := genEnv(r, true)
	hasSel := r.Chance(60)
	var sel []int
	if hasSel {
		for _, n := range e.nodes {
			if r.Chance(35) {
				sel = append(sel, n)
			}
		}
		if r.Chance(10) {
			sel = append(sel, 13) // a selected server that left the cluster
		}
	}
	runSingle(o, e, sel, hasSel)
}

func genSwap(r *hx.Rng, o *hx.Out) {
	e, _ := genEnv(r, false)
	if e.idx < 0 {
		e.idx = 0
	}
	// existing placement: members mostly from the cluster, sometimes a server that has been removed from it
	rf := 1 + r.Intn(4)
	pool := shuffle(r, e.nodes)
	var ens []int
	gone := []int{13, 14}
	for len(ens) < rf && len(pool) > 0 {
		if r.Chance(15) && len(gone) > 0 {
			ens = append(ens, gone[0])
			gone = gone[1:]
			continue
		}
		ens = append(ens, pool[0])
		pool = pool[1:]
	}
	from := hx.Pick(r, ens)
	if r.Chance(3) {
		from = 15 // not a member
	}
	runSwap(o, e, ens, from)
}

func genSwapNode(r *hx.Rng, o *hx.Out) {
	n := 1 + r.Intn(5)
	ens := shuffle(r, []int{1, 2, 3, 4, 5, 6, 7})[:n]
	var removed []int
	if r.Chance(30) {
		removed = []int{8 + r.Intn(2)}
	}
	from := hx.Pick(r, ens)
	if r.Chance(25) {
		from = 8 + r.Intn(3) // not a member (stale or repeated action)
	}
	to := 1 + r.Intn(10)
	if r.Chance(30) {
		to = hx.Pick(r, ens) // already a member
	}
	runSwapNode(o, ens, removed, from, to)
}

func genRound(r *hx.Rng, o *hx.Out) { runRound(o, mkRoundCase(r)) }

func mkRoundCase(r *hx.Rng) *roundCase {
	nodes, md, labels := genCluster(r, 2, 7)
	// servers that were removed from the configuration but still hold replicas
	var gone []int
	for _, g := range []int{13, 14, 15} {
		if r.Chance(55) {
			gone = append(gone, g)
			if r.Chance(50) { // stale metadata may or may not be kept
				md[g] = map[int]int{}
				for _, l := range labels {
					md[g][l] = 1 + r.Intn(4)
				}
			}
		}
	}
	old := append(append([]int(nil), nodes...), gone...)
	rc := &roundCase{nodes: nodes, md: md, idx: genIdx(r, false)}
	nns := 1 + r.Intn(2)
	id := 0
	for k := 0; k < nns; k++ {
		var rules []rule
		if r.Chance(50) && len(labels) > 0 {
			rules = []rule{{mode: "S", labels: []int{hx.Pick(r, labels)}}}
			if r.Chance(25) {
				rules = genRules(r, labels)
			}
		}
		rf := 1 + r.Intn(3)
		if rf > len(old) {
			rf = len(old)
		}
		nsh := 1 + r.Intn(5)
		for j := 0; j < nsh; j++ {
			var ens []int
			if r.Chance(60) && len(gone) > 0 { // skewed: removed servers first
				ens = append(shuffle(r, gone), shuffle(r, nodes)...)[:rf]
			} else {
				ens = shuffle(r, old)[:rf]
			}
			rc.shards = append(rc.shards, shardT{id: id, rules: rules, ens: ens})
			id++
		}
	}
	return rc
}

func replayLine(o *hx.Out, line string) {
	t := strings.Fields(line)
	if len(t) < 2 {
		return
	}
	a := t[2:]
	switch t[0] {
	case "ens":
		rf, _ := strconv.Atoi(a[5])
		runEns(o, parseEnv(a[:5]), rf)
	case "single":
		if a[5] == "nosel" {
			runSingle(o, parseEnv(a[:5]), nil, false)
		} else {
			runSingle(o, parseEnv(a[:5]), parseInts(a[5], ","), true)
		}
	case "swap":
		from, _ := strconv.Atoi(a[6])
		runSwap(o, parseEnv(a[:5]), parseInts(a[5], ","), from)
	case "swapnode":
		from, _ := strconv.Atoi(a[2])
		to, _ := strconv.Atoi(a[3])
		runSwapNode(o, parseInts(a[0], ","), parseInts(a[1], ","), from, to)
	case "elect": // nodes md idx shards target probeMid failFirst: real shard controllers, failing swap election (electleg.go)
		replayElect(o, a)
	case "pipe": // nodes md idx shards rounds slow: balancer rounds against a slow action worker (pipeleg.go)
		replayPipe(o, a)
	case "place": // nodes md rules rf: through the real coordinator (coordleg.go)
		replayPlace(o, a)
	case "round": // nodes md rank idx shards reqs  (rank and reqs are re-observed)
		idx, _ := strconv.ParseInt(a[3], 10, 64)
		runRound(o, &roundCase{nodes: parseInts(a[0], ","), md: parseMd(a[1]), idx: idx, shards: parseShards(a[4])})
	}
}

func main() {
	f := hx.ParseFlags()
	o := hx.NewOut(f.OutDir)
	defer o.Close()
	// hx.NewRng(seed) streams of adjacent seeds are shifted copies of each other (state = seed*G + c, step G):
	// fork once so that seeds 1..5 give unrelated case sets
	r := hx.NewRng(f.Seed).Fork()

	replay := hx.CorpusLines(f.Corpus)
	if f.Replay != "" {
		replay = hx.ReadLines(f.Replay)
	}
	for _, line := range replay {
		replayLine(o, line)
	}
	if f.Replay != "" {
		return
	}
	for i := 0; i < f.N; i++ {
		genEns(r, o)
		genEns(r, o)
		genSingle(r, o)
		genSwap(r, o)
		genSwapNode(r, o)
		genRound(r, o)
	}
	// the coordinator-glue leg has its own stream, so that the cases above do not depend on it
	genCoordLeg(hx.NewRng(f.Seed+0x5eed19).Fork(), o, f.N/25+6)
	genPipeLeg(hx.NewRng(f.Seed+0x91be19).Fork(), o, f.N/12+12)
	genElectLeg(hx.NewRng(f.Seed+0xe1ec19).Fork(), o, f.N/15+10)
}
