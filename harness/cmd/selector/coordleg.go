// harness selector, coordinator-glue leg (kind "place"): every path by which an ensemble gets INTO the cluster
// status goes through the REAL coordinator (coordinator.NewCoordinator over a memory metadata provider and a stub
// rpc.Provider whose replication RPCs block, so no election completes):
//
//	I  initial assignment        NewCoordinator on an empty store   (waits >= 1 s for the nodes: a few cases, run in parallel)
//	E  start-up on a stored,     NewCoordinator "checking cluster config" with an empty stored status
//	   empty status
//	C  ConfigChanged             the config provider returns a modified config, a notification is sent on the
//	                             coordinator's clusterConfigNotificationsCh (real ClusterConfigResource reload -> ConfigChanged)
//	R  restart                   Close, NewCoordinator on the same store with a (modified) config
//
// with generated cluster configs (2-6 servers with 0-2 labels of 1-3 values, label collisions, missing labels,
// namespaces with RF <, =, > cluster size and Strict / Relaxed / two-label / two-rule policies), servers added and
// removed, labels changed.  After every step the stored cluster status is read and the C19 predicate is evaluated
// on every shard's ensemble (signatures status:*).  For every namespace that the step created or refused one
// "place" case goes to the model: the set of its shards' ensembles (or "refused") must be in the model's admissible
// set for that cluster / policy / RF (load ranking unknown: the model is asked with no ranking, whose outcome set
// contains the outcomes of every ranking).
package main

import (
	"context"
	"errors"
	"fmt"
	"io"
	"os"
	"runtime"
	"sort"
	"strconv"
	"strings"
	"sync"
	"time"

	"google.golang.org/grpc"
	"google.golang.org/grpc/health/grpc_health_v1"

	"github.com/oxia-db/oxia/coordinator"
	"github.com/oxia-db/oxia/coordinator/metadata"
	"github.com/oxia-db/oxia/coordinator/model"
	"github.com/oxia-db/oxia/proto"

	"verif/harness/internal/hx"
)

// ---- stub rpc.Provider: nodes healthy, assignments accepted, every replication RPC succeeds at once (empty logs), so
// elections and balancer swaps complete.  (With unreachable nodes a shard controller never leaves its election retry
// loop, a queued SwapNode is never served, and Coordinator.Close waits for the action worker for ever.)

type stubRPC struct{}

type stubPush struct {
	grpc.ClientStream
	ctx context.Context
}

func (*stubPush) Send(*proto.ShardAssignments) error { return nil }
func (*stubPush) CloseAndRecv() (*proto.CoordinationShardAssignmentsResponse, error) {
	return &proto.CoordinationShardAssignmentsResponse{}, nil
}
func (s *stubPush) Context() context.Context { return s.ctx }

func (stubRPC) PushShardAssignments(ctx context.Context, _ model.Server) (proto.OxiaCoordination_PushShardAssignmentsClient, error) {
	return &stubPush{ctx: ctx}, nil
}
func (stubRPC) NewTerm(context.Context, model.Server, *proto.NewTermRequest) (*proto.NewTermResponse, error) {
	return &proto.NewTermResponse{HeadEntryId: &proto.EntryId{Term: -1, Offset: -1}}, nil
}
func (stubRPC) BecomeLeader(context.Context, model.Server, *proto.BecomeLeaderRequest) (*proto.BecomeLeaderResponse, error) {
	return &proto.BecomeLeaderResponse{}, nil
}
func (stubRPC) AddFollower(context.Context, model.Server, *proto.AddFollowerRequest) (*proto.AddFollowerResponse, error) {
	return &proto.AddFollowerResponse{}, nil
}
func (stubRPC) GetStatus(_ context.Context, _ model.Server, _ *proto.GetStatusRequest) (*proto.GetStatusResponse, error) {
	return &proto.GetStatusResponse{HeadOffset: -1, CommitOffset: -1}, nil
}
func (stubRPC) DeleteShard(context.Context, model.Server, *proto.DeleteShardRequest) (*proto.DeleteShardResponse, error) {
	return &proto.DeleteShardResponse{}, nil
}
func (stubRPC) ClearPooledConnections(model.Server) {}

type stubHealth struct{}
type stubWatch struct {
	grpc.ClientStream
	ctx   context.Context
	first bool
}

func (w *stubWatch) Recv() (*grpc_health_v1.HealthCheckResponse, error) {
	if !w.first {
		w.first = true
		return &grpc_health_v1.HealthCheckResponse{Status: grpc_health_v1.HealthCheckResponse_SERVING}, nil
	}
	<-w.ctx.Done()
	return nil, w.ctx.Err()
}
func (stubHealth) Check(context.Context, *grpc_health_v1.HealthCheckRequest, ...grpc.CallOption) (*grpc_health_v1.HealthCheckResponse, error) {
	return &grpc_health_v1.HealthCheckResponse{Status: grpc_health_v1.HealthCheckResponse_SERVING}, nil
}
func (stubHealth) List(context.Context, *grpc_health_v1.HealthListRequest, ...grpc.CallOption) (*grpc_health_v1.HealthListResponse, error) {
	return nil, errors.New("not used")
}
func (stubHealth) Watch(ctx context.Context, _ *grpc_health_v1.HealthCheckRequest, _ ...grpc.CallOption) (grpc.ServerStreamingClient[grpc_health_v1.HealthCheckResponse], error) {
	return &stubWatch{ctx: ctx}, nil
}

type nopCloser struct{}

func (nopCloser) Close() error { return nil }
func (stubRPC) GetHealthClient(model.Server) (grpc_health_v1.HealthClient, io.Closer, error) {
	return stubHealth{}, nopCloser{}, nil
}

// ---- scenario data

type nsT struct {
	name  int
	rf    int
	count int
	rules []rule
}

type cfgT struct {
	servers []int
	md      map[int]map[int]int
	nss     []nsT
}

type stepT struct {
	kind byte // I E C R
	cfg  cfgT
}

func (c cfgT) String() string {
	var ns []string
	for _, n := range c.nss {
		ns = append(ns, fmt.Sprintf("%d/%d/%d/%s", n.name, n.rf, n.count, fmtRules(n.rules)))
	}
	nss := "-"
	if len(ns) > 0 {
		nss = strings.Join(ns, "+")
	}
	return fmt.Sprintf("%s@%s@%s", joinInts(c.servers, ","), fmtMd(c.md), nss)
}

func scenarioString(steps []stepT) string {
	var p []string
	for _, s := range steps {
		p = append(p, string(s.kind)+"@"+s.cfg.String())
	}
	return strings.Join(p, " ~ ")
}

func nsName(i int) string { return "ns-" + itoa(i) }

func (c cfgT) clusterConfig(gen int) model.ClusterConfig {
	cc := model.ClusterConfig{Servers: srvs(c.servers), ServerMetadata: map[string]model.ServerMetadata{}}
	for s, ls := range c.md {
		m := map[string]string{}
		for k, v := range ls {
			m[itoa(k)] = itoa(v)
		}
		cc.ServerMetadata[itoa(s)] = model.ServerMetadata{Labels: m}
	}
	// an entry for a server that does not exist, different on every (re)load: the ClusterConfigResource stops
	// listening for good after a notification that finds an unchanged configuration, and the harness uses a second
	// notification as a barrier (see step C).  Nothing looks up metadata of a non-candidate.
	cc.ServerMetadata["~load"] = model.ServerMetadata{Labels: map[string]string{"n": itoa(gen)}}
	for i, n := range c.nss {
		cc.Namespaces = append(cc.Namespaces, model.NamespaceConfig{Name: nsName(n.name), InitialShardCount: uint32(n.count),
			ReplicationFactor: uint32(n.rf), Policies: mkPolicies(n.rules, i%2 == 0)})
	}
	return cc
}

// ---- what one scenario produces (computed in a worker, emitted in order by the main goroutine)

type placeCase struct {
	input string // nodes md rules rf
	impl  string
}

type coordResult struct {
	scenario string
	places   []placeCase
	viol     [][2]string
	counts   []string
}

var coordTimeout = 60 * time.Second

type coordRun struct {
	meta  metadata.Provider
	mu    sync.Mutex
	cur   cfgT
	gen   int
	ch    chan any
	c     coordinator.Coordinator
	res   *coordResult
	steps []stepT
}

func (r *coordRun) provider() (model.ClusterConfig, error) {
	r.mu.Lock()
	defer r.mu.Unlock()
	r.gen++
	return r.cur.clusterConfig(r.gen), nil
}

func (r *coordRun) setCfg(c cfgT) {
	r.mu.Lock()
	r.cur = c
	r.mu.Unlock()
}

// start runs NewCoordinator; false if it did not come up (counted, not an alarm of this property).
func (r *coordRun) start() bool {
	type started struct {
		c   coordinator.Coordinator
		err error
	}
	r.ch = make(chan any)
	done := make(chan started, 1)
	go func() {
		defer func() {
			if x := recover(); x != nil {
				done <- started{nil, fmt.Errorf("panic: %v", x)}
			}
		}()
		c, err := coordinator.NewCoordinator(r.meta, r.provider, r.ch, stubRPC{})
		done <- started{c, err}
	}()
	select {
	case s := <-done:
		if s.err != nil {
			if strings.HasPrefix(s.err.Error(), "panic:") {
				r.res.viol = append(r.res.viol, [2]string{"status:coordinator-panics-on-placement",
					fmt.Sprintf("NewCoordinator: %v; scenario: %s", s.err, scenarioString(r.steps))})
			}
			r.res.counts = append(r.res.counts, "place:coordinator-did-not-start")
			return false
		}
		r.c = s.c
		return true
	case <-time.After(coordTimeout):
		r.res.counts = append(r.res.counts, "place:step-timeout:start")
		return false
	}
}

func (r *coordRun) stop() bool {
	if r.c == nil {
		return true
	}
	closed := make(chan struct{})
	c := r.c
	r.c = nil
	go func() { _ = c.Close(); close(closed) }()
	select {
	case <-closed:
		return true
	case <-time.After(coordTimeout):
		r.res.counts = append(r.res.counts, "place:step-timeout:close")
		if os.Getenv("VERIF_C19_DEBUG") != "" {
			buf := make([]byte, 1<<22)
			os.Stderr.Write(buf[:runtime.Stack(buf, true)])
			os.Exit(3)
		}
		return false
	}
}

func (r *coordRun) notify() bool {
	select {
	case r.ch <- struct{}{}:
		return true
	case <-time.After(coordTimeout):
		r.res.counts = append(r.res.counts, "place:step-timeout:notify")
		return false
	}
}

type ensMap map[int64][]int // shard id -> ensemble

func snapshot(st *model.ClusterStatus) map[string]ensMap {
	res := map[string]ensMap{}
	if st == nil {
		return res
	}
	for name, ns := range st.Namespaces {
		m := ensMap{}
		for id, sm := range ns.Shards {
			m[id] = idsOf(sm.Ensemble)
		}
		res[name] = m
	}
	return res
}

// evaluate the stored status after a step against the configuration of the step
func (r *coordRun) evaluate(stepNo int, prev map[string]ensMap) map[string]ensMap {
	st, _, _ := r.meta.Get()
	now := snapshot(st)
	cfg := r.steps[stepNo].cfg
	where := fmt.Sprintf("after step %d (%c) of scenario: %s", stepNo, r.steps[stepNo].kind, scenarioString(r.steps[:stepNo+1]))
	bad := func(sig, what string) {
		r.res.viol = append(r.res.viol, [2]string{sig, what + " " + where})
	}
	for _, n := range cfg.nss {
		name := nsName(n.name)
		shards, exists := now[name]
		_, existed := prev[name]
		ids := make([]int64, 0, len(shards))
		for id := range shards {
			ids = append(ids, id)
		}
		sort.Slice(ids, func(i, j int) bool { return ids[i] < ids[j] })
		for _, id := range ids {
			ens := shards[id]
			desc := fmt.Sprintf("namespace %s (rf %d, rules %s) shard %d ensemble %v:", name, n.rf, fmtRules(n.rules), id, ens)
			if len(ens) != n.rf || hasDup(ens) {
				bad("status:ensemble-not-rf-distinct", desc)
			}
			old, had := prev[name][id]
			if !had {
				// created by this step: judged against the configuration of this step
				for _, x := range ens {
					if !contains(cfg.servers, x) {
						bad("status:ensemble-has-ineligible-server", fmt.Sprintf("%s %d is not a server of the cluster %v", desc, x, cfg.servers))
						break
					}
				}
				if !strictOK(cfg.md, n.rules, ens) {
					bad("status:ensemble-violates-strict-anti-affinity", fmt.Sprintf("%s labels %s", desc, fmtMd(cfg.md)))
				}
				continue
			}
			// an older shard whose ensemble changed: a balancer swap.  The balancer works asynchronously, its decision may
			// have been taken under an earlier configuration of the scenario: a new member must be a server of this or an
			// earlier configuration, and anti-affinity must not get lost under every labelling seen so far
			var cfgs []cfgT
			for k := stepNo; k >= 0; k-- {
				cfgs = append(cfgs, r.steps[k].cfg)
			}
			for _, x := range ens {
				if contains(old, x) {
					continue
				}
				ok := false
				for _, c := range cfgs {
					ok = ok || contains(c.servers, x)
				}
				if !ok {
					bad("status:ensemble-has-ineligible-server", fmt.Sprintf("%s new member %d (was %v) is not a server of the cluster %v", desc, x, old, cfg.servers))
					break
				}
			}
			lost := true
			for _, c := range cfgs {
				lost = lost && strictOK(c.md, n.rules, old) && !strictOK(c.md, n.rules, ens)
			}
			if lost {
				bad("status:ensemble-violates-strict-anti-affinity", fmt.Sprintf("%s (was %v) labels %s", desc, old, fmtMd(cfg.md)))
			}
		}
		if existed {
			continue
		}
		// created or refused by this step: one case for the model
		impl := "refused"
		if exists {
			set := map[string]bool{}
			for _, id := range ids {
				set["ok:"+joinInts(shards[id], ".")] = true
			}
			impl = setStr(set)
			r.res.counts = append(r.res.counts, "place:namespace-created")
		} else {
			r.res.counts = append(r.res.counts, "place:namespace-refused")
		}
		switch {
		case n.rf < len(cfg.servers):
			r.res.counts = append(r.res.counts, "place:rf<servers")
		case n.rf == len(cfg.servers):
			r.res.counts = append(r.res.counts, "place:rf=servers")
		default:
			r.res.counts = append(r.res.counts, "place:rf>servers")
		}
		r.res.counts = append(r.res.counts, fmt.Sprintf("place:via-%c", r.steps[stepNo].kind))
		r.res.places = append(r.res.places, placeCase{
			input: fmt.Sprintf("%s %s %s %d", joinInts(cfg.servers, ","), fmtMd(cfg.md), fmtRules(n.rules), n.rf),
			impl:  impl,
		})
	}
	return now
}

func runScenario(steps []stepT) *coordResult {
	r := &coordRun{meta: metadata.NewMetadataProviderMemory(), res: &coordResult{scenario: scenarioString(steps)}, steps: steps}
	prev := map[string]ensMap{}
	defer r.stop()
	for i, s := range steps {
		ok := true
		switch s.kind {
		case 'I':
			r.setCfg(s.cfg)
			ok = r.start()
		case 'E':
			if _, err := r.meta.Store(model.NewClusterStatus(), metadata.NotExists); err != nil {
				return r.res
			}
			r.setCfg(s.cfg)
			ok = r.start()
		case 'R':
			ok = r.stop()
			if ok {
				r.setCfg(s.cfg)
				ok = r.start()
			}
		case 'C':
			r.setCfg(s.cfg)
			// the second notification is received only after ConfigChanged for the first one has returned
			ok = r.notify() && r.notify()
		}
		if !ok {
			return r.res
		}
		prev = r.evaluate(i, prev)
	}
	return r.res
}

// ---- generation

func genCfg(r *hx.Rng) cfgT {
	n := 2 + r.Intn(5)
	if r.Chance(40) {
		n = 3
	}
	c := cfgT{md: map[int]map[int]int{}}
	for len(c.servers) < n {
		x := 1 + r.Intn(9)
		if !contains(c.servers, x) {
			c.servers = append(c.servers, x)
		}
	}
	labels := []int{10, 11}[:r.Intn(3)]
	if r.Chance(40) {
		labels = []int{10}
	}
	nv := []int{1 + r.Intn(3), 1 + r.Intn(3)}
	distinct := false
	switch k := r.Intn(100); {
	case k < 25: // one value per server: every rule satisfiable
		distinct = true
	case k < 65: // about as many values as servers: collisions, but often satisfiable
		nv = []int{n + r.Intn(2), n + r.Intn(2)}
	}
	for si, s := range c.servers {
		if r.Chance(4) {
			continue
		}
		c.md[s] = map[int]int{}
		for i, l := range labels {
			if r.Chance(5) {
				continue
			}
			c.md[s][l] = 1 + r.Intn(nv[i])
			if distinct {
				c.md[s][l] = 1 + (si+i)%n
			}
		}
	}
	return c
}

func genNs(r *hx.Rng, name, nServers int, md map[int]map[int]int) nsT {
	n := nsT{name: name, count: 1 + r.Intn(3)}
	switch k := r.Intn(100); {
	case k < 45:
		n.rf = nServers
	case k < 55:
		n.rf = nServers + 1
	default:
		n.rf = 1 + r.Intn(nServers)
	}
	if n.rf > 4 {
		n.rf = 4
	}
	switch k := r.Intn(100); {
	case k < 15:
	case k < 55:
		n.rules = []rule{{mode: "S", labels: []int{10}}}
	case k < 65:
		n.rules = []rule{{mode: "S", labels: []int{11}}}
	case k < 75:
		n.rules = []rule{{mode: "S", labels: []int{10}}, {mode: "S", labels: []int{11}}}
	case k < 83:
		n.rules = []rule{{mode: "S", labels: []int{10, 11}}}
	case k < 93:
		n.rules = []rule{{mode: "R", labels: []int{10}}}
	default:
		n.rules = []rule{{mode: "R", labels: []int{11}}, {mode: "S", labels: []int{10}}}
	}
	// mostly name labels that servers of this cluster carry
	has := map[int]bool{}
	for _, ls := range md {
		for l := range ls {
			has[l] = true
		}
	}
	for i := range n.rules {
		for j, l := range n.rules[i].labels {
			if !has[l] && has[21-l] && r.Chance(85) {
				n.rules[i].labels[j] = 21 - l
			}
		}
	}
	return n
}

func cloneCfg(c cfgT) cfgT {
	d := cfgT{servers: append([]int(nil), c.servers...), md: map[int]map[int]int{}, nss: append([]nsT(nil), c.nss...)}
	for s, ls := range c.md {
		d.md[s] = map[int]int{}
		for k, v := range ls {
			d.md[s][k] = v
		}
	}
	return d
}

// a modified configuration: always at least one more namespace; sometimes a server added / removed, labels changed
func mutateCfg(r *hx.Rng, c cfgT, nextNs *int) cfgT {
	d := cloneCfg(c)
	if r.Chance(30) && len(d.servers) < 6 {
		for {
			x := 1 + r.Intn(9)
			if !contains(d.servers, x) {
				d.servers = append(d.servers, x)
				if r.Chance(85) {
					d.md[x] = map[int]int{10: 1 + r.Intn(3)}
					if r.Chance(50) {
						d.md[x][11] = 1 + r.Intn(3)
					}
				}
				break
			}
		}
	} else if r.Chance(25) && len(d.servers) > 2 {
		i := r.Intn(len(d.servers))
		gone := d.servers[i]
		d.servers = append(d.servers[:i:i], d.servers[i+1:]...)
		if r.Chance(50) {
			delete(d.md, gone)
		}
	} else if r.Chance(20) {
		s := hx.Pick(r, d.servers)
		if d.md[s] == nil {
			d.md[s] = map[int]int{}
		}
		d.md[s][10] = 1 + r.Intn(3)
	}
	for k := 1 + r.Intn(2); k > 0; k-- {
		d.nss = append(d.nss, genNs(r, *nextNs, len(d.servers), d.md))
		*nextNs++
	}
	return d
}

func genScenario(r *hx.Rng, realInitial bool) []stepT {
	c := genCfg(r)
	next := 1
	for k := 1 + r.Intn(2); k > 0; k-- {
		c.nss = append(c.nss, genNs(r, next, len(c.servers), c.md))
		next++
	}
	first := byte('E')
	if realInitial {
		first = 'I'
	}
	steps := []stepT{{first, c}}
	for k := r.Intn(3); k > 0; k-- {
		c = mutateCfg(r, c, &next)
		kind := byte('C')
		if r.Chance(45) {
			kind = 'R'
		}
		steps = append(steps, stepT{kind, c})
	}
	return steps
}

func emitCoord(o *hx.Out, res *coordResult) {
	for _, p := range res.places {
		o.Case("place", p.input, p.impl, p.input)
	}
	for _, v := range res.viol {
		o.Violation(v[0], v[1])
	}
	for _, c := range res.counts {
		o.Count(c)
	}
	o.Count("place:scenarios")
}

// runScenarios runs the scenarios on a pool of workers (the initial assignment waits a second for the nodes) and
// emits the results in scenario order.
func runScenarios(o *hx.Out, scs [][]stepT) {
	results := make([]*coordResult, len(scs))
	var wg sync.WaitGroup
	sem := make(chan struct{}, 12)
	for i := range scs {
		wg.Add(1)
		sem <- struct{}{}
		go func(i int) {
			defer wg.Done()
			defer func() { <-sem }()
			results[i] = runScenario(scs[i])
		}(i)
	}
	wg.Wait()
	for _, res := range results {
		emitCoord(o, res)
	}
}

// a "place" case line replayed on its own: the namespace is created by a start-up on a stored empty status, by a
// ConfigChanged and by a restart, each time in a cluster of exactly the given servers
func replayPlace(o *hx.Out, a []string) { // nodes md rules rf
	rf, _ := strconv.Atoi(a[3])
	base := cfgT{servers: parseInts(a[0], ","), md: parseMd(a[1])}
	mk := func(n int) cfgT {
		c := cloneCfg(base)
		for i := 1; i <= n; i++ {
			c.nss = append(c.nss, nsT{name: i, rf: rf, count: 2, rules: parseRules(a[2])})
		}
		return c
	}
	runScenarios(o, [][]stepT{{{'E', mk(1)}, {'C', mk(2)}, {'R', mk(3)}}, {{'I', mk(1)}}})
}

func genCoordLeg(r *hx.Rng, o *hx.Out, n int) {
	var scs [][]stepT
	for i := 0; i < n; i++ {
		scs = append(scs, genScenario(r, i%4 == 0))
	}
	runScenarios(o, scs)
}
