// harness selector, pipeline leg (kind "pipe"): the balancer as a CONCURRENT system.  The real nodeBasedBalancer
// computes proposals from a status snapshot and queues them in its action channel; the coordinator's action worker
// applies them later, strictly one at a time (coordinator.startBackgroundActionWorker -> shardController.swapNode).
// Here the worker belongs to the harness:
//
//   - a notifier goroutine runs rebalanceEnsemble `rounds` times, one after the other (like startBackgroundNotifier);
//   - an intake goroutine moves every action from the balancer's channel into the worker's FIFO at once, stamping it
//     with the number of swaps applied so far (= when the proposal was computed);
//   - the worker takes the actions in order, applies each to the stored status through the real swapNodeInMetadata
//     (controllers.VerifSwapNodeLists) — what swapNode does before its election — and only then marks it Done; ONE
//     action of the scenario (usually the head of the first round) is slow: after it was stored the worker stays busy
//     (follower catch-up) for `hold`, or until the balancer has finished all its rounds, before Done.
//
// Nothing is reordered and nothing is applied earlier or later than the real worker could: with the round barrier
// (swapGroup.Wait at the end of rebalanceEnsemble) the balancer simply waits while the worker is busy.  After every
// application the C19 predicate is evaluated on the stored status; for one shard, two applied swaps of which the second
// was proposed before the first was applied are reported as swap:two-members-replaced-from-one-snapshot.
// Every application also goes to the model as a "swapnode" case.
package main

import (
	"fmt"
	"strconv"
	"sync"
	"sync/atomic"
	"time"

	"github.com/oxia-db/oxia/coordinator/balancer"
	"github.com/oxia-db/oxia/coordinator/controllers"
	"github.com/oxia-db/oxia/coordinator/metadata"
	"github.com/oxia-db/oxia/coordinator/model"
	"github.com/oxia-db/oxia/coordinator/selectors/single"

	"verif/harness/internal/hx"
)

// status resource with immutable snapshots (like resources.status)
type pipeStatus struct {
	mu  sync.Mutex
	cur *model.ClusterStatus
}

func (s *pipeStatus) Load() *model.ClusterStatus {
	s.mu.Lock()
	defer s.mu.Unlock()
	return s.cur
}
func (s *pipeStatus) LoadWithVersion() (*model.ClusterStatus, metadata.Version) { return s.Load(), "0" }
func (*pipeStatus) Swap(*model.ClusterStatus, metadata.Version) bool            { return true }
func (*pipeStatus) Update(*model.ClusterStatus)                                 {}
func (*pipeStatus) UpdateShardMetadata(string, int64, model.ShardMetadata)      {}
func (*pipeStatus) DeleteShardMetadata(string, int64)                           {}

// swap applies one action the way shardController.swapNode changes the metadata; returns the ensemble before and
// after, the removed-nodes list before and after, and whether the swap was accepted.
func (s *pipeStatus) swap(shard int64, from, to model.Server) (before, after, rmBefore, rmAfter []model.Server, accepted, found bool) {
	s.mu.Lock()
	defer s.mu.Unlock()
	next := s.cur.Clone()
	for _, ns := range next.Namespaces {
		md, ok := ns.Shards[shard]
		if !ok {
			continue
		}
		ne, nr, err := controllers.VerifSwapNodeLists(md.Ensemble, md.RemovedNodes, from, to)
		before, rmBefore = md.Ensemble, md.RemovedNodes
		if err != nil {
			return before, before, rmBefore, rmBefore, false, true
		}
		md.Ensemble, md.RemovedNodes = ne, nr
		ns.Shards[shard] = md
		s.cur = next
		return before, ne, rmBefore, nr, true, true
	}
	return nil, nil, nil, nil, false, false
}

type pipeCase struct {
	rc     *roundCase
	rounds int
	slow   int // index (in application order) of the slow action
	holdMs int
}

func (p *pipeCase) String() string {
	return fmt.Sprintf("%s %s %d %s %d %d", joinInts(p.rc.nodes, ","), fmtMd(p.rc.md), p.rc.idx, fmtShards(p.rc.shards), p.rounds, p.slow)
}

type pipeItem struct {
	act   *balancer.SwapNodeAction
	stamp int64 // swaps applied when the proposal entered the queue
}

type swapCase struct{ input, impl string }

type pipeResult struct {
	cases  []swapCase
	viol   [][2]string
	counts []string
}

func runPipe(p *pipeCase) *pipeResult {
	res := &pipeResult{}
	rc := p.rc
	e := &env{nodes: rc.nodes, md: rc.md}
	cfg := newCfg(rc.nodes, e.metadata())
	cfg.maxCalls = 4000 * p.rounds
	st := model.NewClusterStatus()
	st.ServerIdx = uint32(rc.idx)
	byID := map[int]*shardT{}
	for i := range rc.shards {
		s := &rc.shards[i]
		byID[s.id] = s
		ns := "ns-" + fmtRules(s.rules)
		if _, ok := cfg.ns[ns]; !ok {
			cfg.ns[ns] = &model.NamespaceConfig{Name: ns, ReplicationFactor: uint32(len(s.ens)), Policies: mkPolicies(s.rules, len(cfg.ns)%2 == 0)}
			st.Namespaces[ns] = model.NamespaceStatus{ReplicationFactor: uint32(len(s.ens)), Shards: map[int64]model.ShardMetadata{}}
		}
		st.Namespaces[ns].Shards[int64(s.id)] = model.ShardMetadata{Status: model.ShardStatusSteadyState, Ensemble: srvs(s.ens)}
	}
	status := &pipeStatus{cur: st}
	b := balancer.NewVerifBalancer(status, cfg, single.DefaultShardsRank, 1000)
	if s, ok := any(b).(interface{ SetScheduleInterval(time.Duration) }); ok {
		s.SetScheduleInterval(5 * time.Millisecond)
	}

	// the balancer's notifier: one round after the other
	finished := make(chan struct{})
	var panicked atomic.Bool
	go func() {
		defer close(finished)
		defer func() {
			if r := recover(); r != nil {
				if _, ok := r.(livelock); !ok {
					panicked.Store(true)
				}
			}
		}()
		for i := 0; i < p.rounds; i++ {
			b.Rebalance()
		}
	}()

	// intake: proposals enter the worker's FIFO the moment they are made
	var applied atomic.Int64
	fifo := make(chan pipeItem, 8192)
	stopIntake, intakeDone := make(chan struct{}), make(chan struct{})
	go func() {
		defer close(intakeDone)
		take := func(a balancer.Action) { fifo <- pipeItem{act: a.(*balancer.SwapNodeAction), stamp: applied.Load()} }
		for {
			select {
			case a := <-b.Actions():
				take(a)
			case <-stopIntake:
				for {
					select {
					case a := <-b.Actions():
						take(a)
					default:
						return
					}
				}
			}
		}
	}()

	// the action worker
	type appliedSwap struct {
		seq      int64
		from, to int
	}
	acceptedOf := map[int][]appliedSwap{}
	n := 0
	where := "pipe " + p.String()
	process := func(it pipeItem) {
		a := it.act
		sid := int(a.Shard)
		from, to := idOf(a.From), idOf(a.To)
		before, after, rmB, rmA, accepted, found := status.swap(a.Shard, a.From, a.To)
		seq := applied.Add(1)
		if found {
			verdict := "refused"
			if accepted {
				verdict = "ok"
			}
			res.cases = append(res.cases, swapCase{
				input: fmt.Sprintf("%s %s %d %d", joinInts(idsOf(before), ","), joinInts(idsOf(rmB), ","), from, to),
				impl:  verdict + ":" + fmtMdLists(idsOf(after), idsOf(rmA)),
			})
		}
		if accepted {
			res.counts = append(res.counts, "pipe:swap-applied")
			s := byID[sid]
			ob, oa := idsOf(before), idsOf(after)
			desc := fmt.Sprintf("shard %d %v -> %v (action %d->%d, %d-th application):", sid, ob, oa, from, to, n)
			if !hasDup(ob) && (hasDup(oa) || len(oa) != len(ob)) {
				res.viol = append(res.viol, [2]string{"status:ensemble-not-rf-distinct", desc + " " + where})
			}
			if !contains(rc.nodes, to) {
				res.viol = append(res.viol, [2]string{"status:ensemble-has-ineligible-server", desc + " " + where})
			}
			if s != nil && strictOK(rc.md, s.rules, ob) && !strictOK(rc.md, s.rules, oa) {
				res.viol = append(res.viol, [2]string{"status:ensemble-violates-strict-anti-affinity",
					fmt.Sprintf("%s rules %s: %s", desc, fmtRules(s.rules), where)})
			}
			for _, prev := range acceptedOf[sid] {
				if it.stamp < prev.seq {
					res.viol = append(res.viol, [2]string{"swap:two-members-replaced-from-one-snapshot",
						fmt.Sprintf("shard %d: swap %d->%d was proposed before swap %d->%d was applied, and both were applied (now %v): %s",
							sid, from, to, prev.from, prev.to, oa, where)})
					break
				}
			}
			acceptedOf[sid] = append(acceptedOf[sid], appliedSwap{seq, from, to})
		} else {
			res.counts = append(res.counts, "pipe:swap-refused-by-swapNode")
		}
		if n == p.slow {
			// the new member catches up slowly: the worker is busy, later proposals stay queued
			res.counts = append(res.counts, "pipe:slow-swap")
			select {
			case <-finished:
			case <-time.After(time.Duration(p.holdMs) * time.Millisecond):
			}
		}
		a.Done()
		n++
	}
	for done := false; !done; {
		select {
		case it := <-fifo:
			process(it)
		case <-finished:
			done = true
		}
	}
	close(stopIntake)
	<-intakeDone
	for drained := false; !drained; {
		select {
		case it := <-fifo:
			process(it)
		default:
			drained = true
		}
	}
	if panicked.Load() {
		res.viol = append(res.viol, [2]string{"round:panic", "rebalanceEnsemble panics: " + where})
	}
	if n > p.slow {
		res.counts = append(res.counts, "pipe:scenarios-with-a-slow-swap")
	}
	if n >= 2 {
		res.counts = append(res.counts, "pipe:scenarios-with-queued-swaps")
	}
	return res
}

func runPipes(o *hx.Out, ps []*pipeCase) {
	results := make([]*pipeResult, len(ps))
	var wg sync.WaitGroup
	sem := make(chan struct{}, 12)
	for i := range ps {
		wg.Add(1)
		sem <- struct{}{}
		go func(i int) {
			defer wg.Done()
			defer func() { <-sem }()
			results[i] = runPipe(ps[i])
		}(i)
	}
	wg.Wait()
	for _, r := range results {
		for _, c := range r.cases {
			o.Case("swapnode", c.input, c.impl, c.input)
		}
		for _, v := range r.viol {
			o.Violation(v[0], v[1])
		}
		for _, c := range r.counts {
			o.Count(c)
		}
		o.Count("pipe:scenarios")
	}
}

// skewed load (the shape of the seeded demo): old servers carry everything, one or two new servers are empty and
// share a zone; a namespace with a strict zone rule next to a plain rf-1 namespace that makes the load uneven
func mkSkewCase(r *hx.Rng) *roundCase {
	nOld := 3 + r.Intn(2)
	nNew := 2 + r.Intn(2)
	rc := &roundCase{md: map[int]map[int]int{}, idx: int64(r.Intn(8))}
	for i := 1; i <= nOld+nNew; i++ {
		rc.nodes = append(rc.nodes, i)
		zone := i
		if i > nOld && r.Chance(75) {
			zone = nOld + 1 // the new servers stand in one zone
		}
		rc.md[i] = map[int]int{10: zone}
	}
	old := rc.nodes[:nOld]
	id := 0
	strict := []rule{{mode: "S", labels: []int{10}}}
	for k := 1 + r.Intn(3); k > 0; k-- {
		rc.shards = append(rc.shards, shardT{id: id, rules: strict, ens: shuffle(r, old)[:3]})
		id++
	}
	for k := 3 + r.Intn(6); k > 0; k-- { // rf 1, piled on the first old servers
		rc.shards = append(rc.shards, shardT{id: id, ens: []int{old[r.Intn(1+r.Intn(nOld))]}})
		id++
	}
	return rc
}

func genPipeLeg(r *hx.Rng, o *hx.Out, n int) {
	var ps []*pipeCase
	for i := 0; i < n; i++ {
		var rc *roundCase
		if i%2 == 0 {
			rc = mkSkewCase(r)
		} else {
			rc = mkRoundCase(r)
		}
		p := &pipeCase{rc: rc, rounds: 2 + r.Intn(2), slow: 0, holdMs: 30}
		if r.Chance(25) {
			p.slow = 1 + r.Intn(2)
		}
		ps = append(ps, p)
	}
	runPipes(o, ps)
}

func replayPipe(o *hx.Out, a []string) { // nodes md idx shards rounds slow
	idx, _ := strconv.ParseInt(a[2], 10, 64)
	rounds, _ := strconv.Atoi(a[4])
	slow, _ := strconv.Atoi(a[5])
	rc := &roundCase{nodes: parseInts(a[0], ","), md: parseMd(a[1]), idx: idx, shards: parseShards(a[3])}
	// map iteration order decides ties of the ranking: a few runs
	var ps []*pipeCase
	for i := 0; i < 6; i++ {
		ps = append(ps, &pipeCase{rc: rc, rounds: rounds, slow: slow, holdMs: 30})
	}
	runPipes(o, ps)
}
