package main

import (
	"context"
	"fmt"
	"runtime"
	"strings"
	"time"

	"github.com/oxia-db/oxia/proto"
	"github.com/oxia-db/oxia/server"

	"verif/harness/internal/hx"
)

// cancel leg: a client gives up (its context is cancelled) after its write has been handed to the WAL - before or
// after the leader has processed its own sync completion - and before the followers acknowledge it. The entry is
// in the log and gets committed by the followers' acks, so the leader has to apply it like any other; one more
// write follows. If the leader drops the application, the next one lands on a DB that misses entry n.
func runCancelCase(o *hx.Out, p params) (string, int64) {
	r := hx.NewRng(p.wseed)
	g := &wgen{r: r.Fork()}
	rf := 3
	if p.rf >= 5 {
		rf = 5
	}
	before := r.Intn(4)
	cancelFirst := r.Bool() // cancelled before / after the leader runs the sync completion of n
	crashAfter := r.Bool()
	sched := fmt.Sprintf("rf=%d: %d writes applied; write n issued with a cancellable context; cancelled %s the sync completion of n is processed; "+
		"all followers acknowledge n; write n+1 issued, synced, acknowledged; flush+crash afterwards=%v",
		rf, before, map[bool]string{true: "before", false: "after"}[cancelFirst], crashAfter)
	n := newNode(surv{}, -1, "p", 100, true)
	n.kvf.setPhase("live")
	lr, err := startLeader(n, rf, 1, server.InvalidEntryId)
	if err != nil {
		lr.close()
		controllerFailed(o, p, "a leader on an empty node", err)
		return "start-error", 0
	}
	ok := true
	do := func(s step) {
		if ok {
			ok = lr.exec(s)
		}
	}
	for i := 0; i < before; i++ {
		do(step{kind: "W", req: plainWrite(g, o)})
	}
	do(step{kind: "Q"})
	x := lr.issued + 1
	ctx, cancel := context.WithCancel(context.Background())
	lr.nextCtx = ctx
	do(step{kind: "W", req: plainWrite(g, o)})
	if cancelFirst {
		cancel()
	}
	do(step{kind: "S", upto: x})
	cancel()
	for f := 0; f < rf-1; f++ {
		do(step{kind: "A", f: f, upto: x})
	}
	do(step{kind: "W", req: plainWrite(g, o)})
	do(step{kind: "Q"})
	if crashAfter && ok {
		if k := n.kvf.current(); k != nil {
			k.KV.Flush()
		}
		n.clk.crashNow("after-cancelled-write")
	}
	o.Count(fmt.Sprintf("cancel:before-sync-completion=%v", cancelFirst))
	crashed := n.clk.isCrashed()
	lr.close()
	checkLive(o, p, n.kvf.takeLog(), sched)
	if lr.refused {
		o.Count("request-refused-by-leader")
		return "refused", 0
	}
	if !ok {
		if pendingStuck == "" {
			reportStuck(o, p, "the scenario did not complete: "+sched)
		}
		return "stuck", 0
	}
	if crashed {
		return restartAndCheck(o, p, n.survivingState(), "crash after the cancelled write and its successor", sched), 0
	}
	return restartAndCheck(o, p, surv{mem: n.mem, walDir: n.walDir}, "graceful", sched), 0
}

func blockedIn(fn string) bool {
	buf := make([]byte, 1<<20)
	n := runtime.Stack(buf, true)
	for _, g := range strings.Split(string(buf[:n]), "\n\n") {
		if strings.Contains(g, fn) && strings.HasPrefix(g[strings.Index(g, "[")+1:], "select") {
			return true
		}
	}
	return false
}

// tail leg: a node whose WAL ends with entries that were never committed (synced on the old leader, never
// acknowledged by anybody) is elected. BecomeLeader cannot complete: its followers do not acknowledge, and the
// coordinator gives up (the request's context ends). Whatever BecomeLeader did before it returned, the DB must not
// hold more than what the node was told to be committed. Then a later term makes the node a follower of a replica
// with the shorter log: Truncate to the committed prefix, different entries at the offsets of the old tail.
func runTailCase(o *hx.Out, p params) (string, int64) {
	r := hx.NewRng(p.wseed)
	g := &wgen{r: r.Fork()}
	committed := 1 + r.Intn(4) // entries 0..committed-1 are committed and applied
	tail := 1 + r.Intn(3)
	k := int64(committed - 1)
	sched := fmt.Sprintf("term 1: leader (rf 3) applies 0..%d, then %d more writes reach its WAL and are never acknowledged; restart; term 2: BecomeLeader with two followers at head %d "+
		"that never acknowledge, the request's context ends; term 3: the node is a follower, Truncate to (1,%d), %d new entries at the offsets of the old tail, all advertised as committed",
		k, tail, k, k, tail)

	// --- term 1
	n := newNode(surv{}, -1, "p", 100, true)
	n.kvf.setPhase("term1")
	lr, err := startLeader(n, 3, 1, server.InvalidEntryId)
	if err != nil {
		lr.close()
		controllerFailed(o, p, "a leader on an empty node", err)
		return "start-error", 0
	}
	ok := true
	do := func(s step) {
		if ok {
			ok = lr.exec(s)
		}
	}
	for i := 0; i < committed; i++ {
		do(step{kind: "W", req: plainWrite(g, o)})
	}
	do(step{kind: "Q"})
	for i := 0; i < tail; i++ {
		do(step{kind: "W", req: plainWrite(g, o)})
	}
	do(step{kind: "S", upto: lr.issued})
	told := int64(-1) // the highest commit offset this node was ever told
	if st, e := lr.lc.GetStatus(&proto.GetStatusRequest{Shard: shardId}); e == nil {
		told = st.CommitOffset
	}
	lr.close()
	checkLive(o, p, n.kvf.takeLog(), sched)
	if lr.refused || !ok {
		if !lr.refused && pendingStuck == "" {
			reportStuck(o, p, "term 1 of the scenario did not complete: "+sched)
		}
		return "stuck", 0
	}
	st := surv{mem: n.mem, walDir: n.walDir}

	// --- term 2: elected, cannot reach its quorum
	n2 := newNode(st, -1, "p", 100, false)
	n2.kvf.setPhase("term2-becomeleader")
	rpc := newRpcStub()
	lc, err := server.NewLeaderController(srvConfig, ns, shardId, rpc, n2.walf, n2.kvf)
	if err != nil {
		controllerFailed(o, p, "the restarted node", err)
		n2.closeFactories()
		return "open-error", 0
	}
	if _, err = lc.NewTerm(&proto.NewTermRequest{Namespace: ns, Shard: shardId, Term: 2}); err != nil {
		controllerFailed(o, p, "NewTerm(2)", err)
	}
	ctx, cancel := context.WithCancel(context.Background())
	bl := make(chan error, 1)
	go func() {
		head := &proto.EntryId{Term: 1, Offset: k}
		_, e := lc.BecomeLeader(ctx, &proto.BecomeLeaderRequest{Namespace: ns, Shard: shardId, Term: 2, ReplicationFactor: 3,
			FollowerMaps: map[string]*proto.EntryId{"f0": head, "f1": head}})
		bl <- e
	}()
	// the coordinator gives up once BecomeLeader waits for its quorum (bounded: if that point is never observed the
	// request is ended all the same)
	waitFor(2*time.Second, func() bool { return blockedIn("quorumAckTracker).WaitForCommitOffset(") || len(bl) > 0 })
	cancel()
	var blErr error
	select {
	case blErr = <-bl:
	case <-time.After(stepTimeout):
		reportStuck(o, p, "BecomeLeader does not return after its context ended: "+sched)
	}
	c2 := n2.kvf.current().commit
	res := fmt.Sprintf("told=%d becomeleader-error=%v commit-after=%d ", told, blErr != nil, c2)
	if blErr != nil && c2 > told {
		o.Violation("apply:beyond-advertised-commit", fmt.Sprintf("tail %s: BecomeLeader failed (%v) but the DB's commit offset is %d; the highest commit offset this node was ever told is %d (entries %d..%d of its WAL were never committed); schedule [%s]",
			p.String(), blErr, c2, told, told+1, c2, sched))
	}
	lc.Close()
	n2.closeFactories()
	checkLive(o, p, n2.kvf.takeLog(), sched)
	if blErr == nil {
		// (cannot happen with followers that never acknowledge; nothing more to check in this scenario)
		return res + "becomeleader-succeeded", 0
	}

	// --- term 3: follower of a replica with the shorter log
	n3 := newNode(st, -1, "p", 100, false)
	n3.kvf.setPhase("term3-follower")
	fc, err := server.NewFollowerController(srvConfig, ns, shardId, n3.walf, n3.kvf)
	if err != nil {
		controllerFailed(o, p, "the node as a follower", err)
		n3.closeFactories()
		return res + "open-error", 0
	}
	if _, err = fc.NewTerm(&proto.NewTermRequest{Namespace: ns, Shard: shardId, Term: 3}); err != nil {
		controllerFailed(o, p, "NewTerm(3)", err)
	}
	tr, err := fc.Truncate(&proto.TruncateRequest{Namespace: ns, Shard: shardId, Term: 3, HeadEntryId: &proto.EntryId{Term: 1, Offset: k}})
	if err == nil {
		if c := n3.kvf.current().commit; c > tr.HeadEntryId.Offset {
			o.Violation("crash:commit-ahead-of-log", fmt.Sprintf("tail %s: after Truncate to (1,%d) the log ends at %d, the commit offset stored in the DB is %d; schedule [%s]",
				p.String(), k, tr.HeadEntryId.Offset, c, sched))
		}
		ls := newLeaderStub()
		attachStream(fc, ls)
		for i := 0; i < tail; i++ {
			off := k + 1 + int64(i)
			e := makeEntryAt(3, off, &proto.WriteRequest{Shard: ptr(shardId), Puts: []*proto.PutRequest{{Key: fmt.Sprintf("term3-%d", off), Value: []byte("new")}}})
			ls.in <- &proto.Append{Term: 3, Entry: e, CommitOffset: k + int64(tail)}
		}
		// bounded wait, no verdict attached to it: the fold check after the restart decides
		waitFor(time.Second, func() bool { return ls.maxAck() >= k+int64(tail) && fc.CommitOffset() >= k+int64(tail) })
		waitFor(stepTimeout, followerQuiescent)
		ls.cancel()
	} else {
		res += fmt.Sprintf("truncate-error=%v ", err)
	}
	closeFollower(fc)
	n3.closeFactories()
	checkLive(o, p, n3.kvf.takeLog(), sched)
	p.restart = "follower"
	return res + restartAndCheck(o, p, st, "graceful, after term 3", sched), 0
}
