// harness crash: crash-atomic, exactly-once, in-order log application (property C07).
//
// Real kv.DB / LeaderController / FollowerController of /repo run on Pebble's strict in-memory
// filesystem (through the verif FS hook of server/kv) and a real WAL directory. A workload is run up
// to a chosen crash instant (an index into the sequence of state-changing filesystem / WAL
// operations), the unsynced state is dropped, real controllers are restarted on what survived, and
// the specification is evaluated directly:
//
//	crash:commit-ahead-of-log      the commit offset stored in the DB exceeds the head of the surviving log
//	crash:db-not-fold-of-prefix    the DB differs from a fresh DB that applied log entries 0..c in order
//	crash:entry-applied-twice      replay applied an offset <= the commit offset already stored
//	crash:entry-skipped            replay did not start at c+1 / skipped an offset / stopped before the head
//	(live phases also report crash:entry-skipped / crash:entry-applied-twice: what a crash at that moment leaves)
//	apply:out-of-offset-order      a live application (leader pipeline, follower round) was not at commit+1
//	apply:beyond-advertised-commit a follower applied an entry above the commit offset advertised by the leader
package main

import (
	"flag"
	"fmt"
	"os"
	"path/filepath"
	"sort"
	"strconv"
	"strings"
	"time"

	"verif/harness/internal/hx"
)

type params struct {
	leg     string
	wseed   uint64
	rf      int
	nw      int
	crashAt int64
	mode    string
	cut     int
	restart string // leader | follower
}

func (p params) String() string {
	return fmt.Sprintf("wseed=%d rf=%d nw=%d crash=%d mode=%s cut=%d restart=%s", p.wseed, p.rf, p.nw, p.crashAt, p.mode, p.cut, p.restart)
}

func parseParams(leg string, s string) params {
	p := params{leg: leg, rf: 1, nw: 8, crashAt: -1, mode: "p", restart: "leader"}
	for _, f := range strings.Fields(s) {
		kv := strings.SplitN(f, "=", 2)
		if len(kv) != 2 {
			continue
		}
		switch kv[0] {
		case "wseed":
			p.wseed, _ = strconv.ParseUint(kv[1], 10, 64)
		case "rf":
			p.rf, _ = strconv.Atoi(kv[1])
		case "nw":
			p.nw, _ = strconv.Atoi(kv[1])
		case "crash":
			p.crashAt, _ = strconv.ParseInt(kv[1], 10, 64)
		case "mode":
			p.mode = kv[1]
		case "cut":
			p.cut, _ = strconv.Atoi(kv[1])
		case "restart":
			p.restart = kv[1]
		}
	}
	return p
}

// kinds of scenario (legs) of which a case has already failed all its attempts in this process: a tree that really
// hangs there must not cost three long attempts per case
var hangingLegs = map[string]bool{}
var hangCount = map[string]int{}

// wall time spent in second and third attempts; once it is used up every case gets a single attempt, so that a tree
// that really hangs everywhere still ends well within the leg's timeout
var retrySpent time.Duration

const retryBudget = 150 * time.Second

func runCase(o *hx.Out, p params) (result string, total int64) {
	scales := []time.Duration{1, 4, 10}
	if hangingLegs[p.leg] || retrySpent > retryBudget {
		scales = scales[:1]
	}
	defer func() { stepTimeout = baseStepTimeout }()
	first := ""
	for i, sc := range scales {
		stepTimeout = baseStepTimeout * sc
		pendingStuck = ""
		if i > 0 {
			cleanTmp()
		}
		t0 := time.Now()
		result, total = runCase1(o, p)
		if i > 0 {
			retrySpent += time.Since(t0)
		}
		if pendingStuck == "" {
			if i > 0 {
				o.Count(fmt.Sprintf("schedule-completed-at-attempt-%d", i+1))
				fmt.Fprintf(os.Stderr, "completed at attempt %d: %s\n", i+1, first)
			}
			return result, total
		}
		if first == "" {
			first = pendingStuck
		}
	}
	// no attempt completed: a verdict only if the machine is not starved right now
	if late := schedulingLateness(); late > 200*time.Millisecond {
		o.Count("machine-late(no-verdict)")
		fmt.Fprintf(os.Stderr, "not completed, machine late by %v (no verdict): %s\n", late, pendingStuck)
	} else {
		o.Violation("correspondence:schedule-not-realisable", fmt.Sprintf("%s (all %d attempts, bounds up to %v per step; scheduling lateness now %v)",
			pendingStuck, len(scales), stepTimeout, late))
		hangingLegs[p.leg] = true
		hangCount[p.leg]++
	}
	pendingStuck = ""
	return result, total
}

// schedulingLateness: how much later than asked does a 5 ms sleep return, at worst, over a short series (a machine
// whose runnable goroutines wait for hundreds of milliseconds makes every bounded wait of the harness meaningless).
func schedulingLateness() time.Duration {
	var worst time.Duration
	// the WAL of the node under test is on a real disk, shared with whatever else runs on the machine
	for i := 0; i < 3; i++ {
		t0 := time.Now()
		if f, err := os.CreateTemp(tmpRoot, "probe"); err == nil {
			f.Write(make([]byte, 4096))
			f.Sync()
			f.Close()
			os.Remove(f.Name())
		}
		if d := time.Since(t0); d > worst {
			worst = d
		}
	}
	for i := 0; i < 40; i++ {
		t0 := time.Now()
		time.Sleep(5 * time.Millisecond)
		if d := time.Since(t0) - 5*time.Millisecond; d > worst {
			worst = d
		}
	}
	return worst
}

func runCase1(o *hx.Out, p params) (result string, total int64) {
	switch p.leg {
	case "leader":
		return runLeaderCase(o, p)
	case "follower":
		return runFollowerCase(o, p)
	case "reelect":
		return runReelectCase(o, p)
	case "snapshot":
		return runSnapshotCase(o, p)
	case "overlap":
		return runOverlapCase(o, p)
	case "cancel":
		return runCancelCase(o, p)
	case "tail":
		return runTailCase(o, p)
	case "trim":
		return runTrimCase(o, p)
	}
	panic("unknown leg " + p.leg)
}

var lastRecord = time.Now()

func record(o *hx.Out, p params, res string) {
	if d := time.Since(lastRecord); d > 300*time.Millisecond && os.Getenv("C07_LEAKDBG") != "" {
		fmt.Fprintln(os.Stderr, "SLOW", d, p.leg, p.String(), "=>", res)
	}
	lastRecord = time.Now()
	lastCase = p.leg + " " + p.String() + " => " + res
	noteLeaks(o)
	nt := ""
	if p.crashAt >= 0 {
		nt = p.String()
	}
	o.Case(p.leg, p.String(), res, nt)
}

// startOps is set by a leg when its controller is up: the operations before it are the ones of opening the
// database and the WAL (they are sampled too, but thinly).
var startOps int64

// crashPoints picks the crash instants for a workload with total operations. The number of random draws is
// fixed (k), whatever total and start are: the run stays reproducible although Pebble's background work makes
// the operation count of a workload vary by an operation or two between runs.
func crashPoints(r *hx.Rng, total int64, start int64, k int, all bool) []int64 {
	fr := make([]uint64, k)
	for i := range fr {
		fr[i] = r.U64()
	}
	if all || int64(k) >= total {
		res := make([]int64, total)
		for i := range res {
			res[i] = int64(i)
		}
		return res
	}
	if start <= 0 || start >= total {
		start = 0
	}
	seen := map[int64]bool{}
	var res []int64
	add := func(i int64) {
		if i >= total {
			i = total - 1
		}
		for ; i >= 0 && seen[i]; i-- {
		}
		if i >= 0 {
			seen[i] = true
			res = append(res, i)
		}
	}
	early := k / 6
	if start == 0 {
		early = 0
	}
	span := total - start
	rest := k - early
	for i := 0; i < k; i++ {
		if i < early {
			add(int64(fr[i] % uint64(start)))
		} else {
			// stratified over the part of the run in which the workload executes
			j := int64(i - early)
			lo := start + j*span/int64(rest)
			w := span/int64(rest) + 1
			add(lo + int64(fr[i]%uint64(w)))
		}
	}
	sort.Slice(res, func(a, b int) bool { return res[a] < res[b] })
	return res
}

// The process never lives as long as a session of the code under test (5 minutes, the maximum a client can ask
// for): whatever timer of a controller the harness has already closed is still pending cannot fire in it.
const maxProcessLife = 4 * time.Minute

var processStart = time.Now()

func main() {
	part := flag.Int("part", 0, "thorough runs are split into parts, one process each; the part number perturbs the seed")
	fl := hx.ParseFlags()
	root := os.Getenv("VERIF_TMP")
	if root == "" {
		root = "/var/tmp"
	}
	var err error
	tmpRoot, err = os.MkdirTemp(root, "crash-")
	hx.Must(err)
	defer os.RemoveAll(tmpRoot)
	o := hx.NewOut(fl.OutDir)
	defer o.Close()
	thorough := fl.Tier == "thorough"

	runLine := func(line string) {
		f := strings.SplitN(strings.TrimSpace(line), " ", 3)
		if len(f) < 3 {
			return
		}
		p := parseParams(f[0], f[2])
		res, _ := runCase(o, p)
		record(o, p, res)
		cleanTmp()
	}
	for _, l := range hx.CorpusLines(fl.Corpus) {
		runLine(l)
	}
	if fl.Replay != "" {
		for _, l := range hx.ReadLines(fl.Replay) {
			runLine(l)
		}
		return
	}

	rng := hx.NewRng(fl.Seed + uint64(*part)*1000003)
	// the budget -n is the number of crash instants explored (restarts of real controllers)
	budget := fl.N
	legs := []struct {
		leg   string
		share int
	}{{"leader", 49}, {"follower", 34}, {"reelect", 8}, {"snapshot", 7}, {"overlap", 2}, {"cancel", 1}, {"tail", 1}, {"trim", 1}}
	cum := 0
	for _, lg := range legs {
		t0 := time.Now()
		// every leg gets its share of the process's life
		cum += lg.share
		legDeadline := processStart.Add(maxProcessLife * time.Duration(cum) / 100)
		legBudget := budget * lg.share / 100
		r := rng.Fork()
		perWorkload := 12
		if thorough {
			perWorkload = 1 << 30
		}
		for used := 0; used < legBudget; {
			if time.Now().After(legDeadline) {
				o.Count("stopped:process-life-limit:" + lg.leg)
				break
			}
			if hangCount[lg.leg] >= 3 {
				o.Count("stopped:schedules-do-not-complete:" + lg.leg)
				break
			}
			p := params{leg: lg.leg, wseed: r.U64() >> 1, crashAt: -1, mode: "p", restart: "leader"}
			p.rf = []int{1, 1, 3, 3, 5}[r.Intn(5)]
			p.nw = 4 + r.Intn(12)
			// dry run: no crash, counts the operations and checks the graceful path
			startOps = 0
			res, total := runCase(o, p)
			record(o, p, res)
			cleanTmp()
			used++
			if total <= 0 {
				continue
			}
			k := perWorkload
			if legBudget-used < k {
				k = legBudget - used
			}
			wr := r.Fork() // everything about this workload's crash instants comes from its own generator
			kk := k
			if thorough {
				kk = 16
			}
			for _, cp := range crashPoints(wr, total, startOps, kk, thorough) {
				if time.Now().After(legDeadline) {
					break
				}
				q := p
				q.crashAt = cp
				pr := hx.NewRng(p.wseed ^ uint64(cp)*0x9E3779B97F4A7C15)
				q.mode = []string{"p", "p", "k"}[pr.Intn(3)]
				q.cut = []int{0, 100, 50, pr.Intn(101)}[pr.Intn(4)]
				q.restart = []string{"leader", "follower"}[pr.Intn(2)]
				res, _ := runCase(o, q)
				record(o, q, res)
				cleanTmp()
				used++
			}
		}
		o.Extra["seconds:"+lg.leg] = time.Since(t0).Seconds()
	}
}

// called between cases: no controller of the harness is open
func noteLeaks(o *hx.Out) {
	if l := leakedSessions(); l > leaksSeen {
		if os.Getenv("C07_LEAKDBG") != "" {
			fmt.Fprintln(os.Stderr, "LEAK after", lastCase, l-leaksSeen)
		}
		o.CountN("leaked-session-goroutines(closed-controller)", l-leaksSeen)
		leaksSeen = l
	}
}

var leaksSeen int
var lastCase string

func cleanTmp() {
	ms, _ := filepath.Glob(filepath.Join(tmpRoot, "*"))
	for _, m := range ms {
		os.RemoveAll(m)
	}
}
