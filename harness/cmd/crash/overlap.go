package main

import (
	"fmt"
	"sync"
	"time"

	"github.com/oxia-db/oxia/proto"
	"github.com/oxia-db/oxia/server"

	"verif/harness/internal/hx"
)

// overlap leg: two writes n and n+1 are in flight on a leader with rf 3 or 5, both synced and waiting for
// their quorum. The followers of one group acknowledge n: the tracker releases n and its application
// (db.ProcessWrite) starts on the goroutine of the cursor that delivered the last of these acks; the
// harness holds that application at its first DB access (NewWriteBatch). WHILE it is held, the followers of
// the other group acknowledge n+1, each on its own cursor goroutine. The observation is made through the
// gate: does a second application (the one of n+1) reach the DB while the one of n is held?
//   - code in which the release of waiting requests runs under the tracker mutex: the acks of n+1 wait for
//     the mutex, no second application shows up within the (generous, bounded) observation window = "did not
//     start"; the held application is released and both run in order;
//   - otherwise n+1 is applied first: the DB holds commit offset n+1 without entry n. A crash image is taken
//     in that window (after a flush that Pebble may do at any time), then n is released, lands on top and
//     takes the stored commit offset back to n.

type holdGate struct {
	mu       sync.Mutex
	armed    bool
	holding  bool
	parked   chan struct{}
	release  chan struct{}
	second   chan struct{}
	secondOn bool
}

func newHoldGate() *holdGate {
	return &holdGate{parked: make(chan struct{}), release: make(chan struct{}), second: make(chan struct{})}
}

func (h *holdGate) hook(int) {
	h.mu.Lock()
	switch {
	case h.armed:
		h.armed = false
		h.holding = true
		h.mu.Unlock()
		close(h.parked)
		<-h.release
		h.mu.Lock()
		h.holding = false
		h.mu.Unlock()
		return
	case h.holding && !h.secondOn:
		h.secondOn = true
		close(h.second)
	}
	h.mu.Unlock()
}

func runOverlapCase(o *hx.Out, p params) (string, int64) {
	r := hx.NewRng(p.wseed)
	g := &wgen{r: r.Fork()}
	rf := 3
	if p.rf >= 5 {
		rf = 5
	}
	required := rf / 2
	before := r.Intn(4)
	crashInWindow := r.Bool()
	sched := fmt.Sprintf("rf=%d: %d writes applied; writes n,n+1 synced and waiting; followers 0..%d acknowledge n, its application is held at its first DB access; "+
		"followers %d..%d acknowledge n+1 on their own cursors; crash image in the window=%v; held application released",
		rf, before, required-1, required, 2*required-1, crashInWindow)

	n := newNode(surv{}, -1, "p", 100, true)
	n.kvf.setPhase("live")
	lr, err := startLeader(n, rf, 1, server.InvalidEntryId)
	if err != nil {
		lr.close()
		controllerFailed(o, p, "a leader on an empty node", err)
		return "start-error", 0
	}
	ok := true
	do := func(s step) {
		if ok {
			ok = lr.exec(s)
		}
	}
	for i := 0; i < before; i++ {
		do(step{kind: "W", req: plainWrite(g, o)})
	}
	do(step{kind: "Q"})
	x := lr.issued + 1 // = n
	do(step{kind: "W", req: plainWrite(g, o)})
	do(step{kind: "W", req: plainWrite(g, o)})
	do(step{kind: "S", upto: x + 1})
	// every follower has been sent n+1 before the application of n is held: the held application keeps the tracker
	// mutex (that is the point of the scenario), and a cursor that still has to wait for the head offset needs that
	// mutex to go on sending
	for f := 0; f < rf-1 && ok; f++ {
		name := followerName(f)
		ok = waitFor(stepTimeout, func() bool { s := lr.rpc.get(name); return s != nil && s.lastPushed() >= x+1 })
	}

	hg := newHoldGate()
	released := false
	release := func() {
		if !released {
			released = true
			close(hg.release)
		}
	}
	push := func(f int, upto int64) bool {
		name := followerName(f)
		if !waitFor(stepTimeout, func() bool { s := lr.rpc.get(name); return s != nil && s.lastPushed() >= upto }) {
			return false
		}
		s := lr.rpc.get(name)
		for off := lr.acked[f] + 1; off <= upto; off++ {
			s.acks <- &proto.Ack{Offset: off}
		}
		if upto > lr.acked[f] {
			lr.acked[f] = upto
		}
		return true
	}
	started := "-"
	if ok {
		hg.armed = true
		n.kvf.mu.Lock()
		n.kvf.beforeBatch = hg.hook
		n.kvf.mu.Unlock()
		// group A: the last of its acks completes the quorum of n; that cursor's goroutine carries the application
		for f := 0; f < required-1 && ok; f++ {
			ok = lr.ack(f, x)
		}
		ok = ok && push(required-1, x)
		if ok {
			select {
			case <-hg.parked:
			case <-time.After(stepTimeout):
				ok = false
				reportStuck(o, p, "the application of offset n does not start although its quorum is complete: "+sched)
			}
		}
	}
	if ok {
		// group B: acks of n and n+1, each follower on its own cursor goroutine, while n is held
		for f := required; f < 2*required; f++ {
			ok = ok && push(f, x+1)
		}
		select {
		case <-hg.second:
			started = "yes"
			// let the application of n+1 finish: the DB then holds commit offset n+1 without entry n
			waitFor(2*time.Second, func() bool {
				n.kvf.mu.Lock()
				defer n.kvf.mu.Unlock()
				return n.kvf.cur != nil && n.kvf.cur.commit >= x+1
			})
		case <-time.After(250 * time.Millisecond):
			// bounded observation window: no second application reached the DB = it did not start
			started = "no"
		}
		if crashInWindow {
			if k := n.kvf.current(); k != nil {
				k.KV.Flush() // Pebble may flush its memtable at any moment
			}
			n.clk.crashNow("overlap-window")
		}
	}
	release()
	if ok {
		lr.n.g.openAll()
		for f := range lr.acked {
			if !push(f, x+1) {
				ok = false
			}
		}
		waitFor(stepTimeout, func() bool { return lr.done.Load() >= lr.nIssued })
	}
	waitFor(stepTimeout, func() bool {
		return !goroutineRunning("main.(*holdGate).hook") && !goroutineRunning("kv.(*db).ProcessWrite")
	})
	o.Count("overlap:second-application-while-first-held=" + started)
	o.Count(fmt.Sprintf("overlap:rf=%d", rf))
	crashed := n.clk.isCrashed()
	lr.close()
	checkLive(o, p, n.kvf.takeLog(), sched)
	if lr.refused {
		o.Count("request-refused-by-leader")
		return "refused", 0
	}
	if !ok {
		if pendingStuck == "" {
			reportStuck(o, p, "the overlap scenario did not complete: "+sched)
		}
		return "stuck", 0
	}
	res := fmt.Sprintf("rf=%d n=%d second-application-while-first-held=%s ", rf, x, started)
	if crashed {
		o.Count("overlap:crash-in-window")
		return res + restartAndCheck(o, p, n.survivingState(), "crash while the application of n was held", sched), 0
	}
	return res + restartAndCheck(o, p, surv{mem: n.mem, walDir: n.walDir}, "graceful", sched), 0
}

// plainWrite: a request that goes through the ordinary Write path (no session record: CreateSession blocks).
func plainWrite(g *wgen, o *hx.Out) *proto.WriteRequest {
	for {
		w := g.next(nil)
		if len(w.Puts) == 1 && len(w.Puts[0].Key) > 6 && w.Puts[0].Key[:7] == "__oxia/" {
			g.nextOff-- // not issued
			g.sessions = g.sessions[:len(g.sessions)-1]
			continue
		}
		if o != nil {
			o.Count("write:overlap-leg")
		}
		return w
	}
}
