package main

import (
	"fmt"
	"runtime"
	"strings"
	"sync"

	"github.com/oxia-db/oxia/proto"
	"github.com/oxia-db/oxia/server"

	"verif/harness/internal/hx"
)

// follower leg: the harness is the leader of a real FollowerController. It appends entries with an
// advertised commit offset that lags behind, lets WAL sync rounds (and thereby apply rounds) happen
// at chosen moments, flushes the DB at chosen moments, changes the term, and crashes at a chosen
// filesystem / WAL operation.

type fstep struct {
	kind string // P Y F N Q
	adv  int64
	req  *proto.WriteRequest
	off  int64
}

func followerSchedule(r *hx.Rng, o *hx.Out, n int) []fstep {
	g := &wgen{r: r.Fork()}
	var st []fstep
	off, adv := int64(-1), int64(-1)
	for int(off)+1 < n {
		x := r.Intn(100)
		switch {
		case x < 50:
			off++
			// the leader's commit offset at send time: anything between the previous one and the entry before this one
			if off-1 > adv && r.Chance(70) {
				adv += 1 + int64(r.Intn(int(off-1-adv)))
			}
			st = append(st, fstep{kind: "P", adv: adv, req: g.next(o), off: off})
		case x < 75:
			st = append(st, fstep{kind: "Y"})
		case x < 90:
			st = append(st, fstep{kind: "F"})
		case x < 96:
			st = append(st, fstep{kind: "N"})
		}
	}
	st = append(st, fstep{kind: "Q"})
	return st
}

func fmtFSteps(st []fstep) string {
	s := ""
	for _, x := range st {
		if x.kind == "P" {
			s += fmt.Sprintf("P%d(adv %d) ", x.off, x.adv)
		} else {
			s += x.kind + " "
		}
	}
	return s
}

type followerRun struct {
	n      *node
	fc     server.FollowerController
	ls     *leaderStub
	term   int64
	maxAdv int64
	lastAd int64
	sent   int64
	// the last Y / Q step found nothing to sync (no macro of the model corresponds to it)
	skipped bool
	why     string
}

func (fr *followerRun) headOffset() int64 {
	st, err := fr.fc.GetStatus(&proto.GetStatusRequest{Shard: shardId})
	if err != nil {
		return -2
	}
	return st.HeadOffset
}

func (fr *followerRun) newStream() {
	if fr.ls != nil {
		fr.ls.cancel()
		// the previous Replicate call has to return before the follower accepts a new stream
		waitFor(stepTimeout, func() bool { return fr.ls.closed.Load() })
	}
	fr.ls = newLeaderStub()
	attachStream(fr.fc, fr.ls)
}

func (fr *followerRun) expectedCommit() int64 {
	synced, _ := fr.n.walf.current().heads()
	e := fr.lastAd
	if synced < e {
		e = synced
	}
	return e
}

func (fr *followerRun) exec(o *hx.Out, s fstep) bool {
	fr.why = ""
	ok := fr.exec0(o, s)
	if !ok && fr.why == "" {
		fr.why = "the step's own completion condition"
	}
	if !waitLive(fr.n, stepTimeout, followerQuiescent) {
		if fr.why == "" {
			fr.why = "the follower's sync/apply loops do not come to rest:\n" + loopStacks()
		}
		return false
	}
	return ok
}

func loopStacks() string {
	buf := make([]byte, 1<<20)
	n := runtime.Stack(buf, true)
	var res []string
	for _, g := range strings.Split(string(buf[:n]), "\n\n") {
		if strings.Contains(g, "followerController).applyAllCommittedEntries") || strings.Contains(g, "followerController).handleReplicateSync") {
			l := strings.Split(g, "\n")
			if len(l) > 9 {
				l = l[:9]
			}
			res = append(res, strings.Join(l, " | "))
		}
	}
	return strings.Join(res, "\n")
}

func (fr *followerRun) exec0(o *hx.Out, s fstep) bool {
	switch s.kind {
	case "P":
		fr.ls.in <- &proto.Append{Term: fr.term, Entry: makeEntryAt(fr.term, s.off, s.req), CommitOffset: s.adv}
		fr.sent = s.off
		fr.lastAd = s.adv
		if s.adv > fr.maxAdv {
			fr.maxAdv = s.adv
		}
		return waitFor(stepTimeout, func() bool { return fr.headOffset() >= s.off })
	case "Y":
		w := fr.n.walf.current()
		synced, appended := w.heads()
		if synced >= appended {
			fr.skipped = true
			return true
		}
		fr.n.g.addToken()
		if !waitFor(stepTimeout, func() bool { s, _ := w.heads(); return s >= appended }) {
			return false
		}
		want := fr.expectedCommit()
		return waitFor(stepTimeout, func() bool { return fr.fc.CommitOffset() >= want })
	case "F":
		if k := fr.n.kvf.current(); k != nil {
			return k.KV.Flush() == nil
		}
	case "N":
		fr.term++
		if _, err := fr.fc.NewTerm(&proto.NewTermRequest{Namespace: ns, Shard: shardId, Term: fr.term}); err != nil {
			fr.why = "NewTerm: " + err.Error()
			return false
		}
		fr.newStream()
	case "Q":
		w := fr.n.walf.current()
		for i := 0; i < 3; i++ {
			synced, appended := w.heads()
			if synced >= appended {
				fr.skipped = i == 0
				break
			}
			fr.n.g.addToken()
			waitFor(stepTimeout, func() bool { s, _ := w.heads(); return s >= appended })
		}
		want := fr.expectedCommit()
		return waitFor(stepTimeout, func() bool { return fr.fc.CommitOffset() >= want })
	}
	return true
}

func (fr *followerRun) close() {
	if fr.ls != nil {
		fr.ls.cancel()
	}
	fr.n.g.openAll()
	closeFollower(fr.fc)
	fr.n.closeFactories()
}

// attachStream starts Replicate on the stub stream and returns once the follower serves it (Replicate must not
// be entered after a Close: it dereferences the WAL that Close sets to nil). The channel is closed when
// Replicate returns.
func attachStream(fc server.FollowerController, ls *leaderStub) chan struct{} {
	done := make(chan struct{})
	var mu sync.Mutex
	entered, abandoned := false, false
	go func() {
		defer close(done)
		mu.Lock()
		if abandoned {
			mu.Unlock()
			ls.closed.Store(true)
			return
		}
		entered = true
		mu.Unlock()
		fc.Replicate(ls)
		ls.closed.Store(true)
	}()
	attached := func() bool {
		return ls.closed.Load() || (goroutineRunning("followerController).handleServerStream") && goroutineRunning("followerController).handleReplicateSync"))
	}
	if !waitFor(stepTimeout, attached) {
		mu.Lock()
		if !entered {
			// the goroutine has not been scheduled yet (busy machine): it will not call Replicate any more
			abandoned = true
			mu.Unlock()
			return done
		}
		mu.Unlock()
		// Replicate has been entered: it must get to serve the stream (or return) before anything else happens
		waitFor(10*stepTimeout, attached)
	}
	return done
}

// closeFollower: FollowerController.Close does not wait for the goroutines serving the replication
// stream (they dereference fc.wal, which Close sets to nil), so the harness lets them end first.
func closeFollower(fc server.FollowerController) {
	if fc == nil {
		return
	}
	waitFor(stepTimeout, func() bool {
		return !goroutineRunning("followerController).handleReplicateSync") && !goroutineRunning("followerController).handleServerStream")
	})
	fc.Close()
}

// followerQuiescent: the follower's apply loop is blocked waiting for its signal, and every sync loop is
// either blocked waiting for its signal or parked at the harness gate. runtime.Stack(all) is a consistent
// snapshot, and a goroutine that has been signalled is no longer in state "select": so when this holds
// nothing that the previous step triggered is still on its way (no apply round can show up late).
func followerQuiescent() bool {
	buf := make([]byte, 1<<20)
	n := runtime.Stack(buf, true)
	for _, g := range strings.Split(string(buf[:n]), "\n\n") {
		blockedInWait := strings.Contains(g, "conditionContext).Wait") && strings.HasPrefix(g[strings.Index(g, "[")+1:], "select")
		switch {
		case strings.Contains(g, "followerController).applyAllCommittedEntries"):
			if !blockedInWait {
				return false
			}
		case strings.Contains(g, "followerController).handleReplicateSync"):
			if !blockedInWait && !strings.Contains(g, "main.(*gate).takeToken") {
				return false
			}
		}
	}
	return true
}

func goroutineRunning(fn string) bool {
	buf := make([]byte, 1<<20)
	n := runtime.Stack(buf, true)
	return strings.Contains(string(buf[:n]), fn)
}

func makeEntryAt(term, offset int64, w *proto.WriteRequest) *proto.LogEntry {
	e := makeEntry(term, offset, w)
	e.Timestamp = uint64(1700000000000 + offset*7)
	return e
}

func runFollowerCase(o *hx.Out, p params) (string, int64) {
	r := hx.NewRng(p.wseed)
	var cnt *hx.Out
	if p.crashAt < 0 {
		cnt = o
	}
	steps := followerSchedule(r, cnt, p.nw)
	sched := fmtFSteps(steps)
	n := newNode(surv{}, p.crashAt, p.mode, p.cut, true)
	n.kvf.setPhase("live")
	fr := &followerRun{n: n, term: 1, maxAdv: -1, lastAd: -1, sent: -1}
	var err error
	fr.fc, err = server.NewFollowerController(srvConfig, ns, shardId, n.walf, n.kvf)
	if err == nil {
		_, err = fr.fc.NewTerm(&proto.NewTermRequest{Namespace: ns, Shard: shardId, Term: 1})
	}
	if err != nil && !n.clk.isCrashed() {
		panic(fmt.Sprintf("follower start failed: %v", err))
	}
	if p.crashAt < 0 {
		startOps = n.clk.count()
	}
	stuck := ""
	tr := newTracer(n)
	tr.on = err == nil && !n.clk.isCrashed()
	inFlush := false
	if err == nil {
		fr.newStream()
		tr.step("SF")
		for i, s := range steps {
			if n.clk.isCrashed() {
				break
			}
			fr.skipped = false
			ok := fr.exec(o, s)
			if n.clk.isCrashed() {
				inFlush = s.kind == "F" || s.kind == "N"
				if s.kind == "P" {
					tr.pendingAppend = fmt.Sprintf("A:%d", s.adv+1)
				}
			} else if ok && !fr.skipped {
				switch s.kind {
				case "P":
					tr.step(fmt.Sprintf("A:%d", s.adv+1))
				case "Y", "Q":
					tr.step("Y")
				case "F":
					tr.step("F")
				case "N":
					tr.step("Z")
				}
			}
			if c := fr.fc.CommitOffset(); c > fr.maxAdv {
				o.Violation("apply:beyond-advertised-commit", fmt.Sprintf("follower %s: commit offset %d after step %d, the highest commit offset ever advertised by the leader is %d; schedule [%s]",
					p.String(), c, i, fr.maxAdv, sched))
			}
			if !ok && !n.clk.isCrashed() {
				stuck = fmt.Sprintf("step %d (%s) of [%s] did not complete (%s)", i, s.kind, sched, fr.why)
				break
			}
		}
	}
	crashed := n.clk.isCrashed()
	total := n.clk.count()
	fr.close()
	checkLive(o, p, n.kvf.takeLog(), sched)
	if stuck != "" {
		reportStuck(o, p, stuck)
		return "stuck", 0
	}
	if !crashed {
		o.Count("follower:no-crash-run")
		res := restartAndCheck(o, p, surv{mem: n.mem, walDir: n.walDir}, "graceful", sched)
		tr.finish(o, p, false, false)
		return "total=" + fmt.Sprint(total) + " " + res, total
	}
	o.Count("follower:crash@" + n.clk.atKind)
	o.Count("crash-mode:" + p.mode)
	res := restartAndCheck(o, p, n.survivingState(), "crash@"+n.clk.atKind, sched)
	if n.clk.atKind != "db:commit" {
		// (a crash right after a batch commit with a spontaneous flush lands inside a step: no macro for it)
		tr.finish(o, p, true, inFlush)
	}
	return res, total
}
