package main

// In-process stand-ins for the gRPC streams of the replication protocol. The harness plays the remote
// side: for a leader under test it is the followers (it decides when an entry is acknowledged), for a
// follower under test it is the leader (it decides what is appended and which commit offset is advertised).

import (
	"context"
	"errors"
	"io"
	"sync"
	"sync/atomic"

	"google.golang.org/grpc/metadata"

	"github.com/oxia-db/oxia/proto"
)

type streamBase struct{ ctx context.Context }

func (streamBase) SendHeader(metadata.MD) error { return nil }
func (streamBase) SetHeader(metadata.MD) error  { return nil }
func (streamBase) SetTrailer(metadata.MD)       {}
func (streamBase) Header() (metadata.MD, error) { return nil, nil }
func (streamBase) Trailer() metadata.MD         { return nil }
func (streamBase) CloseSend() error             { return nil }
func (streamBase) RecvMsg(any) error            { return nil }
func (streamBase) SendMsg(any) error            { return nil }
func (s streamBase) Context() context.Context   { return s.ctx }

// ---- leader under test: the harness is a follower ----------------------------------------------

type followerStub struct {
	streamBase
	name   string
	mu     sync.Mutex
	pushed []*proto.Append
	acks   chan *proto.Ack
}

func (f *followerStub) Send(a *proto.Append) error {
	if f.ctx.Err() != nil {
		return f.ctx.Err()
	}
	f.mu.Lock()
	f.pushed = append(f.pushed, a)
	f.mu.Unlock()
	return nil
}

func (f *followerStub) Recv() (*proto.Ack, error) {
	select {
	case a := <-f.acks:
		return a, nil
	case <-f.ctx.Done():
		return nil, io.EOF
	}
}

func (f *followerStub) lastPushed() int64 {
	f.mu.Lock()
	defer f.mu.Unlock()
	if len(f.pushed) == 0 {
		return -1
	}
	return f.pushed[len(f.pushed)-1].Entry.Offset
}

type rpcStub struct {
	mu        sync.Mutex
	followers map[string]*followerStub
}

func newRpcStub() *rpcStub { return &rpcStub{followers: map[string]*followerStub{}} }

func (r *rpcStub) GetReplicateStream(ctx context.Context, follower string, _ string, _ int64, _ int64) (proto.OxiaLogReplication_ReplicateClient, error) {
	r.mu.Lock()
	defer r.mu.Unlock()
	f := &followerStub{streamBase: streamBase{ctx}, name: follower, acks: make(chan *proto.Ack, 4096)}
	r.followers[follower] = f
	return f, nil
}

func (r *rpcStub) SendSnapshot(context.Context, string, string, int64, int64) (proto.OxiaLogReplication_SendSnapshotClient, error) {
	return nil, errors.New("harness: snapshots are not sent to stub followers")
}

func (r *rpcStub) Truncate(_ string, req *proto.TruncateRequest) (*proto.TruncateResponse, error) {
	return &proto.TruncateResponse{HeadEntryId: req.HeadEntryId}, nil
}
func (r *rpcStub) Close() error { return nil }

func (r *rpcStub) get(name string) *followerStub {
	r.mu.Lock()
	defer r.mu.Unlock()
	return r.followers[name]
}

// ---- follower under test: the harness is the leader ---------------------------------------------

type leaderStub struct {
	streamBase
	cancel context.CancelFunc
	in     chan *proto.Append
	mu     sync.Mutex
	acked  []int64
	closed atomic.Bool // the Replicate call serving this stream has returned
}

func newLeaderStub() *leaderStub {
	ctx, cancel := context.WithCancel(context.WithValue(context.Background(), gatedSyncKey{}, true))
	return &leaderStub{streamBase: streamBase{ctx}, cancel: cancel, in: make(chan *proto.Append, 4096)}
}

func (l *leaderStub) Send(a *proto.Ack) error {
	l.mu.Lock()
	l.acked = append(l.acked, a.Offset)
	l.mu.Unlock()
	return nil
}

func (l *leaderStub) Recv() (*proto.Append, error) {
	select {
	case a := <-l.in:
		return a, nil
	case <-l.ctx.Done():
		return nil, io.EOF
	}
}

func (l *leaderStub) maxAck() int64 {
	l.mu.Lock()
	defer l.mu.Unlock()
	m := int64(-1)
	for _, a := range l.acked {
		if a > m {
			m = a
		}
	}
	return m
}

// snapshot stream towards a follower under test
type snapshotStub struct {
	streamBase
	chunks []*proto.SnapshotChunk
	pos    int
	resp   chan *proto.SnapshotResponse
	onRecv func(i int) // called before chunk i is handed over (i = len(chunks): end of stream)
}

func (s *snapshotStub) Recv() (*proto.SnapshotChunk, error) {
	if s.onRecv != nil {
		s.onRecv(s.pos)
	}
	if s.pos >= len(s.chunks) {
		return nil, io.EOF
	}
	c := s.chunks[s.pos]
	s.pos++
	return c, nil
}

func (s *snapshotStub) SendAndClose(r *proto.SnapshotResponse) error {
	s.resp <- r
	return nil
}
