package main

// Counting / crash-point filesystem around Pebble's vfs.NewStrictMem().
//
// Every state-changing filesystem operation of the DB (create, write, sync, rename, remove, link,
// mkdir) and every state-changing operation of the shard WAL (see walgate.go) passes through
// clock.tick(); the tick whose index equals clock.crashAt is the crash instant:
//   - power-loss image: StrictMem.SetIgnoreSyncs(true) freezes the durable state, the run is wound
//     down and ResetToSyncedState() drops everything that had not been synced at that instant;
//   - kill image: a deep copy of the whole filesystem as written at that instant (nothing lost that
//     reached the OS, nothing kept that only lived in the process: Pebble runs with DisableWAL).
// In both cases the WAL directory is copied at the same instant together with the synced/appended heads.

import (
	"io"
	"os"
	"sync"

	"github.com/cockroachdb/pebble/vfs"
)

type clock struct {
	mu       sync.Mutex   // serialises ticks
	body     sync.RWMutex // held (R) by op bodies, (W) by the crash instant
	n        int64
	crashAt  int64 // -1: never
	crashed  bool
	onCrash  func()
	preCrash func(kind string)
	inPre    bool
	kinds    map[string]int
	atKind   string
}

func newClock(crashAt int64) *clock { return &clock{crashAt: crashAt, kinds: map[string]int{}} }

// tick marks the boundary *before* a state-changing operation of kind k.
func (c *clock) tick(k string) {
	c.mu.Lock()
	defer c.mu.Unlock()
	if c.crashed || c.inPre {
		// after the crash instant nothing counts; neither do the operations of the pre-crash activity
		return
	}
	if c.n == c.crashAt {
		if c.preCrash != nil {
			// something that may legitimately happen right before the crash instant (a spontaneous flush of
			// the DB after a batch commit); its own operations are not crash instants
			c.inPre = true
			c.mu.Unlock()
			c.preCrash(k)
			c.mu.Lock()
			c.inPre = false
		}
		c.crashed = true
		c.atKind = k
		c.body.Lock() // wait for the operations in progress: the image is taken between operations
		if c.onCrash != nil {
			c.onCrash()
		}
		c.body.Unlock()
	} else {
		c.kinds[k]++
	}
	c.n++
}

// crashNow makes this very moment the crash instant (between two operations, like any other).
func (c *clock) crashNow(kind string) {
	c.mu.Lock()
	defer c.mu.Unlock()
	if c.crashed {
		return
	}
	c.crashed = true
	c.atKind = kind
	c.body.Lock()
	if c.onCrash != nil {
		c.onCrash()
	}
	c.body.Unlock()
}

func (c *clock) isCrashed() bool {
	c.mu.Lock()
	defer c.mu.Unlock()
	return c.crashed
}

func (c *clock) count() int64 {
	c.mu.Lock()
	defer c.mu.Unlock()
	return c.n
}

type countFS struct {
	vfs.FS
	c *clock
}

func (f *countFS) wrap(file vfs.File, err error) (vfs.File, error) {
	if err != nil {
		return nil, err
	}
	return &countFile{File: file, c: f.c}, nil
}

func (f *countFS) Create(name string) (vfs.File, error) {
	f.c.tick("fs:create")
	f.c.body.RLock()
	defer f.c.body.RUnlock()
	return f.wrap(f.FS.Create(name))
}
func (f *countFS) Link(o, n string) error {
	f.c.tick("fs:link")
	f.c.body.RLock()
	defer f.c.body.RUnlock()
	return f.FS.Link(o, n)
}
func (f *countFS) OpenReadWrite(name string, opts ...vfs.OpenOption) (vfs.File, error) {
	f.c.tick("fs:openrw")
	f.c.body.RLock()
	defer f.c.body.RUnlock()
	return f.wrap(f.FS.OpenReadWrite(name, opts...))
}
func (f *countFS) OpenDir(name string) (vfs.File, error) { return f.wrap(f.FS.OpenDir(name)) }
func (f *countFS) Remove(name string) error {
	f.c.tick("fs:remove")
	f.c.body.RLock()
	defer f.c.body.RUnlock()
	return f.FS.Remove(name)
}
func (f *countFS) RemoveAll(name string) error {
	f.c.tick("fs:removeall")
	f.c.body.RLock()
	defer f.c.body.RUnlock()
	return f.FS.RemoveAll(name)
}
func (f *countFS) Rename(o, n string) error {
	f.c.tick("fs:rename")
	f.c.body.RLock()
	defer f.c.body.RUnlock()
	return f.FS.Rename(o, n)
}
func (f *countFS) ReuseForWrite(o, n string) (vfs.File, error) {
	f.c.tick("fs:reuse")
	f.c.body.RLock()
	defer f.c.body.RUnlock()
	return f.wrap(f.FS.ReuseForWrite(o, n))
}
func (f *countFS) MkdirAll(dir string, perm os.FileMode) error {
	f.c.tick("fs:mkdir")
	f.c.body.RLock()
	defer f.c.body.RUnlock()
	return f.FS.MkdirAll(dir, perm)
}

type countFile struct {
	vfs.File
	c *clock
}

func (f *countFile) Write(p []byte) (int, error) {
	f.c.tick("fs:write")
	f.c.body.RLock()
	defer f.c.body.RUnlock()
	return f.File.Write(p)
}
func (f *countFile) WriteAt(p []byte, off int64) (int, error) {
	f.c.tick("fs:writeat")
	f.c.body.RLock()
	defer f.c.body.RUnlock()
	return f.File.WriteAt(p, off)
}
func (f *countFile) Sync() error {
	f.c.tick("fs:sync")
	f.c.body.RLock()
	defer f.c.body.RUnlock()
	return f.File.Sync()
}
func (f *countFile) SyncData() error {
	f.c.tick("fs:sync")
	f.c.body.RLock()
	defer f.c.body.RUnlock()
	return f.File.SyncData()
}
func (f *countFile) SyncTo(n int64) (bool, error) {
	f.c.tick("fs:sync")
	f.c.body.RLock()
	defer f.c.body.RUnlock()
	return f.File.SyncTo(n)
}

// syncDirChain makes dir and all its ancestors durable on a strict MemFS (oxia creates the shard
// directory once at provisioning time; Pebble itself only syncs the database directory, not its parents).
func syncDirChain(fs vfs.FS, dir string) {
	must(fs.MkdirAll(dir, 0o755))
	for d := dir; ; d = fs.PathDir(d) {
		f, err := fs.OpenDir(d)
		must(err)
		must(f.Sync())
		must(f.Close())
		if d == "/" || d == "." || d == "" || fs.PathDir(d) == d {
			break
		}
	}
}

// cloneTree copies every file below dir from src to dst (the "kill" crash image).
func cloneTree(src, dst vfs.FS, dir string) {
	must(dst.MkdirAll(dir, 0o755))
	names, err := src.List(dir)
	if err != nil {
		return
	}
	for _, n := range names {
		p := src.PathJoin(dir, n)
		st, err := src.Stat(p)
		if err != nil {
			continue
		}
		if st.IsDir() {
			cloneTree(src, dst, p)
			continue
		}
		in, err := src.Open(p)
		if err != nil {
			continue
		}
		data, err := io.ReadAll(in)
		must(err)
		in.Close()
		out, err := dst.Create(p)
		must(err)
		_, err = out.Write(data)
		must(err)
		must(out.Sync())
		must(out.Close())
	}
	d, err := dst.OpenDir(dir)
	must(err)
	must(d.Sync())
	d.Close()
}

func must(err error) {
	if err != nil {
		panic(err)
	}
}
