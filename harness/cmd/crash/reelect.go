package main

import (
	"context"
	"fmt"
	"sync"
	"time"

	"github.com/oxia-db/oxia/proto"
	"github.com/oxia-db/oxia/server"

	"verif/harness/internal/hx"
)

// reelect leg: a leader is fenced (NewTerm) and elected again (BecomeLeader) in the same process while
// one of its writes is between "the quorum tracker said: committed" and the ProcessWrite call
// (the application of an entry whose commit is already known at registration time runs outside every
// lock). The schedule parks that application at its first DB access (NewWriteBatch), runs the
// re-election, a few more writes, and then lets the parked application go.
//
// If NewTerm waits for the application (it must not be possible to replay the log while an application
// of the previous term is still on its way) the harness notices that NewTerm does not return and
// releases the application: nothing is forced that the code does not allow.

// crashedCh is closed (shortly after) the crash instant.
func crashedCh(n *node) <-chan struct{} {
	ch := make(chan struct{})
	go func() {
		for i := 0; i < 200000 && !n.clk.isCrashed(); i++ {
			time.Sleep(50 * time.Microsecond)
		}
		close(ch)
	}()
	return ch
}

type parker struct {
	mu      sync.Mutex
	arm     bool
	parked  chan struct{}
	release chan struct{}
}

func (pk *parker) hook(int) {
	pk.mu.Lock()
	if !pk.arm {
		pk.mu.Unlock()
		return
	}
	pk.arm = false
	pk.mu.Unlock()
	close(pk.parked)
	<-pk.release
}

func runReelectCase(o *hx.Out, p params) (string, int64) {
	r := hx.NewRng(p.wseed)
	var cnt *hx.Out
	if p.crashAt < 0 {
		cnt = o
	}
	rf := 1
	if p.rf >= 3 {
		rf = 3
	}
	g := &wgen{r: r.Fork()}
	// (no session records here: a CreateSession whose write is applied while NewTerm closes the session manager
	// registers its session afterwards; such a session outlives the controller and its expiry, minutes later, lists
	// keys through a closed controller - lc.db == nil in a goroutine nobody can recover)
	before := 1 + r.Intn(4)
	after := 1 + r.Intn(3)
	flushAfter := r.Bool()
	sched := fmt.Sprintf("rf=%d: %d writes applied; write %d parked between commit decision and ProcessWrite; NewTerm(2); BecomeLeader(2); %d writes issued; flush=%v; parked application released",
		rf, before, before, after, flushAfter)

	n := newNode(surv{}, p.crashAt, p.mode, p.cut, true)
	n.kvf.setPhase("live")
	lr, err := startLeader(n, rf, 1, server.InvalidEntryId)
	if err != nil {
		lr.close()
		if n.clk.isCrashed() {
			return restartAndCheck(o, p, n.survivingState(), "crash@"+n.clk.atKind, sched), n.clk.count()
		}
		controllerFailed(o, p, "a leader on an empty node", err)
		return "start-error", 0
	}
	if p.crashAt < 0 {
		startOps = n.clk.count()
	}
	ok := true
	do := func(s step) {
		if ok && !n.clk.isCrashed() {
			ok = lr.exec(s)
		}
	}
	for i := 0; i < before; i++ {
		do(step{kind: "W", req: plainWrite(g, cnt)})
	}
	do(step{kind: "Q"})

	// the write whose application is parked
	x := lr.issued + 1
	pk := &parker{parked: make(chan struct{}), release: make(chan struct{})}
	released := false
	releaseParked := func() {
		if !released {
			released = true
			close(pk.release)
		}
	}
	raced := "no"
	if ok && !n.clk.isCrashed() {
		n.kvf.mu.Lock()
		n.kvf.beforeBatch = pk.hook
		n.kvf.mu.Unlock()
		ackAll := func(o int64) {
			for f := 0; f < rf-1; f++ {
				name := followerName(f)
				waitLive(n, stepTimeout, func() bool { s := lr.rpc.get(name); return s != nil && s.lastPushed() >= o })
				lr.rpc.get(name).acks <- &proto.Ack{Offset: o}
				if o > lr.acked[f] {
					lr.acked[f] = o
				}
				waitLive(n, stepTimeout, func() bool { return server.VerifFollowerAckOffset(lr.lc, name) >= o })
			}
		}
		if rf > 1 {
			// x-2 alone, then x-1 and x in one WAL sync round: when the completion of x-1 has run, x is
			// already readable by the follower cursors although the leader has not advanced its head to x,
			// so the followers can acknowledge x before the leader processes its own sync completion
			x += 2
			do(step{kind: "W", req: plainWrite(g, cnt)})
			waitLive(n, stepTimeout, func() bool { return n.g.waitArrived(x-2, time.Millisecond) })
			do(step{kind: "W", req: plainWrite(g, cnt)})
			do(step{kind: "W", req: plainWrite(g, cnt)})
			do(step{kind: "S", upto: x - 2})
			ackAll(x - 2)
			do(step{kind: "S", upto: x - 1})
			ackAll(x - 1)
			ackAll(x)
		} else {
			do(step{kind: "W", req: plainWrite(g, cnt)})
		}
		pk.mu.Lock()
		pk.arm = true
		pk.mu.Unlock()
		n.g.releaseUpTo(x)
		select {
		case <-pk.parked:
		case <-crashedCh(n):
			ok = false
		case <-time.After(300 * time.Millisecond):
			// the early acknowledgements were not counted (tracker without the O-8 repair): acknowledge again
			for f := 0; f < rf-1; f++ {
				if s := lr.rpc.get(followerName(f)); s != nil {
					s.acks <- &proto.Ack{Offset: x}
				}
			}
			select {
			case <-pk.parked:
			case <-crashedCh(n):
				ok = false
			case <-time.After(stepTimeout):
				ok = false
			}
		}
		pk.mu.Lock()
		pk.arm = false
		pk.mu.Unlock()
	}
	if ok && !n.clk.isCrashed() {
		// re-election in the same process
		done := make(chan error, 1)
		go func() {
			_, err := lr.lc.NewTerm(&proto.NewTermRequest{Namespace: ns, Shard: shardId, Term: 2})
			done <- err
		}()
		select {
		case err = <-done:
			raced = "yes"
		case <-time.After(60 * time.Millisecond):
			// NewTerm waits for the application in flight
			raced = "newterm-waits"
			releaseParked()
			err = <-done
		}
		if err != nil && !n.clk.isCrashed() {
			controllerFailed(o, p, "NewTerm on the leader", err)
			ok = false
		}
		fm := map[string]*proto.EntryId{}
		for i := 0; i < rf-1; i++ {
			fm[followerName(i)] = &proto.EntryId{Term: 1, Offset: x}
		}
		bl := make(chan error, 1)
		go func() {
			ctx, cancel := context.WithTimeout(context.Background(), stepTimeout)
			defer cancel()
			_, err := lr.lc.BecomeLeader(ctx, &proto.BecomeLeaderRequest{Namespace: ns, Shard: shardId, Term: 2, ReplicationFactor: uint32(rf), FollowerMaps: fm})
			bl <- err
		}()
		select {
		case err = <-bl:
		case <-time.After(60 * time.Millisecond):
			if raced == "yes" {
				raced = "becomeleader-waits"
			}
			releaseParked()
			err = <-bl
		}
		if err != nil && !n.clk.isCrashed() {
			controllerFailed(o, p, "the re-elected leader", err)
			ok = false
		}
		n.g.openAll()
		lr.issued = x
		for i := range lr.acked {
			lr.acked[i] = x
		}
		// more writes in the new term: they are appended, but the WAL's sync goroutine is the one that
		// carries the parked application, so they complete only after it has been released
		for i := 0; i < after && !n.clk.isCrashed(); i++ {
			lr.write(plainWrite(g, cnt))
		}
		if flushAfter && !n.clk.isCrashed() {
			n.kvf.current().KV.Flush()
		}
		releaseParked()
		if !n.clk.isCrashed() {
			ok = lr.exec(step{kind: "Q"})
		}
		// no application of the old term may be left behind when the run is evaluated
		waitFor(stepTimeout, func() bool {
			return !goroutineRunning("main.(*parker).hook") && !goroutineRunning("kv.(*db).ProcessWrite")
		})
	}
	releaseParked()
	waitFor(stepTimeout, func() bool {
		return !goroutineRunning("main.(*parker).hook") && !goroutineRunning("kv.(*db).ProcessWrite")
	})
	o.Count("reelect:raced=" + raced)
	crashed := n.clk.isCrashed()
	total := n.clk.count()
	lr.close()
	checkLive(o, p, n.kvf.takeLog(), sched)
	if lr.refused {
		o.Count("request-refused-by-leader")
		return "refused", 0
	}
	if !ok && !crashed {
		reportStuck(o, p, "the re-election scenario did not complete: "+sched)
		return "stuck", 0
	}
	if !crashed {
		o.Count("reelect:no-crash-run")
		res := restartAndCheck(o, p, surv{mem: n.mem, walDir: n.walDir}, "graceful", sched)
		return fmt.Sprintf("total=%d raced=%s %s", total, raced, res), total
	}
	o.Count("reelect:crash@" + n.clk.atKind)
	return restartAndCheck(o, p, n.survivingState(), "crash@"+n.clk.atKind, sched), total
}
