package main

import (
	"context"
	"fmt"
	"os"
	"strings"
	"time"

	"github.com/oxia-db/oxia/proto"
	"github.com/oxia-db/oxia/server"

	"verif/harness/internal/hx"
)

var os_stderr = os.Stderr

const restartTerm = int64(100)

// what the last restartAndCheck observed (for the trace leg)
var lastRestart struct {
	ok     bool
	as     string
	c      int64
	head   int64
	replay []applied
}

func headOf(entries []*proto.LogEntry) (int64, *proto.EntryId) {
	if len(entries) == 0 {
		return -1, server.InvalidEntryId
	}
	e := entries[len(entries)-1]
	return e.Offset, &proto.EntryId{Term: e.Term, Offset: e.Offset}
}

// restartAndCheck starts real controllers on the surviving state and evaluates the specification.
func restartAndCheck(o *hx.Out, p params, st surv, why string, sched string) string {
	walEntries := readWalDir(st.walDir)
	ctxt := fmt.Sprintf("%s %s (%s); schedule [%s]", p.leg, p.String(), why, sched)
	// the log the node stands for: the prefix covered by an installed snapshot, then what its WAL holds
	entries := walEntries
	if len(st.base) > 0 {
		first := int64(len(st.base))
		if len(walEntries) > 0 {
			first = walEntries[0].Offset
		}
		if first > int64(len(st.base)) {
			o.Violation("crash:entry-skipped", fmt.Sprintf("%s: the WAL starts at offset %d, the installed snapshot ends at %d", ctxt, first, len(st.base)-1))
			first = int64(len(st.base))
		}
		entries = append(append([]*proto.LogEntry{}, st.base[:first]...), walEntries...)
	}
	head, _ := headOf(entries)

	if len(st.base) > 0 && len(walEntries) == 0 {
		// A node whose WAL was cleared for a snapshot reports an empty log and is not a candidate for
		// leadership before it has received an entry (its next offset would start at 0 again: head
		// reporting is C04/C05's subject); it is restarted as what it is, a follower.
		p.restart = "follower"
	}
	lastRestart.ok = false
	n := newNode(st, -1, "p", 0, false)
	n.kvf.setPhase("open")
	var res []string

	// --- the state right after the restart, before any replay -------------------------------------
	var lc server.LeaderController
	var fc server.FollowerController
	var err error
	if p.restart == "follower" {
		fc, err = server.NewFollowerController(srvConfig, ns, shardId, n.walf, n.kvf)
	} else {
		lc, err = server.NewLeaderController(srvConfig, ns, shardId, newRpcStub(), n.walf, n.kvf)
	}
	if err != nil {
		// a node that cannot open its state after a crash has lost it
		o.Violation("crash:db-not-fold-of-prefix", fmt.Sprintf("%s: the node cannot reopen its state: %v", ctxt, err))
		n.closeFactories()
		return "open-error"
	}
	k := n.kvf.current()
	c := k.commit
	res = append(res, fmt.Sprintf("c=%d head=%d", c, head))
	if len(st.base) > 0 && len(walEntries) == 0 && c < head {
		// the WAL is empty: the node only holds what its database holds (the snapshot, or nothing yet)
		head = c
		entries = entries[:c+1]
	}
	if c > head {
		o.Violation("crash:commit-ahead-of-log", fmt.Sprintf("%s: commit offset stored in the DB is %d, the surviving log ends at %d", ctxt, c, head))
	}
	if d := diffDumps(dumpKV(k.KV), foldDump(entries, c)); d != "" {
		o.Violation("crash:db-not-fold-of-prefix", fmt.Sprintf("%s: DB with commit offset %d differs from the fold of log entries 0..%d: %s", ctxt, c, c, d))
		res = append(res, "state-differs")
	}

	// The WAL trimmer clamps to the commit offset held in memory, the DB only keeps what was flushed: after a kill
	// the first entry left in the log can be above c+1. Such a node cannot replay (and must not apply anything):
	// that it stays stuck is a liveness matter outside C07 and is only counted.
	gap := len(walEntries) > 0 && walEntries[0].Offset > c+1

	// --- replay -----------------------------------------------------------------------------------
	n.kvf.setPhase("replay")
	expectUpTo := head
	if c > head {
		expectUpTo = c
	}
	if p.restart == "follower" {
		if _, err = fc.NewTerm(&proto.NewTermRequest{Namespace: ns, Shard: shardId, Term: restartTerm}); err != nil {
			controllerFailed(o, p, "NewTerm on the restarted follower", err)
		}
		ls := newLeaderStub()
		attachStream(fc, ls)
		// the new leader sends one more entry (offset head+1) and advertises everything before it as committed
		extra := makeEntry(restartTerm, head+1, &proto.WriteRequest{Shard: ptr(shardId), Puts: []*proto.PutRequest{{Key: "after-restart", Value: []byte("x")}}})
		ls.in <- &proto.Append{Term: restartTerm, Entry: extra, CommitOffset: head}
		// the entry is appended, synced and acknowledged; the apply round that the sync round triggers has come to
		// rest (or the apply routine has ended) once the follower is quiescent: its commit offset is final then
		waitFor(stepTimeout, func() bool {
			st, _ := fc.GetStatus(&proto.GetStatusRequest{Shard: shardId})
			return st.HeadOffset >= head+1 && ls.maxAck() >= head+1
		})
		waitFor(stepTimeout, followerQuiescent)
		ls.cancel()
	} else {
		if _, err = lc.NewTerm(&proto.NewTermRequest{Namespace: ns, Shard: shardId, Term: restartTerm}); err != nil {
			controllerFailed(o, p, "NewTerm on the restarted leader", err)
		}
		ctx, cancel := context.WithTimeout(context.Background(), stepTimeout)
		if _, err = lc.BecomeLeader(ctx, &proto.BecomeLeaderRequest{Namespace: ns, Shard: shardId, Term: restartTerm, ReplicationFactor: 1}); err != nil {
			if gap {
				o.Count("restart:leader-cannot-replay-trimmed-log(no-verdict)")
			} else if strings.Contains(err.Error(), "deadline exceeded") {
				reportStuck(o, p, "BecomeLeader of the restarted node does not complete within the harness's bound; "+ctxt)
			} else {
				o.Violation("crash:entry-skipped", fmt.Sprintf("%s: the restarted node cannot replay its log (BecomeLeader: %v)", ctxt, err))
			}
		}
		cancel()
	}
	replay := n.kvf.takeLog()
	lastRestart.ok, lastRestart.as, lastRestart.c, lastRestart.head, lastRestart.replay = err == nil, p.restart, c, head, replay
	if gap && len(replay) == 0 {
		// nothing was applied: the DB must still be the fold of 0..c
		if p.restart == "follower" {
			o.Count("restart:follower-cannot-replay-trimmed-log(no-verdict)")
		}
		res = append(res, fmt.Sprintf("replay=refused(log starts at %d)", walEntries[0].Offset))
		expectUpTo = c
	} else {
		res = append(res, checkReplay(o, ctxt, replay, c, expectUpTo))
	}
	if d := diffDumps(dumpKV(n.kvf.current().KV), foldDump(entries, expectUpTo)); d != "" {
		o.Violation("crash:db-not-fold-of-prefix", fmt.Sprintf("%s: after replay from %d the DB differs from the fold of log entries 0..%d: %s", ctxt, c+1, expectUpTo, d))
		res = append(res, "replayed-state-differs")
	}

	// --- the node goes on: two more writes through the normal path -----------------------------------
	if lc != nil && err == nil {
		n.kvf.setPhase("live-after-restart")
		for i := 0; i < 2; i++ {
			ctx, cancel := context.WithTimeout(context.Background(), stepTimeout)
			_, werr := lc.WriteBlock(ctx, &proto.WriteRequest{Shard: ptr(shardId), Puts: []*proto.PutRequest{{Key: fmt.Sprintf("post%d", i), Value: []byte("y")}}})
			cancel()
			if werr != nil {
				panic(werr)
			}
		}
		checkLive(o, p, n.kvf.takeLog(), sched)
	}
	if lc != nil {
		lc.Close()
	}
	closeFollower(fc)
	n.closeFactories()
	o.Count("restart-as:" + p.restart)
	if c < head {
		o.Count("replay:non-empty")
	} else {
		o.Count("replay:empty")
	}
	return strings.Join(res, " ")
}

// checkReplay: the applications after the restart must be exactly c+1, c+2, ..., upTo.
func checkReplay(o *hx.Out, ctxt string, log []applied, c int64, upTo int64) string {
	cur := c
	var offs []string
	for _, a := range log {
		offs = append(offs, fmt.Sprint(a.offset))
		switch {
		case a.offset <= cur:
			o.Violation("crash:entry-applied-twice", fmt.Sprintf("%s: replay applied offset %d although the DB's commit offset was already %d (replay sequence so far: %s)", ctxt, a.offset, cur, strings.Join(offs, ",")))
			return "replay=" + strings.Join(offs, ",")
		case a.offset > cur+1:
			o.Violation("crash:entry-skipped", fmt.Sprintf("%s: replay went from offset %d to %d (replay must resume at c+1=%d and be contiguous)", ctxt, cur, a.offset, c+1))
			return "replay=" + strings.Join(offs, ",")
		}
		cur = a.offset
	}
	if cur < upTo {
		o.Violation("crash:entry-skipped", fmt.Sprintf("%s: replay stopped at offset %d, the log goes to %d", ctxt, cur, upTo))
	}
	if len(log) == 0 {
		return "replay=-"
	}
	return fmt.Sprintf("replay=%d..%d", c+1, cur)
}

func makeEntry(term, offset int64, w *proto.WriteRequest) *proto.LogEntry {
	lev := &proto.LogEntryValue{Value: &proto.LogEntryValue_Requests{Requests: &proto.WriteRequests{Writes: []*proto.WriteRequest{w}}}}
	b, err := lev.MarshalVT()
	must(err)
	return &proto.LogEntry{Term: term, Offset: offset, Value: b, Timestamp: uint64(time.Now().UnixMilli())}
}
