package main

// tracer: the correspondence leg "trace". While a leader / follower schedule is executed on the real
// controller, the same schedule is written down as macro steps of the Coq model (Oxia.Crash.Driver)
// together with what was observed after every completed step: the commit offset stored in the DB and
// the offsets handed to ProcessWrite during the step. The extracted model replays the macro list; the
// two observation lists must be equal.

import (
	"fmt"
	"strings"
)

type tracer struct {
	n       *node
	macros  []string
	obs     []string
	idx     int   // applications already reported
	flushed int64 // commit offset at the last completed flush
	last    int64 // commit offset after the last completed step
	on      bool
	appends int64 // entries handed to the WAL by the completed steps
	// the append that the step interrupted by the crash may already have handed to the WAL
	pendingAppend string
}

func newTracer(n *node) *tracer { return &tracer{n: n, flushed: -1, last: -1, on: true} }

func (t *tracer) observe() string {
	f := t.n.kvf
	f.mu.Lock()
	defer f.mu.Unlock()
	var offs []string
	for ; t.idx < len(f.log); t.idx++ {
		offs = append(offs, fmt.Sprint(f.log[t.idx].offset))
	}
	c := int64(-1)
	if f.cur != nil {
		c = f.cur.commit
	}
	t.last = c
	a := "-"
	if len(offs) > 0 {
		a = strings.Join(offs, ",")
	}
	return fmt.Sprintf("%d/%s", c, a)
}

// step records a completed step.
func (t *tracer) step(macro string) {
	if !t.on {
		return
	}
	t.macros = append(t.macros, macro)
	t.obs = append(t.obs, t.observe())
	if macro == "W" || strings.HasPrefix(macro, "A:") {
		t.appends++
	}
	if macro == "F" || macro == "SL" || macro == "SF" || macro == "Z" {
		// these steps flush the DB (explicitly, or through UpdateTerm / the opening of the DB)
		t.flushed = t.last
	}
}

// crash records the crash and what the restarted node shows. inFlush: the interrupted step was flushing.
func (t *tracer) crash(c int64, head int64, inFlush bool) {
	keep := 0
	if inFlush && c != t.flushed {
		keep = 1
	}
	if head+1 > t.appends && t.pendingAppend != "" {
		// the interrupted step had reached the WAL before the crash instant
		t.macros = append(t.macros, t.pendingAppend)
		t.obs = append(t.obs, fmt.Sprintf("%d/-", t.last))
	}
	t.macros = append(t.macros, fmt.Sprintf("X:%d:%d", keep, head+1))
	t.obs = append(t.obs, fmt.Sprintf("%d/-", c))
}

func (t *tracer) add(macro, obs string) {
	t.macros = append(t.macros, macro)
	t.obs = append(t.obs, obs)
}

func fmtOffsets(l []applied) string {
	if len(l) == 0 {
		return "-"
	}
	s := make([]string, len(l))
	for i, a := range l {
		s[i] = fmt.Sprint(a.offset)
	}
	return strings.Join(s, ",")
}

// finish appends the crash and the restart to the trace and records the case.
func (t *tracer) finish(o interface {
	Case(kind string, input string, implResult string, nontrivialKey string) int
}, p params, crashed bool, inFlush bool) {
	if !t.on || len(t.macros) == 0 {
		return
	}
	if crashed {
		if !lastRestart.ok {
			return
		}
		t.crash(lastRestart.c, lastRestart.head, inFlush)
		rep := fmtOffsets(lastRestart.replay)
		if lastRestart.as == "leader" {
			t.add("SL", fmt.Sprintf("%d/%s", lastRestart.head, rep))
		} else {
			t.add("SF", fmt.Sprintf("%d/-", lastRestart.c))
			t.add(fmt.Sprintf("A:%d", lastRestart.head+1), fmt.Sprintf("%d/-", lastRestart.c))
			t.add("Y", fmt.Sprintf("%d/%s", lastRestart.head, rep))
		}
	}
	nt := ""
	if crashed {
		nt = strings.Join(t.macros, " ")
	}
	o.Case("trace", strings.Join(t.macros, " "), strings.Join(t.obs, " "), nt)
}
