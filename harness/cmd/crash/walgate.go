package main

// Gating wrapper around the real shard WAL (wal.Factory / wal.Wal are interfaces of the server):
//   - every state-changing call is a tick of the crash clock;
//   - the completion callback of AppendAndSync (invoked by the WAL's sync goroutine, in append order)
//     is held back until the schedule releases it, so that several writes are in flight at once and
//     the harness decides when each sync completion / commit callback runs;
//   - Reader.ReadNext can be paused (apply rounds are not atomic in the code).

import (
	"context"
	"sync"
	"sync/atomic"
	"time"

	"github.com/oxia-db/oxia/proto"
	"github.com/oxia-db/oxia/server/wal"
)

type gate struct {
	mu       sync.Mutex
	cond     *sync.Cond
	released int64 // sync completions with offset <= released may run
	open     bool  // everything passes
	waiting  map[int64]bool
	done     int64 // highest offset whose sync completion callback has returned
	tokens   int   // follower side: number of Sync calls that may proceed
	abort    func() bool
}

func newGate(open bool) *gate {
	g := &gate{open: open, released: -1, done: -1, waiting: map[int64]bool{}}
	g.cond = sync.NewCond(&g.mu)
	return g
}

func (g *gate) wait(offset int64) {
	g.mu.Lock()
	g.waiting[offset] = true
	g.cond.Broadcast()
	for !g.open && g.released < offset {
		g.cond.Wait()
	}
	delete(g.waiting, offset)
	g.mu.Unlock()
}

func (g *gate) releaseUpTo(offset int64) {
	g.mu.Lock()
	if offset > g.released {
		g.released = offset
	}
	g.cond.Broadcast()
	g.mu.Unlock()
}

func (g *gate) markDone(offset int64) {
	g.mu.Lock()
	if offset > g.done {
		g.done = offset
	}
	g.cond.Broadcast()
	g.mu.Unlock()
}

// waitDone blocks until the sync completion callback of offset has returned.
func (g *gate) waitDone(offset int64, d time.Duration) bool {
	deadline := time.Now().Add(d)
	for {
		g.mu.Lock()
		ok := g.done >= offset
		g.mu.Unlock()
		if ok {
			return true
		}
		if time.Now().After(deadline) || (g.abort != nil && g.abort()) {
			return false
		}
		time.Sleep(20 * time.Microsecond)
	}
}

// takeToken parks a follower Sync call until the schedule allows one more sync round. A call whose
// stream has been closed meanwhile (context cancelled) leaves without consuming a token.
func (g *gate) takeToken(ctx context.Context) {
	for {
		g.mu.Lock()
		if g.open {
			g.mu.Unlock()
			return
		}
		if ctx.Err() != nil {
			g.mu.Unlock()
			return
		}
		if g.tokens > 0 {
			g.tokens--
			g.mu.Unlock()
			return
		}
		g.mu.Unlock()
		time.Sleep(20 * time.Microsecond)
	}
}

func (g *gate) addToken() {
	g.mu.Lock()
	g.tokens++
	g.cond.Broadcast()
	g.mu.Unlock()
}

func (g *gate) openAll() {
	g.mu.Lock()
	g.open = true
	g.cond.Broadcast()
	g.mu.Unlock()
}

// waitArrived blocks until the sync completion of offset is parked at the gate (or passed it).
func (g *gate) waitArrived(offset int64, d time.Duration) bool {
	deadline := time.Now().Add(d)
	g.mu.Lock()
	defer g.mu.Unlock()
	for !g.waiting[offset] && !g.open && g.released < offset {
		if time.Now().After(deadline) {
			return false
		}
		g.mu.Unlock()
		time.Sleep(50 * time.Microsecond)
		g.mu.Lock()
	}
	return true
}

type gatedSyncKey struct{}

type walFactory struct {
	real wal.Factory
	c    *clock
	g    *gate
	mu   sync.Mutex
	last *gatedWal
}

func (f *walFactory) NewWal(namespace string, shard int64, p wal.CommitOffsetProvider) (wal.Wal, error) {
	w, err := f.real.NewWal(namespace, shard, p)
	if err != nil {
		return nil, err
	}
	gw := &gatedWal{Wal: w, c: f.c, g: f.g}
	gw.appended = w.LastOffset()
	f.mu.Lock()
	f.last = gw
	f.mu.Unlock()
	return gw, nil
}
func (f *walFactory) Close() error { return f.real.Close() }
func (f *walFactory) current() *gatedWal {
	f.mu.Lock()
	defer f.mu.Unlock()
	return f.last
}

type gatedWal struct {
	wal.Wal
	c  *clock
	g  *gate
	mu sync.Mutex
	// last offset handed to the WAL successfully (it may not be synced yet)
	appended int64
	closed   bool
	// optional pause of apply-round readers: called after an entry has been read
	afterRead func(offset int64)
}

func (w *gatedWal) heads() (synced, appended int64) {
	w.mu.Lock()
	defer w.mu.Unlock()
	if w.closed {
		return w.appended, w.appended
	}
	return w.Wal.LastOffset(), w.appended
}

func (w *gatedWal) noteAppend(o int64) {
	w.mu.Lock()
	w.appended = o
	w.mu.Unlock()
}

func (w *gatedWal) AppendAsync(e *proto.LogEntry) error {
	w.c.tick("wal:append")
	w.c.body.RLock()
	defer w.c.body.RUnlock()
	err := w.Wal.AppendAsync(e)
	if err == nil {
		w.noteAppend(e.Offset)
	}
	return err
}

func (w *gatedWal) Append(e *proto.LogEntry) error {
	w.c.tick("wal:append")
	w.c.body.RLock()
	err := w.Wal.AppendAsync(e)
	if err == nil {
		w.noteAppend(e.Offset)
	}
	w.c.body.RUnlock()
	if err != nil {
		return err
	}
	return w.Sync(context.Background())
}

func (w *gatedWal) AppendAndSync(e *proto.LogEntry, cb func(error)) {
	w.c.tick("wal:append")
	w.c.body.RLock()
	defer w.c.body.RUnlock()
	off := e.Offset
	var refused atomic.Bool
	w.Wal.AppendAndSync(e, func(err error) {
		if err != nil {
			// append refused: the real WAL calls back inline, under its lock
			refused.Store(true)
			cb(err)
			return
		}
		w.g.wait(off)
		w.c.tick("wal:synced")
		cb(nil)
		w.g.markDone(off)
	})
	// when the append was accepted the callback was queued for the sync goroutine
	if !refused.Load() {
		w.noteAppend(off)
	}
}

// Only the sync rounds of the follower's replication stream are scheduled (their context is the
// stream's, which the harness marks); Sync calls made by handlers (NewTerm, duplicate append) pass.
func (w *gatedWal) Sync(ctx context.Context) error {
	if ctx.Value(gatedSyncKey{}) != nil {
		w.g.takeToken(ctx)
	}
	w.c.tick("wal:sync")
	return w.Wal.Sync(ctx)
}

func (w *gatedWal) TruncateLog(o int64) (int64, error) {
	w.c.tick("wal:truncate")
	w.c.body.RLock()
	defer w.c.body.RUnlock()
	r, err := w.Wal.TruncateLog(o)
	if err == nil {
		w.noteAppend(r)
	}
	return r, err
}

func (w *gatedWal) Clear() error {
	w.c.tick("wal:clear")
	w.c.body.RLock()
	defer w.c.body.RUnlock()
	err := w.Wal.Clear()
	if err == nil {
		w.noteAppend(wal.InvalidOffset)
	}
	return err
}

func (w *gatedWal) Close() error {
	w.mu.Lock()
	if !w.closed {
		w.appended = w.Wal.LastOffset()
	}
	w.closed = true
	w.mu.Unlock()
	return w.Wal.Close()
}

type gatedReader struct {
	wal.Reader
	w *gatedWal
}

func (w *gatedWal) NewReader(after int64) (wal.Reader, error) {
	r, err := w.Wal.NewReader(after)
	if err != nil {
		return nil, err
	}
	return &gatedReader{Reader: r, w: w}, nil
}

func (r *gatedReader) ReadNext() (*proto.LogEntry, error) {
	e, err := r.Reader.ReadNext()
	if err == nil && r.w.afterRead != nil {
		r.w.afterRead(e.Offset)
	}
	return e, err
}
