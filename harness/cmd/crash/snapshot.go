package main

import (
	"context"
	"fmt"
	"time"

	time2 "github.com/oxia-db/oxia/common/time"
	"github.com/oxia-db/oxia/proto"
	"github.com/oxia-db/oxia/server"
	"github.com/oxia-db/oxia/server/kv"

	pb "google.golang.org/protobuf/proto"

	"verif/harness/internal/hx"
	"verif/harness/internal/kvsafe"
)

// snapshot leg (real directories: the snapshot sender and the snapshot loader of server/kv use the os
// package, not Pebble's vfs). A follower that has applied a prefix of the log receives a real snapshot
// (kv.DB.Snapshot of a sender that applied log entries 0..m) through FollowerController.SendSnapshot,
// then further entries. Variants:
//   plain      install, more entries, restart
//   mid-load   the process is killed while the snapshot files are being received (directory image taken
//              inside the stream), restart on the image
//   after-load stopped right after the installation (empty WAL), restart
//   round-race an apply round of the follower has read an entry of its old log and is about to apply it when
//              the snapshot arrives (the round holds no lock in the code as it was)

func senderChunks(entries []*proto.LogEntry, term int64) []*proto.SnapshotChunk {
	defer setFS(setFS(nil))
	dir := newDir("sender")
	f, err := kvsafe.New(&kv.FactoryOptions{DataDir: dir, CacheSizeMB: 4})
	must(err)
	db, err := kv.NewDB(ns, shardId, f, time.Hour, time2.SystemClock)
	must(err)
	for _, e := range entries {
		lev := &proto.LogEntryValue{}
		must(pb.Unmarshal(e.Value, lev))
		for _, w := range lev.GetRequests().Writes {
			_, err := db.ProcessWrite(w, e.Offset, e.Timestamp, server.WrapperUpdateOperationCallback)
			must(err)
		}
	}
	snap, err := db.Snapshot()
	must(err)
	var chunks []*proto.SnapshotChunk
	for ; snap.Valid(); snap.Next() {
		ch, err := snap.Chunk()
		must(err)
		chunks = append(chunks, &proto.SnapshotChunk{Term: term, Name: ch.Name(), ChunkIndex: ch.Index(), ChunkCount: ch.TotalCount(), Content: ch.Content()})
	}
	must(snap.Close())
	must(db.Close())
	f.Close()
	return chunks
}

func runSnapshotCase(o *hx.Out, p params) (string, int64) {
	r := hx.NewRng(p.wseed)
	g := &wgen{r: r.Fork()}
	variant := []string{"plain", "mid-load", "after-load", "round-race", "round-race"}[r.Intn(5)]
	m := 3 + r.Intn(6)     // the snapshot covers offsets 0..m
	j := r.Intn(m)         // the follower has offsets 0..j before
	extra := 1 + r.Intn(3) // entries after the snapshot
	var logical []*proto.LogEntry
	for i := 0; i <= m+extra; i++ {
		term := int64(1)
		if i > m {
			term = 2
		}
		logical = append(logical, makeEntryAt(term, int64(i), g.next(o)))
	}
	sched := fmt.Sprintf("%s: follower has 0..%d (all advertised as committed), snapshot of 0..%d installed in term 2, then %d more entries", variant, j, m, extra)
	o.Count("snapshot:" + variant)
	chunks := senderChunks(logical[:m+1], 2)

	n := newNode(surv{disk: newDir("fdata")}, -1, "k", 0, false)
	n.kvf.setPhase("live")
	fc, err := server.NewFollowerController(srvConfig, ns, shardId, n.walf, n.kvf)
	must(err)
	_, err = fc.NewTerm(&proto.NewTermRequest{Namespace: ns, Shard: shardId, Term: 1})
	must(err)

	pk := &parker{parked: make(chan struct{}), release: make(chan struct{})}
	released := false
	releaseParked := func() {
		if !released {
			released = true
			close(pk.release)
		}
	}
	if variant == "round-race" {
		pk.arm = true
		n.walf.current().afterRead = func(int64) { pk.hook(0) }
	}
	ls := newLeaderStub()
	rdone := attachStream(fc, ls)
	for i := 0; i <= j; i++ {
		ls.in <- &proto.Append{Term: 1, Entry: logical[i], CommitOffset: int64(j)}
	}
	waitFor(stepTimeout, func() bool { return ls.maxAck() >= int64(j) })
	raced := "-"
	if variant == "round-race" {
		select {
		case <-pk.parked:
		case <-time.After(stepTimeout):
			reportStuck(o, p, "the follower does not start applying entries 0.."+fmt.Sprint(j)+" that are synced and advertised as committed")
			releaseParked()
			ls.cancel()
			closeFollower(fc)
			n.closeFactories()
			return "stuck", 0
		}
	} else {
		waitFor(stepTimeout, func() bool { return fc.CommitOffset() >= int64(j) })
	}

	// a new leader is elected and finds the follower too far behind: snapshot
	_, err = fc.NewTerm(&proto.NewTermRequest{Namespace: ns, Shard: shardId, Term: 2})
	must(err)
	<-rdone
	ls.cancel()
	// the goroutines of the old stream end before the snapshot stream starts (they would close whatever
	// stream is current when they notice the end of theirs)
	waitFor(stepTimeout, func() bool {
		return !goroutineRunning("followerController).handleReplicateSync") && !goroutineRunning("followerController).handleServerStream")
	})
	ss := &snapshotStub{streamBase: streamBase{context.Background()}, chunks: chunks, resp: make(chan *proto.SnapshotResponse, 1)}
	var img *surv
	takeImage := func() {
		d, w := newDir("img-data"), newDir("img-wal")
		copyDir(n.disk, d)
		copyDir(n.walDir, w)
		img = &surv{disk: d, walDir: w, base: logical[:m+1]}
	}
	if variant == "mid-load" {
		at := 1 + r.Intn(len(chunks))
		ss.onRecv = func(i int) {
			if i == at {
				takeImage()
			}
		}
	}
	sdone := make(chan error, 1)
	go func() { sdone <- fc.SendSnapshot(ss) }()
	if variant == "round-race" {
		select {
		case err := <-sdone:
			raced = "snapshot-installed-while-round-in-flight"
			if err != nil {
				raced = "snapshot-refused:" + err.Error()
			}
		case <-time.After(80 * time.Millisecond):
			raced = "snapshot-waits-for-round"
			releaseParked()
			<-sdone
		}
		releaseParked()
		waitFor(stepTimeout, func() bool {
			return !goroutineRunning("main.(*parker).hook") && !goroutineRunning("followerController).processCommittedEntriesLoop")
		})
		n.walf.current().afterRead = nil
	} else {
		select {
		case <-sdone:
		case <-time.After(stepTimeout):
			reportStuck(o, p, "SendSnapshot does not return")
		}
	}
	select {
	case resp := <-ss.resp:
		if resp.AckOffset != int64(m) {
			o.Violation("crash:db-not-fold-of-prefix", fmt.Sprintf("snapshot %s: the follower answers ack offset %d after installing the snapshot of 0..%d", p.String(), resp.AckOffset, m))
		}
	default:
	}
	if variant == "after-load" {
		// stopped right after the installation: the WAL is empty, the database is the snapshot
		extra = 0
	}

	// the leader goes on with the entries after the snapshot
	if extra > 0 {
		ls2 := newLeaderStub()
		attachStream(fc, ls2)
		for i := m + 1; i <= m+extra; i++ {
			ls2.in <- &proto.Append{Term: 2, Entry: logical[i], CommitOffset: int64(i - 1)}
		}
		waitFor(time.Second, func() bool { return ls2.maxAck() >= int64(m+extra) && fc.CommitOffset() >= int64(m+extra-1) })
		waitFor(stepTimeout, followerQuiescent)
		ls2.cancel()
	}
	o.Count("snapshot:raced=" + raced)
	closeFollower(fc)
	n.closeFactories()
	checkLive(o, p, n.kvf.takeLog(), sched)

	res := "variant=" + variant + " raced=" + raced + " "
	if img != nil {
		res += "[image] " + restartAndCheck(o, p, *img, "killed "+variant, sched) + " [final] "
	}
	res += restartAndCheck(o, p, surv{disk: n.disk, walDir: n.walDir, base: logical[:m+1]}, "graceful", sched)
	return res, 0
}
