package main

import (
	"fmt"
	"os"
	"path/filepath"
	"strings"

	"github.com/oxia-db/oxia/proto"
	"github.com/oxia-db/oxia/server"
	"github.com/oxia-db/oxia/server/wal"

	"verif/harness/internal/hx"
)

// trim leg: Pebble runs without its own WAL (only flushed state survives a kill) while the WAL trimmer clamps to the
// commit offset held in memory. A follower applies 0..f, the DB flushes, it applies f+1..N (unflushed), the real
// trimmer runs (small segments: whole segments below the in-memory commit offset go away), the node is killed.
// After the restart the DB is at c=f and the log starts above c+1. The node is restarted (follower or leader) and
// replication continues: whatever it does, it must not apply an entry other than c+1 - it has none to apply.
func runTrimCase(o *hx.Out, p params) (string, int64) {
	old := walSegmentSize
	walSegmentSize = 1024
	defer func() { walSegmentSize = old }()

	r := hx.NewRng(p.wseed)
	g := &wgen{r: r.Fork()}
	f := int64(1 + r.Intn(5))
	total := int64(18 + r.Intn(12))
	mode := []string{"p", "k"}[r.Intn(2)]
	p.restart = []string{"follower", "follower", "leader"}[r.Intn(3)]
	var logical []*proto.LogEntry
	for i := int64(0); i <= total; i++ {
		w := g.next(o)
		// (padding: a segment of the log holds two or three entries)
		w.Puts = append(w.Puts, &proto.PutRequest{Key: "pad", Value: []byte(strings.Repeat("x", 160))})
		logical = append(logical, makeEntryAt(1, i, w))
	}
	sched := fmt.Sprintf("follower applies 0..%d, DB flush, applies %d..%d (not flushed), WAL trimmer runs (1 KiB segments, clamp = in-memory commit offset %d), kill (%s), restart as %s",
		f, f+1, total, total, mode, p.restart)

	n := newNode(surv{}, -1, mode, 100, false)
	n.kvf.setPhase("live")
	fc, err := server.NewFollowerController(srvConfig, ns, shardId, n.walf, n.kvf)
	must(err)
	_, err = fc.NewTerm(&proto.NewTermRequest{Namespace: ns, Shard: shardId, Term: 1})
	must(err)
	ls := newLeaderStub()
	attachStream(fc, ls)
	send := func(from, to int64) bool {
		for i := from; i <= to; i++ {
			ls.in <- &proto.Append{Term: 1, Entry: logical[i], CommitOffset: to}
		}
		ok := waitFor(stepTimeout, func() bool { return ls.maxAck() >= to && fc.CommitOffset() >= to })
		return waitFor(stepTimeout, followerQuiescent) && ok
	}
	ok := send(0, f)
	if ok {
		ok = n.kvf.current().KV.Flush() == nil
	}
	ok = ok && send(f+1, total)
	first := int64(-1)
	segsBefore, segsAfter := 0, 0
	if ok {
		gw := n.walf.current()
		segsBefore = countFiles(n.walDir)
		if err := wal.VerifDoTrim(gw.Wal); err != nil {
			panic(fmt.Sprintf("trimmer: %v", err))
		}
		first = gw.Wal.FirstOffset()
		segsAfter = countFiles(n.walDir)
		n.clk.crashNow("after-wal-trim")
	}
	ls.cancel()
	closeFollower(fc)
	n.closeFactories()
	checkLive(o, p, n.kvf.takeLog(), sched)
	if !ok {
		reportStuck(o, p, "the follower does not apply what is synced and advertised: "+sched)
		return "stuck", 0
	}
	st := n.survivingState()
	st.base = logical
	o.Count("trim:kill-" + mode)
	return fmt.Sprintf("flushed=%d applied=%d wal-first-after-trim=%d files=%d->%d ", f, total, first, segsBefore, segsAfter) +
		restartAndCheck(o, p, st, "killed after the WAL was trimmed", sched), 0
}

func countFiles(dir string) int {
	c := 0
	filepath.Walk(dir, func(_ string, info os.FileInfo, err error) error {
		if err == nil && !info.IsDir() {
			c++
		}
		return nil
	})
	return c
}
