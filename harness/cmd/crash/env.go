package main

// One node under test: real Pebble (through the verif FS hook) on a strict in-memory filesystem, a real
// WAL directory on disk, both behind the crash clock; plus the helpers to take a crash image and to
// rebuild the reference database ("fold of the log prefix").

import (
	"fmt"
	"io"
	"os"
	"path/filepath"
	"time"
	"verif/harness/internal/kvsafe"

	"github.com/cockroachdb/pebble/vfs"
	pb "google.golang.org/protobuf/proto"

	time2 "github.com/oxia-db/oxia/common/time"
	"github.com/oxia-db/oxia/proto"
	"github.com/oxia-db/oxia/server"
	"github.com/oxia-db/oxia/server/kv"
	"github.com/oxia-db/oxia/server/wal"
)

const (
	ns      = "default"
	shardId = int64(0)
	dataDir = "/vdb"
)

var tmpRoot string
var dirSeq int

func newDir(tag string) string {
	dirSeq++
	d := filepath.Join(tmpRoot, fmt.Sprintf("%s-%d", tag, dirSeq))
	must(os.MkdirAll(d, 0o755))
	return d
}

// surv is what a restarted process finds: the DB's filesystem (in memory, or a real directory for the
// snapshot leg: the snapshot sender and loader of server/kv use the os package directly), the WAL
// directory, and - after a snapshot installation - the log prefix that the installed snapshot stands for.
type surv struct {
	mem    *vfs.MemFS
	disk   string
	walDir string
	base   []*proto.LogEntry
}

type node struct {
	disk   string
	mem    *vfs.MemFS
	clk    *clock
	walDir string
	walf   *walFactory
	kvf    *kvFactory
	g      *gate
	mode   string // "p" power loss, "k" kill
	cutPct int    // where between synced and appended head the WAL image is cut (0..100)

	// crash image
	imgTaken    bool
	imgFS       *vfs.MemFS // kill image
	imgWalDir   string
	imgSynced   int64
	imgAppended int64
}

// the segment size of every WAL the harness opens (a WAL directory must be reopened with the size it was written
// with); the trim leg lowers it for the duration of a case so that the log consists of several segments
var walSegmentSize int32 = 256 * 1024

var curFS vfs.FS

// setFS selects the filesystem of the Pebble instances opened from now on (nil: the code's own choice);
// it returns the previous selection.
func setFS(fs vfs.FS) vfs.FS {
	prev := curFS
	curFS = fs
	kv.VerifSetFS(fs)
	return prev
}

func dbPath() string { return dataDir + "/" + ns + fmt.Sprintf("/shard-%d", shardId) }

// newNode prepares a node on the given filesystem/WAL directory (fresh when nil / "").
func newNode(st surv, crashAt int64, mode string, cutPct int, gated bool) *node {
	n := &node{mem: st.mem, disk: st.disk, walDir: st.walDir, mode: mode, cutPct: cutPct}
	if n.mem == nil && n.disk == "" {
		n.mem = vfs.NewStrictMem()
		syncDirChain(n.mem, dbPath())
	}
	if n.walDir == "" {
		n.walDir = newDir("wal")
	}
	n.clk = newClock(crashAt)
	n.clk.onCrash = n.takeImage
	n.g = newGate(!gated)
	dd := dataDir
	if n.disk != "" {
		setFS(nil)
		dd = n.disk
	} else {
		setFS(&countFS{FS: n.mem, c: n.clk})
	}
	realKv, err := kvsafe.New(&kv.FactoryOptions{DataDir: dd, CacheSizeMB: 4})
	must(err)
	n.kvf = &kvFactory{real: realKv}
	if n.disk == "" {
		n.kvf.afterCommit = func() { n.clk.tick("db:commit") }
		n.clk.preCrash = func(kind string) {
			// crash right after a batch commit, Pebble having just flushed its memtable on its own
			if k := n.kvf.current(); kind == "db:commit" && k != nil {
				k.KV.Flush()
			}
		}
	}
	n.walf = &walFactory{
		real: wal.NewWalFactory(&wal.FactoryOptions{BaseWalDir: n.walDir, Retention: time.Hour, SegmentSize: walSegmentSize, SyncData: true}),
		c:    n.clk, g: n.g,
	}
	return n
}

// takeImage runs at the crash instant, between two operations (clock.body is held exclusively).
func (n *node) takeImage() {
	n.imgTaken = true
	if n.mode == "k" {
		n.imgFS = vfs.NewStrictMem()
		cloneTree(n.mem, n.imgFS, "/")
	} else {
		n.mem.SetIgnoreSyncs(true)
	}
	n.imgWalDir = newDir("walimg")
	copyDir(n.walDir, n.imgWalDir)
	if w := n.walf.current(); w != nil {
		n.imgSynced, n.imgAppended = w.heads()
	} else {
		n.imgSynced, n.imgAppended = -1, -1
	}
}

func copyDir(src, dst string) {
	filepath.Walk(src, func(p string, info os.FileInfo, err error) error {
		if err != nil {
			return nil
		}
		rel, _ := filepath.Rel(src, p)
		t := filepath.Join(dst, rel)
		if info.IsDir() {
			return os.MkdirAll(t, 0o755)
		}
		in, err := os.Open(p)
		if err != nil {
			return nil
		}
		defer in.Close()
		out, err := os.Create(t)
		must(err)
		_, err = io.Copy(out, in)
		must(err)
		return out.Close()
	})
}

func (n *node) closeFactories() {
	n.g.openAll()
	n.kvf.Close()
	n.walf.Close()
}

// survivingState returns the filesystem and the WAL directory a restarted process finds.
// The WAL keeps entries 0..k with synced <= k <= appended (k chosen by cutPct).
func (n *node) survivingState() surv {
	fs, d, _ := n.survivingState0()
	return surv{mem: fs, walDir: d}
}

func (n *node) survivingState0() (*vfs.MemFS, string, int64) {
	var fs *vfs.MemFS
	if n.mode == "k" {
		fs = n.imgFS
	} else {
		n.mem.ResetToSyncedState()
		n.mem.SetIgnoreSyncs(false)
		fs = n.mem
	}
	entries := readWalDir(n.imgWalDir)
	head := int64(-1)
	if len(entries) > 0 {
		head = entries[len(entries)-1].Offset
	}
	lo := n.imgSynced
	hi := n.imgAppended
	if hi > head {
		hi = head
	}
	if lo > hi {
		lo = hi
	}
	k := lo + (hi-lo)*int64(n.cutPct)/100
	if k >= head {
		return fs, n.imgWalDir, head
	}
	// rebuild a WAL that holds exactly the entries up to k
	d := newDir("walcut")
	f := wal.NewWalFactory(&wal.FactoryOptions{BaseWalDir: d, Retention: time.Hour, SegmentSize: walSegmentSize, SyncData: true})
	w, err := f.NewWal(ns, shardId, nil)
	must(err)
	for _, e := range entries {
		if e.Offset > k {
			break
		}
		must(w.Append(e))
	}
	must(w.Close())
	return fs, d, k
}

func readWalDir(dir string) []*proto.LogEntry {
	f := wal.NewWalFactory(&wal.FactoryOptions{BaseWalDir: dir, Retention: time.Hour, SegmentSize: walSegmentSize, SyncData: true})
	w, err := f.NewWal(ns, shardId, nil)
	must(err)
	defer w.Close()
	var res []*proto.LogEntry
	first := w.FirstOffset()
	if first < 0 {
		return nil
	}
	r, err := w.NewReader(first - 1)
	must(err)
	defer r.Close()
	for r.HasNext() {
		e, err := r.ReadNext()
		must(err)
		res = append(res, e)
	}
	return res
}

// foldDump applies the given entries, in order, to a fresh database through the same ProcessWrite and
// the same callback chain the controllers use, and returns its dump together with the dumps after
// every prefix that was asked for.
func foldDump(entries []*proto.LogEntry, upTo int64) []string {
	defer setFS(setFS(nil))
	realKv, err := kvsafe.New(&kv.FactoryOptions{DataDir: "/ref", CacheSizeMB: 4, InMemory: true})
	must(err)
	f := &kvFactory{real: realKv}
	db, err := kv.NewDB(ns, shardId, f, time.Hour, time2.SystemClock)
	must(err)
	for _, e := range entries {
		if e.Offset > upTo {
			break
		}
		lev := &proto.LogEntryValue{}
		must(pb.Unmarshal(e.Value, lev))
		for _, w := range lev.GetRequests().Writes {
			if _, err := db.ProcessWrite(w, e.Offset, e.Timestamp, server.WrapperUpdateOperationCallback); err != nil {
				panic(fmt.Sprintf("reference apply of offset %d failed: %v", e.Offset, err))
			}
		}
	}
	d := dumpKV(f.current().KV)
	must(db.Close())
	f.Close()
	return d
}
