package main

// Workload generation: write requests (puts, conditional puts, ephemeral puts, secondary indexes,
// sequence keys, deletes, range deletes, multi-operation batches, session records) and schedules
// (when a write is issued, when its WAL sync completes, which follower acknowledges what, when the DB
// flushes). Everything derives from one seed.

import (
	"fmt"
	"strings"

	"github.com/oxia-db/oxia/proto"
	"github.com/oxia-db/oxia/server"

	"verif/harness/internal/hx"
)

var userKeys = []string{"a", "a/b", "a/b/c", "a/c", "b", "b/x", "k0", "k1", "k2", "k3", "m/1", "m/2", "z"}

type wgen struct {
	r        *hx.Rng
	sessions []int64
	nextOff  int64
}

func ptr[T any](v T) *T { return &v }

func (g *wgen) put(kind *string) *proto.PutRequest {
	k := hx.Pick(g.r, userKeys)
	p := &proto.PutRequest{Key: k, Value: []byte(fmt.Sprintf("v%d", g.r.Intn(1000)))}
	switch x := g.r.Intn(10); {
	case x < 4:
		*kind = "put"
	case x < 5:
		p.ExpectedVersionId = ptr(int64(-1))
		*kind = "put-if-absent"
	case x < 6:
		p.ExpectedVersionId = ptr(int64(g.r.Intn(6)))
		*kind = "put-if-version"
	case x < 8 && len(g.sessions) > 0:
		p.SessionId = ptr(hx.Pick(g.r, g.sessions))
		p.ClientIdentity = ptr("cli")
		*kind = "put-ephemeral"
	case x < 9:
		p.SecondaryIndexes = []*proto.SecondaryIndex{{IndexName: "idx", SecondaryKey: fmt.Sprintf("s%d", g.r.Intn(4))}}
		*kind = "put-indexed"
	default:
		p.Key = "seq"
		p.PartitionKey = ptr("pk")
		p.SequenceKeyDelta = []uint64{uint64(1 + g.r.Intn(3))}
		*kind = "put-sequence"
	}
	return p
}

// next returns the next write request; off is the offset it will get in the log.
func (g *wgen) next(o *hx.Out) *proto.WriteRequest {
	off := g.nextOff
	g.nextOff++
	w := &proto.WriteRequest{Shard: ptr(shardId)}
	kind := ""
	switch x := g.r.Intn(20); {
	case x < 9:
		w.Puts = append(w.Puts, g.put(&kind))
	case x < 11:
		md := &proto.SessionMetadata{TimeoutMs: 300000, Identity: "cli"}
		b, _ := md.MarshalVT()
		w.Puts = append(w.Puts, &proto.PutRequest{Key: server.SessionKey(server.SessionId(off)), Value: b})
		g.sessions = append(g.sessions, off)
		kind = "session-create"
	case x < 14:
		w.Deletes = append(w.Deletes, &proto.DeleteRequest{Key: hx.Pick(g.r, userKeys)})
		kind = "delete"
	case x < 16:
		// Both bounds with the same number of segments class (one segment / several): in oxia's
		// slash-aware key order a range from a one-segment key to a multi-segment key sweeps the
		// internal __oxia/... records, whose values are not storage entries (O-10, property C13);
		// this harness only generates requests that every replica can apply.
		a := hx.Pick(g.r, userKeys)
		b := hx.Pick(g.r, userKeys)
		for strings.Contains(a, "/") != strings.Contains(b, "/") {
			b = hx.Pick(g.r, userKeys)
		}
		if strings.Contains(a, "/") {
			if pa, pb := strings.SplitN(a, "/", 2)[0], strings.SplitN(b, "/", 2)[0]; pa > pb || (pa == pb && a > b) {
				a, b = b, a
			}
		} else if a > b {
			a, b = b, a
		}
		w.DeleteRanges = append(w.DeleteRanges, &proto.DeleteRangeRequest{StartInclusive: a, EndExclusive: b + "~"})
		kind = "delete-range"
	default:
		n := 2 + g.r.Intn(4)
		for i := 0; i < n; i++ {
			var k string
			if g.r.Chance(70) {
				w.Puts = append(w.Puts, g.put(&k))
			} else {
				w.Deletes = append(w.Deletes, &proto.DeleteRequest{Key: hx.Pick(g.r, userKeys)})
			}
		}
		kind = "multi-op-batch"
	}
	if o != nil {
		o.Count("write:" + kind)
	}
	return w
}

type step struct {
	kind string // W S A F Q
	f    int    // follower index for A
	upto int64  // offset for S / A
	req  *proto.WriteRequest
}

// leaderSchedule builds a schedule for a leader with rf replicas (rf-1 stub followers).
func leaderSchedule(r *hx.Rng, o *hx.Out, rf int, nWrites int, base int64) []step {
	g := &wgen{r: r.Fork(), nextOff: base}
	var st []step
	issued, synced := base-1, base-1 // highest offset issued / whose sync completion was released
	acked := make([]int64, rf-1)
	for i := range acked {
		acked[i] = base - 1
	}
	written := 0
	for written < nWrites || synced < issued {
		x := r.Intn(100)
		switch {
		case x < 38 && written < nWrites && issued-synced < 6:
			issued++
			written++
			st = append(st, step{kind: "W", req: g.next(o), upto: issued})
		case x < 62 && synced < issued:
			synced += 1 + int64(r.Intn(int(issued-synced)))
			st = append(st, step{kind: "S", upto: synced})
		case x < 86 && rf > 1:
			f := r.Intn(rf - 1)
			if acked[f] < synced {
				acked[f] += 1 + int64(r.Intn(int(synced-acked[f])))
				st = append(st, step{kind: "A", f: f, upto: acked[f]})
			}
		case x < 95:
			st = append(st, step{kind: "F"})
		case x < 98:
			st = append(st, step{kind: "Q"})
			synced = issued
			for i := range acked {
				acked[i] = issued
			}
		}
	}
	st = append(st, step{kind: "Q"})
	return st
}

func fmtSteps(st []step) string {
	s := ""
	for _, x := range st {
		switch x.kind {
		case "W":
			s += fmt.Sprintf("W%d ", x.upto)
		case "S":
			s += fmt.Sprintf("S%d ", x.upto)
		case "A":
			s += fmt.Sprintf("A%d:%d ", x.f, x.upto)
		default:
			s += x.kind + " "
		}
	}
	return s
}
