package main

// Observing wrapper around the real kv.Factory / kv.KV / kv.WriteBatch (interfaces of server/kv).
// It does not change any behaviour; it records, for every committed batch, the commit offset that the
// batch wrote under __oxia/commit-offset (ProcessWrite puts it in the same batch as the effects), so
// that the order of log application is an API-level observable, and it gives the harness access to
// the open KV for dumps and explicit flushes. NewWriteBatch can be paused by the schedule.

import (
	"fmt"
	"sort"
	"strings"
	"sync"

	"github.com/oxia-db/oxia/proto"
	"github.com/oxia-db/oxia/server/kv"
)

const (
	commitOffsetKey = "__oxia/commit-offset"
	termKeyPrefix   = "__oxia/term"
	notifPrefix     = "__oxia/notifications/"
)

type applied struct {
	offset int64 // commit offset written by the batch
	before int64 // commit offset stored in the DB when the batch committed
	phase  string
	dbgen  int
}

type kvFactory struct {
	real kv.Factory
	mu   sync.Mutex
	// serialises batch commits so that the application log is in commit order
	commitMu sync.Mutex
	cur      *kvW
	gen      int
	// log of applications, in commit order
	log   []applied
	phase string
	// beforeBatch, when set, runs at the start of NewWriteBatch (outside any harness lock)
	beforeBatch func(n int)
	nBatches    int
	// afterCommit runs after every committed batch (outside the harness locks)
	afterCommit func()
}

func (f *kvFactory) NewKV(namespace string, shard int64) (kv.KV, error) {
	k, err := f.real.NewKV(namespace, shard)
	if err != nil {
		return nil, err
	}
	w := &kvW{KV: k, f: f}
	w.commit = readCommitRaw(k)
	f.mu.Lock()
	f.gen++
	w.gen = f.gen
	f.cur = w
	f.mu.Unlock()
	return w, nil
}
func (f *kvFactory) NewSnapshotLoader(namespace string, shard int64) (kv.SnapshotLoader, error) {
	return f.real.NewSnapshotLoader(namespace, shard)
}
func (f *kvFactory) Close() error { return f.real.Close() }
func (f *kvFactory) current() *kvW {
	f.mu.Lock()
	defer f.mu.Unlock()
	return f.cur
}
func (f *kvFactory) setPhase(p string) {
	f.mu.Lock()
	f.phase = p
	f.mu.Unlock()
}
func (f *kvFactory) takeLog() []applied {
	f.mu.Lock()
	defer f.mu.Unlock()
	l := f.log
	f.log = nil
	return l
}

type kvW struct {
	kv.KV
	f      *kvFactory
	gen    int
	commit int64 // commit offset stored in the DB (tracked from the committed batches)
	closed bool
}

func (k *kvW) NewWriteBatch() kv.WriteBatch {
	k.f.mu.Lock()
	k.f.nBatches++
	n := k.f.nBatches
	hook := k.f.beforeBatch
	k.f.mu.Unlock()
	if hook != nil {
		hook(n)
	}
	return &batchW{WriteBatch: k.KV.NewWriteBatch(), k: k, commitPut: -2}
}

func (k *kvW) Close() error {
	k.f.mu.Lock()
	k.closed = true
	k.f.mu.Unlock()
	return k.KV.Close()
}

type batchW struct {
	kv.WriteBatch
	k         *kvW
	commitPut int64
}

func (b *batchW) Put(key string, value []byte) error {
	if key == commitOffsetKey {
		se := &proto.StorageEntry{}
		if err := se.UnmarshalVT(value); err == nil {
			var v int64
			if _, err := fmt.Sscanf(string(se.Value), "%d", &v); err == nil {
				b.commitPut = v
			}
		}
	}
	return b.WriteBatch.Put(key, value)
}

func (b *batchW) Commit() error {
	// the order of Commit calls is the order in which Pebble applies the batches only if commits do
	// not overlap; the log application paths of the server never commit two batches concurrently
	// unless the property is violated, and then either order shows the violation.
	b.k.f.commitMu.Lock()
	err := b.WriteBatch.Commit()
	if err == nil && b.commitPut != -2 {
		b.k.f.mu.Lock()
		b.k.f.log = append(b.k.f.log, applied{offset: b.commitPut, before: b.k.commit, phase: b.k.f.phase, dbgen: b.k.gen})
		b.k.commit = b.commitPut
		b.k.f.mu.Unlock()
	}
	b.k.f.commitMu.Unlock()
	if err == nil && b.k.f.afterCommit != nil {
		// a batch boundary is a crash instant too: Pebble may flush its memtable at any moment
		b.k.f.afterCommit()
	}
	return err
}

func readCommitRaw(k kv.KV) int64 {
	_, value, closer, err := k.Get(commitOffsetKey, kv.ComparisonEqual)
	if err != nil {
		return -1
	}
	defer closer.Close()
	se := &proto.StorageEntry{}
	if err := se.UnmarshalVT(value); err != nil {
		return -1
	}
	var v int64
	if _, err := fmt.Sscanf(string(se.Value), "%d", &v); err != nil {
		return -1
	}
	return v
}

// dumpKV lists every key of the DB (internal ones included) with a canonical rendering of its value.
// Excluded: __oxia/term and __oxia/term-options (written outside the log by UpdateTerm, wall-clock stamped;
// their durability is C05's subject). Notification batches are decoded because their protobuf map has no
// canonical byte order.
func dumpKV(k kv.KV) []string {
	it, err := k.RangeScan("", "")
	must(err)
	defer it.Close()
	var res []string
	for ; it.Valid(); it.Next() {
		key := it.Key()
		if strings.HasPrefix(key, termKeyPrefix) {
			continue
		}
		v, err := it.Value()
		must(err)
		res = append(res, fmt.Sprintf("%q=%s", key, canonValue(key, v)))
	}
	return res
}

func canonValue(key string, v []byte) string {
	if strings.HasPrefix(key, notifPrefix) {
		nb := &proto.NotificationBatch{}
		if err := nb.UnmarshalVT(v); err == nil {
			var ks []string
			for k, n := range nb.Notifications {
				vid := int64(-1)
				if n.VersionId != nil {
					vid = *n.VersionId
				}
				end := ""
				if n.KeyRangeLast != nil {
					end = *n.KeyRangeLast
				}
				ks = append(ks, fmt.Sprintf("%q:%d:%d:%q", k, n.Type, vid, end))
			}
			sort.Strings(ks)
			return fmt.Sprintf("notif{shard=%d off=%d ts=%d [%s]}", nb.Shard, nb.Offset, nb.Timestamp, strings.Join(ks, ","))
		}
	}
	return fmt.Sprintf("%x", v)
}

func diffDumps(a, b []string) string {
	m := map[string]int{}
	for _, x := range a {
		m[x] |= 1
	}
	for _, x := range b {
		m[x] |= 2
	}
	var onlyA, onlyB []string
	for k, v := range m {
		switch v {
		case 1:
			onlyA = append(onlyA, k)
		case 2:
			onlyB = append(onlyB, k)
		}
	}
	sort.Strings(onlyA)
	sort.Strings(onlyB)
	cut := func(l []string) string {
		if len(l) > 3 {
			l = append(l[:3:3], fmt.Sprintf("(+%d more)", len(l)-3))
		}
		s := strings.Join(l, " ; ")
		if len(s) > 700 {
			s = s[:700] + "..."
		}
		return s
	}
	if len(onlyA) == 0 && len(onlyB) == 0 {
		return ""
	}
	return fmt.Sprintf("only in DB: [%s] only in fold: [%s]", cut(onlyA), cut(onlyB))
}
