package main

import (
	"context"
	"errors"
	"fmt"
	"os"
	"runtime"
	"strings"
	"sync/atomic"
	"time"

	"github.com/oxia-db/oxia/common/concurrent"
	"github.com/oxia-db/oxia/proto"
	"github.com/oxia-db/oxia/server"

	"verif/harness/internal/hx"
)

// the bound of every wait for a step of a schedule; a case that does not complete is re-run with larger bounds
const baseStepTimeout = 8 * time.Second

var stepTimeout = baseStepTimeout

var srvConfig = server.Config{NotificationsRetentionTime: time.Hour}

func waitFor(d time.Duration, cond func() bool) bool {
	deadline := time.Now().Add(d)
	for !cond() {
		if time.Now().After(deadline) {
			if dir := os.Getenv("C07_STUCKDUMP"); dir != "" && d >= baseStepTimeout {
				_, file, line, _ := runtime.Caller(1)
				_, file2, line2, _ := runtime.Caller(2)
				buf := make([]byte, 8<<20)
				n := runtime.Stack(buf, true)
				os.WriteFile(fmt.Sprintf("%s/wait-%d.txt", dir, time.Now().UnixNano()),
					append([]byte(fmt.Sprintf("wait of %v expired at %s:%d <- %s:%d\n\n", d, file, line, file2, line2)), buf[:n]...), 0o644)
			}
			return false
		}
		time.Sleep(20 * time.Microsecond)
	}
	return true
}

// waitLive is waitFor that gives up as soon as the crash instant has been reached: what is awaited may
// depend on an operation that the crash interrupted.
func waitLive(n *node, d time.Duration, cond func() bool) bool {
	return waitFor(d, func() bool { return cond() || n.clk.isCrashed() }) && cond()
}

func followerName(i int) string { return fmt.Sprintf("f%d", i) }

type leaderRun struct {
	n            *node
	lc           server.LeaderController
	rpc          *rpcStub
	rf           int
	acked        []int64
	issued       int64
	done         atomic.Int64 // client callbacks completed (ok or error)
	nIssued      int64
	sessionCalls atomic.Int64    // CreateSession calls of the harness that have not returned
	nextCtx      context.Context // the context of the next write (a client that may give up)
	refused      bool            // a generated request was not accepted by the leader: the schedule cannot be followed
}

func startLeader(n *node, rf int, term int64, heads *proto.EntryId) (*leaderRun, error) {
	lr := &leaderRun{n: n, rf: rf, rpc: newRpcStub()}
	var err error
	lr.lc, err = server.NewLeaderController(srvConfig, ns, shardId, lr.rpc, n.walf, n.kvf)
	if err != nil {
		lr.lc = nil
		return lr, err
	}
	if _, err = lr.lc.NewTerm(&proto.NewTermRequest{Namespace: ns, Shard: shardId, Term: term}); err != nil {
		return lr, err
	}
	fm := map[string]*proto.EntryId{}
	for i := 0; i < rf-1; i++ {
		fm[followerName(i)] = heads
	}
	ctx, cancel := context.WithTimeout(context.Background(), stepTimeout)
	defer cancel()
	if _, err = lr.lc.BecomeLeader(ctx, &proto.BecomeLeaderRequest{Namespace: ns, Shard: shardId, Term: term, ReplicationFactor: uint32(rf), FollowerMaps: fm}); err != nil {
		return lr, err
	}
	lr.acked = make([]int64, rf-1)
	for i := range lr.acked {
		lr.acked[i] = heads.Offset
	}
	lr.issued = heads.Offset
	return lr, nil
}

// write hands one more request to the leader. A session record is created through the leader's own
// CreateSession (clients cannot write internal keys); it blocks until the write is applied, so it runs
// aside and the harness goes on once the entry has reached the WAL.
func (lr *leaderRun) write(req *proto.WriteRequest) {
	expected := lr.issued + 1
	if len(req.Puts) == 1 && strings.HasPrefix(req.Puts[0].Key, "__oxia/session/") {
		lr.nIssued++
		lr.sessionCalls.Add(1)
		go func() {
			lr.lc.CreateSession(&proto.CreateSessionRequest{Shard: shardId, SessionTimeoutMs: 300000, ClientIdentity: "cli"})
			lr.done.Add(1)
			lr.sessionCalls.Add(-1)
		}()
		waitLive(lr.n, stepTimeout, func() bool { _, a := lr.n.walf.current().heads(); return a >= expected })
	} else {
		lr.nIssued++
		ctx := lr.nextCtx
		lr.nextCtx = nil
		if ctx == nil {
			ctx = context.Background()
		}
		lr.lc.Write(ctx, req, concurrent.NewOnce(
			func(*proto.WriteResponse) { lr.done.Add(1) },
			func(error) { lr.done.Add(1) }))
	}
	if _, a := lr.n.walf.current().heads(); a < expected && !lr.n.clk.isCrashed() {
		// the leader refused the request before giving it an offset
		lr.refused = true
		return
	}
	lr.issued = expected
}

func (lr *leaderRun) ack(f int, upto int64) bool {
	name := followerName(f)
	if !waitLive(lr.n, stepTimeout, func() bool { s := lr.rpc.get(name); return s != nil && s.lastPushed() >= upto }) {
		return false
	}
	s := lr.rpc.get(name)
	for o := lr.acked[f] + 1; o <= upto; o++ {
		s.acks <- &proto.Ack{Offset: o}
	}
	if upto > lr.acked[f] {
		lr.acked[f] = upto
	}
	return waitLive(lr.n, stepTimeout, func() bool { return server.VerifFollowerAckOffset(lr.lc, name) >= upto })
}

// exec runs one step; false = the step could not complete (crash instant reached, or a timeout).
func (lr *leaderRun) exec(s step) bool {
	switch s.kind {
	case "W":
		lr.write(s.req)
		return !lr.refused
	case "S":
		lr.n.g.releaseUpTo(s.upto)
		return lr.n.g.waitDone(s.upto, stepTimeout)
	case "A":
		return lr.ack(s.f, s.upto)
	case "F":
		if k := lr.n.kvf.current(); k != nil {
			return k.KV.Flush() == nil
		}
	case "Q":
		lr.n.g.releaseUpTo(lr.issued)
		if !lr.n.g.waitDone(lr.issued, stepTimeout) {
			return false
		}
		for f := range lr.acked {
			if !lr.ack(f, lr.issued) {
				return false
			}
		}
		return waitLive(lr.n, stepTimeout, func() bool { return lr.done.Load() >= lr.nIssued })
	}
	return true
}

// acksConsumed: no ack is queued in a stub stream, and every cursor's receive loop is blocked in the stub's Recv
// (so none of them is between Recv and the end of the tracker's Ack), and no ProcessWrite is running.
func (lr *leaderRun) acksConsumed() bool {
	lr.rpc.mu.Lock()
	for _, f := range lr.rpc.followers {
		if len(f.acks) > 0 && f.ctx.Err() == nil {
			lr.rpc.mu.Unlock()
			return false
		}
	}
	lr.rpc.mu.Unlock()
	buf := make([]byte, 1<<20)
	n := runtime.Stack(buf, true)
	for _, g := range strings.Split(string(buf[:n]), "\n\n") {
		if strings.Contains(g, "followerCursor).receiveAcks") && !strings.Contains(g, "main.(*followerStub).Recv") {
			return false
		}
		if strings.Contains(g, "kv.(*db).ProcessWrite") && !strings.Contains(g, "main.(*parker).hook") {
			return false
		}
	}
	return true
}

// close stops the controller first (the tracker is closed, parked sync completions then complete with an
// error instead of applying), only then lets the parked completions go.
// macro is the step in the vocabulary of the model (Oxia.Crash.Driver), with what the tracker and the WAL
// report after it: quorum commit offset and number of durable entries.
func (lr *leaderRun) macro(s step) string {
	q, sy := int64(0), int64(0)
	if st, err := lr.lc.GetStatus(&proto.GetStatusRequest{Shard: shardId}); err == nil {
		q = st.CommitOffset + 1
	}
	if w := lr.n.walf.current(); w != nil {
		synced, _ := w.heads()
		sy = synced + 1
	}
	switch s.kind {
	case "W":
		return "W"
	case "S":
		return fmt.Sprintf("S:%d:%d:%d", s.upto, q, sy)
	case "A":
		return fmt.Sprintf("C:%d", q)
	case "F":
		return "F"
	case "Q":
		return fmt.Sprintf("S:%d:%d:%d", lr.issued, q, sy)
	}
	return "?"
}

func (lr *leaderRun) close() {
	// LeaderController.Close closes the DB without waiting for an acknowledgement that a cursor is still
	// processing (which may apply a write): let the acks that were sent be consumed first.
	// A CreateSession whose write has just been applied registers its session (a goroutine with an expiry
	// timer) without looking whether the session manager has been closed meanwhile: such a session outlives the
	// controller, and when it expires (minutes later) its cleanup lists keys through the closed controller
	// (lc.db == nil) in a goroutine of its own - the process dies. So no CreateSession may be between "write
	// applied" and "session registered" when the controller is closed.
	if os.Getenv("C07_NO_SETTLE") == "" {
		waitFor(stepTimeout, func() bool { return lr.acksConsumed() && createSessionSettled() })
	} else {
		waitFor(stepTimeout, lr.acksConsumed)
	}
	if lr.lc != nil {
		lr.lc.Close()
	}
	lr.n.g.openAll()
	// The CreateSession calls the harness made have returned - or stay blocked for good: a write whose sync
	// completion was still queued in the WAL's sync channel when the WAL was closed never gets its callback (the
	// sync goroutine just ends), so its writeBlock never returns. Such a call can no longer register a session.
	waitFor(stepTimeout, func() bool { return lr.sessionCalls.Load() == 0 || createSessionSettled() })
	lr.n.closeFactories()
}

// createSessionSettled: every CreateSession in progress is still waiting for its write (blocked on the channel
// of writeBlock); a goroutine that has been handed the response is runnable, not "chan receive".
func createSessionSettled() bool {
	buf := make([]byte, 1<<20)
	n := runtime.Stack(buf, true)
	for _, g := range strings.Split(string(buf[:n]), "\n\n") {
		if strings.Contains(g, "sessionManager).createSession") {
			if !strings.Contains(g, "leaderController).writeBlock") || !strings.HasPrefix(g[strings.Index(g, "[")+1:], "chan receive") {
				return false
			}
		}
	}
	return true
}

// leakedSessions counts session goroutines that exist although no controller of the harness is open.
func leakedSessions() int {
	buf := make([]byte, 1<<20)
	n := runtime.Stack(buf, true)
	return strings.Count(string(buf[:n]), "server.(*session).waitForHeartbeats(")
}

func runLeaderCase(o *hx.Out, p params) (string, int64) {
	r := hx.NewRng(p.wseed)
	var cnt *hx.Out
	if p.crashAt < 0 {
		cnt = o // count the generated operations once per workload
	}
	steps := leaderSchedule(r, cnt, p.rf, p.nw, 0)
	n := newNode(surv{}, p.crashAt, p.mode, p.cut, true)
	n.kvf.setPhase("live")
	lr, err := startLeader(n, p.rf, 1, server.InvalidEntryId)
	if err != nil && !n.clk.isCrashed() {
		controllerFailed(o, p, "a leader on an empty node", err)
		lr.close()
		return "start-error", 0
	}
	if p.crashAt < 0 {
		startOps = n.clk.count()
	}
	stuck := ""
	tr := newTracer(n)
	tr.on = err == nil && !n.clk.isCrashed()
	inFlush := false
	if err == nil {
		tr.step("SL")
		for i, s := range steps {
			if n.clk.isCrashed() {
				break
			}
			done := lr.exec(s)
			if n.clk.isCrashed() {
				inFlush = s.kind == "F"
				if s.kind == "W" {
					tr.pendingAppend = "W"
				}
				break
			}
			if !done {
				stuck = fmt.Sprintf("step %d (%s%d) of [%s] did not complete", i, s.kind, s.upto, fmtSteps(steps))
				break
			}
			tr.step(lr.macro(s))
		}
	}
	crashed := n.clk.isCrashed()
	total := n.clk.count()
	lr.close()
	live := n.kvf.takeLog()
	checkLive(o, p, live, fmtSteps(steps))
	if lr.refused {
		o.Count("request-refused-by-leader")
		return "refused", 0
	}
	if stuck != "" {
		reportStuck(o, p, stuck)
		return "stuck", 0
	}
	if !crashed {
		// graceful stop: Close flushed; what is on the filesystem must be the fold of the whole log
		o.Count("leader:no-crash-run")
		res := restartAndCheck(o, p, surv{mem: n.mem, walDir: n.walDir}, "graceful", fmtSteps(steps))
		tr.finish(o, p, false, false)
		return "total=" + fmt.Sprint(total) + " " + res, total
	}
	o.Count("leader:crash@" + n.clk.atKind)
	o.Count("crash-mode:" + p.mode)
	res := restartAndCheck(o, p, n.survivingState(), "crash@"+n.clk.atKind, fmtSteps(steps))
	if n.clk.atKind != "db:commit" {
		// (a crash right after a batch commit with a spontaneous flush lands inside a step: no macro for it)
		tr.finish(o, p, true, inFlush)
	}
	return res, total
}

// controllerFailed: NewTerm / BecomeLeader (= the replay of the log from the DB's commit offset) returned an
// error on a state that the schedule reached legitimately: the log cannot be applied.
func controllerFailed(o *hx.Out, p params, where string, err error) {
	if errors.Is(err, context.DeadlineExceeded) || strings.Contains(err.Error(), "deadline exceeded") {
		// the bound the harness put on the call expired: a matter of time, handled like a step that does not complete
		reportStuck(o, p, where+" does not complete within the harness's bound: "+err.Error())
		return
	}
	o.Violation("crash:entry-skipped", fmt.Sprintf("%s %s: %s cannot be started / cannot replay its log: %v", p.leg, p.String(), where, err))
}

// reportStuck: a step of the schedule that the implementation does not complete (a write that never gets
// applied although its quorum is there, a follower that does not apply what was advertised and synced):
// the schedule is one the model admits, so this is a broken correspondence.
func reportStuck(o *hx.Out, p params, what string) {
	o.Count("schedule-stuck")
	if d := os.Getenv("C07_STUCKDUMP"); d != "" {
		// diagnosis: who waits for what at the moment the bound expires
		buf := make([]byte, 8<<20)
		n := runtime.Stack(buf, true)
		os.WriteFile(fmt.Sprintf("%s/stuck-%d.txt", d, time.Now().UnixNano()),
			append([]byte(p.leg+" "+p.String()+": "+what+" (bound "+stepTimeout.String()+")\n\n"), buf[:n]...), 0o644)
	}
	pendingStuck = p.leg + " " + p.String() + ": " + what
}

// A step that does not complete within its time limit is only reported if the same case does not complete in any of
// three executions with growing limits (x1, x4, x10), and the machine is not starved at that moment: the verdict
// "does not complete" depends on wall-clock time, unlike all the others.
var pendingStuck string

// checkLive: every application before the crash must have happened at commit+1.
func checkLive(o *hx.Out, p params, log []applied, sched string) {
	bad := 0
	for _, a := range log {
		if a.offset != a.before+1 {
			o.Violation("apply:out-of-offset-order", fmt.Sprintf("%s %s: entry %d was applied (phase %s) while the DB's commit offset was %d; schedule [%s]",
				p.leg, p.String(), a.offset, a.phase, a.before, sched))
			if a.offset > a.before+1 {
				o.Violation("crash:entry-skipped", fmt.Sprintf("%s %s: the DB holds commit offset %d without the entries %d..%d (a crash at this moment restarts replay at %d); schedule [%s]",
					p.leg, p.String(), a.offset, a.before+1, a.offset-1, a.offset+1, sched))
			} else {
				o.Violation("crash:entry-applied-twice", fmt.Sprintf("%s %s: entry %d was applied on top of a DB at commit offset %d, which takes the stored commit offset back to %d: the entries %d..%d are in the DB and a restart replays them again; schedule [%s]",
					p.leg, p.String(), a.offset, a.before, a.offset, a.offset+1, a.before, sched))
			}
			bad++
		}
	}
	if bad > 0 {
		return
	}
	o.CountN("live-applications-checked", len(log))
}
