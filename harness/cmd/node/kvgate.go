// A kv.Factory wrapper (outermost; kvsafe stays innermost): remembers the KV handle the controller opened, so that the
// harness can read the node's state through it, and can park the follower's apply goroutine inside a DB call.
package main

import (
	"sync"

	"github.com/oxia-db/oxia/proto"
	"github.com/oxia-db/oxia/server/kv"
)

type capKvFactory struct {
	kv.Factory
	mu   sync.Mutex
	last *gateKV
	park *parkT // when set, the next NewWriteBatch parks here
}

func (f *capKvFactory) NewKV(namespace string, shardId int64) (kv.KV, error) {
	k, err := f.Factory.NewKV(namespace, shardId)
	if err != nil {
		return nil, err
	}
	g := &gateKV{KV: k, f: f}
	f.mu.Lock()
	f.last = g
	f.mu.Unlock()
	return g, nil
}

func (f *capKvFactory) armBatchPark() *parkT {
	pk := &parkT{arrived: make(chan struct{}), release: make(chan struct{})}
	f.mu.Lock()
	f.park = pk
	f.mu.Unlock()
	return pk
}

func (f *capKvFactory) disarm() {
	f.mu.Lock()
	f.park = nil
	f.mu.Unlock()
}

type gateKV struct {
	kv.KV
	f      *capKvFactory
	closed bool
}

func (g *gateKV) NewWriteBatch() kv.WriteBatch {
	g.f.mu.Lock()
	pk := g.f.park
	g.f.park = nil
	g.f.mu.Unlock()
	if pk != nil {
		close(pk.arrived)
		<-pk.release
	}
	return g.KV.NewWriteBatch()
}

func (g *gateKV) Close() error {
	g.f.mu.Lock()
	g.closed = true
	g.f.mu.Unlock()
	return g.KV.Close()
}

// readKey returns (value, version id, modifications count, found) of a key in the node's DB, read through the KV handle
// the controller currently has open.
func (f *capKvFactory) readKey(key string) (val []byte, version, mods int64, found bool) {
	f.mu.Lock()
	g := f.last
	closed := g == nil || g.closed
	f.mu.Unlock()
	if closed {
		return nil, 0, 0, false
	}
	_, raw, closer, err := g.KV.Get(key, kv.ComparisonEqual)
	if err != nil {
		return nil, 0, 0, false
	}
	defer closer.Close()
	se := &proto.StorageEntry{}
	if err := se.UnmarshalVT(raw); err != nil {
		return nil, 0, 0, false
	}
	return append([]byte(nil), se.Value...), se.VersionId, se.ModificationsCount, true
}
