// Snapshot install: chunks of a real Pebble snapshot whose commit offset is c, sent through the real
// SendSnapshot handler on an in-process stream.
package main

import (
	"bytes"
	"context"
	"errors"
	"fmt"
	"os"
	"runtime"
	"strconv"
	"time"

	"google.golang.org/grpc/metadata"

	oxtime "github.com/oxia-db/oxia/common/time"
	"github.com/oxia-db/oxia/proto"
	"github.com/oxia-db/oxia/server/kv"

	"verif/harness/internal/hx"
	"verif/harness/internal/kvsafe"
)

type chunkRec struct {
	name         string
	index, count int32
	content      []byte
}

var snapCache = map[int64][]chunkRec{}

func snapshotChunks(c int64) []chunkRec {
	if r, ok := snapCache[c]; ok {
		return r
	}
	base := os.Getenv("VERIF_TMP")
	if base == "" {
		base = "/var/tmp"
	}
	dir, err := os.MkdirTemp(base, "snap-")
	hx.Must(err)
	defer os.RemoveAll(dir)
	f, err := kvsafe.New(&kv.FactoryOptions{DataDir: dir, CacheSizeMB: 1})
	hx.Must(err)
	db, err := kv.NewDB(namespace, shardId, f, time.Hour, oxtime.SystemClock)
	hx.Must(err)
	for i := int64(0); i <= c; i++ {
		_, err := db.ProcessWrite(&proto.WriteRequest{Puts: []*proto.PutRequest{{Key: "k", Value: payBytes(1000 + i)}}},
			i, 1, kv.NoOpCallback)
		hx.Must(err)
	}
	s, err := db.Snapshot()
	hx.Must(err)
	var res []chunkRec
	for ; s.Valid(); s.Next() {
		ch, err := s.Chunk()
		hx.Must(err)
		res = append(res, chunkRec{ch.Name(), ch.Index(), ch.TotalCount(), append([]byte(nil), ch.Content()...)})
	}
	_ = s.Close()
	_ = db.Close()
	_ = f.Close()
	snapCache[c] = res
	return res
}

var errStreamReset = errors.New("snapshot stream reset by harness")

// snapStream: the server side of SendSnapshot.  fail: 0 all chunks then end of stream, 1 the stream fails before the
// first chunk, 2 it fails after the first chunk, 3 the second chunk carries another term.
type snapStream struct {
	h      *H
	ctx    context.Context
	term   int64
	chunks []chunkRec
	next   int
	fail   int
	recvs  int
	resp   *proto.SnapshotResponse
}

func (s *snapStream) SendAndClose(r *proto.SnapshotResponse) error { s.resp = r; return nil }
func (s *snapStream) Recv() (*proto.SnapshotChunk, error) {
	s.recvs++
	// a race may park the handler right before the i-th chunk is delivered
	parkMu.Lock()
	p := s.h.callPark
	if p != nil && p.kind == "recv" {
		p.n--
		if p.n > 0 {
			p = nil
		} else {
			s.h.callPark = nil
		}
	} else {
		p = nil
	}
	parkMu.Unlock()
	if p != nil {
		close(p.arrived)
		<-p.release
	}
	if s.fail == 1 && s.next == 0 {
		return nil, errStreamReset
	}
	if s.fail == 2 && s.next == 1 {
		return nil, errStreamReset
	}
	if s.next >= len(s.chunks) {
		return nil, nil
	}
	c := s.chunks[s.next]
	t := s.term
	if s.fail == 3 && s.next >= 1 {
		t = s.term + 100
	}
	s.next++
	return &proto.SnapshotChunk{Term: t, Name: c.name, ChunkIndex: c.index, ChunkCount: c.count, Content: c.content}, nil
}
func (s *snapStream) SetHeader(metadata.MD) error  { return nil }
func (s *snapStream) SendHeader(metadata.MD) error { return nil }
func (s *snapStream) SetTrailer(metadata.MD)       {}
func (s *snapStream) Context() context.Context     { return s.ctx }
func (s *snapStream) SendMsg(any) error            { return fmt.Errorf("not implemented") }
func (s *snapStream) RecvMsg(any) error            { return fmt.Errorf("not implemented") }

func (h *H) doSnapshot(sid int, t, c int64, fail int) {
	md := metadata.Pairs("shard-id", strconv.FormatInt(shardId, 10), "namespace", namespace, "term", strconv.FormatInt(t, 10))
	st := &snapStream{h: h, ctx: metadata.NewIncomingContext(context.Background(), md), term: t, chunks: snapshotChunks(c), fail: fail}
	h.mu.Lock()
	lenBefore := len(h.shadow)
	h.mu.Unlock()
	err := safe(func() error { return h.rpc.SendSnapshot(st) })
	if h.racing {
		waitNoGoroutineIn("followerController).handleSnapshot")
	}
	res := errKind(err)
	if err == nil {
		if st.resp != nil {
			res = fmt.Sprintf("snap:%d", st.resp.AckOffset)
			h.olderAccepted("SendSnapshot", t)
			h.termActionAccepted(t)
		} else {
			res = "err:noresponse"
		}
	} else if st.next >= 1 && (fail == 2 || fail == 3) {
		// the install failed after its first chunk was accepted: the DB directory has been emptied
		h.snapFailed = true
		_ = lenBefore
		h.termActionAccepted(t) // the log was cleared on behalf of the leader of term t
	}
	act := fmt.Sprintf("SN:%d:%d:%d", sid, t, c)
	if fail != 0 {
		act = fmt.Sprintf("SN:%d:%d:%d:%d", sid, t, c, fail)
	}
	h.record(act, res)
}

// doSnapshotQuiet: SendSnapshot without recording (used from a second goroutine)
func (h *H) doSnapshotQuiet(sid int, t, c int64) {
	md := metadata.Pairs("shard-id", strconv.FormatInt(shardId, 10), "namespace", namespace, "term", strconv.FormatInt(t, 10))
	st := &snapStream{h: h, ctx: metadata.NewIncomingContext(context.Background(), md), term: t, chunks: snapshotChunks(c)}
	_ = safe(func() error { return h.rpc.SendSnapshot(st) })
	waitNoGoroutineIn("followerController).handleSnapshot")
}

// waitNoGoroutineIn waits (bounded) until no goroutine of the process is inside the given function: SendSnapshot can return
// (its stream was closed by another request) while the handler goroutine it started is still running.
func waitNoGoroutineIn(fn string) {
	buf := make([]byte, 1<<20)
	deadline := time.Now().Add(3 * time.Second)
	for {
		n := runtime.Stack(buf, true)
		for n == len(buf) && len(buf) < 64<<20 {
			buf = make([]byte, 2*len(buf))
			n = runtime.Stack(buf, true)
		}
		if !bytes.Contains(buf[:n], []byte(fn)) || time.Now().After(deadline) {
			return
		}
		time.Sleep(time.Millisecond)
	}
}
